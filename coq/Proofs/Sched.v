(* Facts about schedules of independent chain machines (Model/Sched.v): executing any schedule
   equals running every chain in isolation for as many steps as the schedule gives it, hence the
   result depends on the schedule only through the per-chain step counts (in particular it is
   invariant under permutations); the history of one chain does not depend on the other chains;
   with one shared stream the order matters.  Plus two small facts used by C08: distinct chains'
   proposal generators start from distinct states, and the rows of a row-major batch read
   disjoint index ranges. *)
From MiniMcmc Require Import Model.Seeds Proofs.Rng Base.Util Model.Sched.
From Coq Require Import Permutation.
Close Scope N_scope.
Open Scope nat_scope.

Lemma filter_map_swap {A B} (f : B -> bool) (g : A -> B) (l : list A) :
  filter f (map g l) = map g (filter (fun x => f (g x)) l).
Proof.
  induction l as [|a l IH]; [reflexivity|].
  cbn [map filter]. destruct (f (g a)); cbn [map]; rewrite IH; reflexivity.
Qed.

Section Private.
  Context {St : Type}.
  Variable step : nat -> St -> St.
  Variable d : St.

  Lemma exec1_length : forall (v : list St) i, length (exec1 step d v i) = length v.
  Proof. intros v i. unfold exec1. apply upd_length. Qed.

  Lemma exec_cons : forall i sched (v : list St),
    exec step d (i :: sched) v = exec step d sched (exec1 step d v i).
  Proof. reflexivity. Qed.

  (* (S4) *)
  Lemma exec_length : forall sched (v : list St), length (exec step d sched v) = length v.
  Proof.
    induction sched as [|i sched IH]; intros v; [reflexivity|].
    rewrite exec_cons, IH. apply exec1_length.
  Qed.

  Lemma exec_app : forall s1 s2 (v : list St),
    exec step d (s1 ++ s2) v = exec step d s2 (exec step d s1 v).
  Proof. intros s1 s2 v. unfold exec. apply fold_left_app. Qed.

  Lemma isolated_length : forall c (v : list St), length (isolated step c v) = length v.
  Proof.
    intros c v. unfold isolated.
    rewrite map_length, combine_length, seq_length. apply Nat.min_id.
  Qed.

  Lemma nth_isolated : forall c (v : list St) k, k < length v ->
    nth k (isolated step c v) d = iter (c k) (step k) (nth k v d).
  Proof.
    intros c v k Hk. unfold isolated.
    rewrite (nth_map_lt _ _ k d (0, d))
      by (rewrite combine_length, seq_length, Nat.min_id; exact Hk).
    rewrite combine_nth by apply seq_length.
    rewrite seq_nth by exact Hk. reflexivity.
  Qed.

  (* isolated depends on the counts only pointwise, at indices below the length *)
  Lemma isolated_ext : forall c1 c2 (v : list St),
    (forall k, k < length v -> c1 k = c2 k) -> isolated step c1 v = isolated step c2 v.
  Proof.
    intros c1 c2 v H. apply (list_eq_nth d).
    - rewrite !isolated_length. reflexivity.
    - intros k Hk. rewrite isolated_length in Hk.
      rewrite !nth_isolated by exact Hk. rewrite (H k Hk). reflexivity.
  Qed.

  Lemma isolated_zero : forall (v : list St), isolated step (fun _ => 0) v = v.
  Proof.
    intros v. apply (list_eq_nth d).
    - apply isolated_length.
    - intros k Hk. rewrite isolated_length in Hk.
      rewrite nth_isolated by exact Hk. reflexivity.
  Qed.

  (* one more step of chain i first = one more step of chain i in the isolated run *)
  Lemma isolated_exec1 : forall c (v : list St) i, i < length v ->
    isolated step c (exec1 step d v i)
    = isolated step (fun j => if Nat.eq_dec i j then S (c j) else c j) v.
  Proof.
    intros c v i Hi. apply (list_eq_nth d).
    - rewrite !isolated_length. apply exec1_length.
    - intros k Hk. rewrite isolated_length, exec1_length in Hk.
      rewrite nth_isolated by (rewrite exec1_length; exact Hk).
      rewrite nth_isolated by exact Hk.
      unfold exec1. destruct (Nat.eq_dec i k) as [E|N].
      + subst k. rewrite nth_upd_same by exact Hi.
        rewrite iter_S_comm. reflexivity.
      + rewrite nth_upd_other by exact N. reflexivity.
  Qed.

  (* (S1) *)
  Lemma exec_isolated : forall sched (v : list St),
    (forall i, In i sched -> i < length v) ->
    exec step d sched v = isolated step (fun i => count_occ Nat.eq_dec sched i) v.
  Proof.
    induction sched as [|i sched IH]; intros v Hr.
    - simpl. symmetry. apply isolated_zero.
    - rewrite exec_cons.
      assert (Hi : i < length v) by (apply Hr; left; reflexivity).
      rewrite IH by (intros j Hj; rewrite exec1_length; apply Hr; right; exact Hj).
      rewrite isolated_exec1 by exact Hi.
      apply isolated_ext. intros k _. simpl.
      destruct (Nat.eq_dec i k); reflexivity.
  Qed.

  (* (S2) *)
  Lemma exec_schedule_independent : forall sched1 sched2 (v : list St),
    (forall i, In i sched1 -> i < length v) ->
    (forall i, In i sched2 -> i < length v) ->
    (forall i, count_occ Nat.eq_dec sched1 i = count_occ Nat.eq_dec sched2 i) ->
    exec step d sched1 v = exec step d sched2 v.
  Proof.
    intros sched1 sched2 v H1 H2 Hc.
    rewrite (exec_isolated sched1 v H1), (exec_isolated sched2 v H2).
    apply isolated_ext. intros k _. apply Hc.
  Qed.

  (* (S3) *)
  Lemma exec_permutation : forall sched1 sched2 (v : list St),
    Permutation sched1 sched2 ->
    (forall i, In i sched1 -> i < length v) ->
    exec step d sched1 v = exec step d sched2 v.
  Proof.
    intros sched1 sched2 v HP H1.
    apply exec_schedule_independent.
    - exact H1.
    - intros i Hi. apply H1. apply (Permutation_in i (Permutation_sym HP)). exact Hi.
    - intros i. apply (proj1 (Permutation_count_occ Nat.eq_dec sched1 sched2) HP).
  Qed.

  (* component k after a schedule: its own count of steps applied to its own start value *)
  Lemma nth_exec : forall sched (v : list St) k,
    (forall i, In i sched -> i < length v) -> k < length v ->
    nth k (exec step d sched v) d = iter (count_occ Nat.eq_dec sched k) (step k) (nth k v d).
  Proof.
    intros sched v k Hr Hk. rewrite (exec_isolated sched v Hr).
    apply nth_isolated. exact Hk.
  Qed.

  (* (S5) the history of chain k: the values component k takes right after each of its own
     steps, in schedule order *)
  Fixpoint trace (k : nat) (sched : list nat) (v : list St) : list St :=
    match sched with
    | [] => []
    | i :: rest =>
        let v' := exec1 step d v i in
        if Nat.eq_dec i k then nth k v' d :: trace k rest v' else trace k rest v'
    end.

  (* the same history, described through prefixes of the schedule: one entry per position p at
     which the schedule runs chain k, namely component k of the state after the first p+1 steps *)
  Lemma trace_prefixes : forall k sched (v : list St),
    trace k sched v
    = map (fun p => nth k (exec step d (firstn (S p) sched) v) d)
          (filter (fun p => if Nat.eq_dec (nth p sched (S k)) k then true else false)
                  (seq 0 (length sched))).
  Proof.
    intros k. induction sched as [|i rest IH]; intros v; [reflexivity|].
    cbn [trace length seq filter nth]. cbv zeta.
    rewrite <- seq_shift, filter_map_swap.
    destruct (Nat.eq_dec i k) as [E|N].
    - cbn [map]. f_equal. rewrite IH, map_map. reflexivity.
    - rewrite IH, map_map. reflexivity.
  Qed.

  Lemma trace_spec : forall k sched (v : list St),
    (forall i, In i sched -> i < length v) -> k < length v ->
    trace k sched v
    = map (fun m => iter (S m) (step k) (nth k v d)) (seq 0 (count_occ Nat.eq_dec sched k)).
  Proof.
    intros k. induction sched as [|i rest IH]; intros v Hr Hk; [reflexivity|].
    assert (Hi : i < length v) by (apply Hr; left; reflexivity).
    assert (Hr' : forall j, In j rest -> j < length (exec1 step d v i))
      by (intros j Hj; rewrite exec1_length; apply Hr; right; exact Hj).
    assert (Hk' : k < length (exec1 step d v i)) by (rewrite exec1_length; exact Hk).
    cbn [trace count_occ]. cbv zeta.
    rewrite (IH _ Hr' Hk'). unfold exec1.
    destruct (Nat.eq_dec i k) as [E|N].
    - subst i. rewrite nth_upd_same by exact Hk.
      cbn [seq map iter]. f_equal.
      rewrite <- seq_shift, map_map. apply map_ext. intros m.
      cbn [iter]. rewrite iter_S_comm. reflexivity.
    - rewrite nth_upd_other by exact N. reflexivity.
  Qed.
End Private.

(* (S6) one stream shared by all chains: each step consumes the next value of a counter stream;
   two chains, the two orders give different results *)
Lemma exec_shared_order_matters :
  exists (step : nat -> nat -> nat -> nat * nat) (v : list nat) (g : nat),
    exec_shared step 0 [0; 1] v g <> exec_shared step 0 [1; 0] v g.
Proof.
  exists (fun _ s g => (s + g, S g)), [0; 0], 1.
  vm_compute. discriminate.
Qed.

(* rows of a row-major n x d batch read disjoint index ranges of the one stream segment *)
Lemma rows_disjoint : forall n d i j a b : nat,
  i <> j -> i < n -> j < n -> a < d -> b < d -> i * d + a <> j * d + b.
Proof.
  intros n d i j a b Hij Hi Hj Ha Hb E.
  destruct (Nat.lt_total i j) as [L|[L|L]]; [|exact (Hij L)|].
  - pose proof (Nat.mul_le_mono_r (S i) j d L) as M. simpl in M. lia.
  - pose proof (Nat.mul_le_mono_r (S j) i d L) as M. simpl in M. lia.
Qed.

Lemma row_index_in_range : forall n d i a : nat, i < n -> a < d -> i * d + a < n * d.
Proof.
  intros n d i a Hi Ha.
  pose proof (Nat.mul_le_mono_r (S i) n d Hi) as M. simpl in M. lia.
Qed.

(* row-major indexing is a bijection between [0,n) x [0,d) and [0, n*d) *)
Lemma row_index_inj : forall d i j a b : nat,
  a < d -> b < d -> i * d + a = j * d + b -> i = j /\ a = b.
Proof.
  intros d i j a b Ha Hb E.
  assert (Hij : i = j).
  { destruct (Nat.lt_total i j) as [L|[L|L]]; [|exact L|].
    - pose proof (Nat.mul_le_mono_r (S i) j d L) as M. simpl in M. lia.
    - pose proof (Nat.mul_le_mono_r (S j) i d L) as M. simpl in M. lia. }
  subst j. split; [reflexivity|lia].
Qed.

Lemma row_index_surj : forall n d p : nat, p < n * d ->
  exists i a, i < n /\ a < d /\ p = i * d + a.
Proof.
  intros n d p Hp. assert (Hd : d <> 0) by (intros ->; rewrite Nat.mul_0_r in Hp; lia).
  exists (p / d), (p mod d). split; [|split].
  - apply Nat.div_lt_upper_bound; [exact Hd|]. rewrite Nat.mul_comm. exact Hp.
  - apply Nat.mod_upper_bound. exact Hd.
  - rewrite (Nat.mul_comm (p / d) d). apply Nat.div_mod. exact Hd.
Qed.

Open Scope N_scope.

Lemma mh_prop_states_distinct : forall s i j, s < W64 -> i < W64 -> j < W64 -> i <> j ->
  seed_from_u64 (mh_prop_seed s i) <> seed_from_u64 (mh_prop_seed s j).
Proof.
  intros s i j Hs Hi Hj Hne E. apply Hne.
  apply seed_from_u64_inj in E;
    [|apply mh_prop_seed_lt; assumption|apply mh_prop_seed_lt; assumption].
  exact (mh_prop_seed_inj s i j Hs Hi Hj E).
Qed.
