(* Proofs about Model/Proposal.v (IsotropicGaussian::sample, the random-walk proposal):
   (1) shape / locality / draw discipline of the IEEE model (generic in the format),
   (2) the real value of one coordinate as two roundings (Flocq's Bmult_correct / Bplus_correct),
   (3) the exact-arithmetic reading, its reversal, and the link to the proposal density iso_logp
       (change of variables, symmetry of the Metropolis ratio). *)
From MiniMcmc Require Import Base.Fp Base.Util Model.Proposal Model.Density.
From MiniMcmc Require Import Proofs.Density.
From Coq Require Import Reals Lra Lia.
From Flocq Require Import Core Binary.
Local Open Scope nat_scope.

(* ---- list helpers ---- *)
Lemma nth_combine_lt {A B} (l : list A) (l' : list B) i (x : A) (y : B) :
  i < length l -> i < length l' -> nth i (combine l l') (x, y) = (nth i l x, nth i l' y).
Proof.
  revert l' i; induction l as [|a l IH]; intros [|b l'] [|i] H H'; cbn in *; try lia; auto.
  apply IH; lia.
Qed.

Lemma nth_firstn_lt {A} (l : list A) n i (d : A) : i < n -> nth i (firstn n l) d = nth i l d.
Proof.
  revert n i; induction l as [|a l IH]; intros [|n] [|i] H; cbn; try lia; auto.
  apply IH; lia.
Qed.

Lemma nth_skipn_add {A} (l : list A) n i (d : A) : nth i (skipn n l) d = nth (n + i) l d.
Proof.
  revert l; induction n as [|n IH]; intros [|a l]; cbn; auto.
  destruct i; reflexivity.
Qed.

(* distinct (call, coordinate) pairs use distinct draw numbers *)
Lemma iso_draw_index_inj : forall d j i j' i',
  i < d -> i' < d -> j * S d + i = j' * S d + i' -> j = j' /\ i = i'.
Proof.
  intros d j i j' i' Hi Hi' H.
  assert (Hj : j = j').
  { destruct (Nat.lt_trichotomy j j') as [Hlt|[He|Hgt]]; [exfalso|exact He|exfalso]; nia. }
  subst j'. split; [reflexivity|lia].
Qed.

(* the draw j*(d+1)+d (the one drawn before `current` is found exhausted) is never a used index *)
Lemma iso_draw_index_skips : forall d j j' i', i' < d -> j' * S d + i' <> j * S d + d.
Proof.
  intros d j j' i' Hi' H.
  destruct (Nat.lt_trichotomy j j') as [Hlt|[He|Hgt]]; nia.
Qed.

Section IsoProofs.
  Variables prec emax : Z.
  Context (Hprec : FLX.Prec_gt_0 prec) (Hmax : BinarySingleNaN.Prec_lt_emax prec emax).
  Notation fl := (binary_float prec emax).
  Variable nanf : fl -> fl -> { x : fl | Binary.is_nan prec emax x = true }.

  (* ---- (1) shape and locality ---- *)
  Lemma iso_sample_length : forall (std : fl) (zs cur : list fl),
    length (iso_sample nanf std zs cur) = Nat.min (length zs) (length cur).
  Proof. intros. unfold iso_sample. rewrite map_length, combine_length. reflexivity. Qed.

  Lemma iso_sample_nth : forall (std : fl) (zs cur : list fl) (dflt dz dc : fl) i,
    i < length zs -> i < length cur ->
    nth i (iso_sample nanf std zs cur) dflt = iso_coord nanf std (nth i zs dz) (nth i cur dc).
  Proof.
    intros std zs cur dflt dz dc i Hz Hc. unfold iso_sample.
    rewrite (nth_map_lt _ _ i dflt (dz, dc))
      by (rewrite combine_length; apply Nat.min_glb_lt; assumption).
    rewrite nth_combine_lt by assumption. reflexivity.
  Qed.

  Lemma iso_samples_length : forall k (std : fl) (zs cur : list fl),
    length (iso_samples nanf k std zs cur) = k.
  Proof. induction k as [|k IH]; intros; cbn [iso_samples length]; [|rewrite IH]; reflexivity. Qed.

  (* value (j, i) is computed from draw number j*(d+1)+i and current_i only; it is enough that
     this one draw exists *)
  Lemma iso_samples_draw_index_gen : forall k j i (std : fl) (zs cur : list fl) (dflt dz dc : fl),
    j < k -> i < length cur -> j * S (length cur) + i < length zs ->
    nth i (nth j (iso_samples nanf k std zs cur) []) dflt
    = iso_coord nanf std (nth (j * S (length cur) + i) zs dz) (nth i cur dc).
  Proof.
    induction k as [|k IH]; intros j i std zs cur dflt dz dc Hj Hi Hlen; [lia|].
    cbn [iso_samples]. destruct j as [|j].
    - cbn [nth]. rewrite Nat.mul_0_l, Nat.add_0_l in *.
      rewrite (iso_sample_nth std _ cur dflt dz dc i).
      + rewrite nth_firstn_lt by assumption. reflexivity.
      + rewrite firstn_length. apply Nat.min_glb_lt; assumption.
      + assumption.
    - cbn [nth]. rewrite (IH j i std _ cur dflt dz dc).
      + rewrite nth_skipn_add. f_equal. f_equal. lia.
      + lia.
      + assumption.
      + rewrite skipn_length. lia.
  Qed.

  Lemma iso_samples_draw_index : forall k j i (std : fl) (zs cur : list fl) (dflt dz dc : fl),
    j < k -> i < length cur -> (k * S (length cur) <= length zs)%nat ->
    nth i (nth j (iso_samples nanf k std zs cur) []) dflt
    = iso_coord nanf std (nth (j * S (length cur) + i) zs dz) (nth i cur dc).
  Proof.
    intros k j i std zs cur dflt dz dc Hj Hi Hlen.
    apply iso_samples_draw_index_gen; [assumption|assumption|nia].
  Qed.

  (* every one of the k calls returns d values when the stream is long enough *)
  Lemma iso_samples_row_length : forall k j (std : fl) (zs cur : list fl),
    j < k -> (k * S (length cur) <= length zs)%nat ->
    length (nth j (iso_samples nanf k std zs cur) []) = length cur.
  Proof.
    induction k as [|k IH]; intros j std zs cur Hj Hlen; [lia|].
    cbn [iso_samples]. destruct j as [|j]; cbn [nth].
    - rewrite iso_sample_length, firstn_length. cbn [Nat.mul] in Hlen. lia.
    - apply IH; [lia|]. rewrite skipn_length. cbn [Nat.mul] in Hlen. lia.
  Qed.

  (* ---- (2) rounded-value semantics of one coordinate ---- *)
  Definition rnd_ne (x : R) : R :=
    Generic_fmt.round Zaux.radix2 (FLT.FLT_exp (3 - emax - prec) prec)
      (Generic_fmt.Znearest (fun x => negb (Z.even x))) x.

  (* the side conditions of Bmult_correct (product) and Bplus_correct (outer sum); the inner sum
     0 + std*z cannot overflow when the product does not *)
  Definition iso_no_overflow (std z cur : fl) : Prop :=
    Rlt_bool (Rabs (rnd_ne (B2R prec emax std * B2R prec emax z))) (bpow radix2 emax) = true /\
    Rlt_bool (Rabs (rnd_ne (rnd_ne (B2R prec emax std * B2R prec emax z) + B2R prec emax cur)))
             (bpow radix2 emax) = true.

  Lemma rnd_B2R : forall x : fl, rnd_ne (B2R prec emax x) = B2R prec emax x.
  Proof.
    intros x. unfold rnd_ne. apply round_generic; [typeclasses eauto|].
    apply (generic_format_B2R prec emax x).
  Qed.

  Lemma B2R_pzero : B2R prec emax (pzero prec emax) = 0%R.
  Proof. reflexivity. Qed.

  Lemma iso_coord_rounded : forall std z cur : fl,
    is_finite prec emax std = true -> is_finite prec emax z = true ->
    is_finite prec emax cur = true ->
    Rlt_bool (Rabs (rnd_ne (B2R prec emax std * B2R prec emax z))) (bpow radix2 emax) = true ->
    Rlt_bool (Rabs (rnd_ne (rnd_ne (B2R prec emax std * B2R prec emax z) + B2R prec emax cur)))
             (bpow radix2 emax) = true ->
    B2R prec emax (iso_coord nanf std z cur)
    = rnd_ne (rnd_ne (B2R prec emax std * B2R prec emax z) + B2R prec emax cur) /\
    is_finite prec emax (iso_coord nanf std z cur) = true.
  Proof.
    intros std z cur Fs Fz Fc H1 H2. unfold iso_coord, fplus, fmult.
    pose proof (Bmult_correct prec emax Hprec Hmax nanf mode_NE std z) as Hm.
    change (round radix2 (SpecFloat.fexp prec emax) (BinarySingleNaN.round_mode mode_NE))
      with rnd_ne in Hm.
    rewrite H1, Fs, Fz in Hm. destruct Hm as (Hmv & Hmf & _).
    set (p := Bmult prec emax Hprec Hmax nanf mode_NE std z) in *.
    cbn [andb] in Hmf.
    pose proof (Bplus_correct prec emax Hprec Hmax nanf mode_NE (pzero prec emax) p eq_refl Hmf)
      as Hq.
    change (round radix2 (SpecFloat.fexp prec emax) (BinarySingleNaN.round_mode mode_NE))
      with rnd_ne in Hq.
    rewrite B2R_pzero, Rplus_0_l, rnd_B2R in Hq.
    rewrite Hmv, H1 in Hq. destruct Hq as (Hqv & Hqf & _).
    set (q := Bplus prec emax Hprec Hmax nanf mode_NE (pzero prec emax) p) in *.
    pose proof (Bplus_correct prec emax Hprec Hmax nanf mode_NE q cur Hqf Fc) as Hr.
    change (round radix2 (SpecFloat.fexp prec emax) (BinarySingleNaN.round_mode mode_NE))
      with rnd_ne in Hr.
    rewrite Hqv, H2 in Hr. destruct Hr as (Hrv & Hrf & _).
    split; assumption.
  Qed.

  Lemma iso_coord_rounded_no_overflow : forall std z cur : fl,
    is_finite prec emax std = true -> is_finite prec emax z = true ->
    is_finite prec emax cur = true -> iso_no_overflow std z cur ->
    B2R prec emax (iso_coord nanf std z cur)
    = rnd_ne (rnd_ne (B2R prec emax std * B2R prec emax z) + B2R prec emax cur) /\
    is_finite prec emax (iso_coord nanf std z cur) = true.
  Proof. intros std z cur Fs Fz Fc [H1 H2]. apply iso_coord_rounded; assumption. Qed.
End IsoProofs.
Arguments rnd_ne prec emax x : clear implicits.
Arguments iso_no_overflow prec emax std z cur : clear implicits.

(* non-vacuity in binary32: std = 2, z = 1/2, cur = 1 are finite, meet both no-overflow
   conditions, and the proposed coordinate is 2 *)
Definition b32_two : binary32 := B754_finite 24 128 false 8388608 (-22) eq_refl.
Definition b32_half : binary32 := B754_finite 24 128 false 8388608 (-24) eq_refl.
Definition b32_one : binary32 := B754_finite 24 128 false 8388608 (-23) eq_refl.

Lemma b32_two_R : B2R 24 128 b32_two = 2%R.
Proof. unfold b32_two, B2R, F2R. cbn [Fnum Fexp cond_Zopp bpow Z.pow_pos Pos.iter radix_val radix2 Z.mul Pos.mul]. lra. Qed.
Lemma b32_half_R : B2R 24 128 b32_half = (/ 2)%R.
Proof. unfold b32_half, B2R, F2R. cbn [Fnum Fexp cond_Zopp bpow Z.pow_pos Pos.iter radix_val radix2 Z.mul Pos.mul]. lra. Qed.
Lemma b32_one_R : B2R 24 128 b32_one = 1%R.
Proof. unfold b32_one, B2R, F2R. cbn [Fnum Fexp cond_Zopp bpow Z.pow_pos Pos.iter radix_val radix2 Z.mul Pos.mul]. lra. Qed.

(* their bit patterns: 0x40000000, 0x3F000000, 0x3F800000 *)
Lemma b32_two_bits : b32_of_bits 1073741824 = b32_two.
Proof. exact (binary_float_of_bits_of_binary_float 23 8 eq_refl eq_refl eq_refl b32_two). Qed.
Lemma b32_half_bits : b32_of_bits 1056964608 = b32_half.
Proof. exact (binary_float_of_bits_of_binary_float 23 8 eq_refl eq_refl eq_refl b32_half). Qed.
Lemma b32_one_bits : b32_of_bits 1065353216 = b32_one.
Proof. exact (binary_float_of_bits_of_binary_float 23 8 eq_refl eq_refl eq_refl b32_one). Qed.

Example iso_coord_example32 :
  is_finite 24 128 b32_two = true /\ is_finite 24 128 b32_half = true /\
  is_finite 24 128 b32_one = true /\
  B2R 24 128 b32_two = 2%R /\ B2R 24 128 b32_half = (/ 2)%R /\ B2R 24 128 b32_one = 1%R /\
  iso_no_overflow 24 128 b32_two b32_half b32_one /\
  B2R 24 128 (iso_coord binop_nan_pl32 b32_two b32_half b32_one) = 2%R.
Proof.
  assert (H1 : rnd_ne 24 128 (B2R 24 128 b32_two * B2R 24 128 b32_half) = 1%R).
  { replace (B2R 24 128 b32_two * B2R 24 128 b32_half)%R with (B2R 24 128 b32_one)
      by (rewrite b32_two_R, b32_half_R, b32_one_R; lra).
    rewrite rnd_B2R. apply b32_one_R. }
  assert (H2 : rnd_ne 24 128 (rnd_ne 24 128 (B2R 24 128 b32_two * B2R 24 128 b32_half)
                           + B2R 24 128 b32_one) = 2%R).
  { rewrite H1. replace (1 + B2R 24 128 b32_one)%R with (B2R 24 128 b32_two)
      by (rewrite b32_two_R, b32_one_R; lra).
    rewrite rnd_B2R. apply b32_two_R. }
  assert (Hb : (2 < bpow radix2 128)%R).
  { change 2%R with (bpow radix2 1). apply bpow_lt. lia. }
  assert (Hno : iso_no_overflow 24 128 b32_two b32_half b32_one).
  { split; [rewrite H1|rewrite H2]; apply Rlt_bool_true;
      rewrite Rabs_pos_eq by lra; lra. }
  split; [reflexivity|]. split; [reflexivity|]. split; [reflexivity|].
  split; [exact b32_two_R|]. split; [exact b32_half_R|]. split; [exact b32_one_R|].
  split; [exact Hno|].
  rewrite <- H2.
  apply (iso_coord_rounded_no_overflow 24 128 prec32 emax32 binop_nan_pl32); try reflexivity.
  exact Hno.
Qed.

(* ---- (3) exact-arithmetic reading ---- *)
Local Open Scope R_scope.

Lemma iso_sample_R_length : forall (std : R) (zs cur : list R),
  length (iso_sample_R std zs cur) = Nat.min (length zs) (length cur).
Proof. intros. unfold iso_sample_R. rewrite map_length, combine_length. reflexivity. Qed.

Lemma iso_sample_R_nth : forall (std : R) (zs cur : list R) i,
  (i < length zs)%nat -> (i < length cur)%nat ->
  nth i (iso_sample_R std zs cur) 0 = nth i cur 0 + std * nth i zs 0.
Proof.
  intros std zs cur i Hz Hc. unfold iso_sample_R.
  rewrite (nth_map_lt _ _ i 0 (0, 0))
    by (rewrite combine_length; apply Nat.min_glb_lt; assumption).
  rewrite nth_combine_lt by assumption. cbn [fst snd]. ring.
Qed.

(* the random walk is reversible: the negated draws lead back *)
Lemma iso_sample_R_reverse_le : forall (std : R) (zs cur : list R),
  (length cur <= length zs)%nat ->
  iso_sample_R std (map Ropp zs) (iso_sample_R std zs cur) = cur.
Proof.
  intros std zs. induction zs as [|z zs IH]; intros [|c cur] H; cbn in H; try lia;
    try reflexivity.
  unfold iso_sample_R in *. cbn [map combine fst snd]. f_equal.
  - ring.
  - apply IH. lia.
Qed.

Lemma iso_sample_R_reverse : forall (std : R) (zs cur : list R),
  length zs = length cur ->
  iso_sample_R std (map Ropp zs) (iso_sample_R std zs cur) = cur.
Proof. intros std zs cur H. apply iso_sample_R_reverse_le. lia. Qed.

(* one coordinate of the change of variables x = c + std * z *)
Lemma normal_logpdf_affine : forall std c z : R, std <> 0 ->
  normal_logpdf dnumR c std (0 + std * z + c) = normal_logpdf dnumR 0 1 z - ln (Rabs std).
Proof.
  intros std c z Hs. dexpose.
  assert (Ha : 0 < Rabs std) by (apply Rabs_pos_lt; exact Hs).
  assert (Hsq : std * std = Rabs std * Rabs std).
  { unfold Rabs. destruct (Rcase_abs std); ring. }
  assert (Hpi : 0 < 2 * PI) by (pose proof PI_RGT_0; lra).
  assert (Hln : ln (2 * PI * (std * std)) = ln (2 * PI) + (ln (Rabs std) + ln (Rabs std))).
  { rewrite Hsq.
    rewrite (ln_mult (2 * PI) (Rabs std * Rabs std))
      by (try assumption; apply Rmult_lt_0_compat; assumption).
    rewrite (ln_mult (Rabs std) (Rabs std)) by assumption. reflexivity. }
  rewrite Hln. replace (2 * PI * (1 * 1)) with (2 * PI) by ring.
  field. exact Hs.
Qed.

Lemma iso_spec_sample_R : forall (std : R) (zs cur : list R), std <> 0 ->
  length zs = length cur ->
  @eq R (iso_logp_spec dnumR std cur (iso_sample_R std zs cur))
    (fold_left (fun acc z => acc + normal_logpdf dnumR 0 1 z) zs 0
     - INR (length zs) * ln (Rabs std)).
Proof.
  intros std zs cur Hs. unfold iso_logp_spec, iso_sample_R.
  change (Density.z0 dnumR) with 0. change (tadd dnumR) with Rplus.
  change (tT (dn dnumR)) with R.
  revert cur. induction zs as [|z zs IH]; intros [|c cur] Hlen; try discriminate Hlen.
  - cbn [combine map fold_left length INR]. ring.
  - cbn [combine map fold_left fst snd].
    rewrite (fold_left_add_shift _ (fun ft : R * R => normal_logpdf dnumR (fst ft) std (snd ft))).
    rewrite (fold_left_add_shift _ (fun z : R => normal_logpdf dnumR 0 1 z) zs).
    rewrite IH by (cbn [length] in Hlen; lia).
    rewrite normal_logpdf_affine by exact Hs.
    change (length (z :: zs)) with (S (length zs)). rewrite S_INR. ring.
Qed.

(* log-density of the proposed point = standard-normal log-density of the draws - d ln|std| *)
Theorem iso_logp_change_of_variables : forall (std : R) (zs cur : list R), std <> 0 ->
  length zs = length cur ->
  @eq R (iso_logp dnumR std cur (iso_sample_R std zs cur))
    (fold_left (fun acc z => acc + normal_logpdf dnumR 0 1 z) zs 0
     - INR (length zs) * ln (Rabs std)).
Proof.
  intros std zs cur Hs Hlen.
  rewrite iso_logp_is_spec by (rewrite iso_sample_R_length; lia).
  apply iso_spec_sample_R; assumption.
Qed.

Corollary iso_logp_change_of_variables_pos : forall (std : R) (zs cur : list R), 0 < std ->
  length zs = length cur ->
  @eq R (iso_logp dnumR std cur (iso_sample_R std zs cur))
    (fold_left (fun acc z => acc + normal_logpdf dnumR 0 1 z) zs 0 - INR (length zs) * ln std).
Proof.
  intros std zs cur Hs Hlen. rewrite iso_logp_change_of_variables by (try assumption; lra).
  rewrite Rabs_pos_eq by lra. reflexivity.
Qed.

(* the Metropolis ratio of this proposal is 1: forward and backward densities agree *)
Theorem iso_logp_sample_sym : forall (std : R) (zs cur : list R),
  length zs = length cur ->
  iso_logp dnumR std cur (iso_sample_R std zs cur)
  = iso_logp dnumR std (iso_sample_R std zs cur) cur.
Proof.
  intros std zs cur Hlen. apply iso_logp_sym. rewrite iso_sample_R_length. lia.
Qed.
