(* IEEE-754 arithmetic through Flocq, generic in the format, plus the binary32 / binary64
   instances on bit patterns (Z) that the correspondence check evaluates. *)
From Coq Require Export ZArith Bool List.
From Flocq Require Export Core.Zaux Core.FLX IEEE754.Binary IEEE754.Bits.
From Flocq Require IEEE754.BinarySingleNaN.
Notation mode_NE := BinarySingleNaN.mode_NE.
Export ListNotations.

Section Generic.
  Variables prec emax : Z.
  Context (Hprec : FLX.Prec_gt_0 prec) (Hmax : BinarySingleNaN.Prec_lt_emax prec emax).
  Notation fl := (binary_float prec emax).
  Variable nanf : fl -> fl -> { x : fl | Binary.is_nan prec emax x = true }.

  Definition fplus (a b : fl) : fl := Binary.Bplus prec emax Hprec Hmax nanf mode_NE a b.
  Definition fminus (a b : fl) : fl := Binary.Bminus prec emax Hprec Hmax nanf mode_NE a b.
  Definition fmult (a b : fl) : fl := Binary.Bmult prec emax Hprec Hmax nanf mode_NE a b.
  Definition fdiv (a b : fl) : fl := Binary.Bdiv prec emax Hprec Hmax nanf mode_NE a b.
  Definition fcmp (a b : fl) : option comparison := Binary.Bcompare prec emax a b.
  (* Rust's `a > b`, `a < b`, `a <= b`, `a >= b` on floats: false when either side is NaN *)
  Definition fgt (a b : fl) : bool := match fcmp a b with Some Gt => true | _ => false end.
  Definition flt (a b : fl) : bool := match fcmp a b with Some Lt => true | _ => false end.
  Definition fle (a b : fl) : bool := match fcmp a b with Some Lt | Some Eq => true | _ => false end.
  Definition fge (a b : fl) : bool := match fcmp a b with Some Gt | Some Eq => true | _ => false end.
  Definition fnan (a : fl) : bool := Binary.is_nan prec emax a.
  Definition fneginf (a : fl) : bool := match a with Binary.B754_infinity _ _ true => true | _ => false end.
  Definition fposinf (a : fl) : bool := match a with Binary.B754_infinity _ _ false => true | _ => false end.
End Generic.

Arguments fplus {prec emax Hprec Hmax}.
Arguments fminus {prec emax Hprec Hmax}.
Arguments fmult {prec emax Hprec Hmax}.
Arguments fdiv {prec emax Hprec Hmax}.
Arguments fcmp {prec emax}.
Arguments fgt {prec emax}.
Arguments flt {prec emax}.
Arguments fle {prec emax}.
Arguments fge {prec emax}.
Arguments fnan {prec emax}.
Arguments fneginf {prec emax}.
Arguments fposinf {prec emax}.

Definition b2z (b : bool) : Z := if b then 1%Z else 0%Z.

#[global] Instance prec32 : FLX.Prec_gt_0 24 := eq_refl.
#[global] Instance emax32 : BinarySingleNaN.Prec_lt_emax 24 128 := eq_refl.
#[global] Instance prec64 : FLX.Prec_gt_0 53 := eq_refl.
#[global] Instance emax64 : BinarySingleNaN.Prec_lt_emax 53 1024 := eq_refl.
