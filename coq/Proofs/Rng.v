(* Facts about the bit-exact SmallRng model (Base/Rng.v) and the per-chain seed derivation
   (Model/Seeds.v): 64-bit ranges, well-formedness of generator states, range of the uniform
   variates, the injected first output, injectivity of SplitMix64 seeding, and injectivity /
   disjointness of the chain seeds. *)
From MiniMcmc Require Import Base.Rng Model.Seeds.
From Coq Require Import ZifyN Lia Bool.
Open Scope N_scope.
(* let lia see through N.modulo / N.div (local to this file) *)
Local Ltac Zify.zify_post_hook ::= Z.div_mod_to_equations.

(* ------------------------------------------------------------------ words *)
Lemma W64_pow2 : W64 = 2 ^ 64.
Proof. reflexivity. Qed.

Lemma W64_nz : W64 <> 0.
Proof. unfold W64. discriminate. Qed.

Lemma HALF_pow2 : HALF = 2 ^ 63.
Proof. reflexivity. Qed.

(* (1) *)
Lemma wrap_lt : forall x, wrap x < W64.
Proof. intro x. unfold wrap. apply N.mod_lt. exact W64_nz. Qed.

Lemma wrap_small : forall x, x < W64 -> wrap x = x.
Proof. intros x H. unfold wrap. apply N.mod_small. exact H. Qed.

(* a value is a 64-bit word iff all its bits from position 64 on are clear *)
Lemma lt64_bits : forall a, a < W64 <-> (forall n, 64 <= n -> N.testbit a n = false).
Proof.
  intro a. rewrite W64_pow2. split.
  - intros H n Hn. rewrite <- (N.mod_small a (2 ^ 64) H).
    apply N.mod_pow2_bits_high. exact Hn.
  - intro H. assert (E : a mod 2 ^ 64 = a).
    { apply N.bits_inj. intro n. destruct (N.lt_ge_cases n 64) as [L|G].
      - apply N.mod_pow2_bits_low. exact L.
      - rewrite N.mod_pow2_bits_high by exact G. symmetry. apply H. exact G. }
    rewrite <- E. apply N.mod_lt. apply N.pow_nonzero. discriminate.
Qed.

Lemma bit_high : forall a n, a < W64 -> 64 <= n -> N.testbit a n = false.
Proof. intros a n Ha Hn. exact (proj1 (lt64_bits a) Ha n Hn). Qed.

(* (2) *)
Lemma lxor_lt64 : forall a b, a < W64 -> b < W64 -> N.lxor a b < W64.
Proof.
  intros a b Ha Hb. apply lt64_bits. intros n Hn. rewrite N.lxor_spec.
  rewrite (bit_high a n Ha Hn), (bit_high b n Hb Hn). reflexivity.
Qed.

Lemma lor_lt64 : forall a b, a < W64 -> b < W64 -> N.lor a b < W64.
Proof.
  intros a b Ha Hb. apply lt64_bits. intros n Hn. rewrite N.lor_spec.
  rewrite (bit_high a n Ha Hn), (bit_high b n Hb Hn). reflexivity.
Qed.

Lemma shiftr_lt64 : forall a k, a < W64 -> N.shiftr a k < W64.
Proof.
  intros a k Ha. apply lt64_bits. intros n Hn. rewrite N.shiftr_spec'.
  apply (bit_high a (n + k) Ha). lia.
Qed.

Lemma shl64_lt : forall a k, shl64 a k < W64.
Proof. intros a k. unfold shl64. apply wrap_lt. Qed.

Lemma add64_lt : forall a b, add64 a b < W64.
Proof. intros a b. unfold add64. apply wrap_lt. Qed.

Lemma mul64_lt : forall a b, mul64 a b < W64.
Proof. intros a b. unfold mul64. apply wrap_lt. Qed.

Lemma rotl64_lt : forall a k, a < W64 -> k <= 64 -> rotl64 a k < W64.
Proof.
  intros a k Ha Hk. unfold rotl64. apply lor_lt64.
  - apply shl64_lt.
  - apply shiftr_lt64. exact Ha.
Qed.

(* (3) *)
Lemma mix_lt : forall z, mix z < W64.
Proof.
  intro z. unfold mix. cbv zeta. apply lxor_lt64.
  - apply mul64_lt.
  - apply shiftr_lt64. apply mul64_lt.
Qed.

(* (4) *)
Lemma wf_seed : forall seed, wf (seed_from_u64 seed).
Proof.
  intro seed. unfold wf, seed_from_u64. cbv zeta. cbn [s0 s1 s2 s3].
  repeat split; apply mix_lt.
Qed.

(* (5) *)
Lemma wf_next : forall s, wf s -> fst (next_u64 s) < W64 /\ wf (snd (next_u64 s)).
Proof.
  intros [a b c d] (H0 & H1 & H2 & H3). cbn [s0 s1 s2 s3] in H0, H1, H2, H3.
  unfold next_u64, wf. cbv zeta. cbn [fst snd s0 s1 s2 s3].
  split; [apply add64_lt|].
  repeat split.
  - apply lxor_lt64; [exact H0|]. apply lxor_lt64; assumption.
  - apply lxor_lt64; [exact H1|]. apply lxor_lt64; assumption.
  - apply lxor_lt64; [|apply shl64_lt]. apply lxor_lt64; assumption.
  - apply rotl64_lt; [|unfold N.le; discriminate]. apply lxor_lt64; assumption.
Qed.

(* (6) *)
Lemma shiftr_lt_pow2 : forall v j k, v < 2 ^ (j + k) -> N.shiftr v k < 2 ^ j.
Proof.
  intros v j k H. rewrite N.shiftr_div_pow2.
  apply N.div_lt_upper_bound; [apply N.pow_nonzero; discriminate|].
  rewrite <- N.pow_add_r, (N.add_comm k j). exact H.
Qed.

Lemma uniform53_fst : forall s, fst (uniform53 s) = N.shiftr (fst (next_u64 s)) 11.
Proof. intro s. unfold uniform53. destruct (next_u64 s) as [v s']. reflexivity. Qed.

Lemma uniform24_fst : forall s,
  fst (uniform24 s) = N.shiftr (N.shiftr (fst (next_u64 s)) 32) 8.
Proof.
  intro s. unfold uniform24, next_u32. destruct (next_u64 s) as [v s']. reflexivity.
Qed.

Lemma uniform53_range : forall s, wf s -> fst (uniform53 s) < 2 ^ 53.
Proof.
  intros s Hs. rewrite uniform53_fst. apply shiftr_lt_pow2.
  change (2 ^ (53 + 11)) with W64. exact (proj1 (wf_next s Hs)).
Qed.

Lemma uniform24_range : forall s, wf s -> fst (uniform24 s) < 2 ^ 24.
Proof.
  intros s Hs. rewrite uniform24_fst. apply shiftr_lt_pow2. apply shiftr_lt_pow2.
  change (2 ^ (24 + 8 + 32)) with W64. exact (proj1 (wf_next s Hs)).
Qed.

Lemma uniform53_zero_reachable : fst (uniform53 (inject_state 0)) = 0.
Proof. vm_compute. reflexivity. Qed.

Lemma uniform24_zero_reachable : fst (uniform24 (inject_state 0)) = 0.
Proof. vm_compute. reflexivity. Qed.

Lemma uniform53_max_reachable : fst (uniform53 (inject_state (W64 - 1))) = 2 ^ 53 - 1.
Proof. vm_compute. reflexivity. Qed.

Lemma uniform24_max_reachable : fst (uniform24 (inject_state (W64 - 1))) = 2 ^ 24 - 1.
Proof. vm_compute. reflexivity. Qed.

(* (7) bit-level description of a 64-bit left rotation *)
Lemma rotl64_spec : forall a k n, a < W64 -> k <= 64 ->
  N.testbit (rotl64 a k) n =
  if n <? 64 then (if n <? k then N.testbit a (n + 64 - k) else N.testbit a (n - k))
  else false.
Proof.
  intros a k n Ha Hk. unfold rotl64, shl64, wrap. rewrite W64_pow2.
  rewrite N.lor_spec, N.shiftr_spec'.
  destruct (N.ltb_spec n 64) as [L|G].
  - rewrite N.mod_pow2_bits_low by exact L.
    destruct (N.ltb_spec n k) as [L'|G'].
    + rewrite N.shiftl_spec_low by exact L'. cbn [orb].
      f_equal. lia.
    + rewrite N.shiftl_spec_high' by exact G'.
      rewrite (bit_high a (n + (64 - k)) Ha) by lia. apply orb_false_r.
  - rewrite N.mod_pow2_bits_high by exact G.
    rewrite (bit_high a (n + (64 - k)) Ha) by lia. reflexivity.
Qed.

Lemma rotl64_rotl64 : forall a j k, a < W64 -> j + k = 64 -> 0 < j -> 0 < k ->
  rotl64 (rotl64 a j) k = a.
Proof.
  intros a j k Ha Hjk Hj Hk.
  assert (Hj64 : j <= 64) by lia. assert (Hk64 : k <= 64) by lia.
  apply N.bits_inj. intro n.
  rewrite (rotl64_spec (rotl64 a j) k n (rotl64_lt a j Ha Hj64) Hk64).
  destruct (N.ltb_spec n 64) as [L|G].
  - destruct (N.ltb_spec n k) as [L'|G'].
    + rewrite (rotl64_spec a j (n + 64 - k) Ha Hj64).
      destruct (N.ltb_spec (n + 64 - k) 64) as [L2|G2]; [|lia].
      destruct (N.ltb_spec (n + 64 - k) j) as [L3|G3]; [lia|].
      f_equal. lia.
    + rewrite (rotl64_spec a j (n - k) Ha Hj64).
      destruct (N.ltb_spec (n - k) 64) as [L2|G2]; [|lia].
      destruct (N.ltb_spec (n - k) j) as [L3|G3]; [|lia].
      f_equal. lia.
  - symmetry. apply (bit_high a n Ha G).
Qed.

Lemma rotl64_rotr64 : forall v k, v < W64 -> 0 < k -> k < 64 -> rotl64 (rotr64 v k) k = v.
Proof.
  intros v k Hv Hk0 Hk. unfold rotr64. apply rotl64_rotl64; [exact Hv|lia|lia|lia].
Qed.

Lemma inject_first_output : forall v, v < W64 -> fst (next_u64 (inject_state v)) = v.
Proof.
  intros v Hv. unfold next_u64, inject_state. cbv zeta. cbn [fst s0 s1 s2 s3].
  assert (Hr : rotr64 v 23 < W64).
  { unfold rotr64. apply rotl64_lt; [exact Hv|]. unfold N.le. discriminate. }
  unfold add64 at 2. rewrite N.add_0_l, (wrap_small _ Hr).
  rewrite (rotl64_rotr64 v 23 Hv); [|reflexivity|reflexivity].
  unfold add64. rewrite N.add_0_r. apply wrap_small. exact Hv.
Qed.

(* (8) x |-> x ^ (x >> k) is injective on 64-bit words *)
Lemma xorshift_inj : forall k a b, 0 < k -> a < W64 -> b < W64 ->
  N.lxor a (N.shiftr a k) = N.lxor b (N.shiftr b k) -> a = b.
Proof.
  intros k a b Hk Ha Hb E.
  assert (Hbit : forall n, xorb (N.testbit a n) (N.testbit a (n + k))
                         = xorb (N.testbit b n) (N.testbit b (n + k))).
  { intro n. rewrite <- !N.shiftr_spec', <- !N.lxor_spec, E. reflexivity. }
  assert (Hall : forall (m : nat) n, 64 <= n + N.of_nat m -> N.testbit a n = N.testbit b n).
  { induction m as [|m IH]; intros n Hn.
    - rewrite (bit_high a n Ha), (bit_high b n Hb); [reflexivity|lia|lia].
    - assert (Hnk : N.testbit a (n + k) = N.testbit b (n + k)) by (apply IH; lia).
      specialize (Hbit n). rewrite Hnk in Hbit.
      destruct (N.testbit a n), (N.testbit b n), (N.testbit b (n + k));
        try reflexivity; discriminate Hbit. }
  apply N.bits_inj. intro n. apply (Hall 64%nat n). lia.
Qed.

(* (9) multiplication by a unit modulo 2^64 is injective *)
Lemma mul64_odd_inj : forall c c', mul64 c c' = 1 ->
  forall a b, a < W64 -> b < W64 -> mul64 a c = mul64 b c -> a = b.
Proof.
  intros c c' Hc.
  assert (Hrec : forall x, x < W64 -> mul64 (mul64 x c) c' = x).
  { intros x Hx. unfold mul64, wrap.
    rewrite (N.mul_mod_idemp_l (x * c) c' W64 W64_nz).
    rewrite <- N.mul_assoc.
    rewrite <- (N.mul_mod_idemp_r x (c * c') W64 W64_nz).
    change ((c * c') mod W64) with (mul64 c c'). rewrite Hc, N.mul_1_r.
    apply N.mod_small. exact Hx. }
  intros a b Ha Hb E.
  rewrite <- (Hrec a Ha), <- (Hrec b Hb), E. reflexivity.
Qed.

Definition MIX1_inv : N := 10871156337175269513.
Definition MIX2_inv : N := 3573116690164977347.

Lemma MIX1_inv_ok : mul64 MIX1 MIX1_inv = 1.
Proof. vm_compute. reflexivity. Qed.

Lemma MIX2_inv_ok : mul64 MIX2 MIX2_inv = 1.
Proof. vm_compute. reflexivity. Qed.

(* (10) the SplitMix64 finaliser is injective on 64-bit words *)
Lemma mix_inj : forall a b, a < W64 -> b < W64 -> mix a = mix b -> a = b.
Proof.
  intros a b Ha Hb E. unfold mix in E. cbv zeta in E.
  apply xorshift_inj in E; [|reflexivity|apply mul64_lt|apply mul64_lt].
  apply (mul64_odd_inj MIX2 MIX2_inv MIX2_inv_ok) in E;
    [|apply lxor_lt64; [apply mul64_lt|apply shiftr_lt64; apply mul64_lt]
     |apply lxor_lt64; [apply mul64_lt|apply shiftr_lt64; apply mul64_lt]].
  apply xorshift_inj in E; [|reflexivity|apply mul64_lt|apply mul64_lt].
  apply (mul64_odd_inj MIX1 MIX1_inv MIX1_inv_ok) in E;
    [|apply lxor_lt64; [exact Ha|apply shiftr_lt64; exact Ha]
     |apply lxor_lt64; [exact Hb|apply shiftr_lt64; exact Hb]].
  apply xorshift_inj in E; [exact E|reflexivity|exact Ha|exact Hb].
Qed.

(* (11) *)
Lemma wrap_add_inj : forall c a b, a < W64 -> b < W64 -> wrap (a + c) = wrap (b + c) -> a = b.
Proof.
  intros c a b Ha Hb E. unfold wrap, W64 in *.
  lia.
Qed.

Lemma add64_inj_l : forall c a b, a < W64 -> b < W64 -> add64 a c = add64 b c -> a = b.
Proof. intros c a b Ha Hb E. unfold add64 in E. exact (wrap_add_inj c a b Ha Hb E). Qed.

(* (12) *)
Lemma seed_from_u64_inj : forall a b, a < W64 -> b < W64 ->
  seed_from_u64 a = seed_from_u64 b -> a = b.
Proof.
  intros a b Ha Hb E. apply (f_equal s0) in E.
  unfold seed_from_u64 in E. cbv zeta in E. cbn [s0] in E.
  apply mix_inj in E; [|apply add64_lt|apply add64_lt].
  exact (add64_inj_l PHI a b Ha Hb E).
Qed.

(* ------------------------------------------------------------------ seeds *)
(* (13) *)
Lemma mh_seed_lt : forall s i, s < W64 -> i < W64 -> mh_seed s i < W64.
Proof. intros s i _ _. unfold mh_seed. apply wrap_lt. Qed.

Lemma gibbs_seed_lt : forall s i, s < W64 -> i < W64 -> gibbs_seed s i < W64.
Proof. intros s i _ _. unfold gibbs_seed. apply wrap_lt. Qed.

Lemma nuts_seed_lt : forall s i, s < W64 -> i < W64 -> nuts_seed s i < W64.
Proof. intros s i _ _. unfold nuts_seed. apply wrap_lt. Qed.

Lemma mh_prop_seed_lt : forall s i, s < W64 -> i < W64 -> mh_prop_seed s i < W64.
Proof. intros s i _ _. unfold mh_prop_seed. apply wrap_lt. Qed.

Lemma mh_seed_inj : forall s i j, s < W64 -> i < W64 -> j < W64 ->
  mh_seed s i = mh_seed s j -> i = j.
Proof.
  intros s i j _ Hi Hj E. unfold mh_seed in E.
  rewrite (N.add_comm (1 + s) i), (N.add_comm (1 + s) j) in E.
  exact (wrap_add_inj (1 + s) i j Hi Hj E).
Qed.

Lemma gibbs_seed_inj : forall s i j, s < W64 -> i < W64 -> j < W64 ->
  gibbs_seed s i = gibbs_seed s j -> i = j.
Proof.
  intros s i j _ Hi Hj E. unfold gibbs_seed in E.
  rewrite (N.add_comm s i), (N.add_comm s j) in E.
  exact (wrap_add_inj s i j Hi Hj E).
Qed.

Lemma nuts_seed_inj : forall s i j, s < W64 -> i < W64 -> j < W64 ->
  nuts_seed s i = nuts_seed s j -> i = j.
Proof.
  intros s i j _ Hi Hj E. unfold nuts_seed in E.
  replace (s + i + 1) with (i + (s + 1)) in E by lia.
  replace (s + j + 1) with (j + (s + 1)) in E by lia.
  exact (wrap_add_inj (s + 1) i j Hi Hj E).
Qed.

Lemma mh_prop_seed_inj : forall s i j, s < W64 -> i < W64 -> j < W64 ->
  mh_prop_seed s i = mh_prop_seed s j -> i = j.
Proof.
  intros s i j _ Hi Hj E. unfold mh_prop_seed in E.
  replace (1 + s + i + HALF) with (i + (1 + s + HALF)) in E by lia.
  replace (1 + s + j + HALF) with (j + (1 + s + HALF)) in E by lia.
  exact (wrap_add_inj (1 + s + HALF) i j Hi Hj E).
Qed.

(* (14) acceptance and proposal seed windows are disjoint *)
Lemma mh_acc_prop_disjoint : forall s i j, s < W64 -> i < HALF -> j < HALF ->
  mh_seed s i <> mh_prop_seed s j.
Proof.
  intros s i j _ Hi Hj E. unfold mh_seed, mh_prop_seed, wrap, W64, HALF in *.
  lia.
Qed.

(* (15) *)
Lemma mh_seed_checked_overflows : mh_seed_checked (W64 - 1) 0 = None.
Proof. vm_compute. reflexivity. Qed.

Lemma mh_seed_checked_agrees : forall s i v, mh_seed_checked s i = Some v -> v = mh_seed s i.
Proof.
  intros s i v H. unfold mh_seed_checked in H.
  destruct (N.ltb_spec (1 + s) W64) as [L1|G1]; [|discriminate H].
  destruct (N.ltb_spec (1 + s + i) W64) as [L2|G2]; [|discriminate H].
  injection H as H. subst v. unfold mh_seed. symmetry. apply wrap_small. exact L2.
Qed.

Lemma mh_seed_total_example : mh_seed (W64 - 1) 0 = 0.
Proof. vm_compute. reflexivity. Qed.

(* (16) distinct chains get distinct generator states *)
Lemma mh_states_distinct : forall s i j, s < W64 -> i < W64 -> j < W64 -> i <> j ->
  seed_from_u64 (mh_seed s i) <> seed_from_u64 (mh_seed s j).
Proof.
  intros s i j Hs Hi Hj Hne E. apply Hne.
  apply seed_from_u64_inj in E; [|apply mh_seed_lt; assumption|apply mh_seed_lt; assumption].
  exact (mh_seed_inj s i j Hs Hi Hj E).
Qed.

Lemma gibbs_states_distinct : forall s i j, s < W64 -> i < W64 -> j < W64 -> i <> j ->
  seed_from_u64 (gibbs_seed s i) <> seed_from_u64 (gibbs_seed s j).
Proof.
  intros s i j Hs Hi Hj Hne E. apply Hne.
  apply seed_from_u64_inj in E;
    [|apply gibbs_seed_lt; assumption|apply gibbs_seed_lt; assumption].
  exact (gibbs_seed_inj s i j Hs Hi Hj E).
Qed.

Lemma nuts_states_distinct : forall s i j, s < W64 -> i < W64 -> j < W64 -> i <> j ->
  seed_from_u64 (nuts_seed s i) <> seed_from_u64 (nuts_seed s j).
Proof.
  intros s i j Hs Hi Hj Hne E. apply Hne.
  apply seed_from_u64_inj in E;
    [|apply nuts_seed_lt; assumption|apply nuts_seed_lt; assumption].
  exact (nuts_seed_inj s i j Hs Hi Hj E).
Qed.

Lemma mh_acc_prop_states_distinct : forall s i j, s < W64 -> i < HALF -> j < HALF ->
  seed_from_u64 (mh_seed s i) <> seed_from_u64 (mh_prop_seed s j).
Proof.
  intros s i j Hs Hi Hj E.
  apply seed_from_u64_inj in E;
    [|unfold mh_seed; apply wrap_lt|unfold mh_prop_seed; apply wrap_lt].
  exact (mh_acc_prop_disjoint s i j Hs Hi Hj E).
Qed.
