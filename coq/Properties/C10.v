(* C10 — run_progress returns exactly the draws run would return; it terminates for every number
   of chains (also more chains than progress bars) and every completion order of the chain
   threads; a reporter that stops listening changes neither the draws nor the termination of
   the chain workers.
   Models: Model/Reporter.v — (a) the chain worker `worker_loop` = the loop of run_chain plus
   progress messages, sent when the wall clock says so (`due`, arbitrary) or at the last
   iteration; a send may fail (`send`, arbitrary), which is only logged; the worker is a
   structural recursion over its n+d iterations, so it terminates whatever `due`/`send` are.
   (b) the reporter thread as a transition system over `rep`: `deliver` (a message becomes the
   most recent one of its chain), `tick` (one iteration of the loop body), exit test `rep_done`.
   Proofs: Proofs/Reporter.v, Proofs/Run.v.  Only statements, `exact`, Print Assumptions. *)
From Coq Require Import Sorting.Sorted.
From MiniMcmc Require Import Model.Reporter.
From MiniMcmc Require Import Proofs.Run Proofs.Reporter.
From MiniMcmc Require Import Base.Util Model.Run.

(* ------------------------------------------------------------------ chain worker *)
Section C10_worker.
  Context {St Row : Type}.
  Variable step : St -> St.       (* any transition: MH, Gibbs, NUTS, user-defined MarkovChain *)
  Variable obs : St -> Row.
  Variable zero : Row.

  (* (W1) whatever the timing of the messages and whichever sends fail, the final chain state
     and the output rows are those of run_chain *)
  Theorem C10_same_draws : forall (due send : nat -> bool) s n d,
    fst (run_chain_progress_impl step obs zero due send s n d) = run_chain_impl step obs zero s n d.
  Proof. exact (worker_same_draws step obs zero). Qed.

  (* ... i.e. n+d transitions, row k = state after d+k+1 of them *)
  Theorem C10_same_draws_spec : forall (due send : nat -> bool) s n d,
    fst (run_chain_progress_impl step obs zero due send s n d)
    = (iter (n + d) step s, map (fun k => obs (iter (d + k + 1) step s)) (seq 0 n)).
  Proof. exact (worker_draws_spec step obs zero). Qed.

  (* a reporter that stops listening (any other `send`), or any other clock, changes nothing *)
  Theorem C10_draws_independent_of_reporter : forall (due1 due2 send1 send2 : nat -> bool) s n d,
    fst (run_chain_progress_impl step obs zero due1 send1 s n d)
    = fst (run_chain_progress_impl step obs zero due2 send2 s n d).
  Proof. exact (worker_draws_independent step obs zero). Qed.

  (* (W2) the message stream: it ends with the message n = total = n+d (whose delivery flag is
     whatever the channel answered); all values lie in 1..total and increase strictly *)
  Theorem C10_final_message : forall (due send : nat -> bool) s n d, 1 <= n + d ->
    let msgs := snd (run_chain_progress_impl step obs zero due send s n d) in
    (exists l, msgs = l ++ [(n + d, send (length l))]) /\
    msgs <> [] /\
    fst (last msgs (0, false)) = n + d /\
    (forall m, In m msgs -> 1 <= fst m <= n + d) /\
    StronglySorted lt (map fst msgs).
  Proof. exact (worker_messages step obs zero). Qed.

  (* hence n = total is sent exactly once, last: a finished chain sends nothing further *)
  Theorem C10_total_only_last : forall (due send : nat -> bool) s n d, 1 <= n + d ->
    exists l b, snd (run_chain_progress_impl step obs zero due send s n d) = l ++ [(n + d, b)] /\
                forall m, In m l -> fst m < n + d.
  Proof. exact (worker_total_only_last step obs zero). Qed.

  (* (W3) NUTSChain::run_progress: n+d transitions, row k after d+k+1 of them — the run()
     trajectory shifted by its one-draw offset *)
  Theorem C10_nuts_progress_offset : forall s n d,
    nuts_run_progress_impl step obs zero s n d
    = (iter (n + d) step s, map (fun k => obs (iter (d + k + 1) step s)) (seq 0 n)).
  Proof. exact (nuts_run_progress_spec step obs zero). Qed.

  Theorem C10_nuts_progress_is_shifted_run : forall s n d, 1 <= n ->
    snd (nuts_run_progress_impl step obs zero s n d)
    = snd (nuts_run_impl step obs zero (step s) n d).
  Proof. exact (nuts_progress_is_shifted_run step obs zero). Qed.
End C10_worker.

(* ------------------------------------------------------------------ reporter *)
(* counted r i  :=  i < next_active r /\ ~ In i (active r)     (chain i was counted as finished)
   Inv total r  :=  NoDup (active r) /\ (forall i, In i (active r) -> i < next_active r) /\
                    next_active r <= length (recent r) /\
                    n_finished r + length (active r) = next_active r /\
                    length (active r) <= 5 /\
                    (forall i, counted r i -> fin total r i = true) /\
                    (next_active r < length (recent r) -> length (active r) = 5)
   all_fin total r := forall i, i < length (recent r) -> fin total r i = true *)

(* (R1) the initial state, for every number of chains *)
Theorem C10_inv_init : forall total n,
  Inv total (rep_init n) /\ length (recent (rep_init n)) = n.
Proof. intros total n. exact (conj (inv_init total n) (rep_init_length n)). Qed.

(* (R2) a message arrives: only `recent` changes; the invariant is kept provided a chain whose
   most recent message is the final one sends nothing else (C10_total_only_last) *)
Theorem C10_deliver_frame : forall i m r,
  active (deliver i m r) = active r /\ next_active (deliver i m r) = next_active r /\
  n_finished (deliver i m r) = n_finished r /\
  length (recent (deliver i m r)) = length (recent r) /\
  rep_done (deliver i m r) = rep_done r.
Proof.
  intros i m r. exact (conj (deliver_active i m r) (conj (deliver_next_active i m r)
    (conj (deliver_n_finished i m r) (conj (deliver_length i m r) (deliver_rep_done i m r))))).
Qed.

Theorem C10_inv_deliver : forall total i m r,
  Inv total r -> (fin total r i = true -> m = total) -> Inv total (deliver i m r).
Proof. exact inv_deliver. Qed.

(* (R3) one iteration of the reporter loop *)
Theorem C10_inv_tick : forall total r,
  Inv total r -> Inv total (tick total r) /\ recent (tick total r) = recent r.
Proof. intros total r H. exact (conj (inv_tick total r H) (tick_recent total r)). Qed.

(* the hand-over of progress bars: with k finished entries in `act`, min k (n - next) fresh
   chains get a bar, the others are dropped; the new list consists of the unfinished entries
   and the fresh indices next .. next'-1 *)
Theorem C10_walk : forall total r n act next, next <= n ->
  let k := length (filter (fin total r) act) in
  let res := walk total r n act next in
  snd res = next + Nat.min k (n - next) /\
  length (fst res) + k = length act + (snd res - next) /\
  (forall i, In i (fst res) <-> (In i act /\ fin total r i = false) \/ (next <= i < snd res)).
Proof. exact walk_spec. Qed.

(* every state reachable from rep_init n by message arrivals and loop iterations, in any
   interleaving, satisfies the invariant *)
Theorem C10_reachable_inv : forall total n r,
  reach total n r -> Inv total r /\ length (recent r) = n.
Proof. exact reach_inv. Qed.

(* (R4) the loop never exits before the final message of every chain has been received *)
Theorem C10_no_early_exit : forall total r,
  Inv total r -> rep_done r = true -> forall i, i < length (recent r) -> fin total r i = true.
Proof. exact no_early_exit. Qed.

Theorem C10_done_iff : forall total r, Inv total r ->
  (rep_done r = true <-> next_active r = length (recent r) /\ active r = []).
Proof. exact rep_done_iff. Qed.

(* (R5) once every final message is in: a tick counts every shown chain and shows the next
   (at most 5) chains *)
Theorem C10_reporter_progress : forall total r,
  Inv total r -> (forall i, i < length (recent r) -> fin total r i = true) ->
  n_finished (tick total r) = n_finished r + length (active r) /\
  n_finished (tick total r) = next_active r /\
  next_active (tick total r)
    = next_active r + Nat.min (length (active r)) (length (recent r) - next_active r) /\
  length (active (tick total r)) = Nat.min 5 (length (recent r) - next_active r).
Proof. exact reporter_progress. Qed.

(* (R6) ... and the loop exits within n/5 + 2 iterations, for every number n of chains *)
Theorem C10_reporter_terminates : forall total r,
  Inv total r -> (forall i, i < length (recent r) -> fin total r i = true) ->
  exists k, k <= length (recent r) / 5 + 2 /\ rep_done (iter k (tick total) r) = true.
Proof. exact reporter_terminates. Qed.

Theorem C10_reporter_stays_done : forall total r k,
  Inv total r -> (forall i, i < length (recent r) -> fin total r i = true) ->
  length (recent r) / 5 + 2 <= k -> rep_done (iter k (tick total) r) = true.
Proof. exact reporter_terminates_from. Qed.

(* from any reachable state, whatever the order in which the chains completed *)
Theorem C10_terminates_every_order : forall total n r,
  reach total n r -> (forall i, i < n -> fin total r i = true) ->
  exists k, k <= n / 5 + 2 /\ rep_done (iter k (tick total) r) = true.
Proof. exact reach_terminates. Qed.

Theorem C10_zero_chains : rep_done (rep_init 0) = true.
Proof. exact rep_done_init_0. Qed.

(* ---- non-vacuity *)

(* worker: counting chain, the clock never fires, the receiver is gone (every send fails):
   rows and final state are those of run_chain, the only message is the final one *)
Example C10_worker_counting_chain :
  run_chain_progress_impl S (fun s => s) 0 (fun _ => false) (fun _ => false) 10 3 2
    = (15, [13; 14; 15], [(5, false)]) /\
  run_chain_impl S (fun s => s) 0 10 3 2 = (15, [13; 14; 15]) /\
  run_chain_progress_impl S (fun s => s) 0 (fun i => Nat.even i) (fun k => Nat.eqb k 0) 10 3 2
    = (15, [13; 14; 15], [(1, true); (3, false); (5, false)]).
Proof. repeat split; vm_compute; reflexivity. Qed.

(* reporter: 7 chains (more than 5 bars), total 10, every final message in: done in 2 ticks *)
Example C10_seven_chains :
  let r0 := fold_right (fun i r => deliver i 10%N r) (rep_init 7) (seq 0 7) in
  let r1 := tick 10 r0 in
  let r2 := tick 10 r1 in
  reach 10 7 r0 /\ (forall i, i < 7 -> fin 10 r0 i = true) /\
  rep_done r0 = false /\
  (n_finished r1, active r1, next_active r1, rep_done r1) = (5, [5; 6], 7, false) /\
  (n_finished r2, active r2, next_active r2, rep_done r2) = (7, [], 7, true).
Proof.
  cbv zeta. split; [|split; [|repeat split; vm_compute; reflexivity]].
  - cbn [fold_right seq].
    repeat (apply reach_deliver; [|intros H; vm_compute in H; discriminate H]).
    apply reach_init.
  - intros i Hi. do 7 (destruct i as [|i]; [vm_compute; reflexivity|]). lia.
Qed.

(* another completion order: the two chains without a bar (5, 6) finish first, chain 2 reports
   an intermediate value; nothing is counted until shown chains finish; the bars of finished
   chains go to 5 and 6, which are counted in the following iteration *)
Example C10_seven_chains_other_order :
  let r0 := deliver 2 4%N (deliver 6 10%N (deliver 5 10%N (rep_init 7))) in
  let r1 := tick 10 r0 in
  let r2 := tick 10 (deliver 3 10%N (deliver 0 10%N r1)) in
  let r3 := tick 10 (deliver 4 10%N (deliver 2 10%N (deliver 1 10%N r2))) in
  let r4 := tick 10 r3 in
  reach 10 7 r4 /\
  (n_finished r1, active r1, next_active r1, rep_done r1) = (0, [0; 1; 2; 3; 4], 5, false) /\
  (n_finished r2, active r2, next_active r2, rep_done r2) = (2, [5; 1; 2; 6; 4], 7, false) /\
  (n_finished r3, active r3, next_active r3, rep_done r3) = (7, [], 7, true) /\
  rep_done r4 = true.
Proof.
  cbv zeta. split; [|repeat split; vm_compute; reflexivity].
  repeat first [ apply reach_tick
               | apply reach_deliver; [|intros H; vm_compute in H; discriminate H]
               | apply reach_init ].
Qed.

Print Assumptions C10_same_draws.
Print Assumptions C10_same_draws_spec.
Print Assumptions C10_draws_independent_of_reporter.
Print Assumptions C10_final_message.
Print Assumptions C10_total_only_last.
Print Assumptions C10_nuts_progress_offset.
Print Assumptions C10_nuts_progress_is_shifted_run.
Print Assumptions C10_inv_init.
Print Assumptions C10_deliver_frame.
Print Assumptions C10_inv_deliver.
Print Assumptions C10_inv_tick.
Print Assumptions C10_walk.
Print Assumptions C10_reachable_inv.
Print Assumptions C10_no_early_exit.
Print Assumptions C10_done_iff.
Print Assumptions C10_reporter_progress.
Print Assumptions C10_reporter_terminates.
Print Assumptions C10_reporter_stays_done.
Print Assumptions C10_terminates_every_order.
Print Assumptions C10_zero_chains.
