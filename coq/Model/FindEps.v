(* Executable, generic form of find_reasonable_epsilon (nuts.rs) over Base.Num, with the comparison
   constant ln(1/2) as a parameter: instantiated at R with lnhalf = ln(1/2) it is Model.DualAvg.find_eps;
   instantiated at Q with rational lower / upper bounds of ln(1/2) it is evaluated inside Coq (the result
   is accepted only when both bounds give the same answer).  Plus the log acceptance probability of one
   leapfrog step for a Gaussian target with precision matrix A (the harness's `gaussprec` target). *)
From MiniMcmc Require Export Base.Num Model.HMC.
Close Scope Q_scope.
Close Scope R_scope.

Section FindEpsGen.
  Variable K : Num.
  Variable lap : K -> K.          (* log acceptance probability of one leapfrog step of the given size *)
  Variable lnhalf : K.            (* ln (1/2) *)
  Definition two : K := ofZ K 2.
  Definition halfK : K := div K (one K) two.

  (* loop condition a * lap > -a * ln 2:  for a = +1: lap > ln(1/2);  for a = -1: lap < ln(1/2) *)
  Definition cond (up : bool) (l : K) : bool := if up then nltb K lnhalf l else nltb K l lnhalf.
  Definition scale (up : bool) (e : K) : K := if up then mul K e two else div K e two.

  Fixpoint loop_gen (fuel : nat) (up : bool) (eps : K) : option K :=
    match fuel with
    | O => None
    | S f => if cond up (lap eps) then loop_gen f up (scale up eps) else Some eps
    end.

  Definition find_eps_gen (fuel : nat) : option K :=
    let l1 := lap (one K) in
    let up := nltb K lnhalf l1 in
    if cond up l1 then loop_gen fuel up (scale up halfK) else Some halfK.
End FindEpsGen.

Section GaussPrec.
  Variable K : Num.
  Notation "a + b" := (add K a b).
  Notation "a - b" := (sub K a b).
  Notation "a * b" := (mul K a b).
  Notation "a / b" := (div K a b).
  (* A given as a list of rows *)
  Definition rowdot (r x : list K) : K := fold_right (fun ab acc => fst ab * snd ab + acc) (zero K) (combine r x).
  Definition matvec (A : list (list K)) (x : list K) : list K := map (fun r => rowdot r x) A.
  Definition transpose_n (n : nat) (A : list (list K)) : list (list K) :=
    map (fun j => map (fun r => nth j r (zero K)) A) (seq 0 n).
  Definition prec_logp (A : list (list K)) (x : list K) : K :=
    zero K - rowdot x (matvec A x) * (one K / ofZ K 2).
  (* gradient of -x^T A x / 2 for a possibly non-symmetric A: -(A + A^T) x / 2 *)
  Definition prec_grad (A : list (list K)) (x : list K) : list K :=
    let n := length x in
    map (fun ab => zero K - (fst ab + snd ab) * (one K / ofZ K 2)) (combine (matvec A x) (matvec (transpose_n n A) x)).
  (* log acceptance probability of one leapfrog step of size e from (x, p):  H(x,p) - H(x',p') *)
  Definition lap_gauss (A : list (list K)) (x p : list K) (e : K) : K :=
    let z' := leap1 K (prec_grad A) e (x, p) in
    hamiltonian K (prec_logp A) (x, p) - hamiltonian K (prec_logp A) z'.
End GaussPrec.

(* evaluation: result under the lower and the upper rational bound of ln(1/2); [-1] = out of fuel *)
Definition lnhalf_lo : Q := (-6931471806 # 10000000000)%Q.
Definition lnhalf_hi : Q := (-6931471805 # 10000000000)%Q.
Definition oq (o : option Q) : list Z := match o with Some q => qout q | None => [-1; 1]%Z end.
Definition find_eps_eval (A : list (list Q)) (x p : list Q) : list Z :=
  oq (find_eps_gen numQ (lap_gauss numQ A x p) lnhalf_lo 40)
  ++ oq (find_eps_gen numQ (lap_gauss numQ A x p) lnhalf_hi 40).

(* one NUTS leaf on the same Gaussian target: a leapfrog step of (signed) size e from (x, p), and the joint
   log-density log p(x') - |p'|^2/2 of the new point; rendered as position, momentum, joint *)
Definition nuts_leaf_eval (A : list (list Q)) (e : Q) (x p : list Q) : list Z :=
  let z' := leap1 numQ (prec_grad numQ A) e (x, p) in
  qouts (fst z') ++ qouts (snd z')
  ++ qout (sub numQ (prec_logp numQ A (fst z')) (kinetic numQ (snd z'))).

(* ---- extended values: the log acceptance probability of a step that leaves the support is -inf (or NaN);
   the comparisons of find_reasonable_epsilon on such values follow IEEE: every comparison with NaN is false,
   -inf < everything finite < +inf.  (The halving pre-loop `while !all_real(ulogp') && !all_real(grad')` is not
   part of this model: it runs only when the first leapfrog's gradient is non-finite too.) ---- *)
Inductive xval (A : Type) : Type := XFin (q : A) | XNegInf | XPosInf | XNaN.
Arguments XFin {A}. Arguments XNegInf {A}. Arguments XPosInf {A}. Arguments XNaN {A}.
Definition xmap {A B : Type} (f : A -> B) (v : xval A) : xval B :=
  match v with XFin q => XFin (f q) | XNegInf => XNegInf | XPosInf => XPosInf | XNaN => XNaN end.

Section FindEpsX.
  Variable K : Num.
  Variable lapx : K -> xval K.
  Variable lnhalf : K.
  (* lap > ln(1/2) *)
  Definition upx (l : xval K) : bool :=
    match l with XFin q => nltb K lnhalf q | XPosInf => true | XNegInf => false | XNaN => false end.
  (* a * lap > -a * ln 2 *)
  Definition condx (up : bool) (l : xval K) : bool :=
    match l with
    | XFin q => cond K lnhalf up q
    | XPosInf => up
    | XNegInf => negb up
    | XNaN => false
    end.
  Fixpoint loop_x (fuel : nat) (up : bool) (eps : K) : option K :=
    match fuel with
    | O => None
    | S f => if condx up (lapx eps) then loop_x f up (scale K up eps) else Some eps
    end.
  Definition find_eps_x (fuel : nat) : option K :=
    let l1 := lapx (one K) in
    let up := upx l1 in
    if condx up l1 then loop_x fuel up (scale K up (halfK K)) else Some (halfK K).
End FindEpsX.

(* the harness's half-line target (c03.rs UserG::HalfLine): log p = -x0 - sum_{i>=1} x_i^2 / 2 for x0 > 0,
   -inf otherwise; its (autodiff) gradient is (-1, -x_1, ...) inside and the zero vector outside *)
Section HalfLine.
  Variable K : Num.
  Notation "a + b" := (add K a b).
  Notation "a - b" := (sub K a b).
  Notation "a * b" := (mul K a b).
  Notation "a / b" := (div K a b).
  Definition hl_inside (x : list K) : bool := match x with x0 :: _ => nltb K (zero K) x0 | [] => false end.
  Definition hl_logp (x : list K) : xval K :=
    match x with
    | x0 :: rest => if nltb K (zero K) x0
                    then XFin (zero K - x0 - vdot K rest rest * (one K / ofZ K 2)) else XNegInf
    | [] => XNegInf
    end.
  Definition hl_grad (x : list K) : list K :=
    match x with
    | x0 :: rest => if nltb K (zero K) x0 then (zero K - one K) :: map (fun v => zero K - v) rest
                    else map (fun _ => zero K) x
    | [] => []
    end.
  Definition lapx_halfline (x p : list K) (e : K) : xval K :=
    let z' := leap1 K hl_grad e (x, p) in
    match hl_logp x, hl_logp (fst z') with
    | XFin l0, XFin l1 => XFin (l1 - l0 - (kinetic K (snd z') - kinetic K p))
    | XFin _, v => v
    | _, _ => XNaN
    end.
End HalfLine.

Definition find_eps_x_eval (x p : list Q) : list Z :=
  oq (find_eps_x numQ (lapx_halfline numQ x p) lnhalf_lo 40)
  ++ oq (find_eps_x numQ (lapx_halfline numQ x p) lnhalf_hi 40).
