(* Chains as independent machines: schedules, private vs shared random streams (C07). *)
From MiniMcmc Require Export Base.Util.

Section Private.
  (* each chain owns its state (position + generator); step i touches component i only *)
  Context {St : Type}.
  Variable step : nat -> St -> St.
  Variable d : St.

  Definition exec1 (v : list St) (i : nat) : list St := upd i (step i (nth i v d)) v.
  (* a schedule is any list of chain indices (the order in which worker threads happen to
     execute chain steps) *)
  Definition exec (sched : list nat) (v : list St) : list St := fold_left exec1 sched v.

  (* the sequential reference: chain i performs its k_i steps in isolation *)
  Definition isolated (counts : nat -> nat) (v : list St) : list St :=
    map (fun ix => iter (counts (fst ix)) (step (fst ix)) (snd ix)) (combine (seq 0 (length v)) v).
End Private.

Section Shared.
  (* all chains draw from one shared stream cell g (a process-global generator) *)
  Context {St G : Type}.
  Variable step : nat -> St -> G -> St * G.
  Variable d : St.

  Definition exec1_shared (vg : list St * G) (i : nat) : list St * G :=
    let (s', g') := step i (nth i (fst vg) d) (snd vg) in (upd i s' (fst vg), g').
  Definition exec_shared (sched : list nat) (v : list St) (g : G) : list St * G :=
    fold_left exec1_shared sched (v, g).
End Shared.
