"""C16 — Categorical: normalised probabilities, exact logp, samples follow probs, never a zero-probability index."""
import math
import common as C

ID = "C16"
LEVEL = "proof"
COQ_HEADER = "From MiniMcmc Require Import Base.Fp Base.Num Model.Categorical.\nClose Scope Q_scope.\nClose Scope R_scope."
RULE = ("weight vectors of length 1..64 (zeros at any position, unnormalised, dyadic and random, f32/f64); for each vector "
        "the variates r in {0, 1-ulp} U {cum_i, pred cum_i, succ cum_i} plus random grid points are injected through the "
        "verif_set_rng hook; probabilities (bitwise) and sampled indices (exact) compared with Model.Categorical evaluated "
        "in Flocq inside Coq. Non-trivial: vector contains a zero weight and a positive one, or length >= 3.")
TRUSTED = ["variate injection through SmallRng state [0,1,0,rotr(v,23)]", "f32::ln/f64::ln for logp (checked to 2 ulp against math.log)"]
ASSUMPTIONS = ["r uniform on the generator's grid in [0,1) (C16_law is the interval characterisation)"]


def fb(f, x):
    return C.float_to_f32_bits(x) if f == "f32" else C.float_to_f64_bits(x)


def bf(f, b):
    return C.f32_bits_to_float(b) if f == "f32" else C.f64_bits_to_float(b)


def v_of_u(f, u):
    """generator output v whose uniform is the grid point u (u in [0,1) multiple of 2^-24 / 2^-53)."""
    if f == "f32":
        k = int(u * 2 ** 24)
        return (k << 40) & ((1 << 64) - 1)
    k = int(u * 2 ** 53)
    return (k << 11) & ((1 << 64) - 1)


def gen_weights(rng, f):
    n = rng.choice([1, 2, 3, 4, 5, 8, 16, 33, 64]) if rng.random() < 0.5 else rng.randint(1, 64)
    style = rng.choice(["dyadic", "dyadic", "random", "ints", "tiny", "subnormal"])
    ws = []
    for _ in range(n):
        if rng.random() < 0.3:
            ws.append(0.0)
        elif style == "dyadic":
            ws.append(2.0 ** rng.randint(-6, 3))
        elif style == "ints":
            ws.append(float(rng.randint(1, 9)))
        elif style == "subnormal":
            # the whole weight vector lives in the subnormal range (exp of log-likelihoods near -100 / -740): the total is so small
            # that its reciprocal overflows, p / total does not
            ws.append(rng.randint(1, 1000) * (2.0 ** -149 if f == "f32" else 2.0 ** -1074))
        elif style == "tiny":
            ws.append(rng.choice([1.0, 2.0 ** -30, 2.0 ** -60]))
        else:
            ws.append(rng.uniform(0.0, 5.0))
    if all(w == 0.0 for w in ws):
        ws[rng.randrange(n)] = 1.0
    return [fb(f, w) for w in ws]


def generate(rng, tier):
    n_vec = 250 if tier == "quick" else 3000
    cases = []
    fixed = [("f32", [0.0, 1.0]), ("f64", [0.0, 1.0]), ("f32", [1.0, 0.0]), ("f64", [0.0, 0.0, 3.0, 0.0]),
             ("f32", [0.5, 0.0, 0.5, 0.0]), ("f64", [1.0]), ("f32", [0.1] * 10 + [0.0] * 3)]
    for f, ws in fixed:
        cases.append(mk(rng, f, [fb(f, w) for w in ws]))
    while len(cases) < n_vec:
        f = rng.choice(["f32", "f64"])
        cases.append(mk(rng, f, gen_weights(rng, f)))
    return cases


def mk(rng, f, ws):
    # variates: 0, 1-ulp, around every cumulative sum (computed in double; the grid snapping makes them
    # land on/next to the float cumulative sums for dyadic weights), random
    vals = [bf(f, w) for w in ws]
    tot = sum(vals)
    ulp = 2.0 ** -24 if f == "f32" else 2.0 ** -53
    us = {0.0, 1.0 - ulp}
    cum = 0.0
    for w in vals:
        cum += w / tot
        for d in (-1, 0, 1):
            u = math.floor(cum / ulp) * ulp + d * ulp
            if 0.0 <= u < 1.0:
                us.add(u)
    for _ in range(8):
        us.add(math.floor(rng.random() / ulp) * ulp)
    us = sorted(us)
    if len(us) > 48:
        keep = {0.0, 1.0 - ulp}
        us = sorted(keep | set(rng.sample(us, 46)))
    return {"f": f, "ws": ws, "vs": [str(v_of_u(f, u)) for u in us]}


def coq_term(case, out):
    if "panic" in out:
        return None
    fn = "cat32s" if case["f"] == "f32" else "cat64s"
    t = "%s %s %s" % (fn, C.zlist(case["ws"]), C.zlist(out["rs"]))
    if exact_ok(case):
        dyl = lambda bs: "[" + "; ".join(dyq(bf(case["f"], b)) for b in bs) + "]"
        t += " ++ catq_eval %s %s" % (dyl(case["ws"]), dyl(out["rs"]))
    return t


def exact_ok(case):
    """weight vectors for which the exact-arithmetic reading (Model.Categorical.cat_new_Q / scan_Q) is evaluated too"""
    vals = [bf(case["f"], w) for w in case["ws"]]
    return len(vals) <= 24 and all(math.isfinite(v) and v >= 0 for v in vals) and sum(vals) > 0 and \
        max(vals) / min(v for v in vals if v > 0) < 2.0 ** 40


def dyq(x):
    if x == 0:
        return "(dy 0 0)"
    m, e = math.frexp(x)
    m = int(m * (1 << 53))
    e -= 53
    while m % 2 == 0:
        m //= 2
        e += 1
    return "(dy %s %s)" % (C.z(m), C.z(e))


def compare(case, out, model):
    if "panic" in out:
        return "implementation panicked: " + out["panic"]
    if model is None:
        return None
    n = len(case["ws"])
    nr = len(out["rs"])
    if out["probs"] != model[:n]:
        return "normalised probabilities differ bitwise from the Flocq model"
    if out["idx"] != model[n:n + nr]:
        k = [i for i, (a, b) in enumerate(zip(out["idx"], model[n:n + nr])) if a != b][0]
        return "variate %s: implementation sampled index %d, model %d" % (bf(case["f"], out["rs"][k]), out["idx"][k], model[n:n + nr][k])
    if exact_ok(case):
        from fractions import Fraction
        q = model[n + nr:]
        ps = [Fraction(q[2 * i], q[2 * i + 1]) for i in range(n)]
        idx = q[2 * n:]
        tol = Fraction(n + 2) * Fraction(2.0 ** -21 if case["f"] == "f32" else 2.0 ** -50)
        for i in range(n):
            if abs(Fraction(bf(case["f"], out["probs"][i])) - ps[i]) > tol:
                return "probability %d: %r, exact w/sum (cat_new_Q) = %s" % (i, bf(case["f"], out["probs"][i]), float(ps[i]))
        cums = [sum(ps[:i + 1]) for i in range(n)]
        for k in range(nr):
            r = Fraction(bf(case["f"], out["rs"][k]))
            if min(abs(r - c) for c in cums) <= tol:
                continue                         # within rounding of a cumulative sum: the exact scan may differ legitimately
            if idx[k] != out["idx"][k]:
                return "variate %s: implementation sampled index %d, exact-arithmetic scan (scan_Q) gives %d" % (float(r), out["idx"][k], idx[k])
    return None


def oracle(case, out):
    if "panic" in out:
        return "Categorical panicked: " + out["panic"]
    f = case["f"]
    probs = [bf(f, b) for b in out["probs"]]
    n = len(probs)
    eps = 2.0 ** -20 if f == "f32" else 2.0 ** -48
    if abs(sum(probs) - 1.0) > eps * n:
        return "probabilities sum to %r" % sum(probs)
    for k, (i, rb) in enumerate(zip(out["idx"], out["rs"])):
        if not (0 <= i < n):
            return "sampled index %d out of range 0..%d" % (i, n - 1)
        if not probs[i] > 0.0:
            return "variate r=%r: sampled index %d has probability %r (zero-probability category)" % (bf(f, rb), i, probs[i])
        # law: cum_{i-1} <= r < cum_i up to rounding of the cumulative sums
        r = bf(f, rb)
        lo = sum(probs[:i])
        hi = lo + probs[i]
        if not (lo - eps * n <= r <= hi + eps * n):
            return "variate r=%r sampled index %d whose cumulative interval is [%r,%r)" % (r, i, lo, hi)
    for i in range(n + 2):
        lp = bf(f, out["logp"][i])
        if i < n:
            ref = math.log(probs[i]) if probs[i] > 0 else -math.inf
            if not (lp == ref or abs(lp - ref) <= 4 * (2.0 ** -23 if f == "f32" else 2.0 ** -52) * max(1.0, abs(ref))):
                return "logp(%d)=%r but ln p=%r" % (i, lp, ref)
        elif lp != -math.inf:
            return "logp(%d) out of range is %r, not -inf" % (i, lp)
    if out["tlogp"] != out["logp"][:n + 1]:
        return "Target::unnorm_logp differs from Discrete::logp"
    return None


def finding_class(case, out, d):
    if "zero-probability category" in d and "r=0.0:" in d:
        return "categorical-zero-variate-first-weight-zero"
    return None


def nontrivial(case, out):
    z = [w for w in case["ws"] if w == 0]
    return (len(z) > 0 and len(z) < len(case["ws"])) or len(case["ws"]) >= 3


def extra(cases, outs, model):
    return {"variates_injected": sum(len(c["vs"]) for c in cases),
            "vectors_with_zero_weight": sum(1 for c in cases if any(w == 0 for w in c["ws"]))}
