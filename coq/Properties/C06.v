(* C06 — long-run averages converge to the target's expectations.
   What a theorem can carry (see DESIGN.md C06): the target is stationary for each kernel, the
   integrator is reversible, the NUTS selection rule is Algorithm 6's.  These are restatements of
   theorems proved for C01, C02, C03, C05; the convergence clause itself is statistical and is
   checked by calibrated z-scores (the variates' laws and the ergodic theorem are assumed). *)
From MiniMcmc Require Import Base.Fp Model.MH Proofs.MH Model.HMC Proofs.HMC Model.NUTS Proofs.NUTS.
From Coq Require Import Reals.
Open Scope R_scope.

Section C06_mh.
  Context {St : Type}.
  Variable eqb : St -> St -> bool.
  Hypothesis eqb_spec : forall x y, eqb x y = true <-> x = y.
  Variable states : list St.
  Variable pi : St -> R.
  Variable q : St -> St -> R.
  Hypothesis pi_pos : forall x, 0 < pi x.
  Hypothesis q_nonneg : forall x y, 0 <= q x y.

  (* the target is stationary for the MH kernel on every finite state space, asymmetric proposals included *)
  Theorem C06_mh_stationary : forall y, NoDup states -> In y states ->
    sumR (fun x => pi x * K eqb states pi q x y) states = pi y.
  Proof. exact (stationary eqb eqb_spec states pi q pi_pos q_nonneg). Qed.
End C06_mh.

Section C06_hmc.
  Variable grad : list R -> list R.
  Variable eps : R.
  Hypothesis grad_length : forall x, length (grad x) = length x.

  (* L leapfrog steps are exactly time-reversible for every step size *)
  Theorem C06_hmc_reversible : forall L x p, length p = length x ->
    leapfrog numR grad eps L (flip numR (leapfrog numR grad eps L (x, p))) = flip numR (x, p).
  Proof. exact (leapfrog_reversible grad eps grad_length). Qed.
End C06_hmc.

(* ---- leapfrog = kick . drift . kick: each factor is a shear with an explicit inverse (any dimension), and in
   dimension one the composed map has Jacobian determinant 1 (volume preservation; the multivariate change of
   variables is not available in the installed libraries and is NOT proved for dimension > 1) ---- *)
From MiniMcmc Require Import Proofs.Shear.
From Coquelicot Require Import Coquelicot.

Section C06_shear.
  Variable grad : list R -> list R.
  Hypothesis grad_length : forall x, length (grad x) = length x.

  Theorem C06_leap_shear : forall (eps : R) z,
    leap1 numR grad eps z = kickv grad (half_eps numR eps) (driftv eps (kickv grad (half_eps numR eps) z)).
  Proof. exact (leap1_decomp grad). Qed.

  (* the step with -eps is the inverse map: leapfrog is a bijection of phase space *)
  Theorem C06_leap_bijective : forall (eps : R) x p, length p = length x ->
    leap1 numR grad (- eps) (leap1 numR grad eps (x, p)) = (x, p).
  Proof. exact (leap1_inverse grad grad_length). Qed.
End C06_shear.

Theorem C06_leap_volume_1d : forall (g : R -> R) (eps x p : R), det4 (leap_1d_jac g eps x p) = 1.
Proof. exact leap_1d_jacobian_det. Qed.

Theorem C06_leap_jacobian_1d : forall (g : R -> R) (eps x p : R),
  ex_derive g x -> ex_derive g (x + eps * (p + eps * (1 / 2) * g x)) ->
  let '(ja, jb, jc, jd) := leap_1d_jac g eps x p in
  is_derive (fun x0 => fst (leap_1d g eps (x0, p))) x ja /\
  is_derive (fun p2 => fst (leap_1d g eps (x, p2))) p jb /\
  is_derive (fun x0 => snd (leap_1d g eps (x0, p))) x jc /\
  is_derive (fun p2 => snd (leap_1d g eps (x, p2))) p jd.
Proof. exact leap_1d_partials. Qed.

Print Assumptions C06_mh_stationary.
Print Assumptions C06_hmc_reversible.
Print Assumptions C06_leap_shear.
Print Assumptions C06_leap_bijective.
Print Assumptions C06_leap_volume_1d.
Print Assumptions C06_leap_jacobian_1d.

(* ---- finite-state ergodicity: a kernel with a uniform minorisation P x y >= delta (Doeblin) contracts the l1
   distance between laws, so the n-step law converges geometrically to the stationary law; the Metropolis
   kernel on a deterministic involutive proposal (HMC's shape: L leapfrog steps then a momentum flip) is
   reversible, stochastic and leaves the weights stationary; and the HMC proposal is such an involution.
   Finite state spaces only: the continuous-state ergodic theorem is NOT proved. ---- *)
From MiniMcmc Require Import Model.Ergodic Proofs.Ergodic.
From Coq Require Import List.
Import ListNotations.

Section C06_doeblin.
  Context {St : Type}.
  Variable states : list St.
  Variable P : St -> St -> R.
  Hypothesis P_row : forall x, In x states -> sumR (P x) states = 1.

  (* a stochastic kernel preserves total mass *)
  Theorem C06_push_mass : forall mu : St -> R, sumR (push states P mu) states = sumR mu states.
  Proof. exact (push_mass states P P_row). Qed.

  Variable delta : R.
  Hypothesis P_minor : forall x y, In x states -> In y states -> delta <= P x y.

  (* one step contracts the l1 distance of two mass functions of equal mass by 1 - N*delta *)
  Theorem C06_doeblin_contraction : forall mu nu : St -> R, sumR mu states = sumR nu states ->
    l1 states (push states P mu) (push states P nu) <= (1 - INR (length states) * delta) * l1 states mu nu.
  Proof. exact (doeblin_contraction states P P_row delta P_minor). Qed.

  Variable pi : St -> R.
  Hypothesis pi_stat : forall y, In y states -> push states P pi y = pi y.

  (* geometric convergence of the n-step law to the stationary law *)
  Theorem C06_doeblin_geometric : forall mu : St -> R, sumR mu states = sumR pi states ->
    forall n, l1 states (pushn states P n mu) pi <= (1 - INR (length states) * delta) ^ n * l1 states mu pi.
  Proof. exact (doeblin_geometric states P P_row delta P_minor pi pi_stat). Qed.

  (* with delta > 0 the distance falls below every eps *)
  Theorem C06_doeblin_limit : forall mu : St -> R, 0 < delta -> states <> [] ->
    sumR mu states = sumR pi states ->
    forall eps, 0 < eps -> exists n0, forall n, (n0 <= n)%nat -> l1 states (pushn states P n mu) pi < eps.
  Proof. exact (doeblin_limit states P P_row delta P_minor pi pi_stat). Qed.
End C06_doeblin.

Section C06_involutive.
  Context {St : Type}.
  Variable eqb : St -> St -> bool.
  Hypothesis eqb_spec : forall x y, eqb x y = true <-> x = y.
  Variable w : St -> R.
  Variable F : St -> St.
  Hypothesis w_pos : forall x, 0 < w x.
  Hypothesis F_inv : forall x, F (F x) = x.

  (* Metropolis on an involution is reversible with respect to the weights *)
  Theorem C06_involutive_detailed_balance : forall x y,
    w x * Kinv eqb w F x y = w y * Kinv eqb w F y x.
  Proof. exact (involutive_detailed_balance eqb eqb_spec w F w_pos F_inv). Qed.

  Variable states : list St.
  Hypothesis states_nodup : NoDup states.
  Hypothesis F_closed : forall x, In x states -> In (F x) states.

  Theorem C06_involutive_row_sum : forall x, In x states -> sumR (Kinv eqb w F x) states = 1.
  Proof. exact (involutive_row_sum eqb eqb_spec w F states states_nodup F_closed). Qed.

  Theorem C06_involutive_stationary : forall y, In y states ->
    sumR (fun x => w x * Kinv eqb w F x y) states = w y.
  Proof. exact (involutive_stationary eqb eqb_spec w F w_pos F_inv states states_nodup F_closed). Qed.
End C06_involutive.

Section C06_hmc_involution.
  Variable grad : list R -> list R.
  Variable eps : R.
  Variable L : nat.
  Hypothesis grad_length : forall x, length (grad x) = length x.

  (* the HMC proposal z |-> flip (leapfrog^L z) is an involution on phase points with matching lengths,
     and maps such points to such points *)
  Theorem C06_hmc_proposal_involution : forall x p : list R, length p = length x ->
    flip numR (leapfrog numR grad eps L (flip numR (leapfrog numR grad eps L (x, p)))) = (x, p).
  Proof. exact (hmc_proposal_involution grad eps L grad_length). Qed.

  Theorem C06_hmc_proposal_length : forall x p : list R, length p = length x ->
    length (snd (flip numR (leapfrog numR grad eps L (x, p))))
    = length (fst (flip numR (leapfrog numR grad eps L (x, p)))) /\
    length (fst (flip numR (leapfrog numR grad eps L (x, p)))) = length x.
  Proof. exact (hmc_proposal_length grad eps L grad_length). Qed.
End C06_hmc_involution.

(* non-vacuity: the two-state chain ex2_P (entries 3/4 1/4 / 1/2 1/2, all >= 1/4) with stationary law
   ex2_pi = (2/3, 1/3) meets every hypothesis above; any initial law halves its l1 distance each step *)
Theorem C06_doeblin_example : forall mu : bool -> R, mu true + mu false = 1 ->
  forall n, l1 [true; false] (pushn [true; false] ex2_P n mu) ex2_pi
            <= (1 / 2) ^ n * l1 [true; false] mu ex2_pi.
Proof. exact doeblin_example. Qed.

Print Assumptions C06_push_mass.
Print Assumptions C06_doeblin_contraction.
Print Assumptions C06_doeblin_geometric.
Print Assumptions C06_doeblin_limit.
Print Assumptions C06_involutive_detailed_balance.
Print Assumptions C06_involutive_row_sum.
Print Assumptions C06_involutive_stationary.
Print Assumptions C06_hmc_proposal_involution.
Print Assumptions C06_hmc_proposal_length.
Print Assumptions C06_doeblin_example.

(* ---- the two together for the Metropolis-Hastings kernel of C01: on a finite state space where every transition
   probability is at least delta, the law of the chain after n steps is within (1 - N delta)^n of the target in l1,
   whatever the initial law (rows sum to one: C01_kernel_stochastic; pi stationary: C01_stationary) ---- *)
Section C06_mh_converges.
  Context {St : Type}.
  Variable eqb : St -> St -> bool.
  Hypothesis eqb_spec : forall x y, eqb x y = true <-> x = y.
  Variable states : list St.
  Variable pi : St -> R.
  Variable q : St -> St -> R.
  Hypothesis pi_pos : forall x, 0 < pi x.
  Hypothesis q_nonneg : forall x y, 0 <= q x y.
  Hypothesis states_nodup : NoDup states.
  Variable delta : R.
  Hypothesis K_minor : forall x y, In x states -> In y states -> delta <= K eqb states pi q x y.

  Theorem C06_mh_converges : forall mu : St -> R, sumR mu states = sumR pi states ->
    forall n, l1 states (pushn states (K eqb states pi q) n mu) pi
              <= (1 - INR (length states) * delta) ^ n * l1 states mu pi.
  Proof.
    exact (doeblin_geometric states (K eqb states pi q)
             (fun x Hx => K_row_sum eqb eqb_spec states pi q x states_nodup Hx) delta K_minor pi
             (fun y Hy => stationary eqb eqb_spec states pi q pi_pos q_nonneg y states_nodup Hy)).
  Qed.
End C06_mh_converges.
Print Assumptions C06_mh_converges.

(* ---- m-step kernels: when only the m-step kernel kpow m is minorised (a proposal with zero entries: the one-step
   kernel has zeros, Doeblin's hypothesis fails for it), the m-step kernel is still stochastic, pushes laws like m
   steps of P and keeps P's stationary law, so the law after m*n steps is within (1 - N delta_m)^n of it ---- *)
From MiniMcmc Require Import Model.ErgodicEval Proofs.ErgodicEval.
Close Scope Q_scope.
Open Scope R_scope.

Section C06_blocks.
  Context {St : Type}.
  Variable eqb : St -> St -> bool.
  Hypothesis eqb_spec : forall x y, eqb x y = true <-> x = y.
  Variable states : list St.
  Hypothesis states_nodup : NoDup states.
  Variable P : St -> St -> R.
  Hypothesis P_row : forall x, In x states -> sumR (P x) states = 1.

  Theorem C06_kpow_row_sum : forall m x, In x states -> sumR (kpow eqb states P m x) states = 1.
  Proof. exact (kpow_row_sum eqb eqb_spec states states_nodup P P_row). Qed.

  (* one step of the m-step kernel is m steps of P; n steps of it are m * n steps of P *)
  Theorem C06_push_kpow : forall m (mu : St -> R) y, In y states ->
    push states (kpow eqb states P m) mu y = pushn states P m mu y.
  Proof. exact (push_kpow eqb eqb_spec states states_nodup P). Qed.

  Theorem C06_pushn_kpow : forall m n (mu : St -> R) y, In y states ->
    pushn states (kpow eqb states P m) n mu y = pushn states P (m * n) mu y.
  Proof. exact (pushn_kpow eqb eqb_spec states states_nodup P). Qed.

  Variable pi : St -> R.
  Hypothesis pi_stat : forall y, In y states -> push states P pi y = pi y.

  Theorem C06_kpow_stationary : forall m y, In y states -> push states (kpow eqb states P m) pi y = pi y.
  Proof. exact (kpow_stationary eqb eqb_spec states states_nodup P pi pi_stat). Qed.

  Theorem C06_doeblin_blocks : forall (m : nat) (delta : R),
    (forall x y, In x states -> In y states -> delta <= kpow eqb states P m x y) ->
    forall mu : St -> R, sumR mu states = sumR pi states ->
    forall n, l1 states (pushn states P (m * n) mu) pi <= (1 - INR (length states) * delta) ^ n * l1 states mu pi.
  Proof. exact (doeblin_blocks eqb eqb_spec states states_nodup P P_row pi pi_stat). Qed.
End C06_blocks.

Section C06_mh_converges_blocks.
  Context {St : Type}.
  Variable eqb : St -> St -> bool.
  Hypothesis eqb_spec : forall x y, eqb x y = true <-> x = y.
  Variable states : list St.
  Variable pi : St -> R.
  Variable q : St -> St -> R.
  Hypothesis pi_pos : forall x, 0 < pi x.
  Hypothesis q_nonneg : forall x y, 0 <= q x y.
  Hypothesis states_nodup : NoDup states.

  (* the Metropolis-Hastings kernel of C01 with only its m-step kernel minorised *)
  Theorem C06_mh_converges_blocks : forall (m : nat) (delta : R),
    (forall x y, In x states -> In y states -> delta <= kpow eqb states (K eqb states pi q) m x y) ->
    forall mu : St -> R, sumR mu states = sumR pi states ->
    forall n, l1 states (pushn states (K eqb states pi q) (m * n) mu) pi
              <= (1 - INR (length states) * delta) ^ n * l1 states mu pi.
  Proof.
    exact (doeblin_blocks eqb eqb_spec states states_nodup (K eqb states pi q)
             (fun x Hx => K_row_sum eqb eqb_spec states pi q x states_nodup Hx) pi
             (fun y Hy => stationary eqb eqb_spec states pi q pi_pos q_nonneg y states_nodup Hy)).
  Qed.
End C06_mh_converges_blocks.

Print Assumptions C06_kpow_row_sum.
Print Assumptions C06_push_kpow.
Print Assumptions C06_pushn_kpow.
Print Assumptions C06_kpow_stationary.
Print Assumptions C06_doeblin_blocks.
Print Assumptions C06_mh_converges_blocks.

(* ---- the exact-rational evaluation (Model/ErgodicEval.v: states 0..N-1, weights w, proposal matrix q, kernels as
   matrices of rationals) computes the real objects of the theorems entry by entry: vR mu i = Q2R (qnth mu i),
   PR P i j = Q2R (mnth P i j) ---- *)
Theorem C06_eval_kernel : forall (N : nat) (w : list Q) (q : list (list Q)),
  (forall i, (i < N)%nat -> 0 < vR w i) ->
  forall x y, (x < N)%nat -> (y < N)%nat ->
  mnth (Kmat N w q) x y = KQ N w q x y /\
  Q2R (KQ N w q x y) = K Nat.eqb (seq 0 N) (vR w) (PR q) x y.
Proof. exact (fun N w q Hw x y Hx Hy => conj (Kmat_entry N w q x y Hx Hy) (KQ_is_K N w q Hw x y Hx Hy)). Qed.

Theorem C06_eval_push : forall (N : nat) (P : list (list Q)) (n : nat) (mu : list Q) (y : nat), (y < N)%nat ->
  Q2R (qnth (vpushn N P n mu) y) = pushn (seq 0 N) (PR P) n (vR mu) y.
Proof. exact vpushn_is_pushn. Qed.

Theorem C06_eval_l1 : forall (N : nat) (mu nu : list Q), Q2R (l1Q N mu nu) = l1 (seq 0 N) (vR mu) (vR nu).
Proof. exact l1Q_is_l1. Qed.

Theorem C06_eval_power : forall (N : nat) (P : list (list Q)), wfmat N P ->
  forall m x y, (x < N)%nat -> (y < N)%nat ->
  Q2R (mnth (mpow N P m) x y) = kpow Nat.eqb (seq 0 N) (PR P) m x y.
Proof. exact mpow_is_kpow. Qed.

Theorem C06_eval_minor : forall (N : nat) (P : list (list Q)) (x y : nat),
  wfmat N P -> (x < N)%nat -> (y < N)%nat -> (minorQ P <= mnth P x y)%Q.
Proof. exact minorQ_le. Qed.

Section C06_eval_table.
  Variable N : nat.
  Variable w : list Q.
  Variable q : list (list Q).
  Hypothesis w_pos : forall i, (i < N)%nat -> (0 < qnth w i)%Q.
  Hypothesis q_nonneg : forall i j, (i < N)%nat -> (j < N)%nat -> (0 <= mnth q i j)%Q.

  (* the evaluated MH kernel is stochastic and the normalised weights are stationary for it, over R and exactly
     between the rationals (ergo_eval's first flag) *)
  Theorem C06_eval_row_sum : forall x, In x (seq 0 N) -> sumR (PR (Kmat N w q) x) (seq 0 N) = 1.
  Proof. exact (Kmat_row_sum N w q w_pos). Qed.

  Theorem C06_eval_stationary : forall y, In y (seq 0 N) ->
    push (seq 0 N) (PR (Kmat N w q)) (vR (normalise w)) y = vR (normalise w) y.
  Proof. exact (Kmat_stationary N w q w_pos q_nonneg). Qed.

  Theorem C06_eval_stationary_flag :
    forallb (fun y => Qeq_bool (qnth (vpush N (Kmat N w q) (normalise w)) y) (qnth (normalise w) y)) (seq 0 N) = true.
  Proof. exact (ergo_stat_sound N w q w_pos q_nonneg). Qed.

  (* ergo_eval's `dist` is the l1 distance to pi of the law after m * n steps of the kernel *)
  Theorem C06_eval_dist : forall (m n : nat) (e : list Q),
    Q2R (l1Q N (vpushn N (mpow N (Kmat N w q) m) n e) (normalise w))
    = l1 (seq 0 N) (pushn (seq 0 N) (PR (Kmat N w q)) (m * n) (vR e)) (vR (normalise w)).
  Proof. exact (ergo_dist_is_l1 N w q). Qed.

  (* and it is below ergo_eval's `bound` (1 - N delta_m)^n l1(e, pi), delta_m the least entry of the m-th power *)
  Theorem C06_eval_bound : forall (m n : nat) (e : list Q),
    (qsuml (map (qnth e) (seq 0 N)) == qsuml (map (qnth (normalise w)) (seq 0 N)))%Q ->
    (l1Q N (vpushn N (mpow N (Kmat N w q) m) n e) (normalise w)
     <= qmul (qpow (Qred (1 - inject_Z (Z.of_nat N) * minorQ (mpow N (Kmat N w q) m))) n)
             (l1Q N e (normalise w)))%Q.
  Proof. exact (ergo_bound_sound N w q w_pos q_nonneg). Qed.
End C06_eval_table.

(* on every admissible input (positive weights, nonnegative proposal weights, start state in range) the two flags
   ergo_eval prints last are 1: stationarity holds exactly and the exact distance is below the bound *)
Theorem C06_eval_flags : forall (ws : list Z) (qs : list (list Z)) (m n s : nat),
  (forall z, In z ws -> (0 < z)%Z) ->
  (forall row z, In row qs -> In z row -> (0 <= z)%Z) ->
  (s < length ws)%nat ->
  exists front, ergo_eval ws qs m n s = front ++ [1; 1]%Z.
Proof. exact ergo_eval_flags. Qed.

(* non-vacuity: a 4-state table whose proposal has a zero diagonal; the one-step kernel has a zero entry (delta_1 = 0,
   bound 20/11 = l1(e_0, pi): no contraction) while delta_2 = 107/1200 and 20 blocks of 2 steps bring the bound to
   about 2.7e-4 and the exact distance to about 2.3e-15 *)
Theorem C06_eval_example :
  ergo_eval [1;2;3;5]%Z [[0;1;1;2];[1;0;4;1];[2;1;0;1];[1;1;1;1]]%Z 2 20 0
  = [1; 11; 2; 11; 3; 11; 5; 11; 107; 1200;
     5142167038124967688510395237016892228377440001;
     19177314205500000000000000000000000000000000000000;
     466217033920292668929678429099850170612580027134678775704113;
     200761944647381094053515681440202752000000000000000000000000000000000000000;
     1; 1]%Z.
Proof. exact ergo_eval_example. Qed.

Theorem C06_eval_example_onestep :
  ergo_eval [1;2;3;5]%Z [[0;1;1;2];[1;0;4;1];[2;1;0;1];[1;1;1;1]]%Z 1 20 0
  = [1; 11; 2; 11; 3; 11; 5; 11; 0; 1; 20; 11;
     68011179386812229498364346817; 8579785139347783680000000000000000000; 1; 1]%Z.
Proof. exact ergo_eval_example_onestep. Qed.

Print Assumptions C06_eval_kernel.
Print Assumptions C06_eval_push.
Print Assumptions C06_eval_l1.
Print Assumptions C06_eval_power.
Print Assumptions C06_eval_minor.
Print Assumptions C06_eval_row_sum.
Print Assumptions C06_eval_stationary.
Print Assumptions C06_eval_stationary_flag.
Print Assumptions C06_eval_dist.
Print Assumptions C06_eval_bound.
Print Assumptions C06_eval_flags.
Print Assumptions C06_eval_example.
Print Assumptions C06_eval_example_onestep.
