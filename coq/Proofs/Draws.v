(* Draw discipline.
   HMC (Model/HMC.v: hmc_mom_idx, hmc_uni_idx, hmc_draws_eval): with ONE generator per sampler, step s
   of a sampler with n chains of dimension d reads stream positions s*(n*d+n) .. (s+1)*(n*d+n)-1:
   first the n*d momenta (row-major), then the n uniforms.  The index maps are injective, their ranges
   are disjoint and together they cover [0, k*(n*d+n)) exactly; the model's reading of the stream is
   the identity on that prefix.
   NUTS (Model/NUTSEval.v: nuts_transition_kinds, nuts_run_kinds): lengths and per-kind counts of the
   draw grammar, and the link to Model/NUTS.v: the f64 uniforms (kind 3) a doubling contributes are
   the uniforms build_tree consumes, one per merge, 2^j - 1 for a complete sub-tree of depth j. *)
From Coq Require Import List Arith Lia ZArith.
From MiniMcmc Require Import Base.Util Model.HMC Model.NUTSEval Model.NUTS Proofs.Sched Proofs.NUTS.
Import ListNotations.
Close Scope Q_scope.
Close Scope R_scope.
Close Scope Z_scope.
Close Scope N_scope.
Open Scope nat_scope.

(* ------------------------------------------------------------------ generic list facts *)
Lemma map_seq_shift {X} : forall m (f : nat -> X) a,
  map f (seq a m) = map (fun j => f (a + j)) (seq 0 m).
Proof.
  induction m as [|m IH]; intros f a; [reflexivity|].
  cbn [seq map]. rewrite Nat.add_0_r. f_equal.
  rewrite (IH f (S a)). rewrite (IH (fun j => f (a + j)) 1). apply map_ext. intros j.
  f_equal. lia.
Qed.

(* reading a d-wide block per row, row after row, is reading n*d consecutive positions *)
Lemma block_concat {X} (f : nat -> X) (d : nat) : forall n,
  concat (map (fun r => map (fun j => f (r * d + j)) (seq 0 d)) (seq 0 n)) = map f (seq 0 (n * d)).
Proof.
  induction n as [|n IH]; [reflexivity|].
  rewrite seq_S, map_app, concat_app, IH. cbn [map concat]. rewrite app_nil_r.
  replace (S n * d) with (n * d + d) by (cbn [Nat.mul]; lia).
  rewrite seq_app, map_app. f_equal. cbn [Nat.add].
  rewrite (map_seq_shift d f (n * d)). reflexivity.
Qed.

Lemma map_nth_seq_firstn {X} (dflt : X) : forall (l : list X) N,
  N <= length l -> map (fun i => nth i l dflt) (seq 0 N) = firstn N l.
Proof.
  induction l as [|x l IH]; intros N HN.
  - cbn [length] in HN. assert (N = 0) by lia. subst N. reflexivity.
  - destruct N as [|N]; [reflexivity|].
    cbn [seq map firstn]. f_equal.
    rewrite (map_seq_shift N (fun i => nth i (x :: l) dflt) 1).
    cbn [Nat.add nth]. apply IH. cbn [length] in HN. lia.
Qed.

(* ------------------------------------------------------------------ HMC *)
Lemma hmc_mom_idx_blk n d s r j : hmc_mom_idx n d s r j = s * (n * d + n) + (r * d + j).
Proof. unfold hmc_mom_idx. lia. Qed.

Lemma hmc_uni_idx_blk n d s r : hmc_uni_idx n d s r = s * (n * d + n) + (n * d + r).
Proof. unfold hmc_uni_idx. lia. Qed.

Lemma hmc_mom_off_lt n d r j : r < n -> j < d -> r * d + j < n * d + n.
Proof. intros Hr Hj. pose proof (row_index_in_range n d r j Hr Hj). lia. Qed.

Lemma hmc_mom_idx_range : forall n d k s r j,
  r < n -> j < d -> s < k -> hmc_mom_idx n d s r j < k * (n * d + n).
Proof.
  intros n d k s r j Hr Hj Hs. rewrite hmc_mom_idx_blk.
  apply row_index_in_range; [exact Hs|]. apply hmc_mom_off_lt; assumption.
Qed.

Lemma hmc_uni_idx_range : forall n d k s r,
  r < n -> s < k -> hmc_uni_idx n d s r < k * (n * d + n).
Proof.
  intros n d k s r Hr Hs. rewrite hmc_uni_idx_blk.
  apply row_index_in_range; [exact Hs|]. lia.
Qed.

Lemma hmc_idx_range : forall n d k s r,
  r < n -> s < k ->
  (forall j, j < d -> hmc_mom_idx n d s r j < k * (n * d + n)) /\ hmc_uni_idx n d s r < k * (n * d + n).
Proof.
  intros n d k s r Hr Hs. split.
  - intros j Hj. apply hmc_mom_idx_range; assumption.
  - apply hmc_uni_idx_range; assumption.
Qed.

Lemma hmc_mom_idx_inj : forall n d s r j s' r' j',
  r < n -> j < d -> r' < n -> j' < d ->
  hmc_mom_idx n d s r j = hmc_mom_idx n d s' r' j' -> s = s' /\ r = r' /\ j = j'.
Proof.
  intros n d s r j s' r' j' Hr Hj Hr' Hj' E. rewrite !hmc_mom_idx_blk in E.
  apply row_index_inj in E; [|apply hmc_mom_off_lt; assumption|apply hmc_mom_off_lt; assumption].
  destruct E as [Es E]. apply row_index_inj in E; [|assumption|assumption]. tauto.
Qed.

Lemma hmc_uni_idx_inj : forall n d s r s' r',
  r < n -> r' < n ->
  hmc_uni_idx n d s r = hmc_uni_idx n d s' r' -> s = s' /\ r = r'.
Proof.
  intros n d s r s' r' Hr Hr' E. rewrite !hmc_uni_idx_blk in E.
  apply row_index_inj in E; [|lia|lia]. destruct E as [Es E]. split; [exact Es|lia].
Qed.

Lemma hmc_mom_uni_disjoint : forall n d s r j s' r',
  r < n -> j < d -> r' < n -> hmc_mom_idx n d s r j <> hmc_uni_idx n d s' r'.
Proof.
  intros n d s r j s' r' Hr Hj Hr' E. rewrite hmc_mom_idx_blk, hmc_uni_idx_blk in E.
  apply row_index_inj in E; [|apply hmc_mom_off_lt; assumption|lia].
  destruct E as [_ E]. pose proof (row_index_in_range n d r j Hr Hj). lia.
Qed.

Lemma hmc_idx_cover : forall n d k p, p < k * (n * d + n) ->
  (exists s r j, s < k /\ r < n /\ j < d /\ p = hmc_mom_idx n d s r j) \/
  (exists s r, s < k /\ r < n /\ p = hmc_uni_idx n d s r).
Proof.
  intros n d k p Hp.
  destruct (row_index_surj k (n * d + n) p Hp) as (s & a & Hs & Ha & Ep).
  destruct (Nat.lt_ge_cases a (n * d)) as [L|G].
  - left. destruct (row_index_surj n d a L) as (r & j & Hr & Hj & Ea).
    exists s, r, j. repeat split; try assumption. rewrite hmc_mom_idx_blk, Ep, Ea. reflexivity.
  - right. exists s, (a - n * d). split; [exact Hs|]. split; [lia|].
    rewrite hmc_uni_idx_blk, Ep. f_equal. lia.
Qed.

(* the model reads the stream sequentially: position after position, nothing skipped or repeated *)
Lemma hmc_draws_eval_seq : forall n d k ev,
  hmc_draws_eval n d k ev = map (fun i => nth i ev (-1)%Z) (seq 0 (k * (n * d + n))).
Proof.
  intros n d k ev. unfold hmc_draws_eval.
  rewrite <- (block_concat (fun i => nth i ev (-1)%Z) (n * d + n) k).
  f_equal. apply map_ext. intros s.
  rewrite seq_app, map_app. f_equal.
  - rewrite <- (block_concat (fun a => nth (s * (n * d + n) + a) ev (-1)%Z) d n).
    f_equal. apply map_ext. intros r. apply map_ext. intros j.
    rewrite hmc_mom_idx_blk. reflexivity.
  - cbn [Nat.add]. rewrite (map_seq_shift n _ (n * d)). apply map_ext. intros r.
    rewrite hmc_uni_idx_blk. reflexivity.
Qed.

Lemma hmc_draws_eval_length : forall n d k ev,
  length (hmc_draws_eval n d k ev) = k * (n * d + n).
Proof. intros. rewrite hmc_draws_eval_seq, map_length, seq_length. reflexivity. Qed.

Lemma hmc_draws_eval_prefix : forall n d k ev,
  k * (n * d + n) <= length ev -> hmc_draws_eval n d k ev = firstn (k * (n * d + n)) ev.
Proof. intros n d k ev H. rewrite hmc_draws_eval_seq. apply map_nth_seq_firstn. exact H. Qed.

(* ------------------------------------------------------------------ NUTS: the draw grammar *)
Lemma dbl_kinds_length : forall ms,
  length (concat (map (fun m => [2] ++ repeat 3 m ++ [2]) ms))%Z
  = fold_right (fun m acc => m + 2 + acc) 0 ms.
Proof.
  induction ms as [|m ms IH]; [reflexivity|].
  cbn [map concat fold_right]. rewrite !app_length, IH, repeat_length. cbn [length]. lia.
Qed.

Lemma nuts_transition_kinds_length : forall d ms,
  length (nuts_transition_kinds d ms) = d + 1 + fold_right (fun m acc => m + 2 + acc) 0 ms.
Proof.
  intros d ms. unfold nuts_transition_kinds.
  rewrite !app_length, repeat_length, dbl_kinds_length. cbn [length]. lia.
Qed.

Lemma nuts_run_kinds_length : forall d trs,
  length (nuts_run_kinds d trs)
  = d + fold_right (fun ms acc => (d + 1 + fold_right (fun m acc' => m + 2 + acc') 0 ms) + acc) 0 trs.
Proof.
  intros d trs. unfold nuts_run_kinds. rewrite app_length, repeat_length. f_equal.
  induction trs as [|ms trs IH]; [reflexivity|].
  cbn [map concat fold_right]. rewrite app_length, IH, nuts_transition_kinds_length. reflexivity.
Qed.

Lemma dbl_kinds_count3 : forall ms,
  count_occ Z.eq_dec (concat (map (fun m => [2] ++ repeat 3 m ++ [2]) ms))%Z 3%Z
  = fold_right Nat.add 0 ms.
Proof.
  induction ms as [|m ms IH]; [reflexivity|].
  cbn [map concat fold_right]. rewrite !count_occ_app, IH.
  rewrite (count_occ_repeat_eq Z.eq_dec) by reflexivity.
  rewrite !(count_occ_cons_neq Z.eq_dec) by discriminate. cbn [count_occ]. lia.
Qed.

Lemma dbl_kinds_count2 : forall ms,
  count_occ Z.eq_dec (concat (map (fun m => [2] ++ repeat 3 m ++ [2]) ms))%Z 2%Z
  = 2 * length ms.
Proof.
  induction ms as [|m ms IH]; [reflexivity|].
  cbn [map concat length]. rewrite !count_occ_app, IH.
  rewrite (count_occ_repeat_neq Z.eq_dec) by discriminate.
  rewrite !(count_occ_cons_eq Z.eq_dec) by reflexivity. cbn [count_occ]. lia.
Qed.

Lemma dbl_kinds_count_other : forall x ms, x <> 2%Z -> x <> 3%Z ->
  count_occ Z.eq_dec (concat (map (fun m => [2] ++ repeat 3 m ++ [2]) ms))%Z x = 0.
Proof.
  intros x ms H2 H3. induction ms as [|m ms IH]; [reflexivity|].
  cbn [map concat]. rewrite !count_occ_app, IH.
  rewrite (count_occ_repeat_neq Z.eq_dec) by exact H3.
  rewrite (count_occ_cons_neq Z.eq_dec) by (intros E; apply H2; symmetry; exact E).
  reflexivity.
Qed.

Lemma nuts_transition_kinds_count3 : forall d ms,
  count_occ Z.eq_dec (nuts_transition_kinds d ms) 3%Z = fold_right Nat.add 0 ms.
Proof.
  intros d ms. unfold nuts_transition_kinds. rewrite !count_occ_app, dbl_kinds_count3.
  rewrite (count_occ_repeat_neq Z.eq_dec) by discriminate. reflexivity.
Qed.

Lemma nuts_transition_kinds_count2 : forall d ms,
  count_occ Z.eq_dec (nuts_transition_kinds d ms) 2%Z = 2 * length ms.
Proof.
  intros d ms. unfold nuts_transition_kinds. rewrite !count_occ_app, dbl_kinds_count2.
  rewrite (count_occ_repeat_neq Z.eq_dec) by discriminate. reflexivity.
Qed.

Lemma nuts_transition_kinds_count1 : forall d ms,
  count_occ Z.eq_dec (nuts_transition_kinds d ms) 1%Z = 1.
Proof.
  intros d ms. unfold nuts_transition_kinds.
  rewrite !count_occ_app, dbl_kinds_count_other by discriminate.
  rewrite (count_occ_repeat_neq Z.eq_dec) by discriminate. reflexivity.
Qed.

Lemma nuts_transition_kinds_count0 : forall d ms,
  count_occ Z.eq_dec (nuts_transition_kinds d ms) 0%Z = d.
Proof.
  intros d ms. unfold nuts_transition_kinds.
  rewrite !count_occ_app, dbl_kinds_count_other by discriminate.
  rewrite (count_occ_repeat_eq Z.eq_dec) by reflexivity. cbn. lia.
Qed.

(* only the four kinds occur *)
Lemma nuts_transition_kinds_alphabet : forall d ms x,
  In x (nuts_transition_kinds d ms) -> (x = 0 \/ x = 1 \/ x = 2 \/ x = 3)%Z.
Proof.
  intros d ms x H. unfold nuts_transition_kinds in H.
  apply in_app_or in H. destruct H as [H|H]; [apply repeat_spec in H; tauto|].
  apply in_app_or in H. destruct H as [[H|[]]|H]; [auto|].
  apply in_concat in H. destruct H as (l & Hl & Hx). apply in_map_iff in Hl.
  destruct Hl as (m & <- & _).
  apply in_app_or in Hx. destruct Hx as [[Hx|[]]|Hx]; [auto|].
  apply in_app_or in Hx. destruct Hx as [Hx|[Hx|[]]]; [apply repeat_spec in Hx|]; auto.
Qed.

(* whole run: per-kind counts *)
Lemma count_concat_map {X Y} (dec : forall a b : Y, {a = b} + {a <> b}) (f : X -> list Y) (y : Y) :
  forall l, count_occ dec (concat (map f l)) y = list_sum (map (fun a => count_occ dec (f a) y) l).
Proof.
  induction l as [|a l IH]; [reflexivity|].
  cbn [map concat list_sum fold_right]. rewrite count_occ_app, IH. reflexivity.
Qed.

Lemma nuts_run_kinds_counts : forall d trs,
  count_occ Z.eq_dec (nuts_run_kinds d trs) 0%Z = d + d * length trs /\
  count_occ Z.eq_dec (nuts_run_kinds d trs) 1%Z = length trs /\
  count_occ Z.eq_dec (nuts_run_kinds d trs) 2%Z = 2 * list_sum (map (@length nat) trs) /\
  count_occ Z.eq_dec (nuts_run_kinds d trs) 3%Z = list_sum (map (fold_right Nat.add 0) trs).
Proof.
  intros d trs. unfold nuts_run_kinds. rewrite !count_occ_app, !count_concat_map.
  rewrite (count_occ_repeat_eq Z.eq_dec) by reflexivity.
  rewrite !(count_occ_repeat_neq Z.eq_dec) by discriminate.
  repeat split.
  - f_equal. induction trs as [|ms trs IH]; [cbn; lia|].
    cbn [map list_sum fold_right length]. fold (list_sum (map (fun a => count_occ Z.eq_dec (nuts_transition_kinds d a) 0%Z) trs)).
    rewrite IH, nuts_transition_kinds_count0. lia.
  - cbn [Nat.add]. induction trs as [|ms trs IH]; [reflexivity|].
    cbn [map list_sum fold_right length]. fold (list_sum (map (fun a => count_occ Z.eq_dec (nuts_transition_kinds d a) 1%Z) trs)).
    rewrite IH, nuts_transition_kinds_count1. reflexivity.
  - cbn [Nat.add]. induction trs as [|ms trs IH]; [reflexivity|].
    cbn [map list_sum fold_right]. fold (list_sum (map (fun a => count_occ Z.eq_dec (nuts_transition_kinds d a) 2%Z) trs)).
    fold (list_sum (map (@length nat) trs)).
    rewrite IH, nuts_transition_kinds_count2. lia.
  - cbn [Nat.add]. induction trs as [|ms trs IH]; [reflexivity|].
    cbn [map list_sum fold_right]. fold (list_sum (map (fun a => count_occ Z.eq_dec (nuts_transition_kinds d a) 3%Z) trs)).
    fold (list_sum (map (fold_right Nat.add 0) trs)).
    rewrite IH, nuts_transition_kinds_count3. reflexivity.
Qed.

(* ------------------------------------------------------------------ NUTS: link to Model/NUTS.v *)
Lemma map_by_index {X Y} (g : X -> Y) (h : nat -> Y) : forall (l : list X) a,
  (forall i x, nth_error l i = Some x -> g x = h (a + i)) ->
  map g l = map h (seq a (length l)).
Proof.
  induction l as [|x l IH]; intros a H; [reflexivity|].
  cbn [map length seq]. f_equal.
  - rewrite (H 0 x eq_refl). f_equal. lia.
  - apply IH. intros i y Hy. rewrite (H (S i) y Hy). f_equal. lia.
Qed.

Lemma dbl_total_split : forall ms,
  fold_right (fun m acc => m + 2 + acc) 0 ms = fold_right Nat.add 0 ms + 2 * length ms.
Proof. induction ms as [|m ms IH]; cbn [fold_right length]; lia. Qed.

Section NUTSDraws.
  Context {P F A U : Type}.
  Variable leap : bool -> P -> P.
  Variable joint : P -> F.
  Variable noturn : P -> P -> bool.
  Variable flt : F -> F -> bool.
  Variable sub1000 : F -> F.
  Variable alpha1 : P -> A.
  Variable aadd : A -> A -> A.
  Variable take2 : U -> nat -> nat -> bool.
  Variable logu : F.

  Notation tree := (@tree P A).
  Notation dbl := (@dbl P A).
  Notation nst := (@nst P).
  Notation build_tree := (build_tree leap joint noturn flt sub1000 alpha1 aadd take2 logu).

  (* one f64 uniform per merge: a call of depth j consumes a prefix of the supply of length
     (leaves visited) - 1 <= 2^j - 1, exactly 2^j - 1 when the sub-tree did not stop *)
  Lemma build_tree_merges : forall j z v us t us',
    build_tree j z v us = Some (t, us') ->
    exists used, us = used ++ us' /\ length used = tnalpha t - 1 /\
      length used <= 2 ^ j - 1 /\ (ts t = true -> length used = 2 ^ j - 1).
  Proof.
    intros j z v us t us' H.
    destruct (build_tree_consumes leap joint noturn flt sub1000 alpha1 aadd take2 logu _ _ _ _ _ _ H)
      as (used & Hus & Hlen).
    destruct (build_tree_leaves leap joint noturn flt sub1000 alpha1 aadd take2 logu _ _ _ _ _ _ H)
      as (m & Hm & _ & Hta & _ & _ & Hfull).
    exists used. split; [exact Hus|]. split; [lia|]. split; [lia|].
    intros Hts. specialize (Hfull Hts). lia.
  Qed.

  Variable accept_top : U -> nat -> nat -> bool.
  Notation doublings := (doublings leap joint noturn flt sub1000 alpha1 aadd take2 logu accept_top).
  Notation transition := (transition leap joint noturn flt sub1000 alpha1 aadd take2 logu accept_top).
  Notation step_st := (step_st accept_top).
  Notation step_rec := (step_rec accept_top).
  Notation step_continue := (step_continue noturn).

  (* what the doubling loop takes from its three supplies: one direction and one acceptance uniform
     per doubling, and for the tree uniforms the sum over the doublings of (leaves - 1) *)
  Lemma doublings_consumes : forall fuel st dirs tus accs stf recs dr tr ar,
    doublings fuel st dirs tus accs = Some (stf, recs, dr, tr, ar) ->
    exists tu au, dirs = map d_dir recs ++ dr /\ tus = tu ++ tr /\ accs = au ++ ar /\
      length au = length recs /\
      length tu = fold_right Nat.add 0 (map (fun r => tnalpha (d_tree r) - 1) recs).
  Proof.
    induction fuel as [|f IH]; intros st dirs tus accs stf recs dr tr ar H; [discriminate|].
    simpl in H.
    destruct dirs as [|v dirs']; [discriminate|]. destruct accs as [|ac accs']; [discriminate|].
    destruct (build_tree (depth st) (if v then hi st else lo st) v tus) as [[t tus']|] eqn:Eb;
      [|discriminate].
    destruct (build_tree_merges _ _ _ _ _ _ Eb) as (w & Hw & Hlw & _).
    change (ts t && noturn (if v then lo st else zm t) (if v then zp t else hi st))
      with (step_continue st v t) in H.
    destruct (step_continue st v t) eqn:Ec.
    - match type of H with
      | match doublings f ?s _ _ _ with _ => _ end = _ =>
          change s with (step_st st v ac t) in H
      end.
      destruct (doublings f (step_st st v ac t) dirs' tus' accs')
        as [[[[[stf' recs'] dr'] tr'] ar']|] eqn:Ed; [|discriminate].
      inversion H; subst. clear H.
      destruct (IH _ _ _ _ _ _ _ _ _ Ed) as (tu & au & Hd & Ht & Ha & Hla & Hlt).
      exists (w ++ tu), (ac :: au). cbn [map d_dir d_tree fold_right length].
      split; [rewrite Hd; reflexivity|]. split; [rewrite Ht, app_assoc; reflexivity|].
      split; [rewrite Ha; reflexivity|]. split; [rewrite Hla; reflexivity|].
      rewrite app_length, Hlt, Hlw. reflexivity.
    - inversion H; subst. clear H.
      exists w, [ac]. cbn [map d_dir d_tree fold_right length].
      split; [reflexivity|]. split; [reflexivity|]. split; [reflexivity|]. split; [reflexivity|].
      rewrite Hlw. lia.
  Qed.

  (* A successful transition realises the grammar: with ms the per-doubling merge counts
     (leaves visited - 1), the T-uniforms it takes (directions + acceptance tests) are the kind-2
     entries and the f64 uniforms it takes are the kind-3 entries of nuts_transition_kinds d ms;
     doubling number i contributes 2^i - 1 of the latter unless it is the last and stopped early. *)
  Lemma transition_draws : forall (d : nat) fuel z0 dirs tus accs st recs dr tr ar,
    transition fuel z0 dirs tus accs = Some (st, recs, dr, tr, ar) ->
    exists tu au,
      dirs = map d_dir recs ++ dr /\ tus = tu ++ tr /\ accs = au ++ ar /\
      length (map d_dir recs) + length au =
        count_occ Z.eq_dec (nuts_transition_kinds d (map (fun r => tnalpha (d_tree r) - 1) recs)) 2%Z /\
      length tu =
        count_occ Z.eq_dec (nuts_transition_kinds d (map (fun r => tnalpha (d_tree r) - 1) recs)) 3%Z /\
      d + 1 + length (map d_dir recs) + length tu + length au =
        length (nuts_transition_kinds d (map (fun r => tnalpha (d_tree r) - 1) recs)) /\
      (exists mlast, map (fun r => tnalpha (d_tree r) - 1) recs =
           map (fun i => 2 ^ i - 1) (seq 0 (length recs - 1)) ++ [mlast] /\
         mlast <= 2 ^ (length recs - 1) - 1) /\
      (forall i r, nth_error recs i = Some r -> ts (d_tree r) = true ->
         tnalpha (d_tree r) - 1 = 2 ^ i - 1).
  Proof.
    intros d fuel z0 dirs tus accs st recs dr tr ar H.
    destruct (doublings_consumes _ _ _ _ _ _ _ _ _ _ H) as (tu & au & Hd & Ht & Ha & Hla & Hlt).
    destruct (transition_shape leap joint noturn flt sub1000 alpha1 aadd take2 logu accept_top
                _ _ _ _ _ _ _ _ _ _ H) as (_ & _ & (pre & dl & Hrecs & Hpre & _) & Hnth).
    exists tu, au. split; [exact Hd|]. split; [exact Ht|]. split; [exact Ha|].
    rewrite nuts_transition_kinds_count2, nuts_transition_kinds_count3, nuts_transition_kinds_length.
    rewrite !map_length, Hla, Hlt.
    split; [lia|]. split; [reflexivity|]. split.
    { rewrite dbl_total_split, map_length. lia. }
    split.
    - exists (tnalpha (d_tree dl) - 1).
      assert (Hlen : length recs - 1 = length pre).
      { rewrite Hrecs, app_length. cbn [length]. lia. }
      rewrite Hlen. split.
      + rewrite Hrecs at 1. rewrite map_app. cbn [map]. f_equal.
        apply (map_by_index (fun r : dbl => tnalpha (d_tree r) - 1) (fun i => 2 ^ i - 1) pre 0).
        intros i x Hx. cbn [Nat.add].
        assert (Hin : In x pre) by exact (nth_error_In _ _ Hx).
        assert (Hx' : nth_error recs i = Some x).
        { rewrite Hrecs, nth_error_app1; [exact Hx|]. apply nth_error_Some. congruence. }
        destruct (Hnth _ _ Hx') as (_ & Hfull & _). rewrite (Hfull (Hpre _ Hin)). reflexivity.
      + assert (Hdl : nth_error recs (length pre) = Some dl).
        { rewrite Hrecs, nth_error_app2 by lia. rewrite Nat.sub_diag. reflexivity. }
        destruct (Hnth _ _ Hdl) as (Hb & _). lia.
    - intros i r Hr Hts. destruct (Hnth _ _ Hr) as (_ & Hfull & _). rewrite (Hfull Hts). reflexivity.
  Qed.
End NUTSDraws.
