(* Proofs about the split R-hat model (Model/Stats.v: split_halves, var_n, withinvar,
   split_rhat2) instantiated at the reals, and about the selection model of basic_stats
   (Model/Summary.v).  Statements used by Properties/C11.v. *)
From MiniMcmc Require Import Base.Num Base.Util Model.Stats Model.Summary.
From Coq Require Import Reals Lra Lia Permutation Sorting.Sorted.
Open Scope R_scope.

(* ------------------------------------------------------------------ real-level mirrors *)
Definition rsum (l : list R) : R := fold_right Rplus 0 l.
Definition rmean (l : list R) : R := rsum l / INR (length l).
Definition sq (x : R) : R := x * x.
Definition rvar (l : list R) : R := rsum (map (fun x => sq (x - rmean l)) l) / INR (length l).
Definition hlen (hs : list (list R)) : nat := match hs with x :: _ => length x | [] => 0%nat end.
Definition ssq (means : list R) : R := rsum (map (fun mu => sq (mu - rmean means)) means).
Definition wv (c n : nat) (means vars : list R) : R * R :=
  (rmean vars,
   (INR n - 1) / INR n * rmean vars + ssq means * (INR n / INR (c - 1)) / INR n).

Lemma fold_left_Rplus (l : list R) (a : R) : fold_left Rplus l a = a + rsum l.
Proof. revert a; induction l as [|x l IH]; intros a; simpl; [lra|rewrite IH; lra]. Qed.

Lemma sumK_R (l : list R) : sumK numR l = rsum l.
Proof. change (sumK numR l) with (fold_left Rplus l 0). rewrite fold_left_Rplus. lra. Qed.

Lemma ofN_R (n : nat) : ofN numR n = INR n.
Proof. change (ofN numR n) with (IZR (Z.of_nat n)). symmetry. apply INR_IZR_INZ. Qed.

Lemma meanK_R (l : list R) : meanK numR l = rmean l.
Proof.
  change (meanK numR l) with (sumK numR l / ofN numR (length l)).
  rewrite sumK_R, ofN_R. reflexivity.
Qed.

Lemma var_n_R (l : list R) : var_n numR l = rvar l.
Proof.
  change (var_n numR l) with
    (sumK numR (map (fun x => (x - meanK numR l) * (x - meanK numR l)) l) / ofN numR (length l)).
  rewrite sumK_R, ofN_R, meanK_R. reflexivity.
Qed.

Lemma withinvar_R (hs : list (list R)) :
  withinvar numR hs = wv (length hs) (hlen hs) (map rmean hs) (map rvar hs).
Proof.
  assert (E1 : map (meanK numR) hs = map rmean hs) by (apply map_ext; exact meanK_R).
  assert (E2 : map (var_n numR) hs = map rvar hs) by (apply map_ext; exact var_n_R).
  change (withinvar numR hs) with
    (meanK numR (map (var_n numR) hs),
     (ofN numR (hlen hs) - 1) / ofN numR (hlen hs) * meanK numR (map (var_n numR) hs)
     + sumK numR (map (fun mu => (mu - meanK numR (map (meanK numR) hs))
                                 * (mu - meanK numR (map (meanK numR) hs))) (map (meanK numR) hs))
       * (ofN numR (hlen hs) / ofN numR (length hs - 1)) / ofN numR (hlen hs)).
  rewrite E1, E2, !meanK_R, sumK_R, !ofN_R. reflexivity.
Qed.

(* ------------------------------------------------------------------ sums *)
Lemma rsum_app l1 l2 : rsum (l1 ++ l2) = rsum l1 + rsum l2.
Proof. induction l1 as [|x l IH]; simpl; [lra|rewrite IH; lra]. Qed.

Lemma rsum_map_scale {A} (k : R) (g : A -> R) l :
  rsum (map (fun x => k * g x) l) = k * rsum (map g l).
Proof. induction l as [|x l IH]; simpl; [lra|rewrite IH; lra]. Qed.

Lemma rsum_affine (a b : R) l :
  rsum (map (fun x => a * x + b) l) = a * rsum l + INR (length l) * b.
Proof.
  induction l as [|x l IH]; [simpl; lra|].
  change (length (x :: l)) with (S (length l)). rewrite S_INR. simpl. rewrite IH. lra.
Qed.

Lemma rsum_perm l l' : Permutation l l' -> rsum l = rsum l'.
Proof. induction 1; simpl; lra. Qed.

Lemma rsum_nonneg l : (forall x, In x l -> 0 <= x) -> 0 <= rsum l.
Proof.
  induction l as [|x l IH]; intros H; simpl; [lra|].
  assert (0 <= x) by (apply H; left; reflexivity).
  assert (0 <= rsum l) by (apply IH; intros y Hy; apply H; right; exact Hy). lra.
Qed.

Lemma rsum_zero_all l : (forall x, In x l -> 0 <= x) -> rsum l = 0 -> forall x, In x l -> x = 0.
Proof.
  induction l as [|y l IH]; intros Hnn Hs x Hx; [destruct Hx|].
  assert (Hy : 0 <= y) by (apply Hnn; left; reflexivity).
  assert (Hl : 0 <= rsum l) by (apply rsum_nonneg; intros z Hz; apply Hnn; right; exact Hz).
  simpl in Hs. destruct Hx as [<-|Hx]; [lra|].
  apply IH; [intros z Hz; apply Hnn; right; exact Hz|lra|exact Hx].
Qed.

Lemma rsum_all_zero l : (forall x, In x l -> x = 0) -> rsum l = 0.
Proof.
  induction l as [|y l IH]; intros H; simpl; [reflexivity|].
  rewrite (H y (or_introl eq_refl)), IH; [lra|]. intros z Hz; apply H; right; exact Hz.
Qed.

Lemma sq_nonneg x : 0 <= sq x.
Proof. unfold sq. nra. Qed.

Lemma ssq_nonneg means : 0 <= ssq means.
Proof.
  unfold ssq. apply rsum_nonneg. intros x Hx. apply in_map_iff in Hx.
  destruct Hx as [mu [<- _]]. apply sq_nonneg.
Qed.

Lemma INR_pos_ge1 n : (1 <= n)%nat -> 0 < INR n.
Proof. intros H. apply lt_0_INR. lia. Qed.

(* ------------------------------------------------------------------ affine maps *)
Lemma rmean_affine a b l : l <> [] -> rmean (map (fun x => a * x + b) l) = a * rmean l + b.
Proof.
  intros Hl. unfold rmean. rewrite map_length, rsum_affine.
  assert (0 < INR (length l)) by (apply INR_pos_ge1; destruct l; [congruence|simpl; lia]).
  field. lra.
Qed.

Lemma rvar_affine a b l : rvar (map (fun x => a * x + b) l) = a * a * rvar l.
Proof.
  destruct l as [|y l].
  - unfold rvar, Rdiv. simpl. ring.
  - assert (Hne : y :: l <> []) by discriminate.
    unfold rvar. rewrite (rmean_affine a b _ Hne), map_length, map_map.
    rewrite (map_ext (fun x => sq (a * x + b - (a * rmean (y :: l) + b)))
                     (fun x => (a * a) * sq (x - rmean (y :: l))))
      by (intros x; unfold sq; ring).
    rewrite rsum_map_scale. unfold Rdiv. ring.
Qed.

Lemma rmean_scale k l : rmean (map (fun x => k * x) l) = k * rmean l.
Proof.
  unfold rmean. rewrite map_length. rewrite (rsum_map_scale k (fun x => x)), map_id.
  unfold Rdiv. ring.
Qed.

Lemma ssq_affine a b l : ssq (map (fun x => a * x + b) l) = a * a * ssq l.
Proof.
  destruct l as [|y l]; [unfold ssq; simpl; ring|].
  assert (Hne : y :: l <> []) by discriminate.
  unfold ssq. rewrite (rmean_affine a b _ Hne), map_map.
  rewrite (map_ext (fun x => sq (a * x + b - (a * rmean (y :: l) + b)))
                   (fun x => (a * a) * sq (x - rmean (y :: l))))
    by (intros x; unfold sq; ring).
  apply rsum_map_scale.
Qed.

Lemma wv_affine a b c n means vars :
  wv c n (map (fun x => a * x + b) means) (map (fun v => a * a * v) vars)
  = (a * a * fst (wv c n means vars), a * a * snd (wv c n means vars)).
Proof.
  unfold wv. cbn [fst snd]. rewrite ssq_affine, rmean_scale. f_equal. unfold Rdiv. ring.
Qed.

Lemma rmean_shift t l : l <> [] -> rmean (map (fun x => x + t) l) = rmean l + t.
Proof.
  intros Hl. rewrite (map_ext (fun x => x + t) (fun x => 1 * x + t)) by (intros; ring).
  rewrite rmean_affine by exact Hl. ring.
Qed.

Lemma rvar_shift t l : rvar (map (fun x => x + t) l) = rvar l.
Proof.
  rewrite (map_ext (fun x => x + t) (fun x => 1 * x + t)) by (intros; ring).
  rewrite rvar_affine. ring.
Qed.

(* ------------------------------------------------------------------ split_halves *)
Lemma half_bounds n : (n / 2 <= n)%nat /\ (2 <= n -> 1 <= n / 2)%nat.
Proof.
  pose proof (Nat.div_mod n 2 ltac:(lia)). pose proof (Nat.mod_upper_bound n 2 ltac:(lia)). lia.
Qed.

Lemma split_halves_R (chains : list (list R)) :
  split_halves numR chains =
  map (firstn (hlen chains / 2)) chains ++ map (skipn (hlen chains - hlen chains / 2)) chains.
Proof. reflexivity. Qed.

Lemma hlen_common (chains : list (list R)) n :
  (forall c, In c chains -> length c = n) -> chains <> [] -> hlen chains = n.
Proof. destruct chains as [|c l]; intros H Hne; [congruence|]. apply H. left. reflexivity. Qed.

Lemma hlen_map_map (f : R -> R) chains : hlen (map (map f) chains) = hlen chains.
Proof. destruct chains as [|c l]; simpl; [reflexivity|apply map_length]. Qed.

Lemma split_halves_map (f : R -> R) (chains : list (list R)) :
  split_halves numR (map (map f) chains) = map (map f) (split_halves numR chains).
Proof.
  rewrite !split_halves_R, hlen_map_map, map_app, !map_map. f_equal; apply map_ext; intros c.
  - apply firstn_map.
  - apply skipn_map.
Qed.

Lemma split_halves_common (chains : list (list R)) n :
  (forall c, In c chains -> length c = n) ->
  forall h, In h (split_halves numR chains) -> length h = (n / 2)%nat.
Proof.
  intros Hc h Hh. destruct chains as [|c0 l]; [destruct Hh|].
  assert (Hn : hlen (c0 :: l) = n) by (apply hlen_common; [exact Hc|discriminate]).
  rewrite split_halves_R, Hn in Hh. destruct (half_bounds n) as [Hb _].
  apply in_app_or in Hh. destruct Hh as [Hh|Hh]; apply in_map_iff in Hh;
    destruct Hh as [c [<- Hin]]; specialize (Hc c Hin).
  - rewrite firstn_length. lia.
  - rewrite skipn_length. lia.
Qed.

Lemma split_halves_length (chains : list (list R)) :
  length (split_halves numR chains) = (2 * length chains)%nat.
Proof. rewrite split_halves_R, app_length, !map_length. lia. Qed.

Lemma split_halves_perm (chains chains' : list (list R)) n :
  (forall c, In c chains -> length c = n) -> Permutation chains chains' ->
  Permutation (split_halves numR chains) (split_halves numR chains').
Proof.
  intros Hc Hp.
  assert (Hh : hlen chains' = hlen chains).
  { destruct chains as [|c l].
    - apply Permutation_nil in Hp. subst. reflexivity.
    - destruct chains' as [|c' l']; [apply Permutation_sym, Permutation_nil in Hp; discriminate|].
      simpl. rewrite (Hc c (or_introl eq_refl)). apply Hc.
      apply (Permutation_in c' (Permutation_sym Hp)). left. reflexivity. }
  rewrite !split_halves_R, Hh. apply Permutation_app; apply Permutation_map; exact Hp.
Qed.

Lemma split_halves_spec (chains : list (list R)) (n : nat) :
  (forall c, In c chains -> length c = n) ->
  split_halves numR chains
  = map (firstn (n / 2)) chains ++ map (skipn (n - n / 2)) chains /\
  length (split_halves numR chains) = (2 * length chains)%nat /\
  (forall h, In h (split_halves numR chains) -> length h = (n / 2)%nat).
Proof.
  intros Hc.
  split; [|split; [apply split_halves_length|exact (split_halves_common chains n Hc)]].
  destruct chains as [|c l]; [reflexivity|].
  rewrite split_halves_R, (hlen_common (c :: l) n Hc); [reflexivity|discriminate].
Qed.

(* ------------------------------------------------------------------ withinvar: affine maps *)
Lemma all_nil_map (f : R -> R) (hs : list (list R)) :
  (forall h, In h hs -> length h = 0%nat) -> map (map f) hs = hs.
Proof.
  intros H. rewrite <- (map_id hs) at 2. apply map_ext_in. intros h Hh.
  specialize (H h Hh). destruct h; [reflexivity|discriminate].
Qed.

Lemma withinvar_affine a b (hs : list (list R)) n :
  (forall h, In h hs -> length h = n) -> (1 <= n)%nat ->
  withinvar numR (map (map (fun x => a * x + b)) hs)
  = (a * a * fst (withinvar numR hs), a * a * snd (withinvar numR hs)).
Proof.
  intros Hc Hn. rewrite !withinvar_R, map_length, hlen_map_map, !map_map.
  rewrite (map_ext_in (fun h => rmean (map (fun x => a * x + b) h)) (fun h => a * rmean h + b)).
  2:{ intros h Hh. apply rmean_affine. specialize (Hc h Hh). destruct h; [simpl in Hc; lia|discriminate]. }
  rewrite (map_ext (fun h => rvar (map (fun x => a * x + b) h)) (fun h => a * a * rvar h))
    by (intros h; apply rvar_affine).
  rewrite <- (map_map rmean (fun x => a * x + b)), <- (map_map rvar (fun v => a * a * v)).
  apply wv_affine.
Qed.

Lemma split_rhat2_R (chains : list (list R)) :
  split_rhat2 numR chains
  = snd (withinvar numR (split_halves numR chains)) / fst (withinvar numR (split_halves numR chains)).
Proof. reflexivity. Qed.

Lemma ratio_scale (a v w : R) : a <> 0 -> w <> 0 -> a * a * v / (a * a * w) = v / w.
Proof. intros Ha Hw. field. split; assumption. Qed.

Lemma split_rhat2_affine a b (chains : list (list R)) n :
  a <> 0 -> (forall c, In c chains -> length c = n) ->
  fst (withinvar numR (split_halves numR chains)) <> 0 ->
  split_rhat2 numR (map (map (fun x => a * x + b)) chains) = split_rhat2 numR chains.
Proof.
  intros Ha Hc Hw. rewrite !split_rhat2_R, split_halves_map.
  pose proof (split_halves_common chains n Hc) as Hh.
  destruct (Nat.eq_dec (n / 2) 0) as [E|E].
  - rewrite all_nil_map; [reflexivity|]. intros h Hin. rewrite <- E. apply Hh. exact Hin.
  - rewrite (withinvar_affine a b _ (n / 2)%nat Hh) by lia. cbn [fst snd]. apply ratio_scale; assumption.
Qed.

(* ------------------------------------------------------------------ withinvar: permutations *)
Lemma rmean_perm l l' : Permutation l l' -> rmean l = rmean l'.
Proof. intros H. unfold rmean. rewrite (rsum_perm _ _ H), (Permutation_length H). reflexivity. Qed.

Lemma ssq_perm l l' : Permutation l l' -> ssq l = ssq l'.
Proof.
  intros H. unfold ssq. rewrite (rmean_perm _ _ H). apply rsum_perm, Permutation_map, H.
Qed.

Lemma withinvar_perm (hs hs' : list (list R)) n :
  (forall h, In h hs -> length h = n) -> Permutation hs hs' ->
  withinvar numR hs' = withinvar numR hs.
Proof.
  intros Hc Hp. rewrite !withinvar_R.
  assert (Hh : hlen hs' = hlen hs).
  { destruct hs as [|c l].
    - apply Permutation_nil in Hp. subst. reflexivity.
    - destruct hs' as [|c' l']; [apply Permutation_sym, Permutation_nil in Hp; discriminate|].
      simpl. rewrite (Hc c (or_introl eq_refl)). apply Hc.
      apply (Permutation_in c' (Permutation_sym Hp)). left. reflexivity. }
  rewrite Hh, <- (Permutation_length Hp). unfold wv.
  rewrite (rmean_perm _ _ (Permutation_map rvar Hp)), (ssq_perm _ _ (Permutation_map rmean Hp)).
  reflexivity.
Qed.

Lemma split_rhat2_perm (chains chains' : list (list R)) n :
  (forall c, In c chains -> length c = n) -> Permutation chains chains' ->
  split_rhat2 numR chains' = split_rhat2 numR chains.
Proof.
  intros Hc Hp. rewrite !split_rhat2_R.
  rewrite (withinvar_perm _ _ (n / 2)%nat (split_halves_common chains n Hc)
             (split_halves_perm chains chains' n Hc Hp)).
  reflexivity.
Qed.

(* ------------------------------------------------------------------ the ratio and its lower bound *)
Lemma wv_ratio c n means vars :
  (2 <= c)%nat -> (1 <= n)%nat -> rmean vars <> 0 ->
  snd (wv c n means vars) / fst (wv c n means vars)
  = (INR n - 1) / INR n + ssq means / (INR (c - 1) * rmean vars).
Proof.
  intros Hc Hn Hw. unfold wv. cbn [fst snd].
  assert (0 < INR n) by (apply INR_pos_ge1; exact Hn).
  assert (0 < INR (c - 1)) by (apply INR_pos_ge1; lia).
  field. repeat split; lra.
Qed.

Lemma extra_nonneg c means w : (2 <= c)%nat -> 0 < w -> 0 <= ssq means / (INR (c - 1) * w).
Proof.
  intros Hc Hw. assert (0 < INR (c - 1)) by (apply INR_pos_ge1; lia).
  apply Rle_mult_inv_pos; [apply ssq_nonneg|]. apply Rmult_lt_0_compat; assumption.
Qed.

Lemma wv_lower c n means vars :
  (2 <= c)%nat -> (1 <= n)%nat -> 0 < rmean vars ->
  (INR n - 1) / INR n <= snd (wv c n means vars) / fst (wv c n means vars).
Proof.
  intros Hc Hn Hw. rewrite wv_ratio by (try assumption; lra).
  pose proof (extra_nonneg c means _ Hc Hw). lra.
Qed.

Lemma wv_eq_iff c n means vars :
  (2 <= c)%nat -> (1 <= n)%nat -> 0 < rmean vars ->
  (snd (wv c n means vars) / fst (wv c n means vars) = (INR n - 1) / INR n
   <-> forall mu, In mu means -> mu = rmean means).
Proof.
  intros Hc Hn Hw. rewrite wv_ratio by (try assumption; lra).
  assert (HD : 0 < INR (c - 1) * rmean vars).
  { apply Rmult_lt_0_compat; [apply INR_pos_ge1; lia|exact Hw]. }
  split.
  - intros H mu Hmu.
    assert (Hz : ssq means = 0).
    { assert (Hq : ssq means / (INR (c - 1) * rmean vars) = 0) by lra.
      unfold Rdiv in Hq. apply Rmult_integral in Hq. destruct Hq as [Hq|Hq]; [exact Hq|].
      exfalso. pose proof (Rinv_0_lt_compat _ HD). lra. }
    assert (Hs : sq (mu - rmean means) = 0).
    { apply (rsum_zero_all (map (fun mu => sq (mu - rmean means)) means)).
      - intros x Hx. apply in_map_iff in Hx. destruct Hx as [m [<- _]]. apply sq_nonneg.
      - exact Hz.
      - apply in_map_iff. exists mu. split; [reflexivity|exact Hmu]. }
    unfold sq in Hs. nra.
  - intros H.
    assert (Hz : ssq means = 0).
    { unfold ssq. apply rsum_all_zero. intros x Hx. apply in_map_iff in Hx.
      destruct Hx as [m [<- Hm]]. rewrite (H m Hm). unfold sq. ring. }
    rewrite Hz. unfold Rdiv. ring.
Qed.

Lemma withinvar_lower (hs : list (list R)) n :
  (forall h, In h hs -> length h = n) -> (2 <= length hs)%nat -> (1 <= n)%nat ->
  0 < fst (withinvar numR hs) ->
  (IZR (Z.of_nat n) - 1) / IZR (Z.of_nat n)
  <= snd (withinvar numR hs) / fst (withinvar numR hs).
Proof.
  intros Hc Hm Hn. rewrite <- INR_IZR_INZ, withinvar_R.
  rewrite (hlen_common hs n Hc) by (destruct hs; [simpl in Hm; lia|discriminate]).
  cbn [fst wv]. intros Hw. apply wv_lower; assumption.
Qed.

Lemma withinvar_eq_iff (hs : list (list R)) n :
  (forall h, In h hs -> length h = n) -> (2 <= length hs)%nat -> (1 <= n)%nat ->
  0 < fst (withinvar numR hs) ->
  (snd (withinvar numR hs) / fst (withinvar numR hs) = (IZR (Z.of_nat n) - 1) / IZR (Z.of_nat n)
   <-> forall h, In h hs -> meanK numR h = meanK numR (map (meanK numR) hs)).
Proof.
  intros Hc Hm Hn. rewrite <- INR_IZR_INZ, withinvar_R.
  rewrite (hlen_common hs n Hc) by (destruct hs; [simpl in Hm; lia|discriminate]).
  cbn [fst wv]. intros Hw. rewrite (wv_eq_iff _ _ _ _ Hm Hn Hw).
  rewrite (map_ext _ _ meanK_R).
  split.
  - intros H h Hh. rewrite !meanK_R. apply H. apply in_map. exact Hh.
  - intros H mu Hmu. apply in_map_iff in Hmu. destruct Hmu as [h [<- Hh]].
    rewrite <- !meanK_R. apply H. exact Hh.
Qed.

(* ------------------------------------------------------------------ the formula, spelled out *)
Lemma var_n_formula (xs : list R) :
  var_n numR xs
  = sumK numR (map (fun x => (x - meanK numR xs) * (x - meanK numR xs)) xs)
    / IZR (Z.of_nat (length xs)).
Proof. reflexivity. Qed.

Lemma withinvar_formula (hs : list (list R)) n :
  (forall h, In h hs -> length h = n) -> hs <> [] ->
  let M := length hs in
  let overall := meanK numR (map (meanK numR) hs) in
  let W := meanK numR (map (var_n numR) hs) in
  let B := IZR (Z.of_nat n)
           * sumK numR (map (fun h => (meanK numR h - overall) * (meanK numR h - overall)) hs)
           / (IZR (Z.of_nat M) - 1) in
  withinvar numR hs
  = (W, (IZR (Z.of_nat n) - 1) / IZR (Z.of_nat n) * W + B / IZR (Z.of_nat n)).
Proof.
  intros Hc Hne M overall W B.
  change (withinvar numR hs) with
    (W, (IZR (Z.of_nat (hlen hs)) - 1) / IZR (Z.of_nat (hlen hs)) * W
        + sumK numR (map (fun mu => (mu - overall) * (mu - overall)) (map (meanK numR) hs))
          * (IZR (Z.of_nat (hlen hs)) / IZR (Z.of_nat (M - 1))) / IZR (Z.of_nat (hlen hs))).
  rewrite (hlen_common hs n Hc Hne), map_map.
  assert (HM : (1 <= M)%nat) by (unfold M; destruct hs; [congruence|simpl; lia]).
  rewrite Nat2Z.inj_sub by exact HM. rewrite minus_IZR. unfold B.
  f_equal. change (IZR (Z.of_nat 1)) with 1. unfold Rdiv. ring.
Qed.

(* ------------------------------------------------------------------ moving one chain away *)
Lemma pair_le_ssq m1 m2 ms : sq (m1 - m2) / 2 <= ssq (m1 :: m2 :: ms).
Proof.
  unfold ssq. set (mu := rmean (m1 :: m2 :: ms)). simpl.
  assert (0 <= rsum (map (fun x => sq (x - mu)) ms)).
  { apply rsum_nonneg. intros x Hx. apply in_map_iff in Hx. destruct Hx as [m [<- _]].
    apply sq_nonneg. }
  pose proof (sq_nonneg (m1 + m2 - 2 * mu)). unfold sq in *. nra.
Qed.

Lemma wv_pair_lower c n m1 m2 ms vars :
  (2 <= c)%nat -> (1 <= n)%nat -> 0 < rmean vars ->
  sq (m1 - m2) / (2 * (INR (c - 1) * rmean vars))
  <= snd (wv c n (m1 :: m2 :: ms) vars) / fst (wv c n (m1 :: m2 :: ms) vars).
Proof.
  intros Hc Hn Hw. rewrite wv_ratio by (try assumption; lra).
  assert (HD : 0 < INR (c - 1) * rmean vars).
  { apply Rmult_lt_0_compat; [apply INR_pos_ge1; lia|exact Hw]. }
  set (D := INR (c - 1) * rmean vars) in *.
  assert (Hn1 : 0 <= (INR n - 1) / INR n).
  { apply Rle_mult_inv_pos; [|apply INR_pos_ge1; exact Hn].
    pose proof (le_INR 1 n Hn) as H1. simpl in H1. lra. }
  pose proof (pair_le_ssq m1 m2 ms) as Hp.
  pose proof (Rinv_0_lt_compat _ HD) as Hi.
  replace (sq (m1 - m2) / (2 * D)) with (sq (m1 - m2) / 2 * / D) by (field; lra).
  assert (sq (m1 - m2) / 2 * / D <= ssq (m1 :: m2 :: ms) * / D)
    by (apply Rmult_le_compat_r; [lra|exact Hp]).
  unfold Rdiv at 3. lra.
Qed.

Lemma sq_grows d C : exists t0, forall t, t0 <= Rabs t -> C <= sq (d + t).
Proof.
  exists (Rabs d + 1 + Rmax 0 C). intros t Ht.
  pose proof (Rmax_l 0 C). pose proof (Rmax_r 0 C). set (M := Rmax 0 C) in *.
  assert (Hy : 1 + M <= d + t \/ d + t <= - (1 + M)).
  { unfold Rabs in Ht. destruct (Rcase_abs d), (Rcase_abs t); lra. }
  unfold sq. destruct Hy; nra.
Qed.

Lemma shifted_halves_unbounded (A B C : list R) (R1 L2 : list (list R)) :
  (1 <= length A)%nat ->
  0 < fst (withinvar numR (A :: B :: R1 ++ C :: L2)) ->
  forall Bd, exists t0, forall t, t0 <= Rabs t ->
    Bd <= snd (withinvar numR (map (fun x => x + t) A :: B :: R1 ++ map (fun x => x + t) C :: L2))
          / fst (withinvar numR (map (fun x => x + t) A :: B :: R1 ++ map (fun x => x + t) C :: L2)).
Proof.
  intros HA Hw Bd. rewrite withinvar_R in Hw. cbn [fst wv] in Hw.
  set (hs0 := A :: B :: R1 ++ C :: L2) in *.
  set (c := length hs0).
  assert (Hc : (2 <= c)%nat) by (unfold c, hs0; simpl; lia).
  set (w := rmean (map rvar hs0)) in *.
  assert (HD : 0 < 2 * (INR (c - 1) * w)).
  { assert (0 < INR (c - 1)) by (apply INR_pos_ge1; lia).
    assert (0 < INR (c - 1) * w) by (apply Rmult_lt_0_compat; assumption). lra. }
  destruct (sq_grows (rmean A - rmean B) (Bd * (2 * (INR (c - 1) * w)))) as [t0 Ht0].
  exists t0. intros t Ht. specialize (Ht0 t Ht).
  set (hst := map (fun x => x + t) A :: B :: R1 ++ map (fun x => x + t) C :: L2).
  assert (E1 : map rvar hst = map rvar hs0).
  { unfold hst, hs0. simpl. rewrite !map_app. simpl. rewrite !rvar_shift. reflexivity. }
  assert (E2 : map rmean hst
               = (rmean A + t) :: rmean B :: map rmean (R1 ++ map (fun x => x + t) C :: L2)).
  { unfold hst. simpl. rewrite rmean_shift; [reflexivity|].
    destruct A; [simpl in HA; lia|discriminate]. }
  assert (E3 : length hst = c).
  { unfold c, hst, hs0. simpl. rewrite !app_length. reflexivity. }
  assert (E4 : hlen hst = length A) by (unfold hst; simpl; apply map_length).
  rewrite withinvar_R, E1, E2, E3, E4.
  eapply Rle_trans; [|apply wv_pair_lower; [exact Hc|exact HA|exact Hw]].
  fold w. replace (rmean A + t - rmean B) with (rmean A - rmean B + t) by ring.
  set (K := 2 * (INR (c - 1) * w)) in *.
  replace Bd with (Bd * K * / K) by (field; lra).
  unfold Rdiv. apply Rmult_le_compat_r; [|exact Ht0].
  left. apply Rinv_0_lt_compat. exact HD.
Qed.

Lemma split_rhat2_unbounded (c1 c2 : list R) (rest : list (list R)) :
  (2 <= length c1)%nat ->
  0 < fst (withinvar numR (split_halves numR (c1 :: c2 :: rest))) ->
  forall Bd, exists t0, forall t, t0 <= Rabs t ->
    Bd <= split_rhat2 numR (map (fun x => x + t) c1 :: c2 :: rest).
Proof.
  intros Hn Hw Bd.
  set (n := length c1) in *. set (h := (n / 2)%nat). set (k := (n - h)%nat).
  destruct (half_bounds n) as [Hb1 Hb2]. specialize (Hb2 Hn). fold h in Hb1, Hb2.
  assert (Es0 : split_halves numR (c1 :: c2 :: rest)
                = firstn h c1 :: firstn h c2 :: map (firstn h) rest
                  ++ skipn k c1 :: skipn k c2 :: map (skipn k) rest) by reflexivity.
  assert (Est : forall t, split_halves numR (map (fun x => x + t) c1 :: c2 :: rest)
                = map (fun x => x + t) (firstn h c1) :: firstn h c2 :: map (firstn h) rest
                  ++ map (fun x => x + t) (skipn k c1) :: skipn k c2 :: map (skipn k) rest).
  { intros t. rewrite split_halves_R. cbn [hlen]. rewrite map_length. fold n h k.
    cbn [map app]. rewrite firstn_map, skipn_map. reflexivity. }
  rewrite Es0 in Hw.
  assert (HA : (1 <= length (firstn h c1))%nat) by (rewrite firstn_length; fold n; lia).
  destruct (shifted_halves_unbounded _ _ _ _ _ HA Hw Bd) as [t0 Ht0].
  exists t0. intros t Ht. rewrite split_rhat2_R, Est. apply Ht0. exact Ht.
Qed.

(* ------------------------------------------------------------------ chain-level corollaries *)
Lemma split_rhat2_lower (chains : list (list R)) n :
  chains <> [] -> (forall c, In c chains -> length c = n) -> (2 <= n)%nat ->
  0 < fst (withinvar numR (split_halves numR chains)) ->
  (IZR (Z.of_nat (n / 2)) - 1) / IZR (Z.of_nat (n / 2)) <= split_rhat2 numR chains.
Proof.
  intros Hne Hc Hn Hw. rewrite split_rhat2_R.
  apply withinvar_lower; [exact (split_halves_common chains n Hc)| | |exact Hw].
  - rewrite split_halves_length. destruct chains; [congruence|simpl; lia].
  - apply half_bounds. exact Hn.
Qed.

Lemma split_rhat_lower_sqrt (chains : list (list R)) n :
  chains <> [] -> (forall c, In c chains -> length c = n) -> (2 <= n)%nat ->
  0 < fst (withinvar numR (split_halves numR chains)) ->
  sqrt ((IZR (Z.of_nat (n / 2)) - 1) / IZR (Z.of_nat (n / 2))) <= sqrt (split_rhat2 numR chains).
Proof. intros. apply sqrt_le_1_alt. apply split_rhat2_lower; assumption. Qed.

Lemma split_rhat_unbounded_sqrt (c1 c2 : list R) (rest : list (list R)) :
  (2 <= length c1)%nat ->
  0 < fst (withinvar numR (split_halves numR (c1 :: c2 :: rest))) ->
  forall Bd, exists t0, forall t, t0 <= Rabs t ->
    Bd <= sqrt (split_rhat2 numR (map (fun x => x + t) c1 :: c2 :: rest)).
Proof.
  intros Hn Hw Bd. destruct (split_rhat2_unbounded c1 c2 rest Hn Hw (Rsqr Bd)) as [t0 Ht0].
  exists t0. intros t Ht. specialize (Ht0 t Ht).
  apply Rle_trans with (Rabs Bd); [apply Rle_abs|].
  rewrite <- sqrt_Rsqr_abs. apply sqrt_le_1_alt. exact Ht0.
Qed.

(* ------------------------------------------------------------------ the Q evaluation *)
Definition rhat_ex_chains : list (list Q) :=
  [[inject_Z 0; inject_Z 1; inject_Z 0; inject_Z 1];
   [inject_Z 100; inject_Z 101; inject_Z 100; inject_Z 101]].

Lemma rhat_ex_values :
  (split_rhat2_old numQ rhat_ex_chains < 1 # 100)%Q /\
  (inject_Z 100 < split_rhat2 numQ rhat_ex_chains)%Q.
Proof. split; vm_compute; reflexivity. Qed.

(* ------------------------------------------------------------------ basic_stats selection *)
Close Scope R_scope.
Open Scope Z_scope.

Lemma last_In_ne (l : list Z) d : l <> [] -> In (last l d) l.
Proof.
  induction l as [|a l IH]; intros H; [congruence|].
  destruct l as [|b l]; [left; reflexivity|]. right. apply IH. discriminate.
Qed.

Lemma sort_desc_perm l : Permutation l (sort_desc l).
Proof. apply ZDescSort.Permuted_sort. Qed.

Lemma StronglySorted_impl {A} (P Q : A -> A -> Prop) l :
  (forall x y, P x y -> Q x y) -> StronglySorted P l -> StronglySorted Q l.
Proof.
  intros HPQ. induction 1 as [|a l Hs IH Hf]; constructor; [exact IH|].
  eapply Forall_impl; [|exact Hf]. intros y. apply HPQ.
Qed.

Lemma sort_desc_sorted l : StronglySorted (fun x y => y <= x) (sort_desc l).
Proof.
  apply (StronglySorted_impl (fun x y => is_true (ZDescOrder.leb x y))).
  - intros x y H. apply Z.leb_le. exact H.
  - apply ZDescSort.StronglySorted_sort.
    intros x y z Hxy Hyz. unfold ZDescOrder.leb, is_true in *.
    apply Z.leb_le in Hxy, Hyz. apply Z.leb_le. lia.
Qed.

Lemma desc_hd_max s : StronglySorted (fun x y => y <= x) s -> forall x, In x s -> x <= hd 0 s.
Proof.
  intros Hs x Hx. destruct s as [|a t]; [destruct Hx|]. simpl.
  apply StronglySorted_inv in Hs. destruct Hs as [_ Hf].
  destruct Hx as [<-|Hx]; [lia|]. rewrite Forall_forall in Hf. apply Hf. exact Hx.
Qed.

Lemma desc_last_min s : StronglySorted (fun x y => y <= x) s -> forall x, In x s -> last s 0 <= x.
Proof.
  induction s as [|a t IH]; intros Hs x Hx; [destruct Hx|].
  apply StronglySorted_inv in Hs. destruct Hs as [Hs Hf].
  destruct t as [|b t']; [destruct Hx as [<-|[]]; simpl; lia|].
  change (last (a :: b :: t') 0) with (last (b :: t') 0).
  destruct Hx as [<-|Hx]; [|apply IH; assumption].
  rewrite Forall_forall in Hf. apply Hf. apply last_In_ne. discriminate.
Qed.

Lemma basic_sel_spec (l : list Z) : l <> [] ->
  let '(mn, md, mx) := basic_sel l in
  In mn l /\ In mx l /\ In md l /\ (forall x, In x l -> mn <= x <= mx) /\
  md = nth (length l / 2) (sort_desc l) 0.
Proof.
  intros Hne. unfold basic_sel.
  pose proof (sort_desc_perm l) as Hp. pose proof (sort_desc_sorted l) as Hs.
  pose proof (Permutation_length Hp) as Hlen.
  set (s := sort_desc l) in *.
  assert (Hsne : s <> []).
  { intros E. rewrite E in Hp. apply Permutation_sym, Permutation_nil in Hp. exact (Hne Hp). }
  assert (Hback : forall x, In x s -> In x l) by (intros x; apply Permutation_in, Permutation_sym, Hp).
  assert (Hlt : (length s / 2 < length s)%nat).
  { destruct (half_bounds (length s)). destruct s; [congruence|]. 
    apply Nat.div_lt; simpl; lia. }
  repeat split.
  - apply Hback, last_In_ne, Hsne.
  - apply Hback. destruct s; [congruence|left; reflexivity].
  - apply Hback, nth_In, Hlt.
  - apply desc_last_min; [exact Hs|]. apply (Permutation_in x Hp). assumption.
  - apply desc_hd_max; [exact Hs|]. apply (Permutation_in x Hp). assumption.
  - rewrite Hlen. reflexivity.
Qed.

Lemma key32_round_trip b : 0 <= b < 2 ^ 32 -> key_to_bits32 (total_key32 b) = b.
Proof.
  intros Hb. unfold key_to_bits32, total_key32.
  destruct (Z.ltb_spec b 2147483648).
  - destruct (Z.leb_spec 0 b); lia.
  - destruct (Z.leb_spec 0 (2147483648 - b - 1)); lia.
Qed.
