//! C16: Categorical — normalisation, logp, sampling with an injected uniform variate.
use crate::c01::Fl;
use crate::util::*;
use mini_mcmc::distributions::{Categorical, Discrete, Target};
use serde_json::{json, Value};

fn cat<F>(c: &Value) -> Value
where
    F: Fl + std::ops::AddAssign,
    rand_distr::StandardUniform: rand_distr::Distribution<F>,
{
    let ws: Vec<F> = u64s(&c["ws"]).into_iter().map(F::from_bits64).collect();
    let n = ws.len();
    let mut cat = Categorical::new(ws);
    let probs: Vec<u64> = cat.probs.iter().map(|p| p.bits64()).collect();
    let mut idx = vec![];
    let mut rs = vec![];
    for v in u64s(&c["vs"]) {
        cat.verif_set_rng(rng_first_output(v));
        rs.push(F::draw(&mut rng_first_output(v)).bits64());
        idx.push(cat.sample());
    }
    let logp: Vec<u64> = (0..n + 2).map(|i| cat.logp(i).bits64()).collect();
    let tlogp: Vec<u64> = (0..n + 1).map(|i| <Categorical<F> as Target<usize, F>>::unnorm_logp(&cat, &[i]).bits64()).collect();
    json!({"probs": probs, "idx": idx, "rs": rs, "logp": logp, "tlogp": tlogp})
}

pub fn run(c: &Value) -> Value {
    match strf(c, "f") {
        "f32" => cat::<f32>(c),
        "f64" => cat::<f64>(c),
        f => panic!("unknown float type {f}"),
    }
}
