"""Shared tie between a sampler's random variates and Model/Ziggurat.v: the values an identically seeded SmallRng yields
for a given sequence of draw kinds are computed from the SEED alone inside Coq (`mixed_eval`) and compared with what the
implementation's crates produced (the harness's replay / the hook's trace).

trace kinds: 0 = StandardNormal in T, 1 = Exp1 in T, 2 = uniform in T, 3 = uniform f64 (values rendered as f64 bits)
model kinds (Model.Ziggurat.mixed): 0 normal f64, 1 Exp1 f64, 2 = 53-bit uniform numerator, 3 = 24-bit uniform numerator"""
import common as C
import zigref

ZMARK = -1000000021
LIMIT = 4000


def model_kinds(f, kinds):
    return [k if k < 2 else ((3 if f == "f32" else 2) if k == 2 else 2) for k in kinds]


def prepare(f, seed, kinds):
    """reference run + oracle values for a case; None when too long for the quick evaluation"""
    mk = model_kinds(f, kinds)
    if len(mk) > LIMIT or not mk:
        return None
    vs, tri = zigref.mixed(int(seed), mk)
    return {"kinds": mk, "ref": vs, "orc": [list(t) for t in tri]}


def term(seed, zg):
    return "[%s] ++ mixed_eval %s%%N %s %s" % (C.z(ZMARK), seed, C.zlist(zg["kinds"]), C.zlist([o[2] for o in zg["orc"]]))


def expected(f, mk, rp):
    res = []
    for m, b in zip(mk, rp):
        x = C.f64_bits_to_float(b)
        if m < 2:
            res.append(C.float_to_f32_bits(x) if f == "f32" else b)
        else:
            res.append(int(x * (2 ** 24 if m == 3 else 2 ** 53)))
    return res


def split(model):
    """(model without the segment, segment or None)"""
    if model is not None and ZMARK in model:
        k = model.index(ZMARK)
        return model[:k], model[k + 1:]
    return model, None


def check(f, seed, zg, rp, zm):
    """zm: the model's segment; rp: implementation-side values (f64 bits of values in T), None entries are skipped"""
    if zm == [0]:
        return "Model.Ziggurat.mixed ran out of fuel or oracle values for seed %s" % seed
    n = len(zg["kinds"])
    if len(zm) < n + 2:
        return "Model.Ziggurat.mixed: malformed output"
    vs, left, log = zm[1:1 + n], zm[1 + n], zm[2 + n:]
    exp = expected(f, zg["kinds"], [0 if b is None else b for b in rp])
    got = [C.float_to_f32_bits(C.f64_bits_to_float(v)) if (f == "f32" and m < 2) else v for v, m in zip(vs, zg["kinds"])]
    for j, (a, b) in enumerate(zip(got, exp)):
        if rp[j] is not None and a != b:
            return ("variate %d (model kind %d) of the seeded generator is %r in the implementation; Model.Ziggurat.mixed computes %r "
                    "from the seed %s" % (j, zg["kinds"][j], b, a, seed))
    if left != 0 or log != [v for o in zg["orc"] for v in (o[0], o[1])]:
        return "Model.Ziggurat.mixed consumed other exp/ln oracle values than the reference reading (seed %s)" % seed
    if vs != zg["ref"]:
        return "driver/zigref.py and Model.Ziggurat.mixed disagree for seed %s" % seed
    return None
