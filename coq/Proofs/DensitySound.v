(* Soundness of the interval evaluation of the built-in densities (Model/Density.v):
   whenever every interval argument encloses the corresponding real argument, the value of the
   generic density at the interval instance dnumI encloses its value at the real instance dnumR.
   No side conditions: where a real divisor is 0 or a logarithm's argument is not positive,
   Interval's specification yields Xnan, and an interval containing Xnan contains everything
   (the route of c_div / c_ln in Proofs/DualAvg.v, whose closure lemmas are reused here). *)
From MiniMcmc Require Import Model.DualAvg Model.Density Proofs.DualAvg.
From Coq Require Import Reals List.
From Interval Require Import Interval Xreal.
Open Scope R_scope.

Definition enc (xi : I.type) (x : R) : Prop := contains (I.convert xi) (Xreal x).

(* ---- (0) closure of enc under the operations of dnumI / dnumR ---- *)
Lemma enc_pi : enc (dpi dnumI) (dpi dnumR).
Proof. exact (I.pi_correct iprec). Qed.

Lemma enc_abs : forall xi x, enc xi x -> enc (dabs dnumI xi) (dabs dnumR x).
Proof. intros xi x Hx. exact (I.abs_correct xi (Xreal x) Hx). Qed.

Lemma enc_add : forall xi yi x y, enc xi x -> enc yi y -> enc (tadd dnumI xi yi) (tadd dnumR x y).
Proof. exact c_add. Qed.

Lemma enc_sub : forall xi yi x y, enc xi x -> enc yi y -> enc (tsub dnumI xi yi) (tsub dnumR x y).
Proof. exact c_sub. Qed.

Lemma enc_mul : forall xi yi x y, enc xi x -> enc yi y -> enc (tmul dnumI xi yi) (tmul dnumR x y).
Proof. exact c_mul. Qed.

Lemma enc_div : forall xi yi x y, enc xi x -> enc yi y -> enc (tdiv dnumI xi yi) (tdiv dnumR x y).
Proof. exact c_div. Qed.

Lemma enc_exp : forall xi x, enc xi x -> enc (texp dnumI xi) (texp dnumR x).
Proof. exact c_exp. Qed.

Lemma enc_ln : forall xi x, enc xi x -> enc (tln dnumI xi) (tln dnumR x).
Proof. exact c_ln. Qed.

Lemma enc_sqrt : forall xi x, enc xi x -> enc (tsqrt dnumI xi) (tsqrt dnumR x).
Proof. exact c_sqrt. Qed.

Lemma enc_ofZ : forall z, enc (tofZ dnumI z) (tofZ dnumR z).
Proof. exact c_ofZ. Qed.

(* the derived constants and helpers of Section Density *)
Lemma enc_z0 : enc (Density.z0 dnumI) (Density.z0 dnumR).
Proof. apply enc_ofZ. Qed.

Lemma enc_c1 : enc (Density.c1 dnumI) (Density.c1 dnumR).
Proof. apply enc_ofZ. Qed.

Lemma enc_c2 : enc (Density.c2 dnumI) (Density.c2 dnumR).
Proof. apply enc_ofZ. Qed.

Lemma enc_half : enc (Density.half dnumI) (Density.half dnumR).
Proof. apply enc_div; [apply enc_c1 | apply enc_c2]. Qed.

Lemma enc_neg : forall xi x, enc xi x -> enc (Density.neg dnumI xi) (Density.neg dnumR x).
Proof. intros xi x Hx. apply enc_sub; [apply enc_z0 | exact Hx]. Qed.

Lemma enc_sq : forall xi x, enc xi x -> enc (Density.sq dnumI xi) (Density.sq dnumR x).
Proof. intros xi x Hx. apply enc_mul; exact Hx. Qed.

(* one step: apply the closure lemma matching the head operation of the interval term *)
Ltac enc_step :=
  lazymatch goal with
  | |- enc (tadd _ _ _) _ => apply enc_add
  | |- enc (tsub _ _ _) _ => apply enc_sub
  | |- enc (tmul _ _ _) _ => apply enc_mul
  | |- enc (tdiv _ _ _) _ => apply enc_div
  | |- enc (texp _ _) _ => apply enc_exp
  | |- enc (tln _ _) _ => apply enc_ln
  | |- enc (tsqrt _ _) _ => apply enc_sqrt
  | |- enc (tofZ _ _) _ => apply enc_ofZ
  | |- enc (dabs _ _) _ => apply enc_abs
  | |- enc (dpi _) _ => apply enc_pi
  | |- enc (Density.neg _ _) _ => apply enc_neg
  | |- enc (Density.sq _ _) _ => apply enc_sq
  | |- enc (Density.half _) _ => apply enc_half
  | |- enc (Density.z0 _) _ => apply enc_z0
  | |- enc (Density.c1 _) _ => apply enc_c1
  | |- enc (Density.c2 _) _ => apply enc_c2
  | |- enc _ _ => assumption
  end.

Ltac enc_auto := cbv beta iota zeta; repeat enc_step.

(* ---- (1) Gaussian2D ---- *)
Section G2.
  Variables M0 M1 A B C D X0 X1 : I.type.
  Variables m0 m1 a b c d x0 x1 : R.
  Hypothesis Hm0 : enc M0 m0.
  Hypothesis Hm1 : enc M1 m1.
  Hypothesis Ha : enc A a.
  Hypothesis Hb : enc B b.
  Hypothesis Hc : enc C c.
  Hypothesis Hd : enc D d.
  Hypothesis Hx0 : enc X0 x0.
  Hypothesis Hx1 : enc X1 x1.

  Lemma g2_quad_sound : enc (g2_quad dnumI M0 M1 A B C D X0 X1) (g2_quad dnumR m0 m1 a b c d x0 x1).
  Proof. unfold g2_quad. enc_auto. Qed.

  Lemma g2_unnorm_sound :
    enc (g2_unnorm dnumI M0 M1 A B C D X0 X1) (g2_unnorm dnumR m0 m1 a b c d x0 x1).
  Proof. unfold g2_unnorm. enc_auto. apply g2_quad_sound. Qed.

  Lemma g2_logp_sound :
    enc (g2_logp dnumI M0 M1 A B C D X0 X1) (g2_logp dnumR m0 m1 a b c d x0 x1).
  Proof. unfold g2_logp. enc_auto. apply g2_unnorm_sound. Qed.

  (* ---- (2) DiffableGaussian2D ---- *)
  Lemma dg_inv_sound :
    let '(I00, I01, I10, I11) := dg_inv dnumI A B C D in
    let '(i00, i01, i10, i11) := dg_inv dnumR a b c d in
    enc I00 i00 /\ enc I01 i01 /\ enc I10 i10 /\ enc I11 i11.
  Proof. unfold dg_inv. cbv beta iota zeta. repeat split; enc_auto. Qed.

  Lemma dg_norm_const_sound : enc (dg_norm_const dnumI A B C D) (dg_norm_const dnumR a b c d).
  Proof. unfold dg_norm_const. enc_auto. Qed.

  Lemma dg_logp_sound :
    enc (dg_logp dnumI M0 M1 A B C D X0 X1) (dg_logp dnumR m0 m1 a b c d x0 x1).
  Proof. unfold dg_logp, dg_inv. enc_auto. apply dg_norm_const_sound. Qed.

  Lemma dg_grad_sound :
    enc (fst (dg_grad dnumI M0 M1 A B C D X0 X1)) (fst (dg_grad dnumR m0 m1 a b c d x0 x1)) /\
    enc (snd (dg_grad dnumI M0 M1 A B C D X0 X1)) (snd (dg_grad dnumR m0 m1 a b c d x0 x1)).
  Proof. unfold dg_grad, dg_inv. cbv beta iota zeta. cbn [fst snd]. split; enc_auto. Qed.
End G2.

(* ---- (3) Rosenbrock ---- *)
Section RB2.
  Variables A B X Y : I.type.
  Variables a b x y : R.
  Hypothesis Ha : enc A a.
  Hypothesis Hb : enc B b.
  Hypothesis Hx : enc X x.
  Hypothesis Hy : enc Y y.

  Lemma rb2_logp_sound : enc (rb2_logp dnumI A B X Y) (rb2_logp dnumR a b x y).
  Proof. unfold rb2_logp. enc_auto. Qed.

  Lemma rb2_grad_sound :
    enc (fst (rb2_grad dnumI A B X Y)) (fst (rb2_grad dnumR a b x y)) /\
    enc (snd (rb2_grad dnumI A B X Y)) (snd (rb2_grad dnumR a b x y)).
  Proof. unfold rb2_grad. cbn [fst snd]. split; enc_auto. Qed.
End RB2.

Lemma rbn_sum_cons2 : forall (K : DNum) (x y : K) (t : list K),
  rbn_sum K (x :: y :: t)
  = tadd K (tadd K (tmul K (tofZ K 100) (Density.sq K (tsub K y (Density.sq K x)))) (Density.sq K (tsub K (Density.c1 K) x)))
           (rbn_sum K (y :: t)).
Proof. reflexivity. Qed.

Lemma rbn_sum_sound : forall (XS : list I.type) (xs : list R),
  Forall2 enc XS xs -> enc (rbn_sum dnumI XS) (rbn_sum dnumR xs).
Proof.
  intros XS xs H. induction H as [|X x XS xs Hx Hxs IH].
  - apply enc_z0.
  - destruct Hxs as [|Y y YS ys Hy Hys].
    + apply enc_z0.
    + rewrite !rbn_sum_cons2. enc_auto.
Qed.

Lemma rbn_logp_sound : forall (XS : list I.type) (xs : list R),
  Forall2 enc XS xs -> enc (rbn_logp dnumI XS) (rbn_logp dnumR xs).
Proof. intros XS xs H. unfold rbn_logp. apply enc_neg. apply rbn_sum_sound. exact H. Qed.

(* ---- (4) IsotropicGaussian ---- *)
Lemma iso_fold_sound : forall (S : I.type) (s : R), enc S s ->
  forall (FROM : list I.type) (from : list R), Forall2 enc FROM from ->
  forall (TO : list I.type) (to : list R), Forall2 enc TO to ->
  forall (ACC : I.type) (acc : R), enc ACC acc ->
  enc (fold_left (fun acc ft => tadd dnumI acc
          (tdiv dnumI (Density.neg dnumI (Density.sq dnumI (tsub dnumI (snd ft) (fst ft))))
                      (tmul dnumI (Density.c2 dnumI) (tmul dnumI S S))))
        (combine FROM TO) ACC)
      (fold_left (fun acc ft => tadd dnumR acc
          (tdiv dnumR (Density.neg dnumR (Density.sq dnumR (tsub dnumR (snd ft) (fst ft))))
                      (tmul dnumR (Density.c2 dnumR) (tmul dnumR s s))))
        (combine from to) acc).
Proof.
  intros S s Hs FROM from Hf. induction Hf as [|F f FROM from Hf0 Hf IH]; intros TO to Ht ACC acc Hacc.
  - exact Hacc.
  - destruct Ht as [|T t TO to Ht0 Ht].
    + exact Hacc.
    + cbn [combine fold_left fst snd]. apply IH; [exact Ht|]. enc_auto.
Qed.

Lemma iso_exps_sound : forall (S : I.type) (s : R) (FROM TO : list I.type) (from to : list R),
  enc S s -> Forall2 enc FROM from -> Forall2 enc TO to ->
  enc (iso_exps dnumI S FROM TO) (iso_exps dnumR s from to).
Proof.
  intros S s FROM TO from to Hs Hf Ht. unfold iso_exps.
  apply iso_fold_sound; try assumption. apply enc_z0.
Qed.

Lemma enc_Forall2_length : forall (XS : list I.type) (xs : list R),
  Forall2 enc XS xs -> length XS = length xs.
Proof. intros XS xs H. induction H; cbn [length]; [reflexivity | f_equal; assumption]. Qed.

Lemma enc_length_Z : forall (XS : list I.type) (xs : list R), Forall2 enc XS xs ->
  Z.of_nat (length (A := dnumI) XS) = Z.of_nat (length (A := dnumR) xs).
Proof. intros XS xs H. exact (f_equal Z.of_nat (enc_Forall2_length XS xs H)). Qed.

Lemma iso_logp_sound : forall (S : I.type) (s : R) (FROM TO : list I.type) (from to : list R),
  enc S s -> Forall2 enc FROM from -> Forall2 enc TO to ->
  enc (iso_logp dnumI S FROM TO) (iso_logp dnumR s from to).
Proof.
  intros S s FROM TO from to Hs Hf Ht. unfold iso_logp.
  rewrite (enc_length_Z _ _ Hf). enc_auto. apply iso_exps_sound; assumption.
Qed.

Lemma iso_logp_old_sound : forall (S : I.type) (s : R) (FROM TO : list I.type) (from to : list R),
  enc S s -> Forall2 enc FROM from -> Forall2 enc TO to ->
  enc (iso_logp_old dnumI S FROM TO) (iso_logp_old dnumR s from to).
Proof.
  intros S s FROM TO from to Hs Hf Ht. unfold iso_logp_old.
  rewrite (enc_length_Z _ _ Hf). enc_auto. apply iso_exps_sound; assumption.
Qed.

Lemma sumsq_fold_sound : forall (XS : list I.type) (xs : list R), Forall2 enc XS xs ->
  forall (ACC : I.type) (acc : R), enc ACC acc ->
  enc (fold_left (fun acc x => tadd dnumI acc (Density.sq dnumI x)) XS ACC)
      (fold_left (fun acc x => tadd dnumR acc (Density.sq dnumR x)) xs acc).
Proof.
  intros XS xs H. induction H as [|X x XS xs Hx Hxs IH]; intros ACC acc Hacc.
  - exact Hacc.
  - cbn [fold_left]. apply IH. enc_auto.
Qed.

Lemma iso_unnorm_sound : forall (S : I.type) (s : R) (XS : list I.type) (xs : list R),
  enc S s -> Forall2 enc XS xs ->
  enc (iso_unnorm dnumI S XS) (iso_unnorm dnumR s xs).
Proof.
  intros S s XS xs Hs Hx. unfold iso_unnorm. enc_auto.
  apply sumsq_fold_sound; [exact Hx | apply enc_z0].
Qed.

(* normal_logpdf / iso_logp_spec, for completeness *)
Lemma normal_logpdf_sound : forall (MU S X : I.type) (mu s x : R),
  enc MU mu -> enc S s -> enc X x ->
  enc (normal_logpdf dnumI MU S X) (normal_logpdf dnumR mu s x).
Proof. intros MU S X mu s x Hmu Hs Hx. unfold normal_logpdf. enc_auto. Qed.

Lemma iso_logp_spec_sound : forall (S : I.type) (s : R), enc S s ->
  forall (FROM : list I.type) (from : list R), Forall2 enc FROM from ->
  forall (TO : list I.type) (to : list R), Forall2 enc TO to ->
  enc (iso_logp_spec dnumI S FROM TO) (iso_logp_spec dnumR s from to).
Proof.
  intros S s Hs FROM from Hf TO to Ht. unfold iso_logp_spec.
  assert (Hz : enc (Density.z0 dnumI) (Density.z0 dnumR)) by apply enc_z0.
  revert TO to Ht Hz. generalize (Density.z0 dnumI) (Density.z0 dnumR).
  induction Hf as [|F f FROM from Hf0 Hf IH]; intros ACC acc TO to Ht Hacc.
  - exact Hacc.
  - destruct Ht as [|T t TO to Ht0 Ht].
    + exact Hacc.
    + cbn [combine fold_left fst snd]. apply IH; [exact Ht|].
      apply enc_add; [exact Hacc|]. apply normal_logpdf_sound; assumption.
Qed.

