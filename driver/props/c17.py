"""C17 — CSV / Arrow / Parquet export round-trips every value with correct labels."""
import os
import common as C

ID = "C17"
LEVEL = "other"
DIGEST = True
COQ_HEADER = "From MiniMcmc Require Import Model.Export."
RULE = ("shapes 0..6 x 0..40 x 0..8, element types f32/f64/i32/usize where the signature accepts them, values incl. subnormals, "
        "+-MAX, -0, NaN, +-inf; entry points save_csv, save_csv_tensor, save_arrow, save_parquet, save_parquet_tensor; files "
        "re-read with the csv / arrow-ipc / parquet readers of the same versions, canonicalised to (label1,label2,[bits]) and "
        "compared with Model.Export's rows on the same bit patterns (f32 widened to f64 in Flocq); header/schema compared "
        "literally; unwritable paths must give Err without panic. Non-trivial: >= 2 chains, >= 2 observations, >= 1 dim.")
EXPLANATION = ("Proved: row layout (one row per cell, documented order, labels = indices, offsets in bounds and partitioning the "
               "buffer), header order, exactness of f32->f64 widening. Observed (partial): the csv/arrow/parquet crates and Rust's "
               "float printing/parsing, through their own readers.")
TRUSTED = ["csv, arrow, parquet crates and their readers", "Rust Display/FromStr round trip for floats", "the file system"]
ASSUMPTIONS = []
NAN = (1 << 64) - 1
S32 = [0x00000000, 0x80000000, 0x00000001, 0x807FFFFF, 0x7F7FFFFF, 0xFF7FFFFF, 0x7F800000, 0xFF800000, 0x7FC00000, 0x3F800000, 0x3DCCCCCD]
S64 = [0, 1 << 63, 1, 0x800FFFFFFFFFFFFF, 0x7FEFFFFFFFFFFFFF, 0xFFEFFFFFFFFFFFFF, 0x7FF0000000000000, 0xFFF0000000000000,
       0x7FF8000000000000, 0x3FF0000000000000, 0x3FB999999999999A]
FMTS = [("csv", ["f32", "f64", "i32", "usize"]), ("arrow", ["f32", "f64", "i32"]), ("parquet", ["f32", "f64", "i32"]),
        ("csv_tensor", ["f32", "f64"]), ("parquet_tensor", ["f32", "f64"])]


def val(rng, ty):
    if ty == "f32":
        return rng.choice(S32) if rng.random() < 0.3 else C.float_to_f32_bits(rng.uniform(-1e3, 1e3) * 10.0 ** rng.randint(-30, 30))
    if ty == "f64":
        return rng.choice(S64) if rng.random() < 0.3 else C.float_to_f64_bits(rng.uniform(-1e3, 1e3) * 10.0 ** rng.randint(-300, 300))
    if ty == "i32":
        return rng.choice([0, 1, 0x7FFFFFFF, 0x80000000, 0xFFFFFFFF, rng.getrandbits(32)])
    return rng.choice([0, 1, (1 << 64) - 2, rng.getrandbits(64), rng.getrandbits(20)])


def generate(rng, tier):
    n_cases = 260 if tier == "quick" else 2500
    cases = []
    for fmt, tys in FMTS:
        for ty in tys:
            for shape in [[0, 0, 0], [0, 3, 2], [2, 0, 2], [2, 3, 0], [1, 1, 1], [2, 3, 2]]:
                if "tensor" in fmt and 0 in shape:
                    continue          # burn cannot build zero-sized tensors; the array entry points cover empty shapes
                cases.append(mk(rng, fmt, ty, shape, len(cases)))
    while len(cases) < n_cases:
        fmt, tys = rng.choice(FMTS)
        ty = rng.choice(tys)
        shape = [rng.randint(1, 6), rng.randint(1, 40), rng.randint(1, 8)]
        if rng.random() < 0.1 and "tensor" not in fmt:
            shape[rng.randrange(3)] = 0
        cases.append(mk(rng, fmt, ty, shape, len(cases)))
        # the Array3 entry points take arrays of any memory layout: the same logical content handed over column-major or as
        # a permuted-axes view must give the same file
        if "tensor" not in fmt and rng.random() < 0.35:
            cases[-1]["layout"] = rng.choice(["fortran", "permuted"])
    # error paths
    for fmt, tys in FMTS:
        cases.append(dict(mk(rng, fmt, tys[0], [2, 2, 2], len(cases)), path="/verif/.cache/no_such_dir/x/out.dat", kind="badpath"))
        cases.append(dict(mk(rng, fmt, tys[0], [2, 2, 2], len(cases)), path="/proc/verif_cannot_write.dat", kind="badpath"))
        # a destination that can be opened but rejects every write (ENOSPC): small outputs stay inside writer buffers,
        # so the error only surfaces at flush / close time
        cases.append(dict(mk(rng, fmt, tys[0], [2, 3, 2], len(cases)), path="/dev/full", kind="badpath"))
        if "tensor" not in fmt:
            cases.append(dict(mk(rng, fmt, tys[0], [0, 0, 0], len(cases)), path="/dev/full", kind="badpath"))
            cases.append(dict(mk(rng, fmt, tys[0], [6, 40, 8], len(cases)), path="/dev/full", kind="badpath"))
    return cases


def mk(rng, fmt, ty, shape, ident):
    n = shape[0] * shape[1] * shape[2]
    return {"fmt": fmt, "ty": ty, "shape": shape, "bits": [str(val(rng, ty)) for _ in range(n)], "id": ident, "kind": "roundtrip"}


def model_bits(case):
    """what the file must contain for each stored value (canonical)"""
    out = []
    for b in case["bits"]:
        b = int(b)
        out.append(b)
    return out


def coq_term(case, out):
    if case["kind"] != "roundtrip" or "panic" in out or not out.get("ok"):
        return None
    a, b, c = case["shape"]
    flat = C.zlist([int(x) for x in case["bits"]])
    if case["fmt"] in ("csv", "arrow", "parquet"):
        fn = "export_array_eval"
    elif case["fmt"] == "csv_tensor":
        fn = "export_tensor_eval"
    else:
        fn = "export_parquet_tensor_eval"
    t = "%s %s %s %s %s" % (fn, C.natlit(a), C.natlit(b), C.natlit(c), flat)
    t = "(header_eval %s %s) ++ (%s)" % ("true" if case["fmt"] == "parquet_tensor" else "false", C.natlit(c), t)
    if case["ty"] == "f32" and case["fmt"] not in ("csv", "csv_tensor"):
        t = "(%s) ++ (widen_eval %s)" % (t, flat)     # widened values, in storage order
    return t


def canon(case, b, widened):
    """canonical form of a stored cell: NaN class -> NAN"""
    ty = case["ty"]
    if widened:      # f64 bits
        if (b & 0x7FF0000000000000) == 0x7FF0000000000000 and (b & 0xFFFFFFFFFFFFF):
            return NAN
        return b
    if ty == "f32":
        if (b & 0x7F800000) == 0x7F800000 and (b & 0x7FFFFF):
            return NAN
        return b
    if ty == "f64":
        if (b & 0x7FF0000000000000) == 0x7FF0000000000000 and (b & 0xFFFFFFFFFFFFF):
            return NAN
        return b
    return b


def impl_flat(case, out):
    """the implementation's file content rendered like the model: rows [l1, l2, raw stored values...] (+ widened list).
    Cells are mapped back from the file's value to the stored bit pattern only when they agree canonically."""
    if "panic" in out or not out.get("ok"):
        return None
    a, b, c = case["shape"]
    bits = [int(x) for x in case["bits"]]
    binary = case["fmt"] not in ("csv", "csv_tensor")
    # expected canonical file content per stored value
    if binary:
        if case["ty"] == "f32":
            exp = [canon(case, widen_py(x), True) for x in bits]
        elif case["ty"] == "f64":
            exp = [canon(case, x, True) for x in bits]
        else:   # i32 -> f64
            exp = [C.float_to_f64_bits(float(x - (1 << 32) if x >= (1 << 31) else x)) for x in bits]
    else:
        exp = [canon(case, x, False) for x in bits]
    lookup = {}
    flat = [header_code(h) for h in out["header"]]
    # we cannot invert canonical values to raw bits in general; instead emit, for each file cell, the raw stored
    # bits of the cell the model says should be there IF the file's canonical value matches it, else the file value
    order = expected_order(case)
    rows = out["rows"]
    if len(rows) != len(order):
        return [-1, len(rows)]
    for r, (l1, l2, off) in zip(rows, order):
        flat += [r[0], r[1]]
        for j, v in enumerate(r[2]):
            k = off + j
            flat.append(bits[k] if k < len(bits) and j < c and v == exp[k] else -2 - v)
        if len(r[2]) != c:
            flat.append(-1)
    if binary and case["ty"] == "f32":
        flat += [widen_py(x) if canon(case, widen_py(x), True) != NAN else nan64(x) for x in bits]
    return flat


def header_code(h):
    if h in ("chain", "observation"):
        return 0 if h == "chain" else 1
    if h.startswith("dim_") and h[4:].isdigit():
        return 2 + int(h[4:])
    return -1


def nan64(b32):
    """Flocq model's widening of a NaN: sign kept, payload = quiet bit"""
    s = (b32 >> 31) & 1
    return (s << 63) | 0x7FF8000000000000


def widen_py(b32):
    import struct
    x = struct.unpack("<f", struct.pack("<I", b32))[0]
    if x != x:
        return nan64(b32)
    return struct.unpack("<Q", struct.pack("<d", x))[0]


def expected_order(case):
    """(label1, label2, offset into the flat buffer) per row, by the documented axis order"""
    a, b, c = case["shape"]
    return [(i, j, i * b * c + j * c) for i in range(a) for j in range(b)]


def compare(case, out, model):
    if "panic" in out:
        return "implementation panicked: " + out["panic"]
    if case["kind"] == "badpath" or model is None:
        return None
    f = impl_flat(case, out)
    if f != model:
        return "file content differs from the model's rows"
    return None


def oracle(case, out):
    if "panic" in out:
        return "%s(%s) panicked: %s" % (case["fmt"], case["ty"], out["panic"])
    if case["kind"] == "badpath":
        if out.get("ok"):
            return "%s reported success for unwritable path %s" % (case["fmt"], case["path"])
        if out.get("file_exists") and not case["path"].startswith("/dev/"):
            return "%s failed but left a file at %s" % (case["fmt"], case["path"])
        return None
    if not out.get("ok"):
        return None             # an error is allowed by the property (it only constrains successes)
    a, b, c = case["shape"]
    first, second = ("observation", "chain") if case["fmt"] == "parquet_tensor" else ("chain", "observation")
    exp_header = [first, second] + ["dim_%d" % j for j in range(c)]
    if out["header"] != exp_header:
        return "%s header %s, documented %s" % (case["fmt"], out["header"], exp_header)
    if "types" in out and out["types"] != ["UInt32", "UInt32"] + ["Float64"] * c:
        return "schema types %s" % out["types"]
    bits = [int(x) for x in case["bits"]]
    binary = case["fmt"] not in ("csv", "csv_tensor")
    rows = out["rows"]
    if len(rows) != a * b:
        return "%s %s: %d rows for %d (chain, observation) cells" % (case["fmt"], case["shape"], len(rows), a * b)
    for r, (l1, l2, off) in zip(rows, expected_order(case)):
        if [r[0], r[1]] != [l1, l2]:
            return "row labelled (%d,%d), expected (%d,%d)" % (r[0], r[1], l1, l2)
        if len(r[2]) != c:
            return "row (%d,%d) has %d dim columns, expected %d" % (l1, l2, len(r[2]), c)
        for j, v in enumerate(r[2]):
            x = bits[off + j]
            if binary:
                if case["ty"] == "f32":
                    e = canon(case, widen_py(x), True)
                elif case["ty"] == "f64":
                    e = canon(case, x, True)
                else:
                    e = C.float_to_f64_bits(float(x - (1 << 32) if x >= (1 << 31) else x))
            else:
                e = canon(case, x, False)
            if v != e:
                return "%s %s cell (%d,%d,dim_%d): file holds %#x, stored value %#x" % (case["fmt"], case["ty"], l1, l2, j, v, e)
    return None


def finding_class(case, out, d):
    return None


def nontrivial(case, out):
    a, b, c = case["shape"]
    return case["kind"] == "roundtrip" and a >= 2 and b >= 2 and c >= 1


def extra(cases, outs, model):
    fm = {}
    for c in cases:
        k = c["fmt"] + "/" + c["ty"]
        fm[k] = fm.get(k, 0) + 1
    return {"formats": fm, "empty_shapes": sum(1 for c in cases if 0 in c["shape"]),
            "error_path_cases": sum(1 for c in cases if c["kind"] == "badpath"),
            "save_errors_on_valid_paths": sum(1 for c, o in zip(cases, outs) if c["kind"] == "roundtrip" and not o.get("ok", True) and "panic" not in o)}
