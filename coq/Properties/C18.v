(* C18 — initial-position helpers: right shape, seeded ones are pure, prefix property.
   Model: Model/Init.v.  `draws` is the stream of standard-normal variates the (unmodelled)
   ziggurat sampler produces from the seeded generator; `conv` is the f64 -> T conversion. *)
From MiniMcmc Require Import Base.Fp Base.Util Model.Init Proofs.Init Proofs.Conv.
From Coq Require Import Reals.
From Flocq Require Import Core.Raux Core.Generic_fmt Core.FLT Core.Round_NE.
Close Scope R_scope.

Section C18.
  Context {A D : Type}.
  Variable conv : D -> A.
  Variable dflt : D.

  (* exactly n vectors of length d, for every n, d >= 0 *)
  Theorem C18_shape : forall draws n d,
    length (init_model conv dflt draws n d) = n /\
    (forall row, In row (init_model conv dflt draws n d) -> length row = d).
  Proof. intros draws n d. split; [apply init_rows | apply init_cols]. Qed.

  (* entry (r,c) is draw number r*d+c of the single stream, converted: row-major, no per-row
     re-seeding, nothing skipped *)
  Theorem C18_entry : forall draws n d r c da, r < n -> c < d ->
    nth c (nth r (init_model conv dflt draws n d) []) da = conv (nth (r * d + c) draws dflt).
  Proof. exact (init_entry conv dflt). Qed.

  (* the first rows of a larger request equal a smaller request with the same d and seed *)
  Theorem C18_prefix : forall draws n n' d, n <= n' ->
    firstn n (init_model conv dflt draws n' d) = init_model conv dflt draws n d.
  Proof. exact (init_prefix conv dflt). Qed.

  (* purity: the result is a function of (the first n*d draws of the stream, n, d) only *)
  Theorem C18_pure : forall draws draws' n d,
    (forall k, k < n * d -> nth k draws dflt = nth k draws' dflt) ->
    init_model conv dflt draws n d = init_model conv dflt draws' n d.
  Proof. exact (init_uses_prefix conv dflt). Qed.
End C18.

Example C18_example :
  init_model (fun z => z) 0%Z [10; 11; 12; 13; 14; 15; 16]%Z 2 3 = [[10; 11; 12]; [13; 14; 15]]%Z /\
  init_model (fun z => z) 0%Z [10; 11; 12; 13; 14; 15; 16]%Z 0 3 = [] /\
  init_model (fun z => z) 0%Z [10; 11; 12; 13; 14; 15; 16]%Z 2 0 = [[]; []].
Proof. repeat split. Qed.

(* f64 -> f32 conversion on concrete values: 1.0, 1.5, 0.2 (rounds), +inf *)
Example C18_conv_concrete :
  map f64_to_f32_bits [4607182418800017408; 4609434218613702656; 4596373779694328218; 9218868437227405312]%Z
  = [1065353216; 1069547520; 1045220557; 2139095040]%Z.
Proof. vm_compute. reflexivity. Qed.

Print Assumptions C18_shape.
Print Assumptions C18_entry.
Print Assumptions C18_prefix.
Print Assumptions C18_pure.

(* the f64 -> f32 conversion of a finite draw of moderate magnitude (|x| <= 2^100; any normal
   draw is far below) does not overflow and is the correctly rounded (nearest-even) binary32
   value of the draw *)
Theorem C18_conv_finite : forall x : binary64,
  Binary.is_finite 53 1024 x = true ->
  (Rabs (Binary.B2R 53 1024 x) <= bpow radix2 100)%R ->
  Binary.is_finite 24 128 (f64_to_f32 x) = true /\
  Binary.B2R 24 128 (f64_to_f32 x)
  = round radix2 (FLT_exp (3 - 128 - 24) 24) ZnearestE (Binary.B2R 53 1024 x).
Proof. exact f64_to_f32_finite. Qed.

Print Assumptions C18_conv_finite.
