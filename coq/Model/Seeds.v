(* Per-chain seed derivation (after the D2 repair: wrapping arithmetic, as the property demands
   "every 64-bit seed, including the largest"):
     MetropolisHastings::seed:  chain i gets 1 + seed + i
     GibbsSampler::set_seed:    chain i gets seed + i
     NUTS::set_seed:            chain i gets seed + i + 1                                        *)
From MiniMcmc Require Export Base.Rng.
Open Scope N_scope.

Definition mh_seed (s i : N) : N := wrap (1 + s + i).
Definition gibbs_seed (s i : N) : N := wrap (s + i).
Definition nuts_seed (s i : N) : N := wrap (s + i + 1).

(* the code before the repair: plain `+` on u64, which panics on overflow in debug/test profile
   (None = panic) and wraps in release *)
Definition mh_seed_checked (s i : N) : option N :=
  if 1 + s <? W64 then (if 1 + s + i <? W64 then Some (1 + s + i) else None) else None.

Definition seeds_eval (s : N) (n : nat) : list Z :=
  map (fun i => Z.of_N (mh_seed s (N.of_nat i))) (seq 0 n)
  ++ map (fun i => Z.of_N (gibbs_seed s (N.of_nat i))) (seq 0 n)
  ++ map (fun i => Z.of_N (nuts_seed s (N.of_nat i))) (seq 0 n).

(* D3 repair: each chain's proposal generator is re-seeded from a window disjoint from the
   acceptance seeds: proposal seed of chain i = 1 + seed + i + 2^63 (wrapping) *)
Definition HALF : N := 9223372036854775808.       (* 2^63 *)
Definition mh_prop_seed (s i : N) : N := wrap (1 + s + i + HALF).

Definition prop_seeds_eval (s : N) (n : nat) : list Z :=
  map (fun i => Z.of_N (mh_prop_seed s (N.of_nat i))) (seq 0 n).

(* evaluation entry point of C07/C08: for seed s, n chains, k outputs per generator:
   MH acceptance generators' first k outputs, Gibbs seeds, Gibbs generators' outputs,
   NUTS seeds, MH proposal seeds, and the reference outputs of seed_from_u64 s *)
Definition c07_eval (s : N) (n k : nat) : list Z :=
  let idx := map N.of_nat (seq 0 n) in
  concat (map (fun i => map Z.of_N (outputs k (seed_from_u64 (mh_seed s i)))) idx)
  ++ map (fun i => Z.of_N (gibbs_seed s i)) idx
  ++ concat (map (fun i => map Z.of_N (outputs k (seed_from_u64 (gibbs_seed s i)))) idx)
  ++ map (fun i => Z.of_N (nuts_seed s i)) idx
  ++ map (fun i => Z.of_N (mh_prop_seed s i)) idx
  ++ map Z.of_N (outputs k (seed_from_u64 s)).
