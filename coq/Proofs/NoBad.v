(* IEEE facts behind C14: a value that passes a strict comparison is neither NaN nor -inf, and the
   Hamiltonian of a zero-density / NaN-density proposal is +inf or NaN. *)
From MiniMcmc Require Import Base.Fp Model.MH Model.HMC Proofs.MH.

Section NoBad.
  Variables prec emax : Z.
  Context (Hprec : FLX.Prec_gt_0 prec) (Hmax : BinarySingleNaN.Prec_lt_emax prec emax).
  Notation fl := (binary_float prec emax).
  Variable nanf : fl -> fl -> { x : fl | Binary.is_nan prec emax x = true }.
  Variable nanf1 : fl -> { x : fl | Binary.is_nan prec emax x = true }.

  (* `a < b` true: b is neither NaN nor -inf (and a is not NaN, not +inf) *)
  Lemma flt_true_rhs (a b : fl) : flt a b = true -> fnan b = false /\ fneginf b = false.
  Proof.
    unfold flt, fcmp. destruct a as [sa|sa|sa pa ea|sa ma ea ba]; destruct b as [sb|[|]|sb pb eb|sb mb eb bb];
      simpl; try discriminate; try (intros _; split; reflexivity);
      destruct sa; simpl; try discriminate; intros _; split; reflexivity.
  Qed.

  Definition fopp (a : fl) : fl := Binary.Bopp prec emax nanf1 a.
  (* H(x',p') = -logp(x') + ke *)
  Definition energy (lp ke : fl) : fl := fplus nanf (fopp lp) ke.

  Lemma energy_bad (lp ke : fl) :
    fnan lp = true \/ fneginf lp = true -> fnan (energy lp ke) = true \/ fposinf (energy lp ke) = true.
  Proof.
    intros [H|H].
    - left. destruct lp; try discriminate H. unfold energy, fopp, fplus, Binary.Bplus, Binary.Bopp.
      destruct (nanf1 _) as [y Hy]. simpl. destruct y; try discriminate Hy.
      destruct ke; simpl; first [apply (nanf_nan prec emax nanf) | reflexivity].
    - destruct lp as [| [|] | |]; try discriminate H.
      unfold energy, fopp, fplus, Binary.Bplus, Binary.Bopp. simpl.
      destruct ke as [| [|] | |]; simpl; auto; left; first [apply (nanf_nan prec emax nanf) | reflexivity].
  Qed.
End NoBad.
