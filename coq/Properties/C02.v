(* C02 — HMC: each chain's update ends either at its unchanged previous position or at the point
   reached by exactly L leapfrog steps from (x, p), the latter exactly when
   ln u <= H(x,p) - H(x',p'); rows of the batch never influence one another; the integrator is
   time-reversible.
   Model: Model/HMC.v.  (1)-(3) hold for EVERY number structure (no ring law is used), hence for
   the reals, the rationals and any floating-point instance; (4) is stated over the reals; (5) is
   the IEEE-754 decision layer (Flocq), generic in the format, so it holds for binary32 and
   binary64 and for every NaN-payload convention. *)
From Coq Require Import Reals.
From MiniMcmc Require Import Base.Num Base.Fp Base.Util.
From MiniMcmc Require Import Model.HMC.
From MiniMcmc Require Import Proofs.HMC.
Close Scope Q_scope.
Close Scope R_scope.
Local Open Scope nat_scope.

(* (1) The code's loop, which carries the half-step gradient term g = (eps/2) grad(x) from one
   leapfrog step to the next, computes exactly the textbook velocity-Verlet iteration: the
   carried term never goes stale within an update, and since leapfrog_impl re-initialises g from
   grad x, an update never reuses the gradient of a rejected trajectory. *)
Theorem C02_impl_is_spec : forall (K : Num) (grad : list K -> list K) (eps : K) (L : nat)
    (x p : list K),
  leapfrog_impl K grad eps L x p = leapfrog K grad eps L (x, p).
Proof. exact leapfrog_impl_spec. Qed.

(* (2) One row: the end point of exactly L leapfrog steps when the test holds, otherwise the very
   same x. *)
Theorem C02_either_or : forall (K : Num) (logp : list K -> K) (grad : list K -> list K) (eps : K)
    (L : nat) (x p : list K) (lnu : K),
  (nleb K lnu (sub K (hamiltonian K logp (x, p))
                     (hamiltonian K logp (leapfrog K grad eps L (x, p)))) = true ->
     hmc_row K logp grad eps L x p lnu = fst (leapfrog K grad eps L (x, p))) /\
  (nleb K lnu (sub K (hamiltonian K logp (x, p))
                     (hamiltonian K logp (leapfrog K grad eps L (x, p)))) = false ->
     hmc_row K logp grad eps L x p lnu = x).
Proof. exact hmc_row_either_or. Qed.

(* over the reals the test is the order relation: accepted iff ln u <= H(x,p) - H(x',p') *)
Theorem C02_either_or_R : forall (logp : list R -> R) (grad : list R -> list R) (eps : R)
    (L : nat) (x p : list R) (lnu : R),
  ((lnu <= hamiltonian numR logp (x, p) - hamiltonian numR logp (leapfrog numR grad eps L (x, p)))%R ->
     hmc_row numR logp grad eps L x p lnu = fst (leapfrog numR grad eps L (x, p))) /\
  ((hamiltonian numR logp (x, p) - hamiltonian numR logp (leapfrog numR grad eps L (x, p)) < lnu)%R ->
     hmc_row numR logp grad eps L x p lnu = x).
Proof. exact hmc_row_R. Qed.

(* zero leapfrog steps: the trajectory does not move, and the row stays at x either way *)
Theorem C02_L0 : forall (K : Num) (logp : list K -> K) (grad : list K -> list K) (eps : K)
    (x p : list K) (lnu : K),
  leapfrog K grad eps 0 (x, p) = (x, p) /\ hmc_row K logp grad eps 0 x p lnu = x.
Proof. intros. split; [apply leapfrog_0 | apply hmc_row_L0]. Qed.

(* (3) Row i of the result is a function of row i of the inputs only. *)
Theorem C02_row_independence : forall (K : Num) (logp : list K -> K) (grad : list K -> list K)
    (eps : K) (L : nat) (xs ps : list (list K)) (lnus : list K) (i : nat) (dflt : list K),
  i < length xs -> i < length ps -> i < length lnus ->
  nth i (hmc_step K logp grad eps L xs ps lnus) dflt =
  hmc_row K logp grad eps L (nth i xs []) (nth i ps []) (nth i lnus (zero K)).
Proof. exact hmc_step_nth. Qed.

Theorem C02_row_count : forall (K : Num) (logp : list K -> K) (grad : list K -> list K)
    (eps : K) (L : nat) (xs ps : list (list K)) (lnus : list K),
  length (hmc_step K logp grad eps L xs ps lnus) =
  Nat.min (Nat.min (length xs) (length ps)) (length lnus).
Proof. exact hmc_step_length. Qed.

(* overwriting any other rows (position row jx, momentum row jp, draw ju, all different from i)
   with arbitrary values leaves row i of the result unchanged — for every i, in range or not *)
Theorem C02_other_rows_irrelevant : forall (K : Num) (logp : list K -> K)
    (grad : list K -> list K) (eps : K) (L : nat) (xs ps : list (list K)) (lnus : list K)
    (i jx jp ju : nat) (vx vp : list K) (vu : K) (dflt : list K),
  jx <> i -> jp <> i -> ju <> i ->
  nth i (hmc_step K logp grad eps L (upd jx vx xs) (upd jp vp ps) (upd ju vu lnus)) dflt =
  nth i (hmc_step K logp grad eps L xs ps lnus) dflt.
Proof. exact hmc_step_other_rows. Qed.

(* (4) Time reversibility over the reals, for every gradient field that returns a vector of the
   dimension of its argument (no smoothness, no symmetry), every step size (stable or not) and
   every dimension. *)
Section C02_reversibility.
  Variable grad : list R -> list R.
  Variable eps : R.
  Hypothesis grad_length : forall x, length (grad x) = length x.

  Theorem C02_reversible : forall x p : list R, length p = length x ->
    leap1 numR grad eps (flip numR (leap1 numR grad eps (x, p))) = flip numR (x, p).
  Proof. exact (leap1_reversible grad eps grad_length). Qed.

  Theorem C02_leapfrog_reversible : forall (L : nat) (x p : list R), length p = length x ->
    leapfrog numR grad eps L (flip numR (leapfrog numR grad eps L (x, p))) = flip numR (x, p).
  Proof. exact (leapfrog_reversible grad eps grad_length). Qed.
End C02_reversibility.

(* the energy does not see the sign of the momentum *)
Theorem C02_hamiltonian_flip : forall (logp : list R -> R) (z : list R * list R),
  hamiltonian numR logp (flip numR z) = hamiltonian numR logp z.
Proof. exact hamiltonian_flip. Qed.

(* (5) IEEE decision layer: mask = (h_cur - h_prop >= ln u) on any IEEE values. *)
Section C02_decision.
  Variables prec emax : Z.
  Context (Hprec : FLX.Prec_gt_0 prec) (Hmax : BinarySingleNaN.Prec_lt_emax prec emax).
  Notation fl := (binary_float prec emax).
  Variable nanf : fl -> fl -> { x : fl | Binary.is_nan prec emax x = true }.

  Theorem C02_decision_rule : forall (A : Type) (x x' : A) (h_cur h_prop lnu : fl),
    (fle lnu (fminus nanf h_cur h_prop) = true ->
       hmc_row_float nanf x x' h_cur h_prop lnu = x') /\
    (fle lnu (fminus nanf h_cur h_prop) = false ->
       hmc_row_float nanf x x' h_cur h_prop lnu = x).
  Proof. exact (@hmc_row_float_rule prec emax Hprec Hmax nanf). Qed.

  (* a NaN energy on either side never accepts, whatever ln u (also -inf) *)
  Theorem C02_decision_nan : forall h_cur h_prop lnu : fl,
    fnan h_prop = true \/ fnan h_cur = true -> hmc_accept nanf h_cur h_prop lnu = false.
  Proof. exact (@hmc_accept_nan prec emax Hprec Hmax nanf). Qed.

  (* proposal energy +inf (log-density -inf or overflowing momentum): for EVERY current energy
     (finite, +-inf, NaN) the proposal is accepted only when ln u is exactly -inf (u = 0) *)
  Theorem C02_decision_posinf : forall h_cur h_prop lnu : fl,
    fposinf h_prop = true -> hmc_accept nanf h_cur h_prop lnu = true -> fneginf lnu = true.
  Proof. exact (@hmc_accept_posinf prec emax Hprec Hmax nanf). Qed.
End C02_decision.

(* ---- Non-vacuity ---- *)
(* standard normal in 2-D over the rationals: grad = -x, logp = -|x|^2/2; eps = 1/2, L = 3 *)
Definition c02_grad (x : list Q) : list Q := map Qopp x.
Definition c02_logp (x : list Q) : Q := sub numQ 0%Q (mul numQ (vdot numQ x x) (1 # 2)%Q).
Definition c02_x : list Q := [1%Q; 0%Q].
Definition c02_p : list Q := [0%Q; 1%Q].

Example C02_leapfrog_concrete :
  leapfrog numQ c02_grad (1 # 2)%Q 3 (c02_x, c02_p) =
    ([(7 # 128)%Q; (33 # 32)%Q], [(-495 # 512)%Q; (7 # 128)%Q]) /\
  leapfrog_impl numQ c02_grad (1 # 2)%Q 3 c02_x c02_p =
    leapfrog numQ c02_grad (1 # 2)%Q 3 (c02_x, c02_p) /\
  leapfrog numQ c02_grad (1 # 2)%Q 3
    (flip numQ (leapfrog numQ c02_grad (1 # 2)%Q 3 (c02_x, c02_p))) = flip numQ (c02_x, c02_p) /\
  flip numQ (c02_x, c02_p) = ([1%Q; 0%Q], [0%Q; (-1)%Q]).
Proof. repeat split; vm_compute; reflexivity. Qed.

(* H(x,p) - H(x',p') = -1089/524288: ln u = -1 accepts (moves), the boundary value accepts
   (<=), ln u = 0 rejects (stays at the very same x) *)
Example C02_accept_reject_concrete :
  sub numQ (hamiltonian numQ c02_logp (c02_x, c02_p))
           (hamiltonian numQ c02_logp (leapfrog numQ c02_grad (1 # 2)%Q 3 (c02_x, c02_p)))
    = (-1089 # 524288)%Q /\
  hmc_row numQ c02_logp c02_grad (1 # 2)%Q 3 c02_x c02_p (-1)%Q = [(7 # 128)%Q; (33 # 32)%Q] /\
  hmc_row numQ c02_logp c02_grad (1 # 2)%Q 3 c02_x c02_p (-1089 # 524288)%Q
    = [(7 # 128)%Q; (33 # 32)%Q] /\
  hmc_row numQ c02_logp c02_grad (1 # 2)%Q 3 c02_x c02_p 0%Q = c02_x /\
  hmc_step numQ c02_logp c02_grad (1 # 2)%Q 3 [c02_x; c02_x] [c02_p; c02_p] [(-1)%Q; 0%Q]
    = [[(7 # 128)%Q; (33 # 32)%Q]; c02_x].
Proof. repeat split; vm_compute; reflexivity. Qed.

(* the hypothesis of (4) is met by the standard-normal gradient over the reals *)
Example C02_grad_length_satisfiable :
  forall x : list R, length (map Ropp x) = length x.
Proof. intros x. apply map_length. Qed.

(* binary32 decisions [bits of h_cur - h_prop; mask]:
   h_cur = 1.0, h_prop = +inf: difference -inf; ln u = -1.0 rejects, ln u = -inf accepts;
   h_cur = h_prop = +inf: difference NaN, rejects even for ln u = -inf;
   h_cur = 1.0, h_prop = 2.0: difference -1.0; ln u = -1.0 (tie) accepts, ln u = -2.0 accepts,
   ln u = -0.5 rejects *)
Example C02_decide32_concrete :
  hmc_decide32 1065353216 2139095040 3212836864 = [4286578688%Z; 0%Z] /\
  hmc_decide32 1065353216 2139095040 4286578688 = [4286578688%Z; 1%Z] /\
  nth 1 (hmc_decide32 2139095040 2139095040 4286578688) 7%Z = 0%Z /\
  hmc_decide32 1065353216 1073741824 3212836864 = [3212836864%Z; 1%Z] /\
  hmc_decide32 1065353216 1073741824 3221225472 = [3212836864%Z; 1%Z] /\
  hmc_decide32 1065353216 1073741824 3204448256 = [3212836864%Z; 0%Z].
Proof. repeat split; vm_compute; reflexivity. Qed.

(* ---- (6) the correspondence check evaluates the SAME generic model at exact rationals (numQ,
   every operation normalised by Qred; comparison by Qle_bool).  Mapped to the reals with Q2R that
   evaluation IS the numR model of (1)-(4) on the rational inputs, for every pair of targets that
   commute with Q2R -- and the concrete targets of Model/HMC.v do. ---- *)
From Coq Require Import QArith Qreals.
From MiniMcmc Require Import Proofs.Links.
Close Scope Q_scope.
Close Scope R_scope.

Theorem C02_q_leapfrog_is_real : forall (gradQ : list Q -> list Q) (gradR : list R -> list R),
  (forall x : list Q, map Q2R (gradQ x) = gradR (map Q2R x)) ->
  forall (eps : Q) (L : nat) (x p : list Q),
    let z := leapfrog numQ gradQ eps L (x, p) in
    leapfrog numR gradR (Q2R eps) L (map Q2R x, map Q2R p) = (map Q2R (fst z), map Q2R (snd z)).
Proof. exact q2r_leapfrog. Qed.

Theorem C02_q_hamiltonian_is_real : forall (logpQ : list Q -> Q) (logpR : list R -> R),
  (forall x : list Q, Q2R (logpQ x) = logpR (map Q2R x)) ->
  forall z : list Q * list Q,
    Q2R (hamiltonian numQ logpQ z) = hamiltonian numR logpR (map Q2R (fst z), map Q2R (snd z)).
Proof. exact q2r_hamiltonian. Qed.

(* the accept/reject decision agrees (Qle_bool on rationals vs <= on their images), hence the row
   and the whole batch *)
Theorem C02_q_step_is_real : forall (logpQ : list Q -> Q) (logpR : list R -> R)
    (gradQ : list Q -> list Q) (gradR : list R -> list R),
  (forall x : list Q, map Q2R (gradQ x) = gradR (map Q2R x)) ->
  (forall x : list Q, Q2R (logpQ x) = logpR (map Q2R x)) ->
  (forall (eps : Q) (L : nat) (x p : list Q) (lnu : Q),
     map Q2R (hmc_row numQ logpQ gradQ eps L x p lnu)
     = hmc_row numR logpR gradR (Q2R eps) L (map Q2R x) (map Q2R p) (Q2R lnu)) /\
  (forall (eps : Q) (L : nat) (xs ps : list (list Q)) (lnus : list Q),
     map (map Q2R) (hmc_step numQ logpQ gradQ eps L xs ps lnus)
     = hmc_step numR logpR gradR (Q2R eps) L (map (map Q2R) xs) (map (map Q2R) ps) (map Q2R lnus)).
Proof.
  intros logpQ logpR gradQ gradR Hg Hl.
  exact (conj (q2r_hmc_row logpQ logpR gradQ gradR Hg Hl)
              (q2r_hmc_step logpQ logpR gradQ gradR Hg Hl)).
Qed.

(* every concrete target (log-density, gradient) meets the two hypotheses above *)
Theorem C02_q_targets_are_real :
  (forall (mu P : list Q) (c : Q) (x : list Q),
     Q2R (gauss2_logp numQ mu P c x)
       = gauss2_logp numR (map Q2R mu) (map Q2R P) (Q2R c) (map Q2R x) /\
     map Q2R (gauss2_grad numQ mu P x) = gauss2_grad numR (map Q2R mu) (map Q2R P) (map Q2R x)) /\
  (forall (a b : Q) (x : list Q),
     Q2R (rosen2_logp numQ a b x) = rosen2_logp numR (Q2R a) (Q2R b) (map Q2R x) /\
     map Q2R (rosen2_grad numQ a b x) = rosen2_grad numR (Q2R a) (Q2R b) (map Q2R x)) /\
  (forall lam x : list Q,
     Q2R (diag_logp numQ lam x) = diag_logp numR (map Q2R lam) (map Q2R x) /\
     map Q2R (diag_grad numQ lam x) = diag_grad numR (map Q2R lam) (map Q2R x)) /\
  (forall x : list Q,
     Q2R (quartic_logp numQ x) = quartic_logp numR (map Q2R x) /\
     map Q2R (quartic_grad numQ x) = quartic_grad numR (map Q2R x)).
Proof.
  exact (conj q2r_gauss2_target (conj q2r_rosen2_target (conj q2r_diag_target q2r_quartic_target))).
Qed.


(* ---- (7) draw discipline of HMC::step (Model/HMC.v: hmc_mom_idx, hmc_uni_idx, hmc_draws_eval).
   ONE generator per sampler; step s of a sampler with n chains of dimension d takes the n*d momenta
   (chain r, coordinate j: stream position s*(n*d+n) + r*d + j) and then the n uniforms (chain r:
   position s*(n*d+n) + n*d + r).  Over k steps every position is below k*(n*d+n), no position is
   read twice (the maps are injective and their ranges disjoint) and none is skipped (every
   position below k*(n*d+n) is a momentum or a uniform position of some step). ---- *)
From MiniMcmc Require Import Proofs.Draws.
Close Scope Z_scope.
Close Scope N_scope.
Local Open Scope nat_scope.

Theorem C02_draw_discipline : forall n d k : nat,
  (forall s r j, r < n -> j < d -> s < k -> hmc_mom_idx n d s r j < k * (n * d + n)) /\
  (forall s r, r < n -> s < k -> hmc_uni_idx n d s r < k * (n * d + n)) /\
  (forall s r j s' r' j', r < n -> j < d -> r' < n -> j' < d ->
     hmc_mom_idx n d s r j = hmc_mom_idx n d s' r' j' -> s = s' /\ r = r' /\ j = j') /\
  (forall s r s' r', r < n -> r' < n ->
     hmc_uni_idx n d s r = hmc_uni_idx n d s' r' -> s = s' /\ r = r') /\
  (forall s r j s' r', r < n -> j < d -> r' < n -> hmc_mom_idx n d s r j <> hmc_uni_idx n d s' r') /\
  (forall p, p < k * (n * d + n) ->
     (exists s r j, s < k /\ r < n /\ j < d /\ p = hmc_mom_idx n d s r j) \/
     (exists s r, s < k /\ r < n /\ p = hmc_uni_idx n d s r)).
Proof.
  intros n d k.
  exact (conj (fun s r j => hmc_mom_idx_range n d k s r j)
        (conj (fun s r => hmc_uni_idx_range n d k s r)
        (conj (hmc_mom_idx_inj n d)
        (conj (hmc_uni_idx_inj n d)
        (conj (hmc_mom_uni_disjoint n d) (hmc_idx_cover n d k)))))).
Qed.

(* the model reads the stream sequentially: what it selects, in its own order (step by step, momenta
   row-major then uniforms), is position 0, 1, 2, ... of the stream -- k*(n*d+n) values, and when the
   stream is long enough exactly its prefix of that length *)
Theorem C02_draw_reading : forall (n d k : nat) (events : list Z),
  length (hmc_draws_eval n d k events) = k * (n * d + n) /\
  hmc_draws_eval n d k events = map (fun i => nth i events (-1)%Z) (seq 0 (k * (n * d + n))) /\
  (k * (n * d + n) <= length events ->
     hmc_draws_eval n d k events = firstn (k * (n * d + n)) events).
Proof.
  intros n d k events.
  exact (conj (hmc_draws_eval_length n d k events)
        (conj (hmc_draws_eval_seq n d k events) (hmc_draws_eval_prefix n d k events))).
Qed.

(* n = 3 chains, d = 2, k = 2 steps (9 draws per step): the 18 positions, in the order the model reads
   them, are 0, 1, ..., 17; on a 20-value stream the model selects the first 18 values *)
Example C02_draw_concrete :
  concat (map (fun s => concat (map (fun r => map (hmc_mom_idx 3 2 s r) (seq 0 2)) (seq 0 3))
                        ++ map (hmc_uni_idx 3 2 s) (seq 0 3)) (seq 0 2)) = seq 0 18 /\
  hmc_mom_idx 3 2 1 2 1 = 14 /\ hmc_uni_idx 3 2 1 0 = 15 /\
  hmc_draws_eval 3 2 2 (map Z.of_nat (seq 100 20)) = map Z.of_nat (seq 100 18).
Proof. vm_compute. repeat split. Qed.

Print Assumptions C02_impl_is_spec.
Print Assumptions C02_either_or.
Print Assumptions C02_either_or_R.
Print Assumptions C02_L0.
Print Assumptions C02_row_independence.
Print Assumptions C02_row_count.
Print Assumptions C02_other_rows_irrelevant.
Print Assumptions C02_reversible.
Print Assumptions C02_leapfrog_reversible.
Print Assumptions C02_hamiltonian_flip.
Print Assumptions C02_decision_rule.
Print Assumptions C02_decision_nan.
Print Assumptions C02_decision_posinf.
Print Assumptions C02_q_leapfrog_is_real.
Print Assumptions C02_q_hamiltonian_is_real.
Print Assumptions C02_q_step_is_real.
Print Assumptions C02_q_targets_are_real.
Print Assumptions C02_draw_discipline.
Print Assumptions C02_draw_reading.
