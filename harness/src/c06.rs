//! C06: long-run averages against exact expectations (replication means of test functions).
use crate::c01::{TableTarget};
use crate::util::*;
use crate::zoo::*;
use mini_mcmc::core::ChainRunner;
use mini_mcmc::distributions::Proposal;
use mini_mcmc::metropolis_hastings::MetropolisHastings;
use mini_mcmc::verif::{self, Event};
use rand::rngs::SmallRng;
use rand::{Rng, SeedableRng};
use serde_json::{json, Value};

/// pooled averages of the test functions x0, x1, x0^2, x1^2, x0*x1, 1[x0 > thr] over all chains and draws
fn stats2(vals: &[f64], thr: f64) -> Vec<f64> {
    let n = vals.len() / 2;
    let mut s = [0.0f64; 6];
    for k in 0..n {
        let (a, b) = (vals[2 * k], vals[2 * k + 1]);
        s[0] += a;
        s[1] += b;
        s[2] += a * a;
        s[3] += b * b;
        s[4] += a * b;
        s[5] += if a > thr { 1.0 } else { 0.0 };
    }
    s.iter().map(|x| x / n as f64).collect()
}

fn out_vals(o: &Out) -> Vec<f64> {
    if o.is32 {
        o.bits.iter().map(|b| f32::from_bits(*b as u32) as f64).collect()
    } else {
        o.bits.iter().map(|b| f64::from_bits(*b)).collect()
    }
}

/// discrete MH with an asymmetric row-stochastic proposal table (sampling uses its own generator)
#[derive(Clone)]
pub struct RowProposal {
    pub q: Vec<Vec<f64>>,
    pub rng: SmallRng,
}
impl Proposal<usize, f64> for RowProposal {
    fn sample(&mut self, current: &[usize]) -> Vec<usize> {
        let r: f64 = self.rng.random();
        let mut cum = 0.0;
        let row = &self.q[current[0]];
        for (j, p) in row.iter().enumerate() {
            cum += p;
            if r < cum {
                return vec![j];
            }
        }
        vec![row.iter().rposition(|p| *p > 0.0).unwrap()]
    }
    fn logp(&self, from: &[usize], to: &[usize]) -> f64 {
        self.q[from[0]][to[0]].ln()
    }
    fn set_seed(mut self, seed: u64) -> Self {
        self.rng = SmallRng::seed_from_u64(seed);
        self
    }
}

fn table_mh(c: &Value, seed: u64) -> Vec<f64> {
    let pi: Vec<f64> = arr(c, "pi").iter().map(|x| x.as_f64().unwrap()).collect();
    let q: Vec<Vec<f64>> = arr(c, "q").iter().map(|r| r.as_array().unwrap().iter().map(|x| x.as_f64().unwrap()).collect()).collect();
    let k = pi.len();
    let target = TableTarget { lp: pi.iter().map(|p| p.ln()).collect::<Vec<f64>>() };
    let prop = RowProposal { q, rng: SmallRng::seed_from_u64(1) };
    let n_chains = us(c, "n_chains");
    let init: Vec<Vec<usize>> = (0..n_chains).map(|i| vec![i % k]).collect();
    let mut mh = MetropolisHastings::<usize, f64, _, _>::new(target, prop, init).seed(seed);
    let out = mh.run(us(c, "n"), us(c, "d")).unwrap();
    // frequencies of each state
    let mut f = vec![0.0; k];
    for v in out.iter() {
        f[*v] += 1.0;
    }
    let tot: f64 = f.iter().sum();
    f.iter().map(|x| x / tot).collect()
}

fn moments(c: &Value) -> Value {
    let seeds = u64s(&c["seeds"]);
    let thr = c["thr"].as_f64().unwrap_or(0.0);
    let reps: Vec<Vec<f64>> = seeds
        .iter()
        .map(|s| {
            if strf(c, "kind") == "table" {
                return table_mh(c, *s);
            }
            let mut spec = c.clone();
            spec["seed"] = json!(s.to_string());
            spec["init_seed"] = json!(s % 1000 + 1);
            spec["cond_seed"] = json!(s ^ 0x77);
            let o = run_spec(&spec);
            stats2(&out_vals(&o), thr)
        })
        .collect();
    json!({"reps": reps})
}

/// law of the variates HMC / NUTS consume (from the hooks)
fn draws(c: &Value) -> Value {
    let mut spec = c.clone();
    spec["progress"] = json!(false);
    verif::start();
    let _ = run_spec(&spec);
    let ev = verif::take();
    let mut normals = vec![];
    let mut uniforms = vec![];
    let mut exps = vec![];
    for e in &ev {
        match e {
            Event::HmcStep { momenta, uniform, .. } => {
                normals.extend(momenta.iter().cloned());
                uniforms.extend(uniform.iter().cloned());
            }
            Event::NutsStepStart { momentum, exp1, .. } => {
                normals.extend(momentum.iter().cloned());
                exps.push(*exp1);
            }
            Event::NutsDoubling { u_run_1, .. } => uniforms.push(*u_run_1),
            Event::NutsDoublingEnd { u_run_2, .. } => uniforms.push(*u_run_2),
            Event::NutsMerge { u, .. } => uniforms.push(*u),
            _ => {}
        }
    }
    let summ = |v: &Vec<f64>| {
        let n = v.len() as f64;
        let m = v.iter().sum::<f64>() / n;
        let m2 = v.iter().map(|x| x * x).sum::<f64>() / n;
        let lag1 = v.windows(2).map(|w| (w[0] - m) * (w[1] - m)).sum::<f64>() / (n - 1.0);
        json!({"n": v.len(), "mean": m, "msq": m2, "lag1": lag1})
    };
    // serial dependence across steps: uniform r of step t against momentum entry r of step t+1 (a generator that is
    // cloned instead of advanced hands the same words to both)
    let hmc_steps: Vec<(&Vec<f64>, &Vec<f64>)> = ev.iter().filter_map(|e| match e {
        Event::HmcStep { momenta, uniform, .. } => Some((momenta, uniform)),
        _ => None,
    }).collect();
    let (mut cn, mut cs) = (0usize, 0.0f64);
    for w in hmc_steps.windows(2) {
        for (u, z) in w[0].1.iter().zip(w[1].0.iter()) {
            cs += (u - 0.5) * z;
            cn += 1;
        }
    }
    let cross_next = if cn > 0 { cs / cn as f64 } else { 0.0 };
    let cross = normals.iter().zip(uniforms.iter()).map(|(a, b)| a * (b - 0.5)).sum::<f64>() / (normals.len().min(uniforms.len()).max(1) as f64);
    json!({"normals": summ(&normals), "uniforms": summ(&uniforms), "exps": if exps.is_empty() { json!(null) } else { summ(&exps) },
           "cross": cross, "cross_n": normals.len().min(uniforms.len()), "cross_next": cross_next, "cross_next_n": cn})
}

pub fn run(c: &Value) -> Value {
    match strf(c, "op") {
        "moments" => moments(c),
        "draws" => draws(c),
        op => panic!("unknown op {op}"),
    }
}
