"""C15 — built-in densities, gradients and proposal density match their definitions."""
from fractions import Fraction
import math, struct
import common as C
import zigtie

ID = "C15"
LEVEL = "proof"
COQ_HEADER = "From MiniMcmc Require Import Model.Density Model.Proposal Model.Ziggurat."
RULE = ("public trait methods of Gaussian2D (logp, unnorm_logp), DiffableGaussian2D (batched and single-point log-density, "
        "gradient through autodiff), Rosenbrock2D (batched/single/gradient), RosenbrockND (d<=32) and IsotropicGaussian (logp in "
        "both argument orders, unnorm_logp, set_seed reproducibility, sample moments) for random means, SPD covariances with "
        "condition number up to 1e4 (dyadic entries), points, batch sizes 1..64, sigma in (1e-3,1e3), d in 1..32, f32/f64 scalars "
        "and backends, compared with the enclosure Model.Density gives in 80-bit interval arithmetic inside Coq, widened by an "
        "f32-level tolerance 2^-11 * (sum of the magnitudes of the formula's terms). Non-trivial: off-diagonal covariance != 0 or "
        "d >= 2 or sigma != 1.")
TRUSTED = ["Interval library enclosures (ln, pi)", "burn autodiff (the gradient is compared against the analytic gradient)"]
ASSUMPTIONS = ["that sum_i log N integrates to one (Gaussian integral) is textbook, not proved",
               "tensor targets keep f32 parameters on f64 backends: f32-level tolerance on both"]


def fb(x):
    return C.float_to_f64_bits(x)


def bf(b):
    return C.f64_bits_to_float(b)


def r32(x):
    return struct.unpack("<f", struct.pack("<f", x))[0]


def rd(f, x):
    return r32(x) if f == "f32" else x


def rand_cov(rng, f):
    """SPD with dyadic entries and condition number up to 1e4"""
    a = 2.0 ** rng.randint(-4, 6)
    d = 2.0 ** rng.randint(-4, 6)
    rho = rng.choice([0.0, 0.0, 0.25, -0.5, 0.75, -0.9375, 0.984375])
    b = rho * math.sqrt(a * d)
    b = rd("f32", b)       # representable in both
    return [a, b, b, d]


def pts(rng, n, scale=3.0):
    return [r32(rng.uniform(-scale, scale)) for _ in range(n)]


def generate(rng, tier):
    n_cases = 120 if tier == "quick" else 1500
    cases = [{"op": "iso", "f": "f64", "sigma": fb(2.0), "from": [fb(0.0)], "to": [fb(0.0)], "seed": "1", "kind": "witness-D8"}]
    # high dimension x std far from one (products like (sqrt(2 pi) std)^d leave the f32 range although the log-density does not)
    for f in ["f32", "f64"]:
        for d, sigma in [(32, 900.0), (24, 900.0), (13, 500.0), (32, 30.0), (32, 0.002), (20, 0.002), (32, 0.02), (32, 1000.0), (32, 0.001)]:
            sg = rd(f, sigma)
            frm = [rd(f, rng.uniform(-3, 3)) for _ in range(d)]
            to = [rd(f, x + sg * rng.gauss(0, 1)) for x in frm]
            cases.append({"op": "iso", "f": f, "sigma": fb(sg), "from": [fb(x) for x in frm], "to": [fb(x) for x in to],
                          "seed": str(rng.getrandbits(64)), "kind": "extreme-d-sigma"})
    # small-scale covariances: determinant below the machine epsilon of the scalar type (2^-23 / 2^-52) although the
    # matrix is perfectly conditioned — nothing may clamp or floor it
    for f, e in [("f32", -13), ("f32", -15), ("f64", -28), ("f64", -13), ("f64", -40)]:
        for op in ["gauss2d", "diffable"]:
            a = 2.0 ** e
            rho = rng.choice([0.0, 0.5, -0.75])
            cv = [a, rho * a, rho * a, a]
            mean = [r32(rng.uniform(-1, 1)), r32(rng.uniform(-1, 1))]
            sd = math.sqrt(a)
            P = []
            for _ in range(3):
                P += [rd(f, mean[0] + sd * rng.uniform(-3, 3)), rd(f, mean[1] + sd * rng.uniform(-3, 3))]
            cases.append({"op": op, "f": f, "mean": [fb(mean[0]), fb(mean[1])], "cov": [fb(x) for x in cv], "points": [fb(x) for x in P],
                          "kind": "tiny-determinant"})
    # IsotropicGaussian whose public field `std` is reassigned after construction: logp and sample must follow the field
    for f in ["f32", "f64"]:
        for s0, s1 in [(1.0, 0.25), (0.5, 4.0), (3.0, 3.0)]:
            d = rng.choice([1, 3, 8])
            frm = [rd(f, rng.uniform(-3, 3)) for _ in range(d)]
            to = [rd(f, x + s1 * rng.gauss(0, 1)) for x in frm]
            cases.append({"op": "iso", "f": f, "sigma": fb(rd(f, s1)), "sigma0": fb(rd(f, s0)), "from": [fb(x) for x in frm],
                          "to": [fb(x) for x in to], "seed": str(rng.getrandbits(64)), "kind": "std-reassigned"})
    while len(cases) < n_cases:
        f = rng.choice(["f32", "f64"])
        op = rng.choice(["gauss2d", "diffable", "diffable", "rosen2", "rosennd", "iso", "iso"])
        if op in ("gauss2d", "diffable"):
            n = rng.choice([1, 2, 5, 64]) if op == "diffable" else rng.choice([1, 3])
            cases.append({"op": op, "f": f, "mean": [fb(r32(rng.uniform(-5, 5))), fb(r32(rng.uniform(-5, 5)))],
                          "cov": [fb(x) for x in rand_cov(rng, f)], "points": [fb(x) for x in pts(rng, 2 * min(n, 6), 6.0)]})
        elif op == "rosen2":
            cases.append({"op": op, "f": f, "a": fb(rng.choice([1.0, 0.5, 2.0])), "b": fb(rng.choice([1.0, 100.0, 5.0])),
                          "points": [fb(x) for x in pts(rng, 2 * rng.choice([1, 4]), 2.0)]})
        elif op == "rosennd":
            d = rng.choice([2, 3, 5, 10, 32])
            cases.append({"op": op, "f": f, "d": d, "points": [fb(x) for x in pts(rng, d * rng.choice([1, 3]), 1.5)]})
        else:
            d = rng.choice([1, 1, 2, 3, 8, 32])
            sigma = rd(f, rng.choice([1.0, 2.0, 0.5, 10.0 ** rng.uniform(-3, 3)]))
            frm = [rd(f, rng.uniform(-3, 3)) for _ in range(d)]
            to = [rd(f, x + sigma * rng.gauss(0, 1)) for x in frm]
            cases.append({"op": op, "f": f, "sigma": fb(sigma), "from": [fb(x) for x in frm], "to": [fb(x) for x in to],
                          "seed": str(rng.getrandbits(64))})
    return cases


def idy(x):
    if x == 0:
        return "(idy 0 0)"
    m, e = math.frexp(x)
    m = int(m * (1 << 53))
    e -= 53
    while m % 2 == 0:
        m //= 2
        e += 1
    return "(idy %s %s)" % (C.z(m), C.z(e))


def ilist(xs):
    return "[" + "; ".join(idy(x) for x in xs) + "]"


def params(case):
    f = case["f"]
    return [rd(f, bf(b)) for b in case.get("mean", [])], [rd(f, bf(b)) for b in case.get("cov", [])]


def coq_term(case, out):
    if "panic" in out:
        return None
    f, op = case["f"], case["op"]
    parts = []
    if op in ("gauss2d", "diffable"):
        m, cv = params(case)
        P = [rd(f, bf(b)) for b in case["points"]]
        fn = "g2_eval" if op == "gauss2d" else "dg_eval"
        for k in range(len(P) // 2):
            parts.append("%s %s %s %s %s %s %s %s %s" % (fn, idy(m[0]), idy(m[1]), idy(cv[0]), idy(cv[1]), idy(cv[2]), idy(cv[3]),
                                                         idy(P[2 * k]), idy(P[2 * k + 1])))
    elif op == "rosen2":
        a, b = rd(f, bf(case["a"])), rd(f, bf(case["b"]))
        P = [rd(f, bf(x)) for x in case["points"]]
        for k in range(len(P) // 2):
            parts.append("rb2_eval %s %s %s %s" % (idy(a), idy(b), idy(P[2 * k]), idy(P[2 * k + 1])))
    elif op == "rosennd":
        d = case["d"]
        P = [rd(f, bf(x)) for x in case["points"]]
        for k in range(len(P) // d):
            parts.append("rbn_eval %s" % ilist(P[k * d:(k + 1) * d]))
    else:
        parts.append("iso_eval %s %s %s" % (idy(bf(case["sigma"])), ilist([bf(x) for x in case["from"]]), ilist([bf(x) for x in case["to"]])))
        # IsotropicGaussian::sample, bit-exact: three consecutive calls from `from`, fed with the replayed normal draws
        tb = (lambda b: C.float_to_f32_bits(bf(b))) if f == "f32" else (lambda b: b)
        parts.append("%s 3%%nat %d %s %s" % ("iso_samples32" if f == "f32" else "iso_samples64", tb(case["sigma"]),
                                             C.zlist([tb(b) for b in out["normals"]]), C.zlist([tb(b) for b in case["from"]])))
        zg = zig_plan(case, out)
        if zg:
            parts.append(zigtie.term(case["seed"], zg))
    return " ++ ".join("(%s)" % q for q in parts)


_zig_cache = {}


def zig_plan(case, out):
    """the standard-normal draws of the proposal's seeded generator from the seed alone (Model.Ziggurat)"""
    if case["op"] != "iso" or "normals" not in out or "seed" not in case:
        return None
    key = (case["seed"], case["f"], len(out["normals"]))
    if key not in _zig_cache:
        _zig_cache[key] = zigtie.prepare(case["f"], case["seed"], [0] * len(out["normals"]))
    return _zig_cache[key]


def ival(model, pos):
    def one(k):
        s, m, e = model[k:k + 3]
        if s == 2:
            return None
        return Fraction(s * m) * (Fraction(2) ** e)
    return one(pos), one(pos + 3)


def near(x, lo, hi, tol_abs):
    if lo is None or hi is None:
        return True
    if not math.isfinite(x):
        return False
    return lo - tol_abs <= Fraction(x) <= hi + tol_abs


REL = Fraction(1, 2 ** 11)


def scale_gauss(case, k):
    m, cv = params(case)
    f = case["f"]
    det = cv[0] * cv[3] - cv[1] * cv[2]
    mx = max(abs(v) for v in cv) / abs(det)
    x0, x1 = rd(f, bf(case["points"][2 * k])), rd(f, bf(case["points"][2 * k + 1]))
    d2 = (x0 - m[0]) ** 2 + (x1 - m[1]) ** 2
    # cancellation in det itself (a d - b c) amplifies relative error of the inverse
    amp = (abs(cv[0] * cv[3]) + abs(cv[1] * cv[2])) / abs(det)
    return Fraction(4 + abs(math.log(abs(det))) + 4 * d2 * mx * amp), Fraction(4 * math.sqrt(d2) * mx * amp + 1e-30)


def compare(case, out, model):
    if "panic" in out:
        return "implementation panicked: " + out["panic"]
    if model is None:
        return None
    model, zm = zigtie.split(model)
    if zm is not None:
        r = zigtie.check(case["f"], case["seed"], zig_plan(case, out), out["normals"], zm)
        if r:
            return "IsotropicGaussian generator stream: " + r
    return check(case, out, model, "model")


def check(case, out, model, who):
    f, op = case["f"], case["op"]
    pos = 0

    def nxt():
        nonlocal pos
        v = ival(model, pos)
        pos += 6
        return v
    if op == "gauss2d":
        for k in range(len(case["points"]) // 2):
            sc, _ = scale_gauss(case, k)
            lo, hi = nxt()
            if not near(bf(out["logp"][k]), lo, hi, REL * sc):
                return "Gaussian2D::logp at point %d = %.9g, definition in [%.9g, %.9g]" % (k, bf(out["logp"][k]), float(lo), float(hi))
            lo, hi = nxt()
            if not near(bf(out["unnorm"][k]), lo, hi, REL * sc):
                return "Gaussian2D::unnorm_logp at point %d = %.9g, definition in [%.9g, %.9g]" % (k, bf(out["unnorm"][k]), float(lo), float(hi))
    elif op == "diffable":
        for k in range(len(case["points"]) // 2):
            sc, gsc = scale_gauss(case, k)
            lo, hi = nxt()
            for name in ("batch", "single"):
                if not near(bf(out[name][k]), lo, hi, REL * sc):
                    return "DiffableGaussian2D %s log-density at row %d = %.9g, definition in [%.9g, %.9g]" % (name, k, bf(out[name][k]), float(lo), float(hi))
            for j in range(2):
                lo, hi = nxt()
                for name in ("batch_grad", "single_grad"):
                    g = bf(out[name][2 * k + j])
                    if not near(g, lo, hi, REL * gsc * 2):
                        return "DiffableGaussian2D %s[%d][%d] = %.9g, true gradient in [%.9g, %.9g]" % (name, k, j, g, float(lo), float(hi))
    elif op == "rosen2":
        a, b = rd(f, bf(case["a"])), rd(f, bf(case["b"]))
        for k in range(len(case["points"]) // 2):
            x, y = rd(f, bf(case["points"][2 * k])), rd(f, bf(case["points"][2 * k + 1]))
            sc = Fraction(1 + (abs(a) + abs(x)) ** 2 + abs(b) * (abs(y) + x * x) ** 2)
            gsc = Fraction(1 + 2 * (abs(a) + abs(x)) + 4 * abs(b) * abs(x) * (abs(y) + x * x) + 2 * abs(b) * (abs(y) + x * x))
            lo, hi = nxt()
            for name in ("batch", "single"):
                if not near(bf(out[name][k]), lo, hi, REL * sc):
                    return "Rosenbrock2D %s log-density at row %d = %.9g, definition in [%.9g, %.9g]" % (name, k, bf(out[name][k]), float(lo), float(hi))
            for j in range(2):
                lo, hi = nxt()
                for name in ("batch_grad", "single_grad"):
                    g = bf(out[name][2 * k + j])
                    if not near(g, lo, hi, REL * gsc):
                        return "Rosenbrock2D %s[%d][%d] = %.9g, true gradient in [%.9g, %.9g]" % (name, k, j, g, float(lo), float(hi))
    elif op == "rosennd":
        d = case["d"]
        for k in range(len(case["points"]) // d):
            xs = [rd(f, bf(x)) for x in case["points"][k * d:(k + 1) * d]]
            sc = Fraction(1 + sum(100 * (abs(xs[i + 1]) + xs[i] ** 2) ** 2 + (1 + abs(xs[i])) ** 2 for i in range(d - 1)))
            lo, hi = nxt()
            if not near(bf(out["batch"][k]), lo, hi, REL * sc):
                return "RosenbrockND log-density at row %d = %.9g, definition in [%.9g, %.9g]" % (k, bf(out["batch"][k]), float(lo), float(hi))
    else:
        sigma = bf(case["sigma"])
        frm = [bf(x) for x in case["from"]]
        to = [bf(x) for x in case["to"]]
        d = len(frm)
        sc = Fraction(1 + sum((t - fr) ** 2 for fr, t in zip(frm, to)) / (2 * sigma * sigma) + d * abs(math.log(2 * math.pi * sigma * sigma)) / 2)
        lo, hi = nxt()
        if not near(bf(out["logp_ft"]), lo, hi, REL * sc):
            return ("IsotropicGaussian(std=%r)::logp(from,to) = %.9g for d=%d, normalised density sum_i log N(to_i; from_i, std^2) in "
                    "[%.9g, %.9g]" % (sigma, bf(out["logp_ft"]), d, float(lo), float(hi)))
        lo, hi = nxt()
        if not near(bf(out["logp_tf"]), lo, hi, REL * sc):
            return "IsotropicGaussian::logp(to,from) = %.9g, expected [%.9g, %.9g]" % (bf(out["logp_tf"]), float(lo), float(hi))
        lo, hi = nxt()
        usc = Fraction(1 + sum(t * t for t in to) / (2 * sigma * sigma))
        if not near(bf(out["unnorm"]), lo, hi, REL * usc):
            return "IsotropicGaussian::unnorm_logp = %.9g, expected [%.9g, %.9g]" % (bf(out["unnorm"]), float(lo), float(hi))
        nxt()
        tb = (lambda b: C.float_to_f32_bits(bf(b))) if f == "f32" else (lambda b: b)
        got = [tb(b) for b in out["draws_a"]]
        if who == "model" and got != model[pos:]:
            k = [i for i in range(max(len(got), len(model[pos:]))) if i >= len(got) or i >= len(model[pos:]) or got[i] != model[pos:][i]][0]
            return ("IsotropicGaussian(std=%r)::sample, value %d of three consecutive calls from %s: implementation %s, "
                    "(0 + std*z) + current with the replayed standard-normal draws gives %s" % (
                        sigma, k, frm, got[k] if k < len(got) else None, model[pos:][k] if k < len(model[pos:]) else None))
    return None


def oracle(case, out):
    """definitions recomputed directly in double precision (independent of the Coq model)"""
    if "panic" in out:
        return "density evaluation panicked: " + out["panic"]
    op, f = case["op"], case["f"]
    if op == "iso":
        sigma = bf(case["sigma"])
        frm = [bf(x) for x in case["from"]]
        to = [bf(x) for x in case["to"]]
        d = len(frm)
        ref = sum(-(t - fr) ** 2 / (2 * sigma * sigma) - 0.5 * math.log(2 * math.pi * sigma * sigma) for fr, t in zip(frm, to))
        sc = 1 + abs(ref) + d * abs(math.log(2 * math.pi * sigma * sigma)) / 2
        for name in ("logp_ft", "logp_tf"):
            if abs(bf(out[name]) - ref) > 2.0 ** -11 * sc:
                return ("IsotropicGaussian(std=%r)::logp = %.9g for d=%d, but the normalised log-density of N(from, std^2 I) at `to` is %.9g"
                        % (sigma, bf(out[name]), d, ref))
        if out["logp_ft"] != out["logp_tf"] and abs(bf(out["logp_ft"]) - bf(out["logp_tf"])) > 2.0 ** -18 * sc:
            return "logp(from,to) != logp(to,from)"
        if out["draws_a"] != out["draws_b"]:
            return "IsotropicGaussian::set_seed: two proposals with the same seed draw different values"
        n = out["z_n"]
        if abs(out["z_mean"]) > 6 / math.sqrt(n) or abs(out["z_msq"] - 1) > 6 * math.sqrt(2.0 / n):
            return "IsotropicGaussian::sample: standardised increments have mean %r, mean square %r over %d draws" % (out["z_mean"], out["z_msq"], n)
    if op == "rosen2":
        # -(a - x)^2 - b (y - x^2)^2 and its gradient, for every a (not only the usual a = 1)
        a, b = rd(f, bf(case["a"])), rd(f, bf(case["b"]))
        for k in range(len(case["points"]) // 2):
            x, y = rd(f, bf(case["points"][2 * k])), rd(f, bf(case["points"][2 * k + 1]))
            lp = -(a - x) ** 2 - b * (y - x * x) ** 2
            g = [2 * (a - x) + 4 * b * x * (y - x * x), -2 * b * (y - x * x)]
            sc = 1 + (abs(a) + abs(x)) ** 2 + abs(b) * (abs(y) + x * x) ** 2
            gsc = 1 + 2 * (abs(a) + abs(x)) + 4 * abs(b) * abs(x) * (abs(y) + x * x) + 2 * abs(b) * (abs(y) + x * x)
            for name in ("batch", "single"):
                if abs(bf(out[name][k]) - lp) > 2.0 ** -11 * sc:
                    return "Rosenbrock2D(a=%r, b=%r) %s log-density at (%r, %r) = %.9g, definition gives %.9g" % (a, b, name, x, y, bf(out[name][k]), lp)
            for j in range(2):
                for name in ("batch_grad", "single_grad"):
                    if name in out and abs(bf(out[name][2 * k + j]) - g[j]) > 2.0 ** -10 * gsc:
                        return "Rosenbrock2D(a=%r, b=%r) %s[%d] at (%r, %r) = %.9g, the derivative of the log-density is %.9g" % (
                            a, b, name, j, x, y, bf(out[name][2 * k + j]), g[j])
    if op == "gauss2d":
        m, cv = params(case)
        det = cv[0] * cv[3] - cv[1] * cv[2]
        for k in range(len(case["points"]) // 2):
            diff = bf(out["logp"][k]) - bf(out["unnorm"][k])
            ref = -math.log(2 * math.pi) - 0.5 * math.log(abs(det))
            sc, _ = scale_gauss(case, k)
            if abs(diff - ref) > float(REL * sc) * 2:
                return "Gaussian2D normalised - unnormalised = %.9g, constant -ln(2 pi) - ln|det|/2 = %.9g" % (diff, ref)
    if op in ("gauss2d", "diffable"):
        # the documented normalised 2-D Gaussian log-density, recomputed in double precision
        m, cv = params(case)
        det = cv[0] * cv[3] - cv[1] * cv[2]
        if det > 0:
            names = ("logp",) if op == "gauss2d" else ("batch", "single")
            for k in range(len(case["points"]) // 2):
                x0, x1 = rd(f, bf(case["points"][2 * k])), rd(f, bf(case["points"][2 * k + 1]))
                d0, d1 = x0 - m[0], x1 - m[1]
                quad = (cv[3] * d0 * d0 - (cv[1] + cv[2]) * d0 * d1 + cv[0] * d1 * d1) / det
                ref = -math.log(2 * math.pi) - 0.5 * math.log(det) - 0.5 * quad
                sc, _ = scale_gauss(case, k)
                for nm in names:
                    got = bf(out[nm][k])
                    if abs(got - ref) > float(REL * sc) * 2:
                        return ("%s %s at (%r, %r) with mean %s, cov %s (det %r): returned %.9g, the normalised 2-D Gaussian "
                                "log-density is %.9g" % ("Gaussian2D::logp" if op == "gauss2d" else "DiffableGaussian2D " + nm,
                                                         f, x0, x1, m, cv, det, got, ref))
    if op in ("diffable", "rosen2"):
        for k in range(len(out["batch"])):
            a, b = bf(out["batch"][k]), bf(out["single"][k])
            if abs(a - b) > 2.0 ** -11 * (1 + abs(a) + abs(b)) * 8:
                sc = 1
                if op == "diffable":
                    sc = float(scale_gauss(case, k)[0])
                if abs(a - b) > 2.0 ** -11 * sc * 2:
                    return "%s: batched row %d = %.9g, single-point evaluation = %.9g" % (op, k, a, b)
    return None


def finding_class(case, out, d):
    return None


def nontrivial(case, out):
    if case["op"] in ("gauss2d", "diffable"):
        return bf(case["cov"][1]) != 0.0
    if case["op"] == "iso":
        return bf(case["sigma"]) != 1.0
    return True


def extra(cases, outs, model):
    ops = {}
    for c in cases:
        k = c["op"] + "/" + c["f"]
        ops[k] = ops.get(k, 0) + 1
    zn = sum(len(zig_plan(c, o)["kinds"]) for c, o in zip(cases, outs) if isinstance(o, dict) and zig_plan(c, o))
    return {"operations": ops, "variates_computed_in_coq_from_seed": zn}


def corrupt(model):
    """interval bounds are encoded [sign, mantissa, exponent] x 2: shift every exponent by 3 (value x 8)"""
    return [x + 3 if i % 3 == 2 else x for i, x in enumerate(model)]
