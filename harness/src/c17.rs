//! C17: CSV / Arrow / Parquet export round trip.
use crate::util::*;
use arrow::array::{Array, Float64Array, UInt32Array};
use burn::backend::NdArray;
use burn::prelude::*;
use mini_mcmc::io::arrow::save_arrow;
use mini_mcmc::io::csv::{save_csv, save_csv_tensor};
use mini_mcmc::io::parquet::{save_parquet, save_parquet_tensor};
use ndarray::Array3;
use serde_json::{json, Value};
use std::fs::File;

const NAN_MARK: u64 = u64::MAX;

fn canon64(x: f64) -> u64 {
    if x.is_nan() {
        NAN_MARK
    } else {
        x.to_bits()
    }
}

fn read_batches(batches: Vec<arrow::record_batch::RecordBatch>) -> Value {
    let mut header: Vec<String> = vec![];
    let mut types: Vec<String> = vec![];
    let mut rows: Vec<Value> = vec![];
    for b in &batches {
        let schema = b.schema();
        header = schema.fields().iter().map(|f| f.name().clone()).collect();
        types = schema.fields().iter().map(|f| format!("{:?}", f.data_type())).collect();
        let l1 = b.column(0).as_any().downcast_ref::<UInt32Array>().expect("u32 col0");
        let l2 = b.column(1).as_any().downcast_ref::<UInt32Array>().expect("u32 col1");
        for r in 0..b.num_rows() {
            let vals: Vec<u64> = (2..b.num_columns())
                .map(|k| {
                    let col = b.column(k).as_any().downcast_ref::<Float64Array>().expect("f64 col");
                    assert!(!col.is_null(r));
                    canon64(col.value(r))
                })
                .collect();
            rows.push(json!([l1.value(r), l2.value(r), vals]));
        }
    }
    json!({"header": header, "types": types, "rows": rows, "batches": batches.len()})
}

fn read_arrow(path: &str) -> Value {
    let r = arrow::ipc::reader::FileReader::try_new(File::open(path).unwrap(), None).unwrap();
    let schema = r.schema();
    let batches: Vec<_> = r.map(|b| b.unwrap()).collect();
    let mut v = read_batches(batches);
    v["header"] = json!(schema.fields().iter().map(|f| f.name().clone()).collect::<Vec<_>>());
    v["types"] = json!(schema.fields().iter().map(|f| format!("{:?}", f.data_type())).collect::<Vec<_>>());
    v
}

fn read_parquet(path: &str) -> Value {
    let b = parquet::arrow::arrow_reader::ParquetRecordBatchReaderBuilder::try_new(File::open(path).unwrap()).unwrap();
    let schema = b.schema().clone();
    let r = b.build().unwrap();
    let batches: Vec<_> = r.map(|b| b.unwrap()).collect();
    let mut v = read_batches(batches);
    v["header"] = json!(schema.fields().iter().map(|f| f.name().clone()).collect::<Vec<_>>());
    v["types"] = json!(schema.fields().iter().map(|f| format!("{:?}", f.data_type())).collect::<Vec<_>>());
    v
}

trait Cell: Copy + std::fmt::Display + std::str::FromStr {
    fn of_bits(b: u64) -> Self;
    fn bits(self) -> u64; // canonical: NaN -> NAN_MARK
}
impl Cell for f32 {
    fn of_bits(b: u64) -> Self {
        f32::from_bits(b as u32)
    }
    fn bits(self) -> u64 {
        if self.is_nan() {
            NAN_MARK
        } else {
            self.to_bits() as u64
        }
    }
}
impl Cell for f64 {
    fn of_bits(b: u64) -> Self {
        f64::from_bits(b)
    }
    fn bits(self) -> u64 {
        canon64(self)
    }
}
impl Cell for i32 {
    fn of_bits(b: u64) -> Self {
        b as u32 as i32
    }
    fn bits(self) -> u64 {
        self as u32 as u64
    }
}
impl Cell for usize {
    fn of_bits(b: u64) -> Self {
        b as usize
    }
    fn bits(self) -> u64 {
        self as u64
    }
}

fn read_csv<T: Cell>(path: &str) -> Value
where
    <T as std::str::FromStr>::Err: std::fmt::Debug,
{
    let mut r = csv::Reader::from_path(path).unwrap();
    let header: Vec<String> = r.headers().unwrap().iter().map(|s| s.to_string()).collect();
    let mut rows = vec![];
    for rec in r.records() {
        let rec = rec.unwrap();
        let l1: u64 = rec[0].parse().unwrap();
        let l2: u64 = rec[1].parse().unwrap();
        let vals: Vec<u64> = (2..rec.len()).map(|k| rec[k].parse::<T>().expect("cell parses back").bits()).collect();
        rows.push(json!([l1, l2, vals]));
    }
    json!({"header": header, "rows": rows})
}

/// memory layout of the arrays handed to the Array3 entry points: 0 = standard (row-major), 1 = column-major,
/// 2 = stored as [observation, chain, dim] and re-labelled with permuted_axes (same logical content in every case)
static LAYOUT: std::sync::atomic::AtomicUsize = std::sync::atomic::AtomicUsize::new(0);

fn array3<T: Cell>(shape: &[usize], bits: &[u64]) -> Array3<T> {
    use ndarray::ShapeBuilder;
    let a = Array3::from_shape_vec((shape[0], shape[1], shape[2]), bits.iter().map(|b| T::of_bits(*b)).collect::<Vec<T>>()).unwrap();
    match LAYOUT.load(std::sync::atomic::Ordering::Relaxed) {
        1 => Array3::from_shape_fn((shape[0], shape[1], shape[2]).f(), |(i, j, k)| a[[i, j, k]]),
        2 => a.permuted_axes([1, 0, 2]).as_standard_layout().to_owned().permuted_axes([1, 0, 2]),
        _ => a,
    }
}

fn path_for(c: &Value) -> String {
    if let Some(p) = c["path"].as_str() {
        return p.to_string();
    }
    let dir = "/verif/.cache/tmp_export";
    std::fs::create_dir_all(dir).unwrap();
    format!("{}/f_{}_{}.dat", dir, std::process::id(), c["id"].as_u64().unwrap_or(0))
}

fn finish(res: Result<(), Box<dyn std::error::Error>>, path: &str, read: impl FnOnce(&str) -> Value, keep: bool) -> Value {
    match res {
        Ok(()) if keep => json!({"ok": true, "file_exists": std::path::Path::new(path).exists()}), // error-path case: never read back
        Ok(()) => {
            let mut v = read(path);
            v["ok"] = json!(true);
            if !keep {
                let _ = std::fs::remove_file(path);
            }
            v
        }
        Err(e) => json!({"ok": false, "err": format!("{e}"), "file_exists": std::path::Path::new(path).exists()}),
    }
}

pub fn run(c: &Value) -> Value {
    let shape: Vec<usize> = arr(c, "shape").iter().map(|x| x.as_u64().unwrap() as usize).collect();
    let bits = u64s(&c["bits"]);
    let path = path_for(c);
    let p = path.as_str();
    let keep = c["path"].is_string();
    LAYOUT.store(match c["layout"].as_str() { Some("fortran") => 1, Some("permuted") => 2, _ => 0 }, std::sync::atomic::Ordering::Relaxed);
    match (strf(c, "fmt"), strf(c, "ty")) {
        ("csv", "f32") => finish(save_csv(&array3::<f32>(&shape, &bits), p), p, read_csv::<f32>, keep),
        ("csv", "f64") => finish(save_csv(&array3::<f64>(&shape, &bits), p), p, read_csv::<f64>, keep),
        ("csv", "i32") => finish(save_csv(&array3::<i32>(&shape, &bits), p), p, read_csv::<i32>, keep),
        ("csv", "usize") => finish(save_csv(&array3::<usize>(&shape, &bits), p), p, read_csv::<usize>, keep),
        ("arrow", "f32") => finish(save_arrow(&array3::<f32>(&shape, &bits), p), p, read_arrow, keep),
        ("arrow", "f64") => finish(save_arrow(&array3::<f64>(&shape, &bits), p), p, read_arrow, keep),
        ("arrow", "i32") => finish(save_arrow(&array3::<i32>(&shape, &bits), p), p, read_arrow, keep),
        ("parquet", "f32") => finish(save_parquet(&array3::<f32>(&shape, &bits), p), p, read_parquet, keep),
        ("parquet", "f64") => finish(save_parquet(&array3::<f64>(&shape, &bits), p), p, read_parquet, keep),
        ("parquet", "i32") => finish(save_parquet(&array3::<i32>(&shape, &bits), p), p, read_parquet, keep),
        ("csv_tensor", "f32") => {
            let data: Vec<f32> = bits.iter().map(|b| f32::of_bits(*b)).collect();
            let t = Tensor::<NdArray<f32>, 3>::from_data(TensorData::new(data, [shape[0], shape[1], shape[2]]), &Default::default());
            finish(save_csv_tensor(t, p), p, read_csv::<f32>, keep)
        }
        ("csv_tensor", "f64") => {
            let data: Vec<f64> = bits.iter().map(|b| f64::of_bits(*b)).collect();
            let t = Tensor::<NdArray<f64>, 3>::from_data(TensorData::new(data, [shape[0], shape[1], shape[2]]), &Default::default());
            finish(save_csv_tensor(t, p), p, read_csv::<f64>, keep)
        }
        ("parquet_tensor", "f32") => {
            let data: Vec<f32> = bits.iter().map(|b| f32::of_bits(*b)).collect();
            let t = Tensor::<NdArray<f32>, 3>::from_data(TensorData::new(data, [shape[0], shape[1], shape[2]]), &Default::default());
            finish(save_parquet_tensor::<NdArray<f32>, _, f32>(&t, p), p, read_parquet, keep)
        }
        ("parquet_tensor", "f64") => {
            let data: Vec<f64> = bits.iter().map(|b| f64::of_bits(*b)).collect();
            let t = Tensor::<NdArray<f64>, 3>::from_data(TensorData::new(data, [shape[0], shape[1], shape[2]]), &Default::default());
            finish(save_parquet_tensor::<NdArray<f64>, _, f64>(&t, p), p, read_parquet, keep)
        }
        (f, t) => panic!("unknown fmt/ty {f}/{t}"),
    }
}
