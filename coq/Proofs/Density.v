(* Proofs about Model/Density.v at the real-number instance dnumR: documented log-density forms,
   gradients (Coquelicot is_derive), the isotropic proposal density. *)
From MiniMcmc Require Import Model.Density.
From Coq Require Import Reals Lra Lia.
From Coquelicot Require Import Coquelicot.
Open Scope R_scope.

Ltac dexpose :=
  unfold g2_logp, g2_unnorm, g2_quad, dg_logp, dg_grad, dg_inv, dg_norm_const,
    rb2_logp, rb2_grad, normal_logpdf, iso_unnorm,
    Density.neg, Density.sq, Density.half, Density.c1, Density.c2, Density.z0;
  cbn [dnumR tnumR dn tT tadd tsub tmul tdiv tofZ tln texp tsqrt dpi dabs fst snd].

(* ---- (1) normalised vs unnormalised 2-D Gaussian ---- *)
Lemma g2_norm_vs_unnorm : forall m0 m1 a b c d x0 x1 : R,
  g2_logp dnumR m0 m1 a b c d x0 x1 - g2_unnorm dnumR m0 m1 a b c d x0 x1
  = - ln (2 * PI) - / 2 * ln (Rabs (a * d - b * c)).
Proof. intros. dexpose. lra. Qed.

(* ---- (2) DiffableGaussian2D = Gaussian2D ---- *)
Lemma dg_is_g2 : forall m0 m1 a b c d x0 x1 : R,
  0 < a * d - b * c ->
  dg_logp dnumR m0 m1 a b c d x0 x1 = g2_logp dnumR m0 m1 a b c d x0 x1.
Proof.
  intros m0 m1 a b c d x0 x1 Hdet. dexpose.
  rewrite (Rabs_pos_eq (a * d - b * c)) by lra.
  field. lra.
Qed.

(* ---- (3) textbook form ---- *)
Lemma g2_textbook : forall m0 m1 a b d x0 x1 : R,
  0 < a * d - b * b ->
  g2_logp dnumR m0 m1 a b b d x0 x1
  = - ln (2 * PI) - / 2 * ln (a * d - b * b)
    - / 2 * ((d * (x0 - m0) ^ 2 - 2 * b * (x0 - m0) * (x1 - m1) + a * (x1 - m1) ^ 2)
             / (a * d - b * b)).
Proof.
  intros m0 m1 a b d x0 x1 Hdet. dexpose.
  rewrite (Rabs_pos_eq (a * d - b * b)) by lra.
  field. lra.
Qed.

(* ---- (4) gradients ---- *)
Lemma dg_grad_fst : forall m0 m1 a b c d x0 x1 : R,
  a * d - b * c <> 0 ->
  is_derive (fun t => dg_logp dnumR m0 m1 a b c d t x1) x0
            (fst (dg_grad dnumR m0 m1 a b c d x0 x1)).
Proof.
  intros m0 m1 a b c d x0 x1 Hdet. dexpose.
  auto_derive.
  - repeat split; assumption || exact I.
  - field. exact Hdet.
Qed.

Lemma dg_grad_snd : forall m0 m1 a b c d x0 x1 : R,
  a * d - b * c <> 0 ->
  is_derive (fun t => dg_logp dnumR m0 m1 a b c d x0 t) x1
            (snd (dg_grad dnumR m0 m1 a b c d x0 x1)).
Proof.
  intros m0 m1 a b c d x0 x1 Hdet. dexpose.
  auto_derive.
  - repeat split; assumption || exact I.
  - field. exact Hdet.
Qed.

Lemma rb2_grad_fst : forall a b x y : R,
  is_derive (fun t => rb2_logp dnumR a b t y) x (fst (rb2_grad dnumR a b x y)).
Proof.
  intros a b x y. dexpose.
  auto_derive.
  - exact I.
  - ring.
Qed.

Lemma rb2_grad_snd : forall a b x y : R,
  is_derive (fun t => rb2_logp dnumR a b x t) y (snd (rb2_grad dnumR a b x y)).
Proof.
  intros a b x y. dexpose.
  auto_derive.
  - exact I.
  - ring.
Qed.

(* Rosenbrock: documented closed forms; the N-D form at n = 2 is the 2-D form with a = 1, b = 100 *)
Lemma rb2_form : forall a b x y : R,
  rb2_logp dnumR a b x y = - ((a - x) ^ 2 + b * (y - x ^ 2) ^ 2).
Proof. intros. dexpose. ring. Qed.

Lemma rbn_form2 : forall x y : R, rbn_logp dnumR [x; y] = rb2_logp dnumR 1 100 x y.
Proof. intros. unfold rbn_logp, rbn_sum. dexpose. ring. Qed.

Lemma rbn_form3 : forall x y z : R,
  rbn_logp dnumR [x; y; z]
  = - ((100 * (y - x ^ 2) ^ 2 + (1 - x) ^ 2) + (100 * (z - y ^ 2) ^ 2 + (1 - y) ^ 2)).
Proof. intros. unfold rbn_logp, rbn_sum. dexpose. ring. Qed.

(* gradient of the 3-dimensional N-D Rosenbrock log-density (textbook partial derivatives) *)
Lemma rbn3_grad : forall x y z : R,
  is_derive (fun t => rbn_logp dnumR [t; y; z]) x (400 * x * (y - x * x) + 2 * (1 - x)) /\
  is_derive (fun t => rbn_logp dnumR [x; t; z]) y
            (- 200 * (y - x * x) + 400 * y * (z - y * y) + 2 * (1 - y)) /\
  is_derive (fun t => rbn_logp dnumR [x; y; t]) z (- 200 * (z - y * y)).
Proof.
  intros x y z. unfold rbn_logp, rbn_sum. dexpose.
  split; [|split]; (auto_derive; [exact I | ring]).
Qed.

(* ---- (5) isotropic Gaussian proposal ---- *)
Lemma fold_left_add_shift : forall (A : Type) (g : A -> R) (l : list A) (acc : R),
  fold_left (fun a x => a + g x) l acc = acc + fold_left (fun a x => a + g x) l 0.
Proof.
  intros A g l. induction l as [|x l IH]; intros acc; simpl.
  - lra.
  - rewrite (IH (acc + g x)), (IH (0 + g x)). lra.
Qed.

Definition eterm (sigma : R) (ft : R * R) : R :=
  (0 - (snd ft - fst ft) * (snd ft - fst ft)) / (2 * (sigma * sigma)).

Lemma iso_exps_R : forall (sigma : R) (from to : list R),
  @eq R (iso_exps dnumR sigma from to)
    (fold_left (fun a ft => a + eterm sigma ft) (combine from to) 0).
Proof. reflexivity. Qed.

Lemma iso_spec_R : forall (sigma : R) (from to : list R),
  @eq R (iso_logp_spec dnumR sigma from to)
    (fold_left (fun a ft => a + (eterm sigma ft - 1 / 2 * ln (2 * PI * (sigma * sigma))))
               (combine from to) 0).
Proof. reflexivity. Qed.

Lemma fold_sub_const : forall (A : Type) (g : A -> R) (k : R) (l : list A),
  fold_left (fun a x => a + (g x - k)) l 0
  = fold_left (fun a x => a + g x) l 0 - IZR (Z.of_nat (length l)) * k.
Proof.
  intros A g k l. induction l as [|x l IH].
  - simpl. lra.
  - cbn [fold_left length].
    rewrite (fold_left_add_shift A (fun x => g x - k)), (fold_left_add_shift A g), IH.
    rewrite Nat2Z.inj_succ, succ_IZR. ring.
Qed.

(* no hypothesis on sigma: with sigma = 0 both sides contain the same quotients x / 0 *)
Lemma iso_logp_is_spec : forall (sigma : R) (from to : list R),
  length from = length to ->
  iso_logp dnumR sigma from to = iso_logp_spec dnumR sigma from to.
Proof.
  intros sigma from to Hlen.
  rewrite iso_spec_R. unfold iso_logp. rewrite iso_exps_R.
  rewrite (fold_sub_const (R * R) (eterm sigma) _ (@combine R R from to)).
  assert (Hc : length (combine from to) = length from)
    by (rewrite combine_length, <- Hlen; apply Nat.min_id).
  rewrite Hc. dexpose. ring.
Qed.

Lemma iso_exps_sym : forall (sigma : R) (from to : list R),
  @eq R (iso_exps dnumR sigma from to) (iso_exps dnumR sigma to from).
Proof.
  intros sigma from to. rewrite !iso_exps_R. revert to.
  induction from as [|f from IH]; intros [|t to]; try reflexivity.
  cbn [combine fold_left].
  rewrite (fold_left_add_shift _ (eterm sigma) (combine from to)),
          (fold_left_add_shift _ (eterm sigma) (combine to from)), IH.
  unfold eterm, Rdiv. cbn [fst snd]. ring.
Qed.

Lemma iso_logp_sym : forall (sigma : R) (from to : list R),
  length from = length to ->
  iso_logp dnumR sigma from to = iso_logp dnumR sigma to from.
Proof.
  intros sigma from to Hlen. unfold iso_logp.
  rewrite (iso_exps_sym sigma from to).
  change (tT (dn dnumR)) with R. rewrite Hlen. reflexivity.
Qed.

Lemma iso_unnorm_form : forall (sigma : R) (xs : list R),
  iso_unnorm dnumR sigma xs
  = - / 2 * (fold_left (fun acc x => acc + x * x) xs 0) / (sigma * sigma).
Proof. intros. dexpose. unfold Rdiv. ring. Qed.

Lemma iso_exps_origin : forall (sigma : R) (xs : list R), sigma <> 0 ->
  iso_exps dnumR sigma (map (fun _ => 0) xs) xs
  = - / 2 * (fold_left (fun acc x => acc + x * x) xs 0) / (sigma * sigma).
Proof.
  intros sigma xs Hs. rewrite iso_exps_R. change (tT (dn dnumR)) with R.
  induction xs as [|x xs IH].
  - simpl. field. exact Hs.
  - cbn [map combine fold_left].
    rewrite (fold_left_add_shift _ (eterm sigma)), IH.
    rewrite (fold_left_add_shift _ (fun x => x * x) xs (0 + x * x)).
    unfold eterm. cbn [fst snd]. field. exact Hs.
Qed.

Lemma iso_logp_vs_unnorm : forall (sigma : R) (xs : list R), sigma <> 0 ->
  iso_logp dnumR sigma (map (fun _ => 0) xs) xs - iso_unnorm dnumR sigma xs
  = - IZR (Z.of_nat (length xs)) * / 2 * ln (2 * PI * (sigma * sigma)).
Proof.
  intros sigma xs Hs. unfold iso_logp.
  rewrite (iso_exps_origin sigma xs Hs), iso_unnorm_form, map_length.
  dexpose. field. exact Hs.
Qed.

(* the univariate normal log-density in textbook form *)
Lemma normal_logpdf_form : forall mu sigma x : R, sigma <> 0 ->
  normal_logpdf dnumR mu sigma x
  = - (x - mu) ^ 2 / (2 * sigma ^ 2) - / 2 * ln (2 * PI * sigma ^ 2).
Proof.
  intros mu sigma x Hs. dexpose.
  replace (sigma ^ 2) with (sigma * sigma) by ring. field. exact Hs.
Qed.

(* ---- (6) the pre-repair constant ---- *)
Lemma iso_old_refuted :
  iso_logp_old dnumR 2 (0 :: nil) (0 :: nil) <> iso_logp_spec dnumR 2 (0 :: nil) (0 :: nil).
Proof.
  unfold iso_logp_old, iso_logp_spec, iso_exps. dexpose.
  cbn [combine fold_left length Z.of_nat Pos.of_succ_nat fst snd].
  intros H.
  assert (Hln : ln (2 * 2 * PI * 2 * 2) = ln (2 * PI * (2 * 2))) by lra.
  pose proof PI_RGT_0 as Hpi.
  apply ln_inv in Hln; lra.
Qed.

Lemma iso_old_refuted_ex : exists (sigma : R) (from to : list R),
  sigma <> 0 /\ length from = length to /\
  iso_logp_old dnumR sigma from to <> iso_logp_spec dnumR sigma from to.
Proof.
  exists 2, (0 :: nil), (0 :: nil). split; [lra|]. split; [reflexivity|]. exact iso_old_refuted.
Qed.
