(* Proofs about the executable find_reasonable_epsilon model (Model/FindEps.v):
   (1) at numR with lnhalf = ln(1/2) it IS Model.DualAvg.find_eps;
   (2) what find_eps returns: direction decided by lap 1, first failing point of the grid 1/2 * 2^(+-k), k >= 1;
   (3) bracket soundness of the rational evaluation: if the runs with a rational lower and a rational
       upper bound of ln(1/2) return the same value, the real model returns that value;
   (4) the constants lnhalf_lo / lnhalf_hi do bracket ln(1/2);
   (5) lap_gauss commutes with Q2R. *)
From MiniMcmc Require Import Base.Num Model.DualAvg Model.FindEps Proofs.DualAvg Proofs.Q2R.
From Coq Require Import Reals Qreals Lra Lia List.
From Interval Require Import Interval Xreal.
Close Scope Q_scope.
Open Scope R_scope.

(* ------------------------------------------------------------------ (1) numR instance = model *)

Lemma cond_R (lh : R) (up : bool) (l : R) :
  cond numR lh up l = if up then (if Rlt_dec lh l then true else false)
                      else (if Rlt_dec l lh then true else false).
Proof. reflexivity. Qed.

Lemma scale_R_up (x : R) : scale numR true x = x * 2.
Proof. reflexivity. Qed.

Lemma scale_R_down (x : R) : scale numR false x = x / 2.
Proof. reflexivity. Qed.

Lemma halfK_R : halfK numR = 1 / 2.
Proof. reflexivity. Qed.

Ltac case_Rlt :=
  repeat match goal with
         | |- context [Rlt_dec ?a ?b] => destruct (Rlt_dec a b)
         | H : context [Rlt_dec ?a ?b] |- _ => destruct (Rlt_dec a b)
         end.

Lemma loop_gen_up_model (lap : R -> R) : forall (fuel : nat) (eps : R),
  loop_gen numR lap (ln (1 / 2)) fuel true eps = find_loop lap fuel 1 eps.
Proof.
  pose proof ln_half as Hl.
  induction fuel as [|f IH]; intro eps; [reflexivity|].
  cbn [loop_gen find_loop]. rewrite cond_R, scale_R_up, IH, Rpower_2_1.
  case_Rlt; try lra; reflexivity.
Qed.

Lemma loop_gen_down_model (lap : R -> R) : forall (fuel : nat) (eps : R),
  loop_gen numR lap (ln (1 / 2)) fuel false eps = find_loop lap fuel (-1) eps.
Proof.
  pose proof ln_half as Hl.
  induction fuel as [|f IH]; intro eps; [reflexivity|].
  cbn [loop_gen find_loop]. rewrite cond_R, scale_R_down, IH, Rpower_2_m1.
  replace (eps * (1 / 2)) with (eps / 2) by lra.
  case_Rlt; try lra; reflexivity.
Qed.

Theorem find_eps_gen_is_model : forall (lap : R -> R) (fuel : nat),
  find_eps_gen numR lap (ln (1 / 2)) fuel = find_eps lap fuel.
Proof.
  intros lap fuel. pose proof ln_half as Hl.
  unfold find_eps_gen, find_eps, direction. cbv zeta.
  change (one numR) with 1.
  change (nltb numR (ln (1 / 2)) (lap 1)) with (if Rlt_dec (ln (1 / 2)) (lap 1) then true else false).
  destruct (Rlt_dec (ln (1 / 2)) (lap 1)) as [Hd|Hd]; rewrite cond_R.
  - rewrite loop_gen_up_model, scale_R_up, halfK_R, Rpower_2_1.
    case_Rlt; try lra; reflexivity.
  - rewrite loop_gen_down_model, scale_R_down, halfK_R, Rpower_2_m1.
    replace (1 / 2 * (1 / 2)) with (1 / 2 / 2) by lra.
    case_Rlt; try lra; reflexivity.
Qed.

(* ------------------------------------------------------------------ (2) what find_eps returns *)

Theorem find_eps_direction : forall (lap : R -> R) (fuel : nat) (e : R),
  find_eps lap fuel = Some e ->
  (ln (1 / 2) < lap 1 ->
     exists k : nat, (1 <= k <= fuel)%nat /\ e = 1 / 2 * 2 ^ k /\ ~ (ln (1 / 2) < lap e) /\
       forall i : nat, (1 <= i < k)%nat -> ln (1 / 2) < lap (1 / 2 * 2 ^ i))
  /\ (lap 1 < ln (1 / 2) ->
     exists k : nat, (1 <= k <= fuel)%nat /\ e = 1 / 2 * (/ 2) ^ k /\ ~ (lap e < ln (1 / 2)) /\
       forall i : nat, (1 <= i < k)%nat -> lap (1 / 2 * (/ 2) ^ i) < ln (1 / 2))
  /\ (lap 1 = ln (1 / 2) -> e = 1 / 2).
Proof.
  intros lap fuel e H. pose proof ln_half as Hl.
  unfold find_eps, direction in H. cbv zeta in H.
  destruct (Rlt_dec (ln (1 / 2)) (lap 1)) as [Hd|Hd].
  - match type of H with context [Rlt_dec ?a ?b] => destruct (Rlt_dec a b) as [Hc|Hc] end; [|lra].
    split; [intros _ | split; intros; lra].
    apply find_loop_post in H. destruct H as (k & Hk & He & Hstop & Hall).
    rewrite Rpower_2_1 in *.
    exists (S k). split; [lia|]. split; [rewrite He; simpl; ring|]. split; [lra|].
    intros [|i] Hi; [lia|]. assert (Hi' : (i < k)%nat) by lia. specialize (Hall i Hi').
    replace (1 / 2 * 2 ^ S i) with (1 / 2 * 2 * 2 ^ i) by (simpl; ring). lra.
  - match type of H with context [Rlt_dec ?a ?b] => destruct (Rlt_dec a b) as [Hc|Hc] end.
    + split; [intros; lra|]. split; [intros _ | intros; lra].
      apply find_loop_post in H. destruct H as (k & Hk & He & Hstop & Hall).
      rewrite Rpower_2_m1 in *. replace (/ 2) with (1 / 2) by lra.
      exists (S k). split; [lia|]. split; [rewrite He; simpl; ring|]. split; [lra|].
      intros [|i] Hi; [lia|]. assert (Hi' : (i < k)%nat) by lia. specialize (Hall i Hi').
      replace (1 / 2 * (1 / 2) ^ S i) with (1 / 2 * (1 / 2) * (1 / 2) ^ i) by (simpl; ring). lra.
    + injection H as <-. split; [intros; lra|]. split; [intros; lra|]. reflexivity.
Qed.

(* ------------------------------------------------------------------ (3) bracket soundness *)

Lemma q2r_two : Q2R (two numQ) = 2.
Proof. unfold two. rewrite q2r_ofZ. reflexivity. Qed.

Lemma two_nz : ~ (two numQ == 0)%Q.
Proof. unfold two. cbn [ofZ numQ]. unfold Qeq. cbn. lia. Qed.

Lemma q2r_half : Q2R (halfK numQ) = 1 / 2.
Proof. unfold halfK. rewrite q2r_div by apply two_nz. rewrite q2r_one, q2r_two. reflexivity. Qed.

Lemma q2r_scale (up : bool) (e : Q) : Q2R (scale numQ up e) = scale numR up (Q2R e).
Proof.
  destruct up; cbn [scale].
  - rewrite q2r_mul, q2r_two. reflexivity.
  - rewrite q2r_div by apply two_nz. rewrite q2r_two. reflexivity.
Qed.

Lemma cond_Q (lh : Q) (up : bool) (l : Q) :
  cond numQ lh up l = if up then (if Rlt_dec (Q2R lh) (Q2R l) then true else false)
                      else (if Rlt_dec (Q2R l) (Q2R lh) then true else false).
Proof. destruct up; cbn [cond]; rewrite q2r_ltb; reflexivity. Qed.

(* the up loop only grows, the down loop only shrinks (and stays positive) *)
Lemma loop_gen_Q_range (lapQ : Q -> Q) (lh : Q) : forall (fuel : nat) (up : bool) (eps e : Q),
  0 < Q2R eps -> loop_gen numQ lapQ lh fuel up eps = Some e ->
  if up then Q2R eps <= Q2R e else 0 < Q2R e <= Q2R eps.
Proof.
  induction fuel as [|f IH]; intros up eps e Hp H; [discriminate|].
  cbn [loop_gen] in H. destruct (cond numQ lh up (lapQ eps)).
  - apply IH in H.
    + rewrite q2r_scale in H. destruct up; [rewrite scale_R_up in H | rewrite scale_R_down in H]; lra.
    + rewrite q2r_scale. destruct up; [rewrite scale_R_up | rewrite scale_R_down]; lra.
  - injection H as <-. destruct up; lra.
Qed.

Section Bracket.
  Variable lapQ : Q -> Q.
  Variable lapR : R -> R.
  Variables lo hi : Q.
  Hypothesis Hlap : forall q : Q, lapR (Q2R q) = Q2R (lapQ q).
  Hypothesis Hb : Q2R lo < ln (1 / 2) < Q2R hi.

  Lemma loop_gen_bracket : forall (fuel : nat) (up : bool) (eps e1 e2 : Q),
    0 < Q2R eps ->
    loop_gen numQ lapQ lo fuel up eps = Some e1 ->
    loop_gen numQ lapQ hi fuel up eps = Some e2 ->
    Q2R e1 = Q2R e2 ->
    loop_gen numR lapR (ln (1 / 2)) fuel up (Q2R eps) = Some (Q2R e1).
  Proof.
    induction fuel as [|f IH]; intros up eps e1 e2 Hp H1 H2 He; [discriminate|].
    cbn [loop_gen] in *. rewrite Hlap, cond_R. rewrite cond_Q in H1, H2.
    assert (Hps : 0 < Q2R (scale numQ up eps)).
    { rewrite q2r_scale. destruct up; [rewrite scale_R_up | rewrite scale_R_down]; lra. }
    destruct up.
    - destruct (Rlt_dec (Q2R lo) (Q2R (lapQ eps))) as [a|a];
      destruct (Rlt_dec (Q2R hi) (Q2R (lapQ eps))) as [b|b]; try lra.
      + destruct (Rlt_dec (ln (1 / 2)) (Q2R (lapQ eps))) as [c|c]; [|lra].
        rewrite <- q2r_scale. exact (IH true _ e1 e2 Hps H1 H2 He).
      + exfalso. injection H2 as <-.
        apply loop_gen_Q_range in H1; [|exact Hps].
        cbv beta iota in H1. rewrite q2r_scale, scale_R_up in H1. lra.
      + destruct (Rlt_dec (ln (1 / 2)) (Q2R (lapQ eps))) as [c|c]; [lra|].
        injection H1 as <-. reflexivity.
    - destruct (Rlt_dec (Q2R (lapQ eps)) (Q2R lo)) as [a|a];
      destruct (Rlt_dec (Q2R (lapQ eps)) (Q2R hi)) as [b|b]; try lra.
      + destruct (Rlt_dec (Q2R (lapQ eps)) (ln (1 / 2))) as [c|c]; [|lra].
        rewrite <- q2r_scale. exact (IH false _ e1 e2 Hps H1 H2 He).
      + exfalso. injection H1 as <-.
        apply loop_gen_Q_range in H2; [|exact Hps].
        cbv beta iota in H2. rewrite q2r_scale, scale_R_down in H2. lra.
      + destruct (Rlt_dec (Q2R (lapQ eps)) (ln (1 / 2))) as [c|c]; [lra|].
        injection H1 as <-. reflexivity.
  Qed.

  (* general form: the two rational answers need only denote the same real *)
  Lemma find_eps_gen_bracket : forall (fuel : nat) (e1 e2 : Q),
    find_eps_gen numQ lapQ lo fuel = Some e1 ->
    find_eps_gen numQ lapQ hi fuel = Some e2 ->
    Q2R e1 = Q2R e2 ->
    find_eps_gen numR lapR (ln (1 / 2)) fuel = Some (Q2R e1).
  Proof.
    intros fuel e1 e2 H1 H2 He.
    unfold find_eps_gen in *. cbv zeta in *.
    replace (lapR (one numR)) with (Q2R (lapQ (one numQ)))
      by (rewrite <- Hlap, q2r_one; reflexivity).
    rewrite q2r_ltb, cond_Q in H1, H2. rewrite cond_R.
    change (nltb numR (ln (1 / 2)) (Q2R (lapQ (one numQ))))
      with (if Rlt_dec (ln (1 / 2)) (Q2R (lapQ (one numQ))) then true else false).
    change (nltb numR (Q2R lo) (Q2R (lapQ (one numQ))))
      with (if Rlt_dec (Q2R lo) (Q2R (lapQ (one numQ))) then true else false) in H1.
    change (nltb numR (Q2R hi) (Q2R (lapQ (one numQ))))
      with (if Rlt_dec (Q2R hi) (Q2R (lapQ (one numQ))) then true else false) in H2.
    set (l1 := Q2R (lapQ (one numQ))) in *.
    pose proof q2r_half as Hh.
    assert (Hup : Q2R (scale numQ true (halfK numQ)) = 1).
    { rewrite q2r_scale, scale_R_up, Hh. lra. }
    assert (Hdn : Q2R (scale numQ false (halfK numQ)) = 1 / 4).
    { rewrite q2r_scale, scale_R_down, Hh. lra. }
    destruct (Rlt_dec (Q2R lo) l1) as [a|a]; destruct (Rlt_dec (Q2R hi) l1) as [b|b]; try lra.
    - (* both up *)
      destruct (Rlt_dec (ln (1 / 2)) l1) as [c|c]; [|lra].
      destruct (Rlt_dec (ln (1 / 2)) l1) as [c'|c']; [|lra].
      replace (scale numR true (halfK numR)) with (Q2R (scale numQ true (halfK numQ)))
        by (rewrite q2r_scale, Hh; reflexivity).
      apply loop_gen_bracket with e2; try assumption. lra.
    - (* lo run goes up, hi run does not: answers differ *)
      exfalso. apply loop_gen_Q_range in H1; [|lra]. cbv beta iota in H1.
      destruct (Rlt_dec l1 (Q2R hi)) as [d|d].
      + apply loop_gen_Q_range in H2; [|lra]. cbv beta iota in H2. lra.
      + injection H2 as <-. lra.
    - (* neither goes up *)
      destruct (Rlt_dec l1 (Q2R lo)) as [d|d]; destruct (Rlt_dec l1 (Q2R hi)) as [d'|d']; try lra.
      + destruct (Rlt_dec (ln (1 / 2)) l1) as [c|c]; [lra|].
        destruct (Rlt_dec l1 (ln (1 / 2))) as [c'|c']; [|lra].
        replace (scale numR false (halfK numR)) with (Q2R (scale numQ false (halfK numQ)))
          by (rewrite q2r_scale, Hh; reflexivity).
        apply loop_gen_bracket with e2; try assumption. lra.
      + exfalso. injection H1 as <-.
        apply loop_gen_Q_range in H2; [|lra]. cbv beta iota in H2. lra.
  Qed.

  Theorem find_eps_bracket : forall (fuel : nat) (e : Q),
    find_eps_gen numQ lapQ lo fuel = Some e ->
    find_eps_gen numQ lapQ hi fuel = Some e ->
    find_eps lapR fuel = Some (Q2R e).
  Proof.
    intros fuel e H1 H2. rewrite <- find_eps_gen_is_model.
    exact (find_eps_gen_bracket fuel e e H1 H2 eq_refl).
  Qed.
End Bracket.

(* ------------------------------------------------------------------ (4) the rational bounds *)

(* ln(1/2) - n/d enclosed by 80-bit interval arithmetic (Model.DualAvg.I, soundness lemmas c_* of
   Proofs/DualAvg.v); the sign of the enclosure decides the comparison.  (No Interval.Tactic: its library
   closure is very expensive for the stand-alone checker coqchk.) *)
Definition lnhalf_gap (n d : Z) : I.type :=
  I.sub iprec (I.ln iprec (I.div iprec (I.fromZ iprec 1) (I.fromZ iprec 2)))
              (I.div iprec (I.fromZ iprec n) (I.fromZ iprec d)).

Lemma lnhalf_gap_sound (n d : Z) : cont (lnhalf_gap n d) (ln (1 / 2) - IZR n / IZR d).
Proof. apply c_sub; [apply c_ln; apply c_div; apply c_ofZ | apply c_div; apply c_ofZ]. Qed.

Lemma lnhalf_gap_signs :
  I.sign_strict (lnhalf_gap (-6931471806) 10000000000) = Xgt /\
  I.sign_strict (lnhalf_gap (-6931471805) 10000000000) = Xlt.
Proof. vm_compute. split; reflexivity. Qed.

Theorem lnhalf_bounds : Q2R lnhalf_lo < ln (1 / 2) < Q2R lnhalf_hi.
Proof.
  unfold lnhalf_lo, lnhalf_hi, Q2R. cbn [Qnum Qden]. destruct lnhalf_gap_signs as [Hlo Hhi].
  pose proof (I.sign_strict_correct (lnhalf_gap (-6931471806) 10000000000)) as Slo.
  pose proof (I.sign_strict_correct (lnhalf_gap (-6931471805) 10000000000)) as Shi.
  rewrite Hlo in Slo. rewrite Hhi in Shi.
  destruct (Slo _ (lnhalf_gap_sound _ _)) as [_ Glo].
  destruct (Shi _ (lnhalf_gap_sound _ _)) as [_ Ghi].
  cbn [proj_val] in Glo, Ghi. unfold Rdiv in *. lra.
Qed.

(* ------------------------------------------------------------------ (5) lap_gauss commutes with Q2R *)

Notation mQ2R := (map Q2R).

Lemma ofZ2_nz : ~ (ofZ numQ 2 == 0)%Q.
Proof. exact two_nz. Qed.

Lemma q2r_halfc : Q2R (div numQ (one numQ) (ofZ numQ 2)) = div numR (one numR) (ofZ numR 2).
Proof. rewrite q2r_div by apply ofZ2_nz. rewrite q2r_one, q2r_ofZ. reflexivity. Qed.

Lemma q2r_vadd : forall a b : list Q, mQ2R (vadd numQ a b) = vadd numR (mQ2R a) (mQ2R b).
Proof.
  unfold vadd. induction a as [|x a IH]; intros [|y b]; try reflexivity.
  cbn [combine map fst snd]. rewrite q2r_add. rewrite IH. reflexivity.
Qed.

Lemma q2r_vscale (c : Q) : forall a : list Q, mQ2R (vscale numQ c a) = vscale numR (Q2R c) (mQ2R a).
Proof.
  unfold vscale. induction a as [|x a IH]; [reflexivity|].
  cbn [map]. rewrite q2r_mul. rewrite IH. reflexivity.
Qed.

Lemma q2r_vdot : forall a b : list Q, Q2R (vdot numQ a b) = vdot numR (mQ2R a) (mQ2R b).
Proof.
  unfold vdot. induction a as [|x a IH]; intros [|y b]; try apply q2r_zero.
  cbn [combine map fold_right fst snd]. rewrite q2r_add, q2r_mul. rewrite IH. reflexivity.
Qed.

Lemma q2r_rowdot (r x : list Q) : Q2R (rowdot numQ r x) = rowdot numR (mQ2R r) (mQ2R x).
Proof. exact (q2r_vdot r x). Qed.

Lemma q2r_matvec (x : list Q) : forall A : list (list Q),
  mQ2R (matvec numQ A x) = matvec numR (map mQ2R A) (mQ2R x).
Proof.
  unfold matvec. induction A as [|r A IH]; [reflexivity|].
  cbn [map]. rewrite q2r_rowdot. rewrite IH. reflexivity.
Qed.

Lemma q2r_transpose_n (n : nat) (A : list (list Q)) :
  map mQ2R (transpose_n numQ n A) = transpose_n numR n (map mQ2R A).
Proof.
  unfold transpose_n. rewrite map_map. apply map_ext. intro j.
  rewrite !map_map. apply map_ext. intro r.
  rewrite <- q2r_zero. symmetry. apply map_nth.
Qed.

Lemma q2r_prec_logp (A : list (list Q)) (x : list Q) :
  Q2R (prec_logp numQ A x) = prec_logp numR (map mQ2R A) (mQ2R x).
Proof.
  unfold prec_logp.
  rewrite q2r_sub, q2r_mul, q2r_halfc, q2r_zero, q2r_rowdot, q2r_matvec. reflexivity.
Qed.

Lemma q2r_halfsum : forall l l0 : list Q,
  mQ2R (map (fun ab : Q * Q => sub numQ (zero numQ)
               (mul numQ (add numQ (fst ab) (snd ab)) (div numQ (one numQ) (ofZ numQ 2))))
            (combine l l0))
  = map (fun ab : R * R => sub numR (zero numR)
               (mul numR (add numR (fst ab) (snd ab)) (div numR (one numR) (ofZ numR 2))))
        (combine (mQ2R l) (mQ2R l0)).
Proof.
  induction l as [|u l IH]; intros [|v l0]; try reflexivity.
  cbn [combine map fst snd].
  rewrite q2r_sub, q2r_mul, q2r_add, q2r_halfc, q2r_zero. rewrite IH. reflexivity.
Qed.

Lemma q2r_prec_grad (A : list (list Q)) (x : list Q) :
  mQ2R (prec_grad numQ A x) = prec_grad numR (map mQ2R A) (mQ2R x).
Proof.
  unfold prec_grad. cbv zeta. rewrite map_length.
  rewrite <- q2r_transpose_n, <- !q2r_matvec. apply q2r_halfsum.
Qed.

Section LeapHom.
  Variable logpQ : list Q -> Q.
  Variable logpR : list R -> R.
  Variable gradQ : list Q -> list Q.
  Variable gradR : list R -> list R.
  Hypothesis Hlogp : forall x : list Q, Q2R (logpQ x) = logpR (mQ2R x).
  Hypothesis Hgrad : forall x : list Q, mQ2R (gradQ x) = gradR (mQ2R x).

  Lemma q2r_half_eps (e : Q) : Q2R (half_eps numQ e) = half_eps numR (Q2R e).
  Proof. unfold half_eps. rewrite q2r_mul, q2r_halfc. reflexivity. Qed.

  Lemma q2r_leap1 (e : Q) (x p : list Q) :
    leap1 numR gradR (Q2R e) (mQ2R x, mQ2R p)
    = (mQ2R (fst (leap1 numQ gradQ e (x, p))), mQ2R (snd (leap1 numQ gradQ e (x, p)))).
  Proof.
    unfold leap1. cbv zeta. cbn [fst snd].
    rewrite !q2r_vadd, !q2r_vscale, !q2r_half_eps, !Hgrad, !q2r_vadd, !q2r_vscale, !q2r_vadd,
            !q2r_vscale, !q2r_half_eps, !Hgrad.
    reflexivity.
  Qed.

  Lemma q2r_kinetic (p : list Q) : Q2R (kinetic numQ p) = kinetic numR (mQ2R p).
  Proof. unfold kinetic. rewrite q2r_mul, q2r_halfc, q2r_vdot. reflexivity. Qed.

  Lemma q2r_hamiltonian (z : list Q * list Q) :
    Q2R (hamiltonian numQ logpQ z) = hamiltonian numR logpR (mQ2R (fst z), mQ2R (snd z)).
  Proof.
    unfold hamiltonian. cbn [fst snd].
    rewrite q2r_add, q2r_sub, q2r_zero, q2r_kinetic, Hlogp. reflexivity.
  Qed.
End LeapHom.

Theorem q2r_lap_gauss : forall (A : list (list Q)) (x p : list Q) (q : Q),
  lap_gauss numR (map (map Q2R) A) (map Q2R x) (map Q2R p) (Q2R q)
  = Q2R (lap_gauss numQ A x p q).
Proof.
  intros A x p q. unfold lap_gauss. cbv zeta.
  rewrite (q2r_leap1 (prec_grad numQ A) (prec_grad numR (map mQ2R A)) (q2r_prec_grad A)).
  rewrite q2r_sub.
  rewrite !(q2r_hamiltonian (prec_logp numQ A) (prec_logp numR (map mQ2R A)) (q2r_prec_logp A)).
  reflexivity.
Qed.

(* the in-Coq evaluation of find_reasonable_epsilon on the Gaussian-precision target is sound:
   when the runs under the two rational bounds of ln(1/2) agree, the real model returns that value *)
Theorem find_eps_gauss_sound : forall (A : list (list Q)) (x p : list Q) (fuel : nat) (e : Q),
  find_eps_gen numQ (lap_gauss numQ A x p) lnhalf_lo fuel = Some e ->
  find_eps_gen numQ (lap_gauss numQ A x p) lnhalf_hi fuel = Some e ->
  find_eps (lap_gauss numR (map (map Q2R) A) (map Q2R x) (map Q2R p)) fuel = Some (Q2R e).
Proof.
  intros A x p fuel e H1 H2.
  apply (find_eps_bracket (lap_gauss numQ A x p) _ lnhalf_lo lnhalf_hi); try assumption.
  - intro q. apply q2r_lap_gauss.
  - exact lnhalf_bounds.
Qed.

(* ... and in terms of what the evaluation prints (numerator, denominator under each bound; an
   out-of-fuel run prints -1/1, which no positive e does) *)
Lemma qout_eq_q2r (e' e : Q) : qout e' = qout e -> Q2R e' = Q2R e.
Proof.
  unfold qout. cbv zeta. intro H. injection H as Hn Hd.
  rewrite <- (q2r_red e'), <- (q2r_red e).
  destruct (Qred e') as [n' d'], (Qred e) as [n d]. cbn [Qnum Qden] in *.
  subst. reflexivity.
Qed.

Lemma oq_eq_q2r (o : option Q) (e : Q) :
  oq o = qout e -> 0 < Q2R e -> exists e' : Q, o = Some e' /\ Q2R e' = Q2R e.
Proof.
  intros H Hp. destruct o as [e'|].
  - exists e'. split; [reflexivity|]. apply qout_eq_q2r. exact H.
  - exfalso. cbn [oq] in H. unfold qout in H. cbv zeta in H. injection H as Hn Hd.
    rewrite <- (q2r_red e) in Hp. destruct (Qred e) as [n d]. cbn [Qnum Qden] in *.
    subst. unfold Q2R in Hp. cbn [Qnum Qden] in Hp. lra.
Qed.

Lemma oq2_inv (o1 o2 : option Q) (e : Q) :
  oq o1 ++ oq o2 = qout e ++ qout e -> 0 < Q2R e ->
  exists e1 e2 : Q, o1 = Some e1 /\ o2 = Some e2 /\ Q2R e1 = Q2R e /\ Q2R e2 = Q2R e.
Proof.
  intros H Hp.
  assert (Hsplit : forall a b c : list Z, length a = 2%nat -> length c = 2%nat ->
            a ++ b = c ++ c -> a = c /\ b = c).
  { intros [|a0 [|a1 [|]]] b [|c0 [|c1 [|]]]; try discriminate. intros _ _ E.
    cbn in E. injection E as -> -> ->. split; reflexivity. }
  assert (Hlen : forall o, length (oq o) = 2%nat) by (intros [q|]; reflexivity).
  apply Hsplit in H; [|apply Hlen|reflexivity]. destruct H as [H1 H2].
  apply oq_eq_q2r in H1; [|exact Hp]. apply oq_eq_q2r in H2; [|exact Hp].
  destruct H1 as (e1 & H1 & He1). destruct H2 as (e2 & H2 & He2).
  exists e1, e2. repeat split; assumption.
Qed.

Lemma find_eps_eval_unfold (A : list (list Q)) (x p : list Q) :
  find_eps_eval A x p
  = oq (find_eps_gen numQ (lap_gauss numQ A x p) lnhalf_lo 40)
    ++ oq (find_eps_gen numQ (lap_gauss numQ A x p) lnhalf_hi 40).
Proof. reflexivity. Qed.

Theorem find_eps_eval_sound : forall (A : list (list Q)) (x p : list Q) (e : Q),
  find_eps_eval A x p = qout e ++ qout e -> 0 < Q2R e ->
  find_eps (lap_gauss numR (map (map Q2R) A) (map Q2R x) (map Q2R p)) 40 = Some (Q2R e).
Proof.
  intros A x p e H Hp. rewrite find_eps_eval_unfold in H.
  destruct (oq2_inv _ _ e H Hp) as (e1 & e2 & H1 & H2 & He1 & He2).
  rewrite <- find_eps_gen_is_model, <- He1.
  refine (find_eps_gen_bracket (lap_gauss numQ A x p)
            (lap_gauss numR (map (map Q2R) A) (map Q2R x) (map Q2R p)) lnhalf_lo lnhalf_hi
            (q2r_lap_gauss A x p) lnhalf_bounds 40 e1 e2 H1 H2 _).
  rewrite He1, He2. reflexivity.
Qed.
