//! C14 (MH part): targets with bounded support / NaN regions under Metropolis-Hastings.
use crate::util::*;
use mini_mcmc::core::MarkovChain;
use mini_mcmc::distributions::{IsotropicGaussian, Proposal, Target};
use mini_mcmc::metropolis_hastings::MHMarkovChain;
use serde_json::{json, Value};

#[derive(Clone)]
pub struct Support {
    pub kind: String,
}
impl Target<f64, f64> for Support {
    fn unnorm_logp(&self, x: &[f64]) -> f64 {
        match self.kind.as_str() {
            "halfline" => {
                if x[0] > 0.0 {
                    -x[0] - 0.5 * x[1..].iter().map(|v| v * v).sum::<f64>()
                } else {
                    f64::NEG_INFINITY
                }
            }
            "box" => {
                if x.iter().all(|v| v.abs() < 1.0) {
                    0.0
                } else {
                    f64::NEG_INFINITY
                }
            }
            "logdomain" => x[0].ln() - x[0] - 0.5 * x[1..].iter().map(|v| v * v).sum::<f64>(),
            "sqrtdomain" => (1.0 - x.iter().map(|v| v * v).sum::<f64>()).sqrt().ln(),
            k => panic!("unknown support {k}"),
        }
    }
}

/// a proposal that leaves the support with probability ~1/2 (large jumps), or returns non-finite candidates
#[derive(Clone)]
pub struct WildProposal {
    pub inner: IsotropicGaussian<f64>,
    pub wild_every: usize,
    pub count: usize,
}
impl Proposal<f64, f64> for WildProposal {
    fn sample(&mut self, current: &[f64]) -> Vec<f64> {
        self.count += 1;
        let mut y = self.inner.sample(current);
        if self.wild_every > 0 && self.count % self.wild_every == 0 {
            y[0] = match (self.count / self.wild_every) % 3 {
                0 => f64::NAN,
                1 => f64::INFINITY,
                _ => -1e300,
            };
        }
        y
    }
    fn logp(&self, from: &[f64], to: &[f64]) -> f64 {
        self.inner.logp(from, to)
    }
    fn set_seed(mut self, seed: u64) -> Self {
        self.inner = self.inner.set_seed(seed);
        self
    }
}

pub fn run(c: &Value) -> Value {
    let kind = strf(c, "support").to_string();
    let init: Vec<f64> = u64s(&c["init"]).into_iter().map(f64::from_bits).collect();
    let std = f64::from_bits(u64f(c, "std"));
    let k = us(c, "k");
    let prop = WildProposal { inner: IsotropicGaussian::new(std).set_seed(u64f(c, "seed")), wild_every: us(c, "wild_every"), count: 0 };
    let mut ch = MHMarkovChain::<f64, f64, _, _>::new(Support { kind }, prop, init);
    use rand::SeedableRng;
    ch.rng = rand::rngs::SmallRng::seed_from_u64(u64f(c, "seed") ^ 0xABCDEF);
    let mut states = vec![];
    let mut decisions = vec![];
    for _ in 0..k {
        // the values the step is about to use, from clones of the proposal (with its generator) and of the chain's generator
        let mut pc = ch.proposal.clone();
        let cand = pc.sample(&ch.current_state);
        let lp_x = ch.target.unnorm_logp(&ch.current_state);
        let lp_y = ch.target.unnorm_logp(&cand);
        let lq_f = ch.proposal.logp(&ch.current_state, &cand);
        let lq_b = ch.proposal.logp(&cand, &ch.current_state);
        let mut rc = ch.rng.clone();
        let u: f64 = rand::Rng::random(&mut rc);
        decisions.push(json!({"cand": cand.iter().map(|x| x.to_bits()).collect::<Vec<u64>>(),
            "lp_x": lp_x.to_bits(), "lp_y": lp_y.to_bits(), "lq_f": lq_f.to_bits(), "lq_b": lq_b.to_bits(), "lnu": u.ln().to_bits()}));
        let s = ch.step();
        states.push(s.iter().map(|x| x.to_bits()).collect::<Vec<u64>>());
    }
    json!({"states": states, "decisions": decisions})
}
