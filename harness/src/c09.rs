//! C09: run(): shape, chain order, burn-in discard, continuation.
use crate::util::*;
use mini_mcmc::core::{ChainRunner, HasChains, MarkovChain};
use serde_json::{json, Value};

#[derive(Clone)]
pub struct CountChain {
    pub state: Vec<i64>,
}
impl MarkovChain<i64> for CountChain {
    fn step(&mut self) -> &Vec<i64> {
        for (k, x) in self.state.iter_mut().enumerate() {
            *x = *x + k as i64 + 1;
        }
        &self.state
    }
    fn current_state(&self) -> &Vec<i64> {
        &self.state
    }
}
pub struct CountSampler {
    pub chains: Vec<CountChain>,
}
impl HasChains<i64> for CountSampler {
    type Chain = CountChain;
    fn chains_mut(&mut self) -> &mut Vec<CountChain> {
        &mut self.chains
    }
}

fn counting(c: &Value) -> Value {
    let init: Vec<Vec<i64>> = arr(c, "init").iter().map(i64s).collect();
    let mut s = CountSampler { chains: init.into_iter().map(|state| CountChain { state }).collect() };
    let mut flat: Vec<i64> = vec![];
    let mut shapes = vec![];
    for call in arr(c, "calls") {
        let n = call[0].as_u64().unwrap() as usize;
        let d = call[1].as_u64().unwrap() as usize;
        let out = s.run(n, d).expect("run");
        shapes.push(json!(out.shape()));
        flat.extend(out.iter().cloned());
    }
    for ch in &s.chains {
        flat.extend(ch.state.iter().cloned());
    }
    json!({"flat": flat, "shapes": shapes})
}

pub fn run(c: &Value) -> Value {
    match strf(c, "op") {
        "counting" => counting(c),
        "real" => real(c),
        op => panic!("unknown op {op}"),
    }
}

// ------------------------------------------------------------------ real samplers
use crate::zoo::*;
use burn::prelude::*;
use mini_mcmc::distributions::DiffableGaussian2D;
use mini_mcmc::nuts::{NUTSChain, NUTS};
use mini_mcmc::verif::tensor_f64;

fn bits64(v: &[f64]) -> Vec<u64> {
    v.iter().map(|x| x.to_bits()).collect()
}

/// run(n,d) on one instance vs manual stepping of an identically built instance; plus two consecutive
/// runs vs one long run. Output: per chain the trajectory (state after t transitions, t = 0..) and the rows.
fn real(c: &Value) -> Value {
    let (n, d) = (us(c, "n"), us(c, "d"));
    let n2 = us(c, "n2");
    match (strf(c, "kind"), strf(c, "f")) {
        ("mh", "f64") => {
            let mut a = build_mh64(c);
            let mut b = build_mh64(c);
            let mut l = build_mh64(c);
            let out = a.run(n, d).unwrap();
            let out2 = a.run(n2, 0).unwrap();
            let long = l.run(n + n2, d).unwrap();
            let traj: Vec<Vec<Vec<u64>>> = b.chains.iter_mut().map(|ch| {
                let mut t = vec![bits64(&ch.current_state)];
                for _ in 0..(n + d + n2) { t.push(bits64(ch.step())); }
                t
            }).collect();
            let fin: Vec<Vec<u64>> = a.chains.iter().map(|ch| bits64(&ch.current_state)).collect();
            json!({"traj": traj, "run": arr_f64(&out).bits, "run2": arr_f64(&out2).bits, "long": arr_f64(&long).bits,
                   "shape": out.shape(), "final": fin})
        }
        ("gibbs", _) => {
            let mut a = build_gibbs(c);
            let mut b = build_gibbs(c);
            let mut l = build_gibbs(c);
            let out = a.run(n, d).unwrap();
            let out2 = a.run(n2, 0).unwrap();
            let long = l.run(n + n2, d).unwrap();
            let traj: Vec<Vec<Vec<u64>>> = b.chains.iter_mut().map(|ch| {
                let mut t = vec![bits64(&ch.current_state)];
                for _ in 0..(n + d + n2) { t.push(bits64(ch.step())); }
                t
            }).collect();
            let fin: Vec<Vec<u64>> = a.chains.iter().map(|ch| bits64(&ch.current_state)).collect();
            json!({"traj": traj, "run": arr_f64(&out).bits, "run2": arr_f64(&out2).bits, "long": arr_f64(&long).bits,
                   "shape": out.shape(), "final": fin})
        }
        ("hmc", "f32") => real_hmc::<f32, B32>(c),
        ("hmc", "f64") => real_hmc::<f64, B64>(c),
        // scalar type and backend float type differ (the sampler's T is only the type of step size / uniforms)
        ("hmc", "f32b64") => real_hmc::<f32, B64>(c),
        ("hmc", "f64b32") => real_hmc::<f64, B32>(c),
        ("nuts", "f32") => real_nuts::<f32, B32>(c),
        ("nuts", "f64") => real_nuts::<f64, B64>(c),
        (k, f) => panic!("unknown real sampler {k}/{f}"),
    }
}

fn real_hmc<T, B>(c: &Value) -> Value
where
    T: crate::c02::Tf + rand_distr::uniform::SampleUniform + num_traits::FromPrimitive + num_traits::FloatConst + std::fmt::Debug + Send + Sync,
    B: burn::tensor::backend::AutodiffBackend + Send,
    rand_distr::StandardNormal: rand::distr::Distribution<T>,
    rand_distr::StandardUniform: rand_distr::Distribution<T>,
    rand_distr::Exp1: rand_distr::Distribution<T>,
{
    let (n, d) = (us(c, "n"), us(c, "d"));
    let n2 = us(c, "n2");
    let mut a = build_hmc::<T, B>(c);
    let mut b = a.clone();
    let mut l = a.clone();
    let out = a.run(n, d);
    let out2 = a.run(n2, 0);
    let long = l.run(n + n2, d);
    let nc = us(c, "n_chains");
    let mut traj: Vec<Vec<Vec<u64>>> = vec![vec![]; nc];
    let push = |traj: &mut Vec<Vec<Vec<u64>>>, pos: &Tensor<B, 2>| {
        let v = tensor_f64(pos);
        let dim = v.len() / nc;
        for ch in 0..nc {
            traj[ch].push(bits64(&v[ch * dim..(ch + 1) * dim]));
        }
    };
    push(&mut traj, &b.positions);
    for _ in 0..(n + d + n2) {
        b.step();
        push(&mut traj, &b.positions);
    }
    let w = |t: &Tensor<B, 3>| bits64(&tensor_f64(t));
    let mut fin: Vec<Vec<Vec<u64>>> = vec![vec![]; nc];
    push(&mut fin, &a.positions);
    json!({"traj": traj, "run": w(&out), "run2": w(&out2), "long": w(&long), "shape": out.dims(),
           "final": fin.iter().map(|x| x[0].clone()).collect::<Vec<_>>()})
}

/// single chains: run vs init_chain + manual steps; then NUTS::run vs the individual chains' runs
fn real_nuts<T, B>(c: &Value) -> Value
where
    T: crate::c02::Tf + rand_distr::uniform::SampleUniform + num_traits::FromPrimitive + Send,
    B: burn::tensor::backend::AutodiffBackend + Send,
    rand_distr::StandardNormal: rand::distr::Distribution<T>,
    rand_distr::StandardUniform: rand_distr::Distribution<T>,
    rand_distr::Exp1: rand_distr::Distribution<T>,
{
    let (n, d) = (us(c, "n"), us(c, "d"));
    let n2 = us(c, "n2");
    let t = |x: f64| <T as num_traits::FromPrimitive>::from_f64(x).unwrap();
    let target = DiffableGaussian2D::new([t(0.0), t(1.0)], [[t(4.0), t(2.0)], [t(2.0), t(3.0)]]);
    let seed = u64f(c, "seed");
    let inits = init_states::<T>(c, 2);
    let mut traj = vec![];
    let mut runs = vec![];
    let mut runs2 = vec![];
    let mut fin = vec![];
    for (i, x0) in inits.iter().enumerate() {
        let cs = seed.wrapping_add(i as u64).wrapping_add(1);
        let mut a = NUTSChain::<T, B, _>::new(target.clone(), x0.clone(), t(0.8)).set_seed(cs);
        let mut b = a.clone();
        let o1 = a.run(n, d);
        let o2 = a.run(n2.max(1), 0);
        let mut tr = vec![bits64(&tensor_f64(&b.position))];
        b.init_chain_verif(n, d);
        for _ in 1..(n + d) {
            b.step();
            tr.push(bits64(&tensor_f64(&b.position)));
        }
        traj.push(tr);
        runs.push(bits64(&tensor_f64(&o1)));
        runs2.push(bits64(&tensor_f64(&o2)));
        fin.push(bits64(&tensor_f64(&a.position)));
    }
    let mut multi = NUTS::<T, B, _>::new(target, inits, t(0.8)).set_seed(seed);
    let mo = multi.run(n, d);
    json!({"traj": traj, "chain_runs": runs, "chain_runs2": runs2, "multi": bits64(&tensor_f64(&mo)), "shape": mo.dims(), "final": fin})
}
