(* Proofs about Model/HMC.v: the carried half-gradient loop equals the textbook leapfrog, the
   per-row accept/reject, row independence of the batch, time reversibility (exact reals) and
   the IEEE decision layer. *)
From Coq Require Import Reals Lra Lia.
From MiniMcmc Require Import Base.Num Base.Fp Base.Util Model.HMC Proofs.MH.
Close Scope Q_scope.
Close Scope R_scope.
Local Open Scope nat_scope.

Lemma iter_S {A} n (f : A -> A) x : iter (S n) f x = f (iter n f x).
Proof. reflexivity. Qed.

Lemma nth_combine {A B} (a : list A) (b : list B) i da db :
  i < length a -> i < length b -> nth i (combine a b) (da, db) = (nth i a da, nth i b db).
Proof.
  revert b i; induction a as [|a0 a IH]; intros [|b0 b] [|i] Ha Hb; simpl in *; try lia; auto.
  apply IH; lia.
Qed.

(* ------------------------------------------------------------------ any number structure *)
Section Generic.
  Variable K : Num.
  Variable logp : list K -> K.
  Variable grad : list K -> list K.
  Variable eps : K.

  Lemma vadd_length (a b : list K) : length (vadd K a b) = Nat.min (length a) (length b).
  Proof. unfold vadd. rewrite map_length, combine_length. reflexivity. Qed.
  Lemma vscale_length c (a : list K) : length (vscale K c a) = length a.
  Proof. unfold vscale. apply map_length. Qed.
  Lemma vneg_length (a : list K) : length (vneg K a) = length a.
  Proof. unfold vneg. apply map_length. Qed.

  Lemma nth_vadd (a b : list K) i : i < length a -> i < length b ->
    nth i (vadd K a b) (zero K) = add K (nth i a (zero K)) (nth i b (zero K)).
  Proof.
    intros Ha Hb. unfold vadd.
    rewrite (nth_map_lt _ _ i (zero K) (zero K, zero K)) by (rewrite combine_length; lia).
    rewrite nth_combine by assumption. reflexivity.
  Qed.
  Lemma nth_vscale c (a : list K) i : i < length a ->
    nth i (vscale K c a) (zero K) = mul K c (nth i a (zero K)).
  Proof. intros Ha. unfold vscale. apply nth_map_lt. exact Ha. Qed.
  Lemma nth_vneg (a : list K) i : i < length a ->
    nth i (vneg K a) (zero K) = sub K (zero K) (nth i a (zero K)).
  Proof. intros Ha. unfold vneg. apply (nth_map_lt (fun x => sub K (zero K) x)). exact Ha. Qed.

  (* (1) the carried half-gradient is always the half-gradient at the current position *)
  Lemma leap_impl_invariant L x p :
    iter L (leap_impl K grad eps) (x, p, vscale K (half_eps K eps) (grad x)) =
    (let z := iter L (leap1 K grad eps) (x, p) in
     (fst z, snd z, vscale K (half_eps K eps) (grad (fst z)))).
  Proof.
    induction L as [|L IH]; [reflexivity|].
    rewrite !iter_S, IH. cbv zeta.
    destruct (iter L (leap1 K grad eps) (x, p)) as [x1 p1]. reflexivity.
  Qed.

  Theorem leapfrog_impl_spec L x p :
    leapfrog_impl K grad eps L x p = leapfrog K grad eps L (x, p).
  Proof.
    unfold leapfrog_impl, leapfrog. rewrite leap_impl_invariant. cbv beta iota zeta.
    symmetry. apply surjective_pairing.
  Qed.

  (* (2) either the end point of L leapfrog steps or the unchanged position *)
  Theorem hmc_row_either_or L x p lnu :
    (nleb K lnu (sub K (hamiltonian K logp (x, p))
                       (hamiltonian K logp (leapfrog K grad eps L (x, p)))) = true ->
       hmc_row K logp grad eps L x p lnu = fst (leapfrog K grad eps L (x, p))) /\
    (nleb K lnu (sub K (hamiltonian K logp (x, p))
                       (hamiltonian K logp (leapfrog K grad eps L (x, p)))) = false ->
       hmc_row K logp grad eps L x p lnu = x).
  Proof. unfold hmc_row. cbv zeta. split; intros ->; reflexivity. Qed.

  Lemma leapfrog_0 z : leapfrog K grad eps 0 z = z.
  Proof. reflexivity. Qed.

  Lemma hmc_row_L0 x p lnu : hmc_row K logp grad eps 0 x p lnu = x.
  Proof. unfold hmc_row. cbv zeta. rewrite leapfrog_0. simpl fst. destruct (nleb K _ _); reflexivity. Qed.

  (* (3) rows *)
  Lemma hmc_step_length L xs ps lnus :
    length (hmc_step K logp grad eps L xs ps lnus) =
    Nat.min (Nat.min (length xs) (length ps)) (length lnus).
  Proof. unfold hmc_step. rewrite map_length, !combine_length. reflexivity. Qed.

  Lemma hmc_step_nth L xs ps lnus i dflt :
    i < length xs -> i < length ps -> i < length lnus ->
    nth i (hmc_step K logp grad eps L xs ps lnus) dflt =
    hmc_row K logp grad eps L (nth i xs []) (nth i ps []) (nth i lnus (zero K)).
  Proof.
    intros Hx Hp Hu. unfold hmc_step.
    rewrite (nth_map_lt _ _ i dflt ((([], []), zero K) : vec K * vec K * K))
      by (rewrite !combine_length; lia).
    rewrite nth_combine by (rewrite ?combine_length; lia).
    rewrite nth_combine by assumption. reflexivity.
  Qed.

  Lemma hmc_step_other_rows L xs ps lnus i jx jp ju vx vp vu dflt :
    jx <> i -> jp <> i -> ju <> i ->
    nth i (hmc_step K logp grad eps L (upd jx vx xs) (upd jp vp ps) (upd ju vu lnus)) dflt =
    nth i (hmc_step K logp grad eps L xs ps lnus) dflt.
  Proof.
    intros Hjx Hjp Hju.
    destruct (Nat.lt_ge_cases i (Nat.min (Nat.min (length xs) (length ps)) (length lnus))) as [Hi|Hi].
    - rewrite !hmc_step_nth by (rewrite ?upd_length; lia).
      rewrite !nth_upd_other by assumption. reflexivity.
    - rewrite !nth_overflow by (rewrite hmc_step_length, ?upd_length; lia). reflexivity.
  Qed.

  (* length bookkeeping for the integrator *)
  Hypothesis grad_length : forall x, length (grad x) = length x.

  Lemma leap1_length z : length (snd z) = length (fst z) ->
    length (snd (leap1 K grad eps z)) = length (fst (leap1 K grad eps z)) /\
    length (fst (leap1 K grad eps z)) = length (fst z).
  Proof.
    destruct z as [x p]. unfold leap1. cbn [fst snd]. intros H.
    repeat (rewrite ?vadd_length, ?vscale_length, ?grad_length). lia.
  Qed.

  Lemma leapfrog_length L z : length (snd z) = length (fst z) ->
    length (snd (leapfrog K grad eps L z)) = length (fst (leapfrog K grad eps L z)) /\
    length (fst (leapfrog K grad eps L z)) = length (fst z).
  Proof.
    intros H. induction L as [|L [IH1 IH2]]; [split; [exact H|reflexivity]|].
    unfold leapfrog in *. rewrite iter_S.
    destruct (leap1_length _ IH1) as [H1 H2]. split; [exact H1|exact (eq_trans H2 IH2)].
  Qed.
End Generic.

(* ------------------------------------------------------------------ exact reals: reversibility *)
Section Reversible.
  Open Scope R_scope.

  Lemma vadd_vneg_cancel (a b : list R) : length a = length b ->
    vadd numR (vneg numR (vadd numR a b)) b = vneg numR a.
  Proof.
    unfold vadd, vneg.
    revert b; induction a as [|a0 a IH]; intros [|b0 b] H; simpl in *; try discriminate; auto.
    f_equal; [ring|]. apply IH. lia.
  Qed.

  Lemma vadd_vscale_vneg_cancel (e : R) (x q : list R) : length x = length q ->
    vadd numR (vadd numR x (vscale numR e q)) (vscale numR e (vneg numR q)) = x.
  Proof.
    unfold vadd, vneg, vscale.
    revert q; induction x as [|x0 x IH]; intros [|q0 q] H; simpl in *; try discriminate; auto.
    f_equal; [ring|]. apply IH. lia.
  Qed.

  Lemma vdot_vneg (a b : list R) : vdot numR (vneg numR a) (vneg numR b) = vdot numR a b.
  Proof.
    unfold vdot, vneg.
    revert b; induction a as [|a0 a IH]; intros [|b0 b]; simpl in *; auto.
    rewrite IH. ring.
  Qed.

  (* over the reals the test of hmc_row is the order relation itself *)
  Theorem hmc_row_R (logp : list R -> R) (grad : list R -> list R) (eps : R) L x p lnu :
    (lnu <= hamiltonian numR logp (x, p) - hamiltonian numR logp (leapfrog numR grad eps L (x, p)) ->
       hmc_row numR logp grad eps L x p lnu = fst (leapfrog numR grad eps L (x, p))) /\
    (hamiltonian numR logp (x, p) - hamiltonian numR logp (leapfrog numR grad eps L (x, p)) < lnu ->
       hmc_row numR logp grad eps L x p lnu = x).
  Proof.
    unfold hmc_row. cbv zeta. cbn [nleb numR sub].
    destruct (Rle_dec lnu _) as [H|H]; split; intros H'; try reflexivity; exfalso; lra.
  Qed.

  Variable grad : list R -> list R.
  Variable eps : R.
  Hypothesis grad_length : forall x, length (grad x) = length x.

  (* one step: for every step size, stable or not *)
  Theorem leap1_reversible x p : length p = length x ->
    leap1 numR grad eps (flip numR (leap1 numR grad eps (x, p))) = flip numR (x, p).
  Proof.
    intros Hp. unfold leap1, flip. cbv beta iota zeta delta [fst snd].
    set (h := half_eps numR eps).
    set (G := vscale numR h (grad x)).
    set (p1 := vadd numR p G).
    set (x' := vadd numR x (vscale numR eps p1)).
    set (G' := vscale numR h (grad x')).
    assert (HG : length G = length x) by (unfold G; rewrite vscale_length; apply grad_length).
    assert (Hp1 : length p1 = length x) by (unfold p1; rewrite vadd_length; lia).
    assert (Hx' : length x' = length x)
      by (unfold x'; rewrite vadd_length, vscale_length; lia).
    assert (HG' : length G' = length x)
      by (unfold G'; rewrite vscale_length, grad_length; exact Hx').
    rewrite (vadd_vneg_cancel p1 G' (eq_trans Hp1 (eq_sym HG'))).
    assert (Hx : vadd numR x' (vscale numR eps (vneg numR p1)) = x)
      by (unfold x'; apply vadd_vscale_vneg_cancel; exact (eq_sym Hp1)).
    rewrite Hx. fold G. unfold p1.
    rewrite (vadd_vneg_cancel p G (eq_trans Hp (eq_sym HG))). reflexivity.
  Qed.

  Theorem leapfrog_reversible L x p : length p = length x ->
    leapfrog numR grad eps L (flip numR (leapfrog numR grad eps L (x, p))) = flip numR (x, p).
  Proof.
    intros Hp. induction L as [|L IH]; [reflexivity|].
    destruct (leapfrog_length numR grad eps grad_length L (x, p) Hp) as [Hw _].
    unfold leapfrog in *.
    rewrite (iter_S L (leap1 numR grad eps) (x, p)).
    destruct (iter L (leap1 numR grad eps) (x, p)) as [xw pw]. simpl in Hw.
    rewrite iter_S, <- iter_S_comm.
    exact (eq_trans (f_equal (iter L (leap1 numR grad eps)) (leap1_reversible xw pw Hw)) IH).
  Qed.

  Theorem hamiltonian_flip (logp : list R -> R) z :
    hamiltonian numR logp (flip numR z) = hamiltonian numR logp z.
  Proof. unfold hamiltonian, flip, kinetic. simpl fst. simpl snd. rewrite vdot_vneg. reflexivity. Qed.
End Reversible.

(* ------------------------------------------------------------------ IEEE decision layer *)
Section Decision.
  Variables prec emax : Z.
  Context (Hprec : FLX.Prec_gt_0 prec) (Hmax : BinarySingleNaN.Prec_lt_emax prec emax).
  Notation fl := (binary_float prec emax).
  Variable nanf : fl -> fl -> { x : fl | Binary.is_nan prec emax x = true }.

  Lemma fge_fle (a b : fl) : fge a b = fle b a.
  Proof.
    unfold fge, fle, fcmp. rewrite (Bcompare_swap _ _ a b).
    destruct (Bcompare prec emax a b) as [[| |]|]; reflexivity.
  Qed.

  Lemma fminus_nan_l (a b : fl) : fnan a = true -> fnan (fminus nanf a b) = true.
  Proof.
    intros H. destruct a; try discriminate H.
    unfold fminus, Binary.Bminus. destruct b; simpl; first [apply nanf_nan | reflexivity].
  Qed.

  Lemma fminus_nan_r (a b : fl) : fnan b = true -> fnan (fminus nanf a b) = true.
  Proof.
    intros H. destruct b; try discriminate H.
    unfold fminus, Binary.Bminus. destruct a; simpl; first [apply nanf_nan | reflexivity].
  Qed.

  Lemma fge_nan_l (a b : fl) : fnan a = true -> fge a b = false.
  Proof. intros H. destruct a; try discriminate H. reflexivity. Qed.

  (* anything minus +inf is NaN or -inf *)
  Lemma fminus_posinf_r (a b : fl) : fposinf b = true -> bad prec emax (fminus nanf a b).
  Proof.
    intros H. destruct b as [| [|] | |]; try discriminate H.
    unfold bad, fminus, Binary.Bminus.
    destruct a as [| [|] | |]; simpl; auto; left; first [apply nanf_nan | reflexivity].
  Qed.

  (* NaN >= b never holds; -inf >= b only for b = -inf *)
  Lemma fge_bad_l (a b : fl) : bad prec emax a -> fge a b = true -> fneginf b = true.
  Proof.
    intros [H|H] Hge.
    - rewrite (fge_nan_l a b H) in Hge. discriminate Hge.
    - destruct a as [| [|] | |]; try discriminate H.
      destruct b as [| [|] | |]; try discriminate Hge; reflexivity.
  Qed.

  Theorem hmc_row_float_rule {A} (x x' : A) (h_cur h_prop lnu : fl) :
    (fle lnu (fminus nanf h_cur h_prop) = true -> hmc_row_float nanf x x' h_cur h_prop lnu = x') /\
    (fle lnu (fminus nanf h_cur h_prop) = false -> hmc_row_float nanf x x' h_cur h_prop lnu = x).
  Proof. unfold hmc_row_float, hmc_accept. rewrite fge_fle. split; intros ->; reflexivity. Qed.

  Theorem hmc_accept_nan (h_cur h_prop lnu : fl) :
    fnan h_prop = true \/ fnan h_cur = true -> hmc_accept nanf h_cur h_prop lnu = false.
  Proof.
    intros [H|H]; unfold hmc_accept; apply fge_nan_l.
    - apply fminus_nan_r, H.
    - apply fminus_nan_l, H.
  Qed.

  Theorem hmc_accept_posinf (h_cur h_prop lnu : fl) :
    fposinf h_prop = true -> hmc_accept nanf h_cur h_prop lnu = true -> fneginf lnu = true.
  Proof.
    intros H. unfold hmc_accept. apply fge_bad_l, fminus_posinf_r, H.
  Qed.
End Decision.
