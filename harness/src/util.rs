//! Small helpers shared by the per-property harness modules.
use serde_json::{json, Value};
use std::panic::{catch_unwind, AssertUnwindSafe};

pub fn us(v: &Value, k: &str) -> usize {
    v[k].as_u64().unwrap_or_else(|| panic!("missing usize field {k}")) as usize
}
pub fn u64f(v: &Value, k: &str) -> u64 {
    match &v[k] {
        Value::String(s) => s.parse::<u64>().unwrap(),
        x => x.as_u64().unwrap_or_else(|| panic!("missing u64 field {k}")),
    }
}
pub fn i64f(v: &Value, k: &str) -> i64 {
    v[k].as_i64().unwrap_or_else(|| panic!("missing i64 field {k}"))
}
pub fn strf<'a>(v: &'a Value, k: &str) -> &'a str {
    v[k].as_str().unwrap_or_else(|| panic!("missing str field {k}"))
}
pub fn arr<'a>(v: &'a Value, k: &str) -> &'a Vec<Value> {
    v[k].as_array().unwrap_or_else(|| panic!("missing array field {k}"))
}
pub fn u64s(v: &Value) -> Vec<u64> {
    v.as_array()
        .unwrap()
        .iter()
        .map(|x| match x {
            Value::String(s) => s.parse::<u64>().unwrap(),
            y => y.as_u64().unwrap(),
        })
        .collect()
}
pub fn i64s(v: &Value) -> Vec<i64> {
    v.as_array().unwrap().iter().map(|x| x.as_i64().unwrap()).collect()
}
pub fn f32b(bits: u64) -> f32 {
    f32::from_bits(bits as u32)
}
pub fn f64b(bits: u64) -> f64 {
    f64::from_bits(bits)
}
pub fn b32(x: f32) -> u64 {
    x.to_bits() as u64
}
pub fn b64(x: f64) -> Value {
    // u64 bit patterns above 2^53 are exact in serde_json (u64), python reads them as int
    json!(x.to_bits())
}

/// Runs one case; a panic is reported as {"panic": msg}.
pub fn guarded<F: FnOnce() -> Value>(f: F) -> Value {
    match catch_unwind(AssertUnwindSafe(f)) {
        Ok(v) => v,
        Err(e) => {
            let msg = if let Some(s) = e.downcast_ref::<&str>() {
                s.to_string()
            } else if let Some(s) = e.downcast_ref::<String>() {
                s.clone()
            } else {
                "panic".to_string()
            };
            json!({ "panic": msg })
        }
    }
}

/// A SmallRng (xoshiro256++) whose first next_u64() is exactly `v`:
/// state [s0,s1,s2,s3] = [0,1,0,rotr(v,23)]  (result = rotl(s0+s3,23)+s0).
pub fn rng_first_output(v: u64) -> rand::rngs::SmallRng {
    use rand::SeedableRng;
    let mut seed = [0u8; 32];
    seed[8..16].copy_from_slice(&1u64.to_le_bytes());
    seed[24..32].copy_from_slice(&v.rotate_right(23).to_le_bytes());
    rand::rngs::SmallRng::from_seed(seed)
}
