From MiniMcmc Require Import Model.Tracker.
