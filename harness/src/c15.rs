//! C15: built-in densities, gradients and the isotropic proposal density.
use crate::c02::Tf;
use crate::util::*;
use crate::zoo::{B32, B64};
use burn::prelude::*;
use burn::tensor::backend::AutodiffBackend;
use mini_mcmc::distributions::{
    BatchedGradientTarget, DiffableGaussian2D, Gaussian2D, GradientTarget, IsotropicGaussian, Normalized, Proposal,
    Rosenbrock2D, RosenbrockND, Target,
};
use mini_mcmc::verif::tensor_f64;
use ndarray::{arr1, arr2};
use serde_json::{json, Value};

fn fs(v: &Value, k: &str) -> Vec<f64> {
    u64s(&v[k]).into_iter().map(f64::from_bits).collect()
}
fn bits(v: &[f64]) -> Vec<u64> {
    v.iter().map(|x| x.to_bits()).collect()
}

fn gauss2d<T: Tf + ndarray::NdFloat>(c: &Value) -> Value {
    let t = |x: f64| T::from_f64(x).unwrap();
    let f = |x: T| num_traits::ToPrimitive::to_f64(&x).unwrap().to_bits();
    let (m, cv) = (fs(c, "mean"), fs(c, "cov"));
    let g = Gaussian2D { mean: arr1(&[t(m[0]), t(m[1])]), cov: arr2(&[[t(cv[0]), t(cv[1])], [t(cv[2]), t(cv[3])]]) };
    let pts = fs(c, "points");
    let mut lp = vec![];
    let mut ul = vec![];
    for p in pts.chunks(2) {
        let x = vec![t(p[0]), t(p[1])];
        lp.push(f(g.logp(&x)));
        ul.push(f(g.unnorm_logp(&x)));
    }
    json!({"logp": lp, "unnorm": ul})
}

fn diffable<T: Tf, B: AutodiffBackend>(c: &Value) -> Value {
    let t = |x: f64| T::from_f64(x).unwrap();
    let (m, cv) = (fs(c, "mean"), fs(c, "cov"));
    let g = DiffableGaussian2D::new([t(m[0]), t(m[1])], [[t(cv[0]), t(cv[1])], [t(cv[2]), t(cv[3])]]);
    let pts = fs(c, "points");
    let n = pts.len() / 2;
    let data: Vec<T> = pts.iter().map(|x| t(*x)).collect();
    let batch = Tensor::<B, 2>::from_data(TensorData::new(data.clone(), [n, 2]), &Default::default());
    let pb = batch.clone().detach().require_grad();
    let lpb = <DiffableGaussian2D<T> as BatchedGradientTarget<T, B>>::unnorm_logp_batch(&g, pb.clone());
    let gb = Tensor::<B, 2>::from_inner(pb.grad(&lpb.backward()).unwrap());
    let mut single = vec![];
    let mut sgrad = vec![];
    for k in 0..n {
        let x = Tensor::<B, 1>::from_data(TensorData::new(data[2 * k..2 * k + 2].to_vec(), [2]), &Default::default());
        let (lp, gr) = <DiffableGaussian2D<T> as GradientTarget<T, B>>::unnorm_logp_and_grad(&g, x);
        single.push(tensor_f64(&lp)[0].to_bits());
        sgrad.extend(bits(&tensor_f64(&gr)));
    }
    json!({"batch": bits(&tensor_f64(&lpb)), "batch_grad": bits(&tensor_f64(&gb)), "single": single, "single_grad": sgrad})
}

fn rosen2<T: Tf, B: AutodiffBackend>(c: &Value) -> Value {
    let t = |x: f64| T::from_f64(x).unwrap();
    let g = Rosenbrock2D { a: t(f64::from_bits(u64f(c, "a"))), b: t(f64::from_bits(u64f(c, "b"))) };
    let pts = fs(c, "points");
    let n = pts.len() / 2;
    let data: Vec<T> = pts.iter().map(|x| t(*x)).collect();
    let batch = Tensor::<B, 2>::from_data(TensorData::new(data.clone(), [n, 2]), &Default::default());
    let pb = batch.clone().detach().require_grad();
    let lpb = <Rosenbrock2D<T> as BatchedGradientTarget<T, B>>::unnorm_logp_batch(&g, pb.clone());
    let gb = Tensor::<B, 2>::from_inner(pb.grad(&lpb.backward()).unwrap());
    let mut single = vec![];
    let mut sgrad = vec![];
    for k in 0..n {
        let x = Tensor::<B, 1>::from_data(TensorData::new(data[2 * k..2 * k + 2].to_vec(), [2]), &Default::default());
        let (lp, gr) = <Rosenbrock2D<T> as GradientTarget<T, B>>::unnorm_logp_and_grad(&g, x);
        single.push(tensor_f64(&lp)[0].to_bits());
        sgrad.extend(bits(&tensor_f64(&gr)));
    }
    json!({"batch": bits(&tensor_f64(&lpb)), "batch_grad": bits(&tensor_f64(&gb)), "single": single, "single_grad": sgrad})
}

fn rosennd<T: Tf, B: AutodiffBackend>(c: &Value) -> Value {
    let t = |x: f64| T::from_f64(x).unwrap();
    let d = us(c, "d");
    let pts = fs(c, "points");
    let n = pts.len() / d;
    let data: Vec<T> = pts.iter().map(|x| t(*x)).collect();
    let batch = Tensor::<B, 2>::from_data(TensorData::new(data, [n, d]), &Default::default());
    let lpb = <RosenbrockND as BatchedGradientTarget<T, B>>::unnorm_logp_batch(&RosenbrockND {}, batch);
    json!({"batch": bits(&tensor_f64(&lpb))})
}

fn iso<T: Tf + std::ops::AddAssign>(c: &Value) -> Value
where
    rand_distr::StandardNormal: rand_distr::Distribution<T>,
{
    let t = |x: f64| T::from_f64(x).unwrap();
    let f = |x: T| num_traits::ToPrimitive::to_f64(&x).unwrap().to_bits();
    let sigma = f64::from_bits(u64f(c, "sigma"));
    let from: Vec<T> = fs(c, "from").into_iter().map(t).collect();
    let to: Vec<T> = fs(c, "to").into_iter().map(t).collect();
    let seed = u64f(c, "seed");
    // optionally: constructed with another standard deviation, then the public field is reassigned
    let mk = || match c["sigma0"].as_u64() {
        Some(b0) => {
            let mut q = IsotropicGaussian::new(t(f64::from_bits(b0)));
            q.std = t(sigma);
            q
        }
        None => IsotropicGaussian::new(t(sigma)),
    };
    let p = mk();
    let mut a = mk().set_seed(seed);
    let mut b = mk().set_seed(seed);
    let da: Vec<u64> = (0..3).flat_map(|_| a.sample(&from).into_iter().map(f).collect::<Vec<_>>()).collect();
    let db: Vec<u64> = (0..3).flat_map(|_| b.sample(&from).into_iter().map(f).collect::<Vec<_>>()).collect();
    // sample statistics of (to - from)/sigma for the law check
    let mut s = IsotropicGaussian::new(t(sigma)).set_seed(seed ^ 0x5555);
    let (mut s1, mut s2, mut cnt) = (0.0f64, 0.0f64, 0usize);
    for _ in 0..400 {
        let y = s.sample(&from);
        for (yi, fi) in y.iter().zip(from.iter()) {
            let zv = (num_traits::ToPrimitive::to_f64(yi).unwrap() - num_traits::ToPrimitive::to_f64(fi).unwrap()) / sigma;
            s1 += zv;
            s2 += zv * zv;
            cnt += 1;
        }
    }
    // the standard-normal draws the three `a.sample(&from)` calls consume, replayed from the same seeded generator
    let normals: Vec<u64> = {
        use rand::SeedableRng;
        use rand_distr::Distribution;
        let mut r = rand::rngs::SmallRng::seed_from_u64(seed);
        (0..3 * (from.len() + 1)).map(|_| { let z: T = rand_distr::StandardNormal.sample(&mut r); f(z) }).collect()
    };
    json!({"normals": normals, "logp_ft": f(p.logp(&from, &to)), "logp_tf": f(p.logp(&to, &from)),
           "unnorm": f(<IsotropicGaussian<T> as Target<T, T>>::unnorm_logp(&p, &to)),
           "draws_a": da, "draws_b": db, "z_mean": s1 / cnt as f64, "z_msq": s2 / cnt as f64, "z_n": cnt})
}

pub fn run(c: &Value) -> Value {
    match (strf(c, "op"), strf(c, "f")) {
        ("gauss2d", "f32") => gauss2d::<f32>(c),
        ("gauss2d", "f64") => gauss2d::<f64>(c),
        ("diffable", "f32") => diffable::<f32, B32>(c),
        ("diffable", "f64") => diffable::<f64, B64>(c),
        ("rosen2", "f32") => rosen2::<f32, B32>(c),
        ("rosen2", "f64") => rosen2::<f64, B64>(c),
        ("rosennd", "f32") => rosennd::<f32, B32>(c),
        ("rosennd", "f64") => rosennd::<f64, B64>(c),
        ("iso", "f32") => iso::<f32>(c),
        ("iso", "f64") => iso::<f64>(c),
        (op, f) => panic!("unknown op {op}/{f}"),
    }
}
