//! Sampler zoo: builds the four real samplers from a JSON spec and runs them; used by the
//! reproducibility / stream / run-shape / progress checks (C06-C10, C14).
use crate::util::*;
use burn::backend::{Autodiff, NdArray};
use burn::prelude::*;
use burn::tensor::backend::AutodiffBackend;
use mini_mcmc::core::{init_with_seed, ChainRunner};
use mini_mcmc::distributions::{
    Conditional, DiffableGaussian2D, Gaussian2D, IsotropicGaussian, Proposal, Rosenbrock2D,
};
use mini_mcmc::gibbs::GibbsSampler;
use mini_mcmc::hmc::HMC;
use mini_mcmc::metropolis_hastings::MetropolisHastings;
use mini_mcmc::nuts::NUTS;
use ndarray::{arr1, arr2, Array3};
use rand::rngs::SmallRng;
use rand::{Rng, SeedableRng};
use serde_json::{json, Value};

pub type B32 = Autodiff<NdArray<f32>>;
pub type B64 = Autodiff<NdArray<f64>>;

pub fn fnv(bits: &[u64]) -> u64 {
    let mut h: u64 = 0xcbf29ce484222325;
    for b in bits {
        for byte in b.to_le_bytes() {
            h ^= byte as u64;
            h = h.wrapping_mul(0x100000001b3);
        }
    }
    h
}

/// result of a run: shape and the bit patterns (as u64, widened losslessly) in [chain][draw][dim] order
pub struct Out {
    pub shape: Vec<usize>,
    pub bits: Vec<u64>,
    pub is32: bool,
}
impl Out {
    pub fn json(&self, full: bool) -> Value {
        let mut v = json!({"shape": self.shape, "digest": format!("{:016x}", fnv(&self.bits)),
                           "head": self.bits.iter().take(6).collect::<Vec<_>>()});
        if full {
            v["bits"] = json!(self.bits);
        }
        v
    }
}

pub fn arr_f64(a: &Array3<f64>) -> Out {
    Out { shape: a.shape().to_vec(), bits: a.iter().map(|x| x.to_bits()).collect(), is32: false }
}
pub fn arr_f32(a: &Array3<f32>) -> Out {
    Out { shape: a.shape().to_vec(), bits: a.iter().map(|x| x.to_bits() as u64).collect(), is32: true }
}
pub fn tensor_out<B: Backend>(t: &Tensor<B, 3>) -> Out {
    let d = t.to_data();
    let (bits, is32): (Vec<u64>, bool) = match d.dtype {
        burn::tensor::DType::F64 => (d.as_slice::<f64>().unwrap().iter().map(|x| x.to_bits()).collect(), false),
        burn::tensor::DType::F32 => (d.as_slice::<f32>().unwrap().iter().map(|x| x.to_bits() as u64).collect(), true),
        other => panic!("unexpected dtype {other:?}"),
    };
    Out { shape: t.dims().to_vec(), bits, is32 }
}

/// A conditional that is deterministic given its own state (carries a seeded generator).
#[derive(Clone)]
pub struct MixCond {
    pub rng: SmallRng,
}
impl Conditional<f64> for MixCond {
    fn sample(&mut self, i: usize, given: &[f64]) -> f64 {
        if i == 0 {
            let z = given[1];
            let (mu, sd) = if z < 0.5 { (-1.0, 1.0) } else { (1.0, 1.0) };
            let n: f64 = self.rng.sample(rand_distr::StandardNormal);
            mu + sd * n
        } else {
            let x = given[0];
            let pdf = |x: f64, mu: f64, sd: f64| (-(x - mu) * (x - mu) / (2.0 * sd * sd)).exp() / sd;
            let p0 = 0.4 * pdf(x, -1.0, 1.0);
            let p1 = 0.6 * pdf(x, 1.0, 1.0);
            let pz1 = if p0 + p1 > 0.0 { p1 / (p0 + p1) } else { 0.5 };
            if self.rng.random::<f64>() < pz1 {
                1.0
            } else {
                0.0
            }
        }
    }
}

pub fn opt_seed(c: &Value) -> Option<u64> {
    if c["seed"].is_null() {
        None
    } else {
        Some(u64f(c, "seed"))
    }
}

pub fn build_mh64(c: &Value) -> MetropolisHastings<f64, f64, Gaussian2D<f64>, IsotropicGaussian<f64>> {
    let target = Gaussian2D { mean: arr1(&[0.5, -1.0]), cov: arr2(&[[2.0, 0.6], [0.6, 1.0]]) };
    let mut proposal = IsotropicGaussian::new(0.8);
    if !c["prop_seed"].is_null() {
        proposal = proposal.set_seed(u64f(c, "prop_seed"));
    }
    let init = init_states::<f64>(c, 2);
    let mh = MetropolisHastings::new(target, proposal, init);
    match opt_seed(c) {
        Some(s) => mh.seed(s),
        None => mh,
    }
}
pub fn build_mh32(c: &Value) -> MetropolisHastings<f32, f32, Gaussian2D<f32>, IsotropicGaussian<f32>> {
    let target = Gaussian2D { mean: arr1(&[0.5f32, -1.0]), cov: arr2(&[[2.0f32, 0.6], [0.6, 1.0]]) };
    let mut proposal = IsotropicGaussian::new(0.8f32);
    if !c["prop_seed"].is_null() {
        proposal = proposal.set_seed(u64f(c, "prop_seed"));
    }
    let init = init_states::<f32>(c, 2);
    let mh = MetropolisHastings::new(target, proposal, init);
    match opt_seed(c) {
        Some(s) => mh.seed(s),
        None => mh,
    }
}

/// initial states: "same_init": all chains start at one common point; else init_with_seed(init_seed)
pub fn init_states<T: num_traits::Float + num_traits::FromPrimitive + Send>(c: &Value, dim: usize) -> Vec<Vec<T>> {
    let n_chains = us(c, "n_chains");
    if c["same_init"].as_bool().unwrap_or(false) {
        vec![(0..dim).map(|k| T::from_f64(0.25 + k as f64).unwrap()).collect(); n_chains]
    } else {
        init_with_seed::<T>(n_chains, dim, c["init_seed"].as_u64().unwrap_or(7))
    }
}

pub fn build_gibbs(c: &Value) -> GibbsSampler<f64, MixCond> {
    let cond = MixCond { rng: SmallRng::seed_from_u64(c["cond_seed"].as_u64().unwrap_or(5)) };
    let g = GibbsSampler::new(cond, init_states::<f64>(c, 2));
    match opt_seed(c) {
        Some(s) => g.set_seed(s),
        None => g,
    }
}

pub fn build_hmc<T, B>(c: &Value) -> HMC<T, B, DiffableGaussian2D<T>>
where
    T: num_traits::Float
        + burn::tensor::ElementConversion
        + burn::tensor::Element
        + rand_distr::uniform::SampleUniform
        + num_traits::FromPrimitive
        + num_traits::FloatConst
        + std::fmt::Debug,
    B: AutodiffBackend,
    rand_distr::StandardNormal: rand::distr::Distribution<T>,
    rand_distr::StandardUniform: rand_distr::Distribution<T>,
{
    let t = |x: f64| T::from_f64(x).unwrap();
    let target = DiffableGaussian2D::new([t(0.0), t(1.0)], [[t(4.0), t(2.0)], [t(2.0), t(3.0)]]);
    let eps = c["eps"].as_f64().unwrap_or(0.2);
    let l = c["L"].as_u64().unwrap_or(5) as usize;
    let h = HMC::<T, B, _>::new(target, init_states::<T>(c, 2), t(eps), l);
    match opt_seed(c) {
        Some(s) => h.set_seed(s),
        None => h,
    }
}

pub fn build_nuts<T, B>(c: &Value) -> NUTS<T, B, DiffableGaussian2D<T>>
where
    T: num_traits::Float
        + burn::tensor::ElementConversion
        + burn::tensor::Element
        + rand_distr::uniform::SampleUniform
        + num_traits::FromPrimitive
        + num_traits::FloatConst
        + std::fmt::Debug
        + Send
        + Sync,
    B: AutodiffBackend + Send,
    rand_distr::StandardNormal: rand::distr::Distribution<T>,
    rand_distr::StandardUniform: rand_distr::Distribution<T>,
    rand_distr::Exp1: rand_distr::Distribution<T>,
{
    let t = |x: f64| T::from_f64(x).unwrap();
    let target = DiffableGaussian2D::new([t(0.0), t(1.0)], [[t(4.0), t(2.0)], [t(2.0), t(3.0)]]);
    let acc = c["accept"].as_f64().unwrap_or(0.8);
    let n = NUTS::<T, B, _>::new(target, init_states::<T>(c, 2), t(acc));
    match opt_seed(c) {
        Some(s) => n.set_seed(s),
        None => n,
    }
}

/// "restart": a short pilot run, then the public `positions` field is replaced by far-away points and the real run follows
/// (a sampler must not remember anything about the points it has left)
fn restart_hmc<T, B, G>(s: &mut HMC<T, B, G>, c: &Value)
where
    T: num_traits::Float + burn::tensor::ElementConversion + burn::tensor::Element + rand_distr::uniform::SampleUniform
        + num_traits::FromPrimitive + num_traits::FloatConst + std::fmt::Debug,
    B: AutodiffBackend,
    G: mini_mcmc::distributions::BatchedGradientTarget<T, B> + std::marker::Sync,
    rand_distr::StandardNormal: rand::distr::Distribution<T>,
    rand_distr::StandardUniform: rand_distr::Distribution<T>,
{
    if !c["restart"].as_bool().unwrap_or(false) {
        return;
    }
    let _ = s.run(5, 0);
    let [nc, dim] = s.positions.dims();
    let pts: Vec<f32> = (0..nc * dim).map(|k| if k % 2 == 0 { 6.0 + (k / 2) as f32 * 0.25 } else { -5.0 }).collect();
    s.positions = Tensor::<B, 1>::from_floats(pts.as_slice(), &Default::default()).reshape([nc, dim]);
}

/// Builds the sampler named by the spec and runs run / run_progress once.
pub fn run_spec(c: &Value) -> Out {
    let (n, d) = (us(c, "n"), us(c, "d"));
    let progress = c["progress"].as_bool().unwrap_or(false);
    match (strf(c, "kind"), strf(c, "f")) {
        // the seeded initialiser itself (n_chains rows, n columns), as one [rows, 1, cols] array
        ("init", f) => {
            let (rows, cols) = (us(c, "n_chains"), n);
            let seed = opt_seed(c).unwrap_or(42);
            if f == "f32" {
                let v: Vec<Vec<f32>> = init_with_seed(rows, cols, seed);
                Out { shape: vec![rows, 1, cols], bits: v.iter().flatten().map(|x| x.to_bits() as u64).collect(), is32: true }
            } else {
                let v: Vec<Vec<f64>> = init_with_seed(rows, cols, seed);
                Out { shape: vec![rows, 1, cols], bits: v.iter().flatten().map(|x| x.to_bits()).collect(), is32: false }
            }
        }
        ("mh", "f64") => {
            let mut s = build_mh64(c);
            arr_f64(&if progress { s.run_progress(n, d).unwrap().0 } else { s.run(n, d).unwrap() })
        }
        ("mh", "f32") => {
            let mut s = build_mh32(c);
            arr_f32(&if progress { s.run_progress(n, d).unwrap().0 } else { s.run(n, d).unwrap() })
        }
        ("gibbs", _) => {
            let mut s = build_gibbs(c);
            arr_f64(&if progress { s.run_progress(n, d).unwrap().0 } else { s.run(n, d).unwrap() })
        }
        ("hmc", "f32") => {
            let mut s = build_hmc::<f32, B32>(c);
            restart_hmc(&mut s, c);
            tensor_out(&if progress { s.run_progress(n, d).unwrap().0 } else { s.run(n, d) })
        }
        ("hmc", "f64") => {
            let mut s = build_hmc::<f64, B64>(c);
            restart_hmc(&mut s, c);
            tensor_out(&if progress { s.run_progress(n, d).unwrap().0 } else { s.run(n, d) })
        }
        ("hmc", "f64b32") => {
            let mut s = build_hmc::<f64, B32>(c);
            tensor_out(&if progress { s.run_progress(n, d).unwrap().0 } else { s.run(n, d) })
        }
        ("hmc", "f32b64") => {
            let mut s = build_hmc::<f32, B64>(c);
            tensor_out(&if progress { s.run_progress(n, d).unwrap().0 } else { s.run(n, d) })
        }
        ("nuts", "f32") => {
            let mut s = build_nuts::<f32, B32>(c);
            tensor_out(&if progress { s.run_progress(n, d).unwrap().0 } else { s.run(n, d) })
        }
        ("nuts", "f64") => {
            let mut s = build_nuts::<f64, B64>(c);
            tensor_out(&if progress { s.run_progress(n, d).unwrap().0 } else { s.run(n, d) })
        }
        ("nuts", "f64b32") => {
            let mut s = build_nuts::<f64, B32>(c);
            tensor_out(&if progress { s.run_progress(n, d).unwrap().0 } else { s.run(n, d) })
        }
        ("nuts", "f32b64") => {
            let mut s = build_nuts::<f32, B64>(c);
            tensor_out(&if progress { s.run_progress(n, d).unwrap().0 } else { s.run(n, d) })
        }
        (k, f) => panic!("unknown sampler {k}/{f}"),
    }
}


fn bs(x: &mini_mcmc::stats::BasicStats) -> Vec<u64> {
    vec![b32(x.min), b32(x.median), b32(x.max), b32(x.mean), b32(x.std)]
}
fn stats_json(s: &mini_mcmc::stats::RunStats) -> Value {
    json!({"ess": bs(&s.ess), "rhat": bs(&s.rhat)})
}

/// run_progress of the sampler named by the spec: (draws, RunStats as json)
pub fn run_spec_stats(c: &Value) -> (Out, Value) {
    let (n, d) = (us(c, "n"), us(c, "d"));
    macro_rules! go_arr {
        ($s:expr, $conv:ident) => {{
            let mut s = $s;
            let (a, st) = s.run_progress(n, d).unwrap();
            ($conv(&a), stats_json(&st))
        }};
    }
    macro_rules! go_t {
        ($s:expr) => {{
            let mut s = $s;
            let (a, st) = s.run_progress(n, d).unwrap();
            (tensor_out(&a), stats_json(&st))
        }};
    }
    match (strf(c, "kind"), strf(c, "f")) {
        ("mh", "f64") => go_arr!(build_mh64(c), arr_f64),
        ("mh", "f32") => go_arr!(build_mh32(c), arr_f32),
        ("gibbs", _) => go_arr!(build_gibbs(c), arr_f64),
        ("hmc", "f32") => go_t!(build_hmc::<f32, B32>(c)),
        ("hmc", "f64") => go_t!(build_hmc::<f64, B64>(c)),
        ("hmc", "f64b32") => go_t!(build_hmc::<f64, B32>(c)),
        ("hmc", "f32b64") => go_t!(build_hmc::<f32, B64>(c)),
        ("nuts", "f32") => go_t!(build_nuts::<f32, B32>(c)),
        ("nuts", "f64") => go_t!(build_nuts::<f64, B64>(c)),
        ("nuts", "f64b32") => go_t!(build_nuts::<f64, B32>(c)),
        ("nuts", "f32b64") => go_t!(build_nuts::<f32, B64>(c)),
        (k, f) => panic!("unknown sampler {k}/{f}"),
    }
}
