(* Finite-state Markov kernels acting on (signed) mass functions: one step `push`, n steps `pushn`,
   the l1 distance on a finite state list, and the Metropolis kernel built on a deterministic
   involutive proposal (HMC: F = momentum flip after L leapfrog steps).  Definitions only. *)
From MiniMcmc Require Export Model.MH.
From Coq Require Import Reals List.
Open Scope R_scope.

Section Erg.
  Context {St : Type}.
  Variable eqb : St -> St -> bool.
  Variable states : list St.
  Variable P : St -> St -> R.          (* transition kernel, row x = law of the next state *)

  (* law after one step from law mu *)
  Definition push (mu : St -> R) : St -> R := fun y => sumR (fun x => mu x * P x y) states.

  Fixpoint pushn (n : nat) (mu : St -> R) : St -> R :=
    match n with O => mu | S k => push (pushn k mu) end.

  (* m-step kernel: P then (m-1 steps) *)
  Fixpoint kpow (m : nat) (x y : St) : R :=
    match m with
    | O => if eqb x y then 1 else 0
    | S k => sumR (fun z => P x z * kpow k z y) states
    end.

  (* l1 distance (twice the total variation distance) read on `states` *)
  Definition l1 (mu nu : St -> R) : R := sumR (fun x => Rabs (mu x - nu x)) states.

  (* Metropolis test on a deterministic involutive proposal F with target weights w *)
  Variable w : St -> R.
  Variable F : St -> St.
  Definition ainv (x : St) : R := Rmin 1 (w (F x) / w x).
  Definition Kinv (x y : St) : R :=
    (if eqb (F x) y then ainv x else 0) + (if eqb x y then 1 - ainv x else 0).
End Erg.

(* a concrete two-state chain (states true/false) with every entry >= 1/4, and its stationary law *)
Definition ex2_P (x y : bool) : R := if x then (if y then 3 / 4 else 1 / 4) else 1 / 2.
Definition ex2_pi (x : bool) : R := if x then 2 / 3 else 1 / 3.
