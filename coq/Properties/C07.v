(* C07 — The output of a multi-chain run does not depend on how the chains are scheduled on the
   worker threads (nor on the number of threads), and is a total function of the user seed: every
   64-bit seed, including the largest, yields well-formed generators, and different seeds yield
   different generator states.
   Models: Model/Sched.v — each chain owns its state (position and its own generator); a step of
   chain i touches component i only (exec1); a schedule is any list of chain indices, i.e. any
   interleaving the thread pool may produce (exec); `isolated` is the sequential reference in
   which every chain runs alone.  Model/Seeds.v, Base/Rng.v — seed derivation and the bit-exact
   SmallRng.  Proofs: Proofs/Sched.v, Proofs/Rng.v. *)
From MiniMcmc Require Import Model.Seeds Model.Sched.
From MiniMcmc Require Import Proofs.Rng Proofs.Sched.
From Coq Require Import Permutation.
Close Scope N_scope.
Open Scope nat_scope.

Section C07_schedules.
  Context {St : Type}.
  Variable step : nat -> St -> St.   (* step i = one transition of chain i on its own state *)
  Variable d : St.                   (* default for nth; irrelevant for in-range indices *)

  (* (1) two schedules that give every chain the same number of steps produce the same final
     states, whatever the interleaving *)
  Theorem C07_schedule_independent : forall (sched1 sched2 : list nat) (v : list St),
    (forall i, In i sched1 -> i < length v) ->
    (forall i, In i sched2 -> i < length v) ->
    (forall i, count_occ Nat.eq_dec sched1 i = count_occ Nat.eq_dec sched2 i) ->
    exec step d sched1 v = exec step d sched2 v.
  Proof. exact (exec_schedule_independent step d). Qed.

  (* (2) and that common result is the sequential reference: chain i performs its own steps in
     isolation, starting from its own initial state *)
  Theorem C07_equals_isolated : forall (sched : list nat) (v : list St),
    (forall i, In i sched -> i < length v) ->
    exec step d sched v = isolated step (fun i => count_occ Nat.eq_dec sched i) v.
  Proof. exact (exec_isolated step d). Qed.

  Theorem C07_component : forall (sched : list nat) (v : list St) (k : nat),
    (forall i, In i sched -> i < length v) -> k < length v ->
    nth k (exec step d sched v) d = iter (count_occ Nat.eq_dec sched k) (step k) (nth k v d).
  Proof. exact (nth_exec step d). Qed.

  Theorem C07_length : forall (sched : list nat) (v : list St),
    length (exec step d sched v) = length v.
  Proof. exact (exec_length step d). Qed.

  (* (3) any re-ordering of the same multiset of chain steps (any partition of the chains over
     any number of threads, any interleaving of the threads) gives the same result *)
  Theorem C07_thread_partition_irrelevant : forall (sched1 sched2 : list nat) (v : list St),
    Permutation sched1 sched2 ->
    (forall i, In i sched1 -> i < length v) ->
    exec step d sched1 v = exec step d sched2 v.
  Proof. exact (exec_permutation step d). Qed.

  (* (4) the whole history of chain k (the value of component k right after each of its own
     steps, in schedule order) is the history of chain k run alone: it depends on the schedule
     only through the number of steps chain k is given *)
  Theorem C07_chain_trace : forall (k : nat) (sched : list nat) (v : list St),
    (forall i, In i sched -> i < length v) -> k < length v ->
    trace step d k sched v
    = map (fun m => iter (S m) (step k) (nth k v d)) (seq 0 (count_occ Nat.eq_dec sched k)).
  Proof. exact (trace_spec step d). Qed.

  (* `trace` is what it is meant to be: one entry per schedule position p that runs chain k,
     namely component k of the state reached after the first p+1 scheduled steps *)
  Theorem C07_chain_trace_meaning : forall (k : nat) (sched : list nat) (v : list St),
    trace step d k sched v
    = map (fun p => nth k (exec step d (firstn (S p) sched) v) d)
          (filter (fun p => if Nat.eq_dec (nth p sched (S k)) k then true else false)
                  (seq 0 (length sched))).
  Proof. exact (trace_prefixes step d). Qed.
End C07_schedules.

(* (5) the independence rests on every chain owning its generator: if all chains draw from one
   shared stream, two chains executed in the two possible orders give different results *)
Theorem C07_shared_stream_refuted :
  exists (step : nat -> nat -> nat -> nat * nat) (v : list nat) (g : nat),
    exec_shared step 0 [0; 1] v g <> exec_shared step 0 [1; 0] v g.
Proof. exact exec_shared_order_matters. Qed.

Open Scope N_scope.

(* (6) the seed derivation is total on all 64-bit seeds and chain indices (wrapping) ... *)
Theorem C07_seed_total : forall s i, s < W64 -> i < W64 ->
  mh_seed s i < W64 /\ gibbs_seed s i < W64 /\ nuts_seed s i < W64.
Proof.
  intros s i Hs Hi.
  exact (conj (mh_seed_lt s i Hs Hi) (conj (gibbs_seed_lt s i Hs Hi) (nuts_seed_lt s i Hs Hi))).
Qed.

(* ... whereas the derivation before the repair (non-wrapping `+`, a panic on overflow) is
   undefined at the largest seed; where it is defined it agrees with the repaired one *)
Theorem C07_seed_largest :
  mh_seed (W64 - 1) 0 = 0 /\ mh_seed_checked (W64 - 1) 0 = None.
Proof. exact (conj mh_seed_total_example mh_seed_checked_overflows). Qed.

Theorem C07_seed_checked_agrees : forall s i v,
  mh_seed_checked s i = Some v -> v = mh_seed s i.
Proof. exact mh_seed_checked_agrees. Qed.

(* (7) the generator state is sensitive to the seed: different seeds, different states *)
Theorem C07_seed_sensitive : forall a b, a < W64 -> b < W64 -> a <> b ->
  seed_from_u64 a <> seed_from_u64 b.
Proof. intros a b Ha Hb Hne E. exact (Hne (seed_from_u64_inj a b Ha Hb E)). Qed.

(* (8) every seed gives a well-formed generator (four 64-bit words), stepping keeps it
   well-formed and every output is a 64-bit word *)
Theorem C07_generator_wf :
  (forall seed, wf (seed_from_u64 seed)) /\
  (forall s, wf s -> fst (next_u64 s) < W64 /\ wf (snd (next_u64 s))).
Proof. exact (conj wf_seed wf_next). Qed.

(* (9) every uniform variate is k / 2^53 (f64) or k / 2^24 (f32) with k below the denominator:
   it lies in [0,1) and 1 is never produced *)
Theorem C07_uniform_range :
  (forall s, wf s -> fst (uniform53 s) < 2 ^ 53) /\
  (forall s, wf s -> fst (uniform24 s) < 2 ^ 24).
Proof. exact (conj uniform53_range uniform24_range). Qed.

(* (10) the state used by the harness to inject a chosen variate yields exactly that output *)
Theorem C07_inject_first_output : forall v, v < W64 -> fst (next_u64 (inject_state v)) = v.
Proof. exact inject_first_output. Qed.

(* ---- non-vacuity *)
Close Scope N_scope.
Open Scope nat_scope.

(* three chains, two interleavings with equal per-chain counts (2, 2, 1); the step of chain i
   maps s to 2 s + i + 1 (so the steps do not commute as functions on a common state) *)
Example C07_schedules_concrete :
  let step := fun i s => 2 * s + i + 1 in
  let v := [0; 10; 20] in
  let sched1 := [0; 1; 2; 0; 1] in
  let sched2 := [1; 0; 0; 2; 1] in
  (forall i, In i sched1 -> i < length v) /\
  (forall i, In i sched2 -> i < length v) /\
  (forall i, count_occ Nat.eq_dec sched1 i = count_occ Nat.eq_dec sched2 i) /\
  Permutation sched1 sched2 /\
  exec step 0 sched1 v = [3; 46; 43] /\
  exec step 0 sched2 v = [3; 46; 43] /\
  isolated step (fun i => count_occ Nat.eq_dec sched1 i) v = [3; 46; 43] /\
  trace step 0 1 sched1 v = [22; 46] /\
  trace step 0 1 sched2 v = [22; 46].
Proof.
  cbv zeta. repeat split; try (vm_compute; reflexivity).
  - intros i [<-|[<-|[<-|[<-|[<-|[]]]]]]; simpl; lia.
  - intros i [<-|[<-|[<-|[<-|[<-|[]]]]]]; simpl; lia.
  - intros i. destruct i as [|[|[|i]]]; reflexivity.
  - apply (perm_trans (l' := [1; 0; 2; 0; 1])); [apply perm_swap|].
    apply perm_skip, perm_skip, perm_swap.
Qed.

(* the witness of (5): state and stream are naturals, a step adds the next stream value *)
Example C07_shared_stream_concrete :
  let step := fun (_ s g : nat) => (s + g, S g) in
  exec_shared step 0 [0; 1] [0; 0] 1 = ([1; 2], 3) /\
  exec_shared step 0 [1; 0] [0; 0] 1 = ([2; 1], 3).
Proof. split; vm_compute; reflexivity. Qed.

Print Assumptions C07_schedule_independent.
Print Assumptions C07_equals_isolated.
Print Assumptions C07_component.
Print Assumptions C07_length.
Print Assumptions C07_thread_partition_irrelevant.
Print Assumptions C07_chain_trace.
Print Assumptions C07_chain_trace_meaning.
Print Assumptions C07_shared_stream_refuted.
Print Assumptions C07_seed_total.
Print Assumptions C07_seed_largest.
Print Assumptions C07_seed_checked_agrees.
Print Assumptions C07_seed_sensitive.
Print Assumptions C07_generator_wf.
Print Assumptions C07_uniform_range.
Print Assumptions C07_inject_first_output.
