#!/usr/bin/env python3
"""manifest_add.py Cxx category 'text' 'note' [design_ref] — registers a check in MANIFEST.json."""
import json, sys
pid, cat, text, note = sys.argv[1:5]
ref = sys.argv[5] if len(sys.argv) > 5 else "§4 " + pid
p = '/verif/MANIFEST.json'
m = json.load(open(p))
m['not_applicable'] = [x for x in m['not_applicable'] if x['property_id'] != pid]
m['checks'] = [c for c in m['checks'] if c['property_id'] != pid]
m['checks'].append({
    "property_id": pid, "quick_cmd": "bin/vcheck %s --tier quick" % pid,
    "thorough_cmd": "bin/vcheck %s --tier thorough" % pid,
    "evidence_file": "/verif/evidence/%s.json" % pid,
    "replay_cmd_template": "bin/vcheck %s --replay {path}" % pid,
    "engine": "rocq+correspondence",
    "level_claimed": {"category": cat, "text": text, "design_ref": ref},
    "level_note": note,
    "technique": "machine-checked proof in Rocq (Coq 8.16.1) over a hand-written Gallina model + correspondence check (model evaluated in Coq by vm_compute vs implementation)"})
m['checks'].sort(key=lambda c: c['property_id'])
m['engines'][0]['serves_properties'] = [c['property_id'] for c in m['checks']]
json.dump(m, open(p, 'w'), indent=1)
