From MiniMcmc Require Import Base.Util Model.Run.

Section RunProofs.
  Context {St Row : Type}.
  Variable step : St -> St.
  Variable obs : St -> Row.
  Variable zero : Row.

  Lemma run_loop_fst k : forall i d s out,
    fst (run_loop step obs k i d s out) = iter k step s.
  Proof.
    induction k as [|k IH]; intros i d s out; simpl; auto.
    rewrite IH. apply iter_S_comm.
  Qed.

  Lemma run_loop_length k : forall i d s out,
    length (snd (run_loop step obs k i d s out)) = length out.
  Proof.
    induction k as [|k IH]; intros i d s out; simpl; auto.
    rewrite IH. destruct (d <=? i); auto using upd_length.
  Qed.

  Lemma run_loop_nth k : forall i d s out j z,
    nth j (snd (run_loop step obs k i d s out)) z =
    if (i <=? j + d) && (j + d <? i + k) && (j <? length out)
    then obs (iter (j + d - i + 1) step s) else nth j out z.
  Proof.
    induction k as [|k IH]; intros i d s out j z.
    - simpl.
      destruct (i <=? j + d) eqn:E1; destruct (j + d <? i + 0) eqn:E2; simpl; auto.
      apply Nat.leb_le in E1. apply Nat.ltb_lt in E2. lia.
    - cbn [run_loop]. rewrite IH.
      set (out' := if d <=? i then upd (i - d) (obs (step s)) out else out).
      assert (Hlen : length out' = length out).
      { unfold out'. destruct (d <=? i); auto using upd_length. }
      rewrite Hlen.
      destruct (Nat.lt_total (j + d) i) as [Hlt | [Heq | Hgt]].
      + (* not yet reached, never will *)
        replace (S i <=? j + d) with false by (symmetry; apply Nat.leb_gt; lia).
        replace (i <=? j + d) with false by (symmetry; apply Nat.leb_gt; lia).
        simpl. unfold out'. destruct (d <=? i) eqn:E; auto.
        apply nth_upd_other. apply Nat.leb_le in E. lia.
      + (* written right now *)
        replace (S i <=? j + d) with false by (symmetry; apply Nat.leb_gt; lia).
        replace (i <=? j + d) with true by (symmetry; apply Nat.leb_le; lia).
        replace (j + d <? i + S k) with true by (symmetry; apply Nat.ltb_lt; lia).
        simpl. unfold out'.
        replace (d <=? i) with true by (symmetry; apply Nat.leb_le; lia).
        replace (i - d) with j by lia.
        destruct (j <? length out) eqn:E.
        * apply Nat.ltb_lt in E. rewrite nth_upd_same by assumption.
          replace (j + d - i + 1) with 1 by lia. reflexivity.
        * apply Nat.ltb_ge in E. rewrite upd_ge by assumption. reflexivity.
      + (* written later, or never *)
        replace (S i <=? j + d) with true by (symmetry; apply Nat.leb_le; lia).
        replace (i <=? j + d) with true by (symmetry; apply Nat.leb_le; lia).
        replace (j + d <? S i + k) with (j + d <? i + S k) by (f_equal; lia).
        destruct ((j + d <? i + S k) && (j <? length out)) eqn:E; simpl; rewrite E.
        * replace (j + d - i + 1) with (S (j + d - S i + 1)) by lia.
          simpl. rewrite iter_S_comm. reflexivity.
        * unfold out'. destruct (d <=? i) eqn:E2; auto.
          apply nth_upd_other. apply Nat.leb_le in E2. lia.
  Qed.

  Theorem run_chain_impl_spec s n d :
    run_chain_impl step obs zero s n d = run_chain_spec step obs s n d.
  Proof.
    unfold run_chain_impl, run_chain_spec.
    rewrite (surjective_pairing (run_loop _ _ _ _ _ _ _)).
    f_equal.
    - apply run_loop_fst.
    - apply (list_eq_nth zero).
      + rewrite run_loop_length, repeat_length, map_length, seq_length. reflexivity.
      + intros j Hj. rewrite run_loop_length, repeat_length in Hj.
        rewrite run_loop_nth, repeat_length.
        replace (0 <=? j + d) with true by reflexivity.
        replace (j + d <? 0 + (n + d)) with true by (symmetry; apply Nat.ltb_lt; lia).
        replace (j <? n) with true by (symmetry; apply Nat.ltb_lt; lia).
        simpl.
        rewrite nth_map_seq by lia. f_equal. f_equal. lia.
  Qed.
End RunProofs.

Section RunProofs2.
  Context {St Row : Type}.
  Variable step : St -> St.
  Variable obs : St -> Row.
  Variable zero : Row.

  Theorem nuts_run_impl_spec s n d : 1 <= n ->
    nuts_run_impl step obs zero s n d = nuts_run_spec step obs s n d.
  Proof.
    intros Hn. unfold nuts_run_impl, nuts_run_spec.
    rewrite (surjective_pairing (run_loop _ _ _ _ _ _ _)).
    f_equal.
    - apply run_loop_fst.
    - apply (list_eq_nth zero).
      + rewrite run_loop_length, upd_length, repeat_length, map_length, seq_length. reflexivity.
      + intros j Hj. rewrite run_loop_length, upd_length, repeat_length in Hj.
        rewrite run_loop_nth, upd_length, repeat_length.
        replace (j + d <? 1 + (n + d - 1)) with true by (symmetry; apply Nat.ltb_lt; lia).
        replace (j <? n) with true by (symmetry; apply Nat.ltb_lt; lia).
        rewrite nth_map_seq by lia.
        destruct (1 <=? j + d) eqn:E; simpl.
        * apply Nat.leb_le in E. f_equal. f_equal. lia.
        * apply Nat.leb_gt in E. assert (j = 0) by lia. assert (d = 0) by lia. subst.
          destruct n as [|n']; [lia|]. reflexivity.
  Qed.

  (* NUTSChain::run_progress: n+d transitions, row k = state after d+k+1 of them,
     i.e. the run() trajectory shifted by one draw. *)
  Theorem nuts_run_progress_spec s n d :
    nuts_run_progress_impl step obs zero s n d = run_chain_spec step obs s n d.
  Proof.
    unfold nuts_run_progress_impl, run_chain_spec.
    rewrite (surjective_pairing (run_loop _ _ _ _ _ _ _)).
    f_equal.
    - apply run_loop_fst.
    - apply (list_eq_nth zero).
      + rewrite run_loop_length, upd_length, repeat_length, map_length, seq_length. reflexivity.
      + intros j Hj. rewrite run_loop_length, upd_length, repeat_length in Hj.
        rewrite run_loop_nth, upd_length, repeat_length.
        replace (0 <=? j + d) with true by reflexivity.
        replace (j + d <? 0 + (n + d)) with true by (symmetry; apply Nat.ltb_lt; lia).
        replace (j <? n) with true by (symmetry; apply Nat.ltb_lt; lia).
        simpl.
        rewrite nth_map_seq by lia. f_equal. f_equal. lia.
  Qed.

  Corollary nuts_progress_is_shifted_run s n d : 1 <= n ->
    snd (nuts_run_progress_impl step obs zero s n d)
    = snd (nuts_run_impl step obs zero (step s) n d).
  Proof.
    intros Hn. rewrite nuts_run_progress_spec, nuts_run_impl_spec by assumption.
    unfold run_chain_spec, nuts_run_spec; simpl.
    apply map_ext. intros k. f_equal.
    replace (d + k + 1) with (S (d + k)) by lia. simpl. symmetry. apply iter_S_comm.
  Qed.

  (* ---- continuation ---- *)
  Theorem run_chain_continuation s n1 n2 d :
    let r1 := run_chain_spec step obs s n1 d in
    let r2 := run_chain_spec step obs (fst r1) n2 0 in
    run_chain_spec step obs s (n1 + n2) d = (fst r2, snd r1 ++ snd r2).
  Proof.
    unfold run_chain_spec; simpl. f_equal.
    - rewrite <- iter_add. f_equal. lia.
    - rewrite seq_app, map_app. f_equal. simpl.
      rewrite map_seq_shift. apply map_ext. intros k.
      f_equal. rewrite <- iter_add. f_equal. lia.
  Qed.

  Theorem run_chain_final_is_last_row s n d : 1 <= n ->
    let r := run_chain_spec step obs s n d in
    last (snd r) zero = obs (fst r).
  Proof.
    intros Hn. unfold run_chain_spec; simpl.
    destruct n as [|n]; [lia|].
    rewrite seq_S, map_app. simpl. rewrite last_last. f_equal.
    replace (d + n + 1) with (S (n + d)) by lia. reflexivity.
  Qed.

  Theorem nuts_run_continuation_first_row s n1 n2 d : 1 <= n1 -> 1 <= n2 ->
    let r1 := nuts_run_spec step obs s n1 d in
    let r2 := nuts_run_spec step obs (fst r1) n2 0 in
    nth 0 (snd r2) zero = last (snd r1) zero.
  Proof.
    intros H1 H2. unfold nuts_run_spec; simpl.
    destruct n2 as [|n2]; [lia|]. destruct n1 as [|n1]; [lia|].
    rewrite (seq_S n1), map_app. simpl. rewrite last_last. f_equal. f_equal. lia.
  Qed.

  (* ---- runner: chain order ---- *)
  Theorem runner_impl_spec chains n d :
    runner_impl step obs zero chains n d = runner_spec step obs chains n d.
  Proof.
    unfold runner_impl, runner_spec. rewrite !map_map. f_equal.
    - apply map_ext. intros c. rewrite run_chain_impl_spec. reflexivity.
    - apply map_ext. intros c. rewrite run_chain_impl_spec. reflexivity.
  Qed.

  Corollary runner_row_is_own_chain chains n d c s0 : c < length chains ->
    nth c (snd (runner_impl step obs zero chains n d)) [] =
    snd (run_chain_spec step obs (nth c chains s0) n d).
  Proof.
    intros Hc. rewrite runner_impl_spec. unfold runner_spec, run_chain_spec; simpl.
    rewrite (nth_indep _ [] ((fun c0 => map (fun k => obs (iter (d + k + 1) step c0)) (seq 0 n)) s0))
      by (rewrite map_length; assumption).
    rewrite (map_nth (fun c0 => map (fun k => obs (iter (d + k + 1) step c0)) (seq 0 n)) chains s0 c).
    reflexivity.
  Qed.
End RunProofs2.

Section HmcRun.
  Context {St Row : Type}.
  Variable step : St -> St.
  Variable obs : St -> list Row.
  Variable zero : Row.
  Variable n_chains : nat.

  Lemma hmc_collect_fst k : forall idx s out,
    fst (hmc_collect step obs k idx s out) = iter k step s.
  Proof.
    induction k as [|k IH]; intros; simpl; auto. rewrite IH. apply iter_S_comm.
  Qed.

  Lemma hmc_collect_length k : forall idx s out,
    length (snd (hmc_collect step obs k idx s out)) = length out.
  Proof.
    induction k as [|k IH]; intros; simpl; auto. rewrite IH. apply upd_length.
  Qed.

  Lemma hmc_collect_nth k : forall idx s out j z,
    nth j (snd (hmc_collect step obs k idx s out)) z =
    if (idx <=? j) && (j <? idx + k) && (j <? length out)
    then obs (iter (j - idx + 1) step s) else nth j out z.
  Proof.
    induction k as [|k IH]; intros idx s out j z.
    - simpl. destruct (idx <=? j) eqn:E1; destruct (j <? idx + 0) eqn:E2; simpl; auto.
      apply Nat.leb_le in E1. apply Nat.ltb_lt in E2. lia.
    - cbn [hmc_collect]. rewrite IH, upd_length.
      destruct (Nat.lt_total j idx) as [Hlt | [Heq | Hgt]].
      + replace (S idx <=? j) with false by (symmetry; apply Nat.leb_gt; lia).
        replace (idx <=? j) with false by (symmetry; apply Nat.leb_gt; lia).
        simpl. apply nth_upd_other. lia.
      + subst j.
        replace (S idx <=? idx) with false by (symmetry; apply Nat.leb_gt; lia).
        replace (idx <=? idx) with true by (symmetry; apply Nat.leb_le; lia).
        replace (idx <? idx + S k) with true by (symmetry; apply Nat.ltb_lt; lia).
        simpl. destruct (idx <? length out) eqn:E.
        * apply Nat.ltb_lt in E. rewrite nth_upd_same by assumption.
          replace (idx - idx + 1) with 1 by lia. reflexivity.
        * apply Nat.ltb_ge in E. rewrite upd_ge by assumption. reflexivity.
      + replace (S idx <=? j) with true by (symmetry; apply Nat.leb_le; lia).
        replace (idx <=? j) with true by (symmetry; apply Nat.leb_le; lia).
        replace (j <? S idx + k) with (j <? idx + S k) by (f_equal; lia).
        destruct ((j <? idx + S k) && (j <? length out)) eqn:E; simpl; rewrite E.
        * replace (j - idx + 1) with (S (j - S idx + 1)) by lia.
          simpl. rewrite iter_S_comm. reflexivity.
        * apply nth_upd_other. lia.
  Qed.

  Theorem hmc_run_impl_spec s n d :
    hmc_run_impl step obs zero n_chains s n d = hmc_run_spec step obs zero n_chains s n d.
  Proof.
    unfold hmc_run_impl, hmc_run_spec.
    rewrite (surjective_pairing (hmc_collect _ _ _ _ _ _)).
    f_equal.
    - rewrite hmc_collect_fst. rewrite <- iter_add. reflexivity.
    - unfold transpose_to. apply map_ext. intros c.
      apply map_ext_in. intros k Hk. apply in_seq in Hk.
      rewrite hmc_collect_nth, repeat_length.
      replace (0 <=? k) with true by reflexivity.
      replace (k <? 0 + n) with true by (symmetry; apply Nat.ltb_lt; lia).
      replace (k <? n) with true by (symmetry; apply Nat.ltb_lt; lia).
      simpl. f_equal. f_equal.
      replace (k - 0 + 1) with (k + 1) by lia.
      rewrite <- iter_add. f_equal. lia.
  Qed.

  Theorem hmc_run_continuation s n1 n2 d :
    let r1 := hmc_run_spec step obs zero n_chains s n1 d in
    let r2 := hmc_run_spec step obs zero n_chains (fst r1) n2 0 in
    hmc_run_spec step obs zero n_chains s (n1 + n2) d
    = (fst r2, map (fun c => nth c (snd r1) [] ++ nth c (snd r2) []) (seq 0 n_chains)).
  Proof.
    unfold hmc_run_spec; simpl. f_equal.
    - rewrite <- iter_add. f_equal. lia.
    - apply map_ext_in. intros c Hc. apply in_seq in Hc.
      set (f1 := fun c0 => map (fun k => nth c0 (obs (iter (d + k + 1) step s)) zero) (seq 0 n1)).
      set (f2 := fun c0 => map (fun k => nth c0 (obs (iter (k + 1) step (iter (n1 + d) step s))) zero) (seq 0 n2)).
      rewrite (nth_indep _ [] (f1 0)) by (rewrite map_length, seq_length; lia).
      rewrite (map_nth f1 (seq 0 n_chains) 0 c).
      rewrite (nth_indep _ [] (f2 0)) by (rewrite map_length, seq_length; lia).
      rewrite (map_nth f2 (seq 0 n_chains) 0 c).
      rewrite seq_nth by lia. simpl. unfold f1, f2.
      rewrite seq_app, map_app. f_equal. simpl.
      rewrite map_seq_shift. apply map_ext. intros k.
      f_equal. f_equal. rewrite <- iter_add. f_equal. lia.
  Qed.
End HmcRun.
