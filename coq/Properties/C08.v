(* C08 — Distinct chains use distinct random streams: for every 64-bit user seed the per-chain
   seeds of each sampler are pairwise distinct (also when the addition wraps around), so are the
   generator states the chains start from; within one Metropolis-Hastings sampler no acceptance
   generator is seeded like any proposal generator; and the rows of a batched HMC draw read
   disjoint segments of the one batch stream.
   Models: Model/Seeds.v (mh_seed, gibbs_seed, nuts_seed, mh_prop_seed), Base/Rng.v
   (seed_from_u64 = SplitMix64 seeding of Xoshiro256++).  Proofs: Proofs/Rng.v, Proofs/Sched.v,
   Proofs/RngBij.v (the generator's state transition is a bijection, so streams that start apart
   stay apart after every number of draws). *)
From MiniMcmc Require Import Model.Seeds Model.Sched.
From MiniMcmc Require Import Proofs.Rng Proofs.Sched Proofs.RngBij.
Open Scope N_scope.

(* (1) chain seeds are pairwise distinct, for every seed and all chain indices below 2^64 *)
Theorem C08_seeds_distinct : forall s i j, s < W64 -> i < W64 -> j < W64 -> i <> j ->
  mh_seed s i <> mh_seed s j /\ gibbs_seed s i <> gibbs_seed s j /\
  nuts_seed s i <> nuts_seed s j /\ mh_prop_seed s i <> mh_prop_seed s j.
Proof.
  intros s i j Hs Hi Hj Hne.
  repeat split; intro E; apply Hne;
    [exact (mh_seed_inj s i j Hs Hi Hj E)|exact (gibbs_seed_inj s i j Hs Hi Hj E)
    |exact (nuts_seed_inj s i j Hs Hi Hj E)|exact (mh_prop_seed_inj s i j Hs Hi Hj E)].
Qed.

(* (2) and the chains do not start from the same generator state (SplitMix64 seeding is
   injective on 64-bit seeds) *)
Theorem C08_states_distinct : forall s i j, s < W64 -> i < W64 -> j < W64 -> i <> j ->
  seed_from_u64 (mh_seed s i) <> seed_from_u64 (mh_seed s j) /\
  seed_from_u64 (gibbs_seed s i) <> seed_from_u64 (gibbs_seed s j) /\
  seed_from_u64 (nuts_seed s i) <> seed_from_u64 (nuts_seed s j) /\
  seed_from_u64 (mh_prop_seed s i) <> seed_from_u64 (mh_prop_seed s j).
Proof.
  intros s i j Hs Hi Hj Hne.
  exact (conj (mh_states_distinct s i j Hs Hi Hj Hne)
        (conj (gibbs_states_distinct s i j Hs Hi Hj Hne)
        (conj (nuts_states_distinct s i j Hs Hi Hj Hne)
              (mh_prop_states_distinct s i j Hs Hi Hj Hne)))).
Qed.

(* (3) within a sampler of fewer than 2^63 chains no acceptance generator is seeded like any
   proposal generator — in particular (i = j) not the one of the same chain *)
Theorem C08_acc_vs_prop : forall s i j, s < W64 -> i < HALF -> j < HALF ->
  mh_seed s i <> mh_prop_seed s j /\
  seed_from_u64 (mh_seed s i) <> seed_from_u64 (mh_prop_seed s j).
Proof.
  intros s i j Hs Hi Hj.
  exact (conj (mh_acc_prop_disjoint s i j Hs Hi Hj) (mh_acc_prop_states_distinct s i j Hs Hi Hj)).
Qed.

(* (3a) one draw permutes the generator states: the transition (next_state = state after one
   next_u64) has the explicit two-sided inverse prev_state on well-formed states, which it
   preserves, and is therefore injective *)
Theorem C08_transition_bijective :
  (forall s, wf s -> wf (next_state s) /\ wf (prev_state s)) /\
  (forall s, wf s -> prev_state (next_state s) = s) /\
  (forall s, wf s -> next_state (prev_state s) = s) /\
  (forall s t, wf s -> wf t -> next_state s = next_state t -> s = t).
Proof.
  exact (conj (fun s H => conj (wf_next_state s H) (wf_prev s H))
        (conj prev_next (conj next_prev next_state_inj))).
Qed.

(* (3b) hence the chains' generators, which start in distinct states (2), are in distinct states
   after every number k of draws: the random streams never synchronise *)
Theorem C08_streams_never_synchronise : forall s i j k, s < W64 -> i < W64 -> j < W64 -> i <> j ->
  steps k (seed_from_u64 (mh_seed s i)) <> steps k (seed_from_u64 (mh_seed s j)) /\
  steps k (seed_from_u64 (gibbs_seed s i)) <> steps k (seed_from_u64 (gibbs_seed s j)) /\
  steps k (seed_from_u64 (nuts_seed s i)) <> steps k (seed_from_u64 (nuts_seed s j)) /\
  steps k (seed_from_u64 (mh_prop_seed s i)) <> steps k (seed_from_u64 (mh_prop_seed s j)).
Proof.
  intros s i j k Hs Hi Hj Hne.
  destruct (C08_states_distinct s i j Hs Hi Hj Hne) as (H1 & H2 & H3 & H4).
  repeat split; apply steps_never_merge; try apply wf_seed; assumption.
Qed.

(* (3c) nor does any acceptance generator ever reach the state of any proposal generator after the
   same number of draws *)
Theorem C08_acc_prop_never_synchronise : forall s i j k, s < W64 -> i < HALF -> j < HALF ->
  steps k (seed_from_u64 (mh_seed s i)) <> steps k (seed_from_u64 (mh_prop_seed s j)).
Proof.
  intros s i j k Hs Hi Hj.
  apply steps_never_merge; [apply wf_seed|apply wf_seed|].
  exact (proj2 (C08_acc_vs_prop s i j Hs Hi Hj)).
Qed.

(* (3d) `steps` is the state sequence behind the output stream of Base/Rng.v: the j-th of k
   successive outputs is the output function applied to the state after j transitions *)
Theorem C08_output_is_state_function : forall j k s d, (j < k)%nat ->
  nth j (outputs k s) d = fst (next_u64 (steps j s)).
Proof. exact nth_output. Qed.

Close Scope N_scope.
Open Scope nat_scope.

(* (4) HMC draws the momenta of a batch of n chains x d dimensions as one stream segment of n*d
   values, row (chain) i using positions [i*d, (i+1)*d): different rows read different positions,
   every position read lies inside the segment, ... *)
Theorem C08_hmc_rows_disjoint : forall n d i j a b : nat,
  i <> j -> i < n -> j < n -> a < d -> b < d ->
  i * d + a <> j * d + b /\ i * d + a < n * d.
Proof.
  intros n d i j a b Hij Hi Hj Ha Hb.
  exact (conj (rows_disjoint n d i j a b Hij Hi Hj Ha Hb) (row_index_in_range n d i a Hi Ha)).
Qed.

(* ... and (chain, dimension) <-> position is one-to-one and onto: no value of the segment is
   used twice and none is skipped *)
Theorem C08_hmc_rows_bijective :
  (forall d i j a b : nat, a < d -> b < d -> i * d + a = j * d + b -> i = j /\ a = b) /\
  (forall n d p : nat, p < n * d -> exists i a, i < n /\ a < d /\ p = i * d + a).
Proof. exact (conj row_index_inj row_index_surj). Qed.

(* ---- non-vacuity *)
Open Scope N_scope.

(* seed 2^64 - 2, four chains: the MH seeds wrap around and stay pairwise distinct *)
Example C08_wraparound_concrete :
  map (mh_seed (W64 - 2)) [0; 1; 2; 3] = [W64 - 1; 0; 1; 2] /\
  NoDup (map (mh_seed (W64 - 2)) [0; 1; 2; 3]) /\
  map (mh_prop_seed (W64 - 2)) [0; 1; 2; 3] = [HALF - 1; HALF; HALF + 1; HALF + 2] /\
  W64 - 2 < W64 /\ 3 < HALF.
Proof.
  split; [vm_compute; reflexivity|]. split; [|split; [vm_compute; reflexivity|split; reflexivity]].
  replace (map (mh_seed (W64 - 2)) [0; 1; 2; 3]) with [W64 - 1; 0; 1; 2] by (vm_compute; reflexivity).
  repeat constructor; simpl; intros H; repeat (destruct H as [H|H]; [discriminate H|]); exact H.
Qed.

(* the first generator words of chains 0 and 1 for that seed indeed differ *)
Example C08_states_concrete :
  s0 (seed_from_u64 (mh_seed (W64 - 2) 0)) <> s0 (seed_from_u64 (mh_seed (W64 - 2) 1)) /\
  s0 (seed_from_u64 (mh_seed 42 0)) <> s0 (seed_from_u64 (mh_prop_seed 42 0)).
Proof. split; vm_compute; discriminate. Qed.

(* seed 42, chains 0 and 1 (42 < 2^64, 0 <> 1, 1 < 2^63): after five draws the acceptance
   generators are in different states, and so are chain 0's acceptance and proposal generators *)
Example C08_never_synchronise_concrete :
  steps 5 (seed_from_u64 (mh_seed 42 0)) <> steps 5 (seed_from_u64 (mh_seed 42 1)) /\
  steps 5 (seed_from_u64 (mh_seed 42 0)) <> steps 5 (seed_from_u64 (mh_prop_seed 42 0)) /\
  42 < W64 /\ 1 < HALF.
Proof.
  split; [|split; [|split; reflexivity]];
    intro E; apply (f_equal s0) in E; vm_compute in E; discriminate E.
Qed.

Print Assumptions C08_seeds_distinct.
Print Assumptions C08_states_distinct.
Print Assumptions C08_acc_vs_prop.
Print Assumptions C08_transition_bijective.
Print Assumptions C08_streams_never_synchronise.
Print Assumptions C08_acc_prop_never_synchronise.
Print Assumptions C08_output_is_state_function.
Print Assumptions C08_hmc_rows_disjoint.
Print Assumptions C08_hmc_rows_bijective.
