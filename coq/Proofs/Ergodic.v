(* Proofs about Model/Ergodic.v: a kernel with a uniform minorisation (Doeblin) contracts the l1
   distance between laws of equal mass, hence geometric convergence to a stationary law on a finite
   state space; the Metropolis kernel on a deterministic involutive proposal is reversible,
   stochastic and leaves the weights stationary; the HMC proposal (L leapfrog steps, then momentum
   flip) is such an involution over the exact reals. *)
From MiniMcmc Require Import Base.Num Base.Util Model.MH Proofs.MH Model.HMC Proofs.HMC Model.Ergodic.
From Coq Require Import Reals Lra Lia List.
Import ListNotations.
Local Open Scope R_scope.

(* ------------------------------------------------------------------ finite sums *)
Lemma list_nil_or_in {A} (l : list A) : l = [] \/ exists x, In x l.
Proof. destruct l as [|a l]; [left; reflexivity|right; exists a; left; reflexivity]. Qed.

Section Sums.
  Context {St : Type}.

  Lemma sumR_cons (f : St -> R) a l : sumR f (a :: l) = f a + sumR f l.
  Proof. reflexivity. Qed.

  Lemma sumR_ext_in (f g : St -> R) l : (forall x, In x l -> f x = g x) -> sumR f l = sumR g l.
  Proof.
    induction l as [|a l IH]; intros H; [reflexivity|].
    rewrite !sumR_cons. rewrite (H a (or_introl eq_refl)). rewrite IH; [reflexivity|].
    intros x Hx. apply H. right. exact Hx.
  Qed.

  Lemma sumR_le_in (f g : St -> R) l : (forall x, In x l -> f x <= g x) -> sumR f l <= sumR g l.
  Proof.
    induction l as [|a l IH]; intros H; [apply Rle_refl|].
    rewrite !sumR_cons. apply Rplus_le_compat.
    - apply H. left. reflexivity.
    - apply IH. intros x Hx. apply H. right. exact Hx.
  Qed.

  Lemma sumR_zero (l : list St) : sumR (fun _ => 0) l = 0.
  Proof. induction l as [|a l IH]; [reflexivity|]. rewrite sumR_cons, IH. lra. Qed.

  Lemma sumR_const c (l : list St) : sumR (fun _ => c) l = INR (length l) * c.
  Proof.
    induction l as [|a l IH]; [simpl; lra|].
    rewrite sumR_cons, IH. change (length (a :: l)) with (S (length l)). rewrite S_INR. lra.
  Qed.

  Lemma sumR_minus (f g : St -> R) l : sumR (fun x => f x - g x) l = sumR f l - sumR g l.
  Proof. induction l as [|a l IH]; [simpl; lra|]. rewrite !sumR_cons, IH. lra. Qed.

  Lemma sumR_scal_r c (f : St -> R) l : sumR (fun x => f x * c) l = sumR f l * c.
  Proof. induction l as [|a l IH]; [simpl; lra|]. rewrite !sumR_cons, IH. lra. Qed.

  Lemma sumR_nonneg (f : St -> R) l : (forall x, In x l -> 0 <= f x) -> 0 <= sumR f l.
  Proof. intros H. rewrite <- (sumR_zero l). apply sumR_le_in. exact H. Qed.

  Lemma Rabs_sumR (f : St -> R) l : Rabs (sumR f l) <= sumR (fun x => Rabs (f x)) l.
  Proof.
    induction l as [|a l IH]; [simpl; rewrite Rabs_R0; apply Rle_refl|].
    rewrite !sumR_cons. eapply Rle_trans; [apply Rabs_triang|]. lra.
  Qed.

End Sums.

(* Fubini for two finite sums *)
Lemma sumR_swap {S T : Type} (h : S -> T -> R) (l : list S) (m : list T) :
  sumR (fun x => sumR (fun y => h x y) m) l = sumR (fun y => sumR (fun x => h x y) l) m.
Proof.
  induction l as [|a l IH].
  - simpl. symmetry. apply sumR_zero.
  - rewrite sumR_cons, IH.
    rewrite <- (sumR_plus (fun y => h a y) (fun y => sumR (fun x => h x y) l) m).
    apply sumR_ext. intros y. rewrite sumR_cons. reflexivity.
Qed.

(* ------------------------------------------------------------------ Doeblin minorisation *)
Section Doeblin.
  Context {St : Type}.
  Variable states : list St.
  Variable P : St -> St -> R.
  Hypothesis P_row : forall x, In x states -> sumR (P x) states = 1.

  (* push and l1 read their arguments on `states` only *)
  Lemma push_ext_in (mu mu' : St -> R) y :
    (forall x, In x states -> mu x = mu' x) -> push states P mu y = push states P mu' y.
  Proof. intros H. unfold push. apply sumR_ext_in. intros x Hx. rewrite (H x Hx). reflexivity. Qed.

  Lemma l1_ext_in (mu mu' nu nu' : St -> R) :
    (forall x, In x states -> mu x = mu' x) -> (forall x, In x states -> nu x = nu' x) ->
    l1 states mu nu = l1 states mu' nu'.
  Proof.
    intros Hm Hn. unfold l1. apply sumR_ext_in. intros x Hx. rewrite (Hm x Hx), (Hn x Hx). reflexivity.
  Qed.

  Lemma l1_nonneg (mu nu : St -> R) : 0 <= l1 states mu nu.
  Proof. unfold l1. apply sumR_nonneg. intros x _. apply Rabs_pos. Qed.

  (* a stochastic kernel preserves total mass *)
  Theorem push_mass (mu : St -> R) : sumR (push states P mu) states = sumR mu states.
  Proof.
    unfold push.
    transitivity (sumR (fun x => sumR (fun y => mu x * P x y) states) states).
    - exact (sumR_swap (fun y x => mu x * P x y) states states).
    - apply sumR_ext_in. intros x Hx.
      rewrite (sumR_scal (mu x) (fun y => P x y) states).
      change (sumR (fun y => P x y) states) with (sumR (P x) states).
      rewrite (P_row x Hx). lra.
  Qed.

  Lemma pushn_mass (mu : St -> R) n : sumR (pushn states P n mu) states = sumR mu states.
  Proof.
    induction n as [|n IH]; [reflexivity|].
    change (pushn states P (S n) mu) with (push states P (pushn states P n mu)).
    rewrite push_mass. exact IH.
  Qed.

  Variable delta : R.
  Hypothesis P_minor : forall x y, In x states -> In y states -> delta <= P x y.

  Lemma doeblin_coef_nonneg : states <> [] -> 0 <= 1 - INR (length states) * delta.
  Proof.
    intros Hne. destruct (list_nil_or_in states) as [E|[x Hx]]; [contradiction|].
    rewrite <- (P_row x Hx), <- (sumR_const delta states).
    rewrite <- (sumR_minus (P x) (fun _ => delta) states).
    apply sumR_nonneg. intros y Hy. pose proof (P_minor x y Hx Hy). lra.
  Qed.

  Lemma push_diff (mu nu : St -> R) y : sumR mu states = sumR nu states ->
    push states P mu y - push states P nu y =
    sumR (fun x => (mu x - nu x) * (P x y - delta)) states.
  Proof.
    intros Hmass. unfold push.
    rewrite (sumR_ext (fun x => (mu x - nu x) * (P x y - delta))
                      (fun x => (mu x * P x y - nu x * P x y) - (mu x - nu x) * delta))
      by (intros x; ring).
    rewrite (sumR_minus (fun x => mu x * P x y - nu x * P x y) (fun x => (mu x - nu x) * delta)).
    rewrite (sumR_minus (fun x => mu x * P x y) (fun x => nu x * P x y)).
    rewrite (sumR_scal_r delta (fun x => mu x - nu x)).
    rewrite (sumR_minus mu nu), Hmass. ring.
  Qed.

  (* one step contracts the l1 distance between two mass functions of the same total mass *)
  Theorem doeblin_contraction (mu nu : St -> R) : sumR mu states = sumR nu states ->
    l1 states (push states P mu) (push states P nu)
    <= (1 - INR (length states) * delta) * l1 states mu nu.
  Proof.
    intros Hmass. unfold l1 at 1.
    apply Rle_trans with
      (sumR (fun y => sumR (fun x => Rabs (mu x - nu x) * (P x y - delta)) states) states).
    - apply sumR_le_in. intros y Hy. rewrite (push_diff mu nu y Hmass).
      eapply Rle_trans; [apply Rabs_sumR|].
      apply Req_le. apply sumR_ext_in. intros x Hx.
      rewrite Rabs_mult. f_equal. apply Rabs_pos_eq.
      pose proof (P_minor x y Hx Hy). lra.
    - apply Req_le.
      transitivity (sumR (fun x => sumR (fun y => Rabs (mu x - nu x) * (P x y - delta)) states) states).
      + exact (sumR_swap (fun y x => Rabs (mu x - nu x) * (P x y - delta)) states states).
      + unfold l1. rewrite Rmult_comm.
        rewrite <- (sumR_scal_r (1 - INR (length states) * delta) (fun x => Rabs (mu x - nu x))).
        apply sumR_ext_in. intros x Hx.
        rewrite (sumR_scal (Rabs (mu x - nu x)) (fun y => P x y - delta)).
        rewrite (sumR_minus (P x) (fun _ => delta)), (P_row x Hx), sumR_const. reflexivity.
  Qed.

  Variable pi : St -> R.
  Hypothesis pi_stat : forall y, In y states -> push states P pi y = pi y.

  (* geometric convergence of the n-step law to the stationary law *)
  Theorem doeblin_geometric (mu : St -> R) : sumR mu states = sumR pi states ->
    forall n, l1 states (pushn states P n mu) pi
              <= (1 - INR (length states) * delta) ^ n * l1 states mu pi.
  Proof.
    intros Hmass n.
    destruct (list_nil_or_in states) as [E|[x0 Hx0]].
    - (* no states: every l1 distance is 0 *)
      unfold l1. rewrite E. simpl sumR. lra.
    - assert (Hc : 0 <= 1 - INR (length states) * delta).
      { apply doeblin_coef_nonneg. intros E. rewrite E in Hx0. exact Hx0. }
      induction n as [|n IH].
      + change (pushn states P 0 mu) with mu. rewrite pow_O. lra.
      + change (pushn states P (S n) mu) with (push states P (pushn states P n mu)).
        rewrite (l1_ext_in (push states P (pushn states P n mu)) (push states P (pushn states P n mu))
                           pi (push states P pi))
          by (intros x Hx; first [reflexivity|symmetry; apply pi_stat; exact Hx]).
        eapply Rle_trans.
        * apply doeblin_contraction. rewrite pushn_mass. exact Hmass.
        * rewrite <- tech_pow_Rmult, Rmult_assoc. apply Rmult_le_compat_l; [exact Hc|exact IH].
  Qed.

  (* hence convergence: with a strictly positive minorisation the distance falls below any eps *)
  Theorem doeblin_limit (mu : St -> R) : 0 < delta -> states <> [] ->
    sumR mu states = sumR pi states ->
    forall eps, 0 < eps -> exists n0, forall n, (n0 <= n)%nat ->
      l1 states (pushn states P n mu) pi < eps.
  Proof.
    intros Hdelta Hne Hmass eps Heps.
    set (c := 1 - INR (length states) * delta).
    set (M := l1 states mu pi).
    assert (Hc0 : 0 <= c) by (apply doeblin_coef_nonneg; exact Hne).
    assert (HN : 1 <= INR (length states)).
    { destruct (list_nil_or_in states) as [E|[x Hx]]; [contradiction|].
      destruct states as [|a l]; [contradiction|].
      change (length (a :: l)) with (S (length l)). rewrite S_INR.
      pose proof (pos_INR (length l)). lra. }
    assert (Hc1 : c < 1) by (unfold c; nra).
    assert (HM : 0 <= M) by apply l1_nonneg.
    assert (Habs : Rabs c < 1) by (rewrite Rabs_pos_eq; assumption).
    assert (Hy : 0 < eps / (M + 1)) by (apply Rdiv_lt_0_compat; lra).
    destruct (pow_lt_1_zero c Habs (eps / (M + 1)) Hy) as [n0 Hn0].
    exists n0. intros n Hn.
    eapply Rle_lt_trans; [apply doeblin_geometric; exact Hmass|]. fold c. fold M.
    assert (Hp : Rabs (c ^ n) < eps / (M + 1)) by (apply Hn0; lia).
    assert (Hp' : c ^ n < eps / (M + 1)) by (eapply Rle_lt_trans; [apply Rle_abs|exact Hp]).
    assert (Hpn : 0 <= c ^ n) by (apply pow_le; exact Hc0).
    apply Rle_lt_trans with (eps / (M + 1) * M).
    - apply Rmult_le_compat_r; lra.
    - assert (Hq : eps / (M + 1) * M = eps - eps / (M + 1)) by (field; lra). lra.
  Qed.
End Doeblin.

(* ------------------------------------------------------------------ Metropolis on an involution *)
Section Involutive.
  Context {St : Type}.
  Variable eqb : St -> St -> bool.
  Hypothesis eqb_spec : forall x y, eqb x y = true <-> x = y.
  Variable w : St -> R.
  Variable F : St -> St.
  Hypothesis w_pos : forall x, 0 < w x.
  Hypothesis F_inv : forall x, F (F x) = x.

  Lemma eqb_refl_true x : eqb x x = true.
  Proof. apply eqb_spec. reflexivity. Qed.

  Theorem involutive_detailed_balance x y :
    w x * Kinv eqb w F x y = w y * Kinv eqb w F y x.
  Proof.
    destruct (eqb x y) eqn:Exy.
    - apply eqb_spec in Exy. subst y. reflexivity.
    - unfold Kinv. rewrite (eqb_sym eqb eqb_spec y x), Exy.
      destruct (eqb (F x) y) eqn:E1.
      + apply eqb_spec in E1. subst y.
        rewrite (F_inv x), (eqb_refl_true x). unfold ainv. rewrite (F_inv x), !Rplus_0_r.
        rewrite (min_ratio (w x) (w (F x)) (w_pos x)).
        rewrite (min_ratio (w (F x)) (w x) (w_pos (F x))). apply Rmin_comm.
      + destruct (eqb (F y) x) eqn:E2.
        * apply eqb_spec in E2. subst x. rewrite (F_inv y), (eqb_refl_true y) in E1. discriminate E1.
        * lra.
  Qed.

  Variable states : list St.
  Hypothesis states_nodup : NoDup states.
  Hypothesis F_closed : forall x, In x states -> In (F x) states.

  Theorem involutive_row_sum x : In x states -> sumR (Kinv eqb w F x) states = 1.
  Proof.
    intros Hx.
    rewrite (sumR_ext (Kinv eqb w F x)
                      (fun y => (if eqb y (F x) then ainv w F x else 0)
                                + (if eqb y x then 1 - ainv w F x else 0))).
    2:{ intros y. unfold Kinv.
        rewrite (eqb_sym eqb eqb_spec (F x) y), (eqb_sym eqb eqb_spec x y). reflexivity. }
    rewrite (sumR_plus (fun y => if eqb y (F x) then ainv w F x else 0)
                       (fun y => if eqb y x then 1 - ainv w F x else 0)).
    rewrite (sumR_indicator eqb eqb_spec (fun _ => ainv w F x) (F x) states states_nodup (F_closed x Hx)).
    rewrite (sumR_indicator eqb eqb_spec (fun _ => 1 - ainv w F x) x states states_nodup Hx).
    lra.
  Qed.

  Theorem involutive_stationary y : In y states ->
    sumR (fun x => w x * Kinv eqb w F x y) states = w y.
  Proof.
    intros Hy.
    rewrite (sumR_ext (fun x => w x * Kinv eqb w F x y) (fun x => w y * Kinv eqb w F y x))
      by (intros x; apply involutive_detailed_balance).
    rewrite (sumR_scal (w y) (fun x => Kinv eqb w F y x) states).
    change (sumR (fun x => Kinv eqb w F y x) states) with (sumR (Kinv eqb w F y) states).
    rewrite (involutive_row_sum y Hy). lra.
  Qed.
End Involutive.

(* ------------------------------------------------------------------ the HMC proposal is an involution *)
Section HmcInvolution.
  Variable grad : list R -> list R.
  Variable eps : R.
  Variable L : nat.
  Hypothesis grad_length : forall x, length (grad x) = length x.

  Lemma vneg_vneg (p : list R) : vneg numR (vneg numR p) = p.
  Proof.
    unfold vneg. induction p as [|a p IH]; [reflexivity|].
    simpl in *. f_equal; [ring|exact IH].
  Qed.

  Lemma flip_flip (z : list R * list R) : flip numR (flip numR z) = z.
  Proof. destruct z as [x p]. unfold flip. cbn [fst snd]. rewrite vneg_vneg. reflexivity. Qed.

  (* the proposal keeps momentum and position of equal length, and the position's length *)
  Lemma hmc_proposal_length x p : length p = length x ->
    length (snd (flip numR (leapfrog numR grad eps L (x, p))))
    = length (fst (flip numR (leapfrog numR grad eps L (x, p)))) /\
    length (fst (flip numR (leapfrog numR grad eps L (x, p)))) = length x.
  Proof.
    intros Hp.
    destruct (leapfrog_length numR grad eps grad_length L (x, p) Hp) as [H1 H2].
    unfold flip. cbn [fst snd] in *. rewrite vneg_length. split; assumption.
  Qed.

  Theorem hmc_proposal_involution x p : length p = length x ->
    flip numR (leapfrog numR grad eps L (flip numR (leapfrog numR grad eps L (x, p)))) = (x, p).
  Proof.
    intros Hp. rewrite (leapfrog_reversible grad eps grad_length L x p Hp). apply flip_flip.
  Qed.
End HmcInvolution.

(* ------------------------------------------------------------------ non-vacuity: a 2-state chain *)
Example doeblin_example : forall mu : bool -> R, mu true + mu false = 1 ->
  forall n, l1 [true; false] (pushn [true; false] ex2_P n mu) ex2_pi
            <= (1 / 2) ^ n * l1 [true; false] mu ex2_pi.
Proof.
  intros mu Hmu n.
  assert (Hrow : forall x, In x [true; false] -> sumR (ex2_P x) [true; false] = 1).
  { intros x _. destruct x; unfold sumR, ex2_P; simpl; lra. }
  assert (Hminor : forall x y, In x [true; false] -> In y [true; false] -> 1 / 4 <= ex2_P x y).
  { intros x y _ _. destruct x, y; unfold ex2_P; lra. }
  assert (Hstat : forall y, In y [true; false] -> push [true; false] ex2_P ex2_pi y = ex2_pi y).
  { intros y _. destruct y; unfold push, sumR, ex2_P, ex2_pi; simpl; lra. }
  assert (Hmass : sumR mu [true; false] = sumR ex2_pi [true; false]).
  { unfold sumR, ex2_pi. simpl. lra. }
  pose proof (doeblin_geometric [true; false] ex2_P Hrow (1 / 4) Hminor ex2_pi Hstat mu Hmass n) as H.
  replace (1 - INR (length [true; false]) * (1 / 4)) with (1 / 2) in H by (simpl; lra).
  exact H.
Qed.
