#!/bin/bash
# seedtest.sh <worktree> <mK> <Cxx> [more check ids...]
# Confirms a seeded change in the scratch worktree (tests still pass, demo fails with / passes without the change),
# then applies it to /repo, runs the named checks, and undoes it.
set -u
WT=$1; M=$2; shift 2
D=$WT/_mutation/$M
export CARGO_TARGET_DIR=$WT/target CARGO_NET_OFFLINE=true
cd $WT || exit 2
git checkout -q -- . ; rm -f tests/verif_demo.rs
cp $D/demo.rs tests/verif_demo.rs
echo "== demo on unchanged code"; cargo test --offline --test verif_demo 2>&1 | grep -E "^test result|error(\[|:)" | head -3
git apply $D/patch.diff || { echo "PATCH DOES NOT APPLY"; exit 2; }
echo "== demo with the change"; cargo test --offline --test verif_demo 2>&1 | grep -E "^test result|error(\[|:)" | head -3
rm -f tests/verif_demo.rs
echo "== existing suite with the change"; cargo test --offline --lib --tests 2>&1 | grep -E "^test result" | head -4
git checkout -q -- . 
unset CARGO_TARGET_DIR
cd /repo && git apply $D/patch.diff || { echo "PATCH DOES NOT APPLY TO /repo"; exit 2; }
for c in "$@"; do
  echo "== vcheck $c"; (cd /verif && timeout 1200 bin/vcheck $c 2>&1 | grep -E "^(# |VIOLATION|OK|KNOWN)" | head -4)
done
git -C /repo checkout -q -- . ; git -C /repo status --short | head -3
