(* Model of gibbs.rs GibbsMarkovChain::step:
     (0..len).for_each(|i| state[i] = target.sample(i, &state))
   The user's conditional may be stateful (&mut self): cond : C -> nat -> list V -> V * C. *)
From MiniMcmc Require Export Base.Util.

Section Gibbs.
  Context {V C : Type}.
  Variable cond : C -> nat -> list V -> V * C.

  (* state of the sweep: conditional's own state, chain state, log of (index, given) calls *)
  Definition sweep_acc : Type := (C * list V * list (nat * list V))%type.

  Definition sweep_one (acc : sweep_acc) (i : nat) : sweep_acc :=
    let '(c, st, log) := acc in
    let (v, c') := cond c i st in
    (c', upd i v st, log ++ [(i, st)]).

  Definition sweep (c : C) (st : list V) : sweep_acc :=
    fold_left sweep_one (seq 0 (length st)) (c, st, []).

  Definition sweep_state (c : C) (st : list V) : list V := snd (fst (sweep c st)).
  Definition sweep_log (c : C) (st : list V) : list (nat * list V) := snd (sweep c st).

  (* specification: the state after the first k coordinates have been refreshed *)
  Fixpoint prefix (k : nat) (c : C) (st : list V) : sweep_acc :=
    match k with
    | O => (c, st, [])
    | S k' => sweep_one (prefix k' c st) k'
    end.
End Gibbs.

(* ---- instantiation for the correspondence check (harness/src/c05.rs RecCond): the answer
   is an order- and snapshot-sensitive integer function of (index, all of given, call counter) *)
Definition rec_cond (salt : Z) (cnt : Z) (i : nat) (given : list Z) : Z * Z :=
  let h := fold_left (fun h x => ((h * 31 + x) mod 65521)%Z) given ((salt + 7 * Z.of_nat i + 13 * cnt) mod 65521)%Z in
  (h, (cnt + 1)%Z).

Definition rec_sweeps_step (salt : Z) (acc : Z * list Z * list Z) (_ : nat) : Z * list Z * list Z :=
  let '(cnt, st, out) := acc in
  let '(cnt', st', log) := sweep (rec_cond salt) cnt st in
  (cnt', st', out ++ concat (map (fun il => Z.of_nat (fst il) :: snd il) log) ++ st').

(* k consecutive steps; output = for each step: every call as index :: given, then the new state *)
Definition rec_sweeps (salt : Z) (k : nat) (st : list Z) : list Z :=
  snd (fold_left (rec_sweeps_step salt) (seq 0 k) (0%Z, st, [])).

(* the same, continuing with the conditional's call counter at cnt (a chain whose public state was replaced,
   possibly by a vector of another length, between two steps: the sweep ranges over the CURRENT state) *)
Definition rec_sweeps_from (salt cnt : Z) (k : nat) (st : list Z) : list Z :=
  snd (fold_left (rec_sweeps_step salt) (seq 0 k) (cnt, st, [])).
