(* Model of the built-in densities of distributions.rs: Gaussian2D (normalised and unnormalised),
   DiffableGaussian2D (constants as `new` computes them), Rosenbrock 2-D and N-D,
   IsotropicGaussian (proposal density, after the D8 repair, and the pre-repair constant),
   with analytic gradients.  Generic over a number structure with exp/ln/sqrt/abs/pi,
   instantiated at R (theorems) and at 80-bit intervals (evaluation). *)
From MiniMcmc Require Export Model.DualAvg.
From Coq Require Import Reals.

Record DNum := { dn :> TNum; dpi : dn; dabs : dn -> dn }.
Definition dnumR : DNum := {| dn := tnumR; dpi := PI; dabs := Rabs |}.
Definition dnumI : DNum := {| dn := tnumI; dpi := I.pi iprec; dabs := I.abs |}.

Section Density.
  Variable K : DNum.
  Notation "a + b" := (tadd K a b).
  Notation "a - b" := (tsub K a b).
  Notation "a * b" := (tmul K a b).
  Notation "a / b" := (tdiv K a b).
  Definition z0 : K := tofZ K 0.
  Definition c1 : K := tofZ K 1.
  Definition c2 : K := tofZ K 2.
  Definition half : K := c1 / c2.
  Definition neg (x : K) : K := z0 - x.
  Definition sq (x : K) : K := x * x.

  (* Gaussian2D: cov = [[a,b],[c,d]], mean (m0,m1), point (x0,x1) *)
  Definition g2_quad (m0 m1 a b c d x0 x1 : K) : K :=
    let det := a * d - b * c in
    let d0 := x0 - m0 in let d1 := x1 - m1 in
    (* diff . inv_cov . diff with inv_cov = [[d,-b],[-c,a]] / det *)
    let i00 := d / det in let i01 := neg b / det in let i10 := neg c / det in let i11 := a / det in
    (d0 * i00 + d1 * i10) * d0 + (d0 * i01 + d1 * i11) * d1.
  Definition g2_unnorm (m0 m1 a b c d x0 x1 : K) : K := neg half * g2_quad m0 m1 a b c d x0 x1.
  Definition g2_logp (m0 m1 a b c d x0 x1 : K) : K :=
    let det := a * d - b * c in
    neg (tln K (c2 * dpi K)) + neg half * tln K (dabs K det) + g2_unnorm m0 m1 a b c d x0 x1.

  (* DiffableGaussian2D::new and its log-density (batched and single-point forms are the same formula) *)
  Definition dg_inv (a b c d : K) : K * K * K * K :=
    let det := a * d - b * c in
    let inv_det := c1 / det in
    (d * inv_det, neg b * inv_det, neg c * inv_det, a * inv_det).
  Definition dg_norm_const (a b c d : K) : K :=
    let det := a * d - b * c in
    neg (c2 * tln K (c2 * dpi K) + tln K det) / c2.
  Definition dg_logp (m0 m1 a b c d x0 x1 : K) : K :=
    let '(i00, i01, i10, i11) := dg_inv a b c d in
    let d0 := x0 - m0 in let d1 := x1 - m1 in
    let z0' := d0 * i00 + d1 * i10 in
    let z1' := d0 * i01 + d1 * i11 in
    dg_norm_const a b c d - (z0' * d0 + z1' * d1) * half.
  (* gradient of dg_logp: -(P + P^T) delta / 2 *)
  Definition dg_grad (m0 m1 a b c d x0 x1 : K) : K * K :=
    let '(i00, i01, i10, i11) := dg_inv a b c d in
    let d0 := x0 - m0 in let d1 := x1 - m1 in
    (neg ((i00 + i00) * d0 + (i01 + i10) * d1) * half,
     neg ((i01 + i10) * d0 + (i11 + i11) * d1) * half).

  (* Rosenbrock 2-D: -((a - x)^2 + b (y - x^2)^2) *)
  Definition rb2_logp (a b x y : K) : K := neg (sq (a - x) + b * sq (y - sq x)).
  Definition rb2_grad (a b x y : K) : K * K :=
    (c2 * (a - x) + c2 * c2 * b * x * (y - sq x), neg (c2 * b * (y - sq x))).

  (* Rosenbrock N-D: - sum_{i<n-1} (100 (x_{i+1} - x_i^2)^2 + (1 - x_i)^2) *)
  Fixpoint rbn_sum (xs : list K) : K :=
    match xs with
    | x :: ((y :: _) as t) => (tofZ K 100 * sq (y - sq x) + sq (c1 - x)) + rbn_sum t
    | _ => z0
    end.
  Definition rbn_logp (xs : list K) : K := neg (rbn_sum xs).

  (* IsotropicGaussian::logp(from, to) as written: sum of exponents - d/2 * ln(2 pi sigma^2) *)
  Definition iso_exps (sigma : K) (from to : list K) : K :=
    fold_left (fun acc ft => acc + neg (sq (snd ft - fst ft)) / (c2 * (sigma * sigma))) (combine from to) z0.
  Definition iso_logp (sigma : K) (from to : list K) : K :=
    iso_exps sigma from to
    + neg (tofZ K (Z.of_nat (length from))) * half * tln K (c2 * dpi K * (sigma * sigma)).
  (* the constant before the repair: ln(var * pi * sigma * sigma) = ln(pi sigma^4) *)
  Definition iso_logp_old (sigma : K) (from to : list K) : K :=
    iso_exps sigma from to
    + neg (tofZ K (Z.of_nat (length from))) * half * tln K ((sigma * sigma) * dpi K * sigma * sigma).
  (* definition: product of univariate normal densities N(to_i; from_i, sigma^2), in logs *)
  Definition normal_logpdf (mu sigma x : K) : K :=
    neg (sq (x - mu)) / (c2 * (sigma * sigma)) - half * tln K (c2 * dpi K * (sigma * sigma)).
  Definition iso_logp_spec (sigma : K) (from to : list K) : K :=
    fold_left (fun acc ft => acc + normal_logpdf (fst ft) sigma (snd ft)) (combine from to) z0.
  (* Target impl: -1/2 sum x^2 / sigma^2 *)
  Definition iso_unnorm (sigma : K) (xs : list K) : K :=
    neg half * fold_left (fun acc x => acc + sq x) xs z0 / (sigma * sigma).
End Density.

(* evaluation (intervals) *)
Definition ilist (l : list I.type) : list Z := concat (map iout l).
Definition g2_eval (m0 m1 a b c d x0 x1 : I.type) : list Z :=
  ilist [g2_logp dnumI m0 m1 a b c d x0 x1; g2_unnorm dnumI m0 m1 a b c d x0 x1].
Definition dg_eval (m0 m1 a b c d x0 x1 : I.type) : list Z :=
  let g := dg_grad dnumI m0 m1 a b c d x0 x1 in
  ilist [dg_logp dnumI m0 m1 a b c d x0 x1; fst g; snd g].
Definition rb2_eval (a b x y : I.type) : list Z :=
  let g := rb2_grad dnumI a b x y in ilist [rb2_logp dnumI a b x y; fst g; snd g].
Definition rbn_eval (xs : list I.type) : list Z := ilist [rbn_logp dnumI xs].
Definition iso_eval (sigma : I.type) (from to : list I.type) : list Z :=
  ilist [iso_logp dnumI sigma from to; iso_logp dnumI sigma to from; iso_unnorm dnumI sigma to;
         iso_logp_old dnumI sigma from to].
