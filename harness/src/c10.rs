//! C10: progress mode returns the same draws, always terminates, in any precision.
use crate::util::*;
use crate::zoo::*;
use mini_mcmc::core::{run_chain, run_chain_progress, ChainRunner, HasChains, MarkovChain};
use mini_mcmc::stats::RunStats;
use mini_mcmc::verif::{self, Event};
use ndarray::Array3;
use serde_json::{json, Value};
use std::sync::mpsc;

/// counting chain that sleeps `delay_us` per step (forces completion orders)
#[derive(Clone)]
pub struct SlowChain {
    pub state: Vec<f64>,
    pub delay_us: u64,
    /// transition number (1-based, 0 = never) whose resulting state carries `spike_val` in coordinate 1 for that one state
    pub spike_at: usize,
    pub spike_val: f64,
    pub steps: usize,
    pub saved: f64,
}
pub fn slow(state: Vec<f64>, delay_us: u64) -> SlowChain {
    SlowChain { state, delay_us, spike_at: 0, spike_val: 0.0, steps: 0, saved: 0.0 }
}
impl MarkovChain<f64> for SlowChain {
    fn step(&mut self) -> &Vec<f64> {
        if self.delay_us > 0 {
            std::thread::sleep(std::time::Duration::from_micros(self.delay_us));
        }
        if self.spike_at > 0 && self.steps == self.spike_at {
            self.state[1] = self.saved; // the spike lasted for one state only
        }
        self.steps += 1;
        for (k, x) in self.state.iter_mut().enumerate() {
            *x += (k + 1) as f64;
        }
        if self.spike_at > 0 && self.steps == self.spike_at {
            self.saved = self.state[1];
            self.state[1] = self.spike_val;
        }
        &self.state
    }
    fn current_state(&self) -> &Vec<f64> {
        &self.state
    }
}
pub struct SlowSampler {
    pub chains: Vec<SlowChain>,
}
impl HasChains<f64> for SlowSampler {
    type Chain = SlowChain;
    fn chains_mut(&mut self) -> &mut Vec<SlowChain> {
        &mut self.chains
    }
}

fn stats_json(s: &RunStats) -> Value {
    let b = |x: &mini_mcmc::stats::BasicStats| vec![b32(x.min), b32(x.median), b32(x.max), b32(x.mean), b32(x.std)];
    json!({"ess": b(&s.ess), "rhat": b(&s.rhat)})
}

fn stats_of(out: &Out) -> Value {
    // RunStats computed from the returned draws themselves
    let vals: Vec<f32> = if out.bits.iter().all(|b| *b <= u32::MAX as u64) && out.is32 {
        out.bits.iter().map(|b| f32::from_bits(*b as u32)).collect()
    } else {
        out.bits.iter().map(|b| f64::from_bits(*b) as f32).collect()
    };
    let a = Array3::from_shape_vec((out.shape[0], out.shape[1], out.shape[2]), vals).unwrap();
    stats_json(&RunStats::from(a.view()))
}

/// reporter replay: run_progress of a SlowSampler with the event log on
fn reporter(c: &Value) -> Value {
    let delays = u64s(&c["delays"]);
    let (n, d) = (us(c, "n"), us(c, "d"));
    let mut s = SlowSampler {
        chains: delays.iter().enumerate().map(|(i, dl)| slow(vec![i as f64, 0.0], *dl)).collect(),
    };
    // a transient state whose f32 image is not finite (f64 beyond f32::MAX, or inf / NaN), during burn-in, on chosen chains
    if let Some(sp) = c.get("spike").filter(|v| !v.is_null()) {
        let at = sp["at"].as_u64().unwrap() as usize;
        let val = f64::from_bits(sp["bits"].as_str().unwrap().parse::<u64>().unwrap());
        for ch in arr(sp, "chains") {
            let k = ch.as_u64().unwrap() as usize;
            if k < s.chains.len() {
                s.chains[k].spike_at = at;
                s.chains[k].spike_val = val;
            }
        }
    }
    let mut plain = SlowSampler { chains: s.chains.iter().map(|c| SlowChain { delay_us: 0, ..c.clone() }).collect() };
    verif::start();
    let (sample, stats) = s.run_progress(n, d).expect("run_progress");
    let ev = verif::take();
    let reference = plain.run(n, d).expect("run");
    let ticks: Vec<Value> = ev
        .iter()
        .filter_map(|e| match e {
            Event::ReporterTick { phase, total, recent, active, next_active, n_finished } => Some(json!({
                "phase": phase, "total": total,
                "recent": recent.iter().map(|x| x.map(|v| v as i64).unwrap_or(-1)).collect::<Vec<i64>>(),
                "active": active, "next_active": next_active, "n_finished": n_finished})),
            _ => None,
        })
        .collect();
    let same = sample == reference;
    let st = stats_json(&stats);
    let st2 = stats_json(&RunStats::from(sample.view()));
    json!({"ticks": ticks, "same_draws": same, "stats_match": st == st2, "shape": sample.shape()})
}

/// run vs run_progress on identically built real samplers
fn progress_eq(c: &Value) -> Value {
    let mut cp = c.clone();
    cp["progress"] = json!(true);
    let kind = strf(c, "kind");
    let (n, d) = (us(c, "n"), us(c, "d"));
    let prog = run_spec_stats(&cp);
    let mut cr = c.clone();
    cr["progress"] = json!(false);
    if kind == "nuts" {
        cr["n"] = json!(n + 1); // progress trajectory = run trajectory shifted by its one-draw offset
    }
    let run = run_spec(&cr);
    let (nc, dim) = (run.shape[0], run.shape[2]);
    let run_bits: Vec<u64> = if kind == "nuts" {
        let mut v = vec![];
        for ch in 0..nc {
            v.extend_from_slice(&run.bits[ch * (n + 1) * dim + dim..(ch + 1) * (n + 1) * dim]);
        }
        v
    } else {
        run.bits.clone()
    };
    let _ = d;
    json!({"same_draws": run_bits == prog.0.bits, "shape": prog.0.shape, "stats": prog.1, "stats_from_draws": stats_of(&prog.0),
           "first_diff": run_bits.iter().zip(prog.0.bits.iter()).position(|(a, b)| a != b)})
}

/// run_chain_progress called directly; the receiver is dropped before / after the run
fn worker(c: &Value) -> Value {
    let (n, d) = (us(c, "n"), us(c, "d"));
    let delay = c["delay_us"].as_u64().unwrap_or(0);
    let mode = strf(c, "drop");
    let mut a = slow(vec![1.0, 2.0, 3.0], delay);
    let mut b = slow(vec![1.0, 2.0, 3.0], 0);
    let (tx, rx) = mpsc::channel();
    let mut msgs: Vec<u64> = vec![];
    let out = match mode {
        "before" => {
            drop(rx);
            run_chain_progress(&mut a, n, d, tx).expect("worker")
        }
        "during" => {
            // receiver lives in another thread and stops listening after the first message / 50 ms
            let h = std::thread::spawn(move || {
                let _ = rx.recv_timeout(std::time::Duration::from_millis(50));
                drop(rx);
            });
            let o = run_chain_progress(&mut a, n, d, tx).expect("worker");
            h.join().unwrap();
            o
        }
        _ => {
            let o = run_chain_progress(&mut a, n, d, tx).expect("worker");
            while let Ok(m) = rx.try_recv() {
                msgs.push(m.n);
            }
            o
        }
    };
    let reference = run_chain(&mut b, n, d);
    json!({"same_draws": out == reference, "same_final": a.state == b.state, "msgs": msgs, "rows": out.nrows(),
           "final": a.state.iter().map(|x| *x as i64).collect::<Vec<i64>>(),
           "rows_flat": out.iter().map(|x| *x as i64).collect::<Vec<i64>>()})
}

pub fn run(c: &Value) -> Value {
    match strf(c, "op") {
        "reporter" => reporter(c),
        "progress_eq" => progress_eq(c),
        "worker" => worker(c),
        op => panic!("unknown op {op}"),
    }
}
