From MiniMcmc Require Import Model.MH Model.HMC.
