(* C01 — Metropolis-Hastings step obeys the MH acceptance rule (detailed balance).
   Model: Model/MH.v.  The decision layer is IEEE-754 (Flocq), generic in the format, so the
   statements hold for binary32 and binary64 and for every NaN-payload convention. *)
From MiniMcmc Require Import Base.Fp Model.MH Proofs.MH.
From Coq Require Import Reals.

Section C01_decision.
  Variables prec emax : Z.
  Context (Hprec : FLX.Prec_gt_0 prec) (Hmax : BinarySingleNaN.Prec_lt_emax prec emax).
  Notation fl := (binary_float prec emax).
  Variable nanf : fl -> fl -> { x : fl | Binary.is_nan prec emax x = true }.

  (* For every state type, states x, y, log-values (any IEEE values incl. NaN, +-inf) and
     ln u: the step ends at y exactly when ln u < [lp y + lq(x|y)] - [lp x + lq(y|x)] holds as
     an IEEE comparison, and otherwise returns x itself (the very same value). *)
  Theorem C01_rule : forall (St : Type) (x y : St) (lp_x lp_y lq_xy lq_yx lnu : fl),
    (flt lnu (fminus nanf (fplus nanf lp_y lq_yx) (fplus nanf lp_x lq_xy)) = true ->
       mh_step nanf x y lp_x lp_y lq_xy lq_yx lnu = y) /\
    (flt lnu (fminus nanf (fplus nanf lp_y lq_yx) (fplus nanf lp_x lq_xy)) = false ->
       mh_step nanf x y lp_x lp_y lq_xy lq_yx lnu = x).
  Proof. exact (@mh_step_rule prec emax Hprec Hmax nanf). Qed.

  (* a NaN ratio never accepts *)
  Theorem C01_rule_nan : forall (St : Type) (x y : St) (lp_x lp_y lq_xy lq_yx lnu : fl),
    fnan (fminus nanf (fplus nanf lp_y lq_yx) (fplus nanf lp_x lq_xy)) = true ->
    mh_step nanf x y lp_x lp_y lq_xy lq_yx lnu = x.
  Proof. exact (@mh_step_nan_ratio prec emax Hprec Hmax nanf). Qed.
End C01_decision.

Open Scope R_scope.

(* For a uniform u in (0,1): ln u < r  iff  u < min(1, e^r): acceptance probability min(1,e^r). *)
Theorem C01_accept_region : forall r u : R, 0 < u < 1 -> (ln u < r <-> u < Rmin 1 (exp r)).
Proof. exact accept_region. Qed.

Section C01_kernel.
  Context {St : Type}.
  Variable eqb : St -> St -> bool.
  Hypothesis eqb_spec : forall x y, eqb x y = true <-> x = y.
  Variable states : list St.             (* any finite state space *)
  Variable pi : St -> R.                 (* any positive target weights (unnormalised) *)
  Variable q : St -> St -> R.            (* any proposal, symmetric or not, zeros allowed *)
  Hypothesis pi_pos : forall x, 0 < pi x.
  Hypothesis q_nonneg : forall x y, 0 <= q x y.

  Theorem C01_detailed_balance : forall x y,
    pi x * K eqb states pi q x y = pi y * K eqb states pi q y x.
  Proof. exact (detailed_balance_K eqb eqb_spec states pi q pi_pos q_nonneg). Qed.

  Theorem C01_stationary : forall y, NoDup states -> In y states ->
    sumR (fun x => pi x * K eqb states pi q x y) states = pi y.
  Proof. exact (stationary eqb eqb_spec states pi q pi_pos q_nonneg). Qed.

  Theorem C01_kernel_stochastic : forall x, NoDup states -> In x states ->
    sumR (K eqb states pi q x) states = 1.
  Proof. exact (K_row_sum eqb eqb_spec states pi q). Qed.
End C01_kernel.

(* Non-vacuity: a 3-state chain with an asymmetric proposal with a zero entry meets every hypothesis. *)
Example C01_hypotheses_satisfiable :
  let pi := fun x : nat => INR (x + 1) in
  let q := fun x y : nat => match x, y with
                            | O, S O => 1 | S O, O => / 2 | S O, S (S O) => / 2
                            | S (S O), O => / 4 | S (S O), S O => 3 / 4
                            | _, _ => 0 end in
  (forall x y, Nat.eqb x y = true <-> x = y) /\ (forall x, 0 < pi x) /\ (forall x y, 0 <= q x y) /\
  NoDup [0; 1; 2]%nat /\ q 0%nat 2%nat = 0 /\ q 2%nat 0%nat <> 0.
Proof.
  cbv zeta. repeat split.
  - apply Nat.eqb_eq.
  - apply Nat.eqb_eq.
  - intros x. apply lt_0_INR. Lia.lia.
  - intros [|[|[|x]]] [|[|[|y]]]; Lra.lra.
  - repeat constructor; simpl; intuition discriminate.
  - Lra.lra.
Qed.

(* concrete accept / reject / tie in binary32:  lp_x=0, lp_y=-1, lq=0; ln u = -2 accepts, -0.5 rejects, -1 ties (reject) *)
Example C01_concrete32 :
  mh_accept32 0 3212836864 0 0 3221225472 = [1%Z] /\
  mh_accept32 0 3212836864 0 0 3204448256 = [0%Z] /\
  mh_accept32 0 3212836864 0 0 3212836864 = [0%Z].
Proof. repeat split; vm_compute; reflexivity. Qed.

Print Assumptions C01_rule.
Print Assumptions C01_rule_nan.
Print Assumptions C01_accept_region.
Print Assumptions C01_detailed_balance.
Print Assumptions C01_stationary.
Print Assumptions C01_kernel_stochastic.
