#!/bin/bash
# seedall.sh [ids...]  — applies every stored seeded change (seeded/<id>/patch.diff) to /repo in turn, runs the quick
# check of its property, and undoes it straight afterwards.  Prints one line per seed.  Nothing else may use /repo
# while this runs.  The working tree of /repo must be clean at the start.
set -u
cd /verif
if [ -n "$(git -C /repo status --short)" ]; then echo "/repo working tree is not clean"; exit 2; fi
ids=${@:-$(ls seeded)}
for id in $ids; do
  prop=${id%%-*}
  if ! git -C /repo apply /verif/seeded/$id/patch.diff 2>/dev/null; then echo "$id  PATCH-DOES-NOT-APPLY"; continue; fi
  full=$(timeout 2400 bin/vcheck $prop 2>&1 | grep -E "^(# |VIOLATION|OK |KNOWN)")
  git -C /repo checkout -q -- .
  out=$(echo "$full" | head -2 | tr '\n' ' ' | cut -c1-220)
  case "$full" in
    *VIOLATION*) echo "$id  caught   $out";;
    *) echo "$id  MISSED   $out";;
  esac
done
[ -z "$(git -C /repo status --short)" ] || echo "WARNING: /repo not clean at the end"
