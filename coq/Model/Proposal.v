(* Model of distributions.rs IsotropicGaussian::sample (the random-walk proposal of the Metropolis-Hastings
   examples):
     Normal::new(0, std).sample_iter(rng).zip(current).map(|(x, eps)| x + eps)
   with rand_distr's Normal::sample = mean + std_dev * z, z a StandardNormal draw.  As in Model/Init.v the
   ziggurat is not modelled: the standard-normal draws are an argument (the harness replays them from the same
   seeded generator).  IEEE arithmetic, bit-exact, generic in the format; plus the exact-arithmetic reading. *)
From MiniMcmc Require Export Base.Fp Base.Util.

Section Iso.
  Variables prec emax : Z.
  Context (Hprec : FLX.Prec_gt_0 prec) (Hmax : BinarySingleNaN.Prec_lt_emax prec emax).
  Notation fl := (binary_float prec emax).
  Variable nanf : fl -> fl -> { x : fl | Binary.is_nan prec emax x = true }.

  Definition pzero : fl := Binary.B754_zero prec emax false.
  (* one coordinate: (0 + std * z) + current *)
  Definition iso_coord (std z cur : fl) : fl := fplus nanf (fplus nanf pzero (fmult nanf std z)) cur.
  (* one call: coordinate i uses draw i; zip stops at the shorter list *)
  Definition iso_sample (std : fl) (zs cur : list fl) : list fl :=
    map (fun zc => iso_coord std (fst zc) (snd zc)) (combine zs cur).
  (* k consecutive calls from the same `current`.  `sample_iter(..).zip(current)` asks the generator first and
     `current` second, so the call that finds `current` exhausted has already drawn one more value: every call
     consumes d + 1 draws of the ONE stream and uses the first d of them (found by the correspondence check: the
     first version of this model consumed d per call and disagreed from the second call on) *)
  Fixpoint iso_samples (k : nat) (std : fl) (zs cur : list fl) : list (list fl) :=
    match k with
    | O => []
    | S k' => iso_sample std (firstn (length cur) zs) cur :: iso_samples k' std (skipn (S (length cur)) zs) cur
    end.
End Iso.
Arguments iso_coord {prec emax Hprec Hmax}.
Arguments iso_sample {prec emax Hprec Hmax}.
Arguments iso_samples {prec emax Hprec Hmax}.

(* instances on bit patterns *)
Definition iso_samples32 (k : nat) (std : Z) (zs cur : list Z) : list Z :=
  concat (map (map bits_of_b32) (iso_samples binop_nan_pl32 k (b32_of_bits std) (map b32_of_bits zs) (map b32_of_bits cur))).
Definition iso_samples64 (k : nat) (std : Z) (zs cur : list Z) : list Z :=
  concat (map (map bits_of_b64) (iso_samples binop_nan_pl64 k (b64_of_bits std) (map b64_of_bits zs) (map b64_of_bits cur))).

(* ---- exact arithmetic ---- *)
From Coq Require Import Reals.
Definition iso_sample_R (std : R) (zs cur : list R) : list R :=
  map (fun zc => (0 + std * fst zc + snd zc)%R) (combine zs cur).
