(* Proofs about the extended-value form of find_reasonable_epsilon (Model/FindEps.v, Section FindEpsX):
   the log acceptance probability may be -inf, +inf or NaN (a leapfrog step that leaves the support).
   (1) on finite oracles it is find_eps_gen;
   (2) whatever the oracle returns, the result lies on the grid 1/2 * 2^(+-k), k <= fuel: positive, finite;
       what the special values do at the first test;
   (3) bracket soundness of the rational evaluation (as Proofs/FindEps.v (3));
   (4) the half-line oracle commutes with Q2R; soundness of find_eps_x_eval. *)
From MiniMcmc Require Import Base.Num Model.DualAvg Model.FindEps Proofs.DualAvg Proofs.Q2R Proofs.FindEps.
From Coq Require Import Reals Qreals Lra Lia List.
Close Scope Q_scope.
Open Scope R_scope.


(* ------------------------------------------------------------------ (1) restriction to finite oracles *)

Lemma loop_x_fin (K : Num) (lap : K -> K) (lnhalf : K) : forall (fuel : nat) (up : bool) (eps : K),
  loop_x K (fun e => XFin (lap e)) lnhalf fuel up eps = loop_gen K lap lnhalf fuel up eps.
Proof.
  induction fuel as [|f IH]; intros up eps; [reflexivity|].
  cbn [loop_x loop_gen condx]. rewrite IH. reflexivity.
Qed.

Theorem find_eps_x_fin : forall (K : Num) (lap : K -> K) (lnhalf : K) (fuel : nat),
  find_eps_x K (fun e => XFin (lap e)) lnhalf fuel = find_eps_gen K lap lnhalf fuel.
Proof.
  intros K lap lnhalf fuel. unfold find_eps_x, find_eps_gen. cbv zeta.
  cbn [upx condx]. rewrite loop_x_fin. reflexivity.
Qed.

(* ------------------------------------------------------------------ (2) grid, positivity, special values *)

Definition gridc (up : bool) : R := if up then 2 else / 2.

Lemma scale_R_gridc (up : bool) (x : R) : scale numR up x = x * gridc up.
Proof. destruct up; reflexivity. Qed.

Lemma loop_x_grid (lapx : R -> xval R) (lh : R) : forall (fuel : nat) (up : bool) (eps e : R),
  loop_x numR lapx lh fuel up eps = Some e ->
  exists k : nat, (k < fuel)%nat /\ e = eps * gridc up ^ k.
Proof.
  induction fuel as [|f IH]; intros up eps e H; [discriminate|].
  cbn [loop_x] in H. destruct (condx numR lh up (lapx eps)).
  - apply IH in H. destruct H as (k & Hk & He). exists (S k). split; [lia|].
    rewrite He, scale_R_gridc. simpl. ring.
  - injection H as <-. exists O. split; [lia|]. simpl. ring.
Qed.

(* the first test is on lapx 1; then the loop runs from 1/2 * 2^(+-1) *)
Lemma find_eps_x_R_unfold (lapx : R -> xval R) (lh : R) (fuel : nat) :
  find_eps_x numR lapx lh fuel
  = if condx numR lh (upx numR lh (lapx 1)) (lapx 1)
    then loop_x numR lapx lh fuel (upx numR lh (lapx 1)) (1 / 2 * gridc (upx numR lh (lapx 1)))
    else Some (1 / 2).
Proof.
  unfold find_eps_x. cbv zeta. change (one numR) with 1.
  rewrite scale_R_gridc, halfK_R. reflexivity.
Qed.

Lemma find_eps_x_grid_gen (lapx : R -> xval R) (lh : R) (fuel : nat) (e : R) :
  find_eps_x numR lapx lh fuel = Some e ->
  exists (k : nat) (up : bool), (k <= fuel)%nat /\ e = 1 / 2 * (if up then 2 else / 2) ^ k.
Proof.
  rewrite find_eps_x_R_unfold. intro H.
  destruct (condx numR lh (upx numR lh (lapx 1)) (lapx 1)).
  - apply loop_x_grid in H. destruct H as (k & Hk & He).
    exists (S k), (upx numR lh (lapx 1)). split; [lia|].
    rewrite He. unfold gridc. simpl. ring.
  - injection H as <-. exists O, true. split; [lia|]. simpl. ring.
Qed.

Theorem find_eps_x_grid : forall (lapx : R -> xval R) (fuel : nat) (e : R),
  find_eps_x numR lapx (ln (1 / 2)) fuel = Some e ->
  exists (k : nat) (up : bool), (k <= fuel)%nat /\ e = 1 / 2 * (if up then 2 else / 2) ^ k.
Proof. intros lapx fuel e. apply find_eps_x_grid_gen. Qed.

Theorem find_eps_x_positive : forall (lapx : R -> xval R) (fuel : nat) (e : R),
  find_eps_x numR lapx (ln (1 / 2)) fuel = Some e -> 0 < e.
Proof.
  intros lapx fuel e H. apply find_eps_x_grid in H. destruct H as (k & up & _ & ->).
  apply Rmult_lt_0_compat; [lra|]. apply pow_lt. destruct up; lra.
Qed.

Lemma pow_two_ge1 (k : nat) : 1 <= 2 ^ k.
Proof. apply pow_R1_Rle. lra. Qed.

Lemma pow_half_le1 (k : nat) : 0 < (/ 2) ^ k <= 1.
Proof.
  induction k as [|k IH]; simpl; [lra|]. lra.
Qed.

Theorem find_eps_x_nan_first : forall (lapx : R -> xval R) (fuel : nat),
  lapx 1 = XNaN -> find_eps_x numR lapx (ln (1 / 2)) fuel = Some (1 / 2).
Proof. intros lapx fuel H. rewrite find_eps_x_R_unfold, H. reflexivity. Qed.

(* +inf at the first test: double at least once *)
Theorem find_eps_x_posinf_first : forall (lapx : R -> xval R) (fuel : nat) (e : R),
  lapx 1 = XPosInf -> find_eps_x numR lapx (ln (1 / 2)) fuel = Some e ->
  (exists k : nat, (1 <= k <= fuel)%nat /\ e = 1 / 2 * 2 ^ k) /\ 1 <= e.
Proof.
  intros lapx fuel e H He. rewrite find_eps_x_R_unfold, H in He. cbn [upx condx gridc] in He.
  apply loop_x_grid in He. destruct He as (k & Hk & ->). cbn [gridc].
  split.
  - exists (S k). split; [lia|]. simpl. ring.
  - pose proof (pow_two_ge1 k). lra.
Qed.

(* -inf at the first test (the step of size 1 leaves the support): halve at least once *)
Theorem find_eps_x_neginf_first : forall (lapx : R -> xval R) (fuel : nat) (e : R),
  lapx 1 = XNegInf -> find_eps_x numR lapx (ln (1 / 2)) fuel = Some e ->
  (exists k : nat, (1 <= k <= fuel)%nat /\ e = 1 / 2 * (/ 2) ^ k) /\ 0 < e <= 1 / 4.
Proof.
  intros lapx fuel e H He. rewrite find_eps_x_R_unfold, H in He. cbn [upx condx gridc negb] in He.
  apply loop_x_grid in He. destruct He as (k & Hk & ->). cbn [gridc].
  split.
  - exists (S k). split; [lia|]. simpl. ring.
  - pose proof (pow_half_le1 k). lra.
Qed.

(* ------------------------------------------------------------------ (3) bracket soundness *)

Lemma loop_x_Q_range (lapQ : Q -> xval Q) (lh : Q) : forall (fuel : nat) (up : bool) (eps e : Q),
  0 < Q2R eps -> loop_x numQ lapQ lh fuel up eps = Some e ->
  if up then Q2R eps <= Q2R e else 0 < Q2R e <= Q2R eps.
Proof.
  induction fuel as [|f IH]; intros up eps e Hp H; [discriminate|].
  cbn [loop_x] in H. destruct (condx numQ lh up (lapQ eps)).
  - apply IH in H.
    + rewrite q2r_scale in H. destruct up; [rewrite scale_R_up in H | rewrite scale_R_down in H]; lra.
    + rewrite q2r_scale. destruct up; [rewrite scale_R_up | rewrite scale_R_down]; lra.
  - injection H as <-. destruct up; lra.
Qed.

Section BracketX.
  Variable lapQ : Q -> xval Q.
  Variable lapR : R -> xval R.
  Variables lo hi : Q.
  Hypothesis Hlap : forall q : Q, lapR (Q2R q) = xmap Q2R (lapQ q).
  Hypothesis Hb : Q2R lo < ln (1 / 2) < Q2R hi.

  Lemma loop_x_bracket : forall (fuel : nat) (up : bool) (eps e1 e2 : Q),
    0 < Q2R eps ->
    loop_x numQ lapQ lo fuel up eps = Some e1 ->
    loop_x numQ lapQ hi fuel up eps = Some e2 ->
    Q2R e1 = Q2R e2 ->
    loop_x numR lapR (ln (1 / 2)) fuel up (Q2R eps) = Some (Q2R e1).
  Proof.
    induction fuel as [|f IH]; intros up eps e1 e2 Hp H1 H2 He; [discriminate|].
    cbn [loop_x] in *. rewrite Hlap.
    assert (Hps : 0 < Q2R (scale numQ up eps)).
    { rewrite q2r_scale. destruct up; [rewrite scale_R_up | rewrite scale_R_down]; lra. }
    destruct (lapQ eps) as [l| | |]; cbn [xmap condx] in *.
    - (* finite value: as loop_gen_bracket *)
      rewrite cond_R. rewrite cond_Q in H1, H2.
      destruct up.
      + destruct (Rlt_dec (Q2R lo) (Q2R l)) as [a|a];
        destruct (Rlt_dec (Q2R hi) (Q2R l)) as [b|b]; try lra.
        * destruct (Rlt_dec (ln (1 / 2)) (Q2R l)) as [c|c]; [|lra].
          rewrite <- q2r_scale. exact (IH true _ e1 e2 Hps H1 H2 He).
        * exfalso. injection H2 as <-.
          apply loop_x_Q_range in H1; [|exact Hps].
          cbv beta iota in H1. rewrite q2r_scale, scale_R_up in H1. lra.
        * destruct (Rlt_dec (ln (1 / 2)) (Q2R l)) as [c|c]; [lra|].
          injection H1 as <-. reflexivity.
      + destruct (Rlt_dec (Q2R l) (Q2R lo)) as [a|a];
        destruct (Rlt_dec (Q2R l) (Q2R hi)) as [b|b]; try lra.
        * destruct (Rlt_dec (Q2R l) (ln (1 / 2))) as [c|c]; [|lra].
          rewrite <- q2r_scale. exact (IH false _ e1 e2 Hps H1 H2 He).
        * exfalso. injection H1 as <-.
          apply loop_x_Q_range in H2; [|exact Hps].
          cbv beta iota in H2. rewrite q2r_scale, scale_R_down in H2. lra.
        * destruct (Rlt_dec (Q2R l) (ln (1 / 2))) as [c|c]; [lra|].
          injection H1 as <-. reflexivity.
    - (* -inf: decided the same way under every bound *)
      destruct up; cbn [negb] in *.
      + injection H1 as <-. reflexivity.
      + rewrite <- q2r_scale. exact (IH false _ e1 e2 Hps H1 H2 He).
    - (* +inf *)
      destruct up.
      + rewrite <- q2r_scale. exact (IH true _ e1 e2 Hps H1 H2 He).
      + injection H1 as <-. reflexivity.
    - (* NaN *)
      injection H1 as <-. reflexivity.
  Qed.

  Lemma find_eps_x_gen_bracket : forall (fuel : nat) (e1 e2 : Q),
    find_eps_x numQ lapQ lo fuel = Some e1 ->
    find_eps_x numQ lapQ hi fuel = Some e2 ->
    Q2R e1 = Q2R e2 ->
    find_eps_x numR lapR (ln (1 / 2)) fuel = Some (Q2R e1).
  Proof.
    intros fuel e1 e2 H1 H2 He.
    unfold find_eps_x in *. cbv zeta in *.
    replace (lapR (one numR)) with (xmap Q2R (lapQ (one numQ)))
      by (rewrite <- Hlap, q2r_one; reflexivity).
    pose proof q2r_half as Hh.
    assert (Hup : Q2R (scale numQ true (halfK numQ)) = 1).
    { rewrite q2r_scale, scale_R_up, Hh. lra. }
    assert (Hdn : Q2R (scale numQ false (halfK numQ)) = 1 / 4).
    { rewrite q2r_scale, scale_R_down, Hh. lra. }
    assert (Eup : scale numR true (halfK numR) = Q2R (scale numQ true (halfK numQ))).
    { rewrite q2r_scale, Hh. reflexivity. }
    assert (Edn : scale numR false (halfK numR) = Q2R (scale numQ false (halfK numQ))).
    { rewrite q2r_scale, Hh. reflexivity. }
    destruct (lapQ (one numQ)) as [q| | |]; cbn [xmap upx condx negb] in *.
    - (* finite value at the first test: as find_eps_gen_bracket *)
      rewrite q2r_ltb, cond_Q in H1, H2. rewrite cond_R.
      change (nltb numR (ln (1 / 2)) (Q2R q))
        with (if Rlt_dec (ln (1 / 2)) (Q2R q) then true else false).
      change (nltb numR (Q2R lo) (Q2R q))
        with (if Rlt_dec (Q2R lo) (Q2R q) then true else false) in H1.
      change (nltb numR (Q2R hi) (Q2R q))
        with (if Rlt_dec (Q2R hi) (Q2R q) then true else false) in H2.
      set (l1 := Q2R q) in *.
      destruct (Rlt_dec (Q2R lo) l1) as [a|a]; destruct (Rlt_dec (Q2R hi) l1) as [b|b]; try lra.
      + destruct (Rlt_dec (ln (1 / 2)) l1) as [c|c]; [|lra].
        destruct (Rlt_dec (ln (1 / 2)) l1) as [c'|c']; [|lra].
        rewrite Eup. apply loop_x_bracket with e2; try assumption. lra.
      + exfalso. apply loop_x_Q_range in H1; [|lra]. cbv beta iota in H1.
        destruct (Rlt_dec l1 (Q2R hi)) as [d|d].
        * apply loop_x_Q_range in H2; [|lra]. cbv beta iota in H2. lra.
        * injection H2 as <-. lra.
      + destruct (Rlt_dec l1 (Q2R lo)) as [d|d]; destruct (Rlt_dec l1 (Q2R hi)) as [d'|d']; try lra.
        * destruct (Rlt_dec (ln (1 / 2)) l1) as [c|c]; [lra|].
          destruct (Rlt_dec l1 (ln (1 / 2))) as [c'|c']; [|lra].
          rewrite Edn. apply loop_x_bracket with e2; try assumption. lra.
        * exfalso. injection H1 as <-.
          apply loop_x_Q_range in H2; [|lra]. cbv beta iota in H2. lra.
    - (* -inf: halve *)
      rewrite Edn. apply loop_x_bracket with e2; try assumption. lra.
    - (* +inf: double *)
      rewrite Eup. apply loop_x_bracket with e2; try assumption. lra.
    - (* NaN: 1/2 *)
      injection H1 as <-. change (Some (halfK numR) = Some (Q2R (halfK numQ))). rewrite Hh. reflexivity.
  Qed.
End BracketX.

Theorem find_eps_x_bracket :
  forall (lapQ : Q -> xval Q) (lapR : R -> xval R) (lo hi : Q) (fuel : nat) (e : Q),
  (forall q : Q, lapR (Q2R q) = xmap Q2R (lapQ q)) ->
  Q2R lo < ln (1 / 2) < Q2R hi ->
  find_eps_x numQ lapQ lo fuel = Some e ->
  find_eps_x numQ lapQ hi fuel = Some e ->
  find_eps_x numR lapR (ln (1 / 2)) fuel = Some (Q2R e).
Proof.
  intros lapQ lapR lo hi fuel e Hlap Hb H1 H2.
  exact (find_eps_x_gen_bracket lapQ lapR lo hi Hlap Hb fuel e e H1 H2 eq_refl).
Qed.

(* ------------------------------------------------------------------ (4) the half-line oracle *)

Notation mQ2R := (map Q2R).

Lemma q2r_hl_test (x0 : Q) : nltb numQ (zero numQ) x0 = nltb numR (zero numR) (Q2R x0).
Proof. rewrite q2r_ltb, q2r_zero. reflexivity. Qed.

Lemma q2r_hl_grad (x : list Q) : mQ2R (hl_grad numQ x) = hl_grad numR (mQ2R x).
Proof.
  destruct x as [|x0 rest]; [reflexivity|].
  unfold hl_grad. cbn [map]. rewrite <- q2r_hl_test.
  destruct (nltb numQ (zero numQ) x0).
  - cbn [map]. rewrite q2r_sub, q2r_zero, q2r_one.
    assert (E : mQ2R (map (fun v : Q => sub numQ (zero numQ) v) rest)
                = map (fun v : R => sub numR (zero numR) v) (mQ2R rest)).
    { apply q2r_map_comm. intros v _. rewrite q2r_sub, q2r_zero. reflexivity. }
    unfold vec in *. normT. rewrite E. reflexivity.
  - cbn [map]. rewrite q2r_zero.
    assert (E : mQ2R (map (fun _ : Q => zero numQ) rest)
                = map (fun _ : R => zero numR) (mQ2R rest)).
    { apply q2r_map_comm. intros v _. apply q2r_zero. }
    normT. rewrite E. reflexivity.
Qed.

Lemma q2r_hl_logp (x : list Q) : hl_logp numR (mQ2R x) = xmap Q2R (hl_logp numQ x).
Proof.
  destruct x as [|x0 rest]; [reflexivity|].
  unfold hl_logp. cbn [map]. rewrite <- q2r_hl_test.
  destruct (nltb numQ (zero numQ) x0); [|reflexivity].
  cbn [xmap]. rewrite !q2r_sub, q2r_mul, q2r_halfc, q2r_zero, q2r_vdot. reflexivity.
Qed.

Theorem q2r_lapx_halfline : forall (x p : list Q) (e : Q),
  lapx_halfline numR (map Q2R x) (map Q2R p) (Q2R e) = xmap Q2R (lapx_halfline numQ x p e).
Proof.
  intros x p e. unfold lapx_halfline. cbv zeta.
  rewrite (q2r_leap1 (hl_grad numQ) (hl_grad numR) q2r_hl_grad). cbn [fst snd].
  rewrite !q2r_hl_logp. unfold vec in *. normT.
  destruct (hl_logp numQ x) as [l0| | |]; cbn [xmap]; try reflexivity.
  match goal with |- context [hl_logp numQ ?a] => destruct (hl_logp numQ a) as [l1| | |] end;
    cbn [xmap]; try reflexivity.
  rewrite !q2r_sub, !q2r_kinetic. reflexivity.
Qed.

Lemma find_eps_x_eval_unfold (x p : list Q) :
  find_eps_x_eval x p
  = oq (find_eps_x numQ (lapx_halfline numQ x p) lnhalf_lo 40)
    ++ oq (find_eps_x numQ (lapx_halfline numQ x p) lnhalf_hi 40).
Proof. reflexivity. Qed.

Theorem find_eps_x_eval_sound : forall (x p : list Q) (e : Q),
  find_eps_x_eval x p = qout e ++ qout e -> 0 < Q2R e ->
  find_eps_x numR (lapx_halfline numR (map Q2R x) (map Q2R p)) (ln (1 / 2)) 40 = Some (Q2R e).
Proof.
  intros x p e H Hp. rewrite find_eps_x_eval_unfold in H.
  destruct (oq2_inv _ _ e H Hp) as (e1 & e2 & H1 & H2 & He1 & He2).
  rewrite <- He1.
  refine (find_eps_x_gen_bracket (lapx_halfline numQ x p)
            (lapx_halfline numR (map Q2R x) (map Q2R p)) lnhalf_lo lnhalf_hi
            (q2r_lapx_halfline x p) lnhalf_bounds 40 e1 e2 H1 H2 _).
  rewrite He1, He2. reflexivity.
Qed.
