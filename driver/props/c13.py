"""C13 — streaming trackers and progress R-hat equal batch statistics of the same draws."""
from fractions import Fraction
import common as C

ID = "C13"
LEVEL = "proof"
COQ_HEADER = "From MiniMcmc Require Import Model.Tracker."
RULE = ("update histories (length 2..600 quick / ..5000 thorough, many short ones) fed to ChainTracker, collect_rhat and "
        "MultiChainTracker: 1..16 chains, 1..8 parameters, element types f32/f64/i32/u64, dyadic values m*2^e with "
        "repeated states (rejections) and location up to 10 sd; mean, sm2, collect_rhat^2, multi rhat^2 compared with the "
        "exact Q model (tolerance 16*n*eps32*condition), p_accept compared bit-exactly with the Flocq recurrence. "
        "Non-trivial: >= 2 chains, >= 2 parameters or a repeated state in the history.")
TRUSTED = ["ndarray elementwise kernels and mean_axis (mathematical meaning)", "f32 rounding is bounded per case, not for all inputs"]
ASSUMPTIONS = ["location/scale within f32 conditioning (property's own quantifier): |mean| <= ~10 sd"]
EPS = 2.0 ** -24


def generate(rng, tier):
    n_cases = 170 if tier == "quick" else 800
    cases = [
        # the D7 witness shape: 3 chains x 4 parameters
        {"op": "tracker", "ty": "f32", "e": 0,
         "init": [[0, 0, 0, 0]] * 3,
         "data": [[[0, 1, 0, 1], [1, 2, 2, 0]], [[1, 2, 0, 2], [1, 1, 1, 1]], [[0, 0, 0, 2], [0, 1, 0, 0]]]},
    ]
    while len(cases) < n_cases:
        ty = rng.choice(["f32", "f32", "f64", "i32", "u64"])
        m = rng.choice([1, 2, 2, 3, 4, 8, 16]) if rng.random() < 0.7 else rng.randint(1, 16)
        p = rng.choice([1, 2, 3, 4, 8]) if rng.random() < 0.7 else rng.randint(1, 8)
        r = rng.random()
        if r < 0.6:
            n = rng.randint(2, 40)
        elif r < 0.9:
            n = rng.randint(41, 200)
        else:
            n = rng.randint(201, 600 if tier == "quick" else 3000)
        cap = 6000 if tier == "quick" else 10000
        if m * p * n > cap:
            n = max(2, cap // (m * p))
        e = 0 if ty in ("i32", "u64") else rng.choice([-4, -2, 0, 0, 1, -16, -24])   # incl. very small scales
        sd = rng.choice([3, 10, 50])
        loc = [rng.choice([0, 0, 1, 5, 10]) * sd * rng.choice([-1, 1]) for _ in range(p)]
        if ty in ("i32", "u64") and rng.random() < 0.3:
            # large integer states (exactly representable in f32, but their squares exceed i32 / their sums are large):
            # the trackers must convert to f32 before they square or accumulate
            sd = rng.choice([20000, 300000])
            loc = [rng.choice([50000, 200000, 2000000]) * (1 if ty == "u64" else rng.choice([-1, 1])) for _ in range(p)]
        if ty == "u64":
            loc = [abs(l) + 5 * sd for l in loc]
        shift = [rng.choice([0, 0, 1, 3]) * sd for _ in range(m)]          # chains may disagree
        p_rep = rng.choice([0.0, 0.3, 0.7])
        data, init = [], []
        for c in range(m):
            cur = [loc[k] + shift[c] + rng.randint(-sd, sd) for k in range(p)]
            init.append(list(cur))
            rows = []
            for s in range(n):
                if rng.random() >= p_rep:
                    cur = [loc[k] + shift[c] + rng.randint(-2 * sd, 2 * sd) for k in range(p)]
                    if ty == "u64":
                        cur = [max(0, x) for x in cur]
                rows.append(list(cur))
            data.append(rows)
        cases.append({"op": "tracker", "ty": ty, "e": e, "init": init, "data": data})
    return cases


QN = 48


def qlit(m, e):
    return "(dy %s %s)" % (C.z(m), C.z(e))


def coq_term(case, out):
    if "panic" in out:
        return None
    data, e = case["data"], case["e"]
    m, n, p = len(data), len(data[0]), len(data[0][0])
    parts, qparts = [], []
    for k in range(p):
        chains = "[" + "; ".join("[" + "; ".join(qlit(data[c][s][k], e) for s in range(n)) + "]" for c in range(m)) + "]"
        parts.append("c13_eval %s" % chains)
    for c in range(m):
        inds = []
        prev = case["init"][c]
        for s in range(n):
            x = data[c][s]
            inds.append("(%d, %d)" % (int(x[0] != prev[0]), int(x != prev)))
            prev = x
        parts.append("chain_p_bits [%s]" % "; ".join(inds))
        qparts.append("chain_p_q [%s]" % "; ".join(inds[:QN]))       # denominators grow as 100^k: a prefix only
    steps = []
    prev = [[0] * p for _ in range(m)]
    for s in range(n):
        row = [int(data[c][s] != prev[c]) for c in range(m)]
        prev = [data[c][s] for c in range(m)]
        steps.append("[" + "; ".join(str(b) for b in row) + "]")
    parts.append("multi_p_bits [%s]" % "; ".join(steps))
    # ChainTracker's mean / variance, bit-exact in Flocq binary32, for short histories whose values are exact in f32
    for (c, k, bits) in bitexact_columns(case):
        parts.append("trk32_eval %s" % C.zlist(bits))
    parts += qparts                                     # the exact-arithmetic recurrence the range theorems speak about
    parts.append("multi_p_q [%s]" % "; ".join(steps[:max(1, QN // m)]))
    return " ++ ".join("(%s)" % q for q in parts)


BN = 48


def bitexact_columns(case):
    """(chain, parameter, f32 bit patterns of the column) for histories of at most BN updates whose values m * 2^e are exactly
    representable in binary32 (so that `to_f32` is exact for every element type)"""
    data, e = case["data"], case["e"]
    m, n, p = len(data), len(data[0]), len(data[0][0])
    if n > BN:
        return []
    res = []
    for c in range(min(m, 3)):
        for k in range(min(p, 2)):
            col = [data[c][s][k] for s in range(n)]
            if all(abs(v) < (1 << 24) for v in col) and -100 < e < 100:
                res.append((c, k, [C.float_to_f32_bits(float(v) * 2.0 ** e) for v in col]))
    return res


def unpack(case, model):
    """-> per param dict with Fractions, chain p bits, multi p bits"""
    data = case["data"]
    m, n, p = len(data), len(data[0]), len(data[0][0])
    pos = 0

    def q():
        nonlocal pos
        v = Fraction(model[pos], model[pos + 1])
        pos += 2
        return v
    params = []
    for k in range(p):
        ch = [(q(), q()) for _ in range(m)]
        within = q()
        rh = (q(), q(), q()) if m >= 2 else None
        params.append({"chains": ch, "within": within, "rhat2": rh})
    cp = []
    for c in range(m):
        cp.append(model[pos:pos + n])
        pos += n
    mp = model[pos:pos + n]
    pos += n
    bx = []
    for _ in bitexact_columns(case):
        bx.append(model[pos:pos + 2])
        pos += 2
    pq = [q() for _ in range(m + 1)]                    # exact EMA: one final value per chain, then the multi-chain one
    return params, cp, mp, pq, bx


def close(x, ref, tol_abs):
    return abs(Fraction(x) - ref) <= tol_abs


def compare(case, out, model):
    if "panic" in out:
        return "implementation panicked: " + out["panic"]
    if model is None:
        return None
    return check(case, out, *unpack(case, model))


def check(case, out, params, cp, mp, pq, bx=()):
    for (c, k, bits), mb in zip(bitexact_columns(case), bx):
        gm, gs = out["chains"][c]["mean"][k], out["chains"][c]["sm2"][k]
        nan = lambda b: (b & 0x7F800000) == 0x7F800000 and (b & 0x7FFFFF) != 0
        if (gm != mb[0] and not (nan(gm) and nan(mb[0]))) or (gs != mb[1] and not (nan(gs) and nan(mb[1]))):
            return ("chain %d param %d after %d updates: tracker mean / variance bits (%d, %d) = (%r, %r); the update rule evaluated in "
                    "IEEE binary32 (Model.Tracker.trk32_step) gives (%d, %d) = (%r, %r)" % (
                        c, k, len(bits), gm, gs, C.f32_bits_to_float(gm), C.f32_bits_to_float(gs), mb[0], mb[1],
                        C.f32_bits_to_float(mb[0]), C.f32_bits_to_float(mb[1])))
    data = case["data"]
    m, n, p = len(data), len(data[0]), len(data[0][0])
    growth = Fraction(16 * n) * Fraction(EPS)
    for c in range(m):
        got = C.f32_exact(out["chains"][c]["p"][min(n, QN) - 1])
        if abs(got - pq[c]) > Fraction(1, 2 ** 18):
            return "chain %d: p_accept after %d updates %s, exact-arithmetic EMA (Model.Tracker.chain_pQ) %s" % (c, min(n, QN), float(got), float(pq[c]))
    km = min(n, max(1, QN // m))
    if abs(C.f32_exact(out["multi_p"][km - 1]) - pq[m]) > Fraction(1, 2 ** 18):
        return "multi-chain p_accept after %d steps %s, exact-arithmetic EMA (multi_pQ) %s" % (km, float(C.f32_exact(out["multi_p"][km - 1])), float(pq[m]))
    for c in range(m):
        if out["chains"][c]["n"] != n:
            return "chain %d: tracker count %d after %d updates" % (c, out["chains"][c]["n"], n)
        if out["chains"][c]["p"] != cp[c]:
            return "chain %d: p_accept history differs bitwise from the EMA(0.01) recurrence" % c
    if out["multi_p"] != mp:
        return "multi-chain p_accept history differs bitwise from the EMA(0.01) recurrence"
    for k in range(p):
        kmax = Fraction(1)
        skip = False
        for c in range(m):
            mean, sm2 = params[k]["chains"][c]
            if sm2 == 0:
                skip = True
                continue
            msq = sm2 * (n - 1) / n + mean * mean
            kappa = max(Fraction(1), msq / sm2)
            kmax = max(kmax, kappa)
            gm = C.f32_exact(out["chains"][c]["mean"][k])
            gs = C.f32_exact(out["chains"][c]["sm2"][k])
            scale = abs(mean) + sm2 ** Fraction(1, 2) if False else abs(mean) + Fraction(float(sm2) ** 0.5)
            if not close(gm, mean, growth * scale + Fraction(1, 2 ** 40)):
                return "chain %d param %d: tracker mean %s vs exact %s" % (c, k, float(gm), float(mean))
            if not close(gs, sm2, growth * kappa * sm2):
                return "chain %d param %d: tracker variance %s vs unbiased sample variance %s" % (c, k, float(gs), float(sm2))
        if m >= 2 and not skip and params[k]["within"] != 0:
            cr2, mr2, br2 = params[k]["rhat2"]
            tol = 4 * growth * kmax + Fraction(1, 2 ** 16)
            for name, bits, ref in (("collect_rhat", out["collect_rhat"][k], cr2), ("MultiChainTracker::rhat", out["multi_rhat"][k], mr2)):
                g = C.f32_exact(bits) ** 2
                if not close(g, ref, tol * max(ref, Fraction(1))):
                    return "param %d: %s^2 = %s, model %s (batch sqrt(var+/W)^2 = %s)" % (k, name, float(g), float(ref), float(br2))
    return None


def oracle(case, out):
    """Property text: tracker = count/mean/unbiased variance of the fed states; rhat from trackers =
    classical sqrt(var+/W) = multi-chain tracker; p_accept in [0,1]."""
    if "panic" in out:
        return "tracker panicked: " + out["panic"]
    data, e = case["data"], case["e"]
    m, n, p = len(data), len(data[0]), len(data[0][0])
    sc = Fraction(2) ** e
    growth = Fraction(16 * n) * Fraction(EPS)
    for c in range(m):
        for b in out["chains"][c]["p"]:
            v = C.f32_bits_to_float(b)
            if not (0.0 <= v <= 1.0):
                return "chain %d: p_accept %r outside [0,1]" % (c, v)
    for b in out["multi_p"]:
        v = C.f32_bits_to_float(b)
        if not (0.0 <= v <= 1.0):
            return "multi-chain p_accept %r outside [0,1]" % v
    # p_accept = exponential moving average (weight 0.01) of 'state differs from previous state' indicators, in f32
    try:
        import numpy as np
        a = np.float32(0.01)
        c1 = np.float32(1.0) - a
        for c in range(m):
            prev = case["init"][c]
            pcur = None
            for st in range(n):
                x = data[c][st]
                acc = np.float32(1.0 if x != prev else 0.0)
                if pcur is None:
                    pcur = np.float32(1.0 if x[0] != prev[0] else 0.0)
                pcur = c1 * pcur + a * acc
                got = C.f32_bits_to_float(out["chains"][c]["p"][st])
                if float(pcur) != got:
                    return ("chain %d, update %d (state %s -> %s): reported acceptance rate %r, the 0.01-EMA of the 'state differs' "
                            "indicators is %r" % (c, st, prev, x, got, float(pcur)))
                prev = x
    except ImportError:
        pass
    for k in range(p):
        means, vars_ = [], []
        kmax = Fraction(1)
        for c in range(m):
            xs = [Fraction(data[c][s][k]) * sc for s in range(n)]
            mu = sum(xs) / n
            var = sum((x - mu) ** 2 for x in xs) / (n - 1)
            means.append(mu)
            vars_.append(var)
            if var == 0:
                continue
            kappa = max(Fraction(1), (sum(x * x for x in xs) / n) / var)
            kmax = max(kmax, kappa)
            gm = C.f32_exact(out["chains"][c]["mean"][k])
            gs = C.f32_exact(out["chains"][c]["sm2"][k])
            if abs(gm - mu) > growth * (abs(mu) + Fraction(float(var) ** 0.5)) + Fraction(1, 2 ** 40):
                return "chain %d param %d: reported mean %s, mean of the fed states %s" % (c, k, float(gm), float(mu))
            if abs(gs - var) > growth * kappa * var:
                return "chain %d param %d: reported variance %s, unbiased variance of the fed states %s" % (c, k, float(gs), float(var))
        if m >= 2 and all(v != 0 for v in vars_):
            w = sum(vars_) / m
            g = sum(means) / m
            bn = sum((mu - g) ** 2 for mu in means) / (m - 1)
            r2 = (w * Fraction(n - 1, n) + bn) / w
            tol = (4 * growth * kmax + Fraction(1, 2 ** 16)) * max(r2, Fraction(1))
            a = C.f32_exact(out["collect_rhat"][k]) ** 2
            b = C.f32_exact(out["multi_rhat"][k]) ** 2
            if abs(a - r2) > tol:
                return "param %d (of %d, %d chains): collect_rhat = %.6g but sqrt(var+/W) of the draws = %.6g" % (
                    k, p, m, float(a) ** 0.5, float(r2) ** 0.5)
            if abs(b - r2) > tol:
                return "param %d: MultiChainTracker::rhat = %.6g but sqrt(var+/W) of the draws = %.6g" % (
                    k, float(b) ** 0.5, float(r2) ** 0.5)
    return None


def finding_class(case, out, d):
    return None


def nontrivial(case, out):
    data = case["data"]
    rep = any(data[c][s] == data[c][s - 1] for c in range(len(data)) for s in range(1, len(data[0])))
    return len(data) >= 2 and (len(data[0][0]) >= 2 or rep)


def extra(cases, outs, model):
    tys = {}
    for c in cases:
        tys[c["ty"]] = tys.get(c["ty"], 0) + 1
    return {"element_types": tys, "max_history": max(len(c["data"][0]) for c in cases),
            "multi_param_cases": sum(1 for c in cases if len(c["data"][0][0]) >= 2),
            "bitexact_tracker_columns": sum(len(bitexact_columns(c)) for c in cases)}
