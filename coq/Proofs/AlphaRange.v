(* Range of the NUTS acceptance statistic in FLOATING POINT (any IEEE format, round to nearest
   even): every leaf term min(1, exp(..)) (Model/NUTSEval.v leaf_alpha) is a finite number in
   [0,1]; the tree-ordered float sum of n such terms (Model/NUTS.v talpha, n = tnalpha) is a
   finite number in [0,n] as long as n <= 2^prec; and the quotient alpha / (n_alpha as T) that
   drives the dual-averaging adaptation is a finite number in [0,1].  No real-arithmetic
   idealisation: the statements are about Flocq's Bplus / Bdiv. *)
From MiniMcmc Require Import Base.Fp Base.Util Model.NUTS Model.NUTSEval Proofs.NUTS Proofs.LeafAlpha.
From Coq Require Import Reals Lra Lia.
From Flocq Require Import Core Binary.

Section AlphaRange.
  Variables prec emax : Z.
  Context (Hprec : FLX.Prec_gt_0 prec) (Hmax : BinarySingleNaN.Prec_lt_emax prec emax).
  Notation fl := (binary_float prec emax).
  Variable nanf : fl -> fl -> { x : fl | Binary.is_nan prec emax x = true }.

  Notation fexp := (SpecFloat.fexp prec emax).
  Notation rnd := (round radix2 fexp (BinarySingleNaN.round_mode mode_NE)).

  Local Instance ar_valid_exp : Valid_exp fexp := BinarySingleNaN.fexp_correct prec emax Hprec.
  Local Instance ar_valid_rnd : Valid_rnd (BinarySingleNaN.round_mode mode_NE) :=
    BinarySingleNaN.valid_rnd_round_mode mode_NE.

  Lemma ar_prec_pos : (0 < prec)%Z.
  Proof. exact Hprec. Qed.

  Lemma ar_prec_lt_emax : (prec < emax)%Z.
  Proof. exact Hmax. Qed.

  (* ---- integers up to 2^prec are in the format ---- *)
  Lemma generic_format_small_int : forall n : Z,
    (0 <= n <= 2 ^ prec)%Z -> generic_format radix2 fexp (IZR n).
  Proof.
    intros n [Hn0 Hn]. pose proof ar_prec_pos as Hp. pose proof ar_prec_lt_emax as He.
    destruct (Z.eq_dec n (2 ^ prec)) as [->|Hne].
    - change 2%Z with (radix_val radix2). rewrite IZR_Zpower by lia.
      apply generic_format_bpow. unfold SpecFloat.fexp, SpecFloat.emin. lia.
    - apply (generic_format_FLT radix2 (3 - emax - prec) prec).
      apply (FLT_spec radix2 (3 - emax - prec) prec (IZR n) (Float radix2 n 0)).
      + unfold F2R. cbn [Fnum Fexp bpow]. ring.
      + cbn [Fnum]. change (radix_val radix2) with 2%Z. rewrite Z.abs_eq by lia. lia.
      + cbn [Fexp]. lia.
  Qed.

  Lemma rnd_small_int : forall n : Z, (0 <= n <= 2 ^ prec)%Z -> rnd (IZR n) = IZR n.
  Proof.
    intros n Hn. apply round_generic; [exact ar_valid_rnd|]. exact (generic_format_small_int n Hn).
  Qed.

  Lemma pow_prec_lt_bpow_emax : (IZR (2 ^ prec) < bpow radix2 emax)%R.
  Proof.
    pose proof ar_prec_pos as Hp. pose proof ar_prec_lt_emax as He.
    change 2%Z with (radix_val radix2). rewrite IZR_Zpower by lia. apply bpow_lt. exact He.
  Qed.

  (* a rounded value squeezed between 0 and an in-format integer: squeezed, and no overflow *)
  Lemma rnd_between : forall (x : R) (n : Z),
    (0 <= n <= 2 ^ prec)%Z -> (0 <= x <= IZR n)%R ->
    (0 <= rnd x <= IZR n)%R /\ Rlt_bool (Rabs (rnd x)) (bpow radix2 emax) = true.
  Proof.
    intros x n Hn [Hx0 Hxn].
    assert (H0 : (0 <= rnd x)%R).
    { apply round_ge_generic; [exact ar_valid_exp|exact ar_valid_rnd| |exact Hx0].
      apply generic_format_0. }
    assert (H1 : (rnd x <= IZR n)%R).
    { apply round_le_generic; [exact ar_valid_exp|exact ar_valid_rnd| |exact Hxn].
      exact (generic_format_small_int n Hn). }
    split; [split; assumption|].
    apply Rlt_bool_true. rewrite Rabs_pos_eq by exact H0.
    apply Rle_lt_trans with (IZR n); [exact H1|].
    apply Rle_lt_trans with (IZR (2 ^ prec)); [apply IZR_le; lia|].
    exact pow_prec_lt_bpow_emax.
  Qed.

  (* ---------------------------------------------------------------- (1) one leaf term *)
  Section Leaf.
    Variable one : fl.
    Hypothesis one_finite : is_finite prec emax one = true.
    Hypothesis one_value : B2R prec emax one = 1%R.

    (* what exp can return: NaN, +infinity, or a non-negative finite number *)
    Definition exp_like (r : fl) : Prop :=
      fnan r = true \/ r = B754_infinity prec emax false \/
      (is_finite prec emax r = true /\ (0 <= B2R prec emax r)%R).

    Lemma flt_finite_R (a b : fl) :
      is_finite prec emax a = true -> is_finite prec emax b = true ->
      flt a b = Rlt_bool (B2R prec emax a) (B2R prec emax b).
    Proof.
      intros Fa Fb. unfold flt, fcmp. rewrite (Bcompare_correct prec emax a b Fa Fb).
      unfold Rlt_bool. destruct (Rcompare (B2R prec emax a) (B2R prec emax b)); reflexivity.
    Qed.

    Lemma leaf_alpha_range : forall r : fl, exp_like r ->
      is_finite prec emax (leaf_alpha one r) = true /\
      (0 <= B2R prec emax (leaf_alpha one r) <= 1)%R.
    Proof.
      intros r [Hn|[Hi|[Fr Hr]]]; unfold leaf_alpha.
      - rewrite Hn. cbn [is_finite B2R]. split; [reflexivity|lra].
      - subst r. cbn [fnan is_nan].
        assert (E : flt (B754_infinity prec emax false) one = false).
        { unfold flt, fcmp. destruct one; try discriminate one_finite; reflexivity. }
        rewrite E. rewrite one_value. split; [exact one_finite|lra].
      - assert (En : fnan r = false).
        { unfold fnan. destruct r; try discriminate Fr; reflexivity. }
        rewrite En, (flt_finite_R r one Fr one_finite), one_value.
        destruct (Rlt_bool_spec (B2R prec emax r) 1) as [Hlt|Hge].
        + split; [exact Fr|lra].
        + rewrite one_value. split; [exact one_finite|lra].
    Qed.
  End Leaf.

  (* ---------------------------------------------------------------- (2) one addition *)
  Lemma fplus_range : forall (x y : fl) (a b : Z),
    is_finite prec emax x = true -> is_finite prec emax y = true ->
    (0 <= a)%Z -> (0 <= b)%Z -> (a + b <= 2 ^ prec)%Z ->
    (0 <= B2R prec emax x <= IZR a)%R -> (0 <= B2R prec emax y <= IZR b)%R ->
    is_finite prec emax (fplus nanf x y) = true /\
    (0 <= B2R prec emax (fplus nanf x y) <= IZR (a + b))%R.
  Proof.
    intros x y a b Fx Fy Ha Hb Hab Hx Hy. unfold fplus.
    pose proof (Bplus_correct prec emax Hprec Hmax nanf mode_NE x y Fx Fy) as Hc.
    assert (Hs : (0 <= B2R prec emax x + B2R prec emax y <= IZR (a + b))%R)
      by (rewrite plus_IZR; lra).
    destruct (rnd_between _ (a + b)%Z (conj (Z.add_nonneg_nonneg _ _ Ha Hb) Hab) Hs) as [Hr Hlt].
    rewrite Hlt in Hc. destruct Hc as (Hv & Hf & _).
    split; [exact Hf|]. rewrite Hv. exact Hr.
  Qed.

  (* ---------------------------------------------------------------- (3) the tree sum *)
  Section Tree.
    Context {P F U : Type}.
    Variable leap : bool -> P -> P.
    Variable joint : P -> F.
    Variable noturn : P -> P -> bool.
    Variable fltF : F -> F -> bool.
    Variable sub1000 : F -> F.
    Variable alpha1 : P -> fl.
    Variable take2 : U -> nat -> nat -> bool.
    Variable logu : F.

    Notation build_tree :=
      (build_tree leap joint noturn fltF sub1000 alpha1 (fplus nanf) take2 logu).

    Hypothesis Halpha : forall z,
      is_finite prec emax (alpha1 z) = true /\ (0 <= B2R prec emax (alpha1 z) <= 1)%R.

    Lemma build_tree_tnalpha_bounds : forall j z v us t us',
      build_tree j z v us = Some (t, us') -> (1 <= tnalpha t <= 2 ^ j)%nat.
    Proof.
      intros j z v us t us' H.
      destruct (build_tree_leaves _ _ _ _ _ _ _ _ _ _ _ _ _ _ _ H) as (m & Hm & _ & Hn & _).
      rewrite Hn. exact Hm.
    Qed.

    (* the sharp form: only the number of leaves actually summed matters *)
    Lemma build_tree_talpha_range_count : forall j z v us t us',
      build_tree j z v us = Some (t, us') ->
      (Z.of_nat (tnalpha t) <= 2 ^ prec)%Z ->
      is_finite prec emax (talpha t) = true /\
      (0 <= B2R prec emax (talpha t) <= INR (tnalpha t))%R.
    Proof.
      induction j as [|k IH]; intros z v us t us' H Hcnt.
      - cbn [NUTS.build_tree] in H. inversion H; subst. cbn [leaf talpha tnalpha].
        change (INR 1) with 1%R. exact (Halpha _).
      - cbn [NUTS.build_tree] in H.
        destruct (build_tree k z v us) as [[t1 us1]|] eqn:E1; [|discriminate].
        destruct (ts t1) eqn:Es1.
        + destruct (build_tree k (if v then zp t1 else zm t1) v us1) as [[t2 us2]|] eqn:E2;
            [|discriminate].
          destruct us2 as [|u us3]; [discriminate|]. inversion H; subst t us'.
          cbn [merge talpha tnalpha] in *.
          rewrite Nat2Z.inj_add in Hcnt.
          destruct (IH _ _ _ _ _ E1) as [F1 R1]; [lia|].
          destruct (IH _ _ _ _ _ E2) as [F2 R2]; [lia|].
          rewrite INR_IZR_INZ in R1, R2.
          rewrite INR_IZR_INZ, Nat2Z.inj_add.
          apply fplus_range; try assumption; lia.
        + inversion H; subst t us'. exact (IH _ _ _ _ _ E1 Hcnt).
    Qed.

    Lemma pow2_nat_Z (j : nat) : Z.of_nat (2 ^ j) = (2 ^ Z.of_nat j)%Z.
    Proof. rewrite Nat2Z.inj_pow. reflexivity. Qed.

    Lemma build_tree_talpha_range : forall j z v us t us',
      build_tree j z v us = Some (t, us') ->
      (2 ^ Z.of_nat j <= 2 ^ prec)%Z ->
      is_finite prec emax (talpha t) = true /\
      (0 <= B2R prec emax (talpha t) <= INR (tnalpha t))%R.
    Proof.
      intros j z v us t us' H Hj.
      apply (build_tree_talpha_range_count _ _ _ _ _ _ H).
      pose proof (build_tree_tnalpha_bounds _ _ _ _ _ _ H) as [_ Hle].
      apply Nat2Z.inj_le in Hle. rewrite pow2_nat_Z in Hle. lia.
    Qed.
  End Tree.

  (* ---------------------------------------------------------------- (4) the quotient *)
  (* `n as T` for a count: exact while n <= 2^prec *)
  Definition nat_fl (n : nat) : fl :=
    binary_normalize prec emax Hprec Hmax mode_NE (Z.of_nat n) 0 false.

  Lemma nat_fl_exact : forall n : nat, (Z.of_nat n <= 2 ^ prec)%Z ->
    is_finite prec emax (nat_fl n) = true /\ B2R prec emax (nat_fl n) = INR n.
  Proof.
    intros n Hn. unfold nat_fl.
    pose proof (binary_normalize_correct prec emax Hprec Hmax mode_NE (Z.of_nat n) 0 false) as Hc.
    assert (E : F2R (Float radix2 (Z.of_nat n) 0) = IZR (Z.of_nat n))
      by (unfold F2R; cbn [Fnum Fexp bpow]; ring).
    rewrite E in Hc.
    assert (Hr : (0 <= Z.of_nat n <= 2 ^ prec)%Z) by lia.
    rewrite (rnd_small_int _ Hr) in Hc.
    assert (Hlt : Rlt_bool (Rabs (IZR (Z.of_nat n))) (bpow radix2 emax) = true).
    { apply Rlt_bool_true. rewrite Rabs_pos_eq by (apply IZR_le; lia).
      apply Rle_lt_trans with (IZR (2 ^ prec)); [apply IZR_le; lia|].
      exact pow_prec_lt_bpow_emax. }
    rewrite Hlt in Hc. destruct Hc as (Hv & Hf & _).
    split; [exact Hf|]. rewrite Hv. symmetry. apply INR_IZR_INZ.
  Qed.

  Lemma fdiv_count_range : forall (s : fl) (n : nat),
    is_finite prec emax s = true -> (0 <= B2R prec emax s <= INR n)%R ->
    (1 <= n)%nat -> (Z.of_nat n <= 2 ^ prec)%Z ->
    is_finite prec emax (fdiv nanf s (nat_fl n)) = true /\
    (0 <= B2R prec emax (fdiv nanf s (nat_fl n)) <= 1)%R.
  Proof.
    intros s n Fs Hs Hn1 Hn. unfold fdiv.
    destruct (nat_fl_exact n Hn) as [Fn Vn].
    assert (Hpos : (0 < INR n)%R) by (apply lt_0_INR; lia).
    assert (Hnz : B2R prec emax (nat_fl n) <> 0%R) by (rewrite Vn; lra).
    pose proof (Bdiv_correct prec emax Hprec Hmax nanf mode_NE s (nat_fl n) Hnz) as Hc.
    rewrite Vn in Hc.
    assert (Hq : (0 <= B2R prec emax s / INR n <= IZR 1)%R).
    { split.
      - apply Rmult_le_pos; [lra|]. left. apply Rinv_0_lt_compat. exact Hpos.
      - apply Rmult_le_reg_r with (INR n); [exact Hpos|].
        unfold Rdiv. rewrite Rmult_assoc, Rinv_l by lra. lra. }
    assert (H1 : (0 <= 1 <= 2 ^ prec)%Z).
    { pose proof ar_prec_pos as Hp. split; [lia|].
      change 1%Z with (2 ^ 0)%Z at 1. apply Z.pow_le_mono_r; lia. }
    destruct (rnd_between _ 1%Z H1 Hq) as [Hr Hlt].
    rewrite Hlt in Hc. destruct Hc as (Hv & Hf & _).
    split; [rewrite Hf; exact Fs|]. rewrite Hv. exact Hr.
  Qed.

  (* ---------------------------------------------------------------- (3) + (4) *)
  Section Statistic.
    Context {P F U : Type}.
    Variable leap : bool -> P -> P.
    Variable joint : P -> F.
    Variable noturn : P -> P -> bool.
    Variable fltF : F -> F -> bool.
    Variable sub1000 : F -> F.
    Variable alpha1 : P -> fl.
    Variable take2 : U -> nat -> nat -> bool.
    Variable logu : F.

    Notation build_tree :=
      (build_tree leap joint noturn fltF sub1000 alpha1 (fplus nanf) take2 logu).

    (* alpha / (n_alpha as T) of a sub-tree *)
    Definition accept_stat (t : @tree P fl) : fl := fdiv nanf (talpha t) (nat_fl (tnalpha t)).

    Hypothesis Halpha : forall z,
      is_finite prec emax (alpha1 z) = true /\ (0 <= B2R prec emax (alpha1 z) <= 1)%R.

    Theorem acceptance_statistic_in_unit_interval : forall j z v us t us',
      build_tree j z v us = Some (t, us') ->
      (2 ^ Z.of_nat j <= 2 ^ prec)%Z ->
      is_finite prec emax (accept_stat t) = true /\
      (0 <= B2R prec emax (accept_stat t) <= 1)%R.
    Proof.
      intros j z v us t us' H Hj.
      destruct (build_tree_talpha_range leap joint noturn fltF sub1000 alpha1 take2 logu Halpha
                  _ _ _ _ _ _ H Hj) as [Ft Rt].
      pose proof (build_tree_tnalpha_bounds leap joint noturn fltF sub1000 alpha1 take2 logu
                    _ _ _ _ _ _ H) as [Hn1 Hle].
      apply Nat2Z.inj_le in Hle. rewrite pow2_nat_Z in Hle.
      unfold accept_stat. apply fdiv_count_range; [exact Ft|exact Rt|exact Hn1|lia].
    Qed.
  End Statistic.

  (* the leaf rule of the code plugged in: alpha1 z = leaf_alpha 1 (ratio z), where ratio z is
     whatever exp returned *)
  Section WithLeafRule.
    Context {P F U : Type}.
    Variable leap : bool -> P -> P.
    Variable joint : P -> F.
    Variable noturn : P -> P -> bool.
    Variable fltF : F -> F -> bool.
    Variable sub1000 : F -> F.
    Variable ratio : P -> fl.
    Variable take2 : U -> nat -> nat -> bool.
    Variable logu : F.
    Variable one : fl.
    Hypothesis one_finite : is_finite prec emax one = true.
    Hypothesis one_value : B2R prec emax one = 1%R.
    Hypothesis Hratio : forall z, exp_like (ratio z).

    Theorem acceptance_statistic_leaf_rule : forall j z v us t us',
      build_tree leap joint noturn fltF sub1000 (fun p => leaf_alpha one (ratio p)) (fplus nanf)
        take2 logu j z v us = Some (t, us') ->
      (2 ^ Z.of_nat j <= 2 ^ prec)%Z ->
      (is_finite prec emax (talpha t) = true /\
       (0 <= B2R prec emax (talpha t) <= INR (tnalpha t))%R) /\
      is_finite prec emax (accept_stat t) = true /\
      (0 <= B2R prec emax (accept_stat t) <= 1)%R.
    Proof.
      intros j z v us t us' H Hj.
      assert (Ha : forall p, is_finite prec emax (leaf_alpha one (ratio p)) = true /\
                             (0 <= B2R prec emax (leaf_alpha one (ratio p)) <= 1)%R)
        by (intros p; exact (leaf_alpha_range one one_finite one_value _ (Hratio p))).
      split.
      - exact (build_tree_talpha_range leap joint noturn fltF sub1000 _ take2 logu Ha
                 _ _ _ _ _ _ H Hj).
      - exact (acceptance_statistic_in_unit_interval leap joint noturn fltF sub1000 _ take2 logu Ha
                 _ _ _ _ _ _ H Hj).
    Qed.
  End WithLeafRule.
End AlphaRange.

Arguments exp_like {prec emax}.
Arguments nat_fl {prec emax Hprec Hmax}.
Arguments accept_stat {prec emax Hprec Hmax} nanf {P}.
