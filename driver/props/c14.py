"""C14 — no sampler ever moves to a zero-density, NaN-density or non-finite state."""
import json, math, subprocess
from concurrent.futures import ThreadPoolExecutor
import common as C
from props import nutslib as N

ID = "C14"
LEVEL = "proof"
COQ_HEADER = "From MiniMcmc Require Import Model.MH Model.HMC Model.NUTSEval."
RULE = ("MH (IsotropicGaussian proposals with large jumps plus injected NaN/inf/-1e300 candidates), HMC (per-step hook) and NUTS "
        "(transition trace) on targets with bounded support or NaN regions (half-line, box, ln and sqrt of negative arguments), "
        "started inside the support, step sizes from 1e-3 to 1e30: every state returned / every position after a step is evaluated "
        "with the driver's own copy of the target: finite coordinates and finite log-density; no panic; NUTS cases each in their own "
        "process under a watchdog. The HMC/MH accept decisions of every step are additionally recomputed in Flocq. Non-trivial: the "
        "run contains at least one candidate outside the support / non-finite (counted from the traces).")
TRUSTED = ["the user's target returns NaN or -inf at positions with non-finite coordinates (hypothesis made explicit in DESIGN.md)"]
ASSUMPTIONS = ["acceptance draws equal to exactly 0 are excepted (property's own exception)",
               "NUTS has no depth cap: non-termination on targets where neither U-turn nor divergence ever occurs is outside this property; watchdog only"]
WATCHDOG_S = 120


def fb(x):
    return C.float_to_f64_bits(x)


def bf(b):
    return C.f64_bits_to_float(b)


def target_logp(kind, x):
    try:
        if kind == "halfline":
            return -x[0] - 0.5 * sum(v * v for v in x[1:]) if x[0] > 0 else -math.inf
        if kind == "box":
            return -0.05 * sum(v * v for v in x) if all(abs(v) < 1 for v in x) else -math.inf
        if kind == "logdomain":
            return (math.log(x[0]) if x[0] > 0 else math.nan) - x[0] - 0.5 * sum(v * v for v in x[1:])
        if kind == "sqrtgrad":
            return (-x[0] - 2 * math.sqrt(x[0]) if x[0] >= 0 else math.nan) - 0.5 * sum(v * v for v in x[1:])
        if kind in ("sqrtdomain", "ball"):
            r = 1 - sum(v * v for v in x)
            return math.log(r) if r > 0 else math.nan
    except (OverflowError, ValueError):
        return math.nan
    return 0.0


def generate(rng, tier):
    cases = []
    reps = 6 if tier == "quick" else 60
    for _ in range(reps):
        for sup in ["halfline", "box", "logdomain", "sqrtdomain"]:
            d = rng.choice([1, 2, 3])
            init = [0.5] + [0.1] * (d - 1)
            cases.append({"sampler": "mh", "support": sup, "init": [fb(v) for v in init], "std": fb(rng.choice([0.3, 1.0, 5.0, 1e6, 1e300])),
                          "k": 300, "seed": str(rng.getrandbits(64)), "wild_every": rng.choice([0, 7, 3])})
        for sup, f in [("halfline", "f32"), ("logdomain", "f32"), ("box", "f32"), ("halfline", "f64"), ("logdomain", "f64")]:
            d = rng.choice([1, 2])
            nc = rng.choice([1, 3])
            init = [[fb(0.5)] + [fb(0.1)] * (d - 1) for _ in range(nc)]
            eps = rng.choice([1e-3, 0.1, 1.0, 30.0, 1e6, 1e30])
            cases.append({"sampler": "hmc", "f": f, "target": {"kind": sup}, "init": init, "eps": fb(eps if f == "f64" else C.f32_bits_to_float(C.float_to_f32_bits(eps))),
                          "L": rng.choice([1, 3, 10]), "k": 8, "seed": str(rng.getrandbits(64))})
        # sqrtgrad: density AND gradient are NaN outside the support (the initial step-size search must still terminate)
        for sup, f in [("halfline", "f32"), ("logdomain", "f32"), ("ball", "f32"), ("halfline", "f64"), ("ball", "f64"),
                       ("sqrtgrad", "f32"), ("sqrtgrad", "f64")]:
            d = rng.choice([1, 2])
            c = {"sampler": "nuts", "op": "transitions", "f": f, "target": {"kind": sup},
                 "init": [fb(1.0 if sup == "sqrtgrad" else 0.5)] + [fb(0.1)] * (d - 1),
                 "accept": 0.8, "seed": str(rng.getrandbits(64)), "runs": [[rng.randint(3, 6), rng.randint(0, 3)]]}
            if rng.random() < 0.6:
                c["force_eps"] = fb(rng.choice([1e-3, 0.3, 5.0, 1e4, 1e30]))
            cases.append(c)
    return cases


def run_nuts(case):
    try:
        p = subprocess.run([C.HARNESS_BIN, "C03"], input=json.dumps(case) + "\n", capture_output=True, text=True, timeout=WATCHDOG_S)
        lines = [l for l in p.stdout.splitlines() if l.startswith("{")]
        if p.returncode != 0 or not lines:
            return {"crash": "rc=%s %s" % (p.returncode, p.stderr[-300:])}
        return json.loads(lines[-1])
    except subprocess.TimeoutExpired:
        return {"timeout": WATCHDOG_S}


def run_impl(cases):
    outs = [None] * len(cases)
    for pid, smp in (("C14", "mh"), ("C02", "hmc")):
        idx = [i for i, c in enumerate(cases) if c["sampler"] == smp]
        for i, o in zip(idx, C.run_harness(pid, [cases[i] for i in idx])):
            outs[i] = o
    idx = [i for i, c in enumerate(cases) if c["sampler"] == "nuts"]
    with ThreadPoolExecutor(max_workers=8) as ex:
        for i, o in zip(idx, ex.map(run_nuts, [cases[i] for i in idx])):
            outs[i] = o
    return outs


SEP = -1000000007


def nuts_trs(case, out):
    if "runs" not in out:
        return []
    trs = []
    for run in out["runs"]:
        trs += N.split_transitions(run["events"])
    return [t for t in trs if sum(len(d["leaves"]) for d in t["doublings"]) <= 300 and not N.ambiguous(t, case["f"])]


def coq_term(case, out):
    """every accept decision recomputed in the Flocq models: HMC rows (hmc_row_float), MH steps (mh_step), NUTS transitions
    (Model.NUTS.transition through nuts_eval)"""
    if case["sampler"] == "mh" and "decisions" in out:
        return " ++ ".join("(mh_step64 0 1 %d %d %d %d %d)" % (d["lp_x"], d["lp_y"], d["lq_f"], d["lq_b"], d["lnu"]) for d in out["decisions"])
    if case["sampler"] == "nuts":
        trs = nuts_trs(case, out)
        return (" ++ [%s] ++ " % C.z(SEP)).join("(%s)" % N.coq_term(t, case["f"]) for t in trs) if trs else None
    if case["sampler"] != "hmc" or "steps" not in out:
        return None
    fn = "hmc_decide32" if case["f"] == "f32" else "hmc_decide64"
    conv = (lambda b: C.float_to_f32_bits(bf(b))) if case["f"] == "f32" else (lambda b: b)
    parts = []
    for st in out["steps"]:
        for r in range(st["n_chains"]):
            parts.append("%s %d %d %d" % (fn, conv(st["h_current"][r]), conv(st["h_proposed"][r]), conv(st["ln_u"][r])))
    return " ++ ".join("(%s)" % q for q in parts) if parts else None


def compare(case, out, model):
    if model is None:
        return None
    if case["sampler"] == "mh":
        prev = case["init"]
        for k, (d, m, s) in enumerate(zip(out["decisions"], model, out["states"])):
            exp = d["cand"] if m == 1 else prev
            if s != exp:
                return "MH step %d: state after the step is %s, Flocq mh_step keeps %s" % (
                    k, [bf(b) for b in s], "the candidate" if m == 1 else "the previous state")
            prev = s
        return None
    if case["sampler"] == "nuts":
        trs = nuts_trs(case, out)
        parts, cur = [], []
        for x in model:
            if x == SEP:
                parts.append(cur)
                cur = []
            else:
                cur.append(x)
        parts.append(cur)
        if len(parts) != len(trs):
            return "model output malformed"
        for t, m in zip(trs, parts):
            r = N.expected(t, case["f"], m)
            if r:
                return "NUTS transition m=%d: %s" % (t["start"]["m"], r)
        return None
    pos = 0
    for si, st in enumerate(out["steps"]):
        for r in range(st["n_chains"]):
            m = model[pos + 1]
            pos += 2
            if bool(m) != st["mask"][r]:
                return "HMC step %d row %d: accept mask %s, Flocq decision %s" % (si, r, st["mask"][r], bool(m))
    return None


def bad_state(kind, x):
    if not all(math.isfinite(v) for v in x):
        return "non-finite coordinates %s" % x
    lp = target_logp(kind, x)
    if not math.isfinite(lp):
        return "state %s of log-density %r" % (x, lp)
    return None


def oracle(case, out):
    tag = "%s on %s" % (case["sampler"], case.get("support") or case["target"]["kind"])
    if "timeout" in out:
        return "%s: did not terminate within %d s" % (tag, out["timeout"])
    if "crash" in out:
        return "%s: process died: %s" % (tag, out["crash"])
    if "panic" in out:
        return "%s panicked: %s" % (tag, out["panic"])
    if case["sampler"] == "mh":
        for k, st in enumerate(out["states"]):
            b = bad_state(case["support"], [bf(v) for v in st])
            if b:
                return "%s (proposal std %r): step %d moved the chain to %s" % (tag, bf(case["std"]), k, b)
    elif case["sampler"] == "hmc":
        kind = case["target"]["kind"]
        for si, st in enumerate(out["steps"]):
            d = st["dim"]
            for r in range(st["n_chains"]):
                x = [bf(v) for v in st["pos_after"][r * d:(r + 1) * d]]
                b = bad_state(kind, x)
                if b and bf(st["uniform"][r]) != 0.0:
                    return "%s (eps %r, L %d): step %d row %d moved to %s (ln u = %r, energy difference %r)" % (
                        tag, bf(case["eps"]), case["L"], si, r, b, bf(st["ln_u"][r]), bf(st["accept_logp"][r]))
    else:
        kind = case["target"]["kind"]
        for run in out["runs"]:
            for e in run["events"]:
                if e["e"] in ("stepend",):
                    b = bad_state(kind, [bf(v) for v in e["position"]])
                    if b:
                        return "%s (eps %r): transition m=%d moved the chain to %s" % (tag, bf(e["epsilon"]), e["m"], b)
            for st in run["states"]:
                eps = bf(st[1])
                if not (eps > 0):
                    return "%s: step size became %r" % (tag, eps)
    return None


def finding_class(case, out, d):
    return None


def nontrivial(case, out):
    """the run contains at least one candidate outside the support / non-finite"""
    if case["sampler"] == "mh":
        return bf(case["std"]) >= 1.0 or case["wild_every"] > 0
    if case["sampler"] == "hmc":
        return any(not math.isfinite(bf(v)) for st in out.get("steps", []) for v in st["h_proposed"])
    for run in out.get("runs", []):
        for e in run["events"]:
            if e["e"] == "leaf" and not (bf(e["joint"]) > -1e30):
                return True
    return False


def extra(cases, outs, model):
    rej_nonfinite = 0
    for c, o in zip(cases, outs):
        if c["sampler"] == "hmc":
            for st in o.get("steps", []):
                rej_nonfinite += sum(1 for h, m in zip(st["h_proposed"], st["mask"]) if not math.isfinite(bf(h)) and not m)
    smp = {}
    for c in cases:
        smp[c["sampler"]] = smp.get(c["sampler"], 0) + 1
    return {"samplers": smp, "hmc_nonfinite_proposals_rejected": rej_nonfinite}


def corrupt(model):
    """model output is [delta bits, mask] per row: flip every mask"""
    if all(x in (0, 1) for x in model):          # MH: one keep/move flag per step
        return [1 - x for x in model]
    return [1 - x if i % 2 == 1 else x for i, x in enumerate(model)]
