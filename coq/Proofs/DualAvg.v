(* Proofs about the dual-averaging step-size adaptation model (Model/DualAvg.v), real-number
   instance tnumR, plus the soundness of the interval instance tnumI w.r.t. tnumR. *)
From MiniMcmc Require Import Model.DualAvg.
From Coq Require Import Reals Lra Lia List.
From Interval Require Import Interval Xreal.
Open Scope R_scope.

Notation stR := (dastate tnumR).
Notation mR := (da_m tnumR).
Notation epsR := (da_eps tnumR).
Notation ebR := (da_eps_bar tnumR).
Notation hbR := (da_h_bar tnumR).
Notation muR := (da_mu tnumR).

Lemma ofN_R : forall n : nat, ofN tnumR n = INR n.
Proof. intro n. unfold ofN. cbn. symmetry. apply INR_IZR_INZ. Qed.

Lemma one_R : one tnumR = 1.
Proof. reflexivity. Qed.

Section DA.
  Variables delta gamma kappa : R.
  Variable t0 : nat.
  Notation step := (da_step tnumR delta gamma kappa t0).

  (* ---- unfolding lemmas ---- *)
  Definition h_next (st : stR) (a : R) : R :=
    let m := S (mR st) in
    (1 - 1 / INR (m + t0)) * hbR st + 1 / INR (m + t0) * (delta - a).

  Lemma step_m : forall nd st a, mR (step nd st a) = S (mR st).
  Proof. intros nd st a. unfold da_step. destruct (Nat.leb _ _); reflexivity. Qed.

  Lemma step_mu : forall nd st a, muR (step nd st a) = muR st.
  Proof. intros nd st a. unfold da_step. destruct (Nat.leb _ _); reflexivity. Qed.

  Lemma step_h : forall nd st a, hbR (step nd st a) = h_next st a.
  Proof.
    intros nd st a. unfold da_step, h_next.
    destruct (Nat.leb _ _); cbn [da_h_bar]; rewrite ofN_R; reflexivity.
  Qed.

  Lemma step_warm_eps : forall nd st a, (S (mR st) <= nd)%nat ->
    epsR (step nd st a) = exp (muR st - sqrt (INR (S (mR st))) / gamma * h_next st a).
  Proof.
    intros nd st a Hle. unfold da_step, h_next.
    apply Nat.leb_le in Hle. rewrite Hle. cbn [da_eps]. rewrite !ofN_R. reflexivity.
  Qed.

  Lemma step_warm_eb : forall nd st a, (S (mR st) <= nd)%nat ->
    ebR (step nd st a) =
    exp ((1 - exp (- kappa * ln (INR (S (mR st))))) * ln (ebR st)
         + exp (- kappa * ln (INR (S (mR st)))) * ln (epsR (step nd st a))).
  Proof.
    intros nd st a Hle. rewrite (step_warm_eps nd st a Hle). unfold da_step, h_next.
    apply Nat.leb_le in Hle. rewrite Hle. cbn [da_eps_bar]. rewrite !ofN_R.
    cbn [tofZ tsub tmul tadd tdiv texp tln tsqrt tnumR].
    replace (0 - kappa) with (- kappa) by ring. reflexivity.
  Qed.

  Lemma step_frozen_eps : forall nd st a, (nd < S (mR st))%nat -> epsR (step nd st a) = ebR st.
  Proof.
    intros nd st a Hlt. unfold da_step.
    apply Nat.leb_gt in Hlt. rewrite Hlt. reflexivity.
  Qed.

  Lemma step_frozen_eb : forall nd st a, (nd < S (mR st))%nat -> ebR (step nd st a) = ebR st.
  Proof.
    intros nd st a Hlt. unfold da_step.
    apply Nat.leb_gt in Hlt. rewrite Hlt. reflexivity.
  Qed.

  (* ---- (1) warm-up closed form ---- *)
  Lemma da_warmup_closed_form : forall (nd : nat) (st : stR) (a : R),
    let m := S (mR st) in
    (m <= nd)%nat ->
    let st' := step nd st a in
    hbR st' = (1 - 1 / INR (m + t0)) * hbR st + 1 / INR (m + t0) * (delta - a) /\
    ln (epsR st') = muR st - sqrt (INR m) / gamma * hbR st' /\
    ln (ebR st') = (1 - exp (- kappa * ln (INR m))) * ln (ebR st)
                   + exp (- kappa * ln (INR m)) * ln (epsR st') /\
    mR st' = m /\ muR st' = muR st.
  Proof.
    intros nd st a m Hle st'. subst m st'.
    split; [apply step_h|]. split.
    - rewrite step_warm_eps by exact Hle. rewrite ln_exp. rewrite step_h. reflexivity.
    - split.
      + rewrite step_warm_eb by exact Hle. rewrite ln_exp. reflexivity.
      + split; [apply step_m | apply step_mu].
  Qed.

  (* the same without logarithms *)
  Lemma da_warmup_exp_form : forall (nd : nat) (st : stR) (a : R),
    let m := S (mR st) in
    (m <= nd)%nat ->
    let st' := step nd st a in
    epsR st' = exp (muR st - sqrt (INR m) / gamma * hbR st') /\
    ebR st' = exp ((1 - Rpower (INR m) (- kappa)) * ln (ebR st)
                   + Rpower (INR m) (- kappa) * ln (epsR st')).
  Proof.
    intros nd st a m Hle st'. subst m st'. split.
    - rewrite step_warm_eps by exact Hle. rewrite step_h. reflexivity.
    - rewrite step_warm_eb by exact Hle. unfold Rpower. reflexivity.
  Qed.

  (* the h_bar recursion holds at every transition, warm-up or not *)
  Lemma da_hbar_update : forall (nd : nat) (st : stR) (a : R),
    hbR (step nd st a)
    = (1 - 1 / INR (S (mR st) + t0)) * hbR st + 1 / INR (S (mR st) + t0) * (delta - a).
  Proof. intros. apply step_h. Qed.

  (* ---- (2) frozen after warm-up ---- *)
  Lemma da_frozen_step : forall (nd : nat) (st : stR) (a : R),
    (nd < S (mR st))%nat ->
    let st' := step nd st a in
    epsR st' = ebR st /\ ebR st' = ebR st /\ mR st' = S (mR st).
  Proof.
    intros nd st a Hlt st'. subst st'.
    split; [apply step_frozen_eps; exact Hlt|].
    split; [apply step_frozen_eb; exact Hlt | apply step_m].
  Qed.

  Lemma fold_m : forall nd accs st,
    mR (fold_left (step nd) accs st) = (mR st + length accs)%nat.
  Proof.
    intros nd accs. induction accs as [|a accs IH]; intro st; cbn [fold_left length].
    - lia.
    - rewrite IH, step_m. lia.
  Qed.

  Lemma da_frozen : forall (nd : nat) (accs : list R) (st : stR),
    (nd <= mR st)%nat ->
    let st' := fold_left (step nd) accs st in
    ebR st' = ebR st /\ (accs <> nil -> epsR st' = ebR st) /\
    mR st' = (mR st + length accs)%nat.
  Proof.
    intros nd accs. induction accs as [|a accs IH]; intros st Hle; cbn [fold_left length].
    - split; [reflexivity|]. split; [intro H; exfalso; apply H; reflexivity | lia].
    - assert (Hlt : (nd < S (mR st))%nat) by lia.
      assert (Hle' : (nd <= mR (step nd st a))%nat) by (rewrite step_m; lia).
      destruct (IH (step nd st a) Hle') as (Heb & Heps & Hm).
      rewrite (step_frozen_eb nd st a Hlt) in Heb, Heps.
      split; [exact Heb|]. split.
      + intros _. destruct accs as [|a' accs'].
        * simpl. apply step_frozen_eps. exact Hlt.
        * apply Heps. discriminate.
      + rewrite Hm, step_m. lia.
  Qed.

  (* ---- across runs ---- *)
  Lemma da_init_keeps : forall st : stR,
    let st0 := da_init tnumR st in
    mR st0 = mR st /\ epsR st0 = epsR st /\ ebR st0 = ebR st /\ hbR st0 = hbR st /\
    muR st0 = ln (10 * epsR st).
  Proof. intro st. cbn. repeat split; reflexivity. Qed.

  Lemma da_run_no_adapt : forall (nd' : nat) (st : stR) (accs : list R),
    (nd' <= mR st)%nat ->
    let st' := da_run tnumR delta gamma kappa t0 nd' st accs in
    ebR st' = ebR st /\ (accs <> nil -> epsR st' = ebR st) /\
    mR st' = (mR st + length accs)%nat.
  Proof.
    intros nd' st accs Hle. unfold da_run.
    exact (da_frozen nd' accs (da_init tnumR st) Hle).
  Qed.

  Lemma da_run_first_warm : forall (nd' : nat) (st : stR) (a : R) (accs : list R),
    (mR st < nd')%nat ->
    let m := S (mR st) in
    let st1 := step nd' (da_init tnumR st) a in
    da_run tnumR delta gamma kappa t0 nd' st (a :: accs) = fold_left (step nd') accs st1 /\
    hbR st1 = (1 - 1 / INR (m + t0)) * hbR st + 1 / INR (m + t0) * (delta - a) /\
    ln (epsR st1) = ln (10 * epsR st) - sqrt (INR m) / gamma * hbR st1 /\
    ln (ebR st1) = (1 - exp (- kappa * ln (INR m))) * ln (ebR st)
                   + exp (- kappa * ln (INR m)) * ln (epsR st1) /\
    mR st1 = m /\ muR st1 = ln (10 * epsR st).
  Proof.
    intros nd' st a accs Hlt m st1. split; [reflexivity|].
    assert (Hle : (S (mR (da_init tnumR st)) <= nd')%nat) by (cbn; lia).
    exact (da_warmup_closed_form nd' (da_init tnumR st) a Hle).
  Qed.

  (* ---- (3) positivity ---- *)
  Lemma da_positive_step : forall (nd : nat) (st : stR) (a : R),
    0 < ebR st ->
    0 < epsR (step nd st a) /\ 0 < ebR (step nd st a).
  Proof.
    intros nd st a Hpos.
    destruct (le_lt_dec (S (mR st)) nd) as [Hle|Hlt].
    - rewrite (step_warm_eb nd st a Hle), (step_warm_eps nd st a Hle).
      split; apply exp_pos.
    - rewrite (step_frozen_eps nd st a Hlt), (step_frozen_eb nd st a Hlt).
      split; exact Hpos.
  Qed.

  Lemma da_positive : forall (nd : nat) (accs : list R) (st : stR),
    0 < ebR st ->
    0 < ebR (fold_left (step nd) accs st) /\
    (accs <> nil -> 0 < epsR (fold_left (step nd) accs st)).
  Proof.
    intros nd accs. induction accs as [|a accs IH]; intros st Hpos; cbn [fold_left].
    - split; [exact Hpos | intro H; exfalso; apply H; reflexivity].
    - destruct (da_positive_step nd st a Hpos) as [Heps Heb].
      destruct (IH (step nd st a) Heb) as [H1 H2].
      split; [exact H1|]. intros _.
      destruct accs as [|a' accs']; [exact Heps | apply H2; discriminate].
  Qed.

  Lemma da_positive_from_one : forall (nd : nat) (accs : list R) (st : stR),
    ebR st = 1 ->
    0 < ebR (fold_left (step nd) accs st) /\
    (accs <> nil -> 0 < epsR (fold_left (step nd) accs st)).
  Proof. intros nd accs st H1. apply da_positive. rewrite H1. lra. Qed.

  (* a state with eps > 0 and eps_bar > 0 keeps both forever (including the empty list) *)
  Lemma da_positive_run : forall (nd : nat) (accs : list R) (st : stR),
    0 < epsR st -> 0 < ebR st ->
    let st' := da_run tnumR delta gamma kappa t0 nd st accs in
    0 < epsR st' /\ 0 < ebR st'.
  Proof.
    intros nd accs st He Hb st'. subst st'. unfold da_run.
    destruct (da_positive nd accs (da_init tnumR st) Hb) as [H1 H2].
    split; [|exact H1].
    destruct accs as [|a accs']; [exact He | apply H2; discriminate].
  Qed.

  (* ---- (4) bounds on h_bar and eps ---- *)
  Lemma eta_range : forall m : nat, 0 < 1 / INR (S m + t0) <= 1.
  Proof.
    intro m.
    assert (H1 : 1 <= INR (S m + t0)).
    { change 1 with (INR 1). apply le_INR. lia. }
    split.
    - apply Rdiv_lt_0_compat; lra.
    - unfold Rdiv. rewrite Rmult_1_l.
      apply Rle_trans with (/ 1); [apply Rinv_le_contravar; lra | rewrite Rinv_1; lra].
  Qed.

  Lemma da_hbar_bounds_step : forall (nd : nat) (st : stR) (a : R),
    delta - 1 <= hbR st <= delta -> 0 <= a <= 1 ->
    delta - 1 <= hbR (step nd st a) <= delta.
  Proof.
    intros nd st a Hh Ha. rewrite step_h. unfold h_next.
    pose proof (eta_range (mR st)) as He.
    set (eta := 1 / INR (S (mR st) + t0)) in *.
    split; nra.
  Qed.

  Lemma da_hbar_bounds : forall (nd : nat) (accs : list R) (st : stR),
    delta - 1 <= hbR st <= delta -> (forall a, In a accs -> 0 <= a <= 1) ->
    delta - 1 <= hbR (fold_left (step nd) accs st) <= delta.
  Proof.
    intros nd accs. induction accs as [|a accs IH]; intros st Hh Hall; cbn [fold_left].
    - exact Hh.
    - apply IH.
      + apply da_hbar_bounds_step; [exact Hh | apply Hall; left; reflexivity].
      + intros a' Hin. apply Hall. right. exact Hin.
  Qed.

  Lemma da_hbar_bounds_run : forall (nd : nat) (accs : list R) (st : stR),
    delta - 1 <= hbR st <= delta -> (forall a, In a accs -> 0 <= a <= 1) ->
    delta - 1 <= hbR (da_run tnumR delta gamma kappa t0 nd st accs) <= delta.
  Proof. intros nd accs st Hh Hall. unfold da_run. apply da_hbar_bounds; assumption. Qed.

  Lemma da_hbar_bounds_from_zero : forall (nd : nat) (accs : list R) (st : stR),
    0 <= delta <= 1 -> hbR st = 0 -> (forall a, In a accs -> 0 <= a <= 1) ->
    delta - 1 <= hbR (fold_left (step nd) accs st) <= delta.
  Proof.
    intros nd accs st Hd H0 Hall. apply da_hbar_bounds; [rewrite H0; lra | exact Hall].
  Qed.

  Lemma da_eps_bounds : forall (nd : nat) (st : stR) (a : R),
    let m := S (mR st) in
    delta - 1 <= hbR st <= delta -> 0 <= a <= 1 -> 0 < gamma -> (m <= nd)%nat ->
    exp (muR st - sqrt (INR m) / gamma * delta) <= epsR (step nd st a)
      <= exp (muR st + sqrt (INR m) / gamma * (1 - delta)).
  Proof.
    intros nd st a m Hh Ha Hg Hle. subst m.
    pose proof (da_hbar_bounds_step nd st a Hh Ha) as Hb. rewrite step_h in Hb.
    rewrite (step_warm_eps nd st a Hle).
    assert (Hc : 0 <= sqrt (INR (S (mR st))) / gamma).
    { unfold Rdiv. apply Rmult_le_pos; [apply sqrt_pos|].
      apply Rlt_le, Rinv_0_lt_compat, Hg. }
    set (c := sqrt (INR (S (mR st))) / gamma) in *.
    set (h := h_next st a) in *.
    assert (Hmono : forall x y, x <= y -> exp x <= exp y).
    { intros x y [Hlt|Heq]; [left; apply exp_increasing; exact Hlt | right; rewrite Heq; reflexivity]. }
    split; apply Hmono; nra.
  Qed.
End DA.

(* ---- (5) find_reasonable_epsilon ---- *)
Section FE.
  Variable lap : R -> R.

  Lemma find_loop_post : forall (fuel : nat) (a eps e' : R),
    find_loop lap fuel a eps = Some e' ->
    exists k : nat, (k < fuel)%nat /\
      e' = eps * (Rpower 2 a) ^ k /\
      ~ (- a * ln 2 < a * lap e') /\
      (forall i : nat, (i < k)%nat -> - a * ln 2 < a * lap (eps * (Rpower 2 a) ^ i)).
  Proof.
    intros fuel a. induction fuel as [|f IH]; intros eps e' H; simpl in H.
    - discriminate.
    - destruct (Rlt_dec (- a * ln 2) (a * lap eps)) as [Hc|Hc].
      + destruct (IH _ _ H) as (k & Hk & He & Hstop & Hall).
        exists (S k). split; [lia|]. split; [|split].
        * rewrite He. simpl. ring.
        * exact Hstop.
        * intros [|i] Hi.
          -- simpl. rewrite Rmult_1_r. exact Hc.
          -- assert (Hi' : (i < k)%nat) by lia.
             specialize (Hall i Hi'). simpl.
             replace (eps * (Rpower 2 a * Rpower 2 a ^ i))
               with (eps * Rpower 2 a * Rpower 2 a ^ i) by ring.
             exact Hall.
      + injection H as <-. exists 0%nat. split; [lia|]. split; [simpl; ring|].
        split; [exact Hc|]. intros i Hi. lia.
  Qed.

  (* conversely: the first grid point where the condition fails is returned, given enough fuel *)
  Lemma find_loop_complete : forall (k fuel : nat) (a eps : R),
    (k < fuel)%nat ->
    ~ (- a * ln 2 < a * lap (eps * (Rpower 2 a) ^ k)) ->
    (forall i : nat, (i < k)%nat -> - a * ln 2 < a * lap (eps * (Rpower 2 a) ^ i)) ->
    find_loop lap fuel a eps = Some (eps * (Rpower 2 a) ^ k).
  Proof.
    intros k. induction k as [|k IH]; intros fuel a eps Hk Hstop Hall.
    - destruct fuel as [|f]; [lia|]. simpl.
      simpl in Hstop. rewrite Rmult_1_r in Hstop.
      destruct (Rlt_dec (- a * ln 2) (a * lap eps)) as [Hc|Hc]; [contradiction|].
      f_equal. ring.
    - destruct fuel as [|f]; [lia|]. simpl.
      destruct (Rlt_dec (- a * ln 2) (a * lap eps)) as [Hc|Hc].
      + rewrite (IH f a (eps * Rpower 2 a)).
        * f_equal. ring.
        * lia.
        * replace (eps * Rpower 2 a * Rpower 2 a ^ k)
            with (eps * (Rpower 2 a * Rpower 2 a ^ k)) by ring. exact Hstop.
        * intros i Hi. assert (Hi' : (S i < S k)%nat) by lia.
          specialize (Hall (S i) Hi'). simpl in Hall.
          replace (eps * Rpower 2 a * Rpower 2 a ^ i)
            with (eps * (Rpower 2 a * Rpower 2 a ^ i)) by ring. exact Hall.
      + exfalso. apply Hc. specialize (Hall 0%nat). simpl in Hall.
        rewrite Rmult_1_r in Hall. apply Hall. lia.
  Qed.

  Lemma direction_cases : forall e0 : R,
    (ln (1 / 2) < lap e0 /\ direction lap e0 = 1) \/
    (~ ln (1 / 2) < lap e0 /\ direction lap e0 = -1).
  Proof.
    intro e0. unfold direction.
    destruct (Rlt_dec (ln (1 / 2)) (lap e0)) as [H|H]; [left | right]; split; auto.
  Qed.

  Lemma Rpower_2_1 : Rpower 2 1 = 2.
  Proof. apply Rpower_1. lra. Qed.

  Lemma Rpower_2_m1 : Rpower 2 (-1) = 1 / 2.
  Proof.
    replace (-1) with (Ropp 1) by lra.
    rewrite Rpower_Ropp, Rpower_2_1. unfold Rdiv. ring.
  Qed.

  Lemma ln_half : ln (1 / 2) = - ln 2.
  Proof. unfold Rdiv. rewrite Rmult_1_l. apply ln_Rinv. lra. Qed.

End FE.

(* ---- (6) the interval instance encloses the real instance ---- *)
Notation cont xi x := (contains (I.convert xi) (Xreal x)).

Lemma contains_nan_any : forall (i : interval) (v : ExtendedR), contains i Xnan -> contains i v.
Proof. intros [|l u] v H; simpl in *; [exact I | contradiction]. Qed.

Lemma c_add : forall xi yi x y, cont xi x -> cont yi y -> cont (I.add iprec xi yi) (x + y).
Proof. intros xi yi x y Hx Hy. exact (I.add_correct iprec xi yi _ _ Hx Hy). Qed.

Lemma c_sub : forall xi yi x y, cont xi x -> cont yi y -> cont (I.sub iprec xi yi) (x - y).
Proof. intros xi yi x y Hx Hy. exact (I.sub_correct iprec xi yi _ _ Hx Hy). Qed.

Lemma c_mul : forall xi yi x y, cont xi x -> cont yi y -> cont (I.mul iprec xi yi) (x * y).
Proof. intros xi yi x y Hx Hy. exact (I.mul_correct iprec xi yi _ _ Hx Hy). Qed.

Lemma c_div : forall xi yi x y, cont xi x -> cont yi y -> cont (I.div iprec xi yi) (x / y).
Proof.
  intros xi yi x y Hx Hy. pose proof (I.div_correct iprec xi yi _ _ Hx Hy) as H.
  simpl in H. unfold Xdiv' in H. destruct (is_zero y).
  - apply contains_nan_any. exact H.
  - exact H.
Qed.

Lemma c_exp : forall xi x, cont xi x -> cont (I.exp iprec xi) (exp x).
Proof. intros xi x Hx. exact (I.exp_correct iprec xi _ Hx). Qed.

Lemma c_ln : forall xi x, cont xi x -> cont (I.ln iprec xi) (ln x).
Proof.
  intros xi x Hx. pose proof (I.ln_correct iprec xi _ Hx) as H.
  simpl in H. unfold Xln' in H. destruct (is_positive x).
  - exact H.
  - apply contains_nan_any. exact H.
Qed.

Lemma c_sqrt : forall xi x, cont xi x -> cont (I.sqrt iprec xi) (sqrt x).
Proof. intros xi x Hx. exact (I.sqrt_correct iprec xi _ Hx). Qed.

Lemma c_ofZ : forall z, cont (I.fromZ iprec z) (IZR z).
Proof. intro z. exact (I.fromZ_correct iprec z). Qed.

Definition da_encl (si : dastate tnumI) (sr : stR) : Prop :=
  da_m tnumI si = mR sr /\
  cont (da_eps tnumI si) (epsR sr) /\ cont (da_eps_bar tnumI si) (ebR sr) /\
  cont (da_h_bar tnumI si) (hbR sr) /\ cont (da_mu tnumI si) (muR sr).

Lemma da_step_encl : forall (deltai gammai kappai : I.type) (delta gamma kappa : R) (t0 nd : nat)
    (si : dastate tnumI) (sr : stR) (ai : I.type) (a : R),
  cont deltai delta -> cont gammai gamma -> cont kappai kappa -> cont ai a ->
  da_encl si sr ->
  da_encl (da_step tnumI deltai gammai kappai t0 nd si ai)
          (da_step tnumR delta gamma kappa t0 nd sr a).
Proof.
  intros deltai gammai kappai delta gamma kappa t0 nd si sr ai a Hd Hg Hk Ha
         (Hm & He & Hb & Hh & Hu).
  unfold da_step. rewrite Hm.
  assert (Hh' : cont
    (tadd tnumI (tmul tnumI (tsub tnumI (one tnumI) (tdiv tnumI (one tnumI) (ofN tnumI (S (mR sr) + t0))))
                   (da_h_bar tnumI si))
                (tmul tnumI (tdiv tnumI (one tnumI) (ofN tnumI (S (mR sr) + t0))) (tsub tnumI deltai ai)))
    (tadd tnumR (tmul tnumR (tsub tnumR (one tnumR) (tdiv tnumR (one tnumR) (ofN tnumR (S (mR sr) + t0))))
                   (hbR sr))
                (tmul tnumR (tdiv tnumR (one tnumR) (ofN tnumR (S (mR sr) + t0))) (tsub tnumR delta a)))).
  { apply c_add; apply c_mul.
    - apply c_sub; [apply c_ofZ|]. apply c_div; apply c_ofZ.
    - exact Hh.
    - apply c_div; apply c_ofZ.
    - apply c_sub; assumption. }
  assert (Heps : cont
    (texp tnumI (tsub tnumI (da_mu tnumI si)
       (tmul tnumI (tdiv tnumI (tsqrt tnumI (ofN tnumI (S (mR sr)))) gammai)
          (tadd tnumI (tmul tnumI (tsub tnumI (one tnumI) (tdiv tnumI (one tnumI) (ofN tnumI (S (mR sr) + t0))))
                   (da_h_bar tnumI si))
                (tmul tnumI (tdiv tnumI (one tnumI) (ofN tnumI (S (mR sr) + t0))) (tsub tnumI deltai ai))))))
    (texp tnumR (tsub tnumR (muR sr)
       (tmul tnumR (tdiv tnumR (tsqrt tnumR (ofN tnumR (S (mR sr)))) gamma)
          (tadd tnumR (tmul tnumR (tsub tnumR (one tnumR) (tdiv tnumR (one tnumR) (ofN tnumR (S (mR sr) + t0))))
                   (hbR sr))
                (tmul tnumR (tdiv tnumR (one tnumR) (ofN tnumR (S (mR sr) + t0))) (tsub tnumR delta a))))))).
  { apply c_exp. apply c_sub; [exact Hu|]. apply c_mul; [|exact Hh'].
    apply c_div; [|exact Hg]. apply c_sqrt. apply c_ofZ. }
  destruct (Nat.leb (S (mR sr)) nd); unfold da_encl; cbn [da_m da_eps da_eps_bar da_h_bar da_mu].
  - split; [reflexivity|]. split; [exact Heps|]. split; [|split; [exact Hh' | exact Hu]].
    apply c_exp. apply c_add; apply c_mul.
    + apply c_sub; [apply c_ofZ|]. apply c_exp. apply c_mul.
      * apply c_sub; [apply c_ofZ | exact Hk].
      * apply c_ln. apply c_ofZ.
    + apply c_ln. exact Hb.
    + apply c_exp. apply c_mul.
      * apply c_sub; [apply c_ofZ | exact Hk].
      * apply c_ln. apply c_ofZ.
    + apply c_ln. exact Heps.
  - split; [reflexivity|]. split; [exact Hb|]. split; [exact Hb|]. split; [exact Hh' | exact Hu].
Qed.

Lemma da_init_encl : forall (si : dastate tnumI) (sr : stR),
  da_encl si sr -> da_encl (da_init tnumI si) (da_init tnumR sr).
Proof.
  intros si sr (Hm & He & Hb & Hh & Hu). unfold da_init, da_encl.
  cbn [da_m da_eps da_eps_bar da_h_bar da_mu].
  split; [exact Hm|]. split; [exact He|]. split; [exact Hb|]. split; [exact Hh|].
  apply c_ln. apply c_mul; [apply c_ofZ | exact He].
Qed.

Lemma da_run_encl : forall (deltai gammai kappai : I.type) (delta gamma kappa : R) (t0 nd : nat)
    (accs : list (I.type * R)) (si : dastate tnumI) (sr : stR),
  cont deltai delta -> cont gammai gamma -> cont kappai kappa ->
  (forall p, In p accs -> cont (fst p) (snd p)) ->
  da_encl si sr ->
  da_encl (da_run tnumI deltai gammai kappai t0 nd si (map fst accs))
          (da_run tnumR delta gamma kappa t0 nd sr (map snd accs)).
Proof.
  intros deltai gammai kappai delta gamma kappa t0 nd accs si sr Hd Hg Hk Hall Henc.
  unfold da_run. apply da_init_encl in Henc.
  revert Hall Henc. generalize (da_init tnumI si) (da_init tnumR sr).
  induction accs as [|[ai a] accs IH]; intros si' sr' Hall Henc; simpl.
  - exact Henc.
  - apply IH.
    + intros p Hp. apply Hall. right. exact Hp.
    + apply da_step_encl; try assumption. exact (Hall (ai, a) (or_introl eq_refl)).
Qed.
