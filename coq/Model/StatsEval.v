(* Evaluation entry points (Q instance) used by the correspondence checks of C11 / C12. *)
From MiniMcmc Require Export Model.Stats Model.Summary.
Close Scope Q_scope.
Close Scope R_scope.

(* one parameter: W, var+ of the half-chains, and split R-hat squared (Model.Stats.split_rhat2) *)
Definition c11_eval (chains : list (list Q)) : list Z :=
  let wv := withinvar numQ (split_halves numQ chains) in
  qout (fst wv) ++ qout (snd wv) ++ qout (split_rhat2 numQ chains).

(* one parameter: W, var+, tau, and the effective sample size M*N/tau (Model.Stats.ess) *)
Definition c12_eval (chains : list (list Q)) : list Z :=
  let hs := split_halves numQ chains in
  let wv := withinvar numQ hs in
  qout (fst wv) ++ qout (snd wv) ++ qout (ess_tau numQ hs) ++ qout (ess numQ hs).

(* both autocovariance definitions at once (tie for C12_fft_is_bf on concrete data): 1 if equal *)
Definition c12_paths_agree (P : nat) (xs : list Q) : list Z :=
  [if forallb (fun ab => Qeq_bool (fst ab) (snd ab)) (combine (autocov numQ xs) (circ_autocov numQ P xs))
   then 1%Z else 0%Z].
