(* The seeded initial positions (Model/Ziggurat.v init_seeded: SmallRng::seed_from_u64(seed), n*d ziggurat draws,
   row-major) have the prefix property from the seed alone: the first n1 rows of an n2-row request are exactly the
   n1-row request made with the same seed, d and oracle list.  Combines normals_prefix (the draw stream composes)
   with init_prefix / init_uses_prefix (the row-major layout consumes only the first n*d draws). *)
From MiniMcmc Require Import Model.Ziggurat Model.Init Proofs.Init Proofs.Ziggurat.
From Coq Require Import List Arith Lia.
Import ListNotations.
Close Scope R_scope.
Close Scope Z_scope.
Open Scope nat_scope.

Lemma nth_firstn_lt : forall (T : Type) (m k : nat) (l : list T) (dflt : T),
  k < m -> nth k (firstn m l) dflt = nth k l dflt.
Proof.
  intros T m. induction m as [|m IH]; intros k l dflt H; [lia|].
  destruct l as [|a l]; [reflexivity|].
  destruct k as [|k]; [reflexivity|].
  cbn [firstn nth]. apply IH. lia.
Qed.

(* the layout part alone: no hypothesis on where the draws come from *)
Lemma init_model_firstn_rows : forall (A D : Type) (conv : D -> A) (dflt : D) (xs : list D) (n1 n2 d : nat),
  n1 <= n2 ->
  init_model conv dflt (firstn (n1 * d) xs) n1 d = firstn n1 (init_model conv dflt xs n2 d).
Proof.
  intros A D conv dflt xs n1 n2 d H.
  rewrite (init_prefix conv dflt xs n1 n2 d H).
  apply init_uses_prefix. intros k Hk. apply nth_firstn_lt. exact Hk.
Qed.

Section ZigInit.
  Variable conv : binary64 -> Z.
  Variable seed : N.
  Variable orc : list Z.

  (* the n1*d draws of the smaller request are the first n1*d draws of the larger one *)
  Lemma init_seeded_prefix_draws : forall (n1 n2 d : nat) (xs : list binary64) (st : zst),
    normals 64 (n2 * d) (zinit seed orc) = Some (xs, st) -> n1 <= n2 ->
    exists st1, normals 64 (n1 * d) (zinit seed orc) = Some (firstn (n1 * d) xs, st1).
  Proof.
    intros n1 n2 d xs st H Hle.
    assert (E : n2 * d = n1 * d + (n2 - n1) * d) by nia.
    rewrite E in H.
    destruct (normals_prefix 64 (n1 * d) ((n2 - n1) * d) (zinit seed orc) st xs H) as [st1 [H1 _]].
    exists st1. exact H1.
  Qed.

  (* rows built from those draws are the first n1 rows of the larger request *)
  Lemma init_seeded_prefix_rows : forall (n1 n2 d : nat) (xs : list binary64) (st : zst),
    normals 64 (n2 * d) (zinit seed orc) = Some (xs, st) -> n1 <= n2 ->
    init_model conv f_zero (firstn (n1 * d) xs) n1 d = firstn n1 (init_model conv f_zero xs n2 d).
  Proof.
    intros n1 n2 d xs st _ Hle. apply init_model_firstn_rows. exact Hle.
  Qed.

  (* both: the n1-row request from the same seed and oracle list succeeds and equals the first n1 rows *)
  Theorem init_seeded_prefix : forall (n1 n2 d : nat) (xs : list binary64) (st : zst),
    normals 64 (n2 * d) (zinit seed orc) = Some (xs, st) -> n1 <= n2 ->
    exists (xs1 : list binary64) (st1 : zst),
      normals 64 (n1 * d) (zinit seed orc) = Some (xs1, st1) /\
      init_model conv f_zero xs1 n1 d = firstn n1 (init_model conv f_zero xs n2 d).
  Proof.
    intros n1 n2 d xs st H Hle.
    destruct (init_seeded_prefix_draws n1 n2 d xs st H Hle) as [st1 H1].
    exists (firstn (n1 * d) xs), st1. split; [exact H1|].
    exact (init_seeded_prefix_rows n1 n2 d xs st H Hle).
  Qed.
End ZigInit.
