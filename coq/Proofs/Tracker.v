(* Proofs for C13: the streaming tracker (Model/Stats.v: trk_step, trk_sm2), the R-hat derived
   from tracker statistics (collect_rhat2, multi_rhat2) against the batch formulas, and the
   exact-arithmetic acceptance-rate recurrence (Model/Tracker.v: emaR, chain_pR, multi_pR).
   Everything here is about the models instantiated at numR (real arithmetic). *)
From MiniMcmc Require Import Base.Num Base.Util Model.Stats Model.Tracker.
From Coq Require Import Reals Lra Lia.
Close Scope Q_scope.
Open Scope R_scope.

(* ------------------------------------------------------------------ exposing real operations *)
Ltac realops :=
  change (add numR) with Rplus in *; change (sub numR) with Rminus in *;
  change (mul numR) with Rmult in *; change (div numR) with Rdiv in *;
  change (zero numR) with 0 in *; change (one numR) with 1 in *;
  change (T numR) with R in *.

(* [field] types its atoms by inference; hide model projections behind variables of type R *)
Ltac absR e :=
  let m := fresh "m" in set (m := e) in *; clearbody m; change (T numR) with R in *.

Lemma ofN_R (n : nat) : ofN numR n = INR n.
Proof. unfold ofN. change (ofZ numR) with IZR. symmetry. apply INR_IZR_INZ. Qed.

Lemma fold_left_Rplus (l : list R) : forall a, fold_left Rplus l a = a + fold_left Rplus l 0.
Proof.
  induction l as [|x l IH]; intros a; simpl.
  - lra.
  - rewrite (IH (a + x)), (IH (0 + x)). lra.
Qed.

Lemma sumK_R_nil : sumK numR (@nil R) = 0.
Proof. reflexivity. Qed.

Lemma sumK_R_cons (x : R) (l : list R) : sumK numR (x :: l) = x + sumK numR l.
Proof.
  unfold sumK. realops. simpl. rewrite fold_left_Rplus. lra.
Qed.

Lemma sumK_R_app (l1 l2 : list R) : sumK numR (l1 ++ l2) = sumK numR l1 + sumK numR l2.
Proof.
  induction l1 as [|x l1 IH]; cbn [app].
  - unfold sumK at 2. simpl. lra.
  - rewrite !sumK_R_cons, IH. lra.
Qed.

(* the model's sum is the usual right fold *)
Lemma sumK_R_fold_right (l : list R) : sumK numR l = fold_right Rplus 0 l.
Proof.
  induction l as [|x l IH]; [reflexivity|]. rewrite sumK_R_cons, IH. reflexivity.
Qed.

Lemma meanK_R (l : list R) : meanK numR l = sumK numR l / INR (length l).
Proof. unfold meanK. realops. rewrite ofN_R. reflexivity. Qed.

Lemma INR_length_pos {A} (l : list A) : l <> [] -> 0 < INR (length l).
Proof.
  intros Hne. destruct l as [|a l]; [congruence|]. apply lt_0_INR. simpl. lia.
Qed.

(* sum of a constant / of scaled / of shifted squares *)
Lemma sumK_R_sq_shift (m : R) (xs : list R) :
  sumK numR (map (fun x => (x - m) * (x - m)) xs)
  = sumK numR (map (fun x => x * x) xs) - 2 * m * sumK numR xs + INR (length xs) * (m * m).
Proof.
  induction xs as [|x xs IH].
  - unfold sumK. simpl. lra.
  - cbn [map]. rewrite !sumK_R_cons, IH.
    change (length (x :: xs)) with (S (length xs)). rewrite S_INR. lra.
Qed.

Lemma sumK_R_const {A} (c : R) (l : list A) : sumK numR (map (fun _ => c) l) = INR (length l) * c.
Proof.
  induction l as [|a l IH].
  - unfold sumK. simpl. lra.
  - cbn [map]. rewrite sumK_R_cons, IH.
    change (length (a :: l)) with (S (length l)). rewrite S_INR. lra.
Qed.

(* ------------------------------------------------------------------ the tracker invariant *)
Definition trk_inv (t : trk numR) (h : list R) : Prop :=
  t_n numR t = length h /\
  t_mean numR t * INR (length h) = sumK numR h /\
  t_msq numR t * INR (length h) = sumK numR (map (fun x => x * x) h).

Lemma trk_inv_0 : trk_inv (trk0 numR) [].
Proof.
  unfold trk_inv, trk0. cbn [t_n t_mean t_msq length map]. realops.
  rewrite sumK_R_nil. simpl. repeat split; lra.
Qed.

Lemma trk_inv_step (t : trk numR) (h : list R) (x : R) :
  trk_inv t h -> trk_inv (trk_step numR t x) (h ++ [x]).
Proof.
  intros (Hn & Hm & Hq).
  assert (Hlen : length (h ++ [x]) = S (length h)) by (rewrite app_length; simpl; lia).
  unfold trk_inv, trk_step. cbn [t_n t_mean t_msq].
  rewrite Hn, Hlen, map_app, !sumK_R_app. cbn [map].
  rewrite !sumK_R_cons, !sumK_R_nil.
  replace (S (length h) - 1)%nat with (length h) by lia.
  unfold sqK. realops. rewrite !ofN_R.
  assert (Hpos : 0 < INR (S (length h))) by (apply lt_0_INR; lia).
  split; [reflexivity|]. split.
  - rewrite Hm. field. lra.
  - destruct (Nat.eqb (S (length h)) 1) eqn:E.
    + apply Nat.eqb_eq in E. assert (Hz : length h = 0%nat) by lia.
      rewrite Hz in *. simpl in Hq. rewrite <- Hq. simpl. lra.
    + rewrite Hq. field. lra.
Qed.

Lemma trk_run_snoc (h : list R) (x : R) :
  trk_run numR (h ++ [x]) = trk_step numR (trk_run numR h) x.
Proof. unfold trk_run. rewrite fold_left_app. reflexivity. Qed.

Lemma trk_run_inv (xs : list R) : trk_inv (trk_run numR xs) xs.
Proof.
  induction xs as [|x h IH] using rev_ind.
  - exact trk_inv_0.
  - rewrite trk_run_snoc. apply trk_inv_step. exact IH.
Qed.

(* ------------------------------------------------------------------ count, mean, mean square *)
Lemma trk_count (xs : list R) : t_n numR (trk_run numR xs) = length xs.
Proof. exact (proj1 (trk_run_inv xs)). Qed.

Lemma trk_mean (xs : list R) : xs <> [] -> t_mean numR (trk_run numR xs) = bmean numR xs.
Proof.
  intros Hne. destruct (trk_run_inv xs) as (_ & Hm & _).
  unfold bmean. rewrite meanK_R, <- Hm.
  pose proof (INR_length_pos xs Hne) as Hpos. clear Hm.
  absR (t_mean numR (trk_run numR xs)). field. lra.
Qed.

Lemma trk_mean_sq (xs : list R) :
  xs <> [] -> t_msq numR (trk_run numR xs) = meanK numR (map (fun x => x * x) xs).
Proof.
  intros Hne. destruct (trk_run_inv xs) as (_ & _ & Hq).
  rewrite meanK_R, map_length, <- Hq.
  pose proof (INR_length_pos xs Hne) as Hpos. clear Hq.
  absR (t_msq numR (trk_run numR xs)). field. lra.
Qed.

(* ------------------------------------------------------------------ unbiased variance *)
Lemma trk_variance (xs : list R) :
  (2 <= length xs)%nat -> trk_sm2 numR (trk_run numR xs) = bvar_unbiased numR xs.
Proof.
  intros Hlen.
  assert (Hne : xs <> []) by (destruct xs; [simpl in Hlen; lia|congruence]).
  destruct (trk_run_inv xs) as (Hn & Hm & Hq).
  pose proof (INR_length_pos xs Hne) as Hpos.
  unfold trk_sm2, bvar_unbiased, bmean. rewrite Hn, meanK_R.
  unfold sqK. realops. rewrite !ofN_R.
  rewrite (sumK_R_sq_shift (sumK numR xs / INR (length xs)) xs).
  rewrite <- Hq, <- Hm. clear Hq Hm Hn.
  assert (Hpos1 : 0 < INR (length xs - 1)) by (apply lt_0_INR; lia).
  absR (t_mean numR (trk_run numR xs)). absR (t_msq numR (trk_run numR xs)).
  field. lra.
Qed.

(* the same two statements with the sums written as plain right folds over R *)
Lemma trk_mean_explicit (xs : list R) :
  xs <> [] -> t_mean numR (trk_run numR xs) = fold_right Rplus 0 xs / INR (length xs).
Proof.
  intros Hne. rewrite (trk_mean xs Hne). unfold bmean.
  rewrite meanK_R, sumK_R_fold_right. reflexivity.
Qed.

Lemma trk_variance_explicit (xs : list R) :
  (2 <= length xs)%nat ->
  let mu := fold_right Rplus 0 xs / INR (length xs) in
  trk_sm2 numR (trk_run numR xs)
  = fold_right Rplus 0 (map (fun x => (x - mu) * (x - mu)) xs) / (INR (length xs) - 1).
Proof.
  intros Hlen mu. rewrite (trk_variance xs Hlen). unfold bvar_unbiased, bmean.
  rewrite meanK_R, !sumK_R_fold_right. unfold sqK. realops.
  rewrite ofN_R, minus_INR by lia. reflexivity.
Qed.

(* ------------------------------------------------------------------ R-hat *)
Section Rhat.
  Variable chains : list (list R).
  Variable n : nat.
  Hypothesis Hm : (2 <= length chains)%nat.
  Hypothesis Hn : (2 <= n)%nat.
  Hypothesis Hlen : forall c, In c chains -> length c = n.

  Lemma chain_ne c : In c chains -> c <> [].
  Proof. intros Hin Hc. apply Hlen in Hin. subst c. simpl in Hin. lia. Qed.

  Lemma head_len : match chains with c :: _ => length c | [] => 0%nat end = n.
  Proof.
    destruct chains as [|c cs]; [simpl in Hm; lia|]. apply Hlen. left. reflexivity.
  Qed.

  Lemma means_eq : map (fun c => t_mean numR (trk_run numR c)) chains = map (bmean numR) chains.
  Proof. apply map_ext_in. intros c Hin. apply trk_mean, chain_ne, Hin. Qed.

  Lemma sm2s_eq :
    map (fun c => trk_sm2 numR (trk_run numR c)) chains = map (bvar_unbiased numR) chains.
  Proof.
    apply map_ext_in. intros c Hin. apply trk_variance. rewrite (Hlen c Hin). exact Hn.
  Qed.

  Lemma counts_eq :
    map (fun c => ofN numR (t_n numR (trk_run numR c))) chains = map (fun _ => INR n) chains.
  Proof.
    apply map_ext_in. intros c Hin. rewrite trk_count, ofN_R, (Hlen c Hin). reflexivity.
  Qed.

  Lemma collect_is_batch :
    collect_rhat2 numR (map (fun c => (t_n numR (trk_run numR c), t_mean numR (trk_run numR c),
                                        trk_sm2 numR (trk_run numR c))) chains)
    = batch_rhat2 numR chains.
  Proof.
    unfold collect_rhat2, batch_rhat2. cbv zeta.
    set (st := map (fun c => (t_n numR (trk_run numR c), t_mean numR (trk_run numR c),
                              trk_sm2 numR (trk_run numR c))) chains).
    assert (E1 : map (fun s => snd (fst s)) st = map (bmean numR) chains).
    { unfold st. rewrite map_map. cbn [fst snd]. apply means_eq. }
    assert (E2 : map snd st = map (bvar_unbiased numR) chains).
    { unfold st. rewrite map_map. cbn [snd]. apply sm2s_eq. }
    assert (E3 : map (fun s => ofN numR (fst (fst s))) st = map (fun _ => INR n) chains).
    { unfold st. rewrite map_map. cbn [fst]. apply counts_eq. }
    assert (E4 : length st = length chains) by (unfold st; apply map_length).
    rewrite E1, E2, E3, E4, sumK_R_const. clear E1 E2 E3 E4 st.
    unfold sqK. realops. rewrite head_len, !ofN_R.
    set (w := meanK numR (map (bvar_unbiased numR) chains)).
    set (ss := sumK numR _).
    assert (Hmp : 0 < INR (length chains)) by (apply lt_0_INR; lia).
    assert (Hnp : 0 < INR n) by (apply lt_0_INR; lia).
    assert (Hn1 : INR (n - 1) = INR n - 1) by (rewrite minus_INR by lia; simpl; lra).
    rewrite Hn1.
    replace (INR (length chains) * INR n / INR (length chains)) with (INR n) by (field; lra).
    f_equal. lra.
  Qed.

  Lemma multi_is_batch :
    multi_rhat2 numR (map (trk_run numR) chains) = batch_rhat2 numR chains.
  Proof.
    unfold multi_rhat2, batch_rhat2. cbv zeta.
    set (ts := map (trk_run numR) chains).
    assert (E1 : map (t_mean numR) ts = map (bmean numR) chains).
    { unfold ts. rewrite map_map. apply means_eq. }
    assert (E2 : map (trk_sm2 numR) ts = map (bvar_unbiased numR) chains).
    { unfold ts. rewrite map_map. apply sm2s_eq. }
    assert (E4 : length ts = length chains) by (unfold ts; apply map_length).
    rewrite E1, E2, E4. clear E1 E2 E4. unfold ts. clear ts.
    replace (match map (trk_run numR) chains with t :: _ => t_n numR t | [] => 0%nat end) with n.
    2:{ destruct chains as [|c cs]; [simpl in Hm; lia|]. cbn [map].
        rewrite trk_count. symmetry. apply Hlen. left. reflexivity. }
    unfold sqK. realops. rewrite head_len, !ofN_R.
    set (w := meanK numR (map (bvar_unbiased numR) chains)).
    set (ss := sumK numR _).
    assert (Hmp : 0 < INR (length chains - 1)) by (apply lt_0_INR; lia).
    assert (Hnp : 0 < INR n) by (apply lt_0_INR; lia).
    f_equal. field. lra.
  Qed.

  Lemma collect_is_multi :
    collect_rhat2 numR (map (fun c => (t_n numR (trk_run numR c), t_mean numR (trk_run numR c),
                                        trk_sm2 numR (trk_run numR c))) chains)
    = multi_rhat2 numR (map (trk_run numR) chains).
  Proof. rewrite collect_is_batch, multi_is_batch. reflexivity. Qed.
End Rhat.

(* ------------------------------------------------------------------ the old divisor (over Q) *)
Definition old_chains : list (list Q) := [[0%Q; 1%Q]; [1%Q; 1%Q]; [0%Q; 0%Q]].
Definition statsQ (chains : list (list Q)) : list (nat * Q * Q) :=
  map (fun c => (t_n numQ (trk_run numQ c), t_mean numQ (trk_run numQ c),
                 trk_sm2 numQ (trk_run numQ c))) chains.

Lemma old_divisor_witness :
  Qeq_bool (collect_rhat2_old numQ 4 (statsQ old_chains)) (batch_rhat2 numQ old_chains) = false /\
  Qeq_bool (collect_rhat2 numQ (statsQ old_chains)) (batch_rhat2 numQ old_chains) = true.
Proof. split; vm_compute; reflexivity. Qed.

(* ------------------------------------------------------------------ acceptance rate *)
Lemma emaR_range (p : R) (a : bool) : 0 <= p <= 1 -> 0 <= emaR p a <= 1.
Proof. intros Hp. unfold emaR. destruct a; lra. Qed.

Lemma emaR_ema (p : R) (a : bool) : emaR p a = p + (1 / 100) * ((if a then 1 else 0) - p).
Proof. unfold emaR. destruct a; lra. Qed.

Lemma fold_ema_range (l : list bool) : forall p, 0 <= p <= 1 -> 0 <= fold_left emaR l p <= 1.
Proof.
  induction l as [|a l IH]; intros p Hp; simpl; [exact Hp|]. apply IH, emaR_range, Hp.
Qed.

Lemma fold_ema_snd_range (l : list (bool * bool)) :
  forall p, 0 <= p <= 1 -> 0 <= fold_left (fun q fa => emaR q (snd fa)) l p <= 1.
Proof.
  induction l as [|a l IH]; intros p Hp; simpl; [exact Hp|]. apply IH, emaR_range, Hp.
Qed.

Lemma chain_pR_range (inds : list (bool * bool)) : inds <> [] -> 0 <= chain_pR inds <= 1.
Proof.
  intros Hne. destruct inds as [|[f a] t]; [congruence|]. unfold chain_pR.
  apply fold_ema_snd_range, emaR_range. destruct f; lra.
Qed.

Lemma multi_pR_from_range (steps : list (list bool)) :
  forall p, 0 <= p <= 1 -> 0 <= fold_left (fun q inds => fold_left emaR inds q) steps p <= 1.
Proof.
  induction steps as [|s steps IH]; intros p Hp; simpl; [exact Hp|].
  apply IH, fold_ema_range, Hp.
Qed.

Lemma multi_pR_range (steps : list (list bool)) : 0 <= multi_pR steps <= 1.
Proof. unfold multi_pR. apply multi_pR_from_range. lra. Qed.

Lemma chain_pR_first (f a : bool) : chain_pR [(f, a)] = emaR (if f then 1 else 0) a.
Proof. reflexivity. Qed.

Lemma chain_pR_snoc (inds : list (bool * bool)) (f a : bool) :
  inds <> [] -> chain_pR (inds ++ [(f, a)]) = emaR (chain_pR inds) a.
Proof.
  intros Hne. destruct inds as [|[f0 a0] t]; [congruence|].
  cbn [app]. unfold chain_pR. rewrite fold_left_app. reflexivity.
Qed.

Lemma multi_pR_nil : multi_pR [] = 0.
Proof. reflexivity. Qed.

Lemma multi_pR_snoc (steps : list (list bool)) (inds : list bool) :
  multi_pR (steps ++ [inds]) = fold_left emaR inds (multi_pR steps).
Proof. unfold multi_pR. rewrite fold_left_app. reflexivity. Qed.
