(* C05 — Gibbs step refreshes every coordinate once, conditioning on the freshest state.
   Model: Model/Gibbs.v (cond is any, possibly stateful, user conditional). *)
From MiniMcmc Require Import Base.Util Model.Gibbs Proofs.Gibbs.

Section C05.
  Context {V C : Type}.
  Variable cond : C -> nat -> list V -> V * C.

  (* every coordinate is asked for exactly once, in index order *)
  Theorem C05_calls : forall c st,
    map fst (sweep_log cond c st) = seq 0 (length st).
  Proof. exact (sweep_calls cond). Qed.

  (* call k sees the new values of all coordinates refreshed earlier in the same step and
     the old values of all others *)
  Theorem C05_freshest : forall c st k j d, k < length st ->
    nth j (snd (nth k (sweep_log cond c st) (0, []))) d
    = if j <? k then nth j (sweep_state cond c st) d else nth j st d.
  Proof. exact (sweep_freshest cond). Qed.

  (* the answer to call k is written to coordinate k; nothing else changes: the length is
     preserved and the final state consists exactly of the answers *)
  Theorem C05_frame_length : forall c st, length (sweep_state cond c st) = length st.
  Proof. exact (sweep_length cond). Qed.

  Theorem C05_frame_written : forall c st k d, k < length st ->
    nth k (sweep_state cond c st) d
    = fst (cond (fst (fst (prefix cond k c st))) k (snd (nth k (sweep_log cond c st) (0, [])))).
  Proof. exact (sweep_written cond). Qed.
End C05.

(* Non-vacuity: a conditional returning 10*index + sum of given, on [1;2;3]. *)
Example C05_example :
  let cond := fun (c : unit) (i : nat) (g : list nat) => (10 * i + fold_right plus 0 g, c) in
  sweep_state cond tt [1; 2; 3] = [6; 21; 50] /\
  sweep_log cond tt [1; 2; 3] = [(0, [1; 2; 3]); (1, [6; 2; 3]); (2, [6; 21; 3])].
Proof. split; reflexivity. Qed.

Print Assumptions C05_calls.
Print Assumptions C05_freshest.
Print Assumptions C05_frame_length.
Print Assumptions C05_frame_written.
