(* C12 — ESS equals (number of half-chains x their length) / tau where
   tau = -1 + 2 * (sum of Geyer's initial positive, monotone pair sums of the autocorrelation
   estimate rho_t = 1 - (W - mean autocovariance_t) / var+), identically whether the brute-force
   or the FFT autocovariance is selected.  It is invariant under affine rescaling, chain
   permutation and time reversal.
   Model: Model/Stats.v (autocov, circ_autocov, geyer, tau_of_rho, withinvar, ess_tau, ess),
   instantiated at the real numbers (numR).  Proofs: Proofs/Ess.v.
   The FFT path is modelled by circ_autocov: the circular autocorrelation of the centred,
   zero-padded sequence, which is what IDFT(|DFT|^2) equals by the correlation theorem (trusted,
   not part of this development). *)
(* Model.StatsEval: the Q-instance evaluation entry points (c12_eval, c12_paths_agree) used by the
   correspondence check of this property. *)
From MiniMcmc Require Import Model.StatsEval.
From MiniMcmc Require Import Base.Num Base.Util Model.Stats Proofs.Ess.
From Coq Require Import Reals Lra Lia Permutation.
Open Scope R_scope.

(* ---- (1) FFT (circular, zero-padded to P >= 2n-1) autocovariance = brute-force autocovariance *)
Theorem C12_fft_is_bf : forall (P : nat) (xs : list R) (t : nat),
  (2 * length xs - 1 <= P)%nat -> (t < length xs)%nat ->
  nth t (circ_autocov numR P xs) 0 = nth t (autocov numR xs) 0.
Proof. exact circ_autocov_nth. Qed.

Theorem C12_fft_is_bf_list : forall (P : nat) (xs : list R),
  (2 * length xs - 1 <= P)%nat -> circ_autocov numR P xs = autocov numR xs.
Proof. exact circ_autocov_eq. Qed.

(* ess_tau_with ac hs is ess_tau with the autocovariance routine ac in place of autocov
   (ess_tau_with (autocov numR) hs = ess_tau numR hs holds by reflexivity): tau is the same
   whichever of the two is selected. *)
Theorem C12_tau_fft_is_bf : forall (P N : nat) (hs : list (list R)),
  (forall h, In h hs -> length h = N) -> (2 * N - 1 <= P)%nat ->
  ess_tau_with (circ_autocov numR P) hs = ess_tau numR hs /\
  ess_tau_with (autocov numR) hs = ess_tau numR hs.
Proof.
  intros P N hs Hall HP. split; [exact (ess_tau_with_fft P N hs Hall HP)|exact (ess_tau_with_bf hs)].
Qed.

(* ---- (2) the autocorrelation estimate, and its value 1 at lag 0 *)
(* ess_tau is tau_of_rho of the list rho_list hs, whose t-th entry is
   1 - (W - mean over chains of autocov_t) / var+  with (W, var+) = withinvar hs. *)
Theorem C12_rho : forall (hs : list (list R)),
  ess_tau numR hs = tau_of_rho numR (rho_list hs) /\
  length (rho_list hs) = hd_len hs /\
  forall t, (t < hd_len hs)%nat ->
    nth t (rho_list hs) 0 =
    1 - (fst (withinvar numR hs) - meanK numR (map (fun h => nth t (autocov numR h) 0) hs))
        / snd (withinvar numR hs).
Proof.
  intros hs. split; [exact (ess_tau_rho hs)|]. split; [exact (rho_list_length hs)|exact (rho_list_nth hs)].
Qed.

Theorem C12_lag0 : forall xs : list R, xs <> [] -> nth 0 (autocov numR xs) 0 = var_n numR xs.
Proof. exact autocov_0. Qed.

Theorem C12_rho0 : forall hs : list (list R),
  hs <> [] -> (forall h, In h hs -> h <> []) -> snd (withinvar numR hs) <> 0 ->
  nth 0 (rho_list hs) 0 = 1.
Proof. exact rho_list_0. Qed.

(* ---- (3) Geyer's rule.  pair_sum rho j = rho_{2j} + rho_{2j+1}. *)
(* geyer returns out + the sum of the list geyer_terms rho mn, for every sufficient fuel *)
Theorem C12_geyer_sum : forall (fuel : nat) (rho : list R) (mn out : R),
  (length rho <= 2 * fuel)%nat ->
  geyer numR fuel rho mn out = out + sumR (geyer_terms rho mn).
Proof. exact geyer_spec. Qed.

Theorem C12_geyer_fuel : forall (fuel : nat) (rho : list R) (mn out : R),
  (length rho <= fuel)%nat -> geyer numR fuel rho mn out = geyer numR (length rho) rho mn out.
Proof. exact geyer_fuel. Qed.

(* the list geyer_terms rho mn has exactly k entries, k = number of leading strictly positive pair
   sums (it stops at the first pair sum <= 0 or when fewer than two entries remain), and its j-th
   entry is min (mn, P_0, ..., P_j) *)
Theorem C12_geyer_shape : forall (rho : list R) (mn : R),
  exists k : nat,
    (k <= Nat.div2 (length rho))%nat /\
    (forall j, (j < k)%nat -> 0 < pair_sum rho j) /\
    ((k < Nat.div2 (length rho))%nat -> pair_sum rho k <= 0) /\
    length (geyer_terms rho mn) = k /\
    (forall j, (j < k)%nat ->
       nth j (geyer_terms rho mn) 0 = fold_left Rmin (map (pair_sum rho) (seq 0 (S j))) mn).
Proof. exact geyer_terms_shape. Qed.

(* every summed term is strictly positive, at most its pair sum and at most mn, and the terms
   are non-increasing *)
Theorem C12_geyer_terms : forall (rho : list R) (mn : R), 0 < mn ->
  (forall j, (j < length (geyer_terms rho mn))%nat ->
     0 < nth j (geyer_terms rho mn) 0 /\
     nth j (geyer_terms rho mn) 0 <= pair_sum rho j /\
     nth j (geyer_terms rho mn) 0 <= mn) /\
  (forall j, (S j < length (geyer_terms rho mn))%nat ->
     nth (S j) (geyer_terms rho mn) 0 <= nth j (geyer_terms rho mn) 0).
Proof. exact geyer_terms_props. Qed.

(* tau = -1 + 2 * (that sum), the running minimum starting at the first pair sum *)
Theorem C12_tau : forall rho : list R,
  tau_of_rho numR rho = 2 * sumR (geyer_terms rho (pair_sum rho 0)) - 1.
Proof. exact tau_of_rho_pair_sum. Qed.

(* ---- (4) ESS = M * N / tau *)
Theorem C12_formula : forall (hs : list (list R)) (N : nat),
  hs <> [] -> (forall h, In h hs -> length h = N) ->
  ess numR hs = IZR (Z.of_nat (length hs)) * IZR (Z.of_nat N) / ess_tau numR hs.
Proof. exact ess_formula. Qed.

(* (2)-(4) assembled *)
Theorem C12_ess : forall (hs : list (list R)) (N : nat),
  hs <> [] -> (forall h, In h hs -> length h = N) ->
  ess numR hs =
  IZR (Z.of_nat (length hs)) * IZR (Z.of_nat N)
  / (2 * sumR (geyer_terms (rho_list hs) (pair_sum (rho_list hs) 0)) - 1).
Proof.
  intros hs N Hne Hall.
  rewrite (ess_formula hs N Hne Hall), ess_tau_rho, tau_of_rho_pair_sum. reflexivity.
Qed.

(* ---- (5) time reversal *)
Theorem C12_reverse_autocov : forall xs : list R, autocov numR (rev xs) = autocov numR xs.
Proof. exact autocov_rev. Qed.

Theorem C12_reverse_withinvar : forall hs : list (list R),
  withinvar numR (map (@rev R) hs) = withinvar numR hs.
Proof. exact withinvar_rev. Qed.

Theorem C12_reverse : forall hs : list (list R),
  ess_tau numR (map (@rev R) hs) = ess_tau numR hs /\ ess numR (map (@rev R) hs) = ess numR hs.
Proof. exact ess_rev. Qed.

(* ---- (6) affine rescaling x |-> a x + b, a <> 0 *)
Theorem C12_affine_autocov : forall (a b : R) (xs : list R),
  autocov numR (map (fun x => a * x + b) xs) = map (fun c => a * a * c) (autocov numR xs).
Proof. exact autocov_affine. Qed.

Theorem C12_affine_withinvar : forall (a b : R) (hs : list (list R)),
  hs <> [] -> (forall h, In h hs -> h <> []) ->
  withinvar numR (map (map (fun x => a * x + b)) hs)
  = (a * a * fst (withinvar numR hs), a * a * snd (withinvar numR hs)).
Proof. exact withinvar_affine. Qed.

Theorem C12_affine : forall (a b : R) (hs : list (list R)) (N : nat),
  a <> 0 -> (forall h, In h hs -> length h = N) -> snd (withinvar numR hs) <> 0 ->
  ess_tau numR (map (map (fun x => a * x + b)) hs) = ess_tau numR hs /\
  ess numR (map (map (fun x => a * x + b)) hs) = ess numR hs.
Proof. exact ess_affine. Qed.

(* ---- (7) chain permutation *)
Theorem C12_perm : forall (hs hs' : list (list R)) (N : nat),
  Permutation hs hs' -> (forall h, In h hs -> length h = N) ->
  ess_tau numR hs' = ess_tau numR hs /\ ess numR hs' = ess numR hs.
Proof. exact ess_perm. Qed.

(* ---- Non-vacuity and concrete values *)
(* the two autocovariance routines on [1;2;3;4] (exact rationals), padded length 8 >= 2*4-1 *)
Example C12_autocov_concrete :
  let xs := map inject_Z [1; 2; 3; 4]%Z in
  autocov numQ xs = [5 # 4; 5 # 16; -3 # 8; -9 # 16]%Q /\
  circ_autocov numQ 8 xs = autocov numQ xs /\
  circ_autocov numQ 7 xs = autocov numQ xs /\
  circ_autocov numQ 6 xs <> autocov numQ xs.
Proof.
  cbv zeta. split; [vm_compute; reflexivity|]. split; [vm_compute; reflexivity|].
  split; [vm_compute; reflexivity|]. vm_compute. discriminate.
Qed.

(* Geyer's rule on rho = [1; 1/2; 1/4; 1/8; 1/4; 1/4; -1/4; 0; 1; 1]: pair sums 3/2, 3/8, 1/2,
   -1/4, 2; the third is clamped to 3/8, the fourth stops the sum: tau = 2 * (3/2+3/8+3/8) - 1 *)
Example C12_tau_concrete :
  tau_of_rho numQ [1; 1 # 2; 1 # 4; 1 # 8; 1 # 4; 1 # 4; -1 # 4; 0; 1; 1]%Q = (7 # 2)%Q.
Proof. vm_compute. reflexivity. Qed.

(* the hypotheses of C12_rho0 / C12_affine / C12_perm / C12_formula are satisfiable *)
Example C12_hypotheses_satisfiable :
  let hs := [[0; 1]; [0; 3]] in
  hs <> [] /\ (forall h, In h hs -> length h = 2%nat) /\ (forall h, In h hs -> h <> []) /\
  snd (withinvar numR hs) = 9 / 8 /\ snd (withinvar numR hs) <> 0 /\
  Permutation hs [[0; 3]; [0; 1]].
Proof.
  cbv zeta.
  assert (E : snd (withinvar numR [[0; 1]; [0; 3]]) = 9 / 8).
  { unfold withinvar, var_n, meanK, sumK, sqK, ofN. simpl. field. }
  split; [discriminate|]. split; [intros h [<-|[<-|[]]]; reflexivity|].
  split; [intros h [<-|[<-|[]]]; discriminate|]. split; [exact E|].
  split; [rewrite E; lra|]. apply perm_swap.
Qed.

(* ---- the correspondence check evaluates the SAME generic model at exact rationals (numQ, normalised);
   mapped to the reals with Q2R this evaluation is the real-number model of the theorems above ---- *)
From Coq Require Import QArith Qreals.
From MiniMcmc Require Import Proofs.Q2R.

Theorem C12_q_evaluation_is_real_model : forall (hs : list (list Q)) (n : nat),
  (2 <= length hs)%nat -> (1 <= n)%nat -> (forall h, In h hs -> length h = n) ->
  ~ (snd (withinvar numQ hs) == 0)%Q ->
  Q2R (ess_tau numQ hs) = ess_tau numR (map (map Q2R) hs).
Proof. exact q2r_ess_tau. Qed.

Theorem C12_q_autocov_is_real : forall xs : list Q, xs <> [] ->
  map Q2R (autocov numQ xs) = autocov numR (map Q2R xs).
Proof. exact q2r_autocov. Qed.

(* Geyer's truncation takes the same branches over Q and over R *)
Theorem C12_q_geyer_is_real : forall (fuel : nat) (rho : list Q) (mn out : Q),
  Q2R (geyer numQ fuel rho mn out) = geyer numR fuel (map Q2R rho) (Q2R mn) (Q2R out).
Proof. exact q2r_geyer. Qed.

Print Assumptions C12_fft_is_bf.
Print Assumptions C12_fft_is_bf_list.
Print Assumptions C12_tau_fft_is_bf.
Print Assumptions C12_rho.
Print Assumptions C12_lag0.
Print Assumptions C12_rho0.
Print Assumptions C12_geyer_sum.
Print Assumptions C12_geyer_fuel.
Print Assumptions C12_geyer_shape.
Print Assumptions C12_geyer_terms.
Print Assumptions C12_tau.
Print Assumptions C12_formula.
Print Assumptions C12_ess.
Print Assumptions C12_reverse_autocov.
Print Assumptions C12_reverse_withinvar.
Print Assumptions C12_reverse.
Print Assumptions C12_affine_autocov.
Print Assumptions C12_affine_withinvar.
Print Assumptions C12_affine.
Print Assumptions C12_perm.
Print Assumptions C12_q_evaluation_is_real_model.
Print Assumptions C12_q_autocov_is_real.
Print Assumptions C12_q_geyer_is_real.
