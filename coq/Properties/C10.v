From MiniMcmc Require Import Model.Reporter.
