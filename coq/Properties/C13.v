(* C13 — After any sequence of updates the per-chain tracker reports the count, mean and
   unbiased variance of exactly the states it was fed; the R-hat derived from several trackers
   equals the classical var+/W of those draws and is identical to what the multi-chain tracker
   reports for the same data; the reported acceptance rate is an exponential moving average
   (weight 0.01) of "state differs from previous state" indicators and lies in [0,1].
   Models: Model/Stats.v (trk_step, trk_sm2, collect_rhat2, multi_rhat2, bmean, bvar_unbiased, batch_rhat2), generic over
   Base.Num and instantiated here at numR (real arithmetic: add = Rplus, ..., ofN n = IZR (Z.of_nat n)
   = INR n), and Model/Tracker.v (emaR, chain_pR, multi_pR).  The tracker models are per
   coordinate: the implementation applies them to every parameter independently, so the
   statements hold for any number of parameters (n_params only ever entered through the
   pre-repair divisor, see C13_old_divisor_refuted).  All functions return R-hat^2. *)
From MiniMcmc Require Import Base.Num Base.Util Model.Stats Model.Tracker Proofs.Tracker.
From Coq Require Import Reals.
Close Scope Q_scope.
Open Scope R_scope.

(* ---- (a) the streaming tracker reports the statistics of exactly the states it was fed ---- *)

Theorem C13_count : forall xs : list R,
  t_n numR (trk_run numR xs) = length xs.
Proof. exact trk_count. Qed.

Theorem C13_mean : forall xs : list R, xs <> [] ->
  t_mean numR (trk_run numR xs) = bmean numR xs.
Proof. exact trk_mean. Qed.

(* the model's sum is the ordinary sum, so the mean is  (x_1 + ... + x_n) / n *)
Theorem C13_sum_is_sum : forall xs : list R, sumK numR xs = fold_right Rplus 0 xs.
Proof. exact sumK_R_fold_right. Qed.

Theorem C13_mean_explicit : forall xs : list R, xs <> [] ->
  t_mean numR (trk_run numR xs) = fold_right Rplus 0 xs / INR (length xs).
Proof. exact trk_mean_explicit. Qed.

Theorem C13_mean_sq : forall xs : list R, xs <> [] ->
  t_msq numR (trk_run numR xs) = meanK numR (map (fun x => x * x) xs).
Proof. exact trk_mean_sq. Qed.

(* reported variance (msq - mean^2) * n / (n - 1)  =  sum (x - mean)^2 / (n - 1) *)
Theorem C13_variance : forall xs : list R, (2 <= length xs)%nat ->
  trk_sm2 numR (trk_run numR xs) = bvar_unbiased numR xs.
Proof. exact trk_variance. Qed.

Theorem C13_variance_explicit : forall xs : list R, (2 <= length xs)%nat ->
  let mu := fold_right Rplus 0 xs / INR (length xs) in
  trk_sm2 numR (trk_run numR xs)
  = fold_right Rplus 0 (map (fun x => (x - mu) * (x - mu)) xs) / (INR (length xs) - 1).
Proof. exact trk_variance_explicit. Qed.

(* ---- (b) R-hat^2 from tracker statistics = classical batch R-hat^2 = multi-chain tracker ---- *)
(* at least two chains, all of one common length n >= 2; no assumption on W (if W = 0 both
   sides are the same quotient x / 0) *)

Theorem C13_rhat_is_batch : forall (chains : list (list R)) (n : nat),
  (2 <= length chains)%nat -> (2 <= n)%nat -> (forall c, In c chains -> length c = n) ->
  collect_rhat2 numR (map (fun c => (t_n numR (trk_run numR c), t_mean numR (trk_run numR c),
                                      trk_sm2 numR (trk_run numR c))) chains)
  = batch_rhat2 numR chains.
Proof. exact collect_is_batch. Qed.

Theorem C13_multi_is_batch : forall (chains : list (list R)) (n : nat),
  (2 <= length chains)%nat -> (2 <= n)%nat -> (forall c, In c chains -> length c = n) ->
  multi_rhat2 numR (map (trk_run numR) chains) = batch_rhat2 numR chains.
Proof. exact multi_is_batch. Qed.

Theorem C13_rhat_agree : forall (chains : list (list R)) (n : nat),
  (2 <= length chains)%nat -> (2 <= n)%nat -> (forall c, In c chains -> length c = n) ->
  collect_rhat2 numR (map (fun c => (t_n numR (trk_run numR c), t_mean numR (trk_run numR c),
                                      trk_sm2 numR (trk_run numR c))) chains)
  = multi_rhat2 numR (map (trk_run numR) chains).
Proof. exact collect_is_multi. Qed.

(* ---- (c) the divisor before the repair (n_chains * n_params - 1) violates (b) ----
   exact rationals: 3 chains x 2 draws [[0;1];[1;1];[0;0]] of one of n_params = 4 parameters;
   the tracker statistics are those of the draws, the repaired collect_rhat2 equals the batch
   value and the pre-repair one does not. *)
Theorem C13_old_divisor_refuted :
  exists (chains : list (list Q)) (n_params : nat),
    let st := map (fun c => (t_n numQ (trk_run numQ c), t_mean numQ (trk_run numQ c),
                             trk_sm2 numQ (trk_run numQ c))) chains in
    Qeq_bool (collect_rhat2_old numQ n_params st) (batch_rhat2 numQ chains) = false /\
    Qeq_bool (collect_rhat2 numQ st) (batch_rhat2 numQ chains) = true.
Proof. exists old_chains, 4%nat. exact old_divisor_witness. Qed.

(* ---- (d) acceptance rate ---- *)

Theorem C13_p_accept_ema : forall (p : R) (a : bool),
  emaR p a = p + (1 / 100) * ((if a then 1 else 0) - p).
Proof. exact emaR_ema. Qed.

(* per-chain tracker: first step starts from the first-coordinate indicator, every later step
   applies one EMA update with the "state differs" indicator *)
Theorem C13_chain_p_first : forall f a : bool,
  chain_pR [(f, a)] = emaR (if f then 1 else 0) a.
Proof. exact chain_pR_first. Qed.

Theorem C13_chain_p_step : forall (inds : list (bool * bool)) (f a : bool),
  inds <> [] -> chain_pR (inds ++ [(f, a)]) = emaR (chain_pR inds) a.
Proof. exact chain_pR_snoc. Qed.

(* multi-chain tracker: starts at 0, every step folds the chains' indicators in order *)
Theorem C13_multi_p_step : forall (steps : list (list bool)) (inds : list bool),
  multi_pR [] = 0 /\ multi_pR (steps ++ [inds]) = fold_left emaR inds (multi_pR steps).
Proof. intros steps inds. split; [exact multi_pR_nil | exact (multi_pR_snoc steps inds)]. Qed.

Theorem C13_p_accept_range :
  (forall (p : R) (a : bool), 0 <= p <= 1 -> 0 <= emaR p a <= 1) /\
  (forall inds : list (bool * bool), inds <> [] -> 0 <= chain_pR inds <= 1) /\
  (forall steps : list (list bool), 0 <= multi_pR steps <= 1).
Proof. exact (conj emaR_range (conj chain_pR_range multi_pR_range)). Qed.

(* ---- non-vacuity ---- *)

(* history [1;2;4]: count 3, mean 7/3, unbiased variance 7/3 (exact rationals, evaluated) *)
Example C13_history_Q :
  let t := trk_run numQ [1%Q; 2%Q; 4%Q] in
  t_n numQ t = 3%nat /\ t_mean numQ t = (7 # 3)%Q /\ trk_sm2 numQ t = (7 # 3)%Q.
Proof. vm_compute. repeat split. Qed.

(* the same history over the reals, through the theorems *)
Example C13_history_R :
  let t := trk_run numR [1; 2; 4] in
  t_n numR t = 3%nat /\ t_mean numR t = 7 / 3 /\ trk_sm2 numR t = 7 / 3.
Proof.
  cbv zeta. split; [|split].
  - rewrite C13_count. reflexivity.
  - rewrite C13_mean_explicit by discriminate. simpl. field.
  - rewrite (C13_variance_explicit [1; 2; 4]) by (simpl; Lia.lia). simpl. field.
Qed.

(* two chains of three draws meet the hypotheses of C13_rhat_is_batch / C13_multi_is_batch /
   C13_rhat_agree (with W <> 0), and on them the common R-hat^2 is 7/6 (exact rationals) *)
Example C13_rhat_hypotheses_satisfiable :
  let chains := [[0; 1; 2]; [1; 3; 2]] in
  (2 <= length chains)%nat /\ (2 <= 3)%nat /\ (forall c, In c chains -> length c = 3%nat).
Proof.
  cbv zeta. split; [simpl; Lia.lia|]. split; [Lia.lia|].
  intros c [<-|[<-|[]]]; reflexivity.
Qed.

Example C13_rhat_Q :
  let chains := [[0%Q; 1%Q; 2%Q]; [1%Q; 3%Q; 2%Q]] in
  let st := map (fun c => (t_n numQ (trk_run numQ c), t_mean numQ (trk_run numQ c),
                           trk_sm2 numQ (trk_run numQ c))) chains in
  collect_rhat2 numQ st = batch_rhat2 numQ chains /\
  multi_rhat2 numQ (map (trk_run numQ) chains) = batch_rhat2 numQ chains /\
  batch_rhat2 numQ chains = (7 # 6)%Q.
Proof. vm_compute. repeat split. Qed.

(* acceptance rate: one accepted move from p = 0 gives 1/100 *)
Example C13_p_accept_example : chain_pR [(false, true)] = 1 / 100 /\ multi_pR [[true]] = 1 / 100.
Proof. unfold chain_pR, multi_pR, emaR. simpl. split; Lra.lra. Qed.

(* ---- the correspondence check evaluates the SAME generic model at exact rationals (numQ, normalised);
   mapped to the reals with Q2R this evaluation is the real-number model of the theorems above ---- *)
From Coq Require Import QArith Qreals.
From MiniMcmc Require Import Proofs.Q2R.

Theorem C13_q_tracker_is_real : forall xs : list Q,
  Q2R (t_mean numQ (trk_run numQ xs)) = t_mean numR (trk_run numR (map Q2R xs)) /\
  Q2R (t_msq numQ (trk_run numQ xs)) = t_msq numR (trk_run numR (map Q2R xs)) /\
  t_n numQ (trk_run numQ xs) = t_n numR (trk_run numR (map Q2R xs)).
Proof. exact q2r_trk_run. Qed.

Theorem C13_q_variance_is_real : forall xs : list Q, (2 <= length xs)%nat ->
  Q2R (trk_sm2 numQ (trk_run numQ xs)) = trk_sm2 numR (trk_run numR (map Q2R xs)).
Proof. exact q2r_trk_sm2. Qed.

Theorem C13_q_batch_rhat2_is_real : forall cs : list (list Q),
  (2 <= length cs)%nat -> (forall c, In c cs -> (2 <= length c)%nat) ->
  ~ (meanK numQ (map (bvar_unbiased numQ) cs) == 0)%Q ->
  Q2R (batch_rhat2 numQ cs) = batch_rhat2 numR (map (map Q2R) cs).
Proof. exact q2r_batch_rhat2. Qed.

(* the acceptance-rate recurrence evaluated by the correspondence check over Q (emaQ, chain_pQ,
   multi_pQ: normalised exact rationals) is, mapped to the reals with Q2R, the real-number
   recurrence (emaR, chain_pR, multi_pR) of C13_p_accept_ema .. C13_p_accept_range *)
From MiniMcmc Require Import Proofs.Links.

Theorem C13_q_ema_is_real :
  (forall (p : Q) (a : bool), Q2R (emaQ p a) = emaR (Q2R p) a) /\
  (forall l : list (bool * bool), Q2R (chain_pQ l) = chain_pR l) /\
  (forall l : list (list bool), Q2R (multi_pQ l) = multi_pR l).
Proof. exact (conj q2r_ema (conj q2r_chain_p q2r_multi_p)). Qed.

(* ---- (e) the tracker update IN FLOATING POINT (Model/Tracker.v trk32_step: ChainTracker::step for one
   parameter, binary32, round to nearest even; the model the correspondence check evaluates bit for bit
   through trk32_eval).  `rnd` is rounding to nearest even in binary32.
   (1) the first update stores the state itself as the mean and its rounded square;
   (2) a later update (count n0 >= 1, n0 < 2^24, magnitudes at most 2^40) is finite and is the exact
       running-mean update of (a) with each of its operations rounded; n0 + 1 and n0 are exact in f32;
   (3) one update is within 3 * 2^(k-24) (mean, magnitudes at most 2^k) resp. 4 * 2^(2k-24) (mean of
       squares, magnitudes at most 2^(2k)) of the exact update (absolute error, underflow included);
   (4) |mean| <= 2^k and 0 <= mean_sq <= 2^(2k) are preserved by every update (no rounding slack), hence
       along every history of at most 2^24 finite states of magnitude at most 2^k;
   (5) after such a history of n states the float mean is within 3 * 2^(k-24) * (n + 1) / 2 of the exact
       tracker mean of (a) (= the mean of the states, C13_mean / C13_mean_explicit).
   Proofs/TrackerFloat.v ---- *)
From MiniMcmc Require Import Proofs.TrackerFloat.
Section C13_float.
  Notation rnd := (Generic_fmt.round Zaux.radix2 (FLT.FLT_exp (-149) 24)
                     (Generic_fmt.Znearest (fun x => negb (Z.even x)))).
  Notation B2R := (Binary.B2R 24 128).
  Notation is_finite := (Binary.is_finite 24 128).
  Notation pow2 := (Raux.bpow Zaux.radix2).

  Theorem C13_float_first_update : forall x : binary32,
    is_finite x = true -> (Rabs (B2R x) <= pow2 60)%R ->
    let '(n, mean, msq) := trk32_step (O, f32_zero, f32_zero) x in
    n = 1%nat /\ is_finite mean = true /\ is_finite msq = true /\
    B2R mean = B2R x /\ B2R msq = rnd (B2R x * B2R x)%R.
  Proof. exact trk32_first_update. Qed.

  Theorem C13_float_update_rounded_value : forall (n0 : nat) (mean msq x : binary32),
    (1 <= n0)%nat -> (Z.of_nat n0 < 2 ^ 24)%Z ->
    is_finite mean = true -> is_finite msq = true -> is_finite x = true ->
    (Rabs (B2R mean) <= pow2 40)%R -> (Rabs (B2R msq) <= pow2 40)%R -> (Rabs (B2R x) <= pow2 40)%R ->
    let '(n, mean', msq') := trk32_step (n0, mean, msq) x in
    n = S n0 /\ is_finite mean' = true /\ is_finite msq' = true /\
    B2R mean' = rnd (rnd (rnd (B2R mean * INR n0) + B2R x) / INR (S n0))%R /\
    B2R msq' = rnd (rnd (rnd (B2R msq * INR n0) + rnd (B2R x * B2R x)) / INR (S n0))%R.
  Proof. exact trk32_update_rounded_value. Qed.

  (* the counts entering the update are exact: (n as f32) = n and (n as f32) - 1.0 = n - 1 *)
  Theorem C13_float_count_exact : forall n0 : nat, (Z.of_nat (S n0) <= 2 ^ 24)%Z ->
    (is_finite (cnt32 (S n0)) = true /\ B2R (cnt32 (S n0)) = INR (S n0)) /\
    (is_finite (b32_minus mode_NE (cnt32 (S n0)) f32_one) = true /\
     B2R (b32_minus mode_NE (cnt32 (S n0)) f32_one) = INR n0).
  Proof. intros n0 Hn. exact (conj (cnt32_exact (S n0) Hn) (cnt32_minus_one n0 Hn)). Qed.

  Theorem C13_float_update_error : forall (k : Z) (n0 : nat) (mean msq x : binary32),
    (Z.of_nat n0 < 2 ^ 24)%Z -> (-126 <= k <= 103)%Z ->
    is_finite mean = true -> is_finite x = true ->
    (Rabs (B2R mean) <= pow2 k)%R -> (Rabs (B2R x) <= pow2 k)%R ->
    let '(n, mean', msq') := trk32_step (n0, mean, msq) x in
    is_finite mean' = true /\
    (Rabs (B2R mean' - (B2R mean * INR n0 + B2R x) / INR (S n0)) <= 3 * pow2 (k - 24))%R.
  Proof. exact trk32_update_error_mean. Qed.

  Theorem C13_float_update_error_sq : forall (k : Z) (n0 : nat) (mean msq x : binary32),
    (1 <= n0)%nat -> (Z.of_nat n0 < 2 ^ 24)%Z -> (-63 <= k <= 51)%Z ->
    is_finite msq = true -> is_finite x = true ->
    (Rabs (B2R msq) <= pow2 (2 * k))%R -> (Rabs (B2R x) <= pow2 k)%R ->
    let '(n, mean', msq') := trk32_step (n0, mean, msq) x in
    is_finite msq' = true /\
    (Rabs (B2R msq' - (B2R msq * INR n0 + B2R x * B2R x) / INR (S n0)) <= 4 * pow2 (2 * k - 24))%R.
  Proof. exact trk32_update_error_msq. Qed.

  Theorem C13_float_update_range : forall (k : Z) (n0 : nat) (mean msq x : binary32),
    (Z.of_nat n0 < 2 ^ 24)%Z -> (-74 <= k <= 51)%Z ->
    is_finite mean = true -> is_finite msq = true -> is_finite x = true ->
    (Rabs (B2R mean) <= pow2 k)%R -> (0 <= B2R msq <= pow2 (2 * k))%R -> (Rabs (B2R x) <= pow2 k)%R ->
    let '(n, mean', msq') := trk32_step (n0, mean, msq) x in
    n = S n0 /\ is_finite mean' = true /\ is_finite msq' = true /\
    (Rabs (B2R mean') <= pow2 k)%R /\ (0 <= B2R msq' <= pow2 (2 * k))%R.
  Proof. exact trk32_update_range. Qed.

  Theorem C13_float_run_range : forall (k : Z) (xs : list binary32),
    (-74 <= k <= 51)%Z -> (Z.of_nat (length xs) <= 2 ^ 24)%Z ->
    Forall (fun x => is_finite x = true /\ (Rabs (B2R x) <= pow2 k)%R) xs ->
    let '(n, mean, msq) := fold_left trk32_step xs (O, f32_zero, f32_zero) in
    n = length xs /\ is_finite mean = true /\ is_finite msq = true /\
    (Rabs (B2R mean) <= pow2 k)%R /\ (0 <= B2R msq <= pow2 (2 * k))%R.
  Proof. exact trk32_run_range. Qed.

  Theorem C13_float_run_mean_error : forall (k : Z) (xs : list binary32),
    (-74 <= k <= 51)%Z -> (Z.of_nat (length xs) <= 2 ^ 24)%Z ->
    Forall (fun x => is_finite x = true /\ (Rabs (B2R x) <= pow2 k)%R) xs ->
    let '(n, mean, msq) := fold_left trk32_step xs (O, f32_zero, f32_zero) in
    (Rabs (B2R mean - t_mean numR (trk_run numR (map B2R xs)))
     <= 3 * pow2 (k - 24) * (INR (length xs) + 1) / 2)%R.
  Proof. exact trk32_run_mean_error. Qed.
End C13_float.

(* states 1.0, 2.0, 3.0 (bit patterns): the tracker reports mean 2.0 exactly and the unbiased variance
   1 - 4 * 2^-24 (bits 1065353212; the exact value is 1.0 = bits 1065353216: mean_sq = 14/3 is rounded) *)
Example C13_float_tracker_concrete :
  trk32_eval [1065353216; 1073741824; 1077936128]%Z = [1073741824; 1065353212]%Z.
Proof. vm_compute. reflexivity. Qed.

(* the first update on the state 1.0 gives count 1, mean 1.0, mean_sq 1.0; the hypotheses of (2), (3), (4)
   hold with k = 1 for that tracker state and the new state 2.0; the update returns count 2, mean 1.5
   (bits 1069547520) and mean_sq 2.5 (bits 1075838976), both exact here *)
Example C13_float_update_concrete :
  let one := b32_of_bits 1065353216 in
  let two := b32_of_bits 1073741824 in
  (1 <= 1)%nat /\ (Z.of_nat 1 < 2 ^ 24)%Z /\ (-63 <= 1 <= 51)%Z /\
  Binary.is_finite 24 128 one = true /\ Binary.is_finite 24 128 two = true /\
  (Rabs (Binary.B2R 24 128 one) <= Raux.bpow Zaux.radix2 1)%R /\
  (0 <= Binary.B2R 24 128 one <= Raux.bpow Zaux.radix2 (2 * 1))%R /\
  (Rabs (Binary.B2R 24 128 two) <= Raux.bpow Zaux.radix2 1)%R /\
  (Rabs (Binary.B2R 24 128 one) <= Raux.bpow Zaux.radix2 40)%R /\
  (Rabs (Binary.B2R 24 128 two) <= Raux.bpow Zaux.radix2 40)%R /\
  (let '(n, mean', msq') := trk32_step (O, f32_zero, f32_zero) one in
   n = 1%nat /\ bits_of_b32 mean' = 1065353216%Z /\ bits_of_b32 msq' = 1065353216%Z) /\
  (let '(n, mean', msq') := trk32_step (1%nat, one, one) two in
   n = 2%nat /\ bits_of_b32 mean' = 1069547520%Z /\ bits_of_b32 msq' = 1075838976%Z).
Proof.
  cbv zeta.
  change (b32_of_bits 1065353216) with f32_one.
  destruct f32_one_spec as [F1 V1]. destruct f32_two_spec as [F2 V2].
  rewrite V1, V2.
  assert (P1 : Raux.bpow Zaux.radix2 1 = 2%R) by reflexivity.
  assert (P2 : Raux.bpow Zaux.radix2 (2 * 1) = 4%R)
    by (cbn [Z.mul Pos.mul Raux.bpow Z.pow_pos Pos.iter radix_val Zaux.radix2]; Lra.lra).
  assert (P40 : (2 <= Raux.bpow Zaux.radix2 40)%R)
    by (rewrite <- P1; apply Raux.bpow_le; vm_compute; discriminate).
  rewrite P1, P2.
  assert (A1 : Rabs 1 = 1%R) by (apply Rabs_pos_eq; Lra.lra).
  assert (A2 : Rabs 2 = 2%R) by (apply Rabs_pos_eq; Lra.lra).
  rewrite A1, A2.
  split; [apply le_n|]. split; [vm_compute; reflexivity|].
  split; [split; vm_compute; discriminate|].
  split; [exact F1|]. split; [exact F2|].
  split; [Lra.lra|]. split; [Lra.lra|]. split; [Lra.lra|]. split; [Lra.lra|]. split; [Lra.lra|].
  split; vm_compute; repeat split.
Qed.

Print Assumptions C13_count.
Print Assumptions C13_mean.
Print Assumptions C13_sum_is_sum.
Print Assumptions C13_mean_explicit.
Print Assumptions C13_mean_sq.
Print Assumptions C13_variance.
Print Assumptions C13_variance_explicit.
Print Assumptions C13_rhat_is_batch.
Print Assumptions C13_multi_is_batch.
Print Assumptions C13_rhat_agree.
Print Assumptions C13_old_divisor_refuted.
Print Assumptions C13_p_accept_ema.
Print Assumptions C13_chain_p_first.
Print Assumptions C13_chain_p_step.
Print Assumptions C13_multi_p_step.
Print Assumptions C13_p_accept_range.
Print Assumptions C13_q_tracker_is_real.
Print Assumptions C13_q_variance_is_real.
Print Assumptions C13_q_batch_rhat2_is_real.
Print Assumptions C13_q_ema_is_real.
Print Assumptions C13_float_first_update.
Print Assumptions C13_float_update_rounded_value.
Print Assumptions C13_float_count_exact.
Print Assumptions C13_float_update_error.
Print Assumptions C13_float_update_error_sq.
Print Assumptions C13_float_update_range.
Print Assumptions C13_float_run_range.
Print Assumptions C13_float_run_mean_error.
Print Assumptions C13_float_tracker_concrete.
Print Assumptions C13_float_update_concrete.
