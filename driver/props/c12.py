"""C12 — ESS = M*N/tau with Geyer's monotone sequence, whichever autocovariance path runs."""
from fractions import Fraction
import math
import common as C
from props import statgen

ID = "C12"
LEVEL = "proof"
COQ_HEADER = "From MiniMcmc Require Import Model.StatsEval."
RULE = ("sample arrays 1..8 chains x 4..120 draws plus lengths whose halves straddle the 100-row switch (196..206) and FFT "
        "paddings far from powers of two (half-length 101,127,129,255,257; thorough adds 1023,1025), integer/dyadic data: iid, "
        "AR(1) with phi in (-0.85,0.97), trending, displaced chains; tau = M*N/ESS from split_rhat_mean_ess compared with the "
        "exact Q model of the brute-force definition (abs tolerance 2^-8*(1+|tau|)); on a subset the Q model of the circular "
        "(FFT) autocovariance is evaluated as well and must coincide with the brute-force one. Non-trivial: the Geyer sum has "
        ">= 2 terms or the half-length exceeds 100 (FFT path).")
TRUSTED = ["rustfft = DFT; correlation theorem IDFT(|DFT x|^2) = circular autocorrelation (assumed)",
           "f32 rounding bounded per case"]
ASSUMPTIONS = ["the 'about N' / AR(1) clauses are asymptotic, checked on the model's output only as a sanity figure"]


def generate(rng, tier):
    cases = []
    specials = [196, 198, 200, 201, 202, 203, 204, 206]
    halves = [101, 127, 129, 255, 257] + ([1023, 1025] if tier == "thorough" else [])
    for n in specials:
        m = rng.choice([1, 2])
        data, style = statgen.gen_array(rng, m, n, 1, rng.choice(["iid", "ar1", "ar1neg"]))
        cases.append({"op": "split", "ty": "f32", "e": 0, "data": data, "style": style + "@switch"})
    for h in halves:
        n = 2 * h + rng.choice([0, 1])
        data, style = statgen.gen_array(rng, 1, n, 1, rng.choice(["iid", "ar1"]))
        cases.append({"op": "split", "ty": "f32", "e": 0, "data": data, "style": style + "@fft"})
    n_cases = 200 if tier == "quick" else 2500
    while len(cases) < n_cases:
        m = rng.choice([1, 2, 3, 4, 8])
        p = rng.choice([1, 1, 2, 3])
        n = rng.randint(4, 40) if rng.random() < 0.6 else rng.randint(41, 120)
        if m * p * n > 1500:
            n = max(4, 1500 // (m * p))
        data, style = statgen.gen_array(rng, m, n, p, rng.choice(["iid", "ar1", "ar1", "ar1neg", "trend", "displaced"]))
        ty = rng.choice(["f32", "f32", "f64", "i32"])
        # incl. very small scales: the pooled variance falls below f32::EPSILON although the chain is perfectly regular (ESS
        # is scale-free; nothing may clamp the denominators)
        e = 0 if ty == "i32" else rng.choice([0, 0, -3, 2, -16, -24])
        cases.append({"op": "split", "ty": ty, "e": e, "data": data, "style": style})
    # a long array first (not evaluated by the model: it only exercises state that an implementation might keep between
    # calls, e.g. cached FFT plans), then the FFT-path cases in DEcreasing length, then everything else shuffled
    fft = sorted([c for c in cases if len(c["data"][0]) // 2 > 100], key=lambda c: -len(c["data"][0]))
    rest = [c for c in cases if len(c["data"][0]) // 2 <= 100]
    rng.shuffle(rest)
    data, style = statgen.gen_array(rng, 1, 4200, 1, "ar1")
    primer = {"op": "split", "ty": "f32", "e": 0, "data": data, "style": "primer", "primer": True}
    # wide and long arrays inside the documented range (up to 5000 draws x 8 parameters): too long for the exact models, checked
    # against a double-precision reading of the property text (error far below the f32-level tolerance).  Several parameters
    # x padded length above 2^14 entries: scratch space shared between columns would show here
    wide = []
    for (m, n, pp) in [(2, 4200, 6), (1, 2300, 8)] + ([(3, 5000, 8), (4, 4098, 3), (2, 2050, 5)] if tier == "thorough" else []):
        data, style = statgen.gen_array(rng, m, n, pp, rng.choice(["ar1", "iid"]))
        wide.append({"op": "split", "ty": rng.choice(["f32", "f64"]), "e": 0, "data": data, "style": style + "@wide", "wide": True})
    k = len(rest) // 2
    return [primer] + wide + fft + rest[:k] + [dict(primer)] + [dict(c) for c in fft[::-1][:3]] + rest[k:]


def qlit(m, e):
    return "(dy %s %s)" % (C.z(m), C.z(e))


def coq_term(case, out):
    if "panic" in out or case.get("primer") or case.get("wide"):
        return None
    data, e = case["data"], case["e"]
    m, n, p = len(data), len(data[0]), len(data[0][0])
    parts = []
    for k in range(p):
        col = "[" + "; ".join("[" + "; ".join(qlit(data[c][t][k], e) for t in range(n)) + "]" for c in range(m)) + "]"
        parts.append("c12_eval %s" % col)
    if "@" in case["style"] and n <= 520:
        # both autocovariance definitions on the first half of chain 0 (padded length = next pow2 >= 2h-1)
        h = n // 2
        P = 1
        while P < 2 * h - 1:
            P <<= 1
        xs = "[" + "; ".join(qlit(data[0][t][0], e) for t in range(h)) + "]"
        parts.append("c12_paths_agree %s %s" % (C.natlit(P), xs))
    return " ++ ".join("(%s)" % q for q in parts)


def compare(case, out, model):
    if "panic" in out:
        return "implementation panicked: " + out["panic"]
    if model is None:
        return None
    data = case["data"]
    m, n, p = len(data), len(data[0]), len(data[0][0])
    h = n // 2
    for k in range(p):
        W = Fraction(model[8 * k], model[8 * k + 1])
        V = Fraction(model[8 * k + 2], model[8 * k + 3])
        tau = Fraction(model[8 * k + 4], model[8 * k + 5])
        E = Fraction(model[8 * k + 6], model[8 * k + 7])
        if W == 0 or V == 0 or tau == 0:
            continue
        g = C.f32_bits_to_float(out["ess"][k])
        if not math.isfinite(g) or g == 0.0:
            return "param %d: ESS is %r, model tau = %s" % (k, g, float(tau))
        gt = Fraction(2 * m * h) / Fraction(g)
        if abs(gt - tau) > Fraction(1, 256) * (1 + abs(tau)):
            return "param %d (%d chains x %d draws): implementation tau = M*N/ESS = %.6g, model tau = %.6g" % (
                k, m, n, float(gt), float(tau))
        # the same agreement in terms of ESS = M*N/tau: an error d in tau moves ESS by M*N*d/tau^2, which is unbounded as
        # tau -> 0 (strongly negatively correlated draws; thorough tier: tau = 1e-5 gave ESS 1.2e7 vs 1.5e7 — false alarm of
        # a fixed relative tolerance)
        d_tau = Fraction(1, 256) * (1 + abs(tau))
        if abs(Fraction(g) - E) > Fraction(1, 128) * (1 + abs(E)) + Fraction(2 * m * h) * d_tau / (tau * tau):
            return "param %d (%d chains x %d draws): ESS %.6g, Model.Stats.ess = %.6g" % (k, m, n, g, float(E))
    if len(model) > 8 * p and model[8 * p] != 1:
        return "Q model: circular (FFT) autocovariance differs from the brute-force one"
    return None


def py_tau(halves):
    """Property text in exact rationals."""
    M, N = len(halves), len(halves[0])
    means = [sum(x) / N for x in halves]
    overall = sum(means) / M
    W = sum(sum((v - mu) ** 2 for v in x) / N for x, mu in zip(halves, means)) / M
    B = sum((mu - overall) ** 2 for mu in means) * N / (M - 1)
    V = Fraction(N - 1, N) * W + B / N
    if W == 0 or V == 0:
        return None
    cs = [[v - mu for v in x] for x, mu in zip(halves, means)]
    rho = []
    for t in range(N):
        ac = sum(sum(c[s] * c[s + t] for s in range(N - t)) / N for c in cs) / M
        rho.append(1 - (W - ac) / V)
        # Geyer only needs pairs until the first non-positive pair sum: stop early
        if t % 2 == 1 and rho[t - 1] + rho[t] <= 0:
            break
    mn = rho[0] + rho[1] if len(rho) >= 2 else Fraction(0)
    out = Fraction(0)
    for j in range(0, len(rho) - 1, 2):
        pj = rho[j] + rho[j + 1]
        if pj <= 0:
            break
        if pj > mn:
            pj = mn
        mn = pj
        out += pj
    return -1 + 2 * out, (len(rho) // 2)


def np_tau(halves):
    """The property text in double precision (numpy), for arrays too long for exact rationals: W, B, var+, averaged
    autocovariances by direct (zero-padded FFT in f64, error ~1e-13) correlation, Geyer's pair sums with positivity cut and
    monotone clamp."""
    import numpy as np
    X = np.array(halves, dtype=np.float64)
    M, N = X.shape
    means = X.mean(axis=1)
    W = float(((X - means[:, None]) ** 2).sum(axis=1).mean() / N)
    B = float(((means - means.mean()) ** 2).sum() * N / (M - 1))
    V = (N - 1) / N * W + B / N
    if W == 0 or V == 0:
        return None
    Cc = X - means[:, None]
    P = 1
    while P < 2 * N:
        P <<= 1
    F = np.fft.rfft(Cc, n=P, axis=1)
    ac = np.fft.irfft(F * np.conj(F), n=P, axis=1)[:, :N].mean(axis=0) / N
    rho = 1 - (W - ac) / V
    mn = rho[0] + rho[1]
    out = 0.0
    for j in range(0, N - 1, 2):
        pj = rho[j] + rho[j + 1]
        if pj <= 0:
            break
        if pj > mn:
            pj = mn
        mn = pj
        out += pj
    return -1 + 2 * out


def oracle(case, out):
    if "panic" in out:
        return "split_rhat_mean_ess panicked: " + out["panic"]
    if case.get("primer"):
        return None
    data, e = case["data"], case["e"]
    m, n, p = len(data), len(data[0]), len(data[0][0])
    h = n // 2
    if h > 300:
        if not case.get("wide"):
            return None           # exact python evaluation too slow; the Coq model covers these
        for k in range(p):
            halves = [[float(data[c][t][k]) for t in range(h)] for c in range(m)] + [[float(data[c][t][k]) for t in range(n - h, n)] for c in range(m)]
            tau = np_tau(halves)
            if tau is None or tau == 0:
                continue
            g = C.f32_bits_to_float(out["ess"][k])
            if not math.isfinite(g) or g == 0.0:
                return "param %d (%d chains x %d draws x %d parameters): ESS is %r" % (k, m, n, p, g)
            gt = 2 * m * h / g
            if abs(gt - tau) > (1 + abs(tau)) / 128:
                return "param %d (%d chains x %d draws x %d parameters): reported ESS %.6g, (M*N)/tau by Geyer's rule = %.6g" % (
                    k, m, n, p, g, 2 * m * h / tau)
        return None
    sc = Fraction(2) ** e
    for k in range(p):
        halves = [[Fraction(data[c][t][k]) * sc for t in range(h)] for c in range(m)]
        halves += [[Fraction(data[c][t][k]) * sc for t in range(n - h, n)] for c in range(m)]
        r = py_tau(halves)
        if r is None:
            continue
        tau, _ = r
        if tau == 0:
            continue
        g = C.f32_bits_to_float(out["ess"][k])
        if not math.isfinite(g) or g == 0.0:
            return "param %d: ESS is %r" % (k, g)
        gt = Fraction(2 * m * h) / Fraction(g)
        if abs(gt - tau) > Fraction(1, 256) * (1 + abs(tau)):
            return "param %d (%d chains x %d draws): reported ESS %.6g, (M*N)/tau by Geyer's rule = %.6g" % (
                k, m, n, g, float(Fraction(2 * m * h) / tau))
    return None


def finding_class(case, out, d):
    return None


def nontrivial(case, out):
    n = len(case["data"][0])
    return n // 2 > 100 or case["style"].startswith("ar1") or len(case["data"]) >= 2


def extra(cases, outs, model):
    st = {}
    for c in cases:
        st[c["style"]] = st.get(c["style"], 0) + 1
    return {"wide_arrays_checked_against_f64_reading": sum(1 for c in cases if c.get("wide")), "input_styles": st, "fft_path_cases": sum(1 for c in cases if len(c["data"][0]) // 2 > 100),
            "bf_path_cases": sum(1 for c in cases if len(c["data"][0]) // 2 <= 100)}
