(* Shared list utilities: functional update, iteration. Definitions and their
   basic lemmas (kept here because every model uses them). *)
From Coq Require Export List Arith ZArith Lia Bool.
Export ListNotations.

Fixpoint upd {A} (i : nat) (v : A) (l : list A) : list A :=
  match l, i with
  | [], _ => []
  | _ :: t, O => v :: t
  | h :: t, S i' => h :: upd i' v t
  end.

Fixpoint iter {A} (n : nat) (f : A -> A) (x : A) : A :=
  match n with O => x | S n' => f (iter n' f x) end.

Lemma upd_length {A} i (v : A) l : length (upd i v l) = length l.
Proof. revert i; induction l as [|h t IH]; intros [|i]; simpl; auto. Qed.

Lemma nth_upd_same {A} i (v d : A) l : i < length l -> nth i (upd i v l) d = v.
Proof.
  revert i; induction l as [|h t IH]; intros [|i] H; simpl in *; try lia; auto.
  apply IH; lia.
Qed.

Lemma nth_upd_other {A} i j (v d : A) l : i <> j -> nth j (upd i v l) d = nth j l d.
Proof.
  revert i j; induction l as [|h t IH]; intros [|i] [|j] H; simpl; auto; try congruence.
Qed.

Lemma upd_ge {A} i (v : A) l : length l <= i -> upd i v l = l.
Proof.
  revert i; induction l as [|h t IH]; intros [|i] H; simpl in *; auto; try lia.
  f_equal; apply IH; lia.
Qed.

Lemma iter_S_comm {A} n (f : A -> A) x : iter n f (f x) = f (iter n f x).
Proof. induction n as [|n IH]; simpl; congruence. Qed.

Lemma iter_add {A} n m (f : A -> A) x : iter (n + m) f x = iter n f (iter m f x).
Proof. induction n as [|n IH]; simpl; congruence. Qed.

Lemma list_eq_nth {A} (d : A) (l1 l2 : list A) :
  length l1 = length l2 -> (forall i, i < length l1 -> nth i l1 d = nth i l2 d) -> l1 = l2.
Proof.
  revert l2; induction l1 as [|a l1 IH]; intros [|b l2] Hl Hn; simpl in *; try discriminate; auto.
  f_equal.
  - apply (Hn 0); lia.
  - apply IH; [lia|]. intros i Hi. apply (Hn (S i)); lia.
Qed.

Lemma nth_map_lt {A B} (f : A -> B) l j z d : j < length l -> nth j (map f l) z = f (nth j l d).
Proof.
  intros H. rewrite (nth_indep _ z (f d)) by (rewrite map_length; assumption).
  apply map_nth.
Qed.

Lemma nth_map_seq {A} (f : nat -> A) n j z : j < n -> nth j (map f (seq 0 n)) z = f j.
Proof.
  intros H. rewrite (nth_map_lt f _ j z 0) by (rewrite seq_length; assumption).
  rewrite seq_nth by assumption. reflexivity.
Qed.

Lemma map_seq_shift {A} (f : nat -> A) a n : map f (seq a n) = map (fun k => f (a + k)) (seq 0 n).
Proof.
  revert a; induction n as [|n IH]; intros a; simpl; auto.
  f_equal; [f_equal; lia|].
  rewrite IH, <- seq_shift, map_map. apply map_ext. intros k. f_equal. lia.
Qed.

(* Digest used by the correspondence check to keep Coq's printed output small:
   [length; polynomial hash mod 2^61-1].  The driver computes the same digest of the
   implementation's output; on a mismatch the case is re-evaluated and printed in full. *)
Definition digest (l : list Z) : list Z :=
  [Z.of_N (fold_left (fun n _ => N.succ n) l 0%N);
   fold_left (fun h x => ((h * 1000003 + x + 12345) mod 2305843009213693951)%Z) l 7%Z].
