(* The acceptance term of a NUTS leaf (Model/NUTSEval.v leaf_alpha): never NaN, 0 for a NaN ratio,
   min(1, r) otherwise; the pre-repair rule returned 1 for a NaN ratio. *)
From MiniMcmc Require Import Base.Fp Model.NUTSEval.

Section LeafAlphaProofs.
  Variables prec emax : Z.
  Context (Hprec : FLX.Prec_gt_0 prec) (Hmax : BinarySingleNaN.Prec_lt_emax prec emax).
  Notation fl := (binary_float prec emax).
  Variable one : fl.
  Hypothesis one_not_nan : fnan one = false.

  Lemma flt_nan_l (a b : fl) : fnan a = true -> flt a b = false.
  Proof.
    unfold fnan, flt, fcmp. destruct a; simpl; try discriminate. intros _. reflexivity.
  Qed.

  Lemma leaf_alpha_nan (r : fl) : fnan r = true -> leaf_alpha one r = Binary.B754_zero prec emax false.
  Proof. intros H. unfold leaf_alpha. rewrite H. reflexivity. Qed.

  Lemma leaf_alpha_old_nan (r : fl) : fnan r = true -> leaf_alpha_old one r = one.
  Proof. intros H. unfold leaf_alpha_old. rewrite (flt_nan_l r one H). reflexivity. Qed.

  Lemma leaf_alpha_not_nan (r : fl) : fnan (leaf_alpha one r) = false.
  Proof.
    unfold leaf_alpha. destruct (fnan r) eqn:E; [reflexivity|].
    destruct (flt r one); [exact E | exact one_not_nan].
  Qed.

  (* for a ratio that is a number: the smaller of r and 1 *)
  Lemma leaf_alpha_min (r : fl) : fnan r = false ->
    (flt r one = true -> leaf_alpha one r = r) /\ (flt r one = false -> leaf_alpha one r = one).
  Proof.
    intros H. unfold leaf_alpha. rewrite H. split; intros E; rewrite E; reflexivity.
  Qed.

  Lemma flt_irrefl (a : fl) : flt a a = false.
  Proof.
    unfold flt, fcmp. pose proof (Binary.Bcompare_swap prec emax a a) as S.
    destruct (Binary.Bcompare prec emax a a) as [[ | | ]|]; try reflexivity. discriminate S.
  Qed.

  Lemma flt_asym (a b : fl) : flt a b = true -> flt b a = false.
  Proof.
    unfold flt, fcmp. rewrite (Binary.Bcompare_swap prec emax a b).
    destruct (Binary.Bcompare prec emax a b) as [[ | | ]|]; simpl; intros H; try discriminate H; reflexivity.
  Qed.

  (* never above 1 (1 itself not being below 0) *)
  Hypothesis one_not_below_zero : flt one (Binary.B754_zero prec emax false) = false.
  Lemma leaf_alpha_le_one (r : fl) : flt one (leaf_alpha one r) = false.
  Proof.
    unfold leaf_alpha. destruct (fnan r) eqn:E; [exact one_not_below_zero|].
    destruct (flt r one) eqn:F; [exact (flt_asym r one F) | exact (flt_irrefl one)].
  Qed.
End LeafAlphaProofs.
