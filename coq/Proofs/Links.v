(* Link theorems: the models that the correspondence check evaluates inside Coq over the
   rationals (Q, normalised by Qred) ARE the real-number models the theorems speak about, on
   rational inputs:  Q2R (model_Q args) = model_R (Q2R args).
     (A) Model/Tracker.v      emaQ / chain_pQ / multi_pQ      vs  emaR / chain_pR / multi_pR
     (B) Model/Categorical.v  sumlQ / cat_new_Q / scan_Q      vs  sumlR / cat_new_R / scan_R
     (C) Model/HMC.v          leapfrog, hamiltonian, hmc_row, hmc_step at numQ vs numR, for every
                              pair of targets that commute with Q2R, and the concrete targets
                              (gauss2, rosen2, diag, quartic) do commute. *)
From Coq Require Import Reals Qreals Lra Lia List.
From MiniMcmc Require Import Base.Num Base.Util Model.HMC Model.Tracker Model.Categorical
                             Proofs.Q2R Proofs.FindEps.
Local Close Scope Q_scope.
Local Open Scope R_scope.

Local Notation mQ2R := (map Q2R).

(* ------------------------------------------------------------------ (A) acceptance-rate EMA *)

Lemma q2r_bool01 (b : bool) : Q2R (if b then 1 else 0)%Q = (if b then 1 else 0).
Proof. destruct b; [apply RMicromega.Q2R_1 | apply RMicromega.Q2R_0]. Qed.

Theorem q2r_ema : forall (p : Q) (a : bool), Q2R (emaQ p a) = emaR (Q2R p) a.
Proof.
  intros p a. unfold emaQ, emaR.
  rewrite q2r_red, Q2R_plus, !Q2R_mult, Q2R_minus, q2r_bool01, RMicromega.Q2R_1.
  replace (Q2R (1 # 100)) with (1 / 100) by (unfold Q2R; cbn [Qnum Qden]; lra).
  reflexivity.
Qed.

Lemma q2r_fold_ema_snd {A : Type} (t : list (A * bool)) : forall p : Q,
  Q2R (fold_left (fun p fa => emaQ p (snd fa)) t p)
  = fold_left (fun p fa => emaR p (snd fa)) t (Q2R p).
Proof.
  induction t as [|fa t IH]; intro p; cbn [fold_left]; [reflexivity|].
  rewrite IH, q2r_ema. reflexivity.
Qed.

Lemma q2r_fold_ema (inds : list bool) : forall p : Q,
  Q2R (fold_left emaQ inds p) = fold_left emaR inds (Q2R p).
Proof.
  induction inds as [|a t IH]; intro p; cbn [fold_left]; [reflexivity|].
  rewrite IH, q2r_ema. reflexivity.
Qed.

Theorem q2r_chain_p : forall l : list (bool * bool), Q2R (chain_pQ l) = chain_pR l.
Proof.
  intros [|[f a] t]; unfold chain_pQ, chain_pR.
  - unfold Q2R. cbn [Qnum Qden]. lra.
  - rewrite q2r_fold_ema_snd, q2r_ema, q2r_bool01. reflexivity.
Qed.

Lemma q2r_fold_multi (steps : list (list bool)) : forall p : Q,
  Q2R (fold_left (fun p inds => fold_left emaQ inds p) steps p)
  = fold_left (fun p inds => fold_left emaR inds p) steps (Q2R p).
Proof.
  induction steps as [|s t IH]; intro p; cbn [fold_left]; [reflexivity|].
  rewrite IH, q2r_fold_ema. reflexivity.
Qed.

Theorem q2r_multi_p : forall l : list (list bool), Q2R (multi_pQ l) = multi_pR l.
Proof.
  intro l. unfold multi_pQ, multi_pR. rewrite q2r_fold_multi, RMicromega.Q2R_0. reflexivity.
Qed.

(* ------------------------------------------------------------------ (B) categorical, exact *)

Theorem q2r_suml : forall l : list Q, Q2R (sumlQ l) = sumlR (mQ2R l).
Proof.
  unfold sumlQ, sumlR. induction l as [|x l IH]; cbn [fold_right map].
  - apply RMicromega.Q2R_0.
  - rewrite q2r_red, Q2R_plus, IH. reflexivity.
Qed.

Theorem q2r_cat_new : forall ws : list Q, ~ (sumlQ ws == 0)%Q ->
  mQ2R (cat_new_Q ws) = cat_new_R (mQ2R ws).
Proof.
  intros ws Hs. unfold cat_new_Q, cat_new_R. rewrite !map_map. apply map_ext. intro w.
  rewrite q2r_red, Q2R_div by exact Hs. rewrite q2r_suml. reflexivity.
Qed.

Theorem q2r_scan : forall (ps : list Q) (i : nat) (cum r : Q),
  scan_Q ps i cum r = scan_R (mQ2R ps) i (Q2R cum) (Q2R r).
Proof.
  induction ps as [|p t IH]; intros i cum r; cbn [scan_Q scan_R map]; [reflexivity|].
  cbv zeta.
  assert (Hc : Q2R (Qred (cum + p)) = Q2R cum + Q2R p) by (rewrite q2r_red; apply Q2R_plus).
  rewrite <- Hc.
  destruct (Rlt_dec (Q2R r) (Q2R (Qred (cum + p)))) as [Hlt|Hnlt].
  - destruct (Qle_bool (Qred (cum + p)) r) eqn:E; [|reflexivity].
    exfalso. apply Qle_bool_iff in E. apply Qle_Rle in E. lra.
  - assert (E : Qle_bool (Qred (cum + p)) r = true).
    { apply Qle_bool_iff. apply Rle_Qle. lra. }
    rewrite E. cbn [negb]. apply IH.
Qed.

(* ------------------------------------------------------------------ (C) HMC at numQ vs numR *)

Section HMCLink.
  Variable logpQ : list Q -> Q.
  Variable logpR : list R -> R.
  Variable gradQ : list Q -> list Q.
  Variable gradR : list R -> list R.
  Hypothesis Hg : forall x : list Q, mQ2R (gradQ x) = gradR (mQ2R x).
  Hypothesis Hl : forall x : list Q, Q2R (logpQ x) = logpR (mQ2R x).

  Theorem q2r_leapfrog : forall (eps : Q) (L : nat) (x p : list Q),
    let z := leapfrog numQ gradQ eps L (x, p) in
    leapfrog numR gradR (Q2R eps) L (mQ2R x, mQ2R p) = (mQ2R (fst z), mQ2R (snd z)).
  Proof.
    intros eps L x p. cbv zeta. unfold leapfrog.
    induction L as [|L IH]; [reflexivity|].
    cbn [iter]. rewrite IH.
    destruct (iter L (leap1 numQ gradQ eps) (x, p)) as [x' p']. cbn [fst snd].
    apply (q2r_leap1 gradQ gradR Hg).
  Qed.

  Theorem q2r_hamiltonian : forall z : list Q * list Q,
    Q2R (hamiltonian numQ logpQ z) = hamiltonian numR logpR (mQ2R (fst z), mQ2R (snd z)).
  Proof. exact (Proofs.FindEps.q2r_hamiltonian logpQ logpR Hl). Qed.

  Theorem q2r_hmc_row : forall (eps : Q) (L : nat) (x p : list Q) (lnu : Q),
    mQ2R (hmc_row numQ logpQ gradQ eps L x p lnu)
    = hmc_row numR logpR gradR (Q2R eps) L (mQ2R x) (mQ2R p) (Q2R lnu).
  Proof.
    intros eps L x p lnu. unfold hmc_row. cbv zeta.
    pose proof (q2r_leapfrog eps L x p) as HL. cbv zeta in HL.
    unfold vec in *. normT. rewrite HL. clear HL.
    rewrite q2r_leb, q2r_sub, !q2r_hamiltonian. cbn [fst snd].
    match goal with |- context [nleb numR ?a ?b] => destruct (nleb numR a b) end; reflexivity.
  Qed.

  Theorem q2r_hmc_step : forall (eps : Q) (L : nat) (xs ps : list (list Q)) (lnus : list Q),
    map mQ2R (hmc_step numQ logpQ gradQ eps L xs ps lnus)
    = hmc_step numR logpR gradR (Q2R eps) L (map mQ2R xs) (map mQ2R ps) (mQ2R lnus).
  Proof.
    intros eps L. unfold hmc_step.
    induction xs as [|x xs IH]; intros [|p ps] [|u us]; try reflexivity.
    cbn [combine map fst snd]. rewrite q2r_hmc_row. rewrite IH. reflexivity.
  Qed.
End HMCLink.

(* ---- the concrete targets commute with Q2R ---- *)

Lemma q2r_n0 (v : list Q) (i : nat) : Q2R (n0 numQ v i) = n0 numR (mQ2R v) i.
Proof. unfold n0. rewrite <- q2r_zero. symmetry. apply map_nth. Qed.

Lemma q2r_twoK : Q2R (two numQ) = two numR.
Proof. unfold two. apply q2r_ofZ. Qed.

Lemma q2r_half_two : Q2R (div numQ (one numQ) (two numQ)) = div numR (one numR) (two numR).
Proof. exact q2r_halfc. Qed.

Lemma four_nz : ~ (mul numQ (two numQ) (two numQ) == 0)%Q.
Proof. intro H. vm_compute in H. discriminate H. Qed.

Lemma q2r_quarter : Q2R (div numQ (one numQ) (mul numQ (two numQ) (two numQ)))
                    = div numR (one numR) (mul numR (two numR) (two numR)).
Proof. rewrite q2r_div by exact four_nz. rewrite q2r_one, q2r_mul, q2r_twoK. reflexivity. Qed.

Ltac q2r_push :=
  repeat first [ rewrite q2r_half_two | rewrite q2r_quarter
               | rewrite q2r_add | rewrite q2r_sub | rewrite q2r_mul
               | rewrite q2r_n0 | rewrite q2r_twoK | rewrite q2r_zero | rewrite q2r_one ].

Theorem q2r_gauss2_target : forall (mu P : list Q) (c : Q) (x : list Q),
  Q2R (gauss2_logp numQ mu P c x) = gauss2_logp numR (mQ2R mu) (mQ2R P) (Q2R c) (mQ2R x) /\
  mQ2R (gauss2_grad numQ mu P x) = gauss2_grad numR (mQ2R mu) (mQ2R P) (mQ2R x).
Proof.
  intros mu P c x. split.
  - unfold gauss2_logp. cbv zeta. q2r_push. reflexivity.
  - unfold gauss2_grad. cbv zeta. cbn [map]. q2r_push. reflexivity.
Qed.

Theorem q2r_rosen2_target : forall (a b : Q) (x : list Q),
  Q2R (rosen2_logp numQ a b x) = rosen2_logp numR (Q2R a) (Q2R b) (mQ2R x) /\
  mQ2R (rosen2_grad numQ a b x) = rosen2_grad numR (Q2R a) (Q2R b) (mQ2R x).
Proof.
  intros a b x. split.
  - unfold rosen2_logp. cbv zeta. q2r_push. reflexivity.
  - unfold rosen2_grad. cbv zeta. cbn [map]. q2r_push. reflexivity.
Qed.

Lemma q2r_diag_sum : forall lam x : list Q,
  Q2R (fold_right (fun (lx : Q * Q) (acc : Q) =>
                     add numQ (mul numQ (fst lx) (mul numQ (snd lx) (snd lx))) acc)
                  (zero numQ) (combine lam x))
  = fold_right (fun (lx : R * R) (acc : R) =>
                  add numR (mul numR (fst lx) (mul numR (snd lx) (snd lx))) acc)
               (zero numR) (combine (mQ2R lam) (mQ2R x)).
Proof.
  induction lam as [|l lam IH]; intros [|y x]; try apply q2r_zero.
  cbn [combine map fold_right fst snd]. rewrite q2r_add, !q2r_mul. rewrite IH. reflexivity.
Qed.

Lemma q2r_diag_gradmap : forall lam x : list Q,
  mQ2R (map (fun lx : Q * Q => sub numQ (zero numQ) (mul numQ (fst lx) (snd lx))) (combine lam x))
  = map (fun lx : R * R => sub numR (zero numR) (mul numR (fst lx) (snd lx)))
        (combine (mQ2R lam) (mQ2R x)).
Proof.
  induction lam as [|l lam IH]; intros [|y x]; try reflexivity.
  cbn [combine map fst snd]. rewrite q2r_sub, q2r_mul, q2r_zero. rewrite IH. reflexivity.
Qed.

Theorem q2r_diag_target : forall lam x : list Q,
  Q2R (diag_logp numQ lam x) = diag_logp numR (mQ2R lam) (mQ2R x) /\
  mQ2R (diag_grad numQ lam x) = diag_grad numR (mQ2R lam) (mQ2R x).
Proof.
  intros lam x. split.
  - unfold diag_logp. rewrite q2r_sub, q2r_mul, q2r_half_two, q2r_zero, q2r_diag_sum. reflexivity.
  - unfold diag_grad. apply q2r_diag_gradmap.
Qed.

Lemma q2r_quartic_sum : forall x : list Q,
  Q2R (fold_right (fun (xi acc : Q) => add numQ (mul numQ (mul numQ xi xi) (mul numQ xi xi)) acc)
                  (zero numQ) x)
  = fold_right (fun (xi acc : R) => add numR (mul numR (mul numR xi xi) (mul numR xi xi)) acc)
               (zero numR) (mQ2R x).
Proof.
  induction x as [|y x IH]; [apply q2r_zero|].
  cbn [map fold_right]. rewrite q2r_add, !q2r_mul. rewrite IH. reflexivity.
Qed.

Theorem q2r_quartic_target : forall x : list Q,
  Q2R (quartic_logp numQ x) = quartic_logp numR (mQ2R x) /\
  mQ2R (quartic_grad numQ x) = quartic_grad numR (mQ2R x).
Proof.
  intro x. split.
  - unfold quartic_logp. rewrite q2r_sub, q2r_mul, q2r_quarter, q2r_zero, q2r_quartic_sum.
    reflexivity.
  - unfold quartic_grad. rewrite !map_map. apply map_ext. intro xi.
    rewrite q2r_sub, !q2r_mul, q2r_zero. reflexivity.
Qed.
