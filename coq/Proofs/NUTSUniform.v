(* The candidate of a NUTS sub-tree is uniformly distributed among its slice-admissible leaves.

   No measure theory: the statement is a WEIGHT RECURSION over the exact reals.

   MODELLING STEP (this is the only place where probability enters, and it is an assumption of
   the reading of the theorems, not something proved here): each uniform `u` consumed by a merge
   is uniform on [0,1) and independent of everything consumed before.  The model's merge takes
   the candidate of the second half iff `take2 u n1 n2`, i.e. iff  u < n2 / max(n1 + n2, 1)
   (Model/NUTS.v, comment on `take2`).  For u uniform on [0,1) and a threshold 0 <= p <= 1 the
   event {u < p} has probability p; so the second half's candidate is taken with probability
        p2 n1 n2 := INR n2 / INR (max (n1 + n2) 1)
   and the first half's with 1 - p2 n1 n2.  (`p2_range`: 0 <= p2 <= 1.  `take2R_threshold`: for
   the real-number threshold instance of take2, {u in [0,1) | take2R u n1 n2 = true} is the
   interval [0, p2 n1 n2), whose length is p2 n1 n2.)

   Everything except the candidate is independent of the uniforms
   (Proofs/NUTS.v, `build_tree_uniforms_only_cand`); `shape`/`svisited` below are the uniform-free
   versions of `build_tree`/`visited`, and `shape_spec` links them to the model.

   candw j z v l  = weight of "the candidate of build_tree j z v _ is the point l", defined by
                    the recursion of build_tree with every merge replaced by the convex
                    combination (1 - p2) * first + p2 * second.
   candsel j z v us = the candidate selected by the booleans `take2 u_k n1 n2` for a FIXED list of
                    uniforms; `candsel_build_tree` / `candw_matches_model`: it is the model's
                    `cand t`.

   Main results (model-level statements at the end of the file):
     candw_total    the weights of the visited leaves sum to 1            (NoDup visited)
     candw_uniform  ts t = true, 0 < tn t: admissible visited leaf -> 1 / tn t,
                    non-admissible visited leaf -> 0                      (NoDup visited)
     candw_count    the same without NoDup: weight = multiplicity among the admissible visited
                    leaves / tn t
     candw_matches_model   cand t = candsel

   P needs a decidable equality only to write the point mass of a leaf as a function P -> R. *)
From Coq Require Import Reals Lra Lia.
From MiniMcmc Require Import Base.Util Model.NUTS Proofs.NUTS.
Local Open Scope nat_scope.

(* ---------------------------------------------------------------- the merge probability *)
Definition p2 (n1 n2 : nat) : R := (INR n2 / INR (Nat.max (n1 + n2) 1))%R.

Lemma p2_den_pos n1 n2 : (0 < INR (Nat.max (n1 + n2) 1))%R.
Proof. apply lt_0_INR. lia. Qed.

Lemma p2_range n1 n2 : (0 <= p2 n1 n2 <= 1)%R.
Proof.
  unfold p2. pose proof (p2_den_pos n1 n2) as Hd. split.
  - apply Rmult_le_pos; [apply pos_INR|]. left. apply Rinv_0_lt_compat. exact Hd.
  - apply (Rmult_le_reg_r (INR (Nat.max (n1 + n2) 1))); [exact Hd|].
    unfold Rdiv. rewrite Rmult_assoc, Rinv_l, Rmult_1_r, Rmult_1_l by lra.
    apply le_INR. lia.
Qed.

Lemma p2_n2_zero n1 : p2 n1 0 = 0%R.
Proof. unfold p2. simpl INR at 1. unfold Rdiv. apply Rmult_0_l. Qed.

Lemma p2_n1_zero n2 : 0 < n2 -> p2 0 n2 = 1%R.
Proof.
  intros H. unfold p2. replace (Nat.max (0 + n2) 1) with n2 by lia.
  apply Rinv_r. apply not_0_INR. lia.
Qed.

Lemma p2_pos n1 n2 : 0 < n1 + n2 -> p2 n1 n2 = (INR n2 / (INR n1 + INR n2))%R.
Proof.
  intros H. unfold p2. replace (Nat.max (n1 + n2) 1) with (n1 + n2) by lia.
  rewrite plus_INR. reflexivity.
Qed.

(* the real-number threshold instance of take2: the set of u in [0,1) for which the second
   half is taken is the interval [0, p2), of length p2 *)
Definition take2R (u : R) (n1 n2 : nat) : bool := if Rlt_dec u (p2 n1 n2) then true else false.

Lemma take2R_threshold u n1 n2 :
  (0 <= u < 1)%R -> (take2R u n1 n2 = true <-> (0 <= u < p2 n1 n2)%R).
Proof.
  intros Hu. unfold take2R. destruct (Rlt_dec u (p2 n1 n2)) as [H|H]; split; intros H'.
  - lra.
  - reflexivity.
  - discriminate.
  - lra.
Qed.

Lemma take2R_laws u :
  (0 <= u < 1)%R ->
  (forall n1, take2R u n1 0 = false) /\ (forall n2, take2R u 0 (S n2) = true).
Proof.
  intros Hu. split.
  - intros n1. unfold take2R. rewrite p2_n2_zero. destruct (Rlt_dec u 0); [lra|reflexivity].
  - intros n2. unfold take2R. rewrite p2_n1_zero by lia. destruct (Rlt_dec u 1); [reflexivity|lra].
Qed.

Section NUTSUniform.
  Context {P F A U : Type}.
  Variable leap : bool -> P -> P.
  Variable joint : P -> F.
  Variable noturn : P -> P -> bool.
  Variable flt : F -> F -> bool.
  Variable sub1000 : F -> F.
  Variable alpha1 : P -> A.
  Variable aadd : A -> A -> A.
  Variable take2 : U -> nat -> nat -> bool.
  Variable logu : F.
  (* only used to write point masses as functions P -> R *)
  Variable P_eq_dec : forall a b : P, {a = b} + {a <> b}.

  Notation tree := (@tree P A).
  Notation build_tree := (build_tree leap joint noturn flt sub1000 alpha1 aadd take2 logu).
  Notation visited := (visited leap joint noturn flt sub1000 alpha1 aadd take2 logu).
  Notation admissible := (admissible joint flt logu).

  (* ---------------------------------------------------------------- uniform-free shape *)
  (* a tree without candidate (and without the acceptance statistic) *)
  Record shp := { hm : P; hp : P; hn : nat; hs : bool }.

  Definition sleaf (v : bool) (z : P) : shp :=
    let z' := leap v z in
    {| hm := z'; hp := z';
       hn := if flt logu (joint z') then 1 else 0;
       hs := flt (sub1000 logu) (joint z') |}.

  Definition smerge (v : bool) (t1 t2 : shp) : shp :=
    let zm' := if v then hm t1 else hm t2 in
    let zp' := if v then hp t2 else hp t1 in
    {| hm := zm'; hp := zp'; hn := hn t1 + hn t2;
       hs := hs t1 && hs t2 && noturn zm' zp' |}.

  Definition sfar (v : bool) (t : shp) : P := if v then hp t else hm t.

  Fixpoint shape (j : nat) (z : P) (v : bool) : shp :=
    match j with
    | O => sleaf v z
    | S k =>
        let t1 := shape k z v in
        if hs t1 then smerge v t1 (shape k (sfar v t1) v) else t1
    end.

  Fixpoint svisited (j : nat) (z : P) (v : bool) : list P :=
    match j with
    | O => [leap v z]
    | S k =>
        let t1 := shape k z v in
        svisited k z v ++ (if hs t1 then svisited k (sfar v t1) v else [])
    end.

  (* link to the model: every successful build_tree, whatever the uniforms, has this shape *)
  Lemma shape_spec : forall j z v us (t : tree) us',
    build_tree j z v us = Some (t, us') ->
    zm t = hm (shape j z v) /\ zp t = hp (shape j z v) /\
    tn t = hn (shape j z v) /\ ts t = hs (shape j z v) /\
    visited j z v us = svisited j z v.
  Proof.
    induction j as [|k IH]; intros z v us t us' H.
    - simpl in H. inversion H; subst. simpl. repeat split; reflexivity.
    - simpl in H. simpl visited. simpl shape. simpl svisited.
      destruct (build_tree k z v us) as [[t1 us1]|] eqn:E1; [|discriminate].
      destruct (IH _ _ _ _ _ E1) as (Azm & Azp & Atn & Ats & Avis).
      assert (Hfar : (if v then zp t1 else zm t1) = sfar v (shape k z v))
        by (unfold sfar; destruct v; congruence).
      rewrite <- Ats. rewrite Hfar in *.
      destruct (ts t1) eqn:Es1.
      + destruct (build_tree k (sfar v (shape k z v)) v us1) as [[t2 us2]|] eqn:E2;
          [|discriminate].
        destruct us2 as [|u us3]; [discriminate|]. inversion H; subst t us'.
        destruct (IH _ _ _ _ _ E2) as (Bzm & Bzp & Btn & Bts & Bvis).
        simpl. rewrite Avis, Bvis.
        repeat split; try (destruct v; congruence).
      + inversion H; subst t us'. rewrite Avis. repeat split; congruence.
  Qed.

  Lemma shape_hn : forall j z v,
    hn (shape j z v) = length (filter admissible (svisited j z v)).
  Proof.
    induction j as [|k IH]; intros z v.
    - simpl. unfold Proofs.NUTS.admissible. destruct (flt logu (joint (leap v z))); reflexivity.
    - simpl. destruct (hs (shape k z v)) eqn:Es.
      + simpl. rewrite filter_app, app_length, <- !IH. reflexivity.
      + rewrite app_nil_r. apply IH.
  Qed.

  (* a non-stopped shape has two non-stopped halves *)
  Lemma shape_S_ok : forall k z v,
    hs (shape (S k) z v) = true ->
    hs (shape k z v) = true /\ hs (shape k (sfar v (shape k z v)) v) = true /\
    shape (S k) z v = smerge v (shape k z v) (shape k (sfar v (shape k z v)) v).
  Proof.
    intros k z v H. simpl in *. destruct (hs (shape k z v)) eqn:Es.
    - simpl in H. apply andb_true_iff in H. destruct H as [H _].
      apply andb_true_iff in H. destruct H as [_ H]. auto.
    - congruence.
  Qed.

  (* ---------------------------------------------------------------- the weight recursion *)
  Definition ind (a l : P) : R := if P_eq_dec a l then 1%R else 0%R.

  Fixpoint candw (j : nat) (z : P) (v : bool) (l : P) : R :=
    match j with
    | O => ind (leap v z) l
    | S k =>
        let t1 := shape k z v in
        if hs t1 then
          let far := sfar v t1 in
          let q := p2 (hn t1) (hn (shape k far v)) in
          ((1 - q) * candw k z v l + q * candw k far v l)%R
        else candw k z v l
    end.

  (* sum of a weight function over a list of points *)
  Definition rsum (f : P -> R) (L : list P) : R := fold_right (fun l acc => (f l + acc)%R) 0%R L.

  Lemma rsum_lin a b f g L :
    rsum (fun l => (a * f l + b * g l)%R) L = (a * rsum f L + b * rsum g L)%R.
  Proof. induction L as [|x L IH]; simpl; [ring|]. rewrite IH. ring. Qed.

  Lemma rsum_ind_out a L : ~ In a L -> rsum (ind a) L = 0%R.
  Proof.
    induction L as [|x L IH]; simpl; intros H; [reflexivity|].
    rewrite IH by tauto. unfold ind. destruct (P_eq_dec a x) as [E|E]; [|ring].
    exfalso. apply H. left. symmetry. exact E.
  Qed.

  Lemma rsum_ind_in a L : NoDup L -> In a L -> rsum (ind a) L = 1%R.
  Proof.
    induction L as [|x L IH]; simpl; intros Hnd Hin; [contradiction|].
    inversion Hnd as [|x' L' Hx HL]; subst.
    unfold ind at 1. destruct (P_eq_dec a x) as [E|E].
    - subst x. rewrite rsum_ind_out by exact Hx. ring.
    - destruct Hin as [Hin|Hin]; [congruence|]. rewrite IH by assumption. ring.
  Qed.

  Lemma candw_nonneg : forall j z v l, (0 <= candw j z v l)%R.
  Proof.
    induction j as [|k IH]; intros z v l; simpl.
    - unfold ind. destruct (P_eq_dec (leap v z) l); lra.
    - destruct (hs (shape k z v)); [|apply IH].
      set (q := p2 _ _). pose proof (p2_range (hn (shape k z v))
        (hn (shape k (sfar v (shape k z v)) v))) as Hq. fold q in Hq.
      pose proof (IH z v l). pose proof (IH (sfar v (shape k z v)) v l).
      apply Rplus_le_le_0_compat; apply Rmult_le_pos; lra.
  Qed.

  (* no weight outside the visited leaves *)
  Lemma candw_outside : forall j z v l, ~ In l (svisited j z v) -> candw j z v l = 0%R.
  Proof.
    induction j as [|k IH]; intros z v l Hl; simpl in *.
    - unfold ind. destruct (P_eq_dec (leap v z) l) as [E|E]; [|reflexivity].
      exfalso. apply Hl. left. exact E.
    - destruct (hs (shape k z v)).
      + rewrite !IH; [ring| |]; intros Hin; apply Hl; apply in_or_app; tauto.
      + apply IH. intros Hin. apply Hl. apply in_or_app; tauto.
  Qed.

  (* (A1), general form: over any duplicate-free list covering the visited leaves *)
  Lemma candw_total_gen : forall j z v L,
    NoDup L -> incl (svisited j z v) L -> rsum (candw j z v) L = 1%R.
  Proof.
    induction j as [|k IH]; intros z v L Hnd Hincl; simpl in *.
    - apply rsum_ind_in; [exact Hnd|]. apply Hincl. left. reflexivity.
    - destruct (hs (shape k z v)).
      + rewrite rsum_lin.
        rewrite !IH; try assumption; [ring| |]; intros x Hx; apply Hincl; apply in_or_app; tauto.
      + apply IH; [exact Hnd|]. intros x Hx. apply Hincl. apply in_or_app; tauto.
  Qed.

  (* (A2), general form (no NoDup): in a non-stopped sub-tree with n > 0 admissible leaves the
     weight of a point is its multiplicity among the admissible visited leaves, over n *)
  Lemma candw_count_shape : forall j z v l,
    hs (shape j z v) = true -> 0 < hn (shape j z v) ->
    candw j z v l =
      (INR (count_occ P_eq_dec (filter admissible (svisited j z v)) l) / INR (hn (shape j z v)))%R.
  Proof.
    induction j as [|k IH]; intros z v l Hs Hn.
    - simpl in *. unfold Proofs.NUTS.admissible.
      destruct (flt logu (joint (leap v z))); [|lia].
      simpl. unfold ind. destruct (P_eq_dec (leap v z) l); simpl; lra.
    - destruct (shape_S_ok _ _ _ Hs) as (Hs1 & Hs2 & Heq).
      rewrite Heq in Hn. simpl hn in Hn. rewrite Heq. simpl hn.
      simpl candw. simpl svisited. rewrite Hs1.
      set (far := sfar v (shape k z v)) in *.
      rewrite filter_app, count_occ_app, !plus_INR.
      pose proof (shape_hn k z v) as L1. pose proof (shape_hn k far v) as L2.
      set (n1 := hn (shape k z v)) in *. set (n2 := hn (shape k far v)) in *.
      set (c1 := count_occ P_eq_dec (filter admissible (svisited k z v)) l).
      set (c2 := count_occ P_eq_dec (filter admissible (svisited k far v)) l).
      destruct (Nat.eq_dec n1 0) as [Z1|Z1]; [|destruct (Nat.eq_dec n2 0) as [Z2|Z2]].
      + (* first half has no admissible leaf: p2 = 1, its weights are multiplied by 0 *)
        assert (Hc1 : c1 = 0).
        { unfold c1. destruct (filter admissible (svisited k z v)); [reflexivity|].
          simpl in L1. lia. }
        rewrite Z1, Hc1. rewrite p2_n1_zero by lia.
        rewrite (IH far v l Hs2) by (fold n2; lia). fold c2. fold n2. simpl INR.
        assert (INR n2 <> 0%R) by (apply not_0_INR; lia). field. assumption.
      + (* second half has no admissible leaf: p2 = 0 *)
        assert (Hc2 : c2 = 0).
        { unfold c2. destruct (filter admissible (svisited k far v)); [reflexivity|].
          simpl in L2. lia. }
        rewrite Z2, Hc2. rewrite p2_n2_zero.
        rewrite (IH z v l Hs1) by (fold n1; lia). fold c1. fold n1. simpl INR.
        assert (INR n1 <> 0%R) by (apply not_0_INR; lia). field. assumption.
      + (* both halves: (1 - n2/(n1+n2)) * c1/n1 + n2/(n1+n2) * c2/n2 = (c1+c2)/(n1+n2) *)
        rewrite p2_pos by lia.
        rewrite (IH z v l Hs1) by (fold n1; lia).
        rewrite (IH far v l Hs2) by (fold n2; lia). fold c1 c2 n1 n2.
        assert (H1 : INR n1 <> 0%R) by (apply not_0_INR; lia).
        assert (H2 : INR n2 <> 0%R) by (apply not_0_INR; lia).
        assert (H12 : (INR n1 + INR n2)%R <> 0%R).
        { rewrite <- plus_INR. apply not_0_INR. lia. }
        field. repeat split; assumption.
  Qed.

  (* ---------------------------------------------------------------- (A3) selection by take2 *)
  (* the same recursion with every probabilistic choice replaced by the boolean take2 u n1 n2 on
     a fixed supply of uniforms (consumed in the model's order: first half, second half, merge) *)
  Fixpoint candsel (j : nat) (z : P) (v : bool) (us : list U) : option (P * list U) :=
    match j with
    | O => Some (leap v z, us)
    | S k =>
        match candsel k z v us with
        | None => None
        | Some (c1, us1) =>
            let t1 := shape k z v in
            if hs t1 then
              let far := sfar v t1 in
              match candsel k far v us1 with
              | None => None
              | Some (c2, us2) =>
                  match us2 with
                  | u :: us3 => Some (if take2 u (hn t1) (hn (shape k far v)) then c2 else c1, us3)
                  | [] => None
                  end
              end
            else Some (c1, us1)
        end
    end.

  Lemma candsel_build_tree : forall j z v us,
    candsel j z v us =
      match build_tree j z v us with Some (t, us') => Some (cand t, us') | None => None end.
  Proof.
    induction j as [|k IH]; intros z v us; [reflexivity|].
    simpl. rewrite IH.
    destruct (build_tree k z v us) as [[t1 us1]|] eqn:E1; [|reflexivity].
    destruct (shape_spec _ _ _ _ _ _ E1) as (Azm & Azp & Atn & Ats & _).
    assert (Hfar : (if v then zp t1 else zm t1) = sfar v (shape k z v))
      by (unfold sfar; destruct v; congruence).
    rewrite <- Ats, Hfar.
    destruct (ts t1); [|reflexivity].
    rewrite IH.
    destruct (build_tree k (sfar v (shape k z v)) v us1) as [[t2 us2]|] eqn:E2; [|reflexivity].
    destruct (shape_spec _ _ _ _ _ _ E2) as (_ & _ & Btn & _).
    destruct us2 as [|u us3]; [reflexivity|].
    simpl. rewrite Atn, Btn. reflexivity.
  Qed.

  (* ---------------------------------------------------------------- model-level statements *)
  Section Model.
    Variables (j : nat) (z : P) (v : bool) (us us' : list U) (t : tree).
    Hypothesis Hbuild : build_tree j z v us = Some (t, us').

    (* (A3) *)
    Theorem candw_matches_model : candsel j z v us = Some (cand t, us').
    Proof. rewrite candsel_build_tree, Hbuild. reflexivity. Qed.

    (* the weight function does not depend on the supply of uniforms at all (it has no such
       argument); what does depend on it, the visited list and the counts, is the shape *)
    Lemma model_visited : visited j z v us = svisited j z v.
    Proof. exact (proj2 (proj2 (proj2 (proj2 (shape_spec _ _ _ _ _ _ Hbuild))))). Qed.

    Lemma model_tn : tn t = hn (shape j z v).
    Proof. exact (proj1 (proj2 (proj2 (shape_spec _ _ _ _ _ _ Hbuild)))). Qed.

    Lemma model_ts : ts t = hs (shape j z v).
    Proof. exact (proj1 (proj2 (proj2 (proj2 (shape_spec _ _ _ _ _ _ Hbuild))))). Qed.

    (* no weight outside the visited leaves; weights are non-negative (candw_nonneg) *)
    Theorem candw_support : forall l, ~ In l (visited j z v us) -> candw j z v l = 0%R.
    Proof. intros l Hl. apply candw_outside. rewrite <- model_visited. exact Hl. Qed.

    (* (A1) *)
    Theorem candw_total : NoDup (visited j z v us) -> rsum (candw j z v) (visited j z v us) = 1%R.
    Proof.
      intros Hnd. apply candw_total_gen; [exact Hnd|]. rewrite model_visited. apply incl_refl.
    Qed.

    (* (A2) without NoDup: multiplicity / n *)
    Theorem candw_count : ts t = true -> 0 < tn t -> forall l,
      candw j z v l =
        (INR (count_occ P_eq_dec (filter admissible (visited j z v us)) l) / INR (tn t))%R.
    Proof.
      intros Hs Hn l. rewrite model_visited, model_tn.
      apply candw_count_shape; [rewrite <- model_ts; exact Hs|rewrite <- model_tn; exact Hn].
    Qed.

    (* (A2) *)
    Theorem candw_uniform : NoDup (visited j z v us) -> ts t = true -> 0 < tn t ->
      forall l, In l (visited j z v us) ->
        (admissible l = true -> candw j z v l = (1 / INR (tn t))%R) /\
        (admissible l = false -> candw j z v l = 0%R).
    Proof.
      intros Hnd Hs Hn l Hl. rewrite (candw_count Hs Hn l). split; intros Ha.
      - replace (count_occ P_eq_dec (filter admissible (visited j z v us)) l) with 1;
          [reflexivity|].
        symmetry. apply (proj1 (NoDup_count_occ' P_eq_dec _)).
        + apply NoDup_filter. exact Hnd.
        + apply filter_In. split; assumption.
      - replace (count_occ P_eq_dec (filter admissible (visited j z v us)) l) with 0.
        + simpl. unfold Rdiv. apply Rmult_0_l.
        + symmetry. apply count_occ_not_In. intros Hin. apply filter_In in Hin.
          destruct Hin as [_ Hin]. congruence.
    Qed.

    (* a leaf that is not visited has weight 0 as well, so under the hypotheses of candw_uniform
       candw is exactly the uniform distribution on the admissible visited leaves *)
    Corollary candw_uniform_all : NoDup (visited j z v us) -> ts t = true -> 0 < tn t ->
      forall l, candw j z v l =
        if in_dec P_eq_dec l (filter admissible (visited j z v us)) then (1 / INR (tn t))%R else 0%R.
    Proof.
      intros Hnd Hs Hn l.
      destruct (in_dec P_eq_dec l (filter admissible (visited j z v us))) as [Hin|Hout].
      - apply filter_In in Hin. destruct Hin as [Hin Ha].
        exact (proj1 (candw_uniform Hnd Hs Hn l Hin) Ha).
      - destruct (in_dec P_eq_dec l (visited j z v us)) as [Hin|Hnin].
        + apply (proj2 (candw_uniform Hnd Hs Hn l Hin)).
          destruct (admissible l) eqn:Ha; [|reflexivity].
          exfalso. apply Hout. apply filter_In. split; assumption.
        + apply candw_support. exact Hnin.
    Qed.
  End Model.
End NUTSUniform.

(* ---------------------------------------------------------------- consistency of the two views *)
(* With the real-number threshold instance of take2 and uniforms in [0,1), the leaf selected by
   candsel always has strictly positive weight: the boolean decisions can only follow branches
   to which the weight recursion gives non-zero probability. *)
Section Positive.
  Context {P F A : Type}.
  Variable leap : bool -> P -> P.
  Variable joint : P -> F.
  Variable noturn : P -> P -> bool.
  Variable flt : F -> F -> bool.
  Variable sub1000 : F -> F.
  Variable logu : F.
  Variable P_eq_dec : forall a b : P, {a = b} + {a <> b}.

  Notation shape := (shape leap joint noturn flt sub1000 logu).
  Notation candw := (candw leap joint noturn flt sub1000 logu P_eq_dec).
  Notation candsel := (candsel leap joint noturn flt sub1000 take2R logu).

  Lemma Forall_app_l {X} (Q : X -> Prop) (l1 l2 : list X) : Forall Q (l1 ++ l2) -> Forall Q l1.
  Proof. intros H. apply Forall_app in H. tauto. Qed.

  Lemma candsel_suffix : forall j z v us c us',
    candsel j z v us = Some (c, us') -> exists used, us = used ++ us'.
  Proof.
    induction j as [|k IH]; intros z v us c us' H; simpl in H.
    - inversion H; subst. exists []. reflexivity.
    - destruct (candsel k z v us) as [[c1 us1]|] eqn:E1; [|discriminate].
      destruct (IH _ _ _ _ _ E1) as (w1 & Hw1).
      destruct (hs (shape k z v)).
      + destruct (candsel k (sfar v (shape k z v)) v us1) as [[c2 us2]|] eqn:E2; [|discriminate].
        destruct (IH _ _ _ _ _ E2) as (w2 & Hw2).
        destruct us2 as [|u us3]; [discriminate|]. inversion H; subst.
        exists (w1 ++ w2 ++ [u]). rewrite <- !app_assoc. reflexivity.
      + inversion H; subst. exists w1. reflexivity.
  Qed.

  Theorem candsel_positive_weight : forall j z v us c us',
    Forall (fun u => (0 <= u < 1)%R) us ->
    candsel j z v us = Some (c, us') -> (0 < candw j z v c)%R.
  Proof.
    induction j as [|k IH]; intros z v us c us' Hok H; simpl in H |- *.
    - inversion H; subst. unfold ind. destruct (P_eq_dec (leap v z) (leap v z)); [lra|congruence].
    - destruct (candsel k z v us) as [[c1 us1]|] eqn:E1; [|discriminate].
      destruct (candsel_suffix _ _ _ _ _ _ E1) as (w1 & Hw1).
      assert (Hok1 : Forall (fun u => (0 <= u < 1)%R) us1)
        by (rewrite Hw1 in Hok; apply Forall_app in Hok; tauto).
      destruct (hs (shape k z v)).
      + set (far := sfar v (shape k z v)) in *.
        destruct (candsel k far v us1) as [[c2 us2]|] eqn:E2; [|discriminate].
        destruct (candsel_suffix _ _ _ _ _ _ E2) as (w2 & Hw2).
        destruct us2 as [|u us3]; [discriminate|]. inversion H; subst c us'. clear H.
        assert (Hu : (0 <= u < 1)%R).
        { rewrite Hw2 in Hok1. apply Forall_app in Hok1. destruct Hok1 as [_ Hok1].
          exact (Forall_inv Hok1). }
        set (n1 := hn (shape k z v)). set (n2 := hn (shape k far v)).
        pose proof (p2_range n1 n2) as Hq.
        pose proof (candw_nonneg leap joint noturn flt sub1000 logu P_eq_dec k) as Hnn.
        pose proof (IH _ _ _ _ _ Hok E1) as W1. pose proof (IH _ _ _ _ _ Hok1 E2) as W2.
        unfold take2R. destruct (Rlt_dec u (p2 n1 n2)) as [Hlt|Hge].
        * (* second half taken: p2 > 0 *)
          apply Rplus_le_lt_0_compat.
          -- apply Rmult_le_pos; [lra|apply Hnn].
          -- apply Rmult_lt_0_compat; lra.
        * (* first half taken: 1 - p2 > 0 *)
          apply Rplus_lt_le_0_compat.
          -- apply Rmult_lt_0_compat; lra.
          -- apply Rmult_le_pos; [lra|apply Hnn].
      + inversion H; subst. exact (IH _ _ _ _ _ Hok E1).
  Qed.
End Positive.
