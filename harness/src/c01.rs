//! C01 (and the MH part of C14): table-driven Target/Proposal, injected acceptance variate.
use crate::c05::IntLike;
use crate::util::*;
use mini_mcmc::core::MarkovChain;
use mini_mcmc::distributions::{Proposal, Target};
use mini_mcmc::metropolis_hastings::MHMarkovChain;
use num_traits::Float;
use rand::Rng;
use serde_json::{json, Value};

pub trait Fl: Float + Send + 'static {
    fn from_bits64(b: u64) -> Self;
    fn bits64(self) -> u64;
    fn draw(rng: &mut rand::rngs::SmallRng) -> Self;
}
impl Fl for f32 {
    fn from_bits64(b: u64) -> Self {
        f32::from_bits(b as u32)
    }
    fn bits64(self) -> u64 {
        self.to_bits() as u64
    }
    fn draw(rng: &mut rand::rngs::SmallRng) -> Self {
        rng.random::<f32>()
    }
}
impl Fl for f64 {
    fn from_bits64(b: u64) -> Self {
        f64::from_bits(b)
    }
    fn bits64(self) -> u64 {
        self.to_bits()
    }
    fn draw(rng: &mut rand::rngs::SmallRng) -> Self {
        rng.random::<f64>()
    }
}

#[derive(Clone)]
pub struct TableTarget<F> {
    pub lp: Vec<F>,
}
impl<S: IntLike, F: Fl> Target<S, F> for TableTarget<F> {
    fn unnorm_logp(&self, position: &[S]) -> F {
        self.lp[position[0].to_i() as usize]
    }
}
#[derive(Clone)]
pub struct TableProposal<F> {
    pub lq: Vec<Vec<F>>, // lq[from][to] = log q(to | from)
    pub next: usize,
}
impl<S: IntLike, F: Fl> Proposal<S, F> for TableProposal<F> {
    fn sample(&mut self, _current: &[S]) -> Vec<S> {
        vec![S::from_i(self.next as i64)]
    }
    fn logp(&self, from: &[S], to: &[S]) -> F {
        self.lq[from[0].to_i() as usize][to[0].to_i() as usize]
    }
    fn set_seed(self, _seed: u64) -> Self {
        self
    }
}

fn step<S, F>(c: &Value) -> Value
where
    S: IntLike + PartialEq + num_traits::Zero + std::fmt::Debug,
    F: Fl,
    rand_distr::StandardUniform: rand_distr::Distribution<F>,
{
    let lp: Vec<F> = u64s(&c["lp"]).into_iter().map(F::from_bits64).collect();
    let lq: Vec<Vec<F>> = arr(c, "lq").iter().map(|r| u64s(r).into_iter().map(F::from_bits64).collect()).collect();
    let (x, y) = (us(c, "x"), us(c, "y"));
    let v = u64f(c, "v");
    let target = TableTarget { lp };
    let proposal = TableProposal { lq, next: y };
    let mut chain = MHMarkovChain::<S, F, _, _>::new(target, proposal, vec![S::from_i(x as i64)]);
    chain.rng = rng_first_output(v);
    let u = F::draw(&mut rng_first_output(v));
    let lnu = u.ln();
    let before = chain.current_state.clone();
    let after = chain.step().clone();
    json!({"new": after[0].to_i(), "len": after.len(), "u": u.bits64(), "lnu": lnu.bits64(),
           "kept_equal": after == before})
}

/// several steps on ONE chain object; between steps the public fields may be reassigned from outside
/// (current_state, target, proposal.next): each step must still obey the rule for the state/target it starts from
fn seq<S, F>(c: &Value) -> Value
where
    S: IntLike + PartialEq + num_traits::Zero + std::fmt::Debug,
    F: Fl,
    rand_distr::StandardUniform: rand_distr::Distribution<F>,
{
    let tables: Vec<Vec<F>> = arr(c, "lps").iter().map(|t| u64s(t).into_iter().map(F::from_bits64).collect()).collect();
    let lq: Vec<Vec<F>> = arr(c, "lq").iter().map(|r| u64s(r).into_iter().map(F::from_bits64).collect()).collect();
    let x0 = us(c, "x");
    let mut chain = MHMarkovChain::<S, F, _, _>::new(TableTarget { lp: tables[0].clone() }, TableProposal { lq, next: 0 }, vec![S::from_i(x0 as i64)]);
    let mut out = vec![];
    for st in arr(c, "steps") {
        if let Some(x) = st["set_x"].as_u64() {
            chain.current_state = vec![S::from_i(x as i64)];
        }
        if let Some(t) = st["set_target"].as_u64() {
            chain.target = TableTarget { lp: tables[t as usize].clone() };
        }
        chain.proposal.next = us(st, "y");
        let v = u64f(st, "v");
        chain.rng = rng_first_output(v);
        let u = F::draw(&mut rng_first_output(v));
        let before = chain.current_state[0].to_i();
        let after = chain.step()[0].to_i();
        out.push(json!({"before": before, "new": after, "u": u.bits64(), "lnu": u.ln().bits64()}));
    }
    json!({"steps": out})
}

fn lnu<F: Fl>(c: &Value) -> Value {
    let v = u64f(c, "v");
    let u = F::draw(&mut rng_first_output(v));
    json!({"u": u.bits64(), "lnu": u.ln().bits64()})
}

pub fn run(c: &Value) -> Value {
    match (strf(c, "op"), strf(c, "s"), strf(c, "f")) {
        ("lnu", _, "f32") => lnu::<f32>(c),
        ("lnu", _, "f64") => lnu::<f64>(c),
        ("step", "usize", "f32") => step::<usize, f32>(c),
        ("step", "usize", "f64") => step::<usize, f64>(c),
        ("step", "i32", "f32") => step::<i32, f32>(c),
        ("step", "i32", "f64") => step::<i32, f64>(c),
        ("step", "f32", "f32") => step::<f32, f32>(c),
        ("step", "f64", "f64") => step::<f64, f64>(c),
        ("step", "f32", "f64") => step::<f32, f64>(c),
        ("step", "f64", "f32") => step::<f64, f32>(c),
        ("seq", "usize", "f32") => seq::<usize, f32>(c),
        ("seq", "usize", "f64") => seq::<usize, f64>(c),
        ("seq", "f64", "f64") => seq::<f64, f64>(c),
        ("seq", "i32", "f32") => seq::<i32, f32>(c),
        (op, s, f) => panic!("unknown op {op}/{s}/{f}"),
    }
}
