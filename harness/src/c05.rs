//! C05: Gibbs step refreshes every coordinate once, conditioning on the freshest state.
use crate::util::*;
use mini_mcmc::core::{ChainRunner, MarkovChain};
use mini_mcmc::distributions::Conditional;
use mini_mcmc::gibbs::{GibbsMarkovChain, GibbsSampler};
use serde_json::{json, Value};

pub trait IntLike: Copy + Send + Sync + 'static + ndarray::LinalgScalar {
    fn to_i(self) -> i64;
    fn from_i(x: i64) -> Self;
}
macro_rules! intlike {
    ($t:ty) => {
        impl IntLike for $t {
            fn to_i(self) -> i64 {
                self as i64
            }
            fn from_i(x: i64) -> Self {
                x as $t
            }
        }
    };
}
intlike!(i64);
intlike!(usize);
intlike!(f32);
intlike!(f64);
intlike!(i32);

/// Order- and snapshot-sensitive recording conditional (model: Model/Gibbs.v rec_cond).
#[derive(Clone)]
pub struct RecCond<S> {
    pub salt: i64,
    pub cnt: i64,
    pub log: Vec<(usize, Vec<S>)>,
}
impl<S: IntLike> Conditional<S> for RecCond<S> {
    fn sample(&mut self, index: usize, given: &[S]) -> S {
        self.log.push((index, given.to_vec()));
        let mut h = (self.salt + 7 * index as i64 + 13 * self.cnt).rem_euclid(65521);
        for x in given {
            h = (h * 31 + x.to_i()).rem_euclid(65521);
        }
        self.cnt += 1;
        S::from_i(h)
    }
}

fn log_json<S: IntLike>(log: &[(usize, Vec<S>)]) -> Vec<Vec<i64>> {
    log.iter()
        .map(|(i, g)| {
            let mut v = vec![*i as i64];
            v.extend(g.iter().map(|x| x.to_i()));
            v
        })
        .collect()
}

fn chain<S: IntLike>(c: &Value) -> Value {
    let init: Vec<S> = i64s(&c["init"]).into_iter().map(S::from_i).collect();
    let k = us(c, "k");
    let target = RecCond::<S> { salt: i64f(c, "salt"), cnt: 0, log: vec![] };
    let mut ch = GibbsMarkovChain::new(target, &init);
    let mut states = vec![];
    // optionally the public state is replaced (possibly by a vector of another length) after `after` steps
    let replace_after = c["replace"]["after"].as_u64().map(|x| x as usize);
    for t in 0..k {
        if replace_after == Some(t) {
            ch.current_state = i64s(&c["replace"]["state"]).into_iter().map(S::from_i).collect();
        }
        let s = ch.step();
        states.push(s.iter().map(|x| x.to_i()).collect::<Vec<i64>>());
    }
    json!({"calls": log_json(&ch.target.log), "states": states,
           "final": ch.current_state().iter().map(|x| x.to_i()).collect::<Vec<i64>>()})
}

fn sampler<S: IntLike + PartialEq + num_traits::ToPrimitive>(c: &Value) -> Value {
    let inits: Vec<Vec<S>> = arr(c, "inits")
        .iter()
        .map(|v| i64s(v).into_iter().map(S::from_i).collect())
        .collect();
    let (n, d) = (us(c, "n"), us(c, "d"));
    let target = RecCond::<S> { salt: i64f(c, "salt"), cnt: 0, log: vec![] };
    let mut s = GibbsSampler::new(target, inits);
    let out = s.run(n, d).expect("run");
    let mut chains = vec![];
    for (ci, ch) in s.chains.iter().enumerate() {
        let rows: Vec<Vec<i64>> = (0..n)
            .map(|k| (0..out.shape()[2]).map(|j| out[[ci, k, j]].to_i()).collect())
            .collect();
        chains.push(json!({"calls": log_json(&ch.target.log), "rows": rows,
            "final": ch.current_state().iter().map(|x| x.to_i()).collect::<Vec<i64>>()}));
    }
    json!({"chains": chains, "shape": out.shape()})
}

pub fn run(c: &Value) -> Value {
    match (strf(c, "op"), strf(c, "ty")) {
        ("chain", "i64") => chain::<i64>(c),
        ("chain", "usize") => chain::<usize>(c),
        ("chain", "f32") => chain::<f32>(c),
        ("chain", "f64") => chain::<f64>(c),
        ("chain", "i32") => chain::<i32>(c),
        ("sampler", "i64") => sampler::<i64>(c),
        ("sampler", "usize") => sampler::<usize>(c),
        ("sampler", "f32") => sampler::<f32>(c),
        ("sampler", "f64") => sampler::<f64>(c),
        (op, ty) => panic!("unknown op {op}/{ty}"),
    }
}
