(* C09 — run(): shape, chain order, burn-in discard and continuation are exact.
   Only statements, `exact`, and Print Assumptions.  Models: Model/Run.v. *)
From MiniMcmc Require Import Base.Util Model.Run Proofs.Run.

Section C09.
  Context {St Row : Type}.
  Variable step : St -> St.       (* any transition: MH, Gibbs, user-defined MarkovChain *)
  Variable obs : St -> Row.
  Variable zero : Row.

  (* run_chain (core.rs) returns n rows; row k is the state after exactly d+k+1
     transitions; exactly n+d transitions are performed. *)
  Theorem C09_run_chain : forall s n d,
    run_chain_impl step obs zero s n d
    = (iter (n + d) step s, map (fun k => obs (iter (d + k + 1) step s)) (seq 0 n)).
  Proof. exact (run_chain_impl_spec step obs zero). Qed.

  (* NUTSChain::run: row k is the state after d+k transitions, n+d-1 transitions in all. *)
  Theorem C09_nuts_run : forall s n d, 1 <= n ->
    nuts_run_impl step obs zero s n d
    = (iter (n + d - 1) step s, map (fun k => obs (iter (d + k) step s)) (seq 0 n)).
  Proof. exact (nuts_run_impl_spec step obs zero). Qed.

  (* ChainRunner::run: row c of the output is the run of the c-th chain. *)
  Theorem C09_chain_order : forall chains n d,
    runner_impl step obs zero chains n d
    = (map (iter (n + d) step) chains,
       map (fun c => map (fun k => obs (iter (d + k + 1) step c)) (seq 0 n)) chains).
  Proof. exact (runner_impl_spec step obs zero). Qed.

  (* The sampler is left at the last returned state. *)
  Theorem C09_final_state_is_last_row : forall s n d, 1 <= n ->
    let r := run_chain_impl step obs zero s n d in
    last (snd r) zero = obs (fst r).
  Proof.
    intros s n d Hn. rewrite (run_chain_impl_spec step obs zero).
    exact (run_chain_final_is_last_row step obs zero s n d Hn).
  Qed.

  (* Two consecutive runs = one longer run (MH, Gibbs, any MarkovChain). *)
  Theorem C09_continuation : forall s n1 n2 d,
    let r1 := run_chain_impl step obs zero s n1 d in
    let r2 := run_chain_impl step obs zero (fst r1) n2 0 in
    run_chain_impl step obs zero s (n1 + n2) d = (fst r2, snd r1 ++ snd r2).
  Proof.
    intros s n1 n2 d. cbv zeta. rewrite !(run_chain_impl_spec step obs zero).
    exact (run_chain_continuation step obs s n1 n2 d).
  Qed.

  (* NUTS: a following run starts from (and repeats as its first row) the last returned state. *)
  Theorem C09_nuts_continuation : forall s n1 n2 d, 1 <= n1 -> 1 <= n2 ->
    let r1 := nuts_run_impl step obs zero s n1 d in
    let r2 := nuts_run_impl step obs zero (fst r1) n2 0 in
    nth 0 (snd r2) zero = last (snd r1) zero.
  Proof.
    intros s n1 n2 d H1 H2. cbv zeta. rewrite !(nuts_run_impl_spec step obs zero) by assumption.
    exact (nuts_run_continuation_first_row step obs zero s n1 n2 d H1 H2).
  Qed.
End C09.

Section C09_hmc.
  Context {St Row : Type}.
  Variable step : St -> St.            (* one HMC update of the whole batch *)
  Variable obs : St -> list Row.       (* the batch's rows, one per chain *)
  Variable zero : Row.
  Variable n_chains : nat.

  (* HMC::run: entry [c][k] is chain c's row after d+k+1 batch updates; n+d updates in all. *)
  Theorem C09_hmc_run : forall s n d,
    hmc_run_impl step obs zero n_chains s n d
    = (iter (n + d) step s,
       map (fun c => map (fun k => nth c (obs (iter (d + k + 1) step s)) zero) (seq 0 n)) (seq 0 n_chains)).
  Proof. exact (hmc_run_impl_spec step obs zero n_chains). Qed.

  Theorem C09_hmc_continuation : forall s n1 n2 d,
    let r1 := hmc_run_impl step obs zero n_chains s n1 d in
    let r2 := hmc_run_impl step obs zero n_chains (fst r1) n2 0 in
    hmc_run_impl step obs zero n_chains s (n1 + n2) d
    = (fst r2, map (fun c => nth c (snd r1) [] ++ nth c (snd r2) []) (seq 0 n_chains)).
  Proof.
    intros s n1 n2 d. cbv zeta. rewrite !(hmc_run_impl_spec step obs zero n_chains).
    exact (hmc_run_continuation step obs zero n_chains s n1 n2 d).
  Qed.
End C09_hmc.

(* Non-vacuity: a counting chain (state = number of transitions so far). *)
Example C09_counting_chain :
  run_chain_impl S (fun s => s) 0 10 3 2 = (15, [13; 14; 15]) /\
  nuts_run_impl S (fun s => s) 0 10 3 2 = (14, [12; 13; 14]).
Proof. split; reflexivity. Qed.

Print Assumptions C09_run_chain.
Print Assumptions C09_nuts_run.
Print Assumptions C09_chain_order.
Print Assumptions C09_final_state_is_last_row.
Print Assumptions C09_continuation.
Print Assumptions C09_nuts_continuation.
Print Assumptions C09_hmc_run.
Print Assumptions C09_hmc_continuation.
