(* C15 — The built-in targets return the log-density their documentation states (2-D Gaussian
   normalised and unnormalised forms differing by a constant, batched and single-point
   evaluations agreeing, Rosenbrock forms), and the gradient handed to HMC/NUTS is the true
   gradient of that log-density.  The isotropic Gaussian proposal's logp(from, to) is the
   normalised log-density of the very distribution its sample draws from (mean `from`, standard
   deviation std per coordinate), symmetric in its arguments.
   Model: Model/Density.v, generic over a number record and instantiated here at dnumR (real
   arithmetic: tadd = Rplus, tsub = Rminus, tmul = Rmult, tdiv = Rdiv, tofZ = IZR, tln = ln,
   dpi = PI, dabs = Rabs).  Covariance [[a,b],[c,d]], mean (m0,m1), point (x0,x1).  The batched
   and the single-point evaluations of the library are the same formula (dg_logp / g2_logp) applied
   row by row, so one statement covers both.  Derivatives are Coquelicot's is_derive. *)
From MiniMcmc Require Import Model.Density.
From MiniMcmc Require Import Proofs.Density.
From Coq Require Import Reals Lra.
From Coquelicot Require Import Coquelicot.
Open Scope R_scope.

(* ---- (1) normalised - unnormalised 2-D Gaussian = a constant not depending on the point ---- *)
Theorem C15_gauss_norm_vs_unnorm : forall m0 m1 a b c d x0 x1 : R,
  g2_logp dnumR m0 m1 a b c d x0 x1 - g2_unnorm dnumR m0 m1 a b c d x0 x1
  = - ln (2 * PI) - / 2 * ln (Rabs (a * d - b * c)).
Proof. exact g2_norm_vs_unnorm. Qed.

(* ---- (2) DiffableGaussian2D (inverse covariance and normalising constant as `new` computes
   them) is the normalised 2-D Gaussian log-density ---- *)
Theorem C15_diffable_is_gauss : forall m0 m1 a b c d x0 x1 : R,
  0 < a * d - b * c ->
  dg_logp dnumR m0 m1 a b c d x0 x1 = g2_logp dnumR m0 m1 a b c d x0 x1.
Proof. exact dg_is_g2. Qed.

(* ---- (3) for a symmetric covariance with positive determinant this is the textbook
   bivariate normal log-density  -ln(2 pi) - 1/2 ln det - 1/2 (x-m)^T Sigma^-1 (x-m) ---- *)
Theorem C15_gauss_is_gaussian_density : forall m0 m1 a b d x0 x1 : R,
  0 < a * d - b * b ->
  g2_logp dnumR m0 m1 a b b d x0 x1
  = - ln (2 * PI) - / 2 * ln (a * d - b * b)
    - / 2 * ((d * (x0 - m0) ^ 2 - 2 * b * (x0 - m0) * (x1 - m1) + a * (x1 - m1) ^ 2)
             / (a * d - b * b)).
Proof. exact g2_textbook. Qed.

(* ---- (4) the gradients handed to HMC/NUTS are the true partial derivatives ---- *)
Theorem C15_gradients :
  (forall m0 m1 a b c d x0 x1 : R, a * d - b * c <> 0 ->
     is_derive (fun t => dg_logp dnumR m0 m1 a b c d t x1) x0
               (fst (dg_grad dnumR m0 m1 a b c d x0 x1)) /\
     is_derive (fun t => dg_logp dnumR m0 m1 a b c d x0 t) x1
               (snd (dg_grad dnumR m0 m1 a b c d x0 x1))) /\
  (forall a b x y : R,
     is_derive (fun t => rb2_logp dnumR a b t y) x (fst (rb2_grad dnumR a b x y)) /\
     is_derive (fun t => rb2_logp dnumR a b x t) y (snd (rb2_grad dnumR a b x y))).
Proof.
  split; [intros; split; [apply dg_grad_fst | apply dg_grad_snd]; assumption
         | intros; split; [apply rb2_grad_fst | apply rb2_grad_snd]].
Qed.

(* Rosenbrock forms: 2-D  -((a-x)^2 + b (y-x^2)^2);  the N-D form at n = 2 is the 2-D form with
   a = 1, b = 100;  at n = 3 the documented sum over consecutive pairs *)
Theorem C15_rosenbrock_forms :
  (forall a b x y : R, rb2_logp dnumR a b x y = - ((a - x) ^ 2 + b * (y - x ^ 2) ^ 2)) /\
  (forall x y : R, rbn_logp dnumR [x; y] = rb2_logp dnumR 1 100 x y) /\
  (forall x y z : R,
     rbn_logp dnumR [x; y; z]
     = - ((100 * (y - x ^ 2) ^ 2 + (1 - x) ^ 2) + (100 * (z - y ^ 2) ^ 2 + (1 - y) ^ 2))).
Proof. exact (conj rb2_form (conj rbn_form2 rbn_form3)). Qed.

(* partial derivatives of the 3-dimensional N-D Rosenbrock log-density (the model has no
   hand-written N-D gradient; this pins the derivative of the modelled density itself) *)
Theorem C15_rosenbrock_nd3_gradient : forall x y z : R,
  is_derive (fun t => rbn_logp dnumR [t; y; z]) x (400 * x * (y - x * x) + 2 * (1 - x)) /\
  is_derive (fun t => rbn_logp dnumR [x; t; z]) y
            (- 200 * (y - x * x) + 400 * y * (z - y * y) + 2 * (1 - y)) /\
  is_derive (fun t => rbn_logp dnumR [x; y; t]) z (- 200 * (z - y * y)).
Proof. exact rbn3_grad. Qed.

(* ---- (5) IsotropicGaussian::logp(from, to) = sum over coordinates of the univariate normal
   log-density N(to_i; from_i, sigma^2).  No hypothesis on sigma is needed (for sigma = 0 both
   sides contain the same quotients x / 0); normal_logpdf is the textbook density for sigma <> 0. *)
Theorem C15_iso_logp : forall (sigma : R) (from to : list R),
  length from = length to ->
  iso_logp dnumR sigma from to = iso_logp_spec dnumR sigma from to.
Proof. exact iso_logp_is_spec. Qed.

Theorem C15_normal_logpdf : forall mu sigma x : R, sigma <> 0 ->
  normal_logpdf dnumR mu sigma x
  = - (x - mu) ^ 2 / (2 * sigma ^ 2) - / 2 * ln (2 * PI * sigma ^ 2).
Proof. exact normal_logpdf_form. Qed.

Theorem C15_iso_symmetric : forall (sigma : R) (from to : list R),
  length from = length to ->
  iso_logp dnumR sigma from to = iso_logp dnumR sigma to from.
Proof. exact iso_logp_sym. Qed.

(* the Target impl is  -1/2 sum x_i^2 / sigma^2, and the proposal density centred at the origin
   is that unnormalised density plus the constant  -d/2 ln(2 pi sigma^2) *)
Theorem C15_iso_unnorm :
  (forall (sigma : R) (xs : list R),
     iso_unnorm dnumR sigma xs
     = - / 2 * (fold_left (fun acc x => acc + x * x) xs 0) / (sigma * sigma)) /\
  (forall (sigma : R) (xs : list R), sigma <> 0 ->
     iso_logp dnumR sigma (map (fun _ => 0) xs) xs - iso_unnorm dnumR sigma xs
     = - IZR (Z.of_nat (length xs)) * / 2 * ln (2 * PI * (sigma * sigma))).
Proof. exact (conj iso_unnorm_form iso_logp_vs_unnorm). Qed.

(* ---- (6) the constant before the repair, ln(pi sigma^4) instead of ln(2 pi sigma^2), violates
   (5): d = 1, sigma = 2, from = to = [0]:  -1/2 ln(16 pi)  vs  -1/2 ln(8 pi) ---- *)
Theorem C15_iso_old_constant_refuted : exists (sigma : R) (from to : list R),
  sigma <> 0 /\ length from = length to /\
  iso_logp_old dnumR sigma from to <> iso_logp_spec dnumR sigma from to.
Proof. exact iso_old_refuted_ex. Qed.

(* ---- non-vacuity ---- *)
(* the covariance a = 4, b = c = 2, d = 3 meets the hypotheses of (2), (3), (4) *)
Example C15_cov_hypotheses_satisfiable :
  0 < 4 * 3 - 2 * 2 /\ 4 * 3 - 2 * 2 <> 0 /\ 4 * 3 - 2 * 2 = 8.
Proof. lra. Qed.

(* identity covariance, mean 0, point (1,1): unnormalised log-density -1, normalised -ln(2 pi) - 1 *)
Example C15_unnorm_value :
  g2_unnorm dnumR 0 0 1 0 0 1 1 1 = -1 /\
  g2_logp dnumR 0 0 1 0 0 1 1 1 = - ln (2 * PI) - 1.
Proof.
  split; [|rewrite <- (dg_is_g2 0 0 1 0 0 1 1 1) by lra];
    unfold g2_unnorm, g2_quad, dg_logp, dg_inv, dg_norm_const, Density.neg, Density.half,
      Density.c1, Density.c2, Density.z0; cbn;
    [|replace (1 * 1 - 0 * 0) with 1 by lra; rewrite ln_1]; lra.
Qed.

(* the repaired constant on the witness of (6): logp(2, [0], [0]) = -1/2 ln(8 pi) *)
Example C15_iso_value :
  iso_logp dnumR 2 (0 :: nil) (0 :: nil) = - / 2 * ln (2 * PI * (2 * 2)).
Proof.
  unfold iso_logp, iso_exps, Density.neg, Density.sq, Density.half, Density.c1, Density.c2,
    Density.z0. cbn. lra.
Qed.

(* ---- soundness of the correspondence check's Coq-side evaluation: the 80-bit interval instance of
   every density function encloses the real-number instance whenever its arguments do ---- *)
From MiniMcmc Require Import Proofs.DensitySound.

Theorem C15_interval_sound_gauss : forall M0 M1 A B C D X0 X1 m0 m1 a b c d x0 x1,
  enc M0 m0 -> enc M1 m1 -> enc A a -> enc B b -> enc C c -> enc D d -> enc X0 x0 -> enc X1 x1 ->
  enc (g2_logp dnumI M0 M1 A B C D X0 X1) (g2_logp dnumR m0 m1 a b c d x0 x1) /\
  enc (g2_unnorm dnumI M0 M1 A B C D X0 X1) (g2_unnorm dnumR m0 m1 a b c d x0 x1) /\
  enc (dg_logp dnumI M0 M1 A B C D X0 X1) (dg_logp dnumR m0 m1 a b c d x0 x1) /\
  (enc (fst (dg_grad dnumI M0 M1 A B C D X0 X1)) (fst (dg_grad dnumR m0 m1 a b c d x0 x1)) /\
   enc (snd (dg_grad dnumI M0 M1 A B C D X0 X1)) (snd (dg_grad dnumR m0 m1 a b c d x0 x1))).
Proof.
  intros M0 M1 A B C D X0 X1 m0 m1 a b c d x0 x1 H0 H1 Ha Hb Hc Hd Hx0 Hx1.
  split; [apply g2_logp_sound; assumption|].
  split; [apply g2_unnorm_sound; assumption|].
  split; [apply dg_logp_sound; assumption|].
  apply dg_grad_sound; assumption.
Qed.

Theorem C15_interval_sound_rosenbrock : forall A B X Y a b x y,
  enc A a -> enc B b -> enc X x -> enc Y y ->
  enc (rb2_logp dnumI A B X Y) (rb2_logp dnumR a b x y) /\
  (enc (fst (rb2_grad dnumI A B X Y)) (fst (rb2_grad dnumR a b x y)) /\
   enc (snd (rb2_grad dnumI A B X Y)) (snd (rb2_grad dnumR a b x y))).
Proof.
  intros A B X Y a b x y Ha Hb Hx Hy.
  split; [apply rb2_logp_sound; assumption|].
  apply rb2_grad_sound; assumption.
Qed.

Theorem C15_interval_sound_rosenbrock_nd : forall XS xs,
  Forall2 enc XS xs -> enc (rbn_logp dnumI XS) (rbn_logp dnumR xs).
Proof. exact rbn_logp_sound. Qed.

Theorem C15_interval_sound_iso : forall S s FROM TO from to,
  enc S s -> Forall2 enc FROM from -> Forall2 enc TO to ->
  enc (iso_logp dnumI S FROM TO) (iso_logp dnumR s from to) /\
  enc (iso_unnorm dnumI S TO) (iso_unnorm dnumR s to).
Proof.
  intros S s FROM TO from to Hs Hf Ht.
  split; [apply iso_logp_sound; assumption|].
  apply iso_unnorm_sound; assumption.
Qed.

(* ---- (7) IsotropicGaussian::sample, the random-walk proposal whose density (5) describes.
   Model: Model/Proposal.v.  IEEE arithmetic through Flocq, generic in the format (prec, emax);
   per coordinate  iso_coord std z cur = (0 + std * z) + cur  with round-to-nearest-even after
   every operation;  iso_sample = one call,  iso_samples k = k consecutive calls from the same
   `current` on ONE stream of standard-normal draws zs (a call on a d-vector consumes d + 1 draws and
   uses the first d);  iso_sample_R = the same expression in exact real arithmetic. ---- *)
From MiniMcmc Require Import Model.Proposal Proofs.Proposal.
From Flocq Require Import Core Binary.

(* one call: as many values as the shorter of (draws, current); value i is a function of draw i and
   current_i only *)
Theorem C15_sample_coordinatewise :
  forall (prec emax : Z) (Hprec : FLX.Prec_gt_0 prec)
         (Hmax : BinarySingleNaN.Prec_lt_emax prec emax)
         (nanf : binary_float prec emax -> binary_float prec emax ->
                 {x : binary_float prec emax | Binary.is_nan prec emax x = true})
         (std : binary_float prec emax) (zs cur : list (binary_float prec emax)),
  length (iso_sample nanf std zs cur) = Nat.min (length zs) (length cur) /\
  (forall (dflt dz dc : binary_float prec emax) (i : nat),
     (i < length zs)%nat -> (i < length cur)%nat ->
     nth i (iso_sample nanf std zs cur) dflt = iso_coord nanf std (nth i zs dz) (nth i cur dc)).
Proof.
  intros. split; [apply iso_sample_length | intros; apply iso_sample_nth; assumption].
Qed.

(* k calls, d = length cur: k results of d values each; value (j, i) is computed from draw number
   j*(d+1) + i; different (j, i) use different draws (no draw is used twice), and the draws
   j*(d+1) + d are used by no value *)
Theorem C15_sample_draw_discipline :
  forall (prec emax : Z) (Hprec : FLX.Prec_gt_0 prec)
         (Hmax : BinarySingleNaN.Prec_lt_emax prec emax)
         (nanf : binary_float prec emax -> binary_float prec emax ->
                 {x : binary_float prec emax | Binary.is_nan prec emax x = true})
         (k : nat) (std : binary_float prec emax) (zs cur : list (binary_float prec emax)),
  length (iso_samples nanf k std zs cur) = k /\
  (forall (j i : nat) (dflt dz dc : binary_float prec emax),
     (j < k)%nat -> (i < length cur)%nat -> (k * S (length cur) <= length zs)%nat ->
     length (nth j (iso_samples nanf k std zs cur) []) = length cur /\
     nth i (nth j (iso_samples nanf k std zs cur) []) dflt
     = iso_coord nanf std (nth (j * S (length cur) + i) zs dz) (nth i cur dc)) /\
  (forall d j i j' i' : nat, (i < d)%nat -> (i' < d)%nat ->
     (j * S d + i = j' * S d + i')%nat -> j = j' /\ i = i') /\
  (forall d j j' i' : nat, (i' < d)%nat -> (j' * S d + i' <> j * S d + d)%nat).
Proof.
  intros. split; [apply iso_samples_length|].
  split; [intros; split; [apply iso_samples_row_length | apply iso_samples_draw_index]; assumption|].
  split; [exact iso_draw_index_inj | exact iso_draw_index_skips].
Qed.

(* real value of one coordinate: for finite std, z, current such that neither the product nor the
   sum overflows (the side conditions of Flocq's Bmult_correct / Bplus_correct), the result is finite
   and equals  round(round(std * z) + current),  round = round-to-nearest-even onto the format;
   the addition 0 + std*z is exact *)
Theorem C15_sample_rounded_value :
  forall (prec emax : Z) (Hprec : FLX.Prec_gt_0 prec)
         (Hmax : BinarySingleNaN.Prec_lt_emax prec emax)
         (nanf : binary_float prec emax -> binary_float prec emax ->
                 {x : binary_float prec emax | Binary.is_nan prec emax x = true})
         (std z cur : binary_float prec emax),
  let round := Generic_fmt.round Zaux.radix2 (FLT.FLT_exp (3 - emax - prec) prec)
                 (Generic_fmt.Znearest (fun x => negb (Z.even x))) in
  is_finite prec emax std = true -> is_finite prec emax z = true ->
  is_finite prec emax cur = true ->
  Rlt_bool (Rabs (round (B2R prec emax std * B2R prec emax z))) (bpow radix2 emax) = true ->
  Rlt_bool (Rabs (round (round (B2R prec emax std * B2R prec emax z) + B2R prec emax cur)))
           (bpow radix2 emax) = true ->
  B2R prec emax (iso_coord nanf std z cur)
  = round (round (B2R prec emax std * B2R prec emax z) + B2R prec emax cur) /\
  is_finite prec emax (iso_coord nanf std z cur) = true.
Proof. intros prec emax Hprec Hmax nanf std z cur round. exact (iso_coord_rounded prec emax Hprec Hmax nanf std z cur). Qed.

(* non-vacuity, binary32: std = 2 (0x40000000), z = 1/2 (0x3F000000), current = 1 (0x3F800000) are
   finite and meet both no-overflow conditions; the proposed coordinate is 2 *)
Example C15_sample_rounded_example :
  let round := Generic_fmt.round Zaux.radix2 (FLT.FLT_exp (3 - 128 - 24) 24)
                 (Generic_fmt.Znearest (fun x => negb (Z.even x))) in
  let std := b32_of_bits 1073741824 in
  let z := b32_of_bits 1056964608 in
  let cur := b32_of_bits 1065353216 in
  is_finite 24 128 std = true /\ is_finite 24 128 z = true /\ is_finite 24 128 cur = true /\
  B2R 24 128 std = 2 /\ B2R 24 128 z = / 2 /\ B2R 24 128 cur = 1 /\
  Rlt_bool (Rabs (round (B2R 24 128 std * B2R 24 128 z))) (bpow radix2 128) = true /\
  Rlt_bool (Rabs (round (round (B2R 24 128 std * B2R 24 128 z) + B2R 24 128 cur)))
           (bpow radix2 128) = true /\
  B2R 24 128 (iso_coord binop_nan_pl32 std z cur) = 2.
Proof.
  intros round std z cur.
  subst std z cur. rewrite b32_two_bits, b32_half_bits, b32_one_bits.
  destruct iso_coord_example32 as (F1 & F2 & F3 & R1 & R2 & R3 & (N1 & N2) & V).
  repeat split; assumption.
Qed.

(* exact-arithmetic reading: proposed_i = current_i + std * z_i, and the walk is reversible (the
   negated draws lead back to the start) *)
Theorem C15_sample_exact_reading : forall (std : R) (zs cur : list R),
  length (iso_sample_R std zs cur) = Nat.min (length zs) (length cur) /\
  (forall i : nat, (i < length zs)%nat -> (i < length cur)%nat ->
     nth i (iso_sample_R std zs cur) 0 = nth i cur 0 + std * nth i zs 0) /\
  (length zs = length cur ->
     iso_sample_R std (map Ropp zs) (iso_sample_R std zs cur) = cur).
Proof.
  intros. split; [apply iso_sample_R_length|].
  split; [intros; apply iso_sample_R_nth; assumption | apply iso_sample_R_reverse].
Qed.

(* link to the density (5): the log-density logp(current, .) of the proposed point is the
   standard-normal log-density of the draws minus d ln|std| (the law of current + std * z under the
   affine change of variables), and the forward and backward proposal densities agree (the
   Metropolis-Hastings correction of this proposal is 1) *)
Theorem C15_sample_density_link : forall (std : R) (zs cur : list R),
  length zs = length cur ->
  (std <> 0 ->
     iso_logp dnumR std cur (iso_sample_R std zs cur)
     = fold_left (fun acc z => acc + normal_logpdf dnumR 0 1 z) zs 0
       - INR (length zs) * ln (Rabs std)) /\
  (0 < std ->
     iso_logp dnumR std cur (iso_sample_R std zs cur)
     = fold_left (fun acc z => acc + normal_logpdf dnumR 0 1 z) zs 0
       - INR (length zs) * ln std) /\
  iso_logp dnumR std cur (iso_sample_R std zs cur)
  = iso_logp dnumR std (iso_sample_R std zs cur) cur.
Proof.
  intros std zs cur Hlen.
  split; [intros Hs; apply iso_logp_change_of_variables; assumption|].
  split; [intros Hs; apply iso_logp_change_of_variables_pos; assumption|].
  apply iso_logp_sample_sym; assumption.
Qed.

Print Assumptions C15_gauss_norm_vs_unnorm.
Print Assumptions C15_diffable_is_gauss.
Print Assumptions C15_gauss_is_gaussian_density.
Print Assumptions C15_gradients.
Print Assumptions C15_rosenbrock_forms.
Print Assumptions C15_rosenbrock_nd3_gradient.
Print Assumptions C15_iso_logp.
Print Assumptions C15_normal_logpdf.
Print Assumptions C15_iso_symmetric.
Print Assumptions C15_iso_unnorm.
Print Assumptions C15_iso_old_constant_refuted.
Print Assumptions C15_interval_sound_gauss.
Print Assumptions C15_interval_sound_rosenbrock.
Print Assumptions C15_interval_sound_rosenbrock_nd.
Print Assumptions C15_interval_sound_iso.
Print Assumptions C15_sample_coordinatewise.
Print Assumptions C15_sample_draw_discipline.
Print Assumptions C15_sample_rounded_value.
Print Assumptions C15_sample_rounded_example.
Print Assumptions C15_sample_exact_reading.
Print Assumptions C15_sample_density_link.
