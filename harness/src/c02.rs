//! C02 (and the HMC part of C14/C06): HMC step records, leapfrog identities, row independence.
use crate::util::*;
use crate::zoo::{B32, B64};
use burn::prelude::*;
use burn::tensor::backend::AutodiffBackend;
use mini_mcmc::distributions::{BatchedGradientTarget, DiffableGaussian2D, Rosenbrock2D, RosenbrockND};
use mini_mcmc::hmc::HMC;
use mini_mcmc::verif::{self, Event};
use num_traits::Float;
use serde_json::{json, Value};

/// harness-defined targets: diagonal Gaussian, quartic, half-line (C14), sqrt-domain (C14)
#[derive(Clone, Debug)]
pub enum UserTarget {
    Diag(Vec<f64>),
    Quartic,
    /// logp = -x0 for x0 > 0 (else -inf), other coordinates standard normal
    HalfLine,
    /// logp = ln(x0) - x0 (NaN for x0 < 0 through ln), other coordinates standard normal
    LogDomain,
    /// box: |x_i| < 1 else -inf, flat inside (plus tiny quadratic so gradients are non-zero)
    BoxTarget,
}
impl<T: Float + burn::tensor::Element, B: AutodiffBackend> BatchedGradientTarget<T, B> for UserTarget {
    fn unnorm_logp_batch(&self, positions: Tensor<B, 2>) -> Tensor<B, 1> {
        let (n, d) = (positions.dims()[0], positions.dims()[1]);
        match self {
            UserTarget::Diag(lam) => {
                let l = Tensor::<B, 1>::from_floats(lam.iter().map(|x| *x as f32).collect::<Vec<f32>>().as_slice(), &Default::default())
                    .reshape([1, d])
                    .expand([n, d]);
                (positions.powi_scalar(2) * l).sum_dim(1).squeeze::<1>(1).mul_scalar(-0.5)
            }
            UserTarget::Quartic => positions.powi_scalar(4).sum_dim(1).squeeze::<1>(1).mul_scalar(-0.25),
            UserTarget::HalfLine => {
                let x0 = positions.clone().slice([0..n, 0..1]).squeeze::<1>(1);
                let rest = positions.powi_scalar(2).sum_dim(1).squeeze::<1>(1).mul_scalar(-0.5) + x0.clone().powi_scalar(2).mul_scalar(0.5);
                let inside = x0.clone().greater_elem(0.0);
                let lp = -x0 + rest;
                let neg_inf = Tensor::<B, 1>::full([n], f32::NEG_INFINITY, &Default::default());
                neg_inf.mask_where(inside, lp)
            }
            UserTarget::LogDomain => {
                let x0 = positions.clone().slice([0..n, 0..1]).squeeze::<1>(1);
                let rest = positions.powi_scalar(2).sum_dim(1).squeeze::<1>(1).mul_scalar(-0.5) + x0.clone().powi_scalar(2).mul_scalar(0.5);
                x0.clone().log() - x0 + rest
            }
            UserTarget::BoxTarget => {
                let inside = positions.clone().abs().lower_elem(1.0).all_dim(1).squeeze::<1>(1);
                let lp = positions.powi_scalar(2).sum_dim(1).squeeze::<1>(1).mul_scalar(-0.05);
                let neg_inf = Tensor::<B, 1>::full([n], f32::NEG_INFINITY, &Default::default());
                neg_inf.mask_where(inside, lp)
            }
        }
    }
}

#[derive(Clone)]
pub struct RosenND;
impl<T: Float + burn::tensor::Element, B: AutodiffBackend> BatchedGradientTarget<T, B> for RosenND {
    fn unnorm_logp_batch(&self, positions: Tensor<B, 2>) -> Tensor<B, 1> {
        <RosenbrockND as BatchedGradientTarget<T, B>>::unnorm_logp_batch(&RosenbrockND {}, positions)
    }
}

pub trait Tf: Float + burn::tensor::ElementConversion + burn::tensor::Element + rand_distr::uniform::SampleUniform
    + num_traits::FromPrimitive + num_traits::FloatConst + std::fmt::Debug {}
impl Tf for f32 {}
impl Tf for f64 {}

fn bits(v: &[f64]) -> Vec<u64> {
    v.iter().map(|x| x.to_bits()).collect()
}
fn tb<B: Backend, const D: usize>(t: &Tensor<B, D>) -> Vec<u64> {
    bits(&verif::tensor_f64(t))
}

fn event_json(e: &Event) -> Value {
    match e {
        Event::HmcStep { n_chains, dim, pos_before, momenta, logp_current, h_current, pos_proposed, mom_proposed,
                         logp_proposed, h_proposed, accept_logp, uniform, ln_u, mask, pos_after } => json!({
            "n_chains": n_chains, "dim": dim, "pos_before": bits(pos_before), "momenta": bits(momenta),
            "logp_current": bits(logp_current), "h_current": bits(h_current), "pos_proposed": bits(pos_proposed),
            "mom_proposed": bits(mom_proposed), "logp_proposed": bits(logp_proposed), "h_proposed": bits(h_proposed),
            "accept_logp": bits(accept_logp), "uniform": bits(uniform), "ln_u": bits(ln_u), "mask": mask,
            "pos_after": bits(pos_after)}),
        _ => json!(null),
    }
}

fn steps_generic<T, B, G>(c: &Value, target: G, extra: Value) -> Value
where
    T: Tf,
    B: AutodiffBackend,
    G: BatchedGradientTarget<T, B> + Sync + Clone,
    rand_distr::StandardNormal: rand::distr::Distribution<T>,
    rand_distr::StandardUniform: rand_distr::Distribution<T>,
{
    let t = |x: f64| T::from_f64(x).unwrap();
    let init: Vec<Vec<T>> = arr(c, "init").iter().map(|r| u64s(r).into_iter().map(|b| t(f64::from_bits(b))).collect()).collect();
    let eps = f64::from_bits(u64f(c, "eps"));
    let l = us(c, "L");
    let k = us(c, "k");
    let seed = u64f(c, "seed");
    let (n_chains, dim) = (init.len(), init[0].len());
    let mut s = HMC::<T, B, G>::new(target.clone(), init.clone(), t(eps), l).set_seed(seed);
    // a second sampler for row independence: same seed, every row except `row` replaced
    let row = c["indep_row"].as_u64().map(|x| x as usize);
    let mut s_other = row.map(|r| {
        let mut init2 = init.clone();
        for (i, v) in init2.iter_mut().enumerate() {
            if i != r {
                for (j, x) in v.iter_mut().enumerate() {
                    *x = t(0.37 * (i as f64 + 1.0) - 0.11 * j as f64);
                }
            }
        }
        HMC::<T, B, G>::new(target.clone(), init2, t(eps), l).set_seed(seed)
    });
    let mut out = vec![];
    // every draw the sampler is expected to take from its seeded generator, replayed from an identically seeded one:
    // per step n_chains*dim standard normals, then n_chains uniforms (values in T, rendered as f64 bits)
    let mut replay_rng = {
        use rand::SeedableRng;
        rand::rngs::SmallRng::seed_from_u64(seed)
    };
    let mut draw_events: Vec<u64> = vec![];
    let retune: Vec<Option<f64>> = match c["retune"].as_array() {
        Some(a) => a.iter().map(|v| v.as_u64().map(f64::from_bits)).collect(),
        None => vec![],
    };
    for step_i in 0..k {
        // the step size is a public field: a user may retune it between updates (manual warm-up schedule)
        if let Some(Some(e)) = retune.get(step_i) {
            s.step_size = t(*e);
            if let Some(so) = s_other.as_mut() {
                so.step_size = t(*e);
            }
        }
        {
            use rand::Rng;
            for _ in 0..n_chains * dim {
                let z: T = replay_rng.sample(rand_distr::StandardNormal);
                draw_events.push(num_traits::ToPrimitive::to_f64(&z).unwrap().to_bits());
            }
            for _ in 0..n_chains {
                let u: T = replay_rng.random::<T>();
                draw_events.push(num_traits::ToPrimitive::to_f64(&u).unwrap().to_bits());
            }
        }
        let mut probe = s.clone();
        verif::start();
        s.step();
        let ev = verif::take();
        let mut rec = event_json(&ev[0]);
        if let Event::HmcStep { pos_before, momenta, pos_proposed, mom_proposed, .. } = &ev[0] {
            let mk = |v: &Vec<f64>| {
                Tensor::<B, 2>::from_data(TensorData::new(v.iter().map(|x| t(*x)).collect::<Vec<T>>(), [n_chains, dim]), &Default::default())
            };
            // (a) the step's proposal = leapfrog from the emitted (x, p) with a freshly computed half-gradient
            let (lp, lm, llp) = probe.leapfrog_verif(mk(pos_before), mk(momenta));
            rec["lf_pos"] = json!(tb(&lp));
            rec["lf_mom"] = json!(tb(&lm));
            rec["lf_logp"] = json!(tb(&llp));
            // (b) L leapfrog steps = L single steps
            let mut one = probe.clone();
            one.n_leapfrog = 1;
            let (mut p1, mut m1) = (mk(pos_before), mk(momenta));
            for _ in 0..l {
                let r = one.leapfrog_verif(p1, m1);
                p1 = r.0;
                m1 = r.1;
            }
            rec["single_pos"] = json!(tb(&p1));
            rec["single_mom"] = json!(tb(&m1));
            // (d) reversibility: integrate again from (x', -p')
            let neg: Vec<f64> = mom_proposed.iter().map(|x| -x).collect();
            let (rp, rm, _) = probe.leapfrog_verif(mk(pos_proposed), mk(&neg));
            rec["rev_pos"] = json!(tb(&rp));
            rec["rev_mom"] = json!(tb(&rm));
        }
        if let (Some(so), Some(r)) = (s_other.as_mut(), row) {
            verif::start();
            so.step();
            let ev2 = verif::take();
            if let (Event::HmcStep { pos_proposed: a, accept_logp: da, pos_after: pa, .. },
                    Event::HmcStep { pos_proposed: b, accept_logp: db, pos_after: pb, .. }) = (&ev[0], &ev2[0]) {
                let same = a[r * dim..(r + 1) * dim].iter().zip(&b[r * dim..(r + 1) * dim]).all(|(x, y)| x.to_bits() == y.to_bits())
                    && da[r].to_bits() == db[r].to_bits()
                    && pa[r * dim..(r + 1) * dim].iter().zip(&pb[r * dim..(r + 1) * dim]).all(|(x, y)| x.to_bits() == y.to_bits());
                rec["row_independent"] = json!(same);
            }
        }
        out.push(rec);
    }
    json!({"steps": out, "target": extra, "draw_events": draw_events})
}

fn steps<T, B>(c: &Value) -> Value
where
    T: Tf,
    B: AutodiffBackend,
    rand_distr::StandardNormal: rand::distr::Distribution<T>,
    rand_distr::StandardUniform: rand_distr::Distribution<T>,
{
    let t = |x: f64| T::from_f64(x).unwrap();
    let tg = &c["target"];
    match strf(tg, "kind") {
        "gauss2d" => {
            let m: Vec<f64> = u64s(&tg["mean"]).into_iter().map(f64::from_bits).collect();
            let cv: Vec<f64> = u64s(&tg["cov"]).into_iter().map(f64::from_bits).collect();
            let g = DiffableGaussian2D::new([t(m[0]), t(m[1])], [[t(cv[0]), t(cv[1])], [t(cv[2]), t(cv[3])]]);
            let f = |x: T| num_traits::ToPrimitive::to_f64(&x).unwrap().to_bits();
            let extra = json!({"inv_cov": [f(g.inv_cov[0][0]), f(g.inv_cov[0][1]), f(g.inv_cov[1][0]), f(g.inv_cov[1][1])],
                               "norm_const": f(g.norm_const), "mean": [f(g.mean[0]), f(g.mean[1])]});
            steps_generic::<T, B, _>(c, g, extra)
        }
        "rosen2d" => {
            let a = f64::from_bits(u64f(tg, "a"));
            let b = f64::from_bits(u64f(tg, "b"));
            steps_generic::<T, B, _>(c, Rosenbrock2D { a: t(a), b: t(b) }, json!({}))
        }
        "rosennd" => steps_generic::<T, B, _>(c, RosenND, json!({})),
        "diag" => {
            let lam: Vec<f64> = u64s(&tg["lam"]).into_iter().map(f64::from_bits).collect();
            steps_generic::<T, B, _>(c, UserTarget::Diag(lam), json!({}))
        }
        "quartic" => steps_generic::<T, B, _>(c, UserTarget::Quartic, json!({})),
        "halfline" => steps_generic::<T, B, _>(c, UserTarget::HalfLine, json!({})),
        "logdomain" => steps_generic::<T, B, _>(c, UserTarget::LogDomain, json!({})),
        "box" => steps_generic::<T, B, _>(c, UserTarget::BoxTarget, json!({})),
        k => panic!("unknown target {k}"),
    }
}

pub fn run(c: &Value) -> Value {
    match strf(c, "f") {
        "f32" => steps::<f32, B32>(c),
        "f64" => steps::<f64, B64>(c),
        f => panic!("unknown float {f}"),
    }
}
