(* The H_bar update of the NUTS step-size adaptation IN FLOATING POINT (any IEEE format with at
   least two bits of precision, round to nearest even): Model/NUTSEval.v hbar_step
     eta = 1 / ((m + 10) as T);  H_bar' = (1 - eta) * H_bar + eta * (delta - alpha / (n_alpha as T)).
   (1) the counts are converted exactly; (2) the result is the seven-fold rounded real expression
   and is finite (no overflow is possible for |H_bar| <= 2, delta in [0,1], alpha in [0,n_alpha]);
   (3) [-1,1] is preserved by the float update exactly as by the real one (C04_hbar_bounds);
   (4) the float result is within 4 * 2^-prec of the real-number update h_next of
   Model/DualAvg.v (absolute error, underflow included).  Statements are about Flocq's
   Bplus / Bminus / Bmult / Bdiv. *)
From MiniMcmc Require Import Base.Fp Model.NUTSEval Proofs.AlphaRange.
From Coq Require Import Reals Lra Lia.
From Flocq Require Import Core Binary.

Section HbarStep.
  Variables prec emax : Z.
  Context (Hprec : FLX.Prec_gt_0 prec) (Hmax : BinarySingleNaN.Prec_lt_emax prec emax).
  Notation fl := (binary_float prec emax).
  Variable nanf : fl -> fl -> { x : fl | Binary.is_nan prec emax x = true }.

  Notation fexp := (SpecFloat.fexp prec emax).
  Notation rnd := (round radix2 fexp (BinarySingleNaN.round_mode mode_NE)).
  Notation gf := (generic_format radix2 fexp).
  Notation cnt := (count_fl prec emax Hprec Hmax).
  Notation B2R := (B2R prec emax).
  Notation is_finite := (is_finite prec emax).

  Local Instance hb_valid_exp : Valid_exp fexp := BinarySingleNaN.fexp_correct prec emax Hprec.
  Local Instance hb_valid_rnd : Valid_rnd (BinarySingleNaN.round_mode mode_NE) :=
    BinarySingleNaN.valid_rnd_round_mode mode_NE.

  (* the rounding operator of the statements, spelled out: the two are convertible *)
  Lemma rnd_spelled_out : forall x : R,
    rnd x = Generic_fmt.round Zaux.radix2 (FLT.FLT_exp (3 - emax - prec) prec)
              (Generic_fmt.Znearest (fun t => negb (Z.even t))) x.
  Proof. reflexivity. Qed.

  Lemma hb_prec_pos : (0 < prec)%Z.
  Proof. exact Hprec. Qed.
  Lemma hb_prec_lt_emax : (prec < emax)%Z.
  Proof. exact Hmax. Qed.

  Lemma fexp_eq : forall e : Z, fexp e = Z.max (e - prec) (3 - emax - prec).
  Proof. intros e. reflexivity. Qed.

  (* ---------------------------------------------------------------- (1) the counts *)
  Lemma count_fl_nat_fl : forall n : nat, cnt n = nat_fl (Hprec := Hprec) (Hmax := Hmax) n.
  Proof. reflexivity. Qed.

  Lemma count_fl_exact : forall n : nat, (Z.of_nat n <= 2 ^ prec)%Z ->
    is_finite (cnt n) = true /\ B2R (cnt n) = INR n.
  Proof. intros n Hn. exact (nat_fl_exact prec emax Hprec Hmax n Hn). Qed.

  (* ---------------------------------------------------------------- one operation each *)
  Lemma fplus_val : forall x y : fl, is_finite x = true -> is_finite y = true ->
    (Rabs (rnd (B2R x + B2R y)) < bpow radix2 emax)%R ->
    B2R (fplus nanf x y) = rnd (B2R x + B2R y) /\ is_finite (fplus nanf x y) = true.
  Proof.
    intros x y Fx Fy H. unfold fplus.
    pose proof (Bplus_correct prec emax Hprec Hmax nanf mode_NE x y Fx Fy) as Hc.
    rewrite (Rlt_bool_true _ _ H) in Hc. destruct Hc as (Hv & Hf & _). split; assumption.
  Qed.

  Lemma fminus_val : forall x y : fl, is_finite x = true -> is_finite y = true ->
    (Rabs (rnd (B2R x - B2R y)) < bpow radix2 emax)%R ->
    B2R (fminus nanf x y) = rnd (B2R x - B2R y) /\ is_finite (fminus nanf x y) = true.
  Proof.
    intros x y Fx Fy H. unfold fminus.
    pose proof (Bminus_correct prec emax Hprec Hmax nanf mode_NE x y Fx Fy) as Hc.
    rewrite (Rlt_bool_true _ _ H) in Hc. destruct Hc as (Hv & Hf & _). split; assumption.
  Qed.

  Lemma fmult_val : forall x y : fl, is_finite x = true -> is_finite y = true ->
    (Rabs (rnd (B2R x * B2R y)) < bpow radix2 emax)%R ->
    B2R (fmult nanf x y) = rnd (B2R x * B2R y) /\ is_finite (fmult nanf x y) = true.
  Proof.
    intros x y Fx Fy H. unfold fmult.
    pose proof (Bmult_correct prec emax Hprec Hmax nanf mode_NE x y) as Hc.
    rewrite (Rlt_bool_true _ _ H) in Hc. destruct Hc as (Hv & Hf & _).
    split; [exact Hv|]. rewrite Hf, Fx, Fy. reflexivity.
  Qed.

  Lemma fdiv_val : forall x y : fl, is_finite x = true -> B2R y <> 0%R ->
    (Rabs (rnd (B2R x / B2R y)) < bpow radix2 emax)%R ->
    B2R (fdiv nanf x y) = rnd (B2R x / B2R y) /\ is_finite (fdiv nanf x y) = true.
  Proof.
    intros x y Fx Hy H. unfold fdiv.
    pose proof (Bdiv_correct prec emax Hprec Hmax nanf mode_NE x y Hy) as Hc.
    rewrite (Rlt_bool_true _ _ H) in Hc. destruct Hc as (Hv & Hf & _).
    split; [exact Hv|]. rewrite Hf. exact Fx.
  Qed.

  (* ---------------------------------------------------------------- (2) the rounded value *)
  (* the update on the real line with every operation rounded *)
  Definition hbar_rnd (h delta alpha : R) (m n_alpha : nat) : R :=
    let e := rnd (1 / INR (m + 10)) in
    rnd (rnd (rnd (1 - e) * h) + rnd (e * rnd (delta - rnd (alpha / INR n_alpha)))).

  (* none of the seven rounded intermediate values reaches 2^emax *)
  Definition hbar_no_overflow (h delta alpha : R) (m n_alpha : nat) : Prop :=
    let B := bpow radix2 emax in
    let e := rnd (1 / INR (m + 10)) in
    let s := rnd (alpha / INR n_alpha) in
    let w := rnd (1 - e) in
    let d := rnd (delta - s) in
    let p1 := rnd (w * h) in
    let p2 := rnd (e * d) in
    (Rabs e < B /\ Rabs s < B /\ Rabs w < B /\ Rabs d < B /\ Rabs p1 < B /\ Rabs p2 < B /\
     Rabs (rnd (p1 + p2)) < B)%R.

  Lemma INR_count_pos : forall n : nat, (1 <= n)%nat -> (0 < INR n)%R.
  Proof. intros n Hn. apply lt_0_INR. lia. Qed.

  Theorem hbar_step_rounded_gen : forall (one delta h alpha : fl) (m n_alpha : nat),
    is_finite one = true -> is_finite delta = true -> is_finite h = true ->
    is_finite alpha = true -> B2R one = 1%R ->
    (1 <= n_alpha)%nat -> (Z.of_nat (m + 10) <= 2 ^ prec)%Z -> (Z.of_nat n_alpha <= 2 ^ prec)%Z ->
    hbar_no_overflow (B2R h) (B2R delta) (B2R alpha) m n_alpha ->
    B2R (hbar_step nanf one delta h alpha m n_alpha)
      = hbar_rnd (B2R h) (B2R delta) (B2R alpha) m n_alpha /\
    is_finite (hbar_step nanf one delta h alpha m n_alpha) = true.
  Proof.
    intros one delta h alpha m n_alpha F1 Fd Fh Fa V1 Hn1 HN Hn Hno.
    destruct (count_fl_exact (m + 10) HN) as [FN VN].
    destruct (count_fl_exact n_alpha Hn) as [Fn Vn].
    unfold hbar_no_overflow in Hno. cbv zeta in Hno.
    destruct Hno as (He & Hs & Hw & Hd & Hp1 & Hp2 & Hf).
    unfold hbar_step, hbar_rnd. cbv zeta.
    assert (PN : (0 < INR (m + 10))%R) by (apply INR_count_pos; lia).
    assert (Pn : (0 < INR n_alpha)%R) by (apply INR_count_pos; exact Hn1).
    (* eta *)
    set (eta := fdiv nanf one (cnt (m + 10))).
    assert (Ee : B2R eta = rnd (1 / INR (m + 10)) /\ is_finite eta = true).
    { rewrite <- V1, <- VN. apply fdiv_val; [exact F1|rewrite VN; lra|].
      rewrite V1, VN. exact He. }
    destruct Ee as [Ve Fe].
    (* the statistic *)
    set (st := fdiv nanf alpha (cnt n_alpha)).
    assert (Es : B2R st = rnd (B2R alpha / INR n_alpha) /\ is_finite st = true).
    { rewrite <- Vn. apply fdiv_val; [exact Fa|rewrite Vn; lra|].
      rewrite Vn. exact Hs. }
    destruct Es as [Vs Fs].
    (* 1 - eta *)
    set (wt := fminus nanf one eta).
    assert (Ew : B2R wt = rnd (1 - rnd (1 / INR (m + 10))) /\ is_finite wt = true).
    { rewrite <- Ve, <- V1. apply fminus_val; [exact F1|exact Fe|].
      rewrite V1, Ve. exact Hw. }
    destruct Ew as [Vw Fw].
    (* delta - statistic *)
    set (dt := fminus nanf delta st).
    assert (Ed : B2R dt = rnd (B2R delta - rnd (B2R alpha / INR n_alpha)) /\ is_finite dt = true).
    { rewrite <- Vs. apply fminus_val; [exact Fd|exact Fs|]. rewrite Vs. exact Hd. }
    destruct Ed as [Vd Fdt].
    (* the two products *)
    set (p1 := fmult nanf wt h).
    assert (E1 : B2R p1 = rnd (rnd (1 - rnd (1 / INR (m + 10))) * B2R h) /\ is_finite p1 = true).
    { rewrite <- Vw. apply fmult_val; [exact Fw|exact Fh|]. rewrite Vw. exact Hp1. }
    destruct E1 as [Vp1 Fp1].
    set (p2 := fmult nanf eta dt).
    assert (E2 : B2R p2 = rnd (rnd (1 / INR (m + 10))
                                * rnd (B2R delta - rnd (B2R alpha / INR n_alpha)))
                 /\ is_finite p2 = true).
    { rewrite <- Vd, <- Ve. apply fmult_val; [exact Fe|exact Fdt|]. rewrite Ve, Vd. exact Hp2. }
    destruct E2 as [Vp2 Fp2].
    (* the sum *)
    rewrite <- Vp1, <- Vp2. apply fplus_val; [exact Fp1|exact Fp2|].
    rewrite Vp1, Vp2. exact Hf.
  Qed.

  (* ---------------------------------------------------------------- magnitudes *)
  Section Magnitudes.
    Hypothesis Hprec2 : (2 <= prec)%Z.

    Lemma emin_le : (3 - emax - prec <= - prec)%Z.
    Proof. pose proof hb_prec_lt_emax. lia. Qed.

    Lemma gf_bpow : forall k : Z, (3 - emax - prec <= k)%Z -> gf (bpow radix2 k).
    Proof.
      intros k Hk. apply generic_format_bpow. rewrite fexp_eq. pose proof hb_prec_pos. lia.
    Qed.

    Lemma gf_1 : gf 1%R.
    Proof. change 1%R with (bpow radix2 0). apply gf_bpow. pose proof emin_le. lia. Qed.

    Lemma gf_2 : gf 2%R.
    Proof. change 2%R with (bpow radix2 1). apply gf_bpow. pose proof emin_le. lia. Qed.

    Lemma gf_4 : gf 4%R.
    Proof.
      replace 4%R with (bpow radix2 2) by (cbn [bpow Z.pow_pos Pos.iter radix_val radix2 Z.mul Pos.mul]; lra).
      apply gf_bpow. pose proof emin_le. lia.
    Qed.

    Lemma eight_le_bpow_emax : (8 <= bpow radix2 emax)%R.
    Proof.
      replace 8%R with (bpow radix2 3)
        by (cbn [bpow Z.pow_pos Pos.iter radix_val radix2 Z.mul Pos.mul]; lra).
      apply bpow_le. pose proof hb_prec_lt_emax. lia.
    Qed.

    Lemma bpow_half : forall k : Z, bpow radix2 (k - 1) = (bpow radix2 k / 2)%R.
    Proof.
      intros k. unfold Zminus. rewrite bpow_plus.
      change (bpow radix2 (-1)) with (/ 2)%R. reflexivity.
    Qed.

    Lemma bpow_double : forall k : Z, bpow radix2 (k + 1) = (2 * bpow radix2 k)%R.
    Proof.
      intros k. rewrite bpow_plus. change (bpow radix2 1) with 2%R. ring.
    Qed.

    (* the unit roundoff *)
    Notation u := (bpow radix2 (- prec)).

    Lemma u_pos : (0 < u)%R.
    Proof. apply bpow_gt_0. Qed.

    Lemma u_le_quarter : (u <= / 4)%R.
    Proof.
      replace (/ 4)%R with (bpow radix2 (-2))
        by (cbn [bpow Z.pow_pos Pos.iter radix_val radix2 Z.mul Pos.mul]; lra).
      apply bpow_le. lia.
    Qed.

    (* absolute rounding error of a value of magnitude at most 2^k (k - prec >= emin) *)
    Lemma rnd_err_le : forall (x : R) (k : Z), (3 - emax - prec <= k - prec)%Z ->
      (Rabs x <= bpow radix2 k)%R -> (Rabs (rnd x - x) <= bpow radix2 (k - prec - 1))%R.
    Proof.
      intros x k Hk Hx.
      destruct (Req_dec x 0) as [->|Hx0].
      { rewrite round_0 by exact hb_valid_rnd. rewrite Rminus_0_r, Rabs_R0. apply bpow_ge_0. }
      destruct Hx as [Hlt|Heq].
      - eapply Rle_trans; [apply error_le_half_ulp; exact hb_valid_exp|].
        rewrite ulp_neq_0 by exact Hx0. unfold cexp.
        pose proof (mag_le_bpow radix2 x k Hx0 Hlt) as Hm.
        rewrite bpow_half. unfold Rdiv. rewrite Rmult_comm.
        apply Rmult_le_compat_r; [lra|]. apply bpow_le. rewrite fexp_eq. lia.
      - assert (G : gf x).
        { apply generic_format_abs_inv. rewrite Heq. apply gf_bpow. pose proof hb_prec_pos. lia. }
        rewrite round_generic by (try exact hb_valid_rnd; exact G).
        rewrite Rminus_diag_eq by reflexivity. rewrite Rabs_R0. apply bpow_ge_0.
    Qed.

    (* |x| <= 1: error at most u/2;  |x| <= 2: error at most u *)
    Lemma rnd_err_1 : forall x : R, (Rabs x <= 1)%R -> (Rabs (rnd x - x) <= u / 2)%R.
    Proof.
      intros x Hx. rewrite <- bpow_half.
      replace (- prec - 1)%Z with (0 - prec - 1)%Z by ring.
      apply rnd_err_le; [pose proof emin_le; lia|exact Hx].
    Qed.

    Lemma rnd_err_2 : forall x : R, (Rabs x <= 2)%R -> (Rabs (rnd x - x) <= u)%R.
    Proof.
      intros x Hx. replace (- prec)%Z with (1 - prec - 1)%Z by ring.
      apply rnd_err_le; [pose proof emin_le; lia|exact Hx].
    Qed.

    Lemma rnd_abs_le : forall x y : R, gf y -> (Rabs x <= y)%R -> (Rabs (rnd x) <= y)%R.
    Proof.
      intros x y Gy Hx.
      apply abs_round_le_generic; [exact hb_valid_exp|exact hb_valid_rnd|exact Gy|exact Hx].
    Qed.

    Lemma gf_rnd : forall x : R, gf (rnd x).
    Proof. intros x. apply generic_format_round; [exact hb_valid_exp|exact hb_valid_rnd]. Qed.

    Lemma rnd_unit : forall x : R, (0 <= x <= 1)%R -> (0 <= rnd x <= 1)%R.
    Proof.
      intros x Hx. split.
      - apply round_ge_generic; [exact hb_valid_exp|exact hb_valid_rnd|apply generic_format_0|apply Hx].
      - apply round_le_generic; [exact hb_valid_exp|exact hb_valid_rnd|exact gf_1|apply Hx].
    Qed.

    Lemma mul_abs_le : forall x y a b : R,
      (Rabs x <= a)%R -> (Rabs y <= b)%R -> (Rabs (x * y) <= a * b)%R.
    Proof.
      intros x y a b Hx Hy. rewrite Rabs_mult.
      apply Rmult_le_compat; [apply Rabs_pos|apply Rabs_pos|exact Hx|exact Hy].
    Qed.

    (* a sum that exceeds 1 by less than u still rounds into [-1,1] *)
    Lemma rnd_le_1_slack : forall v : R, (v < 1 + u)%R -> (rnd v <= 1)%R.
    Proof.
      intros v Hv.
      apply (round_N_le_midp radix2 fexp (fun t => negb (Z.even t)) 1%R v gf_1).
      rewrite succ_eq_pos by lra.
      change 1%R with (bpow radix2 0) at 3. rewrite ulp_bpow.
      assert (E : fexp (0 + 1) = (- prec + 1)%Z) by (rewrite fexp_eq; pose proof emin_le; lia).
      rewrite E, bpow_double. lra.
    Qed.

    Lemma rnd_ge_m1_slack : forall v : R, (- 1 - u < v)%R -> (- 1 <= rnd v)%R.
    Proof.
      intros v Hv.
      assert (H : (rnd (- v) <= 1)%R) by (apply rnd_le_1_slack; lra).
      change (BinarySingleNaN.round_mode mode_NE) with ZnearestE in H.
      rewrite round_NE_opp in H.
      change ZnearestE with (BinarySingleNaN.round_mode mode_NE) in H. lra.
    Qed.

    (* the real quantities of one update and what the magnitude bounds give for them *)
    Section Reals.
      Variables h delta alpha : R.
      Variables m n_alpha : nat.
      Hypothesis Hn1 : (1 <= n_alpha)%nat.
      Hypothesis Hdelta : (0 <= delta <= 1)%R.
      Hypothesis Halpha : (0 <= alpha <= INR n_alpha)%R.

      Let eta := (1 / INR (m + 10))%R.
      Let a := (alpha / INR n_alpha)%R.
      Let e := rnd eta.
      Let s := rnd a.
      Let w := rnd (1 - e).
      Let d := rnd (delta - s).

      Lemma eta_range : (0 < eta <= / 10)%R.
      Proof.
        unfold eta. rewrite plus_INR. replace (INR 10) with 10%R by (simpl; lra).
        pose proof (pos_INR m) as Hm. unfold Rdiv. rewrite Rmult_1_l. split.
        - apply Rinv_0_lt_compat. lra.
        - apply Rinv_le_contravar; lra.
      Qed.

      Lemma a_range : (0 <= a <= 1)%R.
      Proof.
        unfold a. pose proof (INR_count_pos n_alpha Hn1) as Hpos. split.
        - apply Rmult_le_pos; [lra|]. left. apply Rinv_0_lt_compat. exact Hpos.
        - apply Rmult_le_reg_r with (INR n_alpha); [exact Hpos|].
          unfold Rdiv. rewrite Rmult_assoc, Rinv_l by lra. lra.
      Qed.

      Lemma e_range : (0 <= e <= 1)%R.
      Proof. apply rnd_unit. pose proof eta_range. lra. Qed.
      Lemma s_range : (0 <= s <= 1)%R.
      Proof. apply rnd_unit. exact a_range. Qed.
      Lemma w_range : (0 <= w <= 1)%R.
      Proof. apply rnd_unit. pose proof e_range. lra. Qed.
      Lemma d_range : (Rabs d <= 1)%R.
      Proof.
        apply rnd_abs_le; [exact gf_1|]. pose proof s_range. apply Rabs_le. lra.
      Qed.

      Lemma p2_le_e : (Rabs (rnd (e * d)) <= e)%R.
      Proof.
        apply rnd_abs_le; [apply gf_rnd|]. pose proof e_range as He. pose proof d_range as Hd.
        replace e with (e * 1)%R at 2 by ring. apply mul_abs_le; [|exact Hd].
        rewrite Rabs_pos_eq; lra.
      Qed.

      Lemma p1_le_w : forall b : R, (0 <= b)%R -> (Rabs h <= b)%R -> gf (w * b)%R ->
        (Rabs (rnd (w * h)) <= w * b)%R.
      Proof.
        intros b Hb Hh G. apply rnd_abs_le; [exact G|]. pose proof w_range as Hw.
        apply mul_abs_le; [|exact Hh]. rewrite Rabs_pos_eq; lra.
      Qed.

      (* no overflow for |h| <= 2 *)
      Lemma hbar_no_overflow_of_bounds : (Rabs h <= 2)%R -> hbar_no_overflow h delta alpha m n_alpha.
      Proof.
        intros Hh. unfold hbar_no_overflow. cbv zeta.
        fold eta a. fold e s. fold w d.
        pose proof eight_le_bpow_emax as H8.
        pose proof e_range as He. pose proof s_range as Hs. pose proof w_range as Hw.
        pose proof d_range as Hd. pose proof p2_le_e as Hp2.
        assert (Hp1 : (Rabs (rnd (w * h)) <= 2)%R).
        { apply rnd_abs_le; [exact gf_2|]. replace 2%R with (1 * 2)%R by ring.
          apply mul_abs_le; [rewrite Rabs_pos_eq; lra|exact Hh]. }
        assert (Hf : (Rabs (rnd (rnd (w * h) + rnd (e * d))) <= 4)%R).
        { apply rnd_abs_le; [exact gf_4|].
          eapply Rle_trans; [apply Rabs_triang|]. lra. }
        repeat split; try (rewrite Rabs_pos_eq by lra); lra.
      Qed.

      (* [-1,1] is preserved *)
      Lemma hbar_rnd_range : (-1 <= h <= 1)%R -> (-1 <= hbar_rnd h delta alpha m n_alpha <= 1)%R.
      Proof.
        intros Hh. unfold hbar_rnd. cbv zeta. fold eta a. fold e s. fold w d.
        pose proof e_range as He. pose proof w_range as Hw. pose proof u_pos as Hu.
        assert (Hw1 : (Rabs (w - (1 - e)) <= u / 2)%R).
        { apply rnd_err_1. apply Rabs_le. lra. }
        apply Rabs_le_inv in Hw1.
        assert (Hp1 : (Rabs (rnd (w * h)) <= w)%R).
        { replace w with (w * 1)%R at 2 by ring. apply p1_le_w; [lra|apply Rabs_le; lra|].
          rewrite Rmult_1_r. apply gf_rnd. }
        pose proof p2_le_e as Hp2.
        apply Rabs_le_inv in Hp1. apply Rabs_le_inv in Hp2.
        split; [apply rnd_ge_m1_slack|apply rnd_le_1_slack]; lra.
      Qed.

      (* distance to the exact update *)
      Lemma hbar_rnd_error : (-1 <= h <= 1)%R ->
        (Rabs (hbar_rnd h delta alpha m n_alpha
               - ((1 - 1 / INR (m + 10)) * h + 1 / INR (m + 10) * (delta - alpha / INR n_alpha)))
         <= 4 * u)%R.
      Proof.
        intros Hh. unfold hbar_rnd. cbv zeta. fold eta a. fold e s. fold w d.
        pose proof eta_range as Heta. pose proof a_range as Ha.
        pose proof e_range as He. pose proof s_range as Hs. pose proof w_range as Hw.
        pose proof d_range as Hd. pose proof u_pos as Hu. pose proof u_le_quarter as Hu4.
        (* elementary rounding errors *)
        assert (E1 : (Rabs (e - eta) <= u / 2)%R) by (apply rnd_err_1; apply Rabs_le; lra).
        assert (E2 : (Rabs (w - (1 - e)) <= u / 2)%R) by (apply rnd_err_1; apply Rabs_le; lra).
        assert (E4 : (Rabs (s - a) <= u / 2)%R) by (apply rnd_err_1; apply Rabs_le; lra).
        assert (E5 : (Rabs (d - (delta - s)) <= u / 2)%R) by (apply rnd_err_1; apply Rabs_le; lra).
        assert (Hwh : (Rabs (w * h) <= 1)%R).
        { replace 1%R with (1 * 1)%R by ring. apply mul_abs_le; apply Rabs_le; lra. }
        assert (Hed : (Rabs (e * d) <= 1)%R).
        { replace 1%R with (1 * 1)%R by ring. apply mul_abs_le; [apply Rabs_le; lra|exact Hd]. }
        assert (E3 : (Rabs (rnd (w * h) - w * h) <= u / 2)%R) by (apply rnd_err_1; exact Hwh).
        assert (E6 : (Rabs (rnd (e * d) - e * d) <= u / 2)%R) by (apply rnd_err_1; exact Hed).
        assert (Hp1 : (Rabs (rnd (w * h)) <= 1)%R) by (apply rnd_abs_le; [exact gf_1|exact Hwh]).
        assert (Hp2 : (Rabs (rnd (e * d)) <= 1)%R) by (apply rnd_abs_le; [exact gf_1|exact Hed]).
        assert (Hsum : (Rabs (rnd (w * h) + rnd (e * d)) <= 2)%R).
        { eapply Rle_trans; [apply Rabs_triang|]. lra. }
        assert (E7 : (Rabs (rnd (rnd (w * h) + rnd (e * d)) - (rnd (w * h) + rnd (e * d))) <= u)%R)
          by (apply rnd_err_2; exact Hsum).
        apply Rabs_le_inv in E1. apply Rabs_le_inv in E2. apply Rabs_le_inv in E4.
        apply Rabs_le_inv in E5.
        (* propagated errors *)
        assert (X1 : (Rabs ((w - (1 - eta)) * h) <= u * 1)%R)
          by (apply mul_abs_le; apply Rabs_le; lra).
        assert (X2 : (Rabs (e * (d - (delta - a))) <= (9 / 40) * u)%R)
          by (apply mul_abs_le; apply Rabs_le; lra).
        assert (X3 : (Rabs ((e - eta) * (delta - a)) <= u / 2 * 1)%R)
          by (apply mul_abs_le; apply Rabs_le; lra).
        apply Rabs_le_inv in E3. apply Rabs_le_inv in E6. apply Rabs_le_inv in E7.
        apply Rabs_le_inv in X1. apply Rabs_le_inv in X2. apply Rabs_le_inv in X3.
        apply Rabs_le. lra.
      Qed.
    End Reals.

    (* ---------------------------------------------------------------- the float theorems *)
    Section Floats.
      Variables one delta h alpha : fl.
      Variables m n_alpha : nat.
      Hypothesis F1 : is_finite one = true.
      Hypothesis Fd : is_finite delta = true.
      Hypothesis Fh : is_finite h = true.
      Hypothesis Fa : is_finite alpha = true.
      Hypothesis V1 : B2R one = 1%R.
      Hypothesis Hn1 : (1 <= n_alpha)%nat.
      Hypothesis HN : (Z.of_nat (m + 10) <= 2 ^ prec)%Z.
      Hypothesis Hn : (Z.of_nat n_alpha <= 2 ^ prec)%Z.
      Hypothesis Hdelta : (0 <= B2R delta <= 1)%R.
      Hypothesis Halpha : (0 <= B2R alpha <= INR n_alpha)%R.

      (* (2) *)
      Theorem hbar_step_rounded : (Rabs (B2R h) <= 2)%R ->
        B2R (hbar_step nanf one delta h alpha m n_alpha)
          = hbar_rnd (B2R h) (B2R delta) (B2R alpha) m n_alpha /\
        is_finite (hbar_step nanf one delta h alpha m n_alpha) = true.
      Proof.
        intros Hh. apply hbar_step_rounded_gen; try assumption.
        apply hbar_no_overflow_of_bounds; assumption.
      Qed.

      (* (3) *)
      Theorem hbar_step_range : (-1 <= B2R h <= 1)%R ->
        is_finite (hbar_step nanf one delta h alpha m n_alpha) = true /\
        (-1 <= B2R (hbar_step nanf one delta h alpha m n_alpha) <= 1)%R.
      Proof.
        intros Hh.
        destruct hbar_step_rounded as [Hv Hf]; [apply Rabs_le; lra|].
        split; [exact Hf|]. rewrite Hv. apply hbar_rnd_range; assumption.
      Qed.

      (* (4) *)
      Theorem hbar_step_error : (-1 <= B2R h <= 1)%R ->
        (Rabs (B2R (hbar_step nanf one delta h alpha m n_alpha)
               - ((1 - 1 / INR (m + 10)) * B2R h
                  + 1 / INR (m + 10) * (B2R delta - B2R alpha / INR n_alpha)))
         <= 4 * u)%R.
      Proof.
        intros Hh.
        destruct hbar_step_rounded as [Hv _]; [apply Rabs_le; lra|].
        rewrite Hv. apply hbar_rnd_error; assumption.
      Qed.
    End Floats.
  End Magnitudes.
End HbarStep.

Arguments hbar_rnd prec emax h delta alpha m n_alpha : clear implicits.
Arguments hbar_no_overflow prec emax h delta alpha m n_alpha : clear implicits.
