(* Models of stats.rs: streaming trackers (ChainTracker, MultiChainTracker, collect_rhat),
   split R-hat (splitcat / withinvar / rhat), ESS (autocov, Geyer), basic_stats.
   Generic over Base.Num; evaluated at Q, theorems at R. *)
From MiniMcmc Require Export Base.Num Base.Util.
Close Scope Q_scope.
Close Scope R_scope.
Open Scope nat_scope.

Section Stats.
  Variable K : Num.
  Notation "a + b" := (add K a b).
  Notation "a - b" := (sub K a b).
  Notation "a * b" := (mul K a b).
  Notation "a / b" := (div K a b).
  Notation ofN := (ofN K).
  Notation sumK := (sumK K).
  Notation meanK := (meanK K).
  Notation sqK := (sqK K).

  (* ---------------- streaming tracker, one parameter (ChainTracker::step, per coordinate) *)
  Record trk := { t_n : nat; t_mean : K; t_msq : K }.
  Definition trk0 : trk := {| t_n := 0; t_mean := zero K; t_msq := zero K |}.
  Definition trk_step (t : trk) (x : K) : trk :=
    let n := S (t_n t) in
    {| t_n := n;
       t_mean := (t_mean t * ofN (n - 1) + x) / ofN n;
       t_msq := if Nat.eqb n 1 then sqK x else (t_msq t * ofN (n - 1) + sqK x) / ofN n |}.
  Definition trk_run (xs : list K) : trk := fold_left trk_step xs trk0.
  (* ChainTracker::stats: sm2 = (mean_sq - mean^2) * n / (n - 1) *)
  Definition trk_sm2 (t : trk) : K :=
    (t_msq t - sqK (t_mean t)) * ofN (t_n t) / ofN (t_n t - 1).

  (* collect_rhat on one parameter: stats of the m chains = list of (n, mean, sm2).
     between = sum (mean_c - gmean)^2 / (m - 1)   [after the D7 repair: divisor n_chains - 1]
     n = mean of the n_c;  var = between + within*(n-1)/n;  rhat^2 = var / within *)
  Definition collect_rhat2 (st : list (nat * K * K)) : K :=
    let means := map (fun s => snd (fst s)) st in
    let sm2s := map snd st in
    let m := length st in
    let within := meanK sm2s in
    let gmean := meanK means in
    let between := sumK (map (fun mu => sqK (mu - gmean)) means) / ofN (m - 1) in
    let n := sumK (map (fun s => ofN (fst (fst s))) st) / ofN m in
    let var := between + within * ((n - one K) / n) in
    var / within.

  (* the pre-repair divisor: diffs.len() - 1 = n_chains * n_params - 1 *)
  Definition collect_rhat2_old (n_params : nat) (st : list (nat * K * K)) : K :=
    let means := map (fun s => snd (fst s)) st in
    let sm2s := map snd st in
    let m := length st in
    let within := meanK sm2s in
    let gmean := meanK means in
    let between := sumK (map (fun mu => sqK (mu - gmean)) means) / ofN (m * n_params - 1) in
    let n := sumK (map (fun s => ofN (fst (fst s))) st) / ofN m in
    let var := between + within * ((n - one K) / n) in
    var / within.

  (* MultiChainTracker::rhat on one parameter: per-chain trackers after n common steps *)
  Definition multi_rhat2 (ts : list trk) : K :=
    let m := length ts in
    let n := match ts with t :: _ => t_n t | [] => 0 end in
    let means := map t_mean ts in
    let gmean := meanK means in
    let fac := ofN n / ofN (m - 1) in
    let between := sumK (map (fun mu => sqK (mu - gmean)) means) * fac in
    let within := meanK (map trk_sm2 ts) in
    let var := within * (ofN (n - 1) / ofN n) + between * (one K / ofN n) in
    var / within.

  (* batch definitions the trackers are compared with *)
  Definition bmean (xs : list K) : K := meanK xs.
  Definition bvar_unbiased (xs : list K) : K :=
    sumK (map (fun x => sqK (x - bmean xs)) xs) / ofN (length xs - 1).
  (* classical (non-split) rhat^2 of m chains of equal length n *)
  Definition batch_rhat2 (chains : list (list K)) : K :=
    let m := length chains in
    let n := match chains with c :: _ => length c | [] => 0 end in
    let means := map bmean chains in
    let gmean := meanK means in
    let w := meanK (map bvar_unbiased chains) in
    let bn := sumK (map (fun mu => sqK (mu - gmean)) means) / ofN (m - 1) in   (* B / n *)
    (w * (ofN (n - 1) / ofN n) + bn) / w.

  (* ---------------- split R-hat (splitcat, withinvar, rhat) on one parameter *)
  Definition split_halves (chains : list (list K)) : list (list K) :=
    let n := match chains with c :: _ => length c | [] => 0 end in
    let h := Nat.div n 2 in
    map (firstn h) chains ++ map (skipn (n - h)) chains.

  (* within-chain variance with divisor n (as withinvar computes it) *)
  Definition var_n (xs : list K) : K :=
    let mu := meanK xs in sumK (map (fun x => sqK (x - mu)) xs) / ofN (length xs).

  (* returns (W, var+) of a list of (half-)chains of common length n *)
  Definition withinvar (hs : list (list K)) : K * K :=
    let c := length hs in
    let n := match hs with x :: _ => length x | [] => 0 end in
    let means := map meanK hs in
    let overall := meanK means in
    let b := sumK (map (fun mu => sqK (mu - overall)) means) * (ofN n / ofN (c - 1)) in
    let w := meanK (map var_n hs) in
    let v := (ofN n - one K) / ofN n * w + b / ofN n in
    (w, v).

  Definition split_rhat2 (chains : list (list K)) : K :=
    let wv := withinvar (split_halves chains) in snd wv / fst wv.     (* var+ / W (after the D5 repair) *)
  Definition split_rhat2_old (chains : list (list K)) : K :=
    let wv := withinvar (split_halves chains) in fst wv / snd wv.     (* the inverted ratio *)

  (* ---------------- ESS *)
  (* autocovariance at lag t of a centred sequence cs (length n): sum_{s<n-t} c_s c_{s+t} / n *)
  Fixpoint dot (a b : list K) : K :=
    match a, b with
    | x :: a', y :: b' => x * y + dot a' b'
    | _, _ => zero K
    end.
  Definition autocov (xs : list K) : list K :=
    let n := length xs in
    let mu := meanK xs in
    let cs := map (fun x => x - mu) xs in
    map (fun t => dot cs (skipn t cs) / ofN n) (seq 0 n).

  (* circular autocorrelation of the zero-padded centred sequence at padded length P:
     what IDFT(|DFT x|^2)[t] / P / n equals (correlation theorem, trusted) before the 1/P:
     sum_{s<P} pad_s * pad_{(s+t) mod P} / n *)
  Definition circ_autocov (P : nat) (xs : list K) : list K :=
    let n := length xs in
    let mu := meanK xs in
    let pad := map (fun x => x - mu) xs ++ repeat (zero K) (P - n) in
    map (fun t => sumK (map (fun s => nth s pad (zero K) * nth (Nat.modulo (s + t) P) pad (zero K)) (seq 0 P))
                  / ofN n) (seq 0 n).

  Fixpoint geyer (fuel : nat) (rho : list K) (mn out : K) : K :=
    match fuel, rho with
    | S f, r0 :: r1 :: rest =>
        let p := r0 + r1 in
        if nleb K p (zero K) then out
        else let p' := if nltb K mn p then mn else p in
             geyer f rest p' (out + p')
    | _, _ => out
    end.

  Definition tau_of_rho (rho : list K) : K :=
    let mn := match rho with r0 :: r1 :: _ => r0 + r1 | _ => zero K end in
    (geyer (length rho) rho mn (zero K)) * ofN 2 - one K.

  (* ess of one parameter: hs = half-chains *)
  Definition ess_tau (hs : list (list K)) : K :=
    let wv := withinvar hs in
    let w := fst wv in let v := snd wv in
    let m := length hs in
    let n := match hs with x :: _ => length x | [] => 0 end in
    let acs := map autocov hs in
    let avg := map (fun t => meanK (map (fun ac => nth t ac (zero K)) acs)) (seq 0 n) in
    let rho := map (fun a => one K - (w - a) / v) avg in
    tau_of_rho rho.
  Definition ess (hs : list (list K)) : K :=
    let m := length hs in
    let n := match hs with x :: _ => length x | [] => 0 end in
    ofN m * ofN n / ess_tau hs.
  Definition split_ess_tau (chains : list (list K)) : K := ess_tau (split_halves chains).
End Stats.
