"""C03 — NUTS transition is Hoffman-Gelman Algorithm 6 on the leapfrog trajectory."""
from fractions import Fraction
import math
import common as C
import zigtie
from props import nutslib as N

ID = "C03"
LEVEL = "proof"
COQ_HEADER = "From MiniMcmc Require Import Model.NUTSEval Model.FindEps Model.Ziggurat."
LMARK = -1000000011
AMARK = -1000000017
GMARK = -1000000013
RULE = ("NUTSChain::step under the transition-trace hook (momentum, joint0, log u, eps, per doubling: direction uniform, every "
        "leaf with position/momentum/joint, every merge uniform, acceptance uniform) on Gaussians of dimension 1..8 with random "
        "precision matrices, DiffableGaussian2D, Rosenbrock2D, a funnel and steep quartics driven to divergence, with step sizes "
        "as adapted in real runs and forced extremes (U-turn at once / divergence / long trees); f32 and f64. The Coq model "
        "(Model.NUTS instantiated on the trace's leaf table; slice/divergence/candidate/acceptance tests in Flocq, U-turn test "
        "exactly in Q) must reproduce the number of doublings, per doubling (n', s', n_alpha', alpha' bits, accepted), the "
        "adopted candidates, the final position and the exact number of variates consumed. Transitions whose U-turn dot "
        "products are within rounding of zero are counted as ambiguous and skipped. Non-trivial: >= 2 doublings, or a "
        "divergence, or an inner-subtree stop, or a candidate replacement.")
TRUSTED = ["autodiff gradient / leapfrog numerics (leaves are tied to the dynamics one step at a time for Gaussian targets)",
           "exp supplied by the implementation (bracketed against math.exp)",
           "the hook reports every leapfrog (checked: leaf counts vs n_alpha)"]
ASSUMPTIONS = ["uniform / exponential / normal variates enter as given values"]


def fb(x):
    return C.float_to_f64_bits(x)


def rand_prec(rng, d):
    """random SPD matrix with small integer-ish entries: A = M^T M + I (entries exactly representable in f32)"""
    M = [[rng.choice([-1, 0, 0, 1, 0.5]) for _ in range(d)] for _ in range(d)]
    A = [[sum(M[k][i] * M[k][j] for k in range(d)) + (1.0 if i == j else 0.0) for j in range(d)] for i in range(d)]
    sc = rng.choice([0.25, 1.0, 4.0])
    return [fb(A[i][j] * sc) for i in range(d) for j in range(d)]


def gen_target(rng):
    k = rng.choice(["gaussprec", "gaussprec", "gaussprec", "gauss2d", "rosen2d", "funnel", "quartic"])
    if k == "gaussprec":
        d = rng.randint(1, 8)
        return {"kind": k, "d": d, "prec": rand_prec(rng, d)}, d
    if k == "gauss2d":
        return {"kind": k, "mean": [fb(0.0), fb(1.0)], "cov": [fb(4.0), fb(2.0), fb(2.0), fb(3.0)]}, 2
    if k == "rosen2d":
        return {"kind": k, "a": fb(1.0), "b": fb(rng.choice([1.0, 10.0, 100.0]))}, 2
    if k == "funnel":
        return {"kind": k}, rng.randint(2, 5)
    return {"kind": k, "s": fb(rng.choice([1.0, 50.0, 1000.0]))}, rng.randint(1, 3)


def nan_target(rng):
    """targets whose log-density is NaN / -inf outside their support (a leapfrog step can reach such points)"""
    k = rng.choice(["logdomain", "ball", "halfline"])
    return {"kind": k}, rng.choice([1, 2])


def generate(rng, tier):
    n_cases = 90 if tier == "quick" else 1200
    cases = []
    # deep trees: a very wide 1-D Gaussian with step size 1 needs more than ten doublings before it U-turns
    for _ in range(2 if tier == "quick" else 8):
        cases.append({"op": "transitions", "f": "f64", "target": {"kind": "gaussprec", "d": 1, "prec": [fb(2.0 ** -20)]},
                      "init": [fb(0.0)], "accept": 0.8, "seed": str(rng.getrandbits(64)), "runs": [[2, 0]], "force_eps": fb(1.0)})
    # a chain restarted elsewhere between two runs (its position is a public field): the next transition must use the
    # log-density and gradient of the NEW position
    for _ in range(8 if tier == "quick" else 60):
        f = rng.choice(["f32", "f64"])
        d = rng.randint(1, 4)
        cases.append({"op": "transitions", "f": f, "target": {"kind": "gaussprec", "d": d, "prec": rand_prec(rng, d)},
                      "init": [fb(round(rng.uniform(-1.5, 1.5), 2)) for _ in range(d)], "accept": 0.8, "seed": str(rng.getrandbits(64)),
                      "runs": [[rng.randint(2, 3), rng.randint(0, 2)], [rng.randint(2, 3), 0]],
                      "reposition": [None, [fb(round(rng.uniform(-2.5, 2.5), 2)) for _ in range(d)]]})
    while len(cases) < n_cases:
        f = rng.choice(["f32", "f32", "f64"])
        tg, dim = gen_target(rng) if rng.random() < 0.85 else nan_target(rng)
        start = [fb(0.5)] + [fb(0.1)] * (dim - 1) if tg["kind"] in ("logdomain", "ball", "halfline") else [fb(round(rng.uniform(-1.5, 1.5), 2)) for _ in range(dim)]
        c = {"op": "transitions", "f": f, "target": tg, "init": start,
             "accept": rng.choice([0.6, 0.8, 0.95]), "seed": str(rng.getrandbits(64)),
             "runs": [[rng.randint(2, 5), rng.randint(0, 4)]]}
        r = rng.random()
        if r < 0.35:      # forced step sizes: tiny (long trees), huge (divergence / immediate U-turn)
            c["force_eps"] = fb(rng.choice([0.01, 0.03, 0.1, 0.5, 2.0, 8.0, 40.0, 300.0]))
            c["runs"] = [[rng.randint(2, 3), 0]]
        cases.append(c)
    return cases


def run_impl(cases):
    # NUTS has no depth cap: every case runs in its own process under a watchdog and a memory limit
    outs = C.run_isolated("C03", cases, watchdog_s=90, mem_gb=6)
    # second pass: the values an identically seeded generator yields for the draw kinds the model's grammar predicts
    idx = [i for i, (c, o) in enumerate(zip(cases, outs)) if draw_plan(c, o) is not None]
    if idx:
        rep = C.run_harness("C03", [{"op": "replay_draws", "f": cases[i]["f"], "seed": cases[i]["seed"], "kinds": draw_plan(cases[i], outs[i])[0]}
                                    for i in idx])
        for i, r in zip(idx, rep):
            outs[i]["replay"] = r["values"]
            # the same variates from the seed alone (Model.Ziggurat.mixed)
            zg = zigtie.prepare(cases[i]["f"], cases[i]["seed"], draw_plan(cases[i], outs[i])[0])
            if zg:
                outs[i]["zig"] = zg
    return outs


def draw_plan(case, out):
    """(kinds, emitted values) of every variate of the case's runs, in generation order; None when not applicable.
    Kinds per Model.NUTSEval.nuts_run_kinds: 0 normal, 1 Exp(1), 2 uniform in T, 3 uniform f64; the init_chain momenta
    are not emitted by the hook (None placeholders)."""
    if case.get("op") != "transitions" or "runs" not in out or case.get("events_filter") or "seed" not in case:
        return None
    kinds, vals = [], []
    for run in out["runs"]:
        d = len(case["init"])
        kinds += [0] * d
        vals += [None] * d
        for tr in N.split_transitions(run["events"]):
            kinds += [0] * d + [1]
            vals += list(tr["start"]["momentum"]) + [tr["start"]["exp1"]]
            for db in tr["doublings"]:
                kinds += [2] + [3] * len(db["merges"]) + [2]
                vals += [db["head"]["u1"]] + [mg["u"] for mg in db["merges"]] + [db["end"]["u2"]]
    return kinds, vals


def transitions(case, out):
    if "panic" in out or "timeout" in out or "crash" in out:
        return []
    trs = []
    for run in out["runs"]:
        trs += N.split_transitions(run["events"])
    return trs


def usable(tr):
    return sum(len(d["leaves"]) for d in tr["doublings"]) <= 600


def coq_term(case, out):
    if "timeout" in out or "crash" in out:
        return None
    trs = [t for t in transitions(case, out) if usable(t) and not N.ambiguous(t, case["f"])]
    if not trs:
        return None
    t = " ++ [-1000000007] ++ ".join("(%s)" % N.coq_term(t, case["f"]) for t in trs)
    if draw_plan(case, out) is not None:
        runs = "; ".join("[" + "; ".join(C.zlist([len(db["merges"]) for db in tr["doublings"]]).replace("]", "]%nat")
                                           for tr in N.split_transitions(run["events"])) + "]" for run in out["runs"])
        t += " ++ [%s] ++ concat (map (nuts_run_kinds %s) [%s])" % (C.z(GMARK), C.natlit(len(case["init"])), runs)
    rats = leaf_ratios(case, out)
    if rats:
        t += " ++ [%s] ++ %s %s" % (C.z(AMARK), "leaf_alphas32" if case["f"] == "f32" else "leaf_alphas64",
                                    C.zlist([N.tbits(case["f"], r) for r, a in rats]))
    lv0 = leaf_samples(case, out)
    zg = out.get("zig")
    ztail = ""
    if zg:
        ztail = " ++ " + zigtie.term(case["seed"], zg)
    lv = lv0
    if not lv:
        return t + ztail
    if lv:
        tg = case["target"]
        d = tg["d"]
        q = lambda b: N.dy(N.bf(b))
        A = "[" + "; ".join("[" + "; ".join(N.dy(C.f64_bits_to_float(tg["prec"][i * d + j])) for j in range(d)) + "]" for i in range(d)) + "]"
        t += " ++ [%s] ++ " % C.z(LMARK) + " ++ ".join(
            "(nuts_leaf_eval %s %s [%s] [%s])" % (A, N.dy(e), "; ".join(q(b) for b in prev["position"]), "; ".join(q(b) for b in prev["momentum"]))
            for (e, prev, leaf) in lv)
    return t + ztail


def leaf_ratios(case, out):
    """(ratio, alpha) of every leaf of the usable transitions (both as emitted bit patterns)"""
    res = []
    for tr in [t for t in transitions(case, out) if usable(t) and not N.ambiguous(t, case["f"])]:
        for db in tr["doublings"]:
            for lf in db["leaves"]:
                if "ratio" in lf:
                    res.append((lf["ratio"], lf["alpha"]))
    return res[:400]


def leaf_samples(case, out):
    """(signed step, previous trajectory point, leaf) for the first and last leaf of every doubling of the usable
    transitions on Gaussian targets: evaluated by Model.FindEps.nuts_leaf_eval (exact leapfrog step and joint density)"""
    if case["target"]["kind"] != "gaussprec" or "runs" not in out:
        return []
    res = []
    for tr in [t for t in transitions(case, out) if usable(t) and not N.ambiguous(t, case["f"])]:
        table, per = N.build_table(tr)
        eps = N.bf(tr["start"]["epsilon"])
        st = tr["start"]
        if N.finite_entry(st) and max(abs(N.bf(b)) for b in st["position"] + st["momentum"]) < 1e6:
            res.append((0.0, st, st))          # a step of size 0: the start point's own joint density (slice level = joint - Exp(1))
        for idxs in per:
            for i in sorted({idxs[0], idxs[-1]}) if idxs else []:
                v = 1 if i > 0 else -1
                prev, leaf = table[i - v], table[i]
                if N.finite_entry(prev) and N.finite_entry(leaf) and \
                        max(abs(N.bf(b)) for b in prev["position"] + prev["momentum"]) < 1e6 and math.isfinite(N.bf(leaf["joint"])):
                    res.append((eps * v, prev, leaf))
    return res[:24]


def split_model(model):
    parts, cur = [], []
    for x in model:
        if x == -1000000007:
            parts.append(cur)
            cur = []
        else:
            cur.append(x)
    parts.append(cur)
    return parts


def compare(case, out, model):
    if "timeout" in out or "crash" in out:
        return None
    if "panic" in out:
        return "implementation panicked: " + out["panic"]
    if model is None:
        return None
    trs = [t for t in transitions(case, out) if usable(t) and not N.ambiguous(t, case["f"])]
    lm = None
    model, zm = zigtie.split(model)
    if zm is not None:
        r = zigtie.check(case["f"], case["seed"], out["zig"], out["replay"], zm)
        if r:
            return r
    if LMARK in model:
        k = model.index(LMARK)
        model, lm = model[:k], model[k + 1:]
    if AMARK in model:
        k = model.index(AMARK)
        model, am = model[:k], model[k + 1:]
        for j, ((r, a), m) in enumerate(zip(leaf_ratios(case, out), am)):
            if N.tbits(case["f"], a) != m:
                return ("leaf %d: acceptance ratio %r enters the acceptance statistic as %r; the rule (0 for a NaN ratio, else min(1, ratio)) "
                        "gives %r" % (j, N.bf(r), N.bf(a), C.f32_bits_to_float(m) if case["f"] == "f32" else C.f64_bits_to_float(m)))
    if GMARK in model:
        k = model.index(GMARK)
        model, gm = model[:k], model[k + 1:]
        kinds, vals = draw_plan(case, out)
        if gm != kinds:
            return "draw grammar: the trace implies the kind sequence %s..., Model.NUTSEval.nuts_run_kinds gives %s..." % (kinds[:12], gm[:12])
        rp = out.get("replay")
        if rp is not None:
            for j, (kd, v, r) in enumerate(zip(kinds, vals, rp)):
                if v is not None and v != r:
                    return ("variate %d of the chain (kind %d: 0 normal, 1 Exp(1), 2 uniform, 3 uniform f64) is %r in the "
                            "implementation; an identically seeded generator drawing the model's kind sequence yields %r there"
                            % (j, kd, N.bf(v), N.bf(r)))
    if lm is not None:
        d = case["target"]["d"]
        # f64 backend on these targets (entries exactly representable): everything is computed in double precision, so a
        # single-precision detour anywhere (e.g. the start joint squeezed through f32) is far outside the tolerance
        tol = Fraction(1, 2 ** 11) if case["f"] == "f32" else Fraction(1, 2 ** 36)
        pos = 0
        for (e, prev, leaf) in leaf_samples(case, out):
            vals = [Fraction(lm[pos + 2 * j], lm[pos + 2 * j + 1]) for j in range(2 * d + 1)]
            pos += 2 * (2 * d + 1)
            got = [Fraction(N.bf(b)) for b in leaf["position"] + leaf["momentum"]] + [Fraction(N.bf(leaf["joint"]))]
            sc = 1 + max(abs(t) for t in vals[:2 * d] + [Fraction(N.bf(b)) for b in prev["position"] + prev["momentum"]])
            for j, (a, b) in enumerate(zip(got, vals)):
                scale = sc if j < 2 * d else 1 + abs(vals[-1]) + sum(t * t for t in vals[d:2 * d])
                if abs(a - b) > tol * scale * 4:
                    return "leaf after a step of %.6g from %s: %s %.9g, exact leapfrog / joint density (nuts_leaf_eval) gives %.9g" % (
                        e, [N.bf(b) for b in prev["position"]], "coordinate %d" % j if j < 2 * d else "joint", float(a), float(b))
        if pos != len(lm):
            return "internal: leaf evaluation misaligned"

    parts = split_model(model)
    if len(parts) != len(trs):
        return "model output malformed"
    for k, (t, m) in enumerate(zip(trs, parts)):
        r = N.expected(t, case["f"], m)
        if r:
            return "transition m=%d: %s" % (t["start"]["m"], r)
    return None


def leaf_dynamics(case, tr):
    """one-step numerics: every leaf is one leapfrog step of size +-eps from its trajectory neighbour (Gaussian targets)"""
    tg = case["target"]
    if tg["kind"] != "gaussprec":
        return None
    d = tg["d"]
    A = [[Fraction(C.f64_bits_to_float(tg["prec"][i * d + j])) for j in range(d)] for i in range(d)]
    table, per = N.build_table(tr)
    eps = Fraction(N.bf(tr["start"]["epsilon"]))
    tol = Fraction(1, 2 ** 11) if case["f"] == "f32" else Fraction(1, 2 ** 36)     # f64 backend: double precision throughout

    def grad(x):      # d/dx (-x^T A x / 2) = -(A + A^T) x / 2
        return [-sum((A[i][j] + A[j][i]) * x[j] for j in range(d)) / 2 for i in range(d)]

    def joint_of(ent):
        x = [Fraction(N.bf(b)) for b in ent["position"]]
        p = [Fraction(N.bf(b)) for b in ent["momentum"]]
        lp = -sum(x[i] * A[i][j] * x[j] for i in range(d) for j in range(d)) / 2
        ke = sum(t * t for t in p) / 2
        return lp - ke, 1 + abs(lp) + ke
    for i in sorted(table):
        if N.finite_entry(table[i]) and math.isfinite(N.bf(table[i]["joint"])) and \
                max(abs(N.bf(b)) for b in table[i]["position"] + table[i]["momentum"]) < 1e6:
            jx, jsc = joint_of(table[i])
            if abs(Fraction(N.bf(table[i]["joint"])) - jx) > tol * jsc * 4:
                return ("%s: joint log-density %.12g used by the transition, log p(x) - |p|^2/2 at that point is %.12g (%s backend: "
                        "relative accuracy %.1e expected)" % ("start point" if i == 0 else "trajectory point %d" % i,
                                                             N.bf(table[i]["joint"]), float(jx), case["f"], float(tol)))
        if i == 0:
            continue
        prev = table[i - 1] if i > 0 else table[i + 1]
        v = 1 if i > 0 else -1
        if not (N.finite_entry(prev) and N.finite_entry(table[i])):
            continue
        x = [Fraction(N.bf(b)) for b in prev["position"]]
        p = [Fraction(N.bf(b)) for b in prev["momentum"]]
        if max(abs(t) for t in x + p) > 10 ** 6:
            continue
        e = eps * v
        p1 = [pi + e / 2 * g for pi, g in zip(p, grad(x))]
        x1 = [xi + e * pi for xi, pi in zip(x, p1)]
        p2 = [pi + e / 2 * g for pi, g in zip(p1, grad(x1))]
        gx = [Fraction(N.bf(b)) for b in table[i]["position"]]
        gp = [Fraction(N.bf(b)) for b in table[i]["momentum"]]
        sc = 1 + max(abs(t) for t in x1 + p2 + x + p)
        for a, b in zip(gx + gp, x1 + p2):
            if abs(a - b) > tol * sc * 4:
                return "trajectory point %d is not one leapfrog step (size %s) from point %d: %.8g vs %.8g" % (
                    i, float(e), i - v, float(a), float(b))
    return None


def oracle(case, out):
    if "timeout" in out or "crash" in out:
        return ("%s (start %s, eps %s): the transition did not finish within the watchdog (%s) — the trajectory kept doubling "
                "although it must stop at a U-turn or at a divergence / non-finite leaf" % (
                    case["target"]["kind"], [N.bf(b) for b in case["init"]],
                    N.bf(case["force_eps"]) if "force_eps" in case else "adapted", out))
    if "panic" in out:
        return "NUTS panicked: " + out["panic"]
    if "replay" in out:
        kinds, vals = draw_plan(case, out)
        for j, (kd, v, r) in enumerate(zip(kinds, vals, out["replay"])):
            if v is not None and v != r:
                return ("seed %s: variate %d used by the chain (kind %d: 0 normal, 1 Exp(1), 2 uniform, 3 uniform f64) is %r, but the chain's "
                        "own seeded generator yields %r at that place of the sequence [d normals at run start; per transition d normals, "
                        "Exp(1), per doubling uniform, one f64 uniform per merge, uniform]" % (case["seed"], j, kd, N.bf(v), N.bf(r)))
    for t in transitions(case, out):
        r = N.oracle(t, case["f"])
        if r:
            return "%s, transition m=%d (eps=%r): %s" % (case["target"]["kind"], t["start"]["m"], N.bf(t["start"]["epsilon"]), r)
        r = leaf_dynamics(case, t)
        if r:
            return r
    return None


def finding_class(case, out, d):
    return None


def classes(tr):
    c = set()
    if len(tr["doublings"]) >= 2:
        c.add("multi-doubling")
    for db in tr["doublings"]:
        if any(not lf["s"] for lf in db["leaves"]):
            c.add("divergence")
        if len(db["leaves"]) < 2 ** db["head"]["j"]:
            c.add("inner-stop")
        if any(m["took"] for m in db["merges"]):
            c.add("candidate-replaced")
    return c


def nontrivial(case, out):
    return any(classes(t) for t in transitions(case, out))


def extra(cases, outs, model):
    cl = {}
    n_tr = amb = big = 0
    depth = 0
    for c, o in zip(cases, outs):
        for t in transitions(c, o):
            n_tr += 1
            depth = max(depth, len(t["doublings"]))
            if not usable(t):
                big += 1
            elif N.ambiguous(t, c["f"]):
                amb += 1
            for k in classes(t):
                cl[k] = cl.get(k, 0) + 1
    rp_cases = rp_vals = rp_bad = 0
    for c, o in zip(cases, outs):
        if isinstance(o, dict) and "replay" in o:
            kinds, vals = draw_plan(c, o)
            rp_cases += 1
            rp_vals += sum(1 for v in vals if v is not None)
            rp_bad += sum(1 for v, r in zip(vals, o["replay"]) if v is not None and v != r)
    return {"transitions": n_tr, "ambiguous": amb, "too_large_for_model": big, "classes": cl, "max_doublings": depth,
            "variates_computed_in_coq_from_seed": sum(len(o["zig"]["kinds"]) for o in outs if isinstance(o, dict) and o.get("zig")),
            "draw_replay": {"cases": rp_cases, "variates_compared": rp_vals, "differing": rp_bad,
                            "rule": "every momentum coordinate, slice variable, direction / merge / acceptance uniform of the trace equals what an "
                                    "identically seeded SmallRng yields when it draws the kind sequence of Model.NUTSEval.nuts_run_kinds"}}
