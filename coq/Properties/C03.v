From MiniMcmc Require Import Model.NUTSEval.
