From MiniMcmc Require Import Base.Fp Base.Util Model.Categorical.
From Coq Require Import Reals Lra Lia.
(* Model/Categorical.v leaves R_scope open; the IEEE layer works over nat *)
Close Scope R_scope.

(* ------------------------------------------------------------------ IEEE layer *)
Section CatProofs.
  Variables prec emax : Z.
  Context (Hprec : FLX.Prec_gt_0 prec) (Hmax : BinarySingleNaN.Prec_lt_emax prec emax).
  Notation fl := (binary_float prec emax).
  Variable nanf : fl -> fl -> { x : fl | Binary.is_nan prec emax x = true }.

  (* an entry is admissible when it is strictly positive or a (signed) zero *)
  Definition pos_or_zero (p : fl) : Prop :=
    fpos p = true \/ exists s, p = Binary.B754_zero prec emax s.

  (* ---- range ---- *)
  Lemma scan_range ps : forall i cum r k,
    scan nanf ps i cum r = Some k -> i <= k < i + length ps.
  Proof.
    induction ps as [|p t IH]; intros i cum r k H; simpl in H; [discriminate H|].
    destruct (flt r (fplus nanf cum p)).
    - inversion H; subst. simpl. lia.
    - apply IH in H. simpl. lia.
  Qed.

  Lemma last_pos_from_range ps : forall i acc,
    acc < i + length ps -> last_pos_from prec emax ps i acc < i + length ps.
  Proof.
    induction ps as [|p t IH]; intros i acc H; simpl in *; [exact H|].
    replace (i + S (length t)) with (S i + length t) by lia.
    apply IH. destruct (fpos p); lia.
  Qed.

  Lemma last_pos_range (ps : list fl) : ps <> [] -> last_pos ps < length ps.
  Proof.
    intros Hne. unfold last_pos.
    apply (last_pos_from_range ps 0 (length ps - 1)).
    destruct ps as [|p t]; [congruence|simpl; lia].
  Qed.

  Theorem cat_sample_in_range (ps : list fl) (r : fl) : ps <> [] -> cat_sample nanf ps r < length ps.
  Proof.
    intros Hne. unfold cat_sample.
    destruct (scan nanf ps 0 fzero r) as [k|] eqn:E.
    - apply scan_range in E. lia.
    - apply last_pos_range, Hne.
  Qed.

  (* ---- adding a zero does not change the outcome of the comparison ---- *)
  Lemma flt_nan_r (r x : fl) : Binary.is_nan prec emax x = true -> flt r x = false.
  Proof. intros H. destruct x; try discriminate H. destruct r; reflexivity. Qed.

  Lemma flt_plus_zero (r cum : fl) (s : bool) :
    flt r (fplus nanf cum (Binary.B754_zero prec emax s)) = flt r cum.
  Proof.
    destruct cum as [sc | sc | sc pl e | sc m e b].
    - (* zero + zero: a zero of some sign; comparisons do not see the sign of a zero *)
      unfold fplus, Binary.Bplus. simpl.
      destruct (Bool.eqb sc s); destruct r as [sr | sr | sr plr er | sr mr er br]; reflexivity.
    - reflexivity.
    - (* NaN + zero is a NaN *)
      transitivity false; [|symmetry; apply flt_nan_r; reflexivity].
      apply flt_nan_r. reflexivity.
    - reflexivity.
  Qed.

  (* ---- the scan only selects strictly positive entries ---- *)
  Lemma scan_selects_pos ps : forall i cum r k,
    (forall p, In p ps -> pos_or_zero p) ->
    flt r cum = false ->
    scan nanf ps i cum r = Some k ->
    fpos (nth (k - i) ps fzero) = true.
  Proof.
    induction ps as [|p t IH]; intros i cum r k Hall Hcum H; simpl in H; [discriminate H|].
    destruct (flt r (fplus nanf cum p)) eqn:E.
    - inversion H; subst. rewrite Nat.sub_diag. simpl.
      destruct (Hall p (or_introl eq_refl)) as [Hp|[s Hs]]; [exact Hp|].
      subst p. rewrite flt_plus_zero in E. congruence.
    - pose proof (scan_range _ _ _ _ _ H) as Hr.
      replace (k - i) with (S (k - S i)) by lia. simpl.
      apply (IH (S i) (fplus nanf cum p) r k); auto.
      intros q Hq. apply Hall. right. exact Hq.
  Qed.

  Lemma last_pos_from_spec ps : forall i acc,
    (last_pos_from prec emax ps i acc = acc /\ forall p, In p ps -> fpos p = false) \/
    (i <= last_pos_from prec emax ps i acc < i + length ps /\
     fpos (nth (last_pos_from prec emax ps i acc - i) ps fzero) = true).
  Proof.
    induction ps as [|p t IH]; intros i acc; simpl.
    - left. split; [reflexivity|]. intros p [].
    - destruct (IH (S i) (if fpos p then i else acc)) as [[Heq Hall]|[Hr Hp]].
      + rewrite Heq. destruct (fpos p) eqn:Ep.
        * right. split; [lia|]. rewrite Nat.sub_diag. exact Ep.
        * left. split; [reflexivity|]. intros q [<-|Hq]; [exact Ep|apply Hall, Hq].
      + right. split; [lia|].
        set (k := last_pos_from prec emax t (S i) (if fpos p then i else acc)) in *.
        replace (k - i) with (S (k - S i)) by lia. exact Hp.
  Qed.

  Lemma last_pos_pos (ps : list fl) :
    (exists p, In p ps /\ fpos p = true) -> fpos (nth (last_pos ps) ps fzero) = true.
  Proof.
    intros [p [Hin Hp]]. unfold last_pos.
    destruct (last_pos_from_spec ps 0 (length ps - 1)) as [[_ Hall]|[_ H]].
    - rewrite (Hall p Hin) in Hp. discriminate Hp.
    - rewrite Nat.sub_0_r in H. exact H.
  Qed.

  Theorem cat_sample_never_zero (ps : list fl) (r : fl) :
    (forall p, In p ps -> fpos p = true \/ exists s, p = Binary.B754_zero prec emax s) ->
    (exists p, In p ps /\ fpos p = true) ->
    flt r fzero = false ->
    fpos (nth (cat_sample nanf ps r) ps fzero) = true.
  Proof.
    intros Hall Hex Hr. unfold cat_sample.
    destruct (scan nanf ps 0 fzero r) as [k|] eqn:E.
    - pose proof (scan_selects_pos ps 0 fzero r k Hall Hr E) as H.
      rewrite Nat.sub_0_r in H. exact H.
    - apply last_pos_pos, Hex.
  Qed.
End CatProofs.

(* ------------------------------------------------------------------ refutation witness *)
(* weights [0.0; 1.0], r = +0.0: the rule `r <= cum` stops at index 0, whose probability is 0 *)
Definition old_ps : list (binary_float 24 128) :=
  cat_new binop_nan_pl32 (map b32_of_bits [0%Z; 1065353216%Z]).
Definition old_r : binary_float 24 128 := b32_of_bits 0%Z.

Lemma old_rule_witness :
  cat_sample_old binop_nan_pl32 old_ps old_r = 0 /\
  fpos (nth (cat_sample_old binop_nan_pl32 old_ps old_r) old_ps fzero) = false /\
  (forall p, In p old_ps -> fpos p = true \/ exists s, p = Binary.B754_zero 24 128 s) /\
  (exists p, In p old_ps /\ fpos p = true) /\
  flt old_r fzero = false.
Proof.
  split; [vm_compute; reflexivity|].
  split; [vm_compute; reflexivity|].
  split.
  - intros p Hin. destruct Hin as [Hp|[Hp|[]]]; subst p.
    + right. exists false. vm_compute. reflexivity.
    + left. vm_compute. reflexivity.
  - split; [|vm_compute; reflexivity].
    exists (nth 1 old_ps fzero). split.
    + apply nth_In. vm_compute. lia.
    + vm_compute. reflexivity.
Qed.

Lemma new_rule_witness :
  cat_sample binop_nan_pl32 old_ps old_r = 1 /\
  fpos (nth (cat_sample binop_nan_pl32 old_ps old_r) old_ps fzero) = true.
Proof. split; vm_compute; reflexivity. Qed.

(* ------------------------------------------------------------------ exact arithmetic *)
Open Scope R_scope.

Lemma sumlR_map_div l s : sumlR (map (fun w => w / s) l) = sumlR l / s.
Proof.
  induction l as [|a l IH]; simpl; [unfold Rdiv; ring|].
  fold (sumlR (map (fun w => w / s) l)). fold (sumlR l). rewrite IH. unfold Rdiv. ring.
Qed.

Theorem cat_new_R_normalised ws :
  (forall w, In w ws -> 0 <= w) -> 0 < sumlR ws ->
  sumlR (cat_new_R ws) = 1 /\ (forall p, In p (cat_new_R ws) -> 0 <= p).
Proof.
  intros Hnn Hs. unfold cat_new_R. split.
  - rewrite sumlR_map_div. field. lra.
  - intros p Hin. apply in_map_iff in Hin. destruct Hin as [w [<- Hw]].
    unfold Rdiv. apply Rmult_le_pos; [apply Hnn, Hw|].
    left. apply Rinv_0_lt_compat, Hs.
Qed.

Lemma sumlR_cons a l : sumlR (a :: l) = a + sumlR l.
Proof. reflexivity. Qed.

Lemma sumlR_firstn_nonneg l : forall n,
  (forall p, In p l -> 0 <= p) -> 0 <= sumlR (firstn n l).
Proof.
  induction l as [|a l IH]; intros [|n] H; simpl firstn; try (simpl; lra).
  rewrite sumlR_cons.
  assert (0 <= a) by (apply H; left; reflexivity).
  assert (0 <= sumlR (firstn n l)) by (apply IH; intros p Hp; apply H; right; exact Hp).
  lra.
Qed.

Lemma sumlR_firstn_S l : forall i,
  sumlR (firstn (S i) l) = sumlR (firstn i l) + nth i l 0.
Proof.
  induction l as [|a l IH]; intros [|i].
  - simpl. lra.
  - simpl. lra.
  - simpl. lra.
  - change (firstn (S (S i)) (a :: l)) with (a :: firstn (S i) l).
    change (firstn (S i) (a :: l)) with (a :: firstn i l).
    change (nth (S i) (a :: l) 0) with (nth i l 0).
    rewrite !sumlR_cons, IH. lra.
Qed.

Lemma scan_R_spec ps : forall (k : nat) (c r : R) (i : nat),
  (forall p, In p ps -> 0 <= p) -> c <= r ->
  (scan_R ps k c r = Some i <->
   (k <= i < k + length ps)%nat /\
   c + sumlR (firstn (i - k) ps) <= r < c + sumlR (firstn (S (i - k)) ps)).
Proof.
  induction ps as [|p t IH]; intros k c r i Hnn Hc.
  - simpl. split; [discriminate|]. intros [Hk _]. lia.
  - assert (Hp : 0 <= p) by (apply Hnn; left; reflexivity).
    assert (Hnn' : forall q, In q t -> 0 <= q) by (intros q Hq; apply Hnn; right; exact Hq).
    simpl scan_R. simpl length.
    destruct (Rlt_dec r (c + p)) as [Hlt|Hge].
    + split.
      * intros H. inversion H; subst i. rewrite Nat.sub_diag.
        split; [lia|]. simpl. lra.
      * intros [Hk [Hlo Hhi]].
        destruct (Nat.eq_dec i k) as [->|Hne]; [reflexivity|exfalso].
        replace (i - k)%nat with (S (i - S k)) in Hlo by lia.
        change (firstn (S (i - S k)) (p :: t)) with (p :: firstn (i - S k) t) in Hlo.
        rewrite sumlR_cons in Hlo.
        pose proof (sumlR_firstn_nonneg t (i - S k) Hnn') as Hs. lra.
    + assert (Hc' : c + p <= r) by lra.
      rewrite (IH (S k) (c + p) r i Hnn' Hc').
      split.
      * intros [Hk [Hlo Hhi]]. split; [lia|].
        replace (i - k)%nat with (S (i - S k)) by lia.
        change (firstn (S (S (i - S k))) (p :: t)) with (p :: firstn (S (i - S k)) t).
        change (firstn (S (i - S k)) (p :: t)) with (p :: firstn (i - S k) t).
        rewrite !sumlR_cons. lra.
      * intros [Hk [Hlo Hhi]].
        destruct (Nat.eq_dec i k) as [->|Hne].
        { exfalso. rewrite Nat.sub_diag in Hhi. simpl in Hhi. lra. }
        replace (i - k)%nat with (S (i - S k)) in Hlo, Hhi by lia.
        change (firstn (S (S (i - S k))) (p :: t)) with (p :: firstn (S (i - S k)) t) in Hhi.
        change (firstn (S (i - S k)) (p :: t)) with (p :: firstn (i - S k) t) in Hlo.
        rewrite !sumlR_cons in *. split; [lia|]. lra.
Qed.

Theorem scan_R_law ps r i :
  (forall p, In p ps -> 0 <= p) -> 0 <= r ->
  (scan_R ps 0 0 r = Some i <->
   (i < length ps)%nat /\ cumR ps i <= r < cumR ps (S i)).
Proof.
  intros Hnn Hr. rewrite (scan_R_spec ps 0%nat 0 r i Hnn Hr).
  unfold cumR. rewrite Nat.sub_0_r, !Rplus_0_l. simpl plus.
  split; intros [Hk H]; (split; [lia|exact H]).
Qed.

Theorem scan_R_never_zero ps r i :
  (forall p, In p ps -> 0 <= p) -> 0 <= r ->
  scan_R ps 0 0 r = Some i -> 0 < nth i ps 0.
Proof.
  intros Hnn Hr H. apply (scan_R_law ps r i Hnn Hr) in H.
  destruct H as [_ [Hlo Hhi]]. unfold cumR in *.
  rewrite sumlR_firstn_S in Hhi. lra.
Qed.
