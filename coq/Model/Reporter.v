(* Model of the progress machinery (core.rs ChainRunner::run_progress / nuts.rs NUTS::run_progress):
   (a) the chain worker run_chain_progress: run_chain plus messages whose sends may fail;
   (b) the reporter thread as a transition system (the body of its `loop`). *)
From MiniMcmc Require Export Base.Util Model.Run.
From Coq Require Export NArith.

(* ------------------------------------------------------------------ (a) chain worker *)
Section Worker.
  Context {St Row : Type}.
  Variable step : St -> St.
  Variable obs : St -> Row.
  Variable zero : Row.
  (* `due i` : has a second passed since the last message (wall clock: arbitrary);
     `send k` : does the k-th send succeed (receiver alive) — arbitrary; its result is only logged *)
  Variable due : nat -> bool.
  Variable send : nat -> bool.

  (* state: chain state, output rows, number of tracker updates (= ChainStats.n), messages sent
     so far as (n, delivered?) *)
  Fixpoint worker_loop (k i d total : nat) (s : St) (out : list Row) (msgs : list (nat * bool))
    : St * list Row * list (nat * bool) :=
    match k with
    | O => (s, out, msgs)
    | S k' =>
        let s' := step s in
        let n_tracked := S i in                       (* tracker.step was called i+1 times *)
        let msgs' := if due i || Nat.eqb i (total - 1)
                     then msgs ++ [(n_tracked, send (length msgs))] else msgs in
        let out' := if d <=? i then upd (i - d) (obs s') out else out in
        worker_loop k' (S i) d total s' out' msgs'
    end.

  Definition run_chain_progress_impl (s : St) (n d : nat) : St * list Row * list (nat * bool) :=
    worker_loop (n + d) 0 d (n + d) s (repeat zero n) [].
End Worker.

(* ------------------------------------------------------------------ (b) reporter *)
Record rep := { recent : list (option N);    (* last message's n per chain *)
                active : list nat;           (* chain indices currently holding a progress bar *)
                next_active : nat;
                n_finished : nat }.

Definition rep_init (n_chains : nat) : rep :=
  {| recent := repeat None n_chains;
     active := seq 0 (Nat.min n_chains 5);
     next_active := Nat.min n_chains 5;
     n_finished := 0 |}.

(* the reporter has received (and kept as most recent) a message with n = m from chain i *)
Definition deliver (i : nat) (m : N) (r : rep) : rep :=
  {| recent := upd i (Some m) (recent r); active := active r;
     next_active := next_active r; n_finished := n_finished r |}.

Definition fin (total : N) (r : rep) (i : nat) : bool :=
  match nth i (recent r) None with Some m => N.eqb m total | None => false end.

(* walk `active` left to right: a finished entry is replaced by chain `next` (incrementing it)
   while chains remain, otherwise dropped; unfinished entries stay *)
Fixpoint walk (total : N) (r : rep) (n_chains : nat) (act : list nat) (next : nat) : list nat * nat :=
  match act with
  | [] => ([], next)
  | a :: t =>
      if fin total r a then
        if next <? n_chains then let (t', nx) := walk total r n_chains t (S next) in (next :: t', nx)
        else walk total r n_chains t next
      else let (t', nx) := walk total r n_chains t next in (a :: t', nx)
  end.

(* one iteration of the loop body (after the channels have been drained into `recent`) *)
Definition tick (total : N) (r : rep) : rep :=
  let n_chains := length (recent r) in
  let newly := length (filter (fin total r) (active r)) in
  let (act', next') := walk total r n_chains (active r) (next_active r) in
  {| recent := recent r; active := act'; next_active := next'; n_finished := n_finished r + newly |}.

Definition rep_done (r : rep) : bool := length (recent r) <=? n_finished r.

(* replay of observed iterations: each element is the `recent` vector the implementation had
   after draining its channels in that iteration; output per iteration:
   [n_finished; next_active; |active|; active...] *)
Definition set_recent (rc : list (option N)) (r : rep) : rep :=
  {| recent := rc; active := active r; next_active := next_active r; n_finished := n_finished r |}.

(* draining the channels = delivering, chain by chain, the latest message each chain has sent so far *)
Definition deliver_all (rc : list (option N)) (r : rep) : rep :=
  fold_left (fun r im => match snd im with Some m => deliver (fst im) m r | None => r end)
            (combine (seq 0 (length rc)) rc) r.

Fixpoint replay (total : N) (r : rep) (snaps : list (list (option N))) : list Z :=
  match snaps with
  | [] => []
  | rc :: t =>
      let r' := tick total (deliver_all rc r) in
      (Z.of_nat (n_finished r') :: Z.of_nat (next_active r') :: Z.of_nat (length (active r'))
         :: map Z.of_nat (active r')) ++ [if rep_done r' then 1%Z else 0%Z] ++ replay total r' t
  end.

Definition zopt (z : Z) : option N := if (z <? 0)%Z then None else Some (Z.to_N z).
Definition reporter_eval (total : Z) (n_chains : nat) (snaps : list (list Z)) : list Z :=
  replay (Z.to_N total) (rep_init n_chains) (map (map zopt) snaps).

(* ---- chain worker on the harness's counting chain (c10.rs SlowChain: x_k += k+1 from [1;2;3]); no
   one-second tick elapses (due = false); every send succeeds or every send fails.
   Output: final state, rows, then the messages as (n, delivered) pairs ---- *)
Definition slow_step (s : list Z) : list Z :=
  map (fun kx => (snd kx + Z.of_nat (fst kx) + 1)%Z) (combine (seq 0 (length s)) s).
Definition worker_eval (n d : nat) (delivered : Z) : list Z :=
  let '(s, rows, msgs) :=
    run_chain_progress_impl (St := list Z) (Row := list Z) slow_step (fun s => s) [0; 0; 0]%Z (fun _ => false)
                            (fun _ => negb (Z.eqb delivered 0)) [1; 2; 3]%Z n d in
  s ++ concat rows ++ concat (map (fun m : nat * bool => [Z.of_nat (fst m); if snd m then 1%Z else 0%Z]) msgs).

(* numbers of transitions behind each returned row (and the final state) in progress mode, as Run.real_idx
   does for plain runs: kind 2 = NUTS::run_progress, otherwise core::run_chain_progress *)
Definition progress_idx (kind n d : nat) : list Z :=
  match kind with
  | 2 => let r := nuts_run_progress_impl S (fun s => s) 0 0 n d in map Z.of_nat (snd r ++ [fst r])
  | _ => let '(s, rows, _) := run_chain_progress_impl (St := nat) (Row := nat) S (fun s => s) 0 (fun _ => false) (fun _ => true) 0 n d in
         map Z.of_nat (rows ++ [s])
  end.
