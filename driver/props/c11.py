"""C11 — split R-hat = sqrt(var+/W) of the half-chains; run summary."""
from fractions import Fraction
import math
import common as C
from props import statgen

ID = "C11"
LEVEL = "proof"
COQ_HEADER = "From MiniMcmc Require Import Model.StatsEval."
RULE = ("sample arrays 1..16 chains x 4..400 draws (odd and even; thorough up to 5000) x 1..8 parameters, integer/dyadic "
        "values: iid, AR(1) (positive and negative), trending, bimodal, chains displaced by 1..10^4 sd, constant columns, "
        "element types f32/f64/i32; split_rhat_mean_ess(...).0^2 compared with var+/W from the exact Q model (relative "
        "tolerance 2^-12 + conditioning terms); RunStats summary min/median/max compared exactly with Model.Summary.basic_sel32 "
        "on the implementation's own values, mean/std within tolerance; basic_stats on vectors with NaNs for no-panic and "
        "total-order selection. Non-trivial: >= 2 chains or an odd number of draws, and W > 0.")
TRUSTED = ["ndarray mean/std kernels (summation order) — compared to tolerance", "slice::sort_by sorts when the comparator is a total order"]
ASSUMPTIONS = ["W uses divisor n (the code's convention, see DESIGN.md C11 remark)"]
EPS = 2.0 ** -24


def generate(rng, tier):
    n_cases = 260 if tier == "quick" else 3000
    cases = [
        {"op": "split", "ty": "f32", "e": 0, "style": "witness-D5",
         "data": [[[0], [1], [0], [1]], [[100], [101], [100], [101]]]},
    ]
    # basic_stats directly, with NaNs at random positions
    for _ in range(40 if tier == "quick" else 400):
        n = rng.choice([1, 2, 3, 5, 8, 30, 40, 64, 100])
        bits = []
        for _ in range(n):
            r = rng.random()
            if r < 0.25:
                bits.append(rng.choice([0x7FC00000, 0xFFC00000, 0x7F800001]))
            elif r < 0.35:
                bits.append(rng.choice([0x7F800000, 0xFF800000, 0, 0x80000000]))
            else:
                bits.append(C.float_to_f32_bits(rng.uniform(-5, 5)))
        cases.append({"op": "basic", "bits": bits})
    while len(cases) < n_cases:
        m = rng.choice([1, 2, 3, 4, 8, 16]) if rng.random() < 0.7 else rng.randint(1, 16)
        p = rng.choice([1, 1, 2, 3, 8])
        r = rng.random()
        if r < 0.55:
            n = rng.randint(4, 30)
        elif r < 0.9:
            n = rng.randint(31, 200)
        else:
            n = rng.randint(201, 400 if tier == "quick" else 5000)
        if m * p * n > 12000:
            n = max(4, 12000 // (m * p))
        data, style = statgen.gen_array(rng, m, n, p)
        ty = rng.choice(["f32", "f32", "f64", "i32"])
        # incl. very small scales (split R-hat is scale-free: no absolute threshold on W may decide anything)
        e = 0 if ty == "i32" else rng.choice([0, 0, -3, 2, -16, -24])
        if rng.random() < 0.05:      # constant column -> NaN / inf diagnostics must not crash the summary
            for c in range(m):
                for t in range(n):
                    data[c][t][0] = 7
            style += "+const"
        cases.append({"op": "split", "ty": ty, "e": e, "data": data, "style": style,
                      "layout": rng.choice(["std", "std", "perm", "fortran"])})
    return cases


def qlit(m, e):
    return "(dy %s %s)" % (C.z(m), C.z(e))


def columns(case):
    data, e = case["data"], case["e"]
    m, n, p = len(data), len(data[0]), len(data[0][0])
    for k in range(p):
        yield "[" + "; ".join("[" + "; ".join(qlit(data[c][t][k], e) for t in range(n)) + "]" for c in range(m)) + "]"


def coq_term(case, out):
    if "panic" in out:
        return None
    if case["op"] == "basic":
        return "basic_sel32 %s" % C.zlist(case["bits"])
    parts = ["c11_eval %s" % col for col in columns(case)]
    parts.append("basic_sel32 %s" % C.zlist(out["rhat"]))
    parts.append("basic_sel32 %s" % C.zlist(out["ess"]))
    return " ++ ".join("(%s)" % q for q in parts)


def tol_rel(case, k, W):
    data, e = case["data"], case["e"]
    n = len(data[0])
    mx = max(abs(data[c][t][k]) for c in range(len(data)) for t in range(n)) * 2.0 ** e
    sd = math.sqrt(float(W)) if W > 0 else 1.0
    return Fraction(2.0 ** -12 + 8 * EPS * (mx / sd) + 4 * n * EPS)


def summary_ok(vals_bits, summ, sel):
    """min/median/max exact (as selected by the model), mean/std within tolerance when finite."""
    if [summ["min"], summ["median"], summ["max"]] != sel:
        return "summary (min, median, max) = %s, total-order selection of the same values gives %s" % (
            [summ["min"], summ["median"], summ["max"]], sel)
    vals = [C.f32_bits_to_float(b) for b in vals_bits]
    if all(math.isfinite(v) for v in vals):
        mean = sum(vals) / len(vals)
        gm = C.f32_bits_to_float(summ["mean"])
        sc = max(abs(v) for v in vals) + 1e-30
        if abs(gm - mean) > 1e-5 * sc:
            return "summary mean %r, true mean %r" % (gm, mean)
        if len(vals) >= 2:
            sd = math.sqrt(sum((v - mean) ** 2 for v in vals) / (len(vals) - 1))
            gs = C.f32_bits_to_float(summ["std"])
            if abs(gs - sd) > 1e-4 * sc + 1e-3 * sd:
                return "summary std %r, sample standard deviation %r" % (gs, sd)
    return None


def compare(case, out, model):
    if "panic" in out:
        return "implementation panicked: " + out["panic"]
    if model is None:
        return None
    if case["op"] == "basic":
        return summary_ok(case["bits"], out, model)
    p = len(case["data"][0][0])
    for k in range(p):
        W = Fraction(model[6 * k], model[6 * k + 1])
        V = Fraction(model[6 * k + 2], model[6 * k + 3])
        R2 = Fraction(model[6 * k + 4], model[6 * k + 5])
        g = C.f32_bits_to_float(out["rhat"][k])
        if W == 0:
            continue                     # undefined diagnostic (constant column): NaN/inf allowed
        ref = R2                         # Model.Stats.split_rhat2 evaluated in Q
        if ref != V / W:
            return "param %d: model split_rhat2 = %s but var+/W = %s" % (k, float(ref), float(V / W))
        if not math.isfinite(g):
            return "param %d: R-hat is %r but W=%s > 0" % (k, g, float(W))
        g2 = Fraction(g) ** 2
        if abs(g2 - ref) > tol_rel(case, k, W) * ref:
            return "param %d: R-hat^2 = %.8g, model var+/W = %.8g" % (k, float(g2), float(ref))
    pos = 6 * p
    r = summary_ok(out["rhat"], out["rs_rhat"], model[pos:pos + 3])
    if r:
        return "R-hat " + r
    r = summary_ok(out["ess"], out["rs_ess"], model[pos + 3:pos + 6])
    if r:
        return "ESS " + r
    return None


def oracle(case, out):
    """Property text recomputed directly (exact rationals): sqrt(var+/W) on the halves, >= sqrt((n-1)/n)."""
    if "panic" in out:
        return "%s panicked: %s" % ("basic_stats" if case["op"] == "basic" else "split_rhat_mean_ess/RunStats", out["panic"])
    if case["op"] == "basic":
        vals = [C.f32_bits_to_float(b) for b in case["bits"]]
        if all(math.isfinite(v) for v in vals):
            mn, mx = C.f32_bits_to_float(out["min"]), C.f32_bits_to_float(out["max"])
            if mn != min(vals) or mx != max(vals):
                return "finite input: summary min/max (%r,%r), true (%r,%r)" % (mn, mx, min(vals), max(vals))
        return None
    data, e = case["data"], case["e"]
    m, n, p = len(data), len(data[0]), len(data[0][0])
    h = n // 2
    sc = Fraction(2) ** e
    # run summary = true minimum / maximum of the per-parameter values (when all are finite), whatever the memory layout
    for name, vals in (("rhat", out["rhat"]), ("ess", out["ess"])):
        fv = [C.f32_bits_to_float(b) for b in vals]
        if all(math.isfinite(v) for v in fv):
            summ = out["rs_" + name]
            if C.f32_bits_to_float(summ["max"]) != max(fv) or C.f32_bits_to_float(summ["min"]) != min(fv):
                return ("run summary of %s (layout %s): min/max reported (%r, %r) but the per-parameter values have (%r, %r)" % (
                    name, case.get("layout", "std"), C.f32_bits_to_float(summ["min"]), C.f32_bits_to_float(summ["max"]), min(fv), max(fv)))
    for k in range(p):
        halves = []
        for c in range(m):
            col = [Fraction(data[c][t][k]) * sc for t in range(n)]
            halves.append(col[:h])
        for c in range(m):
            col = [Fraction(data[c][t][k]) * sc for t in range(n)]
            halves.append(col[n - h:])
        M = len(halves)
        means = [sum(x) / h for x in halves]
        overall = sum(means) / M
        W = sum(sum((v - mu) ** 2 for v in x) / h for x, mu in zip(halves, means)) / M
        B = sum((mu - overall) ** 2 for mu in means) * h / (M - 1)
        V = Fraction(h - 1, h) * W + B / h
        if W == 0:
            continue
        ref = V / W
        g = C.f32_bits_to_float(out["rhat"][k])
        if not math.isfinite(g):
            return "param %d: R-hat is %r although W > 0" % (k, g)
        g2 = Fraction(g) ** 2
        tol = tol_rel(case, k, W)
        if abs(g2 - ref) > tol * ref:
            return "param %d (%d chains x %d draws): reported split R-hat %.6g, sqrt(var+/W) of the halves = %.6g" % (
                k, m, n, g, math.sqrt(float(ref)))
        if g2 < Fraction(h - 1, h) * (1 - tol):
            return "param %d: R-hat %.6g below sqrt((n-1)/n)" % (k, g)
    return None


def finding_class(case, out, d):
    return None


def nontrivial(case, out):
    if case["op"] != "split":
        return any((b & 0x7F800000) == 0x7F800000 and (b & 0x7FFFFF) for b in case["bits"]) and len(case["bits"]) >= 3
    return (len(case["data"]) >= 2 or len(case["data"][0]) % 2 == 1) and "const" not in case.get("style", "")


def extra(cases, outs, model):
    st = {}
    for c in cases:
        st[c.get("style", c["op"])] = st.get(c.get("style", c["op"]), 0) + 1
    return {"input_styles": st, "odd_lengths": sum(1 for c in cases if c["op"] == "split" and len(c["data"][0]) % 2 == 1),
            "max_draws": max([len(c["data"][0]) for c in cases if c["op"] == "split"] + [0])}
