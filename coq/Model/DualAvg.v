(* Model of the step-size adaptation in nuts.rs (NUTSChain::step tail, init_chain,
   find_reasonable_epsilon): Nesterov dual averaging with gamma = 0.05, t0 = 10, kappa = 0.75,
   shrinkage point mu = ln(10 * eps0); frozen after warm-up.  Generic over a number structure
   with exp / ln / sqrt, instantiated at R (theorems) and at Interval's floating-point
   intervals (evaluation inside Coq, 80 bits). *)
From Coq Require Export ZArith List.
From Coq Require Import Reals.
From Bignums Require Import BigZ.
From Interval Require Import Specific_bigint Specific_ops Float_full Interval Xreal Basic.
Export ListNotations.

Record TNum := {
  tT :> Type;
  tadd : tT -> tT -> tT; tsub : tT -> tT -> tT; tmul : tT -> tT -> tT; tdiv : tT -> tT -> tT;
  tofZ : Z -> tT; texp : tT -> tT; tln : tT -> tT; tsqrt : tT -> tT
}.

Definition tnumR : TNum := {|
  tT := R; tadd := Rplus; tsub := Rminus; tmul := Rmult; tdiv := Rdiv;
  tofZ := IZR; texp := exp; tln := ln; tsqrt := sqrt |}.

Module F := SpecificFloat BigIntRadix2.
Module I := FloatIntervalFull F.
Definition iprec := F.PtoP 80.
Definition tnumI : TNum := {|
  tT := I.type; tadd := I.add iprec; tsub := I.sub iprec; tmul := I.mul iprec; tdiv := I.div iprec;
  tofZ := I.fromZ iprec; texp := I.exp iprec; tln := I.ln iprec; tsqrt := I.sqrt iprec |}.

Section DualAvg.
  Variable K : TNum.
  Notation "a + b" := (tadd K a b).
  Notation "a - b" := (tsub K a b).
  Notation "a * b" := (tmul K a b).
  Notation "a / b" := (tdiv K a b).
  Definition ofN (n : nat) : K := tofZ K (Z.of_nat n).
  Definition one : K := tofZ K 1.

  Record dastate := { da_m : nat; da_eps : K; da_eps_bar : K; da_h_bar : K; da_mu : K }.

  Variables delta gamma kappa : K.       (* target acceptance, 0.05, 0.75 (as rounded to T) *)
  Variable t0 : nat.                     (* 10 *)

  (* tail of NUTSChain::step: `a` = alpha / n_alpha of the transition just performed,
     `nd` = the warm-up length (n_discard of the current run) *)
  Definition da_step (nd : nat) (st : dastate) (a : K) : dastate :=
    let m := S (da_m st) in
    let eta := one / ofN (m + t0) in
    let h := (one - eta) * da_h_bar st + eta * (delta - a) in
    if Nat.leb m nd then
      let eps := texp K (da_mu st - tsqrt K (ofN m) / gamma * h) in
      let eta2 := texp K ((tofZ K 0 - kappa) * tln K (ofN m)) in                   (* m^(-kappa) *)
      let eb := texp K ((one - eta2) * tln K (da_eps_bar st) + eta2 * tln K eps) in
      {| da_m := m; da_eps := eps; da_eps_bar := eb; da_h_bar := h; da_mu := da_mu st |}
    else
      {| da_m := m; da_eps := da_eps_bar st; da_eps_bar := da_eps_bar st; da_h_bar := h; da_mu := da_mu st |}.

  (* init_chain at the start of every run(): mu := ln(10 * eps) (eps from the heuristic on first use) *)
  Definition da_init (st : dastate) : dastate :=
    {| da_m := da_m st; da_eps := da_eps st; da_eps_bar := da_eps_bar st; da_h_bar := da_h_bar st;
       da_mu := tln K (tofZ K 10 * da_eps st) |}.

  Definition da_run (nd : nat) (st : dastate) (accs : list K) : dastate :=
    fold_left (da_step nd) accs (da_init st).
End DualAvg.

(* ---- find_reasonable_epsilon over an oracle `lap eps` = log acceptance probability of one
   leapfrog step of size eps from the start point (exact arithmetic; the halving loop for
   non-finite values is not part of this model).  lnhalf = ln(1/2). ---- *)
Section FindEps.
  Variable lap : R -> R.
  Definition direction (e0 : R) : R := if Rlt_dec (ln (1 / 2)) (lap e0) then 1%R else (-1)%R.
  (* while a * lap(eps) > -a * ln 2 { eps := eps * 2^a } *)
  Fixpoint find_loop (fuel : nat) (a eps : R) : option R :=
    match fuel with
    | O => None
    | S f => if Rlt_dec (- a * ln 2) (a * lap eps)
             then find_loop f a (eps * Rpower 2 a)
             else Some eps
    end.
  (* find_reasonable_epsilon as written: the first leapfrog is taken with step size 1; its log acceptance
     probability lap 1 decides the direction a AND is the value of the first loop test, while `epsilon` has
     already been set to 0.5 (= half * k * epsilon with k = 1 when that first step is finite); every later
     test uses lap at the current epsilon. *)
  Definition find_eps (fuel : nat) : option R :=
    let a := direction 1 in
    if Rlt_dec (- a * ln 2) (a * lap 1)
    then find_loop fuel a (1 / 2 * Rpower 2 a)
    else Some (1 / 2)%R.
End FindEps.

(* ---- evaluation in interval arithmetic ---- *)
Definition idy (m e : Z) : I.type :=
  if (0 <=? e)%Z then I.mul iprec (I.fromZ iprec m) (I.fromZ iprec (2 ^ e))
  else I.div iprec (I.fromZ iprec m) (I.fromZ iprec (2 ^ (- e))).

Definition fout (x : F.type) : list Z :=
  match F.toF x with
  | Basic.Float s m e => [if s then (-1)%Z else 1%Z; Zpos m; e]
  | Basic.Fzero => [0%Z; 0%Z; 0%Z]
  | Basic.Fnan => [2%Z; 0%Z; 0%Z]
  end.
Definition iout (x : I.type) : list Z :=
  match x with
  | Float.Ibnd l u => fout l ++ fout u
  | Float.Inan => [2; 0; 0; 2; 0; 0]%Z
  end.

(* one adaptation step from the emitted previous state; output: enclosures of eps, eps_bar, h_bar *)
Definition da_eval (delta gamma kappa : I.type) (nd m : nat) (eps eb h mu a : I.type) : list Z :=
  let st : dastate tnumI := Build_dastate tnumI m eps eb h mu in
  let st' := da_step tnumI delta gamma kappa 10 nd st a in
  iout (da_eps tnumI st') ++ iout (da_eps_bar tnumI st') ++ iout (da_h_bar tnumI st').
(* mu after init_chain: Model da_init on a state whose step size is eps *)
Definition mu_eval (eps : I.type) : list Z :=
  iout (da_mu tnumI (da_init tnumI (Build_dastate tnumI 0 eps eps eps eps))).
(* a whole run(): init_chain, then one adaptation step per transition (acceptance statistics accs);
   output: the counter, then enclosures of eps, eps_bar, h_bar, mu at the end of the run *)
Definition da_run_eval (delta gamma kappa : I.type) (nd m : nat) (eps eb h mu : I.type) (accs : list I.type) : list Z :=
  let st' := da_run tnumI delta gamma kappa 10 nd (Build_dastate tnumI m eps eb h mu) accs in
  [Z.of_nat (da_m tnumI st')] ++ iout (da_eps tnumI st') ++ iout (da_eps_bar tnumI st')
  ++ iout (da_h_bar tnumI st') ++ iout (da_mu tnumI st').
