//! Correspondence-check harness: reads one JSON case per line on stdin, runs it against the
//! mini-mcmc implementation in /repo's working tree (hooks on), prints one JSON result per line.
mod c01;
mod c02;
mod c03;
mod c05;
mod c06;
mod c07;
mod c09;
mod c10;
mod c14;
mod c15;
mod c16;
mod c17;
mod stats;
mod util;
mod zoo;
use std::io::{BufRead, Write};

fn main() {
    let pid = std::env::args().nth(1).expect("property id");
    std::panic::set_hook(Box::new(|_| {}));
    let stdin = std::io::stdin();
    let stdout = std::io::stdout();
    for line in stdin.lock().lines() {
        let line = line.unwrap();
        if line.trim().is_empty() {
            continue;
        }
        let case: serde_json::Value = serde_json::from_str(&line).expect("json case");
        let res = util::guarded(|| match pid.as_str() {
            "C01" => c01::run(&case),
            "C02" => c02::run(&case),
            "C03" | "C04" => c03::run(&case),
            "C05" => c05::run(&case),
            "C06" => c06::run(&case),
            "C07" | "C18" => c07::run(&case),
            "C08" => c07::run08(&case),
            "C09" => c09::run(&case),
            "C10" => c10::run(&case),
            "C14" => c14::run(&case),
            "C15" => c15::run(&case),
            "C16" => c16::run(&case),
            "C17" => c17::run(&case),
            "C11" | "C12" | "C13" => stats::run(&case),
            p => panic!("unknown property {p}"),
        });
        let mut o = stdout.lock();
        writeln!(o, "{}", res).unwrap();
        o.flush().unwrap();
    }
}
