(* The state transition of the SmallRng model (Base/Rng.v: xoshiro256++) is a bijection on
   well-formed states, with an explicit inverse; hence two generators that start in different
   states are in different states after every number of draws, and the j-th output of a
   generator is a function of its state after j transitions. *)
From MiniMcmc Require Import Base.Rng Proofs.Rng Base.Util.
From Coq Require Import ZifyN Lia Bool.
Open Scope N_scope.

(* ------------------------------------------------------- wrapped left shifts *)
Lemma shl64_spec : forall a k n,
  N.testbit (shl64 a k) n =
  if n <? 64 then (if n <? k then false else N.testbit a (n - k)) else false.
Proof.
  intros a k n. unfold shl64, wrap. rewrite W64_pow2.
  destruct (N.ltb_spec n 64) as [L|G].
  - rewrite N.mod_pow2_bits_low by exact L.
    destruct (N.ltb_spec n k) as [L'|G'].
    + apply N.shiftl_spec_low. exact L'.
    + apply N.shiftl_spec_high'. exact G'.
  - apply N.mod_pow2_bits_high. exact G.
Qed.

Lemma shl64_lxor : forall a b k, shl64 (N.lxor a b) k = N.lxor (shl64 a k) (shl64 b k).
Proof.
  intros a b k. apply N.bits_inj. intro n.
  rewrite N.lxor_spec, !shl64_spec.
  destruct (n <? 64); [|reflexivity].
  destruct (n <? k); [reflexivity|]. apply N.lxor_spec.
Qed.

Lemma shl64_shl64 : forall a j k, shl64 (shl64 a j) k = shl64 a (j + k).
Proof.
  intros a j k. apply N.bits_inj. intro n.
  rewrite (shl64_spec (shl64 a j) k n), (shl64_spec a (j + k) n).
  destruct (N.ltb_spec n 64) as [L|G]; [|reflexivity].
  destruct (N.ltb_spec n k) as [L1|G1].
  - destruct (N.ltb_spec n (j + k)) as [L2|G2]; [reflexivity|lia].
  - rewrite (shl64_spec a j (n - k)).
    destruct (N.ltb_spec (n - k) 64) as [L3|G3]; [|lia].
    destruct (N.ltb_spec (n - k) j) as [L4|G4];
      destruct (N.ltb_spec n (j + k)) as [L2|G2]; try reflexivity; try lia.
    f_equal. lia.
Qed.

Lemma shl64_high : forall a k, 64 <= k -> shl64 a k = 0.
Proof.
  intros a k Hk. apply N.bits_inj. intro n. rewrite shl64_spec, N.bits_0.
  destruct (N.ltb_spec n 64) as [L|G]; [|reflexivity].
  destruct (N.ltb_spec n k) as [L1|G1]; [reflexivity|lia].
Qed.

(* equalities between xor-combinations of words, decided bit by bit *)
Ltac xor_solve :=
  apply N.bits_inj; intro; rewrite ?N.lxor_spec, ?N.bits_0;
  repeat match goal with
         | |- context [N.testbit ?x ?n] =>
             let b := fresh "b" in generalize (N.testbit x n); intro b; destruct b
         end;
  reflexivity.

(* ------------------------------------------------------- x |-> x ^ (x << 17) *)
(* Writing T for the wrapped shift by 17, T^4 = 0 (68 >= 64), so
   (1 + T)(1 + T + T^2 + T^3) = 1 + T^4 = 1 in both orders. *)

Lemma xsl17_lt : forall x, x < W64 -> xsl17 x < W64.
Proof. intros x Hx. unfold xsl17. apply lxor_lt64; [exact Hx|apply shl64_lt]. Qed.

Lemma xsl17_inv_lt : forall y, y < W64 -> xsl17_inv y < W64.
Proof.
  intros y Hy. unfold xsl17_inv.
  apply lxor_lt64; [exact Hy|]. apply lxor_lt64; [apply shl64_lt|].
  apply lxor_lt64; apply shl64_lt.
Qed.

Lemma xorshiftl_inv : forall y, xsl17 (xsl17_inv y) = y.
Proof.
  intro y. unfold xsl17, xsl17_inv.
  rewrite !shl64_lxor, !shl64_shl64.
  change (17 + 17) with 34. change (34 + 17) with 51. change (51 + 17) with 68.
  rewrite (shl64_high y 68) by (unfold N.le; discriminate).
  xor_solve.
Qed.

Lemma xorshiftl_inv' : forall x, xsl17_inv (xsl17 x) = x.
Proof.
  intro x. unfold xsl17, xsl17_inv.
  rewrite !shl64_lxor, !shl64_shl64.
  change (17 + 17) with 34. change (17 + 34) with 51. change (17 + 51) with 68.
  rewrite (shl64_high x 68) by (unfold N.le; discriminate).
  xor_solve.
Qed.

(* ------------------------------------------------------- the transition and its inverse *)

(* From the new words (a0,a1,a2,a3) of  t = s1<<17; s2 ^= s0; s3 ^= s1; s1 ^= s2; s0 ^= s3;
   s2 ^= t; s3 = rotl(s3,45):  r3 = rotr(a3,45) = s3^s1;  s0 = a0 ^ r3;
   a1 ^ a2 = s1 ^ (s1<<17), which determines s1;  s2 = a1 ^ s1 ^ s0;  s3 = r3 ^ s1. *)

Lemma rotr64_45 : forall a, rotr64 a 45 = rotl64 a 19.
Proof. intro a. reflexivity. Qed.

Lemma rotr_rotl_45 : forall a, a < W64 -> rotr64 (rotl64 a 45) 45 = a.
Proof.
  intros a Ha. rewrite rotr64_45.
  apply rotl64_rotl64; [exact Ha|reflexivity|reflexivity|reflexivity].
Qed.

Lemma rotl_rotr_45 : forall a, a < W64 -> rotl64 (rotr64 a 45) 45 = a.
Proof. intros a Ha. apply rotl64_rotr64; [exact Ha|reflexivity|reflexivity]. Qed.

Lemma rotr64_45_lt : forall a, a < W64 -> rotr64 a 45 < W64.
Proof.
  intros a Ha. rewrite rotr64_45. apply rotl64_lt; [exact Ha|]. unfold N.le. discriminate.
Qed.

Lemma wf_next_state : forall s, wf s -> wf (next_state s).
Proof. intros s Hs. exact (proj2 (wf_next s Hs)). Qed.

Lemma wf_prev : forall s, wf s -> wf (prev_state s).
Proof.
  intros [a b c d] (H0 & H1 & H2 & H3). cbn [s0 s1 s2 s3] in H0, H1, H2, H3.
  unfold prev_state, wf. cbv zeta. cbn [s0 s1 s2 s3].
  assert (Hr : rotr64 d 45 < W64) by (apply rotr64_45_lt; exact H3).
  assert (Hi : xsl17_inv (N.lxor b c) < W64)
    by (apply xsl17_inv_lt; apply lxor_lt64; assumption).
  repeat split.
  - apply lxor_lt64; assumption.
  - exact Hi.
  - apply lxor_lt64; [apply lxor_lt64; assumption|apply lxor_lt64; assumption].
  - apply lxor_lt64; assumption.
Qed.

Lemma prev_next : forall s, wf s -> prev_state (next_state s) = s.
Proof.
  intros [a b c d] (H0 & H1 & H2 & H3). cbn [s0 s1 s2 s3] in H0, H1, H2, H3.
  unfold next_state, next_u64, prev_state. cbv zeta. cbn [snd s0 s1 s2 s3].
  rewrite (rotr_rotl_45 (N.lxor d b)) by (apply lxor_lt64; assumption).
  assert (E : N.lxor (N.lxor b (N.lxor c a)) (N.lxor (N.lxor c a) (shl64 b 17)) = xsl17 b).
  { unfold xsl17. xor_solve. }
  rewrite E, xorshiftl_inv'.
  f_equal; xor_solve.
Qed.

Lemma next_prev : forall s, wf s -> next_state (prev_state s) = s.
Proof.
  intros [a b c d] (H0 & H1 & H2 & H3). cbn [s0 s1 s2 s3] in H0, H1, H2, H3.
  unfold next_state, next_u64, prev_state. cbv zeta. cbn [snd s0 s1 s2 s3].
  set (r := rotr64 d 45). set (i := xsl17_inv (N.lxor b c)).
  assert (Ei : shl64 i 17 = N.lxor i (N.lxor b c)).
  { assert (Ex : N.lxor i (shl64 i 17) = N.lxor b c) by exact (xorshiftl_inv (N.lxor b c)).
    rewrite <- Ex. xor_solve. }
  assert (Er : N.lxor (N.lxor r i) i = r) by xor_solve.
  rewrite Er, Ei. unfold r. rewrite (rotl_rotr_45 d H3). fold r.
  f_equal; xor_solve.
Qed.

Lemma next_state_inj : forall s t, wf s -> wf t -> next_state s = next_state t -> s = t.
Proof.
  intros s t Hs Ht E. rewrite <- (prev_next s Hs), <- (prev_next t Ht), E. reflexivity.
Qed.

Lemma prev_state_inj : forall s t, wf s -> wf t -> prev_state s = prev_state t -> s = t.
Proof.
  intros s t Hs Ht E. rewrite <- (next_prev s Hs), <- (next_prev t Ht), E. reflexivity.
Qed.

(* every well-formed state is reached from exactly one well-formed state *)
Lemma next_state_surj : forall t, wf t -> exists s, wf s /\ next_state s = t.
Proof. intros t Ht. exists (prev_state t). split; [apply wf_prev; exact Ht|apply next_prev; exact Ht]. Qed.

(* ------------------------------------------------------- k transitions *)

Lemma steps_iter : forall k s, steps k s = Util.iter k next_state s.
Proof.
  induction k as [|k IH]; intro s; [reflexivity|].
  cbn [steps]. rewrite IH. apply (Util.iter_S_comm k next_state s).
Qed.

Lemma steps_S_r : forall k s, steps (S k) s = next_state (steps k s).
Proof. intros k s. rewrite !steps_iter. reflexivity. Qed.

Lemma wf_steps : forall k s, wf s -> wf (steps k s).
Proof.
  induction k as [|k IH]; intros s Hs; [exact Hs|].
  cbn [steps]. apply IH. apply wf_next_state. exact Hs.
Qed.

Lemma steps_inj : forall k s t, wf s -> wf t -> steps k s = steps k t -> s = t.
Proof.
  induction k as [|k IH]; intros s t Hs Ht E; [exact E|].
  cbn [steps] in E. apply IH in E; [|apply wf_next_state; exact Hs|apply wf_next_state; exact Ht].
  exact (next_state_inj s t Hs Ht E).
Qed.

Lemma steps_never_merge : forall k s t, wf s -> wf t -> s <> t -> steps k s <> steps k t.
Proof. intros k s t Hs Ht Hne E. apply Hne. exact (steps_inj k s t Hs Ht E). Qed.

(* ------------------------------------------------------- outputs are functions of the state *)
Lemma outputs_steps : forall k s,
  outputs (S k) s = fst (next_u64 s) :: outputs k (next_state s).
Proof.
  intros k s. unfold next_state. cbn [outputs]. destruct (next_u64 s) as [v s']. reflexivity.
Qed.

Lemma nth_output : forall j k s d, (j < k)%nat ->
  nth j (outputs k s) d = fst (next_u64 (steps j s)).
Proof.
  induction j as [|j IH]; intros k s d Hjk; (destruct k as [|k]; [inversion Hjk|]);
    rewrite outputs_steps.
  - reflexivity.
  - cbn [nth steps]. apply IH. apply Nat.succ_lt_mono. exact Hjk.
Qed.

Lemma outputs_length : forall k s, length (outputs k s) = k.
Proof.
  induction k as [|k IH]; intro s; [reflexivity|].
  rewrite outputs_steps. cbn [length]. rewrite IH. reflexivity.
Qed.

(* the definition of the inverse computes: it undoes / is undone by one draw from seed 42, and is
   not the identity there *)
Example prev_state_concrete :
  prev_state (next_state (seed_from_u64 42)) = seed_from_u64 42 /\
  next_state (prev_state (seed_from_u64 42)) = seed_from_u64 42 /\
  prev_state (seed_from_u64 42) <> seed_from_u64 42.
Proof.
  split; [vm_compute; reflexivity|]. split; [vm_compute; reflexivity|].
  intro E. apply (f_equal s0) in E. vm_compute in E. discriminate E.
Qed.
