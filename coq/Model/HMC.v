(* Model of hmc.rs: leapfrog (velocity Verlet) with the carried half-gradient, the Hamiltonian,
   the per-row accept/reject, generic over Base.Num (R for theorems, Q for one-step numerics),
   and the IEEE decision layer (Flocq). *)
From MiniMcmc Require Export Base.Num Base.Fp Base.Util.
Close Scope Q_scope.
Close Scope R_scope.

Section HMC.
  Variable K : Num.
  Notation "a + b" := (add K a b).
  Notation "a - b" := (sub K a b).
  Notation "a * b" := (mul K a b).
  Notation "a / b" := (div K a b).
  Definition vec := list K.

  Definition vadd (a b : vec) : vec := map (fun ab => fst ab + snd ab) (combine a b).
  Definition vscale (c : K) (a : vec) : vec := map (fun x => c * x) a.
  Definition vneg (a : vec) : vec := map (fun x => zero K - x) a.
  Definition vdot (a b : vec) : K := fold_right (fun ab acc => fst ab * snd ab + acc) (zero K) (combine a b).

  Variable logp : vec -> K.
  Variable grad : vec -> vec.
  Variable eps : K.
  Definition half_eps : K := eps * (one K / ofZ K 2).       (* step_size * 0.5 *)

  (* one velocity-Verlet step from (x,p) *)
  Definition leap1 (z : vec * vec) : vec * vec :=
    let (x, p) := z in
    let p1 := vadd p (vscale half_eps (grad x)) in
    let x' := vadd x (vscale eps p1) in
    (x', vadd p1 (vscale half_eps (grad x'))).
  Definition leapfrog (L : nat) (z : vec * vec) : vec * vec := iter L leap1 z.

  (* the code's loop: the half-gradient summand g = half_eps * grad(current x) is carried *)
  Definition leap_impl (s : vec * vec * vec) : vec * vec * vec :=
    let '(x, p, g) := s in
    let p1 := vadd p g in
    let x' := vadd x (vscale eps p1) in
    let g' := vscale half_eps (grad x') in
    (x', vadd p1 g', g').
  Definition leapfrog_impl (L : nat) (x p : vec) : vec * vec :=
    let '(x', p', _) := iter L leap_impl (x, p, vscale half_eps (grad x)) in (x', p').

  Definition flip (z : vec * vec) : vec * vec := (fst z, vneg (snd z)).
  Definition kinetic (p : vec) : K := vdot p p * (one K / ofZ K 2).
  Definition hamiltonian (z : vec * vec) : K := (zero K - logp (fst z)) + kinetic (snd z).

  (* one row: accept iff ln u <= H(x,p) - H(x',p')   (code: accept_logp >= ln u) *)
  Definition hmc_row (L : nat) (x p : vec) (lnu : K) : vec :=
    let z' := leapfrog L (x, p) in
    if nleb K lnu (hamiltonian (x, p) - hamiltonian z') then fst z' else x.

  (* a batch: rows are independent *)
  Definition hmc_step (L : nat) (xs ps : list vec) (lnus : list K) : list vec :=
    map (fun xpu => hmc_row L (fst (fst xpu)) (snd (fst xpu)) (snd xpu)) (combine (combine xs ps) lnus).
End HMC.

(* ---- concrete targets with rational gradients (for the Q instance) ---- *)
Section Targets.
  Variable K : Num.
  Notation "a + b" := (add K a b).
  Notation "a - b" := (sub K a b).
  Notation "a * b" := (mul K a b).
  Notation "a / b" := (div K a b).
  Definition n0 (v : list K) (i : nat) : K := nth i v (zero K).
  Definition two : K := ofZ K 2.

  (* 2-D Gaussian: logp = c - (d^T P d)/2, d = x - mu, P = [[p00,p01],[p10,p11]] as computed by `new`;
     gradient of the quadratic form with a possibly non-symmetric P: -(P + P^T) d / 2 *)
  Definition gauss2_logp (mu P : list K) (c : K) (x : list K) : K :=
    let d0 := n0 x 0 - n0 mu 0 in let d1 := n0 x 1 - n0 mu 1 in
    let z0 := d0 * n0 P 0 + d1 * n0 P 2 in
    let z1 := d0 * n0 P 1 + d1 * n0 P 3 in
    c - (z0 * d0 + z1 * d1) * (one K / two).
  Definition gauss2_grad (mu P : list K) (x : list K) : list K :=
    let d0 := n0 x 0 - n0 mu 0 in let d1 := n0 x 1 - n0 mu 1 in
    let h := one K / two in
    [zero K - ((n0 P 0 + n0 P 0) * d0 + (n0 P 1 + n0 P 2) * d1) * h;
     zero K - ((n0 P 1 + n0 P 2) * d0 + (n0 P 3 + n0 P 3) * d1) * h].

  (* Rosenbrock 2-D: logp = -((a - x)^2 + b (y - x^2)^2) *)
  Definition rosen2_logp (a b : K) (x : list K) : K :=
    let x0 := n0 x 0 in let y := n0 x 1 in
    zero K - ((a - x0) * (a - x0) + b * ((y - x0 * x0) * (y - x0 * x0))).
  Definition rosen2_grad (a b : K) (x : list K) : list K :=
    let x0 := n0 x 0 in let y := n0 x 1 in
    [two * (a - x0) + two * two * b * x0 * (y - x0 * x0);
     zero K - two * b * (y - x0 * x0)].

  (* diagonal Gaussian in any dimension: logp = - sum lam_i x_i^2 / 2 *)
  Definition diag_logp (lam x : list K) : K :=
    zero K - fold_right (fun lx acc => fst lx * (snd lx * snd lx) + acc) (zero K) (combine lam x) * (one K / two).
  Definition diag_grad (lam x : list K) : list K := map (fun lx => zero K - fst lx * snd lx) (combine lam x).

  (* quartic: logp = - sum x_i^4 / 4 *)
  Definition quartic_logp (x : list K) : K :=
    zero K - fold_right (fun xi acc => xi * xi * (xi * xi) + acc) (zero K) x * (one K / (two * two)).
  Definition quartic_grad (x : list K) : list K := map (fun xi => zero K - xi * (xi * xi)) x.
End Targets.

(* ---- IEEE decision layer: per row, mask = (accept_logp >= ln u); accept_logp = h_current - h_proposed ---- *)
(* generic-format version used by the theorems *)
Section Decide.
  Variables prec emax : Z.
  Context (Hprec : FLX.Prec_gt_0 prec) (Hmax : BinarySingleNaN.Prec_lt_emax prec emax).
  Notation fl := (binary_float prec emax).
  Variable nanf : fl -> fl -> { x : fl | Binary.is_nan prec emax x = true }.
  Definition hmc_accept (h_cur h_prop lnu : fl) : bool := fge (fminus nanf h_cur h_prop) lnu.
  Definition hmc_row_float {A} (x x' : A) (h_cur h_prop lnu : fl) : A :=
    if hmc_accept h_cur h_prop lnu then x' else x.
End Decide.
Arguments hmc_accept {prec emax Hprec Hmax}.
Arguments hmc_row_float {prec emax Hprec Hmax} nanf {A}.

(* instances on bit patterns: [bits of accept_logp; which of the rows 0 (old) / 1 (proposal) is kept] *)
Definition hmc_decide32 (h_cur h_prop lnu : Z) : list Z :=
  let a := b32_of_bits h_cur in let b := b32_of_bits h_prop in
  [bits_of_b32 (fminus binop_nan_pl32 a b); hmc_row_float binop_nan_pl32 0%Z 1%Z a b (b32_of_bits lnu)].
Definition hmc_decide64 (h_cur h_prop lnu : Z) : list Z :=
  let a := b64_of_bits h_cur in let b := b64_of_bits h_prop in
  [bits_of_b64 (fminus binop_nan_pl64 a b); hmc_row_float binop_nan_pl64 0%Z 1%Z a b (b64_of_bits lnu)].

(* ---- evaluation entry points (Q): L leapfrog steps and the energy difference from (x,p) ---- *)
Definition hmc_eval_q (logp : list Q -> Q) (grad : list Q -> list Q) (eps : Q) (L : nat) (x p : list Q) : list Z :=
  let z' := leapfrog_impl numQ grad eps L x p in          (* the loop as the code writes it *)
  let zs := leapfrog numQ grad eps L (x, p) in            (* the textbook form the theorems speak about *)
  qouts (fst z') ++ qouts (snd z')
  ++ qout (sub numQ (hamiltonian numQ logp (x, p)) (hamiltonian numQ logp z'))
  ++ qout (logp x) ++ qout (logp (fst z'))
  ++ [if list_eq_dec Z.eq_dec (qouts (fst z') ++ qouts (snd z')) (qouts (fst zs) ++ qouts (snd zs)) then 1%Z else 0%Z].
(* a whole batch step in exact arithmetic (rows, their momenta, their ln u): new positions *)
Definition hmc_step_eval_q (logp : list Q -> Q) (grad : list Q -> list Q) (eps : Q) (L : nat)
    (xs ps : list (list Q)) (lnus : list Q) : list Z :=
  concat (map qouts (hmc_step numQ logp grad eps L xs ps lnus)).

(* ---- draw discipline of HMC::step: one generator per sampler; step s takes n*d standard normals (momenta,
   row-major: chain r, coordinate j) and then n uniforms (one per chain), nothing else.  `events` is the
   sequence of values such a generator yields (replayed by the harness from an identically seeded one);
   output: per step the momenta then the uniforms the model says the step used ---- *)
Definition hmc_mom_idx (n d s r j : nat) : nat := s * (n * d + n) + r * d + j.
Definition hmc_uni_idx (n d s r : nat) : nat := s * (n * d + n) + n * d + r.
Definition hmc_draws_eval (n d k : nat) (events : list Z) : list Z :=
  concat (map (fun s =>
                 concat (map (fun r => map (fun j => nth (hmc_mom_idx n d s r j) events (-1)%Z) (seq 0 d)) (seq 0 n))
                 ++ map (fun r => nth (hmc_uni_idx n d s r) events (-1)%Z) (seq 0 n))
              (seq 0 k)).
