(* The leapfrog step as a composition of shear maps.

     kick h  : (x, p) |-> (x, p + h * grad x)        (momentum half step)
     drift e : (x, p) |-> (x + e * p, p)             (position step)
     leap1 eps = kick (eps/2) o drift eps o kick (eps/2)

   What is proved
     dimension 1 (x p : R, g : R -> R):
       B1  leap1_1d_decomp            Model.HMC.leap1 at numR on one-element vectors is the composition
       B2  kick_inv_l/r, drift_inv_l/r, leap_1d_inv_l/r   explicit inverses (bijections)
       B3  kick_dx_dx .. drift_dp_dp  the four partial derivatives of each shear (Coquelicot is_derive),
           kick_jacobian_det, drift_jacobian_det   each Jacobian determinant is 1,
           leap1_1d_jacobian_det_one  the product of the three determinants is 1.
           The multivariate chain rule (Jacobian of a composition = product of Jacobians) is NOT
           formalised; instead
           leap_1d_partials / leap_1d_jacobian_det  compute the four partial derivatives of the
           COMPOSED map directly (one-variable chain rule only) and show that its Jacobian
           determinant is 1: volume preservation of the 1-dimensional leapfrog step in the
           differential sense.
     any dimension (lists):
       B4  leap1_decomp               leap1 numR grad eps = kickv o driftv o kickv
           kickv_inv_l/r, driftv_inv_l/r, leap1_inverse   explicit inverses under the length hypotheses of
           Proofs/HMC.v.
   What is NOT proved: volume preservation (Lebesgue measure / change of variables) in dimension
   > 1, and the integral form in dimension 1 -- no multivariate change-of-variables theorem is
   available in the libraries at hand.  The algebraic facts above (each factor is a shear with an
   explicit inverse) are the ingredients such a proof would use. *)
From Coq Require Import Reals Lra Lia.
From Coquelicot Require Import Coquelicot.
From MiniMcmc Require Import Base.Num Base.Util Model.HMC Proofs.HMC.
Close Scope Q_scope.
Local Open Scope R_scope.

(* ================================================================== dimension 1 *)
Section Dim1.
  Variable g : R -> R.                       (* gradient of the log-density *)

  Definition kick (h : R) (z : R * R) : R * R := (fst z, snd z + h * g (fst z)).
  Definition drift (e : R) (z : R * R) : R * R := (fst z + e * snd z, snd z).
  Definition leap_1d (eps : R) (z : R * R) : R * R :=
    kick (eps * (1 / 2)) (drift eps (kick (eps * (1 / 2)) z)).

  Lemma half_eps_R (eps : R) : half_eps numR eps = eps * (1 / 2).
  Proof. reflexivity. Qed.

  (* ---- B1 ---- *)
  Theorem leap1_1d_decomp (eps x p : R) :
    leap1 numR (fun v => [g (hd 0 v)]) eps ([x], [p]) =
    (let z' := kick (half_eps numR eps) (drift eps (kick (half_eps numR eps) (x, p))) in
     ([fst z'], [snd z'])).
  Proof. reflexivity. Qed.

  Corollary leap1_1d_decomp' (eps x p : R) :
    leap1 numR (fun v => [g (hd 0 v)]) eps ([x], [p]) =
    ([fst (leap_1d eps (x, p))], [snd (leap_1d eps (x, p))]).
  Proof. reflexivity. Qed.

  (* ---- B2: each shear is a bijection with explicit inverse ---- *)
  Lemma kick_inv_l h z : kick (- h) (kick h z) = z.
  Proof. destruct z as [x p]. unfold kick. simpl. f_equal. ring. Qed.
  Lemma kick_inv_r h z : kick h (kick (- h) z) = z.
  Proof. destruct z as [x p]. unfold kick. simpl. f_equal. ring. Qed.
  Lemma drift_inv_l e z : drift (- e) (drift e z) = z.
  Proof. destruct z as [x p]. unfold drift. simpl. f_equal. ring. Qed.
  Lemma drift_inv_r e z : drift e (drift (- e) z) = z.
  Proof. destruct z as [x p]. unfold drift. simpl. f_equal. ring. Qed.

  (* hence so is the leapfrog step: its inverse is the step with -eps *)
  Lemma leap_1d_inv_l eps z : leap_1d (- eps) (leap_1d eps z) = z.
  Proof.
    unfold leap_1d. replace (- eps * (1 / 2)) with (- (eps * (1 / 2))) by ring.
    rewrite kick_inv_l, drift_inv_l, kick_inv_l. reflexivity.
  Qed.
  Lemma leap_1d_inv_r eps z : leap_1d eps (leap_1d (- eps) z) = z.
  Proof.
    unfold leap_1d. replace (- eps * (1 / 2)) with (- (eps * (1 / 2))) by ring.
    rewrite kick_inv_r, drift_inv_r, kick_inv_r. reflexivity.
  Qed.

  (* ---- B3: Jacobians ---- *)
  Definition det2 (a b c d : R) : R := a * d - b * c.      (* | a b ; c d | *)

  (* kick h : x' = x, p' = p + h g(x) *)
  Lemma kick_dx_dx h x p : is_derive (fun x => fst (kick h (x, p))) x 1.
  Proof. unfold kick. simpl. auto_derive; [exact I|reflexivity]. Qed.
  Lemma kick_dx_dp h x p : is_derive (fun p => fst (kick h (x, p))) p 0.
  Proof. unfold kick. simpl. auto_derive; [exact I|reflexivity]. Qed.
  Lemma kick_dp_dx h x p : ex_derive g x ->
    is_derive (fun x => snd (kick h (x, p))) x (h * Derive g x).
  Proof.
    intros Hg. unfold kick. simpl. auto_derive; [exact Hg|].
    change (fun x0 : R => g x0) with g. ring.
  Qed.
  Lemma kick_dp_dp h x p : is_derive (fun p => snd (kick h (x, p))) p 1.
  Proof. unfold kick. simpl. auto_derive; [exact I|ring]. Qed.

  (* drift e : x' = x + e p, p' = p *)
  Lemma drift_dx_dx e x p : is_derive (fun x => fst (drift e (x, p))) x 1.
  Proof. unfold drift. simpl. auto_derive; [exact I|ring]. Qed.
  Lemma drift_dx_dp e x p : is_derive (fun p => fst (drift e (x, p))) p e.
  Proof. unfold drift. simpl. auto_derive; [exact I|ring]. Qed.
  Lemma drift_dp_dx e x p : is_derive (fun x => snd (drift e (x, p))) x 0.
  Proof. unfold drift. simpl. auto_derive; [exact I|reflexivity]. Qed.
  Lemma drift_dp_dp e x p : is_derive (fun p => snd (drift e (x, p))) p 1.
  Proof. unfold drift. simpl. auto_derive; [exact I|reflexivity]. Qed.

  (* the Jacobian matrices, row-major (dx'/dx, dx'/dp, dp'/dx, dp'/dp), and their determinants *)
  Definition kick_jac (h x : R) : R * R * R * R := (1, 0, h * Derive g x, 1).
  Definition drift_jac (e : R) : R * R * R * R := (1, e, 0, 1).
  Definition det4 (m : R * R * R * R) : R := let '(a, b, c, d) := m in det2 a b c d.

  Theorem kick_jacobian h x p : ex_derive g x ->
    let '(a, b, c, d) := kick_jac h x in
    is_derive (fun x => fst (kick h (x, p))) x a /\ is_derive (fun p => fst (kick h (x, p))) p b /\
    is_derive (fun x => snd (kick h (x, p))) x c /\ is_derive (fun p => snd (kick h (x, p))) p d.
  Proof.
    intros Hg. unfold kick_jac. cbv beta iota.
    split; [|split; [|split]];
      [apply kick_dx_dx|apply kick_dx_dp|apply kick_dp_dx; exact Hg|apply kick_dp_dp].
  Qed.

  Theorem drift_jacobian e x p :
    let '(a, b, c, d) := drift_jac e in
    is_derive (fun x => fst (drift e (x, p))) x a /\ is_derive (fun p => fst (drift e (x, p))) p b /\
    is_derive (fun x => snd (drift e (x, p))) x c /\ is_derive (fun p => snd (drift e (x, p))) p d.
  Proof.
    unfold drift_jac. cbv beta iota.
    split; [|split; [|split]];
      [apply drift_dx_dx|apply drift_dx_dp|apply drift_dp_dx|apply drift_dp_dp].
  Qed.

  Lemma kick_jacobian_det h x : det2 1 0 (h * Derive g x) 1 = 1.
  Proof. unfold det2. ring. Qed.
  Lemma drift_jacobian_det e : det2 1 e 0 1 = 1.
  Proof. unfold det2. ring. Qed.
  Lemma kick_jac_det h x : det4 (kick_jac h x) = 1.
  Proof. apply kick_jacobian_det. Qed.
  Lemma drift_jac_det e : det4 (drift_jac e) = 1.
  Proof. apply drift_jacobian_det. Qed.

  (* The Jacobian of leap_1d eps at (x,p) is, by the multivariate chain rule (NOT formalised
     here), the product  J_kick(x2) * J_drift * J_kick(x)  with x2 the position after the drift;
     its determinant is the product of the three determinants: *)
  Theorem leap1_1d_jacobian_det_one eps x p :
    let h := half_eps numR eps in
    let x2 := fst (drift eps (kick h (x, p))) in
    det4 (kick_jac h x2) * det4 (drift_jac eps) * det4 (kick_jac h x) = 1.
  Proof. cbv zeta. rewrite !kick_jac_det, drift_jac_det. ring. Qed.

  (* Without appeal to the multivariate chain rule: the four partial derivatives of the composed
     map, computed with the one-variable chain rule, and the determinant of that matrix. *)
  Section Composed.
    Variables eps x p : R.
    Let h := eps * (1 / 2).
    Let x2 := x + eps * (p + h * g x).               (* position after the step *)
    Let a := 1 + eps * (h * Derive g x).             (* d x2 / d x *)

    Lemma leap_1d_fst : fst (leap_1d eps (x, p)) = x2.
    Proof. reflexivity. Qed.

    Hypothesis Hg1 : ex_derive g x.
    Hypothesis Hg2 : ex_derive g x2.

    Definition leap_1d_jac : R * R * R * R :=
      (a, eps, h * Derive g x + h * (Derive g x2 * a), 1 + h * (Derive g x2 * eps)).

    Theorem leap_1d_partials :
      let '(ja, jb, jc, jd) := leap_1d_jac in
      is_derive (fun x => fst (leap_1d eps (x, p))) x ja /\
      is_derive (fun p => fst (leap_1d eps (x, p))) p jb /\
      is_derive (fun x => snd (leap_1d eps (x, p))) x jc /\
      is_derive (fun p => snd (leap_1d eps (x, p))) p jd.
    Proof.
      unfold leap_1d_jac, leap_1d, kick, drift. cbv beta iota. cbn [fst snd]. fold h.
      split; [|split; [|split]];
        (auto_derive;
         [repeat split; first [exact Hg1 | exact Hg2 | exact I]
         |change (fun x0 : R => g x0) with g; unfold a, x2; ring]).
    Qed.

    Theorem leap_1d_jacobian_det : det4 leap_1d_jac = 1.
    Proof. unfold det4, leap_1d_jac, det2, a. ring. Qed.
  End Composed.
End Dim1.

(* ================================================================== any dimension: algebra *)
Section DimN.
  Variable grad : list R -> list R.
  Hypothesis grad_length : forall x, length (grad x) = length x.

  Definition kickv (h : R) (z : list R * list R) : list R * list R :=
    (fst z, vadd numR (snd z) (vscale numR h (grad (fst z)))).
  Definition driftv (e : R) (z : list R * list R) : list R * list R :=
    (vadd numR (fst z) (vscale numR e (snd z)), snd z).

  (* ---- B4 ---- *)
  Theorem leap1_decomp eps z :
    leap1 numR grad eps z =
    kickv (half_eps numR eps) (driftv eps (kickv (half_eps numR eps) z)).
  Proof. destruct z as [x p]. reflexivity. Qed.

  (* on one-element vectors the vector shears are the scalar ones *)
  Lemma kickv_1d (g : R -> R) h x p : grad = (fun v => [g (hd 0 v)]) ->
    kickv h ([x], [p]) = ([fst (kick g h (x, p))], [snd (kick g h (x, p))]).
  Proof. intros H. unfold kickv. rewrite H. reflexivity. Qed.
  Lemma driftv_1d e x p :
    driftv e ([x], [p]) = ([fst (drift e (x, p))], [snd (drift e (x, p))]).
  Proof. reflexivity. Qed.

  Lemma vadd_vscale_cancel (c : R) (a b : list R) : length a = length b ->
    vadd numR (vadd numR a (vscale numR c b)) (vscale numR (- c) b) = a.
  Proof.
    unfold vadd, vscale.
    revert b; induction a as [|a0 a IH]; intros [|b0 b] H; simpl in *; try discriminate; auto.
    f_equal; [ring|]. apply IH. lia.
  Qed.

  Lemma kickv_length h z : length (snd z) = length (fst z) ->
    length (snd (kickv h z)) = length (fst (kickv h z)).
  Proof.
    destruct z as [x p]. unfold kickv. cbn [fst snd]. intros H.
    rewrite (vadd_length numR), (vscale_length numR), grad_length. change (T numR) with R. lia.
  Qed.

  Lemma driftv_length e z : length (snd z) = length (fst z) ->
    length (snd (driftv e z)) = length (fst (driftv e z)).
  Proof.
    destruct z as [x p]. unfold driftv. cbn [fst snd]. intros H.
    rewrite (vadd_length numR), (vscale_length numR). change (T numR) with R. lia.
  Qed.

  Theorem kickv_inv_l h x p : length p = length x -> kickv (- h) (kickv h (x, p)) = (x, p).
  Proof.
    intros Hp. unfold kickv. cbn [fst snd]. f_equal.
    apply vadd_vscale_cancel. rewrite grad_length. exact Hp.
  Qed.

  Theorem kickv_inv_r h x p : length p = length x -> kickv h (kickv (- h) (x, p)) = (x, p).
  Proof.
    intros Hp. rewrite <- (Ropp_involutive h) at 1. apply kickv_inv_l. exact Hp.
  Qed.

  Theorem driftv_inv_l e x p : length p = length x -> driftv (- e) (driftv e (x, p)) = (x, p).
  Proof.
    intros Hp. unfold driftv. cbn [fst snd]. f_equal.
    apply vadd_vscale_cancel. symmetry. exact Hp.
  Qed.

  Theorem driftv_inv_r e x p : length p = length x -> driftv e (driftv (- e) (x, p)) = (x, p).
  Proof.
    intros Hp. rewrite <- (Ropp_involutive e) at 1. apply driftv_inv_l. exact Hp.
  Qed.

  Lemma half_eps_opp eps : half_eps numR (- eps) = - half_eps numR eps.
  Proof. change (- eps * (1 / 2) = - (eps * (1 / 2))). ring. Qed.

  (* the leapfrog step is a bijection on {(x,p) | length p = length x}: its inverse is the step
     with step size -eps (this is leap1_reversible of Proofs/HMC.v without the momentum flips) *)
  Theorem leap1_inverse eps x p : length p = length x ->
    leap1 numR grad (- eps) (leap1 numR grad eps (x, p)) = (x, p).
  Proof.
    intros Hp. rewrite !leap1_decomp, half_eps_opp.
    set (h := half_eps numR eps).
    assert (H1 : length (snd (kickv h (x, p))) = length (fst (kickv h (x, p))))
      by (apply kickv_length; exact Hp).
    assert (H2 : length (snd (driftv eps (kickv h (x, p)))) =
                 length (fst (driftv eps (kickv h (x, p)))))
      by (apply driftv_length; exact H1).
    destruct (kickv h (x, p)) as [x1 p1] eqn:E1.
    destruct (driftv eps (x1, p1)) as [x2 p2] eqn:E2.
    cbn [fst snd] in H1, H2.
    rewrite (kickv_inv_l h x2 p2 H2), <- E2, (driftv_inv_l eps x1 p1 H1), <- E1.
    apply kickv_inv_l. exact Hp.
  Qed.
End DimN.
