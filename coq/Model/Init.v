(* Model of core.rs init / init_det / init_with_seed / _init:
     (0..n).map(|_| (0..d).map(|_| T::from_f64(StandardNormal.sample(&mut rng))).collect()).collect()
   One generator, consumed row-major: entry (r,c) is draw number r*d + c, converted to T.
   StandardNormal (ziggurat) is not modelled: the draws are an argument. *)
From MiniMcmc Require Export Base.Fp Base.Util.

Section Init.
  Context {A D : Type}.
  Variable conv : D -> A.
  Variable dflt : D.

  Definition init_model (draws : list D) (n d : nat) : list (list A) :=
    map (fun r => map (fun c => conv (nth (r * d + c) draws dflt)) (seq 0 d)) (seq 0 n).
End Init.

(* f64 -> f32: `x as f32`, IEEE round-to-nearest-even *)
Definition f64_to_f32 (x : binary64) : binary32 :=
  match x with
  | Binary.B754_zero _ _ s => Binary.B754_zero 24 128 s
  | Binary.B754_infinity _ _ s => Binary.B754_infinity 24 128 s
  | Binary.B754_nan _ _ s _ _ => Binary.B754_nan 24 128 s 4194304 (eq_refl true)
  | Binary.B754_finite _ _ s m e _ =>
      Binary.binary_normalize 24 128 prec32 emax32 mode_NE (cond_Zopp s (Zpos m)) e s
  end.
Definition f64_to_f32_bits (b : Z) : Z := bits_of_b32 (f64_to_f32 (b64_of_bits b)).

Definition init64_eval (draws : list Z) (n d : nat) : list Z :=
  concat (init_model (fun b => b) 0%Z draws n d).
Definition init32_eval (draws : list Z) (n d : nat) : list Z :=
  concat (init_model f64_to_f32_bits 0%Z draws n d).
