(* Model of distributions.rs Categorical (IEEE arithmetic, bit-exact; the computation is a
   sequential scalar fold):
     new:    sum = fold(0, +); probs = w / sum
     sample: r = rng.random(); cum = 0; k = <last index with positive probability>;
             for (i,p): cum += p; if r < cum { k = i; break }            (after the D9 repair)
     logp:   index < len ? ln probs[index] : -inf                                           *)
From MiniMcmc Require Export Base.Fp Base.Util.

Section Cat.
  Variables prec emax : Z.
  Context (Hprec : FLX.Prec_gt_0 prec) (Hmax : BinarySingleNaN.Prec_lt_emax prec emax).
  Notation fl := (binary_float prec emax).
  Variable nanf : fl -> fl -> { x : fl | Binary.is_nan prec emax x = true }.

  Definition fzero : fl := Binary.B754_zero prec emax false.
  Definition fpos (p : fl) : bool := fgt p fzero.

  Definition cat_new (ws : list fl) : list fl :=
    let sum := fold_left (fplus nanf) ws fzero in
    map (fun w => fdiv nanf w sum) ws.

  (* the scan; strict comparison *)
  Fixpoint scan (ps : list fl) (i : nat) (cum r : fl) : option nat :=
    match ps with
    | [] => None
    | p :: t => let cum' := fplus nanf cum p in
                if flt r cum' then Some i else scan t (S i) cum' r
    end.

  (* index of the last strictly positive probability; len-1 when there is none *)
  Fixpoint last_pos_from (ps : list fl) (i : nat) (acc : nat) : nat :=
    match ps with
    | [] => acc
    | p :: t => last_pos_from t (S i) (if fpos p then i else acc)
    end.
  Definition last_pos (ps : list fl) : nat := last_pos_from ps 0 (length ps - 1).

  Definition cat_sample (ps : list fl) (r : fl) : nat :=
    match scan ps 0 fzero r with Some i => i | None => last_pos ps end.

  (* the code before the repair (kept for the refutation witness): `r <= cum`, fallback len-1 *)
  Fixpoint scan_le (ps : list fl) (i : nat) (cum r : fl) : option nat :=
    match ps with
    | [] => None
    | p :: t => let cum' := fplus nanf cum p in
                if fle r cum' then Some i else scan_le t (S i) cum' r
    end.
  Definition cat_sample_old (ps : list fl) (r : fl) : nat :=
    match scan_le ps 0 fzero r with Some i => i | None => length ps - 1 end.
End Cat.

Arguments cat_new {prec emax Hprec Hmax}.
Arguments cat_sample {prec emax Hprec Hmax}.
Arguments cat_sample_old {prec emax Hprec Hmax}.
Arguments scan {prec emax Hprec Hmax}.
Arguments last_pos {prec emax}.
Arguments fpos {prec emax}.
Arguments fzero {prec emax}.

(* instances on bit patterns: probabilities (bits) followed by the sampled index *)
Definition cat32 (ws : list Z) (r : Z) : list Z :=
  let ps := cat_new binop_nan_pl32 (map b32_of_bits ws) in
  map bits_of_b32 ps ++ [Z.of_nat (cat_sample binop_nan_pl32 ps (b32_of_bits r))].
Definition cat64 (ws : list Z) (r : Z) : list Z :=
  let ps := cat_new binop_nan_pl64 (map b64_of_bits ws) in
  map bits_of_b64 ps ++ [Z.of_nat (cat_sample binop_nan_pl64 ps (b64_of_bits r))].
(* several variates on one weight vector: probabilities then one index per variate *)
Definition cat32s (ws : list Z) (rs : list Z) : list Z :=
  let ps := cat_new binop_nan_pl32 (map b32_of_bits ws) in
  map bits_of_b32 ps ++ map (fun r => Z.of_nat (cat_sample binop_nan_pl32 ps (b32_of_bits r))) rs.
Definition cat64s (ws : list Z) (rs : list Z) : list Z :=
  let ps := cat_new binop_nan_pl64 (map b64_of_bits ws) in
  map bits_of_b64 ps ++ map (fun r => Z.of_nat (cat_sample binop_nan_pl64 ps (b64_of_bits r))) rs.
Definition cat32s_old (ws : list Z) (rs : list Z) : list Z :=
  let ps := cat_new binop_nan_pl32 (map b32_of_bits ws) in
  map (fun r => Z.of_nat (cat_sample_old binop_nan_pl32 ps (b32_of_bits r))) rs.

(* ---- exact arithmetic (reals) ---- *)
From Coq Require Import Reals.
Open Scope R_scope.

Definition sumlR (l : list R) : R := fold_right Rplus 0 l.
Definition cat_new_R (ws : list R) : list R := map (fun w => w / sumlR ws) ws.

Fixpoint scan_R (ps : list R) (i : nat) (cum r : R) : option nat :=
  match ps with
  | [] => None
  | p :: t => if Rlt_dec r (cum + p) then Some i else scan_R t (S i) (cum + p) r
  end.

(* cumulative sum of the first i probabilities *)
Definition cumR (ps : list R) (i : nat) : R := sumlR (firstn i ps).

(* ---- the same scan in exact rational arithmetic: evaluated by the correspondence check (away from
   rounding ties) and linked to the real-number definitions above by Properties/C16.v ---- *)
Close Scope R_scope.
From MiniMcmc Require Import Base.Num.
Close Scope R_scope.
Close Scope Q_scope.
Definition sumlQ (l : list Q) : Q := fold_right (fun a b => Qred (a + b)%Q) 0%Q l.
Definition cat_new_Q (ws : list Q) : list Q := map (fun w => Qred (w / sumlQ ws)%Q) ws.
Fixpoint scan_Q (ps : list Q) (i : nat) (cum r : Q) : option nat :=
  match ps with
  | [] => None
  | p :: t => let c := Qred (cum + p)%Q in
              if negb (Qle_bool c r) then Some i else scan_Q t (S i) c r
  end.
(* probabilities (num/den), then one index per variate (-1: no cumulative sum exceeds it) *)
Definition catq_eval (ws rs : list Q) : list Z :=
  let ps := cat_new_Q ws in
  qouts ps ++ map (fun r => match scan_Q ps 0 0%Q r with Some i => Z.of_nat i | None => (-1)%Z end) rs.
