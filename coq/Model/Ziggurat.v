(* Bit-exact model of rand_distr 0.5.1 `StandardNormal` and `Exp1` for f64 (utils.rs `ziggurat`, normal.rs,
   exponential.rs) on top of the generator model Base/Rng.v:

     loop { bits = next_u64; i = bits & 0xff;
            u = symmetric ? float(bits >> 12, exponent 1) - 3.0 : float(bits >> 12, exponent 0) - (1 - 2^-53);
            x = u * X[i];
            if (symmetric ? |x| : x) < X[i+1] { return x }
            if i == 0 { return zero_case(rng, u) }
            if F[i+1] + (F[i] - F[i+1]) * random::<f64>() < pdf(x) { return x } }

   Everything is IEEE basic arithmetic on binary64 (Flocq, round to nearest even) except the platform's `exp` (pdf) and
   `ln` (tail), whose values are consumed from an oracle list supplied with the case: every consumption is logged
   (kind, argument) so that the driver can check each supplied value against an interval enclosure computed in Coq and
   against its own libm.  Running out of fuel or of oracle values gives None.  f32 draws are `x as f32` (Model/Init.v).
   Definitions only. *)
From MiniMcmc Require Export Base.Fp Base.Rng Model.ZigTables Model.Init.
Open Scope Z_scope.

Definition zb (z : Z) : binary64 := b64_of_bits z.
Definition znth (tab : list Z) (i : N) : binary64 := zb (nth (N.to_nat i) tab 0).

Definition f_three : binary64 := zb 4613937818241073152.          (* 3.0 *)
Definition f_open_off : binary64 := zb 4607182418800017407.       (* 1 - 2^-53 = 1.0 - f64::EPSILON / 2.0 *)
Definition f_zero : binary64 := zb 0.
Definition f_mtwo : binary64 := zb 13835058055282163712.          (* -2.0 *)
Definition f_two : binary64 := zb 4611686018427387904.            (* 2.0 *)
Definition f_one : binary64 := zb 4607182418800017408.            (* 1.0 *)

(* (bits >> 12).into_float_with_exponent(e): the 52 fraction bits under the biased exponent 1023 + e *)
Definition float_with_exp (frac : N) (e : Z) : binary64 := zb (Z.of_N frac + (1023 + e) * 2 ^ 52).
Definition zig_u (symmetric : bool) (bits : N) : binary64 :=
  if symmetric then b64_minus mode_NE (float_with_exp (N.shiftr bits 12) 1) f_three
  else b64_minus mode_NE (float_with_exp (N.shiftr bits 12) 0) f_open_off.
(* StandardUniform f64: (w >> 11) * 2^-53, exact *)
Definition unif_f64 (w : N) : binary64 :=
  Binary.binary_normalize 53 1024 prec64 emax64 mode_NE (Z.of_N (N.shiftr w 11)) (-53) false.
(* Open01 f64: float(w >> 12, exponent 0) - (1 - 2^-53), in (0,1) *)
Definition open01_f64 (w : N) : binary64 := b64_minus mode_NE (float_with_exp (N.shiftr w 12) 0) f_open_off.

Definition blt (a b : binary64) : bool := match b64_compare a b with Some Lt => true | _ => false end.

(* log of oracle consumptions: (kind, bits of the argument): kind 0 = exp, 1 = ln *)
Definition olog := list (Z * Z).

Record zst := { z_rng : xstate; z_orc : list Z; z_log : olog }.

Definition take_orc (kind : Z) (arg : binary64) (st : zst) : option (binary64 * zst) :=
  match z_orc st with
  | [] => None
  | e :: r => Some (zb e, {| z_rng := z_rng st; z_orc := r; z_log := (kind, bits_of_b64 arg) :: z_log st |})
  end.
Definition draw (st : zst) : N * zst :=
  let (w, s') := next_u64 (z_rng st) in (w, {| z_rng := s'; z_orc := z_orc st; z_log := z_log st |}).

(* the first test of one round: Some x = returned at once *)
Definition zig_fast (symmetric : bool) (xtab : list Z) (bits : N) : option binary64 :=
  let i := N.land bits 255 in
  let x := b64_mult mode_NE (zig_u symmetric bits) (znth xtab i) in
  if blt (if symmetric then b64_abs x else x) (znth xtab (i + 1)) then Some x else None.

(* tail of the normal law beyond R: repeat { x = ln(U1)/R; y = ln(U2) } while -2y < x*x; then R - x with u's sign *)
Fixpoint norm_tail (fuel : nat) (u : binary64) (st : zst) : option (binary64 * zst) :=
  match fuel with
  | O => None
  | S f =>
      let (w1, st1) := draw st in
      let (w2, st2) := draw st1 in
      match take_orc 1 (open01_f64 w1) st2 with
      | None => None
      | Some (lx, st3) =>
          match take_orc 1 (open01_f64 w2) st3 with
          | None => None
          | Some (ly, st4) =>
              let x := b64_div mode_NE lx (zb zig_norm_r) in
              if blt (b64_mult mode_NE f_mtwo ly) (b64_mult mode_NE x x) then norm_tail f u st4
              else Some (if blt u f_zero then b64_minus mode_NE x (zb zig_norm_r)
                         else b64_minus mode_NE (zb zig_norm_r) x, st4)
          end
      end
  end.

(* pdf argument of the normal: (-x * x) / 2.0 ; of the exponential: -x *)
Definition norm_pdf_arg (x : binary64) : binary64 := b64_div mode_NE (b64_mult mode_NE (b64_opp x) x) f_two.
Definition exp_pdf_arg (x : binary64) : binary64 := b64_opp x.

Fixpoint zig_sample (symmetric : bool) (fuel : nat) (st : zst) : option (binary64 * zst) :=
  match fuel with
  | O => None
  | S f =>
      let xtab := if symmetric then zig_norm_x else zig_exp_x in
      let ftab := if symmetric then zig_norm_f else zig_exp_f in
      let (bits, st1) := draw st in
      match zig_fast symmetric xtab bits with
      | Some x => Some (x, st1)
      | None =>
          let i := N.land bits 255 in
          let u := zig_u symmetric bits in
          let x := b64_mult mode_NE u (znth xtab i) in
          if N.eqb i 0 then
            if symmetric then norm_tail f u st1
            else
              let (w, st2) := draw st1 in
              match take_orc 1 (unif_f64 w) st2 with
              | None => None
              | Some (l, st3) => Some (b64_minus mode_NE (zb zig_exp_r) l, st3)
              end
          else
            let (w, st2) := draw st1 in
            match take_orc 0 (if symmetric then norm_pdf_arg x else exp_pdf_arg x) st2 with
            | None => None
            | Some (e, st3) =>
                let f0 := znth ftab i in let f1 := znth ftab (i + 1) in
                if blt (b64_plus mode_NE f1 (b64_mult mode_NE (b64_minus mode_NE f0 f1) (unif_f64 w))) e
                then Some (x, st3) else zig_sample symmetric f st3
            end
      end
  end.

Definition std_normal := zig_sample true.
Definition exp1 := zig_sample false.

(* k successive standard-normal draws *)
Fixpoint normals (fuel k : nat) (st : zst) : option (list binary64 * zst) :=
  match k with
  | O => Some ([], st)
  | S k' =>
      match std_normal fuel st with
      | None => None
      | Some (x, st1) =>
          match normals fuel k' st1 with
          | None => None
          | Some (xs, st2) => Some (x :: xs, st2)
          end
      end
  end.

(* ---- evaluation entry points ---- *)
Definition zinit (seed : N) (orc : list Z) : zst := {| z_rng := seed_from_u64 seed; z_orc := orc; z_log := [] |}.
Definition flat_log (l : olog) : list Z := concat (map (fun p => [fst p; snd p]) (rev l)).

(* k normal draws of SmallRng::seed_from_u64(seed): [1; k draws (bits); number of oracle values left; log...] or [0] *)
Definition normals_eval (seed : N) (k : nat) (orc : list Z) : list Z :=
  match normals 64 k (zinit seed orc) with
  | None => [0]
  | Some (xs, st) => 1 :: map bits_of_b64 xs ++ [Z.of_nat (length (z_orc st))] ++ flat_log (z_log st)
  end.

(* a mixed sequence: kinds 0 = StandardNormal f64, 1 = Exp1 f64, 2 = uniform f64 (numerator), 3 = uniform f32 (numerator) *)
Fixpoint mixed (kinds : list Z) (st : zst) : option (list Z * zst) :=
  match kinds with
  | [] => Some ([], st)
  | k :: r =>
      let one :=
        if k =? 0 then match std_normal 64 st with Some (x, s) => Some (bits_of_b64 x, s) | None => None end
        else if k =? 1 then match exp1 64 st with Some (x, s) => Some (bits_of_b64 x, s) | None => None end
        else if k =? 2 then let (w, s) := draw st in Some (Z.of_N (N.shiftr w 11), s)
        else let (w, s) := draw st in Some (Z.of_N (N.shiftr (N.shiftr w 32) 8), s) in
      match one with
      | None => None
      | Some (v, s) => match mixed r s with None => None | Some (vs, s') => Some (v :: vs, s') end
      end
  end.
Definition mixed_eval (seed : N) (kinds : list Z) (orc : list Z) : list Z :=
  match mixed kinds (zinit seed orc) with
  | None => [0]
  | Some (vs, st) => 1 :: vs ++ [Z.of_nat (length (z_orc st))] ++ flat_log (z_log st)
  end.

(* ---- core.rs init_with_seed(n, d, seed) from the seed alone: SmallRng::seed_from_u64(seed), n*d StandardNormal draws,
   row-major, converted to the element type.  Output: [1; entries (bits) row-major; oracle values left] or [0] ---- *)
Definition init_seeded (conv : binary64 -> Z) (seed : N) (n d : nat) (orc : list Z) : list Z :=
  match normals 64 (n * d) (zinit seed orc) with
  | None => [0]
  | Some (xs, st) => 1 :: concat (init_model conv f_zero xs n d) ++ [Z.of_nat (length (z_orc st))]
  end.
Definition init_seeded64 := init_seeded bits_of_b64.
Definition init_seeded32 := init_seeded (fun x => bits_of_b32 (f64_to_f32 x)).
