From MiniMcmc Require Import Base.Fp Model.MH.
From Coq Require Import Reals Lra Lia.

(* ------------------------------------------------------------------ IEEE decision layer *)
Section Decision.
  Variables prec emax : Z.
  Context (Hprec : FLX.Prec_gt_0 prec) (Hmax : BinarySingleNaN.Prec_lt_emax prec emax).
  Notation fl := (binary_float prec emax).
  Variable nanf : fl -> fl -> { x : fl | Binary.is_nan prec emax x = true }.

  (* NaN or -inf *)
  Definition bad (a : fl) : Prop := fnan a = true \/ fneginf a = true.

  Lemma nanf_nan a b : fnan (proj1_sig (nanf a b)) = true.
  Proof. destruct (nanf a b) as [x H]. exact H. Qed.

  Lemma fplus_bad_l a b : bad a -> bad (fplus nanf a b).
  Proof.
    intros [H|H].
    - left. destruct a; try discriminate H.
      unfold fplus, Binary.Bplus. destruct b; simpl; first [apply nanf_nan | reflexivity].
    - destruct a as [| [|] | |]; try discriminate H.
      unfold bad, fplus, Binary.Bplus.
      destruct b as [| [|] | |]; simpl; auto; left; first [apply nanf_nan | reflexivity].
  Qed.

  Lemma fminus_bad_l a b : bad a -> bad (fminus nanf a b).
  Proof.
    intros [H|H].
    - left. destruct a; try discriminate H.
      unfold fminus, Binary.Bminus. destruct b; simpl; first [apply nanf_nan | reflexivity].
    - destruct a as [| [|] | |]; try discriminate H.
      unfold bad, fminus, Binary.Bminus.
      destruct b as [| [|] | |]; simpl; auto; left; first [apply nanf_nan | reflexivity].
  Qed.

  Lemma fgt_bad_l (a b : fl) : bad a -> fgt a b = false.
  Proof.
    intros [H|H].
    - destruct a; try discriminate H. reflexivity.
    - destruct a as [| [|] | |]; try discriminate H. destruct b as [| [|] | |]; reflexivity.
  Qed.

  Lemma fgt_nan_r (a b : fl) : fnan b = true -> fgt a b = false.
  Proof. intros H. destruct b; try discriminate H. destruct a; reflexivity. Qed.

  Lemma fgt_flt (a b : fl) : fgt a b = flt b a.
  Proof.
    unfold fgt, flt, fcmp. rewrite (Bcompare_swap _ _ a b).
    destruct (Bcompare prec emax a b) as [[| |]|]; reflexivity.
  Qed.

  (* candidate of NaN or -inf log-density is never accepted, whatever the other operands *)
  Theorem mh_reject_bad lp_x lp_y lq_xy lq_yx lnu :
    bad lp_y -> mh_accept nanf lp_x lp_y lq_xy lq_yx lnu = false.
  Proof.
    intros H. unfold mh_accept, mh_ratio. apply fgt_bad_l, fminus_bad_l, fplus_bad_l, H.
  Qed.

  Theorem mh_step_rule {St} (x y : St) lp_x lp_y lq_xy lq_yx lnu :
    (flt lnu (mh_ratio nanf lp_x lp_y lq_xy lq_yx) = true ->
       mh_step nanf x y lp_x lp_y lq_xy lq_yx lnu = y) /\
    (flt lnu (mh_ratio nanf lp_x lp_y lq_xy lq_yx) = false ->
       mh_step nanf x y lp_x lp_y lq_xy lq_yx lnu = x).
  Proof.
    unfold mh_step, mh_accept. rewrite fgt_flt. split; intros ->; reflexivity.
  Qed.

  Theorem mh_step_nan_ratio {St} (x y : St) lp_x lp_y lq_xy lq_yx lnu :
    fnan (mh_ratio nanf lp_x lp_y lq_xy lq_yx) = true ->
    mh_step nanf x y lp_x lp_y lq_xy lq_yx lnu = x.
  Proof.
    intros H. unfold mh_step, mh_accept. rewrite fgt_bad_l; [reflexivity|left; exact H].
  Qed.
End Decision.

(* ------------------------------------------------------------------ exact kernel *)
Open Scope R_scope.

Lemma accept_region (r u : R) : 0 < u < 1 -> (ln u < r <-> u < Rmin 1 (exp r)).
Proof.
  intros [H0 H1]. split.
  - intros H. apply Rmin_glb_lt; [exact H1|].
    rewrite <- (exp_ln u H0). apply exp_increasing. exact H.
  - intros H. apply exp_lt_inv. rewrite (exp_ln u H0).
    eapply Rlt_le_trans; [exact H|apply Rmin_r].
Qed.

Lemma min_ratio a b : 0 < a -> a * Rmin 1 (b / a) = Rmin a b.
Proof.
  intros Ha. unfold Rmin.
  destruct (Rle_dec 1 (b / a)) as [H1|H1]; destruct (Rle_dec a b) as [H2|H2]; try lra.
  - exfalso. apply H2. apply Rmult_le_reg_r with (/ a); [apply Rinv_0_lt_compat; lra|].
    rewrite Rinv_r by lra. exact H1.
  - exfalso. apply H1. apply Rmult_le_reg_r with a; [lra|].
    unfold Rdiv. rewrite Rmult_assoc, Rinv_l by lra. lra.
  - field. lra.
Qed.

Section KernelProofs.
  Context {St : Type}.
  Variable eqb : St -> St -> bool.
  Hypothesis eqb_spec : forall x y, eqb x y = true <-> x = y.
  Variable states : list St.
  Variable pi : St -> R.
  Variable q : St -> St -> R.
  Hypothesis pi_pos : forall x, 0 < pi x.
  Hypothesis q_nonneg : forall x y, 0 <= q x y.

  Lemma eqb_sym x y : eqb x y = eqb y x.
  Proof.
    destruct (eqb x y) eqn:E1; destruct (eqb y x) eqn:E2; auto.
    - apply eqb_spec in E1. subst. assert (eqb y y = true) by (apply eqb_spec; reflexivity). congruence.
    - apply eqb_spec in E2. subst. assert (eqb x x = true) by (apply eqb_spec; reflexivity). congruence.
  Qed.

  Theorem detailed_balance x y : pi x * Koff eqb pi q x y = pi y * Koff eqb pi q y x.
  Proof.
    unfold Koff. rewrite (eqb_sym y x). destruct (eqb x y); [lra|].
    unfold acc.
    destruct (q_nonneg x y) as [Hxy|Hxy]; destruct (q_nonneg y x) as [Hyx|Hyx].
    - assert (Ha : 0 < pi x * q x y) by (apply Rmult_lt_0_compat; auto).
      assert (Hb : 0 < pi y * q y x) by (apply Rmult_lt_0_compat; auto).
      rewrite <- !Rmult_assoc. rewrite (min_ratio _ _ Ha), (min_ratio _ _ Hb). apply Rmin_comm.
    - rewrite <- Hyx. unfold Rdiv. rewrite !Rmult_0_r, !Rmult_0_l.
      rewrite Rmin_right by lra. lra.
    - rewrite <- Hxy. unfold Rdiv. rewrite !Rmult_0_r, !Rmult_0_l.
      rewrite Rmin_right by lra. lra.
    - rewrite <- Hxy, <- Hyx. lra.
  Qed.

  (* sums *)
  Lemma sumR_plus (f g : St -> R) l : sumR (fun x => f x + g x) l = sumR f l + sumR g l.
  Proof. induction l as [|a l IH]; simpl; [lra|]. rewrite IH. lra. Qed.

  Lemma sumR_scal c (f : St -> R) l : sumR (fun x => c * f x) l = c * sumR f l.
  Proof. induction l as [|a l IH]; simpl; [lra|]. rewrite IH. lra. Qed.

  Lemma sumR_ext (f g : St -> R) l : (forall x, f x = g x) -> sumR f l = sumR g l.
  Proof. intros H. induction l as [|a l IH]; simpl; [reflexivity|]. rewrite IH, H. reflexivity. Qed.

  Lemma sumR_indicator_notin (g : St -> R) y l :
    ~ In y l -> sumR (fun x => if eqb x y then g x else 0) l = 0.
  Proof.
    induction l as [|a l IH]; simpl; intros H; [reflexivity|].
    destruct (eqb a y) eqn:E.
    - apply eqb_spec in E. subst. exfalso. apply H. left. reflexivity.
    - rewrite IH; [lra|]. intros Hin. apply H. right. exact Hin.
  Qed.

  Lemma sumR_indicator (g : St -> R) y l :
    NoDup l -> In y l -> sumR (fun x => if eqb x y then g x else 0) l = g y.
  Proof.
    induction l as [|a l IH]; simpl; intros Hnd Hin; [contradiction|].
    inversion Hnd as [|a' l' Hnotin Hnd']; subst.
    destruct Hin as [->|Hin].
    - assert (E : eqb y y = true) by (apply eqb_spec; reflexivity). rewrite E.
      rewrite sumR_indicator_notin by assumption. lra.
    - destruct (eqb a y) eqn:E.
      + apply eqb_spec in E. subst. contradiction.
      + rewrite IH by assumption. lra.
  Qed.

  Theorem stationary y : NoDup states -> In y states ->
    sumR (fun x => pi x * K eqb states pi q x y) states = pi y.
  Proof.
    intros Hnd Hin. unfold K.
    rewrite (sumR_ext _ (fun x => pi y * Koff eqb pi q y x
                                  + (if eqb x y then pi x * (1 - sumR (Koff eqb pi q x) states) else 0))).
    2:{ intros x. rewrite Rmult_plus_distr_l, detailed_balance. destruct (eqb x y); lra. }
    rewrite sumR_plus, sumR_scal.
    rewrite (sumR_indicator (fun x => pi x * (1 - sumR (Koff eqb pi q x) states))) by assumption.
    lra.
  Qed.

  (* K is a stochastic kernel: rows sum to one *)
  Theorem K_row_sum x : NoDup states -> In x states -> sumR (K eqb states pi q x) states = 1.
  Proof.
    intros Hnd Hin. unfold K. rewrite sumR_plus.
    rewrite (sumR_ext (fun y => if eqb x y then 1 - sumR (Koff eqb pi q x) states else 0)
                      (fun y => if eqb y x then 1 - sumR (Koff eqb pi q x) states else 0))
      by (intros y; rewrite eqb_sym; reflexivity).
    rewrite (sumR_indicator (fun _ => 1 - sumR (Koff eqb pi q x) states)) by assumption. lra.
  Qed.
End KernelProofs.

Section KernelProofs2.
  Context {St : Type}.
  Variable eqb : St -> St -> bool.
  Hypothesis eqb_spec : forall x y, eqb x y = true <-> x = y.
  Variable states : list St.
  Variable pi : St -> R.
  Variable q : St -> St -> R.
  Hypothesis pi_pos : forall x, 0 < pi x.
  Hypothesis q_nonneg : forall x y, 0 <= q x y.

  Theorem detailed_balance_K x y :
    pi x * K eqb states pi q x y = pi y * K eqb states pi q y x.
  Proof.
    destruct (eqb x y) eqn:E.
    - apply eqb_spec in E. subst. reflexivity.
    - unfold K. rewrite E, (eqb_sym eqb eqb_spec y x), E.
      rewrite !Rplus_0_r. apply detailed_balance; assumption.
  Qed.
End KernelProofs2.
