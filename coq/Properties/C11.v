(* C11 — The reported split R-hat equals sqrt(var+/W) computed on the two halves of each chain.
   It is never below sqrt((n-1)/n), increases without bound as chains are moved apart, and is
   unchanged by affine rescaling of the parameter, by permuting chains and by the values of other
   parameters.  When all per-parameter values are finite the run summary reports their true
   minimum, maximum and a middle order statistic as median.
   Models: Model/Stats.v (split_halves, var_n, withinvar, split_rhat2 = var+/W, i.e. the square of
   the reported value; the implementation takes the square root of it) at the reals (numR:
   add = Rplus, ..., ofN n = IZR (Z.of_nat n)), and Model/Summary.v (basic_sel).
   split_rhat2 is a function of the draws of ONE parameter only (the implementation applies it
   per parameter column), so independence from the other parameters holds by construction.
   Proofs: Proofs/Rhat.v. *)
From MiniMcmc Require Import Base.Num Base.Util Model.Stats Model.Summary Proofs.Rhat.
From Coq Require Import Reals Permutation Sorting.Sorted.
Open Scope R_scope.

(* ---- (1) the formula.  hs: M >= 1 half-chains of common length n.
   W = mean of the per-half variances (divisor n), B = n * sum (mean_h - overall)^2 / (M - 1),
   var+ = (n-1)/n * W + B/n;  withinvar returns (W, var+) and split_rhat2 is var+/W on the halves. *)
Theorem C11_formula : forall (hs : list (list R)) (n : nat),
  (forall h, In h hs -> length h = n) -> hs <> [] ->
  let M := length hs in
  let overall := meanK numR (map (meanK numR) hs) in
  let W := meanK numR (map (var_n numR) hs) in
  let B := IZR (Z.of_nat n)
           * sumK numR (map (fun h => (meanK numR h - overall) * (meanK numR h - overall)) hs)
           / (IZR (Z.of_nat M) - 1) in
  withinvar numR hs
  = (W, (IZR (Z.of_nat n) - 1) / IZR (Z.of_nat n) * W + B / IZR (Z.of_nat n)).
Proof. exact withinvar_formula. Qed.

Theorem C11_formula_var_n : forall xs : list R,
  var_n numR xs
  = sumK numR (map (fun x => (x - meanK numR xs) * (x - meanK numR xs)) xs)
    / IZR (Z.of_nat (length xs)).
Proof. exact var_n_formula. Qed.

Theorem C11_formula_ratio : forall chains : list (list R),
  split_rhat2 numR chains
  = snd (withinvar numR (split_halves numR chains)) / fst (withinvar numR (split_halves numR chains)).
Proof. exact split_rhat2_R. Qed.

(* the halves: first n/2 and last n/2 draws of every chain, 2 * (number of chains) of them, each
   of length n/2 *)
Theorem C11_formula_halves : forall (chains : list (list R)) (n : nat),
  (forall c, In c chains -> length c = n) ->
  split_halves numR chains
  = map (firstn (n / 2)) chains ++ map (skipn (n - n / 2)) chains /\
  length (split_halves numR chains) = (2 * length chains)%nat /\
  (forall h, In h (split_halves numR chains) -> length h = (n / 2)%nat).
Proof. exact split_halves_spec. Qed.

(* ---- (2) lower bound: var+/W >= (n-1)/n, with equality exactly when all half means coincide *)
Theorem C11_lower_bound : forall (hs : list (list R)) (n : nat),
  (forall h, In h hs -> length h = n) -> (2 <= length hs)%nat -> (1 <= n)%nat ->
  0 < fst (withinvar numR hs) ->
  (IZR (Z.of_nat n) - 1) / IZR (Z.of_nat n) <= snd (withinvar numR hs) / fst (withinvar numR hs).
Proof. exact withinvar_lower. Qed.

Theorem C11_lower_bound_equality : forall (hs : list (list R)) (n : nat),
  (forall h, In h hs -> length h = n) -> (2 <= length hs)%nat -> (1 <= n)%nat ->
  0 < fst (withinvar numR hs) ->
  (snd (withinvar numR hs) / fst (withinvar numR hs) = (IZR (Z.of_nat n) - 1) / IZR (Z.of_nat n)
   <-> forall h, In h hs -> meanK numR h = meanK numR (map (meanK numR) hs)).
Proof. exact withinvar_eq_iff. Qed.

(* on the chains themselves (halves of length n/2), for the squared and for the reported value *)
Theorem C11_lower_bound_chains : forall (chains : list (list R)) (n : nat),
  chains <> [] -> (forall c, In c chains -> length c = n) -> (2 <= n)%nat ->
  0 < fst (withinvar numR (split_halves numR chains)) ->
  (IZR (Z.of_nat (n / 2)) - 1) / IZR (Z.of_nat (n / 2)) <= split_rhat2 numR chains /\
  sqrt ((IZR (Z.of_nat (n / 2)) - 1) / IZR (Z.of_nat (n / 2))) <= sqrt (split_rhat2 numR chains).
Proof. intros; split; [apply split_rhat2_lower|apply split_rhat_lower_sqrt]; assumption. Qed.

(* ---- (3) affine rescaling x |-> a x + b, a <> 0, of the parameter (W <> 0: otherwise both sides
   are a division by zero, on which Coq's Rinv is unspecified) *)
Theorem C11_affine : forall (a b : R) (chains : list (list R)) (n : nat),
  a <> 0 -> (forall c, In c chains -> length c = n) ->
  fst (withinvar numR (split_halves numR chains)) <> 0 ->
  split_rhat2 numR (map (map (fun x => a * x + b)) chains) = split_rhat2 numR chains.
Proof. exact split_rhat2_affine. Qed.

(* ---- (4) permuting the chains (no side condition on W: W and var+ are both unchanged) *)
Theorem C11_perm : forall (chains chains' : list (list R)) (n : nat),
  (forall c, In c chains -> length c = n) -> Permutation chains chains' ->
  split_rhat2 numR chains' = split_rhat2 numR chains.
Proof. exact split_rhat2_perm. Qed.

(* ---- (5) the ratio before the repair (W/var+) violates the lower bound and the growth: two
   well-separated chains of length 4 (halves of length 2, so (n-1)/n = 1/2), evaluated in Q:
   the old value is below 1/100 while var+/W exceeds 100. *)
Theorem C11_old_ratio_refuted :
  exists chains : list (list Q),
    (forall c, In c chains -> length c = 4%nat) /\
    (split_rhat2_old numQ chains < 1 # 100)%Q /\
    (inject_Z 100 < split_rhat2 numQ chains)%Q.
Proof.
  exists rhat_ex_chains. split; [|exact rhat_ex_values].
  intros c [<-|[<-|[]]]; reflexivity.
Qed.

(* ---- (6) moving one chain away (adding t to every draw of it) makes R-hat exceed any bound.
   Only the moved chain's length (>= 2, so that its halves are non-empty) and W > 0 at t = 0 are
   needed; c2 and the remaining chains are arbitrary (W does not depend on t). *)
Theorem C11_unbounded : forall (c1 c2 : list R) (rest : list (list R)),
  (2 <= length c1)%nat ->
  0 < fst (withinvar numR (split_halves numR (c1 :: c2 :: rest))) ->
  forall Bd : R, exists t0 : R, forall t : R, t0 <= Rabs t ->
    Bd <= split_rhat2 numR (map (fun x => x + t) c1 :: c2 :: rest).
Proof. exact split_rhat2_unbounded. Qed.

Theorem C11_unbounded_sqrt : forall (c1 c2 : list R) (rest : list (list R)),
  (2 <= length c1)%nat ->
  0 < fst (withinvar numR (split_halves numR (c1 :: c2 :: rest))) ->
  forall Bd : R, exists t0 : R, forall t : R, t0 <= Rabs t ->
    Bd <= sqrt (split_rhat2 numR (map (fun x => x + t) c1 :: c2 :: rest)).
Proof. exact split_rhat_unbounded_sqrt. Qed.

(* ---- (7) run summary: min, median, max selected from the descending sort *)
Theorem C11_sort_desc : forall l : list Z,
  Permutation l (sort_desc l) /\ StronglySorted (fun x y => (y <= x)%Z) (sort_desc l).
Proof. intros l. split; [apply sort_desc_perm|apply sort_desc_sorted]. Qed.

Theorem C11_summary : forall l : list Z, l <> [] ->
  let '(mn, md, mx) := basic_sel l in
  In mn l /\ In mx l /\ In md l /\ (forall x, In x l -> (mn <= x <= mx)%Z) /\
  md = nth (length l / 2) (sort_desc l) 0%Z.
Proof. exact basic_sel_spec. Qed.

(* the integer keys map back to the original f32 bit patterns *)
Theorem C11_key_round_trip : forall b : Z,
  (0 <= b < 2 ^ 32)%Z -> key_to_bits32 (total_key32 b) = b.
Proof. exact key32_round_trip. Qed.

(* ---- non-vacuity *)
(* half-chains meeting every hypothesis of C11_lower_bound (M = 2, n = 2, W = 5/8 > 0) *)
Example C11_lower_bound_hypotheses_satisfiable :
  let hs := [[0; 1]; [2; 4]] in
  (forall h, In h hs -> length h = 2%nat) /\ (2 <= length hs)%nat /\ (1 <= 2)%nat /\
  0 < fst (withinvar numR hs).
Proof.
  cbv zeta. repeat split.
  - intros h [<-|[<-|[]]]; reflexivity.
  - apply le_n.
  - apply le_S, le_n.
  - rewrite withinvar_R. unfold wv, rmean, rvar, rmean, sq. simpl. Lra.lra.
Qed.

(* chains meeting every hypothesis of C11_lower_bound_chains, C11_affine, C11_perm, C11_unbounded *)
Example C11_chain_hypotheses_satisfiable :
  let chains := [[0; 1; 0; 2]; [5; 7; 5; 8]] in
  chains <> [] /\ (forall c, In c chains -> length c = 4%nat) /\ (2 <= 4)%nat /\
  0 < fst (withinvar numR (split_halves numR chains)) /\
  fst (withinvar numR (split_halves numR chains)) <> 0.
Proof.
  cbv zeta.
  assert (H : 0 < fst (withinvar numR (split_halves numR [[0; 1; 0; 2]; [5; 7; 5; 8]]))).
  { rewrite withinvar_R, split_halves_R. unfold wv, rmean, rvar, rmean, sq. simpl. Lra.lra. }
  repeat split.
  - discriminate.
  - intros c [<-|[<-|[]]]; reflexivity.
  - apply le_S, le_S, le_n.
  - exact H.
  - apply Rgt_not_eq. exact H.
Qed.

Example C11_summary_concrete :
  basic_sel [3; 1; 2]%Z = (1, 2, 3)%Z /\ basic_sel [4; 1; 3; 2]%Z = (1, 2, 4)%Z.
Proof. split; vm_compute; reflexivity. Qed.

(* ---- the correspondence check evaluates the SAME generic model at exact rationals (numQ, normalised);
   mapped to the reals with Q2R this evaluation is the real-number model of the theorems above ---- *)
From Coq Require Import QArith Qreals.
From MiniMcmc Require Import Proofs.Q2R.

Theorem C11_q_evaluation_is_real_model : forall (hs : list (list Q)) (n : nat),
  (2 <= length hs)%nat -> (1 <= n)%nat -> (forall h, In h hs -> length h = n) ->
  Q2R (fst (withinvar numQ hs)) = fst (withinvar numR (map (map Q2R) hs)) /\
  Q2R (snd (withinvar numQ hs)) = snd (withinvar numR (map (map Q2R) hs)).
Proof. exact q2r_withinvar. Qed.

Theorem C11_q_split_rhat2_is_real : forall (cs : list (list Q)) (n : nat),
  cs <> [] -> (forall c, In c cs -> length c = n) -> (1 <= n / 2)%nat ->
  ~ (fst (withinvar numQ (split_halves numQ cs)) == 0)%Q ->
  Q2R (split_rhat2 numQ cs) = split_rhat2 numR (map (map Q2R) cs).
Proof. exact q2r_split_rhat2. Qed.

Print Assumptions C11_formula.
Print Assumptions C11_formula_var_n.
Print Assumptions C11_formula_ratio.
Print Assumptions C11_formula_halves.
Print Assumptions C11_lower_bound.
Print Assumptions C11_lower_bound_equality.
Print Assumptions C11_lower_bound_chains.
Print Assumptions C11_affine.
Print Assumptions C11_perm.
Print Assumptions C11_old_ratio_refuted.
Print Assumptions C11_unbounded.
Print Assumptions C11_unbounded_sqrt.
Print Assumptions C11_sort_desc.
Print Assumptions C11_summary.
Print Assumptions C11_key_round_trip.
Print Assumptions C11_q_evaluation_is_real_model.
Print Assumptions C11_q_split_rhat2_is_real.
