"""C08 — chains of one sampler are driven by distinct random streams."""
import common as C

ID = "C08"
LEVEL = "proof"
COQ_HEADER = "From MiniMcmc Require Import Model.Seeds."
RULE = ("MH with 2..64 chains, seeded {0,42,u64::MAX-k,random} and unseeded, with the library's IsotropicGaussian and a "
        "user-defined seedable proposal that records the seed handed to it: acceptance generators (cloned from the public "
        "field) and proposal draws pairwise distinct across chains; recorded proposal seeds compared exactly with "
        "Model.Seeds.mh_prop_seed, acceptance outputs with Base.Rng; no chain's acceptance generator seeded like any "
        "proposal generator (checked against IsotropicGaussian probes seeded with the acceptance seeds); MH/HMC/NUTS chains "
        "started from one common state follow pairwise different trajectories. Non-trivial: >= 2 chains.")
TRUSTED = ["from_os_rng / rand::rng entropy for unseeded construction (collisions at 2^-64 scale)",
           "two different xoshiro states emitting the same sequence is not excluded by proof (first outputs observed)"]
ASSUMPTIONS = ["Gibbs excluded: the library has no handle on a user's Conditional randomness"]
MAXU = (1 << 64) - 1


def generate(rng, tier):
    cases = []
    # incl. seeds around 2^63 and 2^64: a role-dependent derivation (acceptance vs proposal generator) can make the two
    # seed windows meet exactly there
    seeds = [None, None, 0, 42, MAXU, MAXU - 1, MAXU - 2, (1 << 63) - 2, (1 << 63) - 3, (1 << 63) - 1, 1 << 63, rng.getrandbits(64)]
    if tier == "thorough":
        seeds += [rng.getrandbits(64) for _ in range(20)] + [None] * 5
    for s in seeds:
        nc = rng.choice([2, 3, 8, 64]) if s is not None else rng.choice([2, 5, 16, 64])
        probe = [str((1 + s + i) % (1 << 64)) for i in range(nc)] if s is not None else []
        cases.append({"op": "mh_streams", "n_chains": nc, "seed": None if s is None else str(s), "probe_seeds": probe})
    # a proposal object that has already been sampled from before the sampler is built from it
    for s in [None, 42, rng.getrandbits(64)]:
        for k in [1, 5]:
            nc = rng.choice([2, 4, 8])
            probe = [str((1 + s + i) % (1 << 64)) for i in range(nc)] if s is not None else []
            cases.append({"op": "mh_streams", "n_chains": nc, "seed": None if s is None else str(s), "probe_seeds": probe, "pre_used": k})
    for kind, f in [("mh", "f64"), ("mh", "f32"), ("hmc", "f32"), ("hmc", "f64"), ("nuts", "f32"), ("nuts", "f64")]:
        for s, nc in [(None, rng.choice([2, 4, 9])), (42, rng.choice([2, 4, 9])), (rng.getrandbits(64), rng.choice([2, 4, 9])),
                      (MAXU, 5), (MAXU - 1, 4), (rng.getrandbits(64), 64), (rng.getrandbits(64), rng.randint(33, 48))]:
            cases.append({"op": "traj", "kind": kind, "f": f, "seed": None if s is None else str(s),
                          "n_chains": nc, "n": 6, "d": 0})
    return cases


def coq_term(case, out):
    if case["op"] != "mh_streams" or case["seed"] is None or "panic" in out:
        return None
    return "c07_eval %s %s %s" % (case["seed"], C.natlit(case["n_chains"]), C.natlit(4))


def compare(case, out, model):
    if model is None:
        return None
    n, k = case["n_chains"], 4
    m_acc = [model[i * k:(i + 1) * k] for i in range(n)]
    off = n * k + n + n * k + n
    m_prop = model[off:off + n]
    for i in range(n):
        if out["lib"][i]["acc"] != m_acc[i] or out["user"][i]["acc"] != m_acc[i]:
            return "chain %d: acceptance generator is not seed_from_u64(mh_seed s i)" % i
        if out["user"][i]["prop_seed"] is None or int(out["user"][i]["prop_seed"]) != m_prop[i]:
            return "chain %d: user-defined proposal was seeded with %s, model mh_prop_seed = %d" % (i, out["user"][i]["prop_seed"], m_prop[i])
    return None


def pairwise_distinct(xs):
    seen = {}
    for i, x in enumerate(xs):
        key = tuple(x) if isinstance(x, list) else x
        if key in seen:
            return (seen[key], i)
        seen[key] = i
    return None


def oracle(case, out):
    if "panic" in out:
        return "%s panicked: %s" % (case["op"], out["panic"])
    how = "seed=%s" % case["seed"] if case["seed"] is not None else "unseeded"
    if case["op"] == "mh_streams":
        for name in ("lib", "user"):
            pn = "IsotropicGaussian" if name == "lib" else "user-defined seedable proposal"
            d = pairwise_distinct([ch["prop"] for ch in out[name]])
            if d:
                return "MH (%s, %s, %d chains): chains %d and %d receive identical proposal noise from equal states" % (
                    pn, how, case["n_chains"], d[0], d[1])
            d = pairwise_distinct([ch["acc"] for ch in out[name]])
            if d:
                return "MH (%s, %s): chains %d and %d have identical acceptance generators" % (pn, how, d[0], d[1])
        # acceptance generator never seeded like a proposal generator
        for i, ch in enumerate(out["user"]):
            if ch["acc_rng_equals_prop_rng"] or ch["acc_seeded_like_prop"]:
                return "MH (%s): chain %d's acceptance generator equals its proposal generator" % (how, i)
        if case["seed"] is not None:
            props = {tuple(ch["prop"]): i for i, ch in enumerate(out["lib"])}
            for j, pr in enumerate(out["probes"]):
                if tuple(pr) in props:
                    return "MH (seed=%s): proposal generator of chain %d is seeded exactly like the acceptance generator of chain %d" % (
                        case["seed"], props[tuple(pr)], j)
            seeds = [int(ch["prop_seed"]) for ch in out["user"] if ch["prop_seed"] is not None]
            acc_seeds = {(1 + int(case["seed"]) + i) % (1 << 64) for i in range(case["n_chains"])}
            both = acc_seeds & set(seeds)
            if both:
                return "MH (seed=%s): seed %d is used for an acceptance and a proposal generator" % (case["seed"], sorted(both)[0])
    else:
        # chains that never left their state (every proposal rejected) coincide without sharing randomness: only chains
        # that moved are compared (thorough tier, 64 MH chains x 6 steps: two all-rejecting chains were reported — false alarm)
        idx = [i for i, mv in enumerate(out.get("moved", [True] * len(out["per_chain"]))) if mv]
        d = pairwise_distinct([out["per_chain"][i] for i in idx])
        if d:
            return "%s/%s (%s): chains %d and %d started from one common state follow identical trajectories" % (
                case["kind"], case["f"], how, idx[d[0]], idx[d[1]])
    return None


def finding_class(case, out, d):
    return None


def nontrivial(case, out):
    if isinstance(out, dict) and "moved" in out:
        return sum(out["moved"]) >= 2
    return case["n_chains"] >= 2


def extra(cases, outs, model):
    return {"seeded_cases": sum(1 for c in cases if c["seed"] is not None),
            "unseeded_cases": sum(1 for c in cases if c["seed"] is None)}
