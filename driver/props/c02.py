"""C02 — HMC update = L leapfrog steps plus Metropolis test on the Hamiltonian."""
from fractions import Fraction
import math, struct
import common as C
import zigtie

ID = "C02"
LEVEL = "proof"
COQ_HEADER = "From MiniMcmc Require Import Model.HMC Model.Ziggurat."
RULE = ("HMC::step under the per-step hook on DiffableGaussian2D, Rosenbrock2D, RosenbrockND and harness-defined batched targets "
        "(diagonal Gaussian d<=16, quartic), 1..32 chains, L in 0..64, step sizes 1e-3..unstable, f32 and f64 backends, several "
        "consecutive steps (so steps follow rejections): (1) decision layer bit-exact in Flocq: accept_logp = h_current - "
        "h_proposed, mask = (accept_logp >= ln u), new position = mask ? proposal : old, bitwise; (2) one-step numerics: "
        "proposal, momentum, energy difference and log-densities for L<=3 against Model.HMC.leapfrog over exact rationals "
        "with the target's rational gradient (tolerance 2^-10 f32 / 2^-13 f64 of the scale; the tensor targets keep f32 parameters on f64 backends); (3) identities on the "
        "implementation, bitwise: step's proposal = leapfrog from the emitted (x,p) with a freshly computed half-gradient, "
        "L steps = L single steps, row independence under replacement of all other rows; reversibility within rounding for "
        "stable step sizes. Non-trivial: L >= 1 and >= 2 chains and (a rejection occurred before the step or L >= 2).")
TRUSTED = ["burn autodiff (gradient oracle; compared against the rational gradient in (2))", "burn/ndarray tensor kernels",
           "f32::ln for ln u (checked against math.log)"]
ASSUMPTIONS = ["momenta/uniforms enter as given values (emitted by the hook)"]


def fb(x):
    return C.float_to_f64_bits(x)


def bf(b):
    return C.f64_bits_to_float(b)


def r32(x):
    return struct.unpack("<f", struct.pack("<f", x))[0]


def gen_target(rng, f):
    k = rng.choice(["gauss2d", "gauss2d", "rosen2d", "rosennd", "diag", "diag", "quartic"])
    rd = (lambda x: r32(x)) if f == "f32" else (lambda x: x)
    if k == "gauss2d":
        a, d = rng.choice([1.0, 2.0, 4.0, 0.5]), rng.choice([1.0, 3.0, 0.25])
        bb = rng.choice([0.0, 0.25, -0.5]) * math.sqrt(a * d)
        return {"kind": k, "mean": [fb(rd(rng.choice([0.0, 1.0, -2.5]))), fb(rd(rng.choice([0.0, 1.0])))],
                "cov": [fb(rd(a)), fb(rd(bb)), fb(rd(bb)), fb(rd(d))]}, 2
    if k == "rosen2d":
        return {"kind": k, "a": fb(1.0), "b": fb(rng.choice([1.0, 5.0, 100.0]))}, 2
    if k == "rosennd":
        return {"kind": k}, rng.randint(2, 6)
    if k == "diag":
        d = rng.choice([1, 2, 3, 8, 16])
        return {"kind": k, "lam": [fb(float(rng.choice([0.25, 1, 4, 9, 100]))) for _ in range(d)]}, d
    return {"kind": k}, rng.choice([1, 2, 5])


def generate(rng, tier):
    n_cases = 70 if tier == "quick" else 800
    cases = []
    # one exactly-evaluated case per target kind with a rational gradient (so that every Model.HMC target definition the
    # theorems name is reached by an evaluated case on every run)
    for tg, dim in [({"kind": "gauss2d", "mean": [fb(0.0), fb(1.0)], "cov": [fb(2.0), fb(0.5), fb(0.5), fb(1.0)]}, 2),
                    ({"kind": "rosen2d", "a": fb(1.0), "b": fb(5.0)}, 2),
                    ({"kind": "diag", "lam": [fb(0.25), fb(4.0), fb(1.0)]}, 3),
                    ({"kind": "quartic"}, 2)]:
        init = [[fb(r32(rng.uniform(-1, 1))) for _ in range(dim)] for _ in range(2)]
        cases.append({"f": "f32", "target": tg, "init": init, "eps": fb(r32(0.05)), "L": 1, "k": 2,
                      "seed": str(rng.getrandbits(64)), "indep_row": 0})
    # the step size is a public field: retuned between updates of one sampler (after accepted and after rejected steps)
    for f in ["f32", "f64"]:
        for tg, dim in [({"kind": "diag", "lam": [fb(1.0), fb(4.0)]}, 2), ({"kind": "gauss2d", "mean": [fb(0.0), fb(1.0)], "cov": [fb(2.0), fb(0.5), fb(0.5), fb(1.0)]}, 2)]:
            rd_ = (lambda x: r32(x)) if f == "f32" else (lambda x: x)
            cases.append({"f": f, "target": tg, "init": [[fb(rd_(rng.uniform(-1, 1))) for _ in range(dim)] for _ in range(3)],
                          "eps": fb(rd_(0.5)), "L": 2, "k": 4, "seed": str(rng.getrandbits(64)), "indep_row": 1,
                          "retune": [None, fb(rd_(0.2)), None, fb(rd_(0.7))]})
    # one row of the batch overflows (energy error inf - inf = NaN) while the others are ordinary: rows are independent
    for f, far in [("f32", 1e20), ("f64", 1e200)]:
        rd_ = (lambda x: r32(x)) if f == "f32" else (lambda x: x)
        init = [[fb(rd_(0.8)), fb(rd_(0.7))], [fb(rd_(far)), fb(rd_(-3.0))], [fb(rd_(-0.5)), fb(rd_(0.2))]]
        cases.append({"f": f, "target": {"kind": "rosen2d", "a": fb(1.0), "b": fb(100.0)}, "init": init, "eps": fb(rd_(0.01)), "L": 3, "k": 3,
                      "seed": str(rng.getrandbits(64)), "indep_row": 0})
    # one large batch (n_chains * dim >= 4096): the draw discipline and the step must not change with the batch size
    cases.append({"f": "f32", "target": {"kind": "diag", "lam": [fb(1.0)] * 16}, "init": [[fb(r32(rng.uniform(-1, 1))) for _ in range(16)] for _ in range(280)],
                  "eps": fb(r32(0.05)), "L": 1, "k": 1, "seed": str(rng.getrandbits(64)), "indep_row": 5})
    # ... and one above 2^14 entries (checked against the replayed stream by the oracle only: too long for the model's list walk)
    cases.append({"f": "f32", "target": {"kind": "diag", "lam": [fb(1.0)] * 16}, "init": [[fb(r32(rng.uniform(-1, 1))) for _ in range(16)] for _ in range(1040)],
                  "eps": fb(r32(0.05)), "L": 1, "k": 1, "seed": str(rng.getrandbits(64)), "indep_row": 5})
    while len(cases) < n_cases:
        f = rng.choice(["f32", "f32", "f64"])
        tg, dim = gen_target(rng, f)
        nc = rng.choice([1, 2, 3, 8, 32]) if rng.random() < 0.8 else rng.randint(1, 32)
        r = rng.random()
        L = rng.choice([0, 1, 1, 2, 3]) if r < 0.6 else rng.randint(4, 64)
        eps = rng.choice([0.001, 0.01, 0.05, 0.1, 0.25, 0.5, 1.0, 2.5]) if rng.random() < 0.85 else rng.choice([10.0, 1e3])
        if tg["kind"] in ("rosen2d", "rosennd") and eps > 0.1:
            eps = rng.choice([0.001, 0.01, 0.05]) if rng.random() < 0.7 else eps
        if f == "f32":
            eps = r32(eps)
        init = [[fb((r32 if f == "f32" else float)(rng.uniform(-2, 2))) for _ in range(dim)] for _ in range(nc)]
        k = rng.choice([1, 2, 4]) if L <= 8 else 1
        cases.append({"f": f, "target": tg, "init": init, "eps": fb(eps), "L": L, "k": k,
                      "seed": str(rng.getrandbits(64)), "indep_row": rng.randrange(nc)})
    return cases


def dy(x):
    """Gallina literal (Q) for a float that is exactly representable"""
    if x == 0:
        return "(dy 0 0)"
    m, e = math.frexp(x)
    m = int(m * (1 << 53))
    e -= 53
    while m % 2 == 0:
        m //= 2
        e += 1
    return "(dy %s %s)" % (C.z(m), C.z(e))


def qlist(xs):
    return "[" + "; ".join(dy(x) for x in xs) + "]"


def q_target(case, out):
    tg = case["target"]
    k = tg["kind"]
    if k == "gauss2d":
        t = out["target"]
        mu = qlist([bf(b) for b in t["mean"]])
        P = qlist([bf(b) for b in t["inv_cov"]])
        c = dy(bf(t["norm_const"]))
        return "(gauss2_logp numQ %s %s %s)" % (mu, P, c), "(gauss2_grad numQ %s %s)" % (mu, P)
    if k == "rosen2d":
        a, b = dy(bf(tg["a"])), dy(bf(tg["b"]))
        return "(rosen2_logp numQ %s %s)" % (a, b), "(rosen2_grad numQ %s %s)" % (a, b)
    if k == "diag":
        lam = qlist([r32(bf(b)) for b in tg["lam"]])
        return "(diag_logp numQ %s)" % lam, "(diag_grad numQ %s)" % lam
    if k == "quartic":
        return "(quartic_logp numQ)", "(quartic_grad numQ)"
    return None


def q_rows(case, out):
    """rows (step index, row index) for which the Q model is evaluated"""
    if "panic" in out or q_target(case, out) is None:
        return []
    poly = case["target"]["kind"] in ("rosen2d", "quartic")
    lmax = (2 if case["f"] == "f32" else 1) if poly else 3
    if case["L"] > lmax:
        return []
    rows = []
    for si, st in enumerate(out["steps"][:2]):
        n, d = st["n_chains"], st["dim"]
        for r in range(min(n, 2)):
            vals = [bf(b) for b in st["pos_before"][r * d:(r + 1) * d] + st["momenta"][r * d:(r + 1) * d]]
            if all(math.isfinite(v) and abs(v) < 1e6 for v in vals):
                rows.append((si, r))
    return rows


def eps_at(case, si):
    """step size in force at update si (the public field may be reassigned between updates)"""
    e = case["eps"]
    for k, v in enumerate(case.get("retune", [])[:si + 1]):
        if v is not None:
            e = v
    return e


def step_groups(case, out):
    """(step index, rows) batches handed to Model.HMC.hmc_step over Q: the q_rows of one step with a finite ln u"""
    g = {}
    for (si, r) in q_rows(case, out):
        if math.isfinite(bf(out["steps"][si]["ln_u"][r])):
            g.setdefault(si, []).append(r)
    return sorted(g.items())


def coq_term(case, out):
    if "panic" in out:
        return None
    parts = []
    fn = "hmc_decide32" if case["f"] == "f32" else "hmc_decide64"
    conv = (lambda b: C.float_to_f32_bits(bf(b))) if case["f"] == "f32" else (lambda b: b)
    for st in out["steps"]:
        for r in range(st["n_chains"]):
            parts.append("%s %d %d %d" % (fn, conv(st["h_current"][r]), conv(st["h_proposed"][r]), conv(st["ln_u"][r])))
    qt = q_target(case, out)
    for (si, r) in q_rows(case, out):
        st = out["steps"][si]
        d = st["dim"]
        x = qlist([bf(b) for b in st["pos_before"][r * d:(r + 1) * d]])
        p = qlist([bf(b) for b in st["momenta"][r * d:(r + 1) * d]])
        parts.append("hmc_eval_q %s %s %s %s %s %s" % (qt[0], qt[1], dy(bf(eps_at(case, si))), C.natlit(case["L"]), x, p))
    for si, rs in step_groups(case, out):
        st = out["steps"][si]
        d = st["dim"]
        xs = "[" + "; ".join(qlist([bf(b) for b in st["pos_before"][r * d:(r + 1) * d]]) for r in rs) + "]"
        ps = "[" + "; ".join(qlist([bf(b) for b in st["momenta"][r * d:(r + 1) * d]]) for r in rs) + "]"
        lnus = qlist([bf(st["ln_u"][r]) for r in rs])
        parts.append("hmc_step_eval_q %s %s %s %s %s %s %s" % (qt[0], qt[1], dy(bf(eps_at(case, si))), C.natlit(case["L"]), xs, ps, lnus))
    if "draw_events" in out and len(out["draw_events"]) <= 6000:
        st0 = out["steps"][0]
        parts.append("hmc_draws_eval %s %s %s %s" % (C.natlit(st0["n_chains"]), C.natlit(st0["dim"]), C.natlit(len(out["steps"])),
                                                     C.zlist(out["draw_events"])))
    zg = zig_plan(case, out)
    if zg:
        parts.append(zigtie.term(case["seed"], zg))
    return " ++ ".join("(%s)" % q for q in parts)


_zig_cache = {}


def zig_plan(case, out):
    """every draw of the sampler's generator (per step n*d standard normals then n uniforms, in T) from the seed alone"""
    if "draw_events" not in out or "seed" not in case or not out.get("steps"):
        return None
    key = (case["seed"], case["f"], len(out["draw_events"]))
    if key not in _zig_cache:
        kinds = []
        for st in out["steps"]:
            kinds += [0] * (st["n_chains"] * st["dim"]) + [2] * st["n_chains"]
        _zig_cache[key] = zigtie.prepare(case["f"], case["seed"], kinds) if len(kinds) == len(out["draw_events"]) else None
    return _zig_cache[key]


def compare(case, out, model):
    if "panic" in out:
        return "implementation panicked: " + out["panic"]
    if model is None:
        return None
    model, zm = zigtie.split(model)
    if zm is not None:
        r = zigtie.check(case["f"], case["seed"], zig_plan(case, out), out["draw_events"], zm)
        if r:
            return "HMC generator stream: " + r
    conv = (lambda b: C.float_to_f32_bits(bf(b))) if case["f"] == "f32" else (lambda b: b)
    pos = 0
    for si, st in enumerate(out["steps"]):
        for r in range(st["n_chains"]):
            dbits, m = model[pos], model[pos + 1]
            pos += 2
            impl_d = conv(st["accept_logp"][r])
            nan = lambda b: math.isnan(C.f32_bits_to_float(b) if case["f"] == "f32" else bf(b))
            if impl_d != dbits and not (nan(impl_d) and nan(dbits)):
                return "step %d row %d: accept_logp bits %d, Flocq h_current - h_proposed gives %d" % (si, r, impl_d, dbits)
            if bool(m) != st["mask"][r]:
                return "step %d row %d: accept mask %s, Flocq (accept_logp >= ln u) = %s" % (si, r, st["mask"][r], bool(m))
    # the tensor-based targets store their parameters through `from_floats` (f32) also on f64 backends, so the
    # f64 paths deliver f32-level accuracy (C15's quantifier says so); hence no tighter tolerance for f64
    tol = Fraction(1, 2 ** 10) if case["f"] == "f32" else Fraction(1, 2 ** 13)
    exact = {}
    for (si, r) in q_rows(case, out):
        st = out["steps"][si]
        d = st["dim"]

        def q():
            nonlocal pos
            v = Fraction(model[pos], model[pos + 1])
            pos += 2
            return v
        xs = [q() for _ in range(d)]
        ps = [q() for _ in range(d)]
        dH, lp0, lp1 = q(), q(), q()
        same = model[pos]
        pos += 1
        if same != 1:
            return "model: leapfrog_impl (the loop as coded) and leapfrog (textbook form) differ on step %d row %d" % (si, r)
        exact[(si, r)] = (dH, 1 + abs(lp0) + abs(lp1) + sum(p * p for p in ps))
        if not all(math.isfinite(bf(b)) for b in st["pos_proposed"][r * d:(r + 1) * d] + st["mom_proposed"][r * d:(r + 1) * d]):
            continue
        ix = [Fraction(bf(b)) for b in st["pos_proposed"][r * d:(r + 1) * d]]
        ip = [Fraction(bf(b)) for b in st["mom_proposed"][r * d:(r + 1) * d]]
        scale = 1 + max([abs(v) for v in xs + ps] + [abs(Fraction(bf(b))) for b in st["pos_before"][r * d:(r + 1) * d] + st["momenta"][r * d:(r + 1) * d]])
        for j in range(d):
            if abs(ix[j] - xs[j]) > tol * scale * 4:
                return "step %d row %d coord %d: proposal %.9g, exact leapfrog(L=%d) gives %.9g" % (si, r, j, float(ix[j]), case["L"], float(xs[j]))
            if abs(ip[j] - ps[j]) > tol * scale * 4:
                return "step %d row %d coord %d: proposed momentum %.9g, exact %.9g" % (si, r, j, float(ip[j]), float(ps[j]))
        hc, hp = bf(st["h_current"][r]), bf(st["h_proposed"][r])
        if math.isfinite(hc) and math.isfinite(hp):
            escale = 1 + abs(Fraction(hc)) + abs(Fraction(hp)) + abs(lp0) + abs(lp1)
            if abs(Fraction(bf(st["accept_logp"][r])) - dH) > tol * escale * 8:
                return "step %d row %d: energy difference %.9g, exact H(x,p)-H(x',p') = %.9g" % (si, r, bf(st["accept_logp"][r]), float(dH))
            if abs(Fraction(bf(st["logp_current"][r])) - lp0) > tol * escale * 4:
                return "step %d row %d: log p(x) %.9g, exact %.9g" % (si, r, bf(st["logp_current"][r]), float(lp0))
    # whole step in exact arithmetic (Model.HMC.hmc_step over Q): new positions, where the decision is not within rounding of a tie
    for si, rs in step_groups(case, out):
        st = out["steps"][si]
        d = st["dim"]
        for r in rs:
            row = []
            for _ in range(d):
                row.append(Fraction(model[pos], model[pos + 1]))
                pos += 2
            dH, escale = exact[(si, r)]
            lnu = Fraction(bf(st["ln_u"][r]))
            got = [bf(b) for b in st["pos_after"][r * d:(r + 1) * d]]
            if abs(lnu - dH) <= tol * escale * 16 or not all(math.isfinite(v) for v in got):
                continue
            scale = 1 + max(abs(v) for v in row + [Fraction(bf(b)) for b in st["pos_before"][r * d:(r + 1) * d]])
            for j in range(d):
                if abs(Fraction(got[j]) - row[j]) > tol * scale * 4:
                    return ("step %d row %d coord %d: position after the step %.9g, exact hmc_step gives %.9g (ln u = %.6g, "
                            "H(x,p)-H(x',p') = %.6g)" % (si, r, j, got[j], float(row[j]), float(lnu), float(dH)))
    # draw discipline: the momenta and uniforms of every step are the model's selection from the replayed stream
    if "draw_events" in out and len(out["draw_events"]) <= 6000:
        for si, st in enumerate(out["steps"]):
            n, d = st["n_chains"], st["dim"]
            mom, uni = model[pos:pos + n * d], model[pos + n * d:pos + n * d + n]
            pos += n * d + n
            if st["momenta"] != mom:
                k = [i for i in range(n * d) if st["momenta"][i] != mom[i]][0]
                return ("step %d: momentum of chain %d, coordinate %d is %r, but draw number %d of the sampler's seeded generator "
                        "(n*d standard normals then n uniforms per step) is %r" % (si, k // d, k % d, bf(st["momenta"][k]),
                                                                                 si * (n * d + n) + k, bf(mom[k])))
            if st["uniform"] != uni:
                k = [i for i in range(n) if st["uniform"][i] != uni[i]][0]
                return "step %d: acceptance uniform of chain %d is %r, the seeded generator's draw at that place is %r" % (
                    si, k, bf(st["uniform"][k]), bf(uni[k]))
    if pos != len(model):
        return "internal: %d model numbers, %d consumed" % (len(model), pos)
    return None


def oracle(case, out):
    """Property text: each row ends at its old position or at the L-leapfrog point, the latter iff ln u <= H(x,p) - H(x',p');
    rows independent; integrator reversible up to rounding. Evaluated on the emitted values without the model."""
    if "panic" in out:
        return "HMC step panicked: " + out["panic"]
    L = case["L"]
    eps = max(bf(eps_at(case, si)) for si in range(max(1, len(out["steps"]))))
    ev = out.get("draw_events")
    for si, st in enumerate(out["steps"]):
        n, d = st["n_chains"], st["dim"]
        if ev is not None:
            base = si * (n * d + n)
            if st["momenta"] != ev[base:base + n * d] or st["uniform"] != ev[base + n * d:base + n * d + n]:
                return ("seed %s, step %d (%d chains x %d dims): the momenta / acceptance uniforms of the step are not draws %d..%d of the "
                        "sampler's own seeded generator (n*d standard normals, row-major, then n uniforms per step)" % (
                            case["seed"], si, n, d, base, base + n * d + n - 1))
        for r in range(n):
            sl = slice(r * d, (r + 1) * d)
            acc = bf(st["accept_logp"][r])
            lnu = bf(st["ln_u"][r])
            u = bf(st["uniform"][r])
            if not (0.0 <= u < 1.0):
                return "step %d row %d: acceptance draw %r outside [0,1)" % (si, r, u)
            if u > 0 and abs(lnu - math.log(u)) > 1e-5 * (1 + abs(math.log(u))):
                return "step %d row %d: ln u = %r for u = %r" % (si, r, lnu, u)
            hc, hp = bf(st["h_current"][r]), bf(st["h_proposed"][r])
            if math.isfinite(hc) and math.isfinite(hp):
                ref = hc - hp
                if abs(acc - ref) > 1e-5 * (1 + abs(hc) + abs(hp)):
                    return "step %d row %d: Metropolis quantity %r is not H(x,p) - H(x',p') = %r" % (si, r, acc, ref)
            take = (lnu <= acc)          # false on NaN
            exp = st["pos_proposed"][sl] if take else st["pos_before"][sl]
            if st["pos_after"][sl] != exp:
                return ("step %d row %d: ln u = %r, H(x,p)-H(x',p') = %r: the property demands the %s, the chain ended elsewhere"
                        % (si, r, lnu, acc, "leapfrog point" if take else "unchanged previous position"))
            if L == 0 and st["pos_proposed"][sl] != st["pos_before"][sl]:
                return "L = 0 but the proposal differs from the current position"
        if st.get("lf_pos") != st["pos_proposed"] or st.get("lf_mom") != st["mom_proposed"]:
            return ("step %d: the proposal is not the result of %d leapfrog steps from the emitted (x, p) with the gradient at x "
                    "(stale or wrong initial half-step)" % (si, L))
        if st.get("single_pos") != st["pos_proposed"] or st.get("single_mom") != st["mom_proposed"]:
            return "step %d: %d leapfrog steps differ from %d single steps" % (si, L, L)
        if st.get("row_independent") is False:
            return "step %d: row %d's proposal/energy/result changed when the other rows of the batch were replaced" % (si, case["indep_row"])
        # reversibility up to rounding, for stable trajectories only
        vals = [bf(b) for b in st["pos_proposed"] + st["mom_proposed"] + st["pos_before"] + st["momenta"]]
        if all(math.isfinite(v) for v in vals) and max(abs(v) for v in vals) < 50 and L <= 16 and eps <= 0.25 and case["target"]["kind"] in ("gauss2d", "diag"):
            ulp = 2.0 ** -23 if case["f"] == "f32" else 2.0 ** -52
            tol = 64 * ulp * (L + 1) * (1 + max(abs(v) for v in vals)) * 50
            for a, b in zip(st["rev_pos"], st["pos_before"]):
                if abs(bf(a) - bf(b)) > tol:
                    return "step %d: integrating again from (x', -p') ends %r away from x (tolerance %r)" % (si, abs(bf(a) - bf(b)), tol)
            for a, b in zip(st["rev_mom"], st["momenta"]):
                if abs(bf(a) + bf(b)) > tol:
                    return "step %d: integrating again from (x', -p') ends with momentum %r, expected %r" % (si, bf(a), -bf(b))
    return None


def finding_class(case, out, d):
    return None


def nontrivial(case, out):
    if "steps" not in out:
        return False
    rej = any(not all(st["mask"]) for st in out["steps"][:-1]) if len(out["steps"]) > 1 else False
    return case["L"] >= 1 and len(case["init"]) >= 2 and (rej or case["L"] >= 2)


def extra(cases, outs, model):
    steps = sum(len(o.get("steps", [])) for o in outs)
    rows = sum(st["n_chains"] for o in outs for st in o.get("steps", []))
    acc = sum(sum(st["mask"]) for o in outs for st in o.get("steps", []))
    after_rej = 0
    for o in outs:
        ss = o.get("steps", [])
        for a, b in zip(ss, ss[1:]):
            after_rej += sum(1 for m in a["mask"] if not m)
    tg = {}
    for c in cases:
        tg[c["target"]["kind"]] = tg.get(c["target"]["kind"], 0) + 1
    zn = sum(len(zig_plan(c, o)["kinds"]) for c, o in zip(cases, outs) if isinstance(o, dict) and zig_plan(c, o))
    return {"variates_computed_in_coq_from_seed": zn, "hmc_steps": steps, "rows_decided": rows, "rows_accepted": acc, "row_steps_following_a_rejection": after_rej,
            "targets": tg, "q_rows": sum(len(q_rows(c, o)) for c, o in zip(cases, outs)),
            "L_values": sorted({c["L"] for c in cases})}
