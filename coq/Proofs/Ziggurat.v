(* Proofs about the ziggurat model (Model/Ziggurat.v), for C18:
   A. finite facts about the rand_distr tables, by boolean checkers evaluated over the whole index range
      (monotonicity, equal layer areas in exact rational arithmetic, f = pdf(x) by 80-bit interval evaluation);
   B. the integer -> float conversions are exact;
   C. structure of a draw (fast path, draw streams compose, shape of init_seeded). *)
From MiniMcmc Require Import Model.Ziggurat Model.DualAvg Proofs.DualAvg Proofs.Init.
From Coq Require Import Reals QArith Qabs Qreals Lia Lra.
From Flocq Require Import Core.Raux Core.Defs Core.Float_prop Core.Generic_fmt Core.FLT Core.Round_NE.
From Interval Require Import Interval Xreal.
Open Scope R_scope.

(* ================= B. exact conversions ================= *)

Notation B2R64 := (Binary.B2R 53 1024).
Notation fin64 := (Binary.is_finite 53 1024).
Notation rnd64 := (round radix2 (FLT_exp (3 - 1024 - 53) 53) ZnearestE).

(* ---- bit patterns ---- *)
Lemma zb_B2R : forall z, B2R64 (zb z) = Binary.FF2R radix2 (binary_float_of_bits_aux 52 11 z).
Proof. intro z. unfold zb, b64_of_bits, binary_float_of_bits. apply Binary.B2R_FF2B. Qed.
Lemma zb_fin : forall z, fin64 (zb z) = Binary.is_finite_FF (binary_float_of_bits_aux 52 11 z).
Proof. intro z. unfold zb, b64_of_bits, binary_float_of_bits. apply Binary.is_finite_FF2B. Qed.

Lemma fwe_aux : forall (frac : N) (e : Z), (frac < 2 ^ 52)%N -> (e = 0 \/ e = 1)%Z ->
  binary_float_of_bits_aux 52 11 (Z.of_N frac + (1023 + e) * 2 ^ 52)
  = Binary.F754_finite false (Z.to_pos (Z.of_N frac + 2 ^ 52)) (e - 52).
Proof.
  intros frac e Hfrac He.
  assert (Hf : (0 <= Z.of_N frac < 2 ^ 52)%Z).
  { split; [lia|]. change (2 ^ 52)%Z with (Z.of_N (2 ^ 52)). lia. }
  replace (Z.of_N frac + (1023 + e) * 2 ^ 52)%Z with (join_bits 52 11 false (Z.of_N frac) (1023 + e)).
  2:{ unfold join_bits. rewrite Z.shiftl_mul_pow2 by lia. ring. }
  unfold binary_float_of_bits_aux. rewrite split_join_bits.
  2:{ exact Hf. }
  2:{ change (2 ^ 11)%Z with 2048%Z. lia. }
  destruct (Z.of_N frac + 2 ^ 52)%Z as [|p|p] eqn:Ep; try lia.
  destruct He as [-> | ->]; reflexivity.
Qed.

Lemma float_with_exp_value : forall (frac : N) (e : Z), (frac < 2 ^ 52)%N -> (e = 0 \/ e = 1)%Z ->
  fin64 (float_with_exp frac e) = true /\
  B2R64 (float_with_exp frac e) = bpow radix2 e * (1 + IZR (Z.of_N frac) * bpow radix2 (-52)).
Proof.
  intros frac e Hfrac He. unfold float_with_exp. rewrite zb_fin, zb_B2R, (fwe_aux frac e Hfrac He).
  split; [reflexivity|].
  cbn [Binary.FF2R]. unfold F2R. cbn [Fnum Fexp cond_Zopp].
  rewrite Z2Pos.id by lia. rewrite plus_IZR.
  replace (e - 52)%Z with (e + (-52))%Z by lia. rewrite bpow_plus.
  replace (IZR (2 ^ 52)) with (bpow radix2 52) by (rewrite <- IZR_Zpower by lia; reflexivity).
  assert (H1 : bpow radix2 52 * bpow radix2 (-52) = 1).
  { rewrite <- bpow_plus. reflexivity. }
  set (a := bpow radix2 52) in *. set (b := bpow radix2 (-52)) in *. set (E := bpow radix2 e).
  replace (E * (1 + IZR (Z.of_N frac) * b)) with (E * (a * b + IZR (Z.of_N frac) * b)) by (rewrite H1; reflexivity).
  ring.
Qed.

(* ---- literal powers of two ---- *)
Lemma bp_m51 : bpow radix2 (-51) = / 2251799813685248.
Proof.
  change (bpow radix2 (-51)) with (/ IZR (Z.pow_pos 2 51)).
  replace (Z.pow_pos 2 51) with 2251799813685248%Z by (vm_compute; reflexivity). reflexivity.
Qed.
Lemma bp_m52 : bpow radix2 (-52) = / 4503599627370496.
Proof.
  change (bpow radix2 (-52)) with (/ IZR (Z.pow_pos 2 52)).
  replace (Z.pow_pos 2 52) with 4503599627370496%Z by (vm_compute; reflexivity). reflexivity.
Qed.
Lemma bp_m53 : bpow radix2 (-53) = / 9007199254740992.
Proof.
  change (bpow radix2 (-53)) with (/ IZR (Z.pow_pos 2 53)).
  replace (Z.pow_pos 2 53) with 9007199254740992%Z by (vm_compute; reflexivity). reflexivity.
Qed.
Lemma bp_1 : bpow radix2 1 = 2.
Proof. reflexivity. Qed.
Lemma bp_0 : bpow radix2 0 = 1.
Proof. reflexivity. Qed.

Lemma rnd_exact : forall m e, (Z.abs m < 2 ^ 53)%Z -> (-1074 <= e)%Z ->
  rnd64 (IZR m * bpow radix2 e) = IZR m * bpow radix2 e.
Proof.
  intros m e Hm He. apply round_generic; [apply valid_rnd_N|]. apply generic_format_FLT.
  exists (Float radix2 m e); [reflexivity | exact Hm | cbn [Fexp]; lia].
Qed.

Lemma small_lt_emax : forall m e, (Z.abs m < 2 ^ 53)%Z -> (e <= 0)%Z ->
  Rabs (IZR m * bpow radix2 e) < bpow radix2 1024.
Proof.
  intros m e Hm He. rewrite Rabs_mult, <- abs_IZR. rewrite (Rabs_pos_eq (bpow radix2 e)) by apply bpow_ge_0.
  apply Rle_lt_trans with (IZR (Z.abs m) * 1).
  - apply Rmult_le_compat_l; [apply IZR_le; lia|]. change 1 with (bpow radix2 0). apply bpow_le. exact He.
  - rewrite Rmult_1_r. apply Rlt_trans with (IZR (2 ^ 53)); [apply IZR_lt; exact Hm|].
    replace (IZR (2 ^ 53)) with (bpow radix2 53) by (rewrite <- IZR_Zpower by lia; reflexivity). apply bpow_lt. reflexivity.
Qed.

Lemma shiftr12_lt : forall w : N, (w < 2 ^ 64)%N -> (N.shiftr w 12 < 2 ^ 52)%N.
Proof. intros w H. rewrite N.shiftr_div_pow2. apply N.div_lt_upper_bound; [discriminate|]. lia. Qed.
Lemma shiftr11_lt : forall w : N, (w < 2 ^ 64)%N -> (N.shiftr w 11 < 2 ^ 53)%N.
Proof. intros w H. rewrite N.shiftr_div_pow2. apply N.div_lt_upper_bound; [discriminate|]. lia. Qed.

Lemma ff_val : forall z s m e, binary_float_of_bits_aux 52 11 z = Binary.F754_finite s m e ->
  fin64 (zb z) = true /\ B2R64 (zb z) = IZR (cond_Zopp s (Zpos m)) * bpow radix2 e.
Proof. intros z s m e H. rewrite zb_fin, zb_B2R, H. split; reflexivity. Qed.

Lemma f_three_val : fin64 f_three = true /\ B2R64 f_three = 3.
Proof.
  destruct (ff_val 4613937818241073152 false 6755399441055744 (-51)) as [H1 H2]; [vm_compute; reflexivity|].
  split; [exact H1|]. unfold f_three. rewrite H2. cbn [cond_Zopp]. rewrite bp_m51. lra.
Qed.
Lemma f_open_off_val : fin64 f_open_off = true /\ B2R64 f_open_off = 1 - bpow radix2 (-53).
Proof.
  destruct (ff_val 4607182418800017407 false 9007199254740991 (-53)) as [H1 H2]; [vm_compute; reflexivity|].
  split; [exact H1|]. unfold f_open_off. rewrite H2. cbn [cond_Zopp]. rewrite bp_m53. lra.
Qed.

Lemma frac_bounds : forall frac : N, (frac < 2 ^ 52)%N -> 0 <= IZR (Z.of_N frac) <= 4503599627370495.
Proof.
  intros frac H. split; [apply IZR_le; lia|]. apply IZR_le.
  assert (H2 : (Z.of_N frac < Z.of_N (2 ^ 52))%Z) by lia. change (Z.of_N (2 ^ 52)) with 4503599627370496%Z in H2. lia.
Qed.

(* minus of two finite floats whose exact difference m * 2^e is representable *)
Lemma minus_exact : forall (x y : binary64) m e, fin64 x = true -> fin64 y = true ->
  B2R64 x - B2R64 y = IZR m * bpow radix2 e -> (Z.abs m < 2 ^ 53)%Z -> (-1074 <= e <= 0)%Z ->
  fin64 (b64_minus mode_NE x y) = true /\ B2R64 (b64_minus mode_NE x y) = IZR m * bpow radix2 e.
Proof.
  intros x y m e Hx Hy Hd Hm He.
  pose proof (Binary.Bminus_correct 53 1024 prec64 emax64 binop_nan_pl64 mode_NE x y Hx Hy) as Hc.
  change (BinarySingleNaN.round_mode mode_NE) with ZnearestE in Hc.
  change (SpecFloat.fexp 53 1024) with (FLT_exp (3 - 1024 - 53) 53) in Hc.
  rewrite Hd, rnd_exact in Hc by lia. rewrite Rlt_bool_true in Hc by (apply small_lt_emax; lia).
  destruct Hc as [Hv [Hf _]]. split; [exact Hf | exact Hv].
Qed.

Lemma zig_u_sym_exact : forall bits : N, (bits < 2 ^ 64)%N ->
  fin64 (zig_u true bits) = true /\
  B2R64 (zig_u true bits) = IZR (Z.of_N (N.shiftr bits 12)) * bpow radix2 (-51) - 1 /\
  -1 <= B2R64 (zig_u true bits) < 1.
Proof.
  intros bits Hb. pose proof (shiftr12_lt bits Hb) as Hfr. set (frac := N.shiftr bits 12) in *.
  destruct (float_with_exp_value frac 1 Hfr (or_intror eq_refl)) as [Hf Hv].
  destruct f_three_val as [H3f H3v]. pose proof (frac_bounds frac Hfr) as Hfb.
  assert (HfZ : (0 <= Z.of_N frac <= 4503599627370495)%Z).
  { assert (H2 : (Z.of_N frac < Z.of_N (2 ^ 52))%Z) by lia. change (Z.of_N (2 ^ 52)) with 4503599627370496%Z in H2. lia. }
  destruct (minus_exact (float_with_exp frac 1) f_three (Z.of_N frac - 2251799813685248) (-51) Hf H3f) as [Hmf Hmv].
  - rewrite Hv, H3v, minus_IZR, bp_1, bp_m52, bp_m51. lra.
  - lia.
  - lia.
  - assert (Hval : B2R64 (zig_u true bits) = IZR (Z.of_N frac) * bpow radix2 (-51) - 1).
    { unfold zig_u. fold frac. rewrite Hmv, minus_IZR, bp_m51. lra. }
    split; [exact Hmf|]. split; [exact Hval|]. rewrite Hval, bp_m51. lra.
Qed.

Lemma open_exact_aux : forall frac : N, (frac < 2 ^ 52)%N ->
  fin64 (b64_minus mode_NE (float_with_exp frac 0) f_open_off) = true /\
  B2R64 (b64_minus mode_NE (float_with_exp frac 0) f_open_off)
    = IZR (Z.of_N frac) * bpow radix2 (-52) + bpow radix2 (-53) /\
  0 < B2R64 (b64_minus mode_NE (float_with_exp frac 0) f_open_off) < 1.
Proof.
  intros frac Hfr.
  destruct (float_with_exp_value frac 0 Hfr (or_introl eq_refl)) as [Hf Hv].
  destruct f_open_off_val as [H3f H3v]. pose proof (frac_bounds frac Hfr) as Hfb.
  assert (HfZ : (0 <= Z.of_N frac <= 4503599627370495)%Z).
  { assert (H2 : (Z.of_N frac < Z.of_N (2 ^ 52))%Z) by lia. change (Z.of_N (2 ^ 52)) with 4503599627370496%Z in H2. lia. }
  destruct (minus_exact (float_with_exp frac 0) f_open_off (2 * Z.of_N frac + 1) (-53) Hf H3f) as [Hmf Hmv].
  - rewrite Hv, H3v, plus_IZR, mult_IZR, bp_0, bp_m52, bp_m53. lra.
  - lia.
  - lia.
  - assert (Hval : B2R64 (b64_minus mode_NE (float_with_exp frac 0) f_open_off)
                   = IZR (Z.of_N frac) * bpow radix2 (-52) + bpow radix2 (-53)).
    { rewrite Hmv, plus_IZR, mult_IZR, bp_m52, bp_m53. lra. }
    split; [exact Hmf|]. split; [exact Hval|]. rewrite Hval, bp_m52, bp_m53. lra.
Qed.

Lemma zig_u_pos_exact : forall bits : N, (bits < 2 ^ 64)%N ->
  fin64 (zig_u false bits) = true /\
  B2R64 (zig_u false bits) = IZR (Z.of_N (N.shiftr bits 12)) * bpow radix2 (-52) + bpow radix2 (-53) /\
  0 < B2R64 (zig_u false bits) < 1.
Proof. intros bits Hb. exact (open_exact_aux (N.shiftr bits 12) (shiftr12_lt bits Hb)). Qed.

Lemma open01_exact : forall w : N, (w < 2 ^ 64)%N ->
  fin64 (open01_f64 w) = true /\
  B2R64 (open01_f64 w) = IZR (Z.of_N (N.shiftr w 12)) * bpow radix2 (-52) + bpow radix2 (-53) /\
  0 < B2R64 (open01_f64 w) < 1.
Proof. intros w Hb. exact (open_exact_aux (N.shiftr w 12) (shiftr12_lt w Hb)). Qed.

Lemma unif_f64_exact : forall w : N, (w < 2 ^ 64)%N ->
  fin64 (unif_f64 w) = true /\
  B2R64 (unif_f64 w) = IZR (Z.of_N (N.shiftr w 11)) * bpow radix2 (-53) /\
  0 <= B2R64 (unif_f64 w) < 1.
Proof.
  intros w Hw. pose proof (shiftr11_lt w Hw) as Hfr. set (m := N.shiftr w 11) in *.
  assert (HmZ : (0 <= Z.of_N m <= 9007199254740991)%Z).
  { assert (H2 : (Z.of_N m < Z.of_N (2 ^ 53))%Z) by lia. change (Z.of_N (2 ^ 53)) with 9007199254740992%Z in H2. lia. }
  pose proof (Binary.binary_normalize_correct 53 1024 prec64 emax64 mode_NE (Z.of_N m) (-53) false) as Hc.
  change (BinarySingleNaN.round_mode mode_NE) with ZnearestE in Hc.
  change (SpecFloat.fexp 53 1024) with (FLT_exp (3 - 1024 - 53) 53) in Hc.
  change (F2R {| Fnum := Z.of_N m; Fexp := -53 |}) with (IZR (Z.of_N m) * bpow radix2 (-53)) in Hc.
  rewrite rnd_exact in Hc by lia. rewrite Rlt_bool_true in Hc by (apply small_lt_emax; lia).
  destruct Hc as [Hv [Hf _]]. unfold unif_f64. fold m. split; [exact Hf|]. split; [exact Hv|].
  rewrite Hv, bp_m53. assert (H0 : 0 <= IZR (Z.of_N m) <= 9007199254740991) by (split; apply IZR_le; lia). lra.
Qed.

(* ================= A. table facts ================= *)
Open Scope Z_scope.

(* ---- ranges ---- *)
Definition nrange (lo : N) (n : nat) : list N := map (fun k => (lo + N.of_nat k)%N) (seq 0 n).
Lemma nrange_in : forall lo n i, (lo <= i)%N -> (i < lo + N.of_nat n)%N -> In i (nrange lo n).
Proof.
  intros lo n i Hlo Hhi. unfold nrange. apply in_map_iff. exists (N.to_nat (i - lo)). split.
  - rewrite N2Nat.id. lia.
  - apply in_seq. lia.
Qed.
Lemma range_check : forall (p : N -> bool) lo n, forallb p (nrange lo n) = true ->
  forall i, (lo <= i)%N -> (i < lo + N.of_nat n)%N -> p i = true.
Proof.
  intros p lo n Hall i Hlo Hhi. rewrite forallb_forall in Hall. apply Hall. apply nrange_in; assumption.
Qed.

Lemma zig_tables_length :
  length zig_norm_x = 257%nat /\ length zig_norm_f = 257%nat /\
  length zig_exp_x = 257%nat /\ length zig_exp_f = 257%nat.
Proof. repeat split; vm_compute; reflexivity. Qed.

Definition fin_nonneg (x : binary64) : bool :=
  andb (Binary.is_finite 53 1024 x) (negb (Binary.Bsign 53 1024 x)).

Definition chk_x_dec (i : N) : bool := blt (znth zig_norm_x (i + 1)) (znth zig_norm_x i).
Definition chk_x_fin (i : N) : bool := fin_nonneg (znth zig_norm_x i).
Definition chk_f_inc (i : N) : bool := blt (znth zig_norm_f i) (znth zig_norm_f (i + 1)).
Definition chk_f_fin (i : N) : bool := fin_nonneg (znth zig_norm_f i).

Lemma chk_x_dec_all : forallb chk_x_dec (nrange 0 256) = true.
Proof. vm_compute. reflexivity. Qed.
Lemma chk_x_fin_all : forallb chk_x_fin (nrange 0 257) = true.
Proof. vm_compute. reflexivity. Qed.
Lemma chk_f_inc_all : forallb chk_f_inc (nrange 0 256) = true.
Proof. vm_compute. reflexivity. Qed.
Lemma chk_f_fin_all : forallb chk_f_fin (nrange 0 257) = true.
Proof. vm_compute. reflexivity. Qed.

Lemma fin_nonneg_spec : forall x, fin_nonneg x = true ->
  Binary.is_finite 53 1024 x = true /\ Binary.Bsign 53 1024 x = false.
Proof.
  intros x H. unfold fin_nonneg in H. apply andb_prop in H. destruct H as [H1 H2].
  split; [exact H1|]. destruct (Binary.Bsign 53 1024 x); [discriminate H2 | reflexivity].
Qed.

Lemma zig_norm_x_decreasing :
  (forall i, (i < 256)%N -> blt (znth zig_norm_x (i + 1)) (znth zig_norm_x i) = true) /\
  (forall i, (i <= 256)%N ->
     Binary.is_finite 53 1024 (znth zig_norm_x i) = true /\ Binary.Bsign 53 1024 (znth zig_norm_x i) = false) /\
  znth zig_norm_x 256 = Binary.B754_zero 53 1024 false /\
  znth zig_norm_x 1 = zb zig_norm_r.
Proof.
  split; [|split; [|split]].
  - intros i Hi. apply (range_check chk_x_dec 0 256 chk_x_dec_all); lia.
  - intros i Hi. apply fin_nonneg_spec. apply (range_check chk_x_fin 0 257 chk_x_fin_all); lia.
  - vm_compute. reflexivity.
  - reflexivity.
Qed.

Lemma zig_norm_f_increasing :
  (forall i, (i < 256)%N -> blt (znth zig_norm_f i) (znth zig_norm_f (i + 1)) = true) /\
  (forall i, (i <= 256)%N ->
     Binary.is_finite 53 1024 (znth zig_norm_f i) = true /\ Binary.Bsign 53 1024 (znth zig_norm_f i) = false) /\
  znth zig_norm_f 256 = f_one.
Proof.
  split; [|split].
  - intros i Hi. apply (range_check chk_f_inc 0 256 chk_f_inc_all); lia.
  - intros i Hi. apply fin_nonneg_spec. apply (range_check chk_f_fin 0 257 chk_f_fin_all); lia.
  - reflexivity.
Qed.

(* ---- exact rational reading ---- *)
Definition qof (x : binary64) : Q :=
  match x with
  | Binary.B754_finite s m e _ =>
      match e with
      | Z0 => cond_Zopp s (Zpos m) # 1
      | Zpos p => (cond_Zopp s (Zpos m) * Z.pow_pos 2 p) # 1
      | Zneg p => cond_Zopp s (Zpos m) # (2 ^ p)
      end
  | _ => 0%Q
  end.

Lemma qof_B2R : forall x : binary64, Binary.is_finite 53 1024 x = true -> Q2R (qof x) = Binary.B2R 53 1024 x.
Proof.
  intros x Hfin. destruct x as [s | s | s pl Hpl | s m e Hb]; try discriminate Hfin.
  - unfold qof, Q2R. cbn. lra.
  - unfold qof. cbn [Binary.B2R]. unfold F2R. cbn [Fnum Fexp]. destruct e as [|p|p]; unfold Q2R; cbn [Qnum Qden bpow].
    + rewrite Rinv_1. reflexivity.
    + rewrite mult_IZR. rewrite Rinv_1. cbn. lra.
    + rewrite Pos2Z.inj_pow. reflexivity.
Qed.
Definition zig_V : Q := qof (znth zig_norm_x 0) * qof (znth zig_norm_f 1).
Definition area_dev (i : N) : Q :=
  Qabs (qof (znth zig_norm_x i) * (qof (znth zig_norm_f (i + 1)) - qof (znth zig_norm_f i)) - zig_V).
Definition chk_area (k : positive) (i : N) : bool := Qle_bool (area_dev i) (1 # (2 ^ k)).
Lemma chk_area_low : forallb (chk_area 52) (nrange 1 254) = true.
Proof. vm_compute. reflexivity. Qed.
Lemma chk_area_top : chk_area 37 255 = true /\ chk_area 38 255 = false /\ forallb (chk_area 53) (nrange 1 254) = false.
Proof. vm_compute. repeat split. Qed.

(* layers 1..254 have the common area V up to 2^-52; the top layer 255 (the one reaching f = 1) only up to 2^-37,
   and not up to 2^-38 *)
Lemma zig_norm_equal_area :
  (forall i, (1 <= i <= 254)%N -> (area_dev i <= 1 # 2 ^ 52)%Q) /\
  (forall i, (1 <= i <= 255)%N -> (area_dev i <= 1 # 2 ^ 37)%Q) /\
  ~ (area_dev 255 <= 1 # 2 ^ 38)%Q.
Proof.
  assert (Hlow : forall i, (1 <= i <= 254)%N -> (area_dev i <= 1 # 2 ^ 52)%Q).
  { intros i Hi. apply Qle_bool_iff. apply (range_check (chk_area 52) 1 254 chk_area_low); lia. }
  split; [exact Hlow | split].
  - intros i Hi. destruct (N.eq_dec i 255) as [-> | Hne].
    + apply Qle_bool_iff. exact (proj1 chk_area_top).
    + apply Qle_trans with (1 # 2 ^ 52)%Q; [apply Hlow; lia|]. apply Qle_bool_iff. vm_compute. reflexivity.
  - intro H. apply Qle_bool_iff in H. pose proof (proj1 (proj2 chk_area_top)) as H2. unfold chk_area in H2.
    rewrite H in H2. discriminate H2.
Qed.

Open Scope R_scope.
Definition ib (x : binary64) : I.type :=
  match x with
  | Binary.B754_zero _ => I.fromZ iprec 0
  | Binary.B754_finite s m e _ => idy (cond_Zopp s (Zpos m)) e
  | _ => Float.Inan
  end.

Lemma idy_sound : forall m e, cont (idy m e) (IZR m * bpow radix2 e).
Proof.
  intros m e. unfold idy. destruct (Z.leb_spec 0 e) as [He | He].
  - apply c_mul; [apply c_ofZ|]. rewrite <- IZR_Zpower by exact He. apply c_ofZ.
  - replace (bpow radix2 e) with (/ IZR (2 ^ (- e))).
    + apply c_div; apply c_ofZ.
    + replace e with (- (- e))%Z at 2 by lia. rewrite bpow_opp. rewrite <- IZR_Zpower by lia. reflexivity.
Qed.

Lemma ib_sound : forall x : binary64, Binary.is_finite 53 1024 x = true -> cont (ib x) (Binary.B2R 53 1024 x).
Proof.
  intros x Hfin. destruct x as [s | s | s pl Hpl | s m e Hb]; try discriminate Hfin.
  - cbn [ib Binary.B2R]. apply c_ofZ.
  - cbn [ib Binary.B2R]. unfold F2R. cbn [Fnum Fexp]. apply idy_sound.
Qed.

Definition pdf_dev (i : N) : I.type :=
  let X := ib (znth zig_norm_x i) in
  let F := ib (znth zig_norm_f i) in
  I.abs (I.sub iprec F (I.exp iprec (I.div iprec (I.neg (I.mul iprec X X)) (I.fromZ iprec 2)))).
Definition chk_pdf (k : Z) (i : N) : bool :=
  match I.sign_strict (I.sub iprec (pdf_dev i) (idy 1 (- k))) with Xlt => true | _ => false end.

Lemma chk_pdf_all : forallb (chk_pdf 54) (nrange 0 257) = true.
Proof. vm_compute. reflexivity. Qed.

Lemma chk_pdf_sound : forall k i, (i <= 256)%N -> chk_pdf k i = true ->
  Rabs (Binary.B2R 53 1024 (znth zig_norm_f i) - exp (- (Binary.B2R 53 1024 (znth zig_norm_x i)) ^ 2 / 2))
  < bpow radix2 (- k).
Proof.
  intros k i Hi Hchk.
  destruct (proj1 (proj2 zig_norm_x_decreasing) i Hi) as [Hxf _].
  destruct (proj1 (proj2 zig_norm_f_increasing) i Hi) as [Hff _].
  pose proof (ib_sound _ Hxf) as HX. pose proof (ib_sound _ Hff) as HF.
  set (x := Binary.B2R 53 1024 (znth zig_norm_x i)) in *.
  set (f := Binary.B2R 53 1024 (znth zig_norm_f i)) in *.
  assert (Hdev : cont (pdf_dev i) (Rabs (f - exp (- x ^ 2 / 2)))).
  { unfold pdf_dev. apply (I.abs_correct _ (Xreal _)). apply c_sub; [exact HF|]. apply c_exp.
    apply c_div; [|apply c_ofZ]. replace (x ^ 2) with (x * x) by ring.
    apply (I.neg_correct _ (Xreal _)). apply c_mul; exact HX. }
  assert (Hsub : cont (I.sub iprec (pdf_dev i) (idy 1 (- k))) (Rabs (f - exp (- x ^ 2 / 2)) - 1 * bpow radix2 (- k))).
  { apply c_sub; [exact Hdev | apply idy_sound]. }
  unfold chk_pdf in Hchk. pose proof (I.sign_strict_correct (I.sub iprec (pdf_dev i) (idy 1 (- k)))) as Hs.
  destruct (I.sign_strict (I.sub iprec (pdf_dev i) (idy 1 (- k)))); try discriminate Hchk.
  destruct (Hs _ Hsub) as [_ Hlt]. cbn [proj_val] in Hlt. lra.
Qed.

Lemma zig_norm_f_is_pdf : forall i, (i <= 256)%N ->
  Rabs (Binary.B2R 53 1024 (znth zig_norm_f i) - exp (- (Binary.B2R 53 1024 (znth zig_norm_x i)) ^ 2 / 2))
  <= bpow radix2 (-54).
Proof.
  intros i Hi. apply Rlt_le. apply (chk_pdf_sound 54 i Hi).
  apply (range_check (chk_pdf 54) 0 257 chk_pdf_all); lia.
Qed.

(* ================= C. structure of a draw ================= *)

Lemma blt_Rlt : forall a b : binary64, fin64 a = true -> fin64 b = true -> blt a b = true -> B2R64 a < B2R64 b.
Proof.
  intros a b Ha Hb H. unfold blt, b64_compare in H. rewrite (Binary.Bcompare_correct 53 1024 a b Ha Hb) in H.
  destruct (Rcompare (B2R64 a) (B2R64 b)) eqn:E; try discriminate H. apply Rcompare_Lt_inv. exact E.
Qed.

Definition f_four : binary64 := zb 4616189618054758400.
Lemma f_four_val : fin64 f_four = true /\ B2R64 f_four = 4.
Proof.
  destruct (ff_val 4616189618054758400 false 4503599627370496 (-50)) as [H1 H2]; [vm_compute; reflexivity|].
  split; [exact H1|]. unfold f_four. rewrite H2. cbn [cond_Zopp].
  change (bpow radix2 (-50)) with (/ IZR (Z.pow_pos 2 50)).
  replace (Z.pow_pos 2 50) with 1125899906842624%Z by (vm_compute; reflexivity). lra.
Qed.

Definition chk_x_lt4 (i : N) : bool := blt (znth zig_norm_x i) f_four.
Lemma chk_x_lt4_all : forallb chk_x_lt4 (nrange 0 257) = true.
Proof. vm_compute. reflexivity. Qed.
Definition chk_x_le_r (i : N) : bool :=
  match b64_compare (znth zig_norm_x i) (zb zig_norm_r) with Some Lt | Some Eq => true | _ => false end.
Lemma chk_x_le_r_all : forallb chk_x_le_r (nrange 1 256) = true.
Proof. vm_compute. reflexivity. Qed.

Lemma zig_x_fin : forall i, (i <= 256)%N -> fin64 (znth zig_norm_x i) = true.
Proof. intros i Hi. exact (proj1 (proj1 (proj2 zig_norm_x_decreasing) i Hi)). Qed.

Lemma zig_x_range : forall i, (i <= 256)%N -> 0 <= B2R64 (znth zig_norm_x i) < 4.
Proof.
  intros i Hi. destruct (proj1 (proj2 zig_norm_x_decreasing) i Hi) as [Hf Hs]. split.
  - destruct (znth zig_norm_x i) as [s | s | s pl Hpl | s m e Hb]; try discriminate Hf.
    + cbn. lra.
    + cbn in Hs. subst s. cbn [Binary.B2R]. apply F2R_ge_0. cbn. lia.
  - rewrite <- (proj2 f_four_val). apply blt_Rlt; [exact Hf | exact (proj1 f_four_val)|].
    apply (range_check chk_x_lt4 0 257 chk_x_lt4_all); lia.
Qed.

Lemma zig_x_le_r : forall i, (1 <= i <= 256)%N -> B2R64 (znth zig_norm_x i) <= B2R64 (zb zig_norm_r).
Proof.
  intros i Hi. pose proof (range_check chk_x_le_r 1 256 chk_x_le_r_all i) as H. unfold chk_x_le_r, b64_compare in H.
  assert (Hr : fin64 (zb zig_norm_r) = true) by (apply (zig_x_fin 1); lia).
  rewrite (Binary.Bcompare_correct 53 1024 _ _ (zig_x_fin i ltac:(lia)) Hr) in H.
  destruct (Rcompare (B2R64 (znth zig_norm_x i)) (B2R64 (zb zig_norm_r))) eqn:E.
  - apply Rcompare_Eq_inv in E. lra.
  - apply Rcompare_Lt_inv in E. lra.
  - assert (Hf : false = true) by (apply H; lia). discriminate Hf.
Qed.

Lemma land255_lt : forall bits : N, (N.land bits 255 < 256)%N.
Proof. intro bits. change 255%N with (N.ones 8). rewrite N.land_ones. apply N.mod_lt. discriminate. Qed.

Lemma zig_fast_sound : forall (bits : N) (x : binary64),
  zig_fast true zig_norm_x bits = Some x -> (bits < 2 ^ 64)%N ->
  fin64 x = true /\
  Rabs (B2R64 x) < B2R64 (znth zig_norm_x (N.land bits 255 + 1)) /\
  Rabs (B2R64 x) < B2R64 (zb zig_norm_r) /\
  B2R64 x = rnd64 (B2R64 (zig_u true bits) * B2R64 (znth zig_norm_x (N.land bits 255))).
Proof.
  intros bits x Hfast Hbits. unfold zig_fast in Hfast. pose proof (land255_lt bits) as Hi.
  set (i := N.land bits 255) in *.
  destruct (zig_u_sym_exact bits Hbits) as [Huf [_ Hur]].
  pose proof (zig_x_fin i ltac:(lia)) as Hxf. pose proof (zig_x_range i ltac:(lia)) as Hxr.
  pose proof (Binary.Bmult_correct 53 1024 prec64 emax64 binop_nan_pl64 mode_NE (zig_u true bits) (znth zig_norm_x i)) as Hc.
  change (BinarySingleNaN.round_mode mode_NE) with ZnearestE in Hc.
  change (SpecFloat.fexp 53 1024) with (FLT_exp (3 - 1024 - 53) 53) in Hc.
  rewrite Rlt_bool_true in Hc.
  2:{ apply Rle_lt_trans with (bpow radix2 2); [|apply bpow_lt; reflexivity].
      apply abs_round_le_generic; [apply FLT_exp_valid; reflexivity | apply valid_rnd_N | |].
      - apply generic_format_FLT_bpow; [reflexivity | lia].
      - change (bpow radix2 2) with 4. rewrite Rabs_mult.
        assert (H1 : Rabs (B2R64 (zig_u true bits)) <= 1) by (apply Rabs_le; lra).
        assert (H2 : Rabs (B2R64 (znth zig_norm_x i)) <= 4) by (apply Rabs_le; lra).
        pose proof (Rabs_pos (B2R64 (zig_u true bits))) as P1.
        pose proof (Rabs_pos (B2R64 (znth zig_norm_x i))) as P2. nra. }
  destruct Hc as [Hv [Hf _]]. rewrite Huf, Hxf in Hf. cbn [andb] in Hf.
  fold (b64_mult mode_NE (zig_u true bits) (znth zig_norm_x i)) in Hv, Hf.
  destruct (blt (b64_abs (b64_mult mode_NE (zig_u true bits) (znth zig_norm_x i))) (znth zig_norm_x (i + 1))) eqn:Hlt;
    [|discriminate Hfast].
  injection Hfast as <-.
  assert (Habs : Rabs (B2R64 (b64_mult mode_NE (zig_u true bits) (znth zig_norm_x i))) < B2R64 (znth zig_norm_x (i + 1))).
  { unfold b64_abs in Hlt. rewrite <- (Binary.B2R_Babs 53 1024 unop_nan_pl64).
    apply blt_Rlt; [rewrite Binary.is_finite_Babs; exact Hf | apply zig_x_fin; lia | exact Hlt]. }
  split; [exact Hf|]. split; [exact Habs|]. split; [|exact Hv].
  apply Rlt_le_trans with (1 := Habs). apply zig_x_le_r. lia.
Qed.

Lemma std_normal_fast_path : forall (f : nat) (st : zst) (x : binary64),
  zig_fast true zig_norm_x (fst (next_u64 (z_rng st))) = Some x ->
  std_normal (S f) st
  = Some (x, {| z_rng := snd (next_u64 (z_rng st)); z_orc := z_orc st; z_log := z_log st |}).
Proof.
  intros f st x H. unfold std_normal. cbn [zig_sample]. unfold draw.
  destruct (next_u64 (z_rng st)) as [w s'] eqn:E. cbn [fst snd] in *. rewrite H. reflexivity.
Qed.

Lemma normals_length : forall (fuel k : nat) (st st' : zst) (xs : list binary64),
  normals fuel k st = Some (xs, st') -> length xs = k.
Proof.
  intros fuel k. induction k as [|k IH]; intros st st' xs H; cbn [normals] in H.
  - injection H as <- _. reflexivity.
  - destruct (std_normal fuel st) as [[x st1]|]; [|discriminate H].
    destruct (normals fuel k st1) as [[ys st2]|] eqn:E; [|discriminate H].
    injection H as <- _. cbn [length]. f_equal. exact (IH _ _ _ E).
Qed.

Lemma normals_prefix : forall (fuel k1 k2 : nat) (st st2 : zst) (xs : list binary64),
  normals fuel (k1 + k2) st = Some (xs, st2) ->
  exists st1, normals fuel k1 st = Some (firstn k1 xs, st1) /\ normals fuel k2 st1 = Some (skipn k1 xs, st2).
Proof.
  intros fuel k1. induction k1 as [|k1 IH]; intros k2 st st2 xs H.
  - exists st. split; [reflexivity | exact H].
  - cbn [Nat.add normals] in H. cbn [normals].
    destruct (std_normal fuel st) as [[x sta]|]; [|discriminate H].
    destruct (normals fuel (k1 + k2) sta) as [[ys stb]|] eqn:E; [|discriminate H].
    injection H as <- <-. destruct (IH _ _ _ _ E) as [st1 [H1 H2]]. exists st1.
    cbn [firstn skipn]. rewrite H1. split; [reflexivity | exact H2].
Qed.

Lemma concat_length_const : forall (A : Type) (l : list (list A)) (d : nat),
  (forall r, In r l -> length r = d) -> length (concat l) = (length l * d)%nat.
Proof.
  intros A l d. induction l as [|r l IH]; intros H; [reflexivity|].
  cbn [concat length]. rewrite app_length.
  rewrite IH by (intros r0 Hr0; apply H; right; exact Hr0).
  rewrite (H r) by (left; reflexivity). reflexivity.
Qed.

Lemma init_seeded_shape : forall (conv : binary64 -> Z) (seed : N) (n d : nat) (orc body : list Z),
  init_seeded conv seed n d orc = 1%Z :: body -> length body = (n * d + 1)%nat.
Proof.
  intros conv seed n d orc body H. unfold init_seeded in H.
  destruct (normals 64 (n * d) (zinit seed orc)) as [[xs st]|]; [|discriminate H].
  injection H as <-. rewrite app_length. cbn [length].
  rewrite (concat_length_const _ _ d) by (intros r Hr; exact (init_cols conv f_zero xs n d r Hr)).
  rewrite init_rows. reflexivity.
Qed.
