(* p_accept of ChainTracker / MultiChainTracker (stats.rs): an f32 scalar recurrence,
     p' = (1.0 - ALPHA) * p + ALPHA * accepted,   ALPHA = 0.01f32
   modelled bit-exactly in Flocq binary32; plus the evaluation entry points of C13. *)
From MiniMcmc Require Export Base.Fp Model.Stats.
Close Scope Q_scope.
Close Scope R_scope.

Definition f32_alpha : binary32 := b32_of_bits 1008981770.          (* 0.01f32 = 0x3C23D70A *)
Definition f32_one : binary32 := b32_of_bits 1065353216.
Definition f32_zero : binary32 := b32_of_bits 0.
Definition f32_one_minus_alpha : binary32 := b32_minus mode_NE f32_one f32_alpha.

Definition ema32 (p : binary32) (accepted : bool) : binary32 :=
  b32_plus mode_NE (b32_mult mode_NE f32_one_minus_alpha p)
                   (b32_mult mode_NE f32_alpha (if accepted then f32_one else f32_zero)).

(* ChainTracker: per step the pair (first coordinate differs, whole state differs).
   First step: p_start = indicator(first coordinate differs); later p_start = p. *)
Fixpoint chain_p_from (p : binary32) (inds : list (bool * bool)) : list binary32 :=
  match inds with
  | [] => []
  | (_, a) :: t => let p' := ema32 p a in p' :: chain_p_from p' t
  end.
Definition chain_p (inds : list (bool * bool)) : list binary32 :=
  match inds with
  | [] => []
  | (f, a) :: t => let p' := ema32 (if f then f32_one else f32_zero) a in p' :: chain_p_from p' t
  end.

(* MultiChainTracker: p starts at +0; each step folds the chains' indicators in order *)
Fixpoint multi_p_from (p : binary32) (steps : list (list bool)) : list binary32 :=
  match steps with
  | [] => []
  | inds :: t => let p' := fold_left ema32 inds p in p' :: multi_p_from p' t
  end.
Definition multi_p (steps : list (list bool)) : list binary32 := multi_p_from f32_zero steps.

Definition zb (z : Z) : bool := negb (Z.eqb z 0).
Definition chain_p_bits (inds : list (Z * Z)) : list Z :=
  map bits_of_b32 (chain_p (map (fun fa => (zb (fst fa), zb (snd fa))) inds)).
Definition multi_p_bits (steps : list (list Z)) : list Z :=
  map bits_of_b32 (multi_p (map (map zb) steps)).

(* C13 evaluation on one parameter: per chain (mean, sm2), then within (so the driver can skip
   constant columns), collect_rhat^2, multi-chain rhat^2, batch rhat^2 *)
Definition c13_eval (chains : list (list Q)) : list Z :=
  let ts := map (trk_run numQ) chains in
  let st := map (fun t => (t_n numQ t, t_mean numQ t, trk_sm2 numQ t)) ts in
  concat (map (fun t => qout (t_mean numQ t) ++ qout (trk_sm2 numQ t)) ts)
  ++ qout (meanK numQ (map (trk_sm2 numQ) ts))
  ++ (if Nat.leb 2 (length chains)
      then qout (collect_rhat2 numQ st) ++ qout (multi_rhat2 numQ ts) ++ qout (batch_rhat2 numQ chains)
      else []).

(* exact-arithmetic version of the acceptance-rate recurrence (theorems about range / EMA) *)
From Coq Require Import Reals.
Definition emaR (p : R) (accepted : bool) : R :=
  ((1 - 1 / 100) * p + 1 / 100 * (if accepted then 1 else 0))%R.
Definition chain_pR (inds : list (bool * bool)) : R :=
  match inds with
  | [] => (-1)%R
  | (f, a) :: t => fold_left (fun p fa => emaR p (snd fa)) t (emaR (if f then 1 else 0)%R a)
  end.
Definition multi_pR (steps : list (list bool)) : R :=
  fold_left (fun p inds => fold_left emaR inds p) steps 0%R.

(* the same recurrence over Q, evaluated by the correspondence check next to the bit-exact f32 one
   (Proofs/FindEps-style link: Q2R (chain_pQ l) = chain_pR l, Properties/C13.v) *)
Definition emaQ (p : Q) (accepted : bool) : Q :=
  Qred ((1 - (1 # 100)) * p + (1 # 100) * (if accepted then 1 else 0))%Q.
Definition chain_pQ (inds : list (bool * bool)) : Q :=
  match inds with
  | [] => (-1)%Q
  | (f, a) :: t => fold_left (fun p fa => emaQ p (snd fa)) t (emaQ (if f then 1 else 0)%Q a)
  end.
Definition multi_pQ (steps : list (list bool)) : Q :=
  fold_left (fun p inds => fold_left emaQ inds p) steps 0%Q.
Definition chain_p_q (inds : list (Z * Z)) : list Z := qout (chain_pQ (map (fun fa => (zb (fst fa), zb (snd fa))) inds)).
Definition multi_p_q (steps : list (list Z)) : list Z := qout (multi_pQ (map (map zb) steps)).

(* ---- ChainTracker::step / stats for one parameter, bit-exact in binary32 (only IEEE basic operations):
     n += 1;  mean = (mean * (n - 1) + x) / n;  mean_sq = x*x if n = 1 else (mean_sq * (n - 1) + x*x) / n
     sm2 = (mean_sq - mean*mean) * n / (n - 1)
   x is the state already converted to f32 ---- *)
Definition cnt32 (n : nat) : binary32 :=
  Binary.binary_normalize 24 128 prec32 emax32 mode_NE (Z.of_nat n) 0 false.
Definition trk32_step (st : nat * binary32 * binary32) (x : binary32) : nat * binary32 * binary32 :=
  let '(n0, mean, msq) := st in
  let n := S n0 in
  let nf := cnt32 n in
  let nm1 := b32_minus mode_NE nf f32_one in
  let mean' := b32_div mode_NE (b32_plus mode_NE (b32_mult mode_NE mean nm1) x) nf in
  let xx := b32_mult mode_NE x x in
  let msq' := if Nat.eqb n 1 then xx else b32_div mode_NE (b32_plus mode_NE (b32_mult mode_NE msq nm1) xx) nf in
  (n, mean', msq').
Definition trk32_sm2 (st : nat * binary32 * binary32) : binary32 :=
  let '(n, mean, msq) := st in
  let nf := cnt32 n in
  b32_div mode_NE (b32_mult mode_NE (b32_minus mode_NE msq (b32_mult mode_NE mean mean)) nf) (b32_minus mode_NE nf f32_one).
(* one parameter column of one chain (f32 bit patterns): [mean bits; sm2 bits] *)
Definition trk32_eval (xs : list Z) : list Z :=
  let st := fold_left trk32_step (map b32_of_bits xs) (O, f32_zero, f32_zero) in
  [bits_of_b32 (snd (fst st)); bits_of_b32 (trk32_sm2 st)].
