(* Model of the collection loops: core.rs run_chain / run_chain_progress /
   ChainRunner::run, hmc.rs HMC::run / run_progress, nuts.rs NUTSChain::run /
   run_progress / NUTS::run.  Definitions only. *)
From MiniMcmc Require Export Base.Util.

Section Run.
  Context {St Row : Type}.
  Variable step : St -> St.
  Variable obs : St -> Row.
  Variable zero : Row.

  (* core.rs:64-70:  for i in 0..total { state = chain.step(); if i >= n_discard { out[i-n_discard] = state } } *)
  Fixpoint run_loop (k i d : nat) (s : St) (out : list Row) : St * list Row :=
    match k with
    | O => (s, out)
    | S k' =>
        let s' := step s in
        let out' := if d <=? i then upd (i - d) (obs s') out else out in
        run_loop k' (S i) d s' out'
    end.

  Definition run_chain_impl (s : St) (n d : nat) : St * list Row :=
    run_loop (n + d) 0 d s (repeat zero n).

  Definition run_chain_spec (s : St) (n d : nat) : St * list Row :=
    (iter (n + d) step s, map (fun k => obs (iter (d + k + 1) step s)) (seq 0 n)).

  (* nuts.rs NUTSChain::run: out[0] := position; for m in 1..n+d { step; if m >= d { out[m-d] := position } } *)
  (* the loop body is the one of run_loop with the counter starting at 1 *)
  Definition nuts_run_impl (s : St) (n d : nat) : St * list Row :=
    run_loop (n + d - 1) 1 d s (upd 0 (obs s) (repeat zero n)).

  Definition nuts_run_spec (s : St) (n d : nat) : St * list Row :=
    (iter (n + d - 1) step s, map (fun k => obs (iter (d + k) step s)) (seq 0 n)).

  (* nuts.rs NUTSChain::run_progress: out[0] := position; for i in 0..n+d { step; if i >= d { out[i-d] := position } }
     (so the progress variant performs n+d transitions and row k is the state after d+k+1 of them) *)
  Definition nuts_run_progress_impl (s : St) (n d : nat) : St * list Row :=
    run_loop (n + d) 0 d s (upd 0 (obs s) (repeat zero n)).
End Run.

Section Batched.
  (* hmc.rs HMC::run: the sampler state is the whole batch; obs returns one row per chain.
     out is [n_collect][n_chains]; the result is permuted to [n_chains][n_collect]. *)
  Context {St Row : Type}.
  Variable step : St -> St.
  Variable obs : St -> list Row.     (* rows of the batch, one per chain *)
  Variable zero : Row.
  Variable n_chains : nat.

  Fixpoint hmc_collect (k idx : nat) (s : St) (out : list (list Row)) : St * list (list Row) :=
    match k with
    | O => (s, out)
    | S k' => let s' := step s in hmc_collect k' (S idx) s' (upd idx (obs s') out)
    end.

  Definition transpose_to (n : nat) (out : list (list Row)) : list (list Row) :=
    map (fun c => map (fun k => nth c (nth k out []) zero) (seq 0 n)) (seq 0 n_chains).

  Definition hmc_run_impl (s : St) (n d : nat) : St * list (list Row) :=
    let s1 := iter d step s in
    let (s2, out) := hmc_collect n 0 s1 (repeat (repeat zero n_chains) n) in
    (s2, transpose_to n out).

  Definition hmc_run_spec (s : St) (n d : nat) : St * list (list Row) :=
    (iter (n + d) step s,
     map (fun c => map (fun k => nth c (obs (iter (d + k + 1) step s)) zero) (seq 0 n)) (seq 0 n_chains)).
End Batched.

Section Runner.
  (* core.rs ChainRunner::run: chains.par_iter_mut().map(run_chain).collect(), then stack on axis 0.
     rayon's indexed collect preserves index order and runs each closure once (trusted base). *)
  Context {St Row : Type}.
  Variable step : St -> St.
  Variable obs : St -> Row.
  Variable zero : Row.

  Definition runner_impl (chains : list St) (n d : nat) : list St * list (list Row) :=
    let rs := map (fun c => run_chain_impl step obs zero c n d) chains in
    (map fst rs, map snd rs).

  Definition runner_spec (chains : list St) (n d : nat) : list St * list (list Row) :=
    (map (iter (n + d) step) chains,
     map (fun c => map (fun k => obs (iter (d + k + 1) step c)) (seq 0 n)) chains).
End Runner.

(* ---- instantiation used by the correspondence check: a counting chain whose state
   determines the number of transitions performed (harness/src/c09.rs CountChain) ---- *)
Definition count_step (v : list Z) : list Z :=
  map (fun kx => (snd kx) + Z.of_nat (fst kx) + 1)%Z (combine (seq 0 (length v)) v).

Fixpoint count_calls (dim : nat) (chains : list (list Z)) (calls : list (nat * nat)) : list Z :=
  match calls with
  | [] => concat chains
  | (n, d) :: rest =>
      let r := runner_impl count_step (fun s => s) (repeat 0%Z dim) chains n d in
      concat (concat (snd r)) ++ count_calls dim (fst r) rest
  end.

(* ---- index form used for the real samplers: with the transition-counting chain S on nat,
   the model's rows are the numbers of transitions performed; the driver maps them to the
   trajectory obtained by stepping a clone of the sampler manually ---- *)
Definition real_idx (kind : nat) (n d : nat) : list Z :=
  match kind with
  | 0 => let r := run_chain_impl S (fun s => s) 0 0 n d in map Z.of_nat (snd r ++ [fst r])          (* MH / Gibbs / any MarkovChain *)
  | 1 => let r := hmc_run_impl S (fun s => [s]) 0 1 0 n d in
         map Z.of_nat (nth 0 (snd r) [] ++ [fst r])                                               (* HMC *)
  | _ => let r := nuts_run_impl S (fun s => s) 0 0 n d in map Z.of_nat (snd r ++ [fst r])         (* NUTS *)
  end.
