"""C06 — long-run averages of every sampler converge to the target's expectations."""
import math
import common as C

ID = "C06"
LEVEL = "other"
COQ_HEADER = "From MiniMcmc Require Import Model.ErgodicEval."
RULE = ("R independent replications (derived seeds) of several short chains per sampler; for each test function (first and second "
        "moments, cross moment, one tail probability; state frequencies for the discrete table) the replication means give an "
        "estimate with a between-replication standard error (no ESS estimate involved); a statistic fails only for |z| > 6 AND a "
        "relative error above 1 percent of the scale. Targets: MH on a correlated 2-D Gaussian (f32, f64) and on discrete tables with an "
        "ASYMMETRIC proposal (exact stationary law = the table, by C01_stationary), Gibbs on a two-component mixture (joint (x,z) "
        "moments), HMC and NUTS on a correlated 2-D Gaussian. Draw-law checks on the variates emitted by the HMC/NUTS hooks "
        "(normal: mean, second moment, lag-1; uniform: mean, second moment; cross-correlation). Non-trivial: every case.")
EXPLANATION = ("Proved elsewhere and re-used: stationarity of the MH kernel (C01_stationary), invariance of the Gibbs sweep "
               "(C05_invariant), exact reversibility of leapfrog (C02_leapfrog_reversible), NUTS candidate selection and "
               "admissibility (C03_merge_rule, C03_next_state), variate consumption (C03_uniforms_consumed). Assumed: the "
               "variates are i.i.d. with the stated laws; the ergodic theorem. Observed: calibrated z-scores against exact "
               "expectations; all seeds derive from VERIF_SEED so an alarm replays exactly.")
TRUSTED = ["rand / rand_distr variate laws", "ergodic theorem (not formalised)", "volume preservation of leapfrog in dimension > 1 (not proved)"]
ASSUMPTIONS = ["false-alarm probability per run below 1e-6 by construction (|z| > 6 on <= 300 statistics with 32 replications)"]

G_MH = {"mean": [0.5, -1.0], "cov": [[2.0, 0.6], [0.6, 1.0]]}
G_HN = {"mean": [0.0, 1.0], "cov": [[4.0, 2.0], [2.0, 3.0]]}


def gauss_truth(g, thr_sd=1.0):
    m, c = g["mean"], g["cov"]
    thr = m[0] + thr_sd * math.sqrt(c[0][0])
    return thr, [m[0], m[1], c[0][0] + m[0] ** 2, c[1][1] + m[1] ** 2, c[0][1] + m[0] * m[1], 0.5 * math.erfc(thr_sd / math.sqrt(2))]


def generate(rng, tier):
    R = 32 if tier == "quick" else 128
    # full 64-bit range (half of the seeds have the top bit set), plus the extremes
    seeds = lambda: [str(rng.getrandbits(64)) for _ in range(R - 2)] + [str((1 << 64) - 1 - rng.randint(0, 50)), str((1 << 63) + rng.randint(0, 50))]
    cases = []
    thr, truth = gauss_truth(G_MH)
    for f in (["f64"] if tier == "quick" else ["f64", "f32"]):
        cases.append({"op": "moments", "kind": "mh", "f": f, "n_chains": 4, "n": 1500, "d": 300, "seeds": seeds(), "thr": thr,
                      "truth": truth, "names": ["E x0", "E x1", "E x0^2", "E x1^2", "E x0 x1", "P(x0 > m+sd)"]})
    # discrete tables with asymmetric proposals
    for _ in range(2 if tier == "quick" else 6):
        k = rng.randint(3, 6)
        w = [rng.choice([1, 2, 3, 5, 8]) for _ in range(k)]
        pi = [x / sum(w) for x in w]
        q = []
        for i in range(k):
            row = [rng.choice([0, 1, 1, 2, 4]) for _ in range(k)]
            row[(i + 1) % k] += 1           # irreducible cycle
            row[(i - 1) % k] += 1           # ... and its reverse so every proposed move has a reverse move
            for j in range(k):              # q(i,j) > 0 <=> q(j,i) > 0 is needed for MH to be well defined: symmetrise the support
                pass
            q.append(row)
        for i in range(k):
            for j in range(k):
                if (q[i][j] > 0) != (q[j][i] > 0):
                    q[i][j] = max(q[i][j], 1)
                    q[j][i] = max(q[j][i], 1)
        qi = [list(row) for row in q]
        q = [[x / sum(row) for x in row] for row in q]
        cases.append({"op": "moments", "kind": "table", "f": "f64", "pi": pi, "q": q, "w": w, "qi": qi, "n_chains": 4, "n": 2000, "d": 200,
                      "seeds": seeds(), "truth": pi, "names": ["P(state %d)" % i for i in range(k)]})
    # Gibbs: mixture 0.4 N(-1,1) + 0.6 N(1,1); state (x, z)   (overlapping modes so the sweep mixes)
    phi1 = 1 - 0.5 * math.erfc(1 / math.sqrt(2))
    cases.append({"op": "moments", "kind": "gibbs", "f": "f64", "n_chains": 4, "n": 1500, "d": 100, "seeds": seeds(), "thr": 0.0,
                  "truth": [0.4 * -1 + 0.6 * 1, 0.6, 2.0, 0.6, 0.6 * 1, 0.4 * (1 - phi1) + 0.6 * phi1],
                  "names": ["E x", "E z", "E x^2", "E z^2", "E x z", "P(x > 0)"]})
    thr, truth = gauss_truth(G_HN)
    for f in (["f32"] if tier == "quick" else ["f32", "f64"]):
        cases.append({"op": "moments", "kind": "hmc", "f": f, "n_chains": 4, "n": 600 if tier == "quick" else 1500, "d": 100, "eps": 0.3, "L": 6,
                      "seeds": seeds(), "thr": thr, "truth": truth, "names": ["E x0", "E x1", "E x0^2", "E x1^2", "E x0 x1", "P(x0 > m+sd)"]})
        # the same target after a restart: a short pilot run, then the public `positions` field is replaced by far-away points
        cases.append({"op": "moments", "kind": "hmc", "f": f, "n_chains": 4, "n": 600 if tier == "quick" else 1500, "d": 150, "eps": 0.3, "L": 6,
                      "restart": True, "seeds": seeds(), "thr": thr, "truth": truth,
                      "names": ["E x0", "E x1", "E x0^2", "E x1^2", "E x0 x1", "P(x0 > m+sd)"]})
        cases.append({"op": "moments", "kind": "nuts", "f": f, "n_chains": 2, "n": 300 if tier == "quick" else 1000, "d": 150,
                      "seeds": seeds(), "thr": thr, "truth": truth, "names": ["E x0", "E x1", "E x0^2", "E x1^2", "E x0 x1", "P(x0 > m+sd)"]})
    for kind, f in [("hmc", "f32"), ("nuts", "f32"), ("hmc", "f64")]:
        cases.append({"op": "draws", "kind": kind, "f": f, "n_chains": 4 if kind == "hmc" else 1, "n": 600, "d": 0, "eps": 0.3, "L": 2,
                      "seed": str(rng.getrandbits(63))})
    return cases


def run_impl(cases):
    # one process per case so the replications of different samplers run in parallel
    from concurrent.futures import ThreadPoolExecutor
    with ThreadPoolExecutor(max_workers=6) as ex:
        return list(ex.map(lambda c: C.run_harness("C06", [c], timeout=3000)[0], cases))


EMARK = -1000000023
BLOCKS = [1, 2, 3]
EVAL_STEPS = 24        # exact rationals: the law after 24 steps is evaluated in Coq; the bound after the whole burn-in follows from delta


def coq_term(case, out):
    """table cases: the exact kernel of Model/MH.v on this table (Model/ErgodicEval.v, rationals): stationary law, minorisation
    constant of the m-step kernel, Doeblin bound and exact l1 distance from stationarity after the burn-in, for m = 1, 2, 3"""
    if case.get("kind") != "table" or "w" not in case:
        return None
    ws = C.zlist(case["w"])
    qs = "[" + "; ".join(C.zlist(r) for r in case["qi"]) + "]"
    return (" ++ [%s] ++ " % C.z(EMARK)).join("(ergo_eval %s %s %s %s 0%%nat)" % (ws, qs, C.natlit(m), C.natlit(EVAL_STEPS // m)) for m in BLOCKS)


def ergo_parse(case, model):
    from fractions import Fraction
    k = len(case["w"])
    segs, cur = [], []
    for x in model:
        if x == EMARK:
            segs.append(cur)
            cur = []
        else:
            cur.append(x)
    segs.append(cur)
    res = []
    for m, sg in zip(BLOCKS, segs):
        if len(sg) != 2 * k + 8:
            return None
        fr = [Fraction(sg[2 * i], sg[2 * i + 1]) for i in range(k + 3)]
        res.append({"m": m, "pi": fr[:k], "delta": fr[k], "bound": fr[k + 1], "dist": fr[k + 2], "flags": sg[-2:]})
    return res


def compare(case, out, model):
    if model is None:
        return None
    from fractions import Fraction
    r = ergo_parse(case, model)
    if r is None:
        return "Model.ErgodicEval.ergo_eval: malformed output"
    tot = sum(case["w"])
    for e in r:
        if e["pi"] != [Fraction(x, tot) for x in case["w"]]:
            return "stationary law of the model kernel is not the table the statistical test compares with"
        if e["flags"] != [1, 1]:
            return ("Model.ErgodicEval on this table (block %d): flags %s — pi K = pi must hold exactly and the exact distance after the "
                    "burn-in must respect the Doeblin bound (C06_eval_flags)" % (e["m"], e["flags"]))
    if any(abs(float(a) - b) > 1e-12 for a, b in zip(r[0]["pi"], case["truth"])):
        return "expected state probabilities of the statistical test differ from the model's stationary law"
    return None


def zscores(case, out):
    reps = out["reps"]
    R = len(reps)
    res = []
    for j, (name, truth) in enumerate(zip(case["names"], case["truth"])):
        vals = [r[j] for r in reps]
        mean = sum(vals) / R
        var = sum((v - mean) ** 2 for v in vals) / (R - 1)
        se = math.sqrt(var / R)
        z = (mean - truth) / se if se > 0 else (0.0 if mean == truth else math.inf)
        res.append((name, mean, truth, se, z))
    return res


def oracle(case, out):
    if "panic" in out:
        return "%s/%s panicked: %s" % (case["kind"], case["f"], out["panic"])
    if case["op"] == "moments":
        scale = max(abs(t) for t in case["truth"]) + 1e-9
        for name, mean, truth, se, z in zscores(case, out):
            if abs(z) > 6 and abs(mean - truth) > 0.01 * max(scale, abs(truth)):
                return ("%s/%s: pooled estimate of %s = %.5g over %d replications, exact expectation %.5g (z = %.1f, s.e. %.2g): "
                        "the error is not explained by Monte-Carlo error" % (case["kind"], case["f"], name, mean, len(out["reps"]), truth, z, se))
    else:
        nm, un = out["normals"], out["uniforms"]
        n = nm["n"]
        chk = [("normal mean", nm["mean"], 0.0, 1 / math.sqrt(n)), ("normal second moment", nm["msq"], 1.0, math.sqrt(2.0 / n)),
               ("normal lag-1 covariance", nm["lag1"], 0.0, 1 / math.sqrt(n)),
               ("uniform mean", un["mean"], 0.5, math.sqrt(1 / 12.0 / un["n"])),
               ("uniform second moment", un["msq"], 1 / 3.0, math.sqrt(4 / 45.0 / un["n"])),
               ("normal x uniform cross moment", out["cross"], 0.0, math.sqrt(1 / 12.0 / max(1, out["cross_n"])))]
        if out.get("cross_next_n"):
            chk.append(("cross moment of a step's acceptance uniforms with the next step's momenta", out["cross_next"], 0.0,
                        math.sqrt(1 / 12.0 / out["cross_next_n"])))
        if out.get("exps"):
            ex = out["exps"]
            chk.append(("exponential mean", ex["mean"], 1.0, 1 / math.sqrt(ex["n"])))
        for name, v, t, se in chk:
            if abs(v - t) > 6 * se:
                return "%s/%s: %s of the consumed variates = %.5g, required %.5g (z = %.1f over %d draws)" % (
                    case["kind"], case["f"], name, v, t, (v - t) / se, n)
    return None


def finding_class(case, out, d):
    return None


def nontrivial(case, out):
    return True


def extra(cases, outs, model):
    erg = []
    for c, mo in zip(cases, model or []):
        if c.get("kind") == "table" and mo:
            r = ergo_parse(c, mo)
            if r:
                k = len(c["w"])
                erg.append({"states": k, "burn_in": c["d"],
                            "per_block": [{"m": e["m"], "delta": float(e["delta"]),
                                           "doeblin_bound_after_%d_steps" % (EVAL_STEPS // e["m"] * e["m"]): float(e["bound"]),
                                           "exact_l1_distance_after_%d_steps" % (EVAL_STEPS // e["m"] * e["m"]): float(e["dist"]),
                                           "doeblin_bound_after_burn_in": float(2 * (1 - k * e["delta"]) ** (c["d"] // e["m"]))} for e in r]})
    zs = []
    for c, o in zip(cases, outs):
        if c["op"] == "moments" and "reps" in o:
            for name, mean, truth, se, z in zscores(c, o):
                zs.append({"sampler": c["kind"] + "/" + c["f"], "stat": name, "estimate": round(mean, 5), "exact": round(truth, 5), "z": round(z, 2)})
    return {"table_kernels_evaluated_in_coq": erg, "statistics": len(zs), "max_abs_z": max(abs(z["z"]) for z in zs) if zs else 0, "z_table": zs}
