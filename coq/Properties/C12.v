From MiniMcmc Require Import Model.StatsEval.
