(* C03 — NUTS: the trajectory is doubled by leapfrog steps until a U-turn or a divergence (energy
   error above 1000) occurs, and the next state is drawn uniformly among trajectory points whose
   joint log-density exceeds the slice level, never from a subtree that stopped.  In particular
   the next state is always the previous state or a slice-admissible point of the leapfrog
   trajectory through it, and the per-transition acceptance statistic is the mean of
   min(1, exp(energy change)) over the last doubling.
   Model: Model/NUTS.v (build_tree = Hoffman & Gelman, Algorithm 6; doublings/transition = the loop
   of NUTSChain::step).  Proofs: Proofs/NUTS.v.
   Everything is stated for ARBITRARY oracles: `leap v z` one leapfrog step forward (v = true) or
   backward (v = false), `joint` the joint log-density, `flt` the IEEE `<` (any boolean relation:
   no order law is used), `noturn` the U-turn test, `take2`/`accept_top` the two uses of a
   uniform variate.  No relation between `leap true` and `leap false` is assumed.
   Vocabulary (Proofs/NUTS.v):
     traj v z k   = iter k (leap v) z            the point k leapfrog steps from z in direction v
     steps w recs = sum of tnalpha (d_tree d) over the records d of recs with d_dir d = w
     tnsum recs   = sum of tn (d_tree d) over recs
     asum / psum  = left-to-right / pairwise sum of alpha1 over a list of points.
   A leaf l is slice-admissible when flt logu (joint l) = true and non-divergent when
   flt (sub1000 logu) (joint l) = true.
   The laws of take2 / accept_top in (3)-(4) are required only for uniforms satisfying `okU`
   (think 0 <= u < 1), and the supplied variates are assumed to satisfy it; take
   okU := fun _ => True for laws valid for every u.
   Only statements, `exact`, Print Assumptions. *)
From MiniMcmc Require Import Model.NUTSEval.
From MiniMcmc Require Import Base.Util Model.NUTS Proofs.NUTS.
Close Scope Q_scope.
Close Scope R_scope.
Close Scope Z_scope.
Local Open Scope nat_scope.

Section C03.
  Context {P F A U : Type}.
  Variable leap : bool -> P -> P.
  Variable joint : P -> F.
  Variable noturn : P -> P -> bool.
  Variable flt : F -> F -> bool.
  Variable sub1000 : F -> F.
  Variable alpha1 : P -> A.
  Variable aadd : A -> A -> A.
  Variable take2 : U -> nat -> nat -> bool.
  Variable logu : F.
  Variable accept_top : U -> nat -> nat -> bool.

  Notation tree := (@tree P A).
  Notation dbl := (@dbl P A).
  Notation merge := (merge noturn aadd take2).
  Notation build_tree := (build_tree leap joint noturn flt sub1000 alpha1 aadd take2 logu).
  Notation visited := (visited leap joint noturn flt sub1000 alpha1 aadd take2 logu).
  Notation transition :=
    (transition leap joint noturn flt sub1000 alpha1 aadd take2 logu accept_top).
  Notation traj := (traj leap).

  (* (1) A call of build_tree at depth j from z in direction v visits the points leap^1 z, ...,
     leap^m z in this order, 1 <= m <= 2^j; the tree counts m leaves, its far end is leap^m z and
     its near end leap^1 z; a sub-tree that did not stop is complete (m = 2^j). *)
  Theorem C03_leaves : forall j z v us t us',
    build_tree j z v us = Some (t, us') ->
    exists m, 1 <= m <= 2 ^ j /\
      visited j z v us = map (traj v z) (seq 1 m) /\
      tnalpha t = m /\
      (if v then zp t else zm t) = traj v z m /\
      (if v then zm t else zp t) = traj v z 1 /\
      (ts t = true -> m = 2 ^ j).
  Proof. exact (build_tree_leaves leap joint noturn flt sub1000 alpha1 aadd take2 logu). Qed.

  (* (2) n' is the number of slice-admissible visited leaves, n_alpha the number of visited
     leaves; a sub-tree that did not stop contains no divergent leaf (energy error above 1000),
     and, from depth 1 on, passed the U-turn test on its two ends. *)
  Theorem C03_counts : forall j z v us t us',
    build_tree j z v us = Some (t, us') ->
    tn t = length (filter (fun l => flt logu (joint l)) (visited j z v us)) /\
    tnalpha t = length (visited j z v us) /\
    (ts t = true -> forall l, In l (visited j z v us) -> flt (sub1000 logu) (joint l) = true).
  Proof. exact (build_tree_counts leap joint noturn flt sub1000 alpha1 aadd take2 logu). Qed.

  Theorem C03_not_stopped_no_uturn : forall k z v us t us',
    build_tree (S k) z v us = Some (t, us') -> ts t = true -> noturn (zm t) (zp t) = true.
  Proof. exact (build_tree_noturn leap joint noturn flt sub1000 alpha1 aadd take2 logu). Qed.

  (* the acceptance statistic: alpha' is the sum of the per-leaf terms min(1, exp(energy change))
     over exactly the visited leaves, so alpha'/n_alpha' of the last doubling is their mean *)
  Section C03_alpha.
    Variable azero : A.
    Hypothesis aadd_assoc : forall a b c, aadd a (aadd b c) = aadd (aadd a b) c.

    Theorem C03_alpha_sum : forall j z v us t us',
      build_tree j z v us = Some (t, us') ->
      talpha t = asum alpha1 aadd azero (visited j z v us) /\
      visited j z v us <> [] /\ tnalpha t = length (visited j z v us).
    Proof.
      exact (build_tree_alpha_sum leap joint noturn flt sub1000 alpha1 aadd take2 logu azero
               aadd_assoc).
    Qed.
  End C03_alpha.

  (* ... and with NO law on the addition (floating point): alpha' is the pairwise sum, split at
     2^(j-1), of the same terms *)
  Theorem C03_alpha_pairwise : forall j z v us t us' (dflt : A),
    build_tree j z v us = Some (t, us') ->
    talpha t = psum alpha1 aadd j (visited j z v us) dflt.
  Proof. exact (build_tree_talpha_pairwise leap joint noturn flt sub1000 alpha1 aadd take2 logu). Qed.

  (* the uniforms: one per merge (m - 1 of them, a prefix of the supply); enough uniforms and the
     call succeeds; and they influence nothing but the candidate *)
  Theorem C03_uniforms_consumed : forall j z v us t us',
    build_tree j z v us = Some (t, us') ->
    exists used, us = used ++ us' /\ S (length used) = tnalpha t.
  Proof. exact (build_tree_consumes leap joint noturn flt sub1000 alpha1 aadd take2 logu). Qed.

  Theorem C03_build_tree_total : forall j z v us,
    2 ^ j - 1 <= length us -> build_tree j z v us <> None.
  Proof. exact (build_tree_total leap joint noturn flt sub1000 alpha1 aadd take2 logu). Qed.

  Theorem C03_uniforms_only_candidate : forall j z v us1 us2 t1 r1 t2 r2,
    build_tree j z v us1 = Some (t1, r1) -> build_tree j z v us2 = Some (t2, r2) ->
    zm t1 = zm t2 /\ zp t1 = zp t2 /\ tn t1 = tn t2 /\ ts t1 = ts t2 /\
    talpha t1 = talpha t2 /\ tnalpha t1 = tnalpha t2 /\
    visited j z v us1 = visited j z v us2.
  Proof. exact (build_tree_uniforms_only_cand leap joint noturn flt sub1000 alpha1 aadd take2 logu). Qed.

  (* (6) the merge step of Algorithm 6: the counts add up and the second half's candidate
     replaces the first's exactly when take2 u n1 n2 says so (u < n2 / (n1 + n2)) *)
  Theorem C03_merge_rule : forall v u (t1 t2 : tree),
    tn (merge v u t1 t2) = tn t1 + tn t2 /\
    (take2 u (tn t1) (tn t2) = true -> cand (merge v u t1 t2) = cand t2) /\
    (take2 u (tn t1) (tn t2) = false -> cand (merge v u t1 t2) = cand t1).
  Proof. exact (merge_rule noturn aadd take2). Qed.

  (* the candidate is always one of the visited leaves *)
  Theorem C03_candidate_visited : forall j z v us t us',
    build_tree j z v us = Some (t, us') ->
    In (cand t) (visited j z v us) /\
    exists k, 1 <= k <= tnalpha t /\ cand t = traj v z k.
  Proof. exact (build_tree_cand_visited leap joint noturn flt sub1000 alpha1 aadd take2 logu). Qed.

  (* ---- the doubling loop, with no hypothesis on the oracles ---- *)

  (* (4a) the trajectory is one line through z0: after the loop the backward end is
     leap_back^a z0 and the forward end leap_fwd^b z0, a and b the numbers of backward / forward
     leapfrog steps recorded; doubling number i (depth i) was built from the then-current end in
     its direction, s steps from z0, and visited exactly the points s+1, ..., s+m on that side;
     between two doublings the U-turn test on the two ends held. *)
  Theorem C03_trajectory_line : forall fuel z0 dirs tus accs st recs dr tr ar,
    transition fuel z0 dirs tus accs = Some (st, recs, dr, tr, ar) ->
    lo st = traj false z0 (steps false recs) /\
    hi st = traj true z0 (steps true recs) /\
    (forall i d, nth_error recs i = Some d ->
       let v := d_dir d in
       let s := steps v (firstn i recs) in
       exists us us',
         build_tree i (traj v z0 s) v us = Some (d_tree d, us') /\
         visited i (traj v z0 s) v us = map (traj v z0) (seq (1 + s) (tnalpha (d_tree d))) /\
         (if v then zp (d_tree d) else zm (d_tree d)) = traj v z0 (s + tnalpha (d_tree d)) /\
         (if v then zm (d_tree d) else zp (d_tree d)) = traj v z0 (s + 1)) /\
    (forall i, S i < length recs ->
       noturn (traj false z0 (steps false (firstn (S i) recs)))
              (traj true z0 (steps true (firstn (S i) recs))) = true).
  Proof.
    exact (transition_line leap joint noturn flt sub1000 alpha1 aadd take2 logu accept_top).
  Qed.

  (* (5) shape of the loop: one record per doubling; the point count starts at 1 (z0) and adds
     every n'; every doubling but the last did not stop, and the last one stopped or made the
     whole trajectory U-turn; doubling number i visits at most 2^i leaves (exactly 2^i unless
     it stopped) and is adopted iff it did not stop and accept_top u n' n holds, n the
     count before it. *)
  Theorem C03_loop_shape : forall fuel z0 dirs tus accs st recs dr tr ar,
    transition fuel z0 dirs tus accs = Some (st, recs, dr, tr, ar) ->
    depth st = length recs /\
    ntot st = 1 + tnsum recs /\
    (exists pre d, recs = pre ++ [d] /\
       (forall d', In d' pre -> ts (d_tree d') = true) /\
       ts (d_tree d) && noturn (lo st) (hi st) = false) /\
    (forall i d, nth_error recs i = Some d ->
       1 <= tnalpha (d_tree d) <= 2 ^ i /\
       (ts (d_tree d) = true -> tnalpha (d_tree d) = 2 ^ i) /\
       exists ac, d_accepted d =
         ts (d_tree d) && accept_top ac (tn (d_tree d)) (1 + tnsum (firstn i recs))).
  Proof.
    exact (transition_shape leap joint noturn flt sub1000 alpha1 aadd take2 logu accept_top).
  Qed.

  (* (4b) a candidate is never adopted from a doubling that stopped; the next state is the
     candidate of the LAST adopted doubling, or the previous state if there is none; and every
     recorded candidate lies on the trajectory, on the side of its doubling *)
  Theorem C03_never_from_stopped : forall fuel z0 dirs tus accs st recs dr tr ar,
    transition fuel z0 dirs tus accs = Some (st, recs, dr, tr, ar) ->
    (forall d, In d recs -> d_accepted d = true -> ts (d_tree d) = true) /\
    cur st = match find d_accepted (rev recs) with
             | Some d => cand (d_tree d)
             | None => z0
             end.
  Proof.
    exact (transition_never_from_stopped leap joint noturn flt sub1000 alpha1 aadd take2 logu
             accept_top).
  Qed.

  Theorem C03_candidates_on_trajectory : forall fuel z0 dirs tus accs st recs dr tr ar,
    transition fuel z0 dirs tus accs = Some (st, recs, dr, tr, ar) ->
    forall d, In d recs ->
    exists k, 1 <= k <= steps (d_dir d) recs /\ cand (d_tree d) = traj (d_dir d) z0 k.
  Proof.
    exact (transition_cand_traj leap joint noturn flt sub1000 alpha1 aadd take2 logu accept_top).
  Qed.

  (* ---- under the laws of the two uses of a uniform ---- *)
  Section C03_laws.
    Variable okU : U -> Prop.
    (* a half without admissible point never supplies the candidate (u < 0/n is false) *)
    Hypothesis Htake0 : forall u n1, okU u -> take2 u n1 0 = false.
    (* if only the second half has admissible points its candidate is taken (u < 1) *)
    Hypothesis Htake1 : forall u n2, okU u -> take2 u 0 (S n2) = true.

    (* (3) as soon as the sub-tree contains an admissible point its candidate is one *)
    Theorem C03_candidate_admissible : forall j z v us t us',
      Forall okU us ->
      build_tree j z v us = Some (t, us') ->
      In (cand t) (visited j z v us) /\
      (0 < tn t -> flt logu (joint (cand t)) = true).
    Proof.
      exact (build_tree_cand leap joint noturn flt sub1000 alpha1 aadd take2 logu okU Htake0 Htake1).
    Qed.

    (* a doubling without admissible point is never adopted (u < min(1, 0/n) is false) *)
    Hypothesis Hacc0 : forall u n, okU u -> accept_top u 0 n = false.

    (* (4c) an adopted doubling did not stop, contains an admissible point, and its candidate is
       a slice-admissible point of the trajectory *)
    Theorem C03_adopted : forall fuel z0 dirs tus accs st recs dr tr ar,
      Forall okU tus -> Forall okU accs ->
      transition fuel z0 dirs tus accs = Some (st, recs, dr, tr, ar) ->
      forall d, In d recs -> d_accepted d = true ->
      ts (d_tree d) = true /\ 0 < tn (d_tree d) /\
      exists k, 1 <= k <= steps (d_dir d) recs /\
        cand (d_tree d) = traj (d_dir d) z0 k /\ flt logu (joint (cand (d_tree d))) = true.
    Proof.
      exact (transition_accepted leap joint noturn flt sub1000 alpha1 aadd take2 logu accept_top
               okU Htake0 Htake1 Hacc0).
    Qed.

    (* (4d) the next state is the previous state, or a slice-admissible point k >= 1 leapfrog
       steps from it in one of the two directions, inside the final trajectory [lo, hi] *)
    Theorem C03_next_state : forall fuel z0 dirs tus accs st recs dr tr ar,
      Forall okU tus -> Forall okU accs ->
      transition fuel z0 dirs tus accs = Some (st, recs, dr, tr, ar) ->
      cur st = z0 \/
      exists v k, 1 <= k <= steps v recs /\ cur st = traj v z0 k /\
                  flt logu (joint (cur st)) = true.
    Proof.
      exact (transition_next_state leap joint noturn flt sub1000 alpha1 aadd take2 logu accept_top
               okU Htake0 Htake1 Hacc0).
    Qed.
  End C03_laws.
End C03.

(* ---- Non-vacuity ---- *)
(* Points are trajectory indices (Z), joint i = -i^2, slice level -10 (admissible: i^2 < 10, i.e.
   |i| <= 3), U-turn rule: the two ends are less than 6 apart; uniforms are percentages (taken
   mod 100), the per-leaf acceptance term is 1 and the addition is Z.add. *)
Definition ex_leap (v : bool) (i : Z) : Z := if v then (i + 1)%Z else (i - 1)%Z.
Definition ex_joint (i : Z) : Z := (- (i * i))%Z.
Definition ex_noturn (a b : Z) : bool := (b - a <? 6)%Z.
Definition ex_sub1000 (x : Z) : Z := (x - 1000)%Z.
Definition ex_alpha1 (_ : Z) : Z := 1%Z.
Definition ex_take2 (u n1 n2 : nat) : bool := (u mod 100) * Nat.max (n1 + n2) 1 <? 100 * n2.
Definition ex_accept (u n' n : nat) : bool := (u mod 100) * n <? 100 * n'.
Definition ex_logu : Z := (-10)%Z.
Definition ex_build :=
  build_tree ex_leap ex_joint ex_noturn Z.ltb ex_sub1000 ex_alpha1 Z.add ex_take2 ex_logu.
Definition ex_visited :=
  visited ex_leap ex_joint ex_noturn Z.ltb ex_sub1000 ex_alpha1 Z.add ex_take2 ex_logu.
Definition ex_transition :=
  transition ex_leap ex_joint ex_noturn Z.ltb ex_sub1000 ex_alpha1 Z.add ex_take2 ex_logu ex_accept.

(* the three laws hold for every uniform (okU := fun _ => True) *)
Example C03_laws_satisfiable :
  (forall u n1, True -> ex_take2 u n1 0 = false) /\
  (forall u n2, True -> ex_take2 u 0 (S n2) = true) /\
  (forall u n, True -> ex_accept u 0 n = false) /\
  (forall a b c : Z, (a + (b + c) = a + b + c)%Z).
Proof.
  unfold ex_take2, ex_accept. split; [|split; [|split]].
  - intros u n1 _. apply Nat.ltb_ge. lia.
  - intros u n2 _. apply Nat.ltb_lt.
    assert (Hm : u mod 100 < 100) by (apply Nat.mod_upper_bound; lia).
    rewrite Nat.add_0_l, Nat.max_l by lia. nia.
  - intros u n _. apply Nat.ltb_ge. lia.
  - intros; lia.
Qed.

(* depth 2 forward from 0: leaves 1,2,3,4; three admissible (4^2 >= 10); not stopped; sum of the
   acceptance terms 4 over 4 leaves; with uniforms 70, 20, 90 the candidate is leaf 1 *)
Example C03_build_tree_concrete :
  ex_visited 2 0%Z true [70; 20; 90] = [1%Z; 2%Z; 3%Z; 4%Z] /\
  ex_build 2 0%Z true [70; 20; 90] =
    Some ({| zm := 1%Z; zp := 4%Z; cand := 1%Z; tn := 3; ts := true;
             talpha := 4%Z; tnalpha := 4 |}, []) /\
  option_map (fun r => cand (fst r)) (ex_build 2 0%Z true [10; 20; 30]) = Some 3%Z /\
  ex_build 2 0%Z true [70; 20] = None.
Proof. repeat split; vm_compute; reflexivity. Qed.

(* depth 4 forward from 0: the first half (leaves 1..8) U-turns (8 - 1 >= 6), so the call
   stops after 8 < 16 leaves with the stop flag down and the remaining uniforms untouched *)
Example C03_build_tree_stops :
  ex_visited 4 0%Z true [0; 0; 0; 0; 0; 0; 0; 0; 0; 0] = [1; 2; 3; 4; 5; 6; 7; 8]%Z /\
  option_map (fun r => (ts (fst r), tnalpha (fst r), tn (fst r), snd r))
    (ex_build 4 0%Z true [0; 0; 0; 0; 0; 0; 0; 0; 0; 0]) = Some (false, 8, 3, [0; 0; 0]).
Proof. repeat split; vm_compute; reflexivity. Qed.

(* full transitions from 0: (current, lo, hi, point count, per doubling (direction, candidate, n',
   n_alpha, not stopped, adopted), leftover directions / tree uniforms / acceptance uniforms) *)
Definition ex_summary (r : option (@nst Z * list (@dbl Z Z) * list bool * list nat * list nat)) :=
  option_map (fun r => let '(st, recs, dr, tr, ar) := r in
    (cur st, lo st, hi st, ntot st,
     map (fun d => (d_dir d, cand (d_tree d), tn (d_tree d), tnalpha (d_tree d), ts (d_tree d),
                    d_accepted d)) recs, dr, tr, ar)) r.

(* forward, backward, forward: leaves 1 | -1,-2 | 2,3,4,5; the loop ends because the whole
   trajectory [-2, 5] U-turns (7 >= 6); every doubling adopted; next state 3, admissible *)
Example C03_transition_concrete :
  ex_summary (ex_transition 10 0%Z [true; false; true; true] [40; 10; 20; 30; 77] [5; 60; 30; 99])
  = Some (3%Z, (-2)%Z, 5%Z, 6,
          [(true, 1%Z, 1, 1, true, true); (false, (-2)%Z, 2, 2, true, true);
           (true, 3%Z, 2, 4, true, true)], [true], [77], [99]) /\
  Z.ltb ex_logu (ex_joint 3) = true /\
  3%Z = traj ex_leap true 0%Z 3 /\
  (* third doubling refused (70/100 >= 2/4): the next state is the candidate of the second *)
  ex_summary (ex_transition 10 0%Z [true; false; true; true] [40; 10; 20; 30; 77] [5; 60; 70; 99])
  = Some ((-2)%Z, (-2)%Z, 5%Z, 6,
          [(true, 1%Z, 1, 1, true, true); (false, (-2)%Z, 2, 2, true, true);
           (true, 3%Z, 2, 4, true, false)], [true], [77], [99]) /\
  Z.ltb ex_logu (ex_joint (-2)) = true /\
  (-2)%Z = traj ex_leap false 0%Z 2.
Proof. repeat split; vm_compute; reflexivity. Qed.

(* three backward doublings: the last one (leaves -4..-7) has no admissible point, is not
   adopted although it did not stop, and its (inadmissible) candidate -4 is not taken *)
Example C03_transition_no_admissible_point :
  ex_summary (ex_transition 10 0%Z [false; false; false; true] [40; 10; 20; 30; 77] [5; 60; 70; 99])
  = Some ((-3)%Z, (-7)%Z, 0%Z, 4,
          [(false, (-1)%Z, 1, 1, true, true); (false, (-3)%Z, 2, 2, true, true);
           (false, (-4)%Z, 0, 4, true, false)], [true], [77], [99]) /\
  Z.ltb ex_logu (ex_joint (-4)) = false /\
  Z.ltb ex_logu (ex_joint (-3)) = true /\
  (* variates or fuel exhausted: no result *)
  ex_transition 10 0%Z [true; false] [40; 10; 20; 30; 77] [5; 60; 70; 99] = None /\
  ex_transition 2 0%Z [true; false; true; true] [40; 10; 20; 30; 77] [5; 60; 30; 99] = None.
Proof. repeat split; vm_compute; reflexivity. Qed.

(* the hypotheses of (4d) are jointly satisfiable: the theorem applies to this instance *)
Example C03_next_state_applies : forall fuel z0 dirs tus accs st recs dr tr ar,
  ex_transition fuel z0 dirs tus accs = Some (st, recs, dr, tr, ar) ->
  cur st = z0 \/
  exists v k, 1 <= k <= steps v recs /\ cur st = traj ex_leap v z0 k /\
              Z.ltb ex_logu (ex_joint (cur st)) = true.
Proof.
  intros fuel z0 dirs tus accs st recs dr tr ar H.
  destruct C03_laws_satisfiable as (H0 & H1 & H2 & _).
  exact (C03_next_state ex_leap ex_joint ex_noturn Z.ltb ex_sub1000 ex_alpha1 Z.add ex_take2
           ex_logu ex_accept (fun _ => True) H0 H1 H2 fuel z0 dirs tus accs st recs dr tr ar
           (Forall_trivial tus) (Forall_trivial accs) H).
Qed.

(* ---- "drawn uniformly among trajectory points whose joint log-density exceeds the slice level" ----
   candw j z v l is the probability that l is the candidate of build_tree j z v, obtained by replacing each
   merge decision `u < n''/max(n'+n'',1)` (u uniform on [0,1), independent: the modelling assumption) by its
   probability; candsel is the same recursion driven by the actual uniforms and is the model's candidate. *)
From MiniMcmc Require Import Proofs.NUTSUniform.
From Coq Require Import Reals.

Section C03_uniform_selection.
  Context {P F A U : Type}.
  Variable leap : bool -> P -> P.
  Variable joint : P -> F.
  Variable noturn : P -> P -> bool.
  Variable flt : F -> F -> bool.
  Variable sub1000 : F -> F.
  Variable alpha1 : P -> A.
  Variable aadd : A -> A -> A.
  Variable take2 : U -> nat -> nat -> bool.
  Variable logu : F.
  Variable P_eq_dec : forall a b : P, {a = b} + {a <> b}.

  (* in a sub-tree that did not stop, every slice-admissible visited leaf is the candidate with probability 1/n',
     every other visited leaf with probability 0 *)
  Theorem C03_uniform : forall j z v us us' t,
    build_tree leap joint noturn flt sub1000 alpha1 aadd take2 logu j z v us = Some (t, us') ->
    NoDup (visited leap joint noturn flt sub1000 alpha1 aadd take2 logu j z v us) ->
    ts t = true -> 0 < tn t ->
    forall l, In l (visited leap joint noturn flt sub1000 alpha1 aadd take2 logu j z v us) ->
      (admissible joint flt logu l = true ->
         candw leap joint noturn flt sub1000 logu P_eq_dec j z v l = (1 / INR (tn t))%R) /\
      (admissible joint flt logu l = false ->
         candw leap joint noturn flt sub1000 logu P_eq_dec j z v l = 0%R).
  Proof. exact (candw_uniform leap joint noturn flt sub1000 alpha1 aadd take2 logu P_eq_dec). Qed.

  (* the weights form a probability distribution on the visited leaves *)
  Theorem C03_uniform_total : forall j z v us us' t,
    build_tree leap joint noturn flt sub1000 alpha1 aadd take2 logu j z v us = Some (t, us') ->
    NoDup (visited leap joint noturn flt sub1000 alpha1 aadd take2 logu j z v us) ->
    rsum (candw leap joint noturn flt sub1000 logu P_eq_dec j z v)
         (visited leap joint noturn flt sub1000 alpha1 aadd take2 logu j z v us) = 1%R.
  Proof. exact (candw_total leap joint noturn flt sub1000 alpha1 aadd take2 logu P_eq_dec). Qed.

  (* the executable model's candidate is the selection recursion driven by the actual uniforms *)
  Theorem C03_uniform_matches_model : forall j z v us us' t,
    build_tree leap joint noturn flt sub1000 alpha1 aadd take2 logu j z v us = Some (t, us') ->
    candsel leap joint noturn flt sub1000 take2 logu j z v us = Some (cand t, us').
  Proof. exact (candw_matches_model leap joint noturn flt sub1000 alpha1 aadd take2 logu). Qed.
End C03_uniform_selection.

(* ---- draw grammar of a NUTS chain (Model/NUTSEval.v: nuts_transition_kinds, nuts_run_kinds): the
   kinds of variates the chain takes from its own generator, in order (0 = standard normal,
   1 = Exp(1), 2 = uniform in T, 3 = uniform f64).  A transition with per-doubling merge counts ms
   takes d normals, one Exp(1), two T-uniforms per doubling (direction, acceptance) and one f64
   uniform per merge, and nothing else; a run takes d normals first and then its transitions. ---- *)
From Coq Require Import ZArith.
From MiniMcmc Require Import Proofs.Draws.
Close Scope Q_scope.
Close Scope R_scope.
Close Scope Z_scope.
Close Scope N_scope.
Local Open Scope nat_scope.

Theorem C03_draw_grammar : forall (d : nat) (ms : list nat),
  length (nuts_transition_kinds d ms) = d + 1 + fold_right (fun m acc => m + 2 + acc) 0 ms /\
  count_occ Z.eq_dec (nuts_transition_kinds d ms) 0%Z = d /\
  count_occ Z.eq_dec (nuts_transition_kinds d ms) 1%Z = 1 /\
  count_occ Z.eq_dec (nuts_transition_kinds d ms) 2%Z = 2 * length ms /\
  count_occ Z.eq_dec (nuts_transition_kinds d ms) 3%Z = fold_right Nat.add 0 ms /\
  (forall x, In x (nuts_transition_kinds d ms) -> (x = 0 \/ x = 1 \/ x = 2 \/ x = 3)%Z).
Proof.
  intros d ms.
  exact (conj (nuts_transition_kinds_length d ms)
        (conj (nuts_transition_kinds_count0 d ms)
        (conj (nuts_transition_kinds_count1 d ms)
        (conj (nuts_transition_kinds_count2 d ms)
        (conj (nuts_transition_kinds_count3 d ms) (nuts_transition_kinds_alphabet d ms)))))).
Qed.

Theorem C03_draw_grammar_run : forall (d : nat) (trs : list (list nat)),
  length (nuts_run_kinds d trs)
    = d + fold_right (fun ms acc => (d + 1 + fold_right (fun m acc' => m + 2 + acc') 0 ms) + acc) 0 trs /\
  count_occ Z.eq_dec (nuts_run_kinds d trs) 0%Z = d + d * length trs /\
  count_occ Z.eq_dec (nuts_run_kinds d trs) 1%Z = length trs /\
  count_occ Z.eq_dec (nuts_run_kinds d trs) 2%Z = 2 * list_sum (map (@length nat) trs) /\
  count_occ Z.eq_dec (nuts_run_kinds d trs) 3%Z = list_sum (map (fold_right Nat.add 0) trs).
Proof. intros d trs. exact (conj (nuts_run_kinds_length d trs) (nuts_run_kinds_counts d trs)). Qed.

(* link to the tree model (Model/NUTS.v): the kind-3 entries are the uniforms build_tree consumes *)
Section C03_draws.
  Context {P F A U : Type}.
  Variable leap : bool -> P -> P.
  Variable joint : P -> F.
  Variable noturn : P -> P -> bool.
  Variable flt : F -> F -> bool.
  Variable sub1000 : F -> F.
  Variable alpha1 : P -> A.
  Variable aadd : A -> A -> A.
  Variable take2 : U -> nat -> nat -> bool.
  Variable logu : F.
  Variable accept_top : U -> nat -> nat -> bool.

  (* a call of depth j consumes a prefix of the supplied f64 uniforms, one per merge: (leaves
     visited) - 1 of them, at most 2^j - 1, and exactly 2^j - 1 when the sub-tree did not stop *)
  Theorem C03_tree_draws : forall j z v us t us',
    build_tree leap joint noturn flt sub1000 alpha1 aadd take2 logu j z v us = Some (t, us') ->
    exists used, us = used ++ us' /\ length used = tnalpha t - 1 /\
      length used <= 2 ^ j - 1 /\ (ts t = true -> length used = 2 ^ j - 1).
  Proof. exact (build_tree_merges leap joint noturn flt sub1000 alpha1 aadd take2 logu). Qed.

  (* a successful transition realises the grammar.  It consumes a prefix of each of its three supplies
     (directions, tree uniforms, acceptance uniforms); the directions consumed are the recorded ones;
     with ms the per-doubling merge counts (leaves visited - 1), the T-uniforms consumed (directions +
     acceptance uniforms) number the kind-2 entries and the f64 uniforms consumed number the kind-3
     entries of nuts_transition_kinds d ms, so together with the d normals and the Exp(1) drawn before
     the loop the transition draws as many variates as the grammar lists; and ms is
     1 - 1, 2 - 1, 4 - 1, ..., 2^i - 1, ... for every doubling but the last, whose count is at most
     2^i - 1 (equal if it did not stop). *)
  Theorem C03_transition_draws : forall (d : nat) fuel z0 dirs tus accs st recs dr tr ar,
    transition leap joint noturn flt sub1000 alpha1 aadd take2 logu accept_top fuel z0 dirs tus accs
      = Some (st, recs, dr, tr, ar) ->
    exists tu au,
      dirs = map d_dir recs ++ dr /\ tus = tu ++ tr /\ accs = au ++ ar /\
      length (map d_dir recs) + length au =
        count_occ Z.eq_dec (nuts_transition_kinds d (map (fun r => tnalpha (d_tree r) - 1) recs)) 2%Z /\
      length tu =
        count_occ Z.eq_dec (nuts_transition_kinds d (map (fun r => tnalpha (d_tree r) - 1) recs)) 3%Z /\
      d + 1 + length (map d_dir recs) + length tu + length au =
        length (nuts_transition_kinds d (map (fun r => tnalpha (d_tree r) - 1) recs)) /\
      (exists mlast, map (fun r => tnalpha (d_tree r) - 1) recs =
           map (fun i => 2 ^ i - 1) (seq 0 (length recs - 1)) ++ [mlast] /\
         mlast <= 2 ^ (length recs - 1) - 1) /\
      (forall i r, nth_error recs i = Some r -> ts (d_tree r) = true ->
         tnalpha (d_tree r) - 1 = 2 ^ i - 1).
  Proof.
    exact (transition_draws leap joint noturn flt sub1000 alpha1 aadd take2 logu accept_top).
  Qed.
End C03_draws.

(* d = 2, three doublings with 0, 1 and 3 merges: 2 normals, the Exp(1), then per doubling a direction
   uniform, the merge uniforms and the acceptance uniform; a run of two transitions starts with 2 more
   normals *)
Example C03_draw_grammar_concrete :
  nuts_transition_kinds 2 [0; 1; 3] = [0; 0; 1; 2; 2; 2; 3; 2; 2; 3; 3; 3; 2]%Z /\
  count_occ Z.eq_dec (nuts_transition_kinds 2 [0; 1; 3]) 3%Z = 4 /\
  count_occ Z.eq_dec (nuts_transition_kinds 2 [0; 1; 3]) 2%Z = 6 /\
  nuts_run_kinds 2 [[0]; [0; 1]] = [0; 0; 0; 0; 1; 2; 2; 0; 0; 1; 2; 2; 2; 3; 2]%Z.
Proof. vm_compute. repeat split. Qed.

Print Assumptions C03_leaves.
Print Assumptions C03_counts.
Print Assumptions C03_not_stopped_no_uturn.
Print Assumptions C03_alpha_sum.
Print Assumptions C03_alpha_pairwise.
Print Assumptions C03_uniforms_consumed.
Print Assumptions C03_build_tree_total.
Print Assumptions C03_uniforms_only_candidate.
Print Assumptions C03_merge_rule.
Print Assumptions C03_candidate_visited.
Print Assumptions C03_trajectory_line.
Print Assumptions C03_loop_shape.
Print Assumptions C03_never_from_stopped.
Print Assumptions C03_candidates_on_trajectory.
Print Assumptions C03_candidate_admissible.
Print Assumptions C03_adopted.
Print Assumptions C03_next_state.
Print Assumptions C03_uniform.
Print Assumptions C03_uniform_total.
Print Assumptions C03_uniform_matches_model.
Print Assumptions C03_draw_grammar.
Print Assumptions C03_draw_grammar_run.
Print Assumptions C03_tree_draws.
Print Assumptions C03_transition_draws.

(* ---------------------------------------------------------------------------------------------
   C03 additions — symmetry of the doubling process (the combinatorial core of the correctness of
   NUTS as a sampler).  Model: Model/NUTSSym.v; proofs: Proofs/NUTSSym.v.
   Trajectory points are named by their INDEX on the leapfrog line: the start point has index 0,
   one leapfrog forward is +1, one backward -1.  The doubling at depth j adds 2^j points on the
   right (direction true) or on the left (direction false).
     spanL j0 vs / spanR j0 vs = number of points added on the left / right by the doublings with
                                 directions vs, the first of which has depth j0
     span_from t vs            = (t - spanL 0 vs, t + spanR 0 vs), the index interval [lo, hi]
                                 covered after the doublings vs when starting at index t
     all_dirs j                = the list of all direction sequences of length j
     builds t B vs             = boolean test span_from t vs = B
     ileap v z                 = if v then z + 1 else z - 1, the index instance of `leap`.
   READING (the only place where probability enters): the directions are fair independent coin
   flips, so each of the 2^j sequences of length j has probability 2^-j; by (S4)/(S5) a trajectory
   B of 2^j points is therefore selected with the same probability 2^-j from each of its points.
   Only statements, `exact`, Print Assumptions. *)
From MiniMcmc Require Import Model.NUTSSym Proofs.NUTSSym.

Section C03_sym.
  Local Open Scope Z_scope.

  (* (S1) j doublings starting at depth j0 add 2^j0 + ... + 2^(j0+j-1) points in total; started at
     depth 0 from index t they cover exactly 2^j consecutive indices, t among them. *)
  Theorem C03_span_sum : forall j0 vs,
    spanL j0 vs + spanR j0 vs = 2 ^ Z.of_nat j0 * (2 ^ Z.of_nat (length vs) - 1).
  Proof. exact span_sum. Qed.

  Theorem C03_span_size : forall t vs,
    snd (span_from t vs) - fst (span_from t vs) + 1 = 2 ^ Z.of_nat (length vs) /\
    fst (span_from t vs) <= t <= snd (span_from t vs).
  Proof. exact span_size. Qed.

  (* (S2) the left extent lies in [0, 2^j) ... *)
  Theorem C03_spanL_range : forall vs, 0 <= spanL 0 vs < 2 ^ Z.of_nat (length vs).
  Proof. exact spanL_range. Qed.

  (* (S3) ... and every value of [0, 2^j) is the left extent of exactly one direction sequence of
     length j (binary digits); the same at any first depth j0, up to the factor 2^j0. *)
  Theorem C03_spanL_bijection :
    (forall j k, 0 <= k < 2 ^ Z.of_nat j -> exists vs, length vs = j /\ spanL 0 vs = k) /\
    (forall vs vs', length vs = length vs' -> spanL 0 vs = spanL 0 vs' -> vs = vs') /\
    (forall j0 vs, spanL j0 vs = 2 ^ Z.of_nat j0 * spanL 0 vs) /\
    (forall j0 vs, spanR j0 vs = 2 ^ Z.of_nat j0 * spanR 0 vs).
  Proof. exact (conj spanL_exists (conj spanL_inj (conj spanL_scale spanR_scale))). Qed.

  (* (S4) SYMMETRY: from every point t of the trajectory B built from index 0 by vs there is
     exactly one direction sequence of the same length that builds the same B. *)
  Theorem C03_tree_symmetry : forall vs t,
    let j := length vs in
    let B := span_from 0 vs in
    fst B <= t <= snd B ->
    exists! vs', length vs' = j /\ span_from t vs' = B.
  Proof. exact tree_symmetry. Qed.

  (* (S5) counting form: among the 2^j direction sequences of length j exactly one builds B
     from t. *)
  Theorem C03_tree_symmetry_count : forall vs t,
    let j := length vs in
    let B := span_from 0 vs in
    fst B <= t <= snd B ->
    length (filter (builds t B) (all_dirs j)) = 1%nat /\
    Z.of_nat (length (all_dirs j)) = 2 ^ Z.of_nat j.
  Proof. exact tree_symmetry_count. Qed.

  Theorem C03_all_dirs_spec : forall j,
    (forall vs, In vs (all_dirs j) <-> length vs = j) /\ NoDup (all_dirs j) /\
    (forall t B vs, builds t B vs = true <-> span_from t vs = B).
  Proof. exact (fun j => conj (in_all_dirs j) (conj (all_dirs_NoDup j) builds_spec)). Qed.
End C03_sym.

(* Link to the model: Model/NUTS.v at P := Z, leap := ileap, all other oracles arbitrary. *)
Section C03_sym_model.
  Local Open Scope Z_scope.
  Context {F A U : Type}.
  Variable joint : Z -> F.
  Variable noturn : Z -> Z -> bool.
  Variable flt : F -> F -> bool.
  Variable sub1000 : F -> F.
  Variable alpha1 : Z -> A.
  Variable aadd : A -> A -> A.
  Variable take2 : U -> nat -> nat -> bool.
  Variable logu : F.
  Variable accept_top : U -> nat -> nat -> bool.

  Notation doublings :=
    (doublings ileap joint noturn flt sub1000 alpha1 aadd take2 logu accept_top).
  Notation transition :=
    (transition ileap joint noturn flt sub1000 alpha1 aadd take2 logu accept_top).

  (* (S6) the doubling loop realises spanL / spanR.  Without any hypothesis: every recorded
     doubling but the last is complete, the last one adds tnalpha <= 2^depth points (exactly
     2^depth if it did not stop). *)
  Theorem C03_doublings_span_gen : forall fuel (st : @nst Z) dirs tus accs stf recs dr tr ar,
    doublings fuel st dirs tus accs = Some (stf, recs, dr, tr, ar) ->
    exists pre d, recs = pre ++ [d] /\
      (forall d', In d' pre -> ts (d_tree d') = true) /\
      (1 <= tnalpha (d_tree d) <= 2 ^ (depth st + length pre))%nat /\
      (ts (d_tree d) = true -> tnalpha (d_tree d) = (2 ^ (depth st + length pre))%nat) /\
      lo stf = lo st - spanL (depth st) (map d_dir pre)
               - (if d_dir d then 0 else Z.of_nat (tnalpha (d_tree d))) /\
      hi stf = hi st + spanR (depth st) (map d_dir pre)
               + (if d_dir d then Z.of_nat (tnalpha (d_tree d)) else 0).
  Proof.
    exact (doublings_span_gen joint noturn flt sub1000 alpha1 aadd take2 logu accept_top).
  Qed.

  (* If the last recorded sub-tree did not stop (the loop ended on the U-turn test of the whole
     trajectory), or a fortiori if no recorded sub-tree stopped: *)
  Theorem C03_doublings_span_last : forall fuel (st : @nst Z) dirs tus accs stf recs dr tr ar d0,
    doublings fuel st dirs tus accs = Some (stf, recs, dr, tr, ar) ->
    ts (d_tree (last recs d0)) = true ->
    lo stf = lo st - spanL (depth st) (map d_dir recs) /\
    hi stf = hi st + spanR (depth st) (map d_dir recs).
  Proof.
    exact (doublings_span_last joint noturn flt sub1000 alpha1 aadd take2 logu accept_top).
  Qed.

  Theorem C03_doublings_span : forall fuel (st : @nst Z) dirs tus accs stf recs dr tr ar,
    doublings fuel st dirs tus accs = Some (stf, recs, dr, tr, ar) ->
    (forall d, In d recs -> ts (d_tree d) = true) ->
    lo stf = lo st - spanL (depth st) (map d_dir recs) /\
    hi stf = hi st + spanR (depth st) (map d_dir recs).
  Proof.
    exact (doublings_span joint noturn flt sub1000 alpha1 aadd take2 logu accept_top).
  Qed.

  (* (S7) a transition started at index z0 (z0 = 0: the indexing of (S4)) *)
  Theorem C03_transition_span : forall fuel z0 dirs tus accs stf recs dr tr ar,
    transition fuel z0 dirs tus accs = Some (stf, recs, dr, tr, ar) ->
    (forall d, In d recs -> ts (d_tree d) = true) ->
    (lo stf, hi stf) = span_from z0 (map d_dir recs) /\
    depth stf = length (map d_dir recs).
  Proof.
    exact (transition_span joint noturn flt sub1000 alpha1 aadd take2 logu accept_top).
  Qed.

  Theorem C03_transition_span_0 : forall fuel dirs tus accs stf recs dr tr ar,
    transition fuel 0 dirs tus accs = Some (stf, recs, dr, tr, ar) ->
    (forall d, In d recs -> ts (d_tree d) = true) ->
    (lo stf, hi stf) = span_from 0 (map d_dir recs).
  Proof.
    exact (transition_span_0 joint noturn flt sub1000 alpha1 aadd take2 logu accept_top).
  Qed.

  (* (S8) end to end: the trajectory [lo, hi] the model built with no stopped sub-tree is built
     from each of its points t by exactly one of the 2^depth direction sequences. *)
  Theorem C03_transition_symmetry : forall fuel z0 dirs tus accs stf recs dr tr ar,
    transition fuel z0 dirs tus accs = Some (stf, recs, dr, tr, ar) ->
    (forall d, In d recs -> ts (d_tree d) = true) ->
    forall t, lo stf <= t <= hi stf ->
    (exists! vs', length vs' = depth stf /\ span_from t vs' = (lo stf, hi stf)) /\
    length (filter (builds t (lo stf, hi stf)) (all_dirs (depth stf))) = 1%nat /\
    Z.of_nat (length (all_dirs (depth stf))) = 2 ^ Z.of_nat (depth stf).
  Proof.
    exact (transition_symmetry joint noturn flt sub1000 alpha1 aadd take2 logu accept_top).
  Qed.
End C03_sym_model.

(* non-vacuity: forward, backward, backward from index 0 covers [-6, 1]; from its point -3 the
   one rebuilding sequence is backward, backward, forward; the model's loop produces exactly this
   trajectory (U-turn test: fewer than 8 points; nothing else stops). *)
Example C03_span_concrete : span_from 0%Z [true; false; false] = ((-6)%Z, 1%Z).
Proof. exact span_from_ex. Qed.

Example C03_tree_symmetry_concrete :
  span_from (-3)%Z [false; false; true] = span_from 0%Z [true; false; false] /\
  (forall vs', length vs' = 3 ->
     span_from (-3)%Z vs' = span_from 0%Z [true; false; false] -> vs' = [false; false; true]) /\
  length (filter (builds (-3)%Z (span_from 0%Z [true; false; false])) (all_dirs 3)) = 1 /\
  length (all_dirs 3) = 8.
Proof. exact tree_symmetry_ex. Qed.

Example C03_transition_span_concrete :
  match transition (F := unit) (A := unit) (U := unit)
          ileap (fun _ => tt) (fun l h => (h - l <? 7)%Z) (fun _ _ => true) (fun x => x)
          (fun _ => tt) (fun _ _ => tt) (fun _ _ _ => false) tt (fun _ _ _ => true)
          5 0%Z [true; false; false; true] (repeat tt 10) (repeat tt 5) with
  | Some (stf, recs, dr, _, _) =>
      (lo stf, hi stf) = ((-6)%Z, 1%Z) /\ map d_dir recs = [true; false; false] /\
      forallb (fun d => ts (d_tree d)) recs = true /\ dr = [true]
  | None => False
  end.
Proof. exact transition_span_ex. Qed.

Print Assumptions C03_span_sum.
Print Assumptions C03_span_size.
Print Assumptions C03_spanL_range.
Print Assumptions C03_spanL_bijection.
Print Assumptions C03_tree_symmetry.
Print Assumptions C03_tree_symmetry_count.
Print Assumptions C03_all_dirs_spec.
Print Assumptions C03_doublings_span_gen.
Print Assumptions C03_doublings_span_last.
Print Assumptions C03_doublings_span.
Print Assumptions C03_transition_span.
Print Assumptions C03_transition_span_0.
Print Assumptions C03_transition_symmetry.
Print Assumptions C03_span_concrete.
Print Assumptions C03_tree_symmetry_concrete.
Print Assumptions C03_transition_span_concrete.
