(* Link between the two instances of the generic numeric models:
   evaluating a model at [numQ] (exact rationals, normalised by [Qred]) and mapping the
   result to the reals with [Q2R] gives the [numR] model applied to the mapped inputs,
   provided no division by zero occurs (Q: x / 0 = 0; R: unspecified). *)
From MiniMcmc Require Import Base.Num Base.Util Model.Stats.
From Coq Require Import Qreals Lra Lia.
Close Scope Q_scope.
Close Scope R_scope.
Open Scope nat_scope.

(* the carriers [T numQ] / [T numR] appear as implicit arguments after unfolding a model;
   normalise them to [Q] / [R] so that rewriting and [lia] see one spelling *)
Ltac normT := change (T numQ) with Q in *; change (T numR) with R in *.

(* ------------------------------------------------------------------ (0) operations *)

Lemma q2r_red (q : Q) : Q2R (Qred q) = Q2R q.
Proof. apply Qeq_eqR. apply Qred_correct. Qed.

Lemma q2r_add (a b : Q) : Q2R (add numQ a b) = add numR (Q2R a) (Q2R b).
Proof. cbn [add numQ numR]. rewrite q2r_red. apply Q2R_plus. Qed.

Lemma q2r_sub (a b : Q) : Q2R (sub numQ a b) = sub numR (Q2R a) (Q2R b).
Proof. cbn [sub numQ numR]. rewrite q2r_red. apply Q2R_minus. Qed.

Lemma q2r_mul (a b : Q) : Q2R (mul numQ a b) = mul numR (Q2R a) (Q2R b).
Proof. cbn [mul numQ numR]. rewrite q2r_red. apply Q2R_mult. Qed.

Lemma q2r_div (a b : Q) : ~ (b == 0)%Q -> Q2R (div numQ a b) = div numR (Q2R a) (Q2R b).
Proof. intros Hb. cbn [div numQ numR]. rewrite q2r_red. apply Q2R_div. exact Hb. Qed.

Lemma q2r_ofZ (z : Z) : Q2R (ofZ numQ z) = ofZ numR z.
Proof. cbn [ofZ numQ numR]. unfold Q2R. cbn [Qnum Qden inject_Z]. rewrite Rinv_1. apply Rmult_1_r. Qed.

Lemma q2r_ofN (n : nat) : Q2R (ofN numQ n) = ofN numR n.
Proof. unfold ofN. apply q2r_ofZ. Qed.

Lemma ofN_nonzero (n : nat) : 0 < n -> ~ (ofN numQ n == 0)%Q.
Proof.
  intros Hn. unfold ofN. cbn [ofZ numQ]. unfold Qeq. cbn [Qnum Qden inject_Z]. lia.
Qed.

Lemma q2r_zero : Q2R (zero numQ) = zero numR.
Proof. cbn [zero numQ numR]. apply RMicromega.Q2R_0. Qed.

Lemma q2r_one : Q2R (one numQ) = one numR.
Proof. cbn [one numQ numR]. apply RMicromega.Q2R_1. Qed.

Lemma q2r_leb (a b : Q) : nleb numQ a b = nleb numR (Q2R a) (Q2R b).
Proof.
  cbn [nleb numQ numR].
  destruct (Rle_dec (Q2R a) (Q2R b)) as [Hle|Hnle].
  - apply Qle_bool_iff. apply Rle_Qle. exact Hle.
  - destruct (Qle_bool a b) eqn:E; [|reflexivity].
    exfalso. apply Hnle. apply Qle_Rle. apply Qle_bool_iff. exact E.
Qed.

Lemma q2r_ltb (a b : Q) : nltb numQ a b = nltb numR (Q2R a) (Q2R b).
Proof.
  cbn [nltb numQ numR].
  destruct (Rlt_dec (Q2R a) (Q2R b)) as [Hlt|Hnlt].
  - destruct (Qle_bool b a) eqn:E; [|reflexivity].
    exfalso. apply Qle_bool_iff in E. apply Qle_Rle in E. lra.
  - assert (Hle : Qle_bool b a = true).
    { apply Qle_bool_iff. apply Rle_Qle. lra. }
    rewrite Hle. reflexivity.
Qed.

(* ------------------------------------------------------------------ (1) sums, means *)

Lemma q2r_fold_add (l : list Q) : forall acc : Q,
  Q2R (fold_left (add numQ) l acc) = fold_left (add numR) (map Q2R l) (Q2R acc).
Proof.
  induction l as [|x l IH]; intros acc; cbn [fold_left map].
  - reflexivity.
  - rewrite IH. rewrite q2r_add. reflexivity.
Qed.

Lemma q2r_sumK (l : list Q) : Q2R (sumK numQ l) = sumK numR (map Q2R l).
Proof. unfold sumK. rewrite q2r_fold_add. rewrite q2r_zero. reflexivity. Qed.

Lemma q2r_meanK (l : list Q) : l <> [] -> Q2R (meanK numQ l) = meanK numR (map Q2R l).
Proof.
  intros Hl. unfold meanK.
  rewrite q2r_div.
  - rewrite q2r_sumK, q2r_ofN, map_length. reflexivity.
  - apply ofN_nonzero. destruct l as [|x l]; [congruence|cbn [length]; lia].
Qed.

Lemma q2r_sqK (x : Q) : Q2R (sqK numQ x) = sqK numR (Q2R x).
Proof. unfold sqK. apply q2r_mul. Qed.

(* pointwise commutation lifted to maps and sums *)
Lemma q2r_map_map {A : Type} (f : A -> Q) (g : A -> R) (l : list A) :
  (forall x, In x l -> Q2R (f x) = g x) -> map Q2R (map f l) = map g l.
Proof. intros H. rewrite map_map. apply map_ext_in. exact H. Qed.

Lemma q2r_map_comm (f : Q -> Q) (g : R -> R) (l : list Q) :
  (forall x, In x l -> Q2R (f x) = g (Q2R x)) -> map Q2R (map f l) = map g (map Q2R l).
Proof. intros H. rewrite !map_map. apply map_ext_in. exact H. Qed.

Lemma q2r_sumK_map (f : Q -> Q) (g : R -> R) (l : list Q) :
  (forall x, In x l -> Q2R (f x) = g (Q2R x)) ->
  Q2R (sumK numQ (map f l)) = sumK numR (map g (map Q2R l)).
Proof. intros H. rewrite q2r_sumK. f_equal. apply q2r_map_comm. exact H. Qed.

(* ------------------------------------------------------------------ (2) trackers *)

Definition trel (tq : trk numQ) (tr : trk numR) : Prop :=
  t_n numQ tq = t_n numR tr /\
  Q2R (t_mean numQ tq) = t_mean numR tr /\
  Q2R (t_msq numQ tq) = t_msq numR tr.

Lemma trel_step (tq : trk numQ) (tr : trk numR) (x : Q) :
  trel tq tr -> trel (trk_step numQ tq x) (trk_step numR tr (Q2R x)).
Proof.
  intros [Hn [Hm Hs]]. unfold trel, trk_step. cbn [t_n t_mean t_msq].
  rewrite <- Hn, <- Hm, <- Hs.
  assert (Hnz : ~ (ofN numQ (S (t_n numQ tq)) == 0)%Q) by (apply ofN_nonzero; lia).
  split; [reflexivity|]. split.
  - rewrite q2r_div by exact Hnz. rewrite q2r_add, q2r_mul, !q2r_ofN. reflexivity.
  - destruct (Nat.eqb (S (t_n numQ tq)) 1).
    + apply q2r_sqK.
    + rewrite q2r_div by exact Hnz. rewrite q2r_add, q2r_mul, q2r_sqK, !q2r_ofN. reflexivity.
Qed.

Lemma trel_fold (xs : list Q) : forall (tq : trk numQ) (tr : trk numR),
  trel tq tr ->
  trel (fold_left (trk_step numQ) xs tq) (fold_left (trk_step numR) (map Q2R xs) tr).
Proof.
  induction xs as [|x xs IH]; intros tq tr H; cbn [fold_left map].
  - exact H.
  - apply IH. apply trel_step. exact H.
Qed.

Lemma trel0 : trel (trk0 numQ) (trk0 numR).
Proof. unfold trel, trk0. cbn [t_n t_mean t_msq]. rewrite q2r_zero. auto. Qed.

Lemma q2r_trk_run : forall xs : list Q,
  Q2R (t_mean numQ (trk_run numQ xs)) = t_mean numR (trk_run numR (map Q2R xs)) /\
  Q2R (t_msq numQ (trk_run numQ xs)) = t_msq numR (trk_run numR (map Q2R xs)) /\
  t_n numQ (trk_run numQ xs) = t_n numR (trk_run numR (map Q2R xs)).
Proof.
  intros xs. unfold trk_run.
  destruct (trel_fold xs _ _ trel0) as [Hn [Hm Hs]]. auto.
Qed.

Lemma trk_fold_n (K : Num) (xs : list K) : forall t : trk K,
  t_n K (fold_left (trk_step K) xs t) = t_n K t + length xs.
Proof.
  induction xs as [|x xs IH]; intros t; cbn [fold_left length].
  - lia.
  - rewrite IH. unfold trk_step. cbn [t_n]. lia.
Qed.

Lemma trk_run_n (K : Num) (xs : list K) : t_n K (trk_run K xs) = length xs.
Proof. unfold trk_run. rewrite trk_fold_n. reflexivity. Qed.

(* trk_sm2 commutes on related trackers with n >= 2 *)
Lemma q2r_trk_sm2_rel (tq : trk numQ) (tr : trk numR) :
  trel tq tr -> 2 <= t_n numQ tq -> Q2R (trk_sm2 numQ tq) = trk_sm2 numR tr.
Proof.
  intros [Hn [Hm Hs]] H2. unfold trk_sm2. rewrite <- Hn, <- Hm, <- Hs.
  rewrite q2r_div by (apply ofN_nonzero; lia).
  rewrite q2r_mul, q2r_sub, q2r_sqK, !q2r_ofN. reflexivity.
Qed.

Lemma q2r_trk_sm2 (xs : list Q) : 2 <= length xs ->
  Q2R (trk_sm2 numQ (trk_run numQ xs)) = trk_sm2 numR (trk_run numR (map Q2R xs)).
Proof.
  intros H2. apply q2r_trk_sm2_rel.
  - unfold trk_run. apply trel_fold. apply trel0.
  - rewrite trk_run_n. exact H2.
Qed.

(* ------------------------------------------------------------------ (3) split R-hat *)

Lemma q2r_var_n (xs : list Q) : xs <> [] -> Q2R (var_n numQ xs) = var_n numR (map Q2R xs).
Proof.
  intros Hx. unfold var_n.
  rewrite q2r_div.
  - rewrite q2r_ofN, map_length. f_equal.
    rewrite <- (q2r_meanK xs Hx).
    apply q2r_sumK_map. intros x _. rewrite q2r_sqK, q2r_sub. reflexivity.
  - apply ofN_nonzero. destruct xs as [|x xs]; [congruence|cbn [length]; lia].
Qed.

Lemma hdlen_map (hs : list (list Q)) :
  match map (map Q2R) hs with x :: _ => length x | [] => 0 end =
  match hs with x :: _ => length x | [] => 0 end.
Proof. destruct hs as [|h hs]; cbn [map]; [reflexivity|apply map_length]. Qed.

Lemma hdlen_eq {A : Type} (hs : list (list A)) (n : nat) :
  hs <> [] -> (forall h, In h hs -> length h = n) ->
  match hs with x :: _ => length x | [] => 0 end = n.
Proof.
  intros Hne Hall. destruct hs as [|h hs]; [congruence|]. apply Hall. left. reflexivity.
Qed.

Lemma len_pos_nonnil {A : Type} (l : list A) : 1 <= length l -> l <> [].
Proof. destruct l; cbn [length]; [lia|congruence]. Qed.

Lemma map_nonnil {A B : Type} (f : A -> B) (l : list A) : 1 <= length l -> map f l <> [].
Proof. intros H. apply len_pos_nonnil. rewrite map_length. exact H. Qed.

Lemma q2r_means (hs : list (list Q)) :
  (forall h, In h hs -> h <> []) ->
  map Q2R (map (meanK numQ) hs) = map (meanK numR) (map (map Q2R) hs).
Proof.
  intros H. rewrite !map_map. apply map_ext_in. intros h Hh. apply q2r_meanK. apply H. exact Hh.
Qed.

Lemma q2r_vars (hs : list (list Q)) :
  (forall h, In h hs -> h <> []) ->
  map Q2R (map (var_n numQ) hs) = map (var_n numR) (map (map Q2R) hs).
Proof.
  intros H. rewrite !map_map. apply map_ext_in. intros h Hh. apply q2r_var_n. apply H. exact Hh.
Qed.

Lemma q2r_withinvar : forall (hs : list (list Q)) (n : nat),
  2 <= length hs -> 1 <= n -> (forall h, In h hs -> length h = n) ->
  let r := withinvar numR (map (map Q2R) hs) in
  Q2R (fst (withinvar numQ hs)) = fst r /\ Q2R (snd (withinvar numQ hs)) = snd r.
Proof.
  intros hs n Hc Hn Hall r. subst r.
  assert (Hne : hs <> []) by (apply len_pos_nonnil; lia).
  assert (Hnn : forall h, In h hs -> h <> []).
  { intros h Hh. apply len_pos_nonnil. rewrite (Hall h Hh). exact Hn. }
  unfold withinvar. cbn [fst snd]. normT.
  rewrite hdlen_map. rewrite (hdlen_eq hs n Hne Hall). rewrite !map_length.
  assert (Hmeans : map (meanK numQ) hs <> []).
  { apply map_nonnil. normT. lia. }
  assert (Hvars : map (var_n numQ) hs <> []).
  { apply map_nonnil. normT. lia. }
  assert (HW : Q2R (meanK numQ (map (var_n numQ) hs)) =
               meanK numR (map (var_n numR) (map (map Q2R) hs))).
  { rewrite (q2r_meanK _ Hvars). rewrite (q2r_vars hs Hnn). reflexivity. }
  assert (HnQ : ~ (ofN numQ n == 0)%Q) by (apply ofN_nonzero; lia).
  assert (HcQ : ~ (ofN numQ (length hs - 1) == 0)%Q) by (apply ofN_nonzero; lia).
  normT. split; [exact HW|].
  rewrite q2r_add, q2r_mul. rewrite !(q2r_div _ _ HnQ). rewrite q2r_sub, q2r_one, HW.
  rewrite q2r_mul. rewrite (q2r_div _ _ HcQ). rewrite !q2r_ofN.
  f_equal. f_equal. f_equal.
  pose proof (q2r_means hs Hnn) as Hm. pose proof (q2r_meanK _ Hmeans) as Hmm. normT.
  rewrite <- Hm. rewrite <- Hmm.
  apply q2r_sumK_map. intros x _. rewrite q2r_sqK, q2r_sub. reflexivity.
Qed.

Lemma q2r_split_halves (cs : list (list Q)) :
  map (map Q2R) (split_halves numQ cs) = split_halves numR (map (map Q2R) cs).
Proof.
  unfold split_halves. normT. rewrite hdlen_map. rewrite map_app, !map_map. normT. f_equal.
  - apply map_ext. intros c. symmetry. apply firstn_map.
  - apply map_ext. intros c. symmetry. apply skipn_map.
Qed.

(* shape of the split: 2 * m half-chains, each of length n / 2 *)
Lemma split_halves_length (K : Num) (cs : list (list K)) :
  length (split_halves K cs) = 2 * length cs.
Proof. unfold split_halves. rewrite app_length, !map_length. lia. Qed.

Lemma split_halves_lengths (K : Num) (cs : list (list K)) (n : nat) :
  cs <> [] -> (forall c, In c cs -> length c = n) ->
  forall h, In h (split_halves K cs) -> length h = n / 2.
Proof.
  intros Hne Hall h Hh. unfold split_halves in Hh.
  rewrite (hdlen_eq cs n Hne Hall) in Hh.
  assert (Hle : n / 2 <= n) by (apply Nat.div_le_upper_bound; lia).
  apply in_app_or in Hh. destruct Hh as [Hh|Hh]; apply in_map_iff in Hh;
    destruct Hh as [c [Hc Hin]]; subst h.
  - apply firstn_length_le. rewrite (Hall c Hin). exact Hle.
  - rewrite skipn_length. rewrite (Hall c Hin). lia.
Qed.

(* stated with the weaker (hence more general) side condition 1 <= n / 2 *)
Lemma q2r_split_rhat2 (cs : list (list Q)) (n : nat) :
  cs <> [] -> (forall c, In c cs -> length c = n) -> 1 <= n / 2 ->
  ~ (fst (withinvar numQ (split_halves numQ cs)) == 0)%Q ->
  Q2R (split_rhat2 numQ cs) = split_rhat2 numR (map (map Q2R) cs).
Proof.
  intros Hne Hall Hn HW. unfold split_rhat2.
  rewrite (q2r_div _ _ HW). rewrite <- q2r_split_halves.
  assert (Hlen : 2 <= length (split_halves numQ cs)).
  { rewrite split_halves_length. destruct cs as [|c cs]; [congruence|cbn [length]; lia]. }
  destruct (q2r_withinvar (split_halves numQ cs) (n / 2) Hlen Hn
              (split_halves_lengths numQ cs n Hne Hall)) as [H1 H2].
  rewrite H1, H2. reflexivity.
Qed.

(* ------------------------------------------------------------------ (4) ESS *)

Lemma q2r_dot (a : list Q) : forall b : list Q,
  Q2R (dot numQ a b) = dot numR (map Q2R a) (map Q2R b).
Proof.
  induction a as [|x a IH]; intros [|y b]; cbn [dot map]; try apply q2r_zero.
  rewrite q2r_add, q2r_mul, IH. reflexivity.
Qed.

Lemma q2r_autocov (xs : list Q) : xs <> [] ->
  map Q2R (autocov numQ xs) = autocov numR (map Q2R xs).
Proof.
  intros Hx. unfold autocov. rewrite map_length, map_map.
  apply map_ext. intros t.
  rewrite q2r_div.
  - rewrite q2r_ofN, q2r_dot. rewrite <- skipn_map.
    rewrite <- (q2r_meanK xs Hx).
    assert (Hcs : map Q2R (map (fun x => sub numQ x (meanK numQ xs)) xs) =
                  map (fun x => sub numR x (Q2R (meanK numQ xs))) (map Q2R xs)).
    { apply q2r_map_comm. intros x _. apply q2r_sub. }
    normT. rewrite Hcs. reflexivity.
  - apply ofN_nonzero. destruct xs as [|x xs]; [congruence|cbn [length]; lia].
Qed.

Lemma q2r_geyer (fuel : nat) : forall (rho : list Q) (mn out : Q),
  Q2R (geyer numQ fuel rho mn out) = geyer numR fuel (map Q2R rho) (Q2R mn) (Q2R out).
Proof.
  induction fuel as [|f IH]; intros rho mn out.
  - destruct rho as [|r0 [|r1 rest]]; reflexivity.
  - destruct rho as [|r0 [|r1 rest]]; cbn [geyer map]; try reflexivity.
    rewrite <- !q2r_add. rewrite <- q2r_zero. rewrite <- q2r_leb.
    destruct (nleb numQ (add numQ r0 r1) (zero numQ)); [reflexivity|].
    rewrite <- q2r_ltb.
    destruct (nltb numQ mn (add numQ r0 r1)).
    + rewrite IH. rewrite !q2r_add. reflexivity.
    + rewrite IH. rewrite !q2r_add. reflexivity.
Qed.

Lemma q2r_mn0 (rho : list Q) :
  Q2R (match rho with r0 :: r1 :: _ => add numQ r0 r1 | _ => zero numQ end) =
  match map Q2R rho with r0 :: r1 :: _ => add numR r0 r1 | _ => zero numR end.
Proof.
  destruct rho as [|r0 [|r1 rest]]; cbn [map]; try apply q2r_zero. apply q2r_add.
Qed.

Lemma q2r_tau_of_rho (rho : list Q) :
  Q2R (tau_of_rho numQ rho) = tau_of_rho numR (map Q2R rho).
Proof.
  unfold tau_of_rho.
  rewrite q2r_sub, q2r_mul, q2r_geyer, q2r_mn0, q2r_zero, q2r_one, q2r_ofN, map_length.
  reflexivity.
Qed.

Lemma q2r_ess_tau (hs : list (list Q)) (n : nat) :
  2 <= length hs -> 1 <= n -> (forall h, In h hs -> length h = n) ->
  ~ (snd (withinvar numQ hs) == 0)%Q ->
  Q2R (ess_tau numQ hs) = ess_tau numR (map (map Q2R) hs).
Proof.
  intros Hc Hn Hall HV.
  assert (Hne : hs <> []) by (apply len_pos_nonnil; lia).
  assert (Hnn : forall h, In h hs -> h <> []).
  { intros h Hh. apply len_pos_nonnil. rewrite (Hall h Hh). exact Hn. }
  destruct (q2r_withinvar hs n Hc Hn Hall) as [HW HVr].
  unfold ess_tau. rewrite q2r_tau_of_rho. f_equal.
  rewrite <- HW, <- HVr. rewrite hdlen_map.
  rewrite !map_map. apply map_ext. intros t.
  rewrite q2r_sub, q2r_one. rewrite (q2r_div _ _ HV). rewrite q2r_sub.
  f_equal. f_equal. f_equal.
  rewrite q2r_meanK.
  - f_equal. rewrite !map_map. apply map_ext_in. intros h Hh.
    rewrite <- (q2r_autocov h (Hnn h Hh)). rewrite <- q2r_zero. symmetry. apply map_nth.
  - apply len_pos_nonnil. rewrite !map_length. normT. lia.
Qed.

(* ------------------------------------------------------------------ (5) streaming / batch R-hat *)

(* the shared "between" sum: sum_mu (mu - mean(means))^2 *)
Lemma q2r_between (means : list Q) : means <> [] ->
  Q2R (sumK numQ (map (fun mu => sqK numQ (sub numQ mu (meanK numQ means))) means)) =
  sumK numR (map (fun mu => sqK numR (sub numR mu (meanK numR (map Q2R means)))) (map Q2R means)).
Proof.
  intros Hm. rewrite <- (q2r_meanK means Hm).
  apply q2r_sumK_map. intros x _. rewrite q2r_sqK, q2r_sub. reflexivity.
Qed.

Definition stmap (s : nat * Q * Q) : nat * R * R :=
  (fst (fst s), Q2R (snd (fst s)), Q2R (snd s)).

Lemma q2r_collect_rhat2 (st : list (nat * Q * Q)) :
  2 <= length st ->
  ~ (meanK numQ (map snd st) == 0)%Q ->
  ~ (div numQ (sumK numQ (map (fun s => ofN numQ (fst (fst s))) st)) (ofN numQ (length st)) == 0)%Q ->
  Q2R (collect_rhat2 numQ st) = collect_rhat2 numR (map stmap st).
Proof.
  intros Hm HW HN.
  assert (Hmeans : map (fun s : nat * Q * Q => snd (fst s)) st <> []) by (apply map_nonnil; lia).
  assert (Hsm2 : map (@snd (nat * Q) Q) st <> []) by (apply map_nonnil; lia).
  assert (HmQ : ~ (ofN numQ (length st) == 0)%Q) by (apply ofN_nonzero; lia).
  assert (Hm1Q : ~ (ofN numQ (length st - 1) == 0)%Q) by (apply ofN_nonzero; lia).
  assert (E1 : map (fun s : nat * R * R => snd (fst s)) (map stmap st) =
               map Q2R (map (fun s : nat * Q * Q => snd (fst s)) st)).
  { rewrite !map_map. apply map_ext. intros s. reflexivity. }
  assert (E2 : map (@snd (nat * R) R) (map stmap st) =
               map Q2R (map (@snd (nat * Q) Q) st)).
  { rewrite !map_map. apply map_ext. intros s. reflexivity. }
  assert (E3 : Q2R (sumK numQ (map (fun s : nat * Q * Q => ofN numQ (fst (fst s))) st)) =
               sumK numR (map (fun s : nat * R * R => ofN numR (fst (fst s))) (map stmap st))).
  { rewrite q2r_sumK. f_equal. rewrite !map_map. apply map_ext. intros s.
    unfold stmap. cbn [fst snd]. apply q2r_ofN. }
  assert (EW : Q2R (meanK numQ (map (@snd (nat * Q) Q) st)) =
               meanK numR (map (@snd (nat * R) R) (map stmap st))).
  { rewrite (q2r_meanK _ Hsm2). rewrite E2. reflexivity. }
  assert (EN : Q2R (div numQ (sumK numQ (map (fun s : nat * Q * Q => ofN numQ (fst (fst s))) st))
                             (ofN numQ (length st))) =
               div numR (sumK numR (map (fun s : nat * R * R => ofN numR (fst (fst s))) (map stmap st)))
                        (ofN numR (length st))).
  { rewrite (q2r_div _ _ HmQ). rewrite E3, q2r_ofN. reflexivity. }
  pose proof (q2r_between _ Hmeans) as EB.
  unfold collect_rhat2.
  normT. rewrite map_length.
  rewrite (q2r_div _ _ HW). rewrite q2r_add, q2r_mul. rewrite (q2r_div _ _ HN).
  rewrite q2r_sub, q2r_one. rewrite (q2r_div _ _ Hm1Q). rewrite q2r_ofN.
  rewrite EN, EW, EB, E1. reflexivity.
Qed.

(* the divisor n of collect_rhat2 is non-zero as soon as every chain has taken a step *)
Lemma fold_add_ge (l : list R) : (forall x, In x l -> (0 < x)%R) ->
  forall acc : R, (acc <= fold_left (add numR) l acc)%R.
Proof.
  induction l as [|x l IH]; intros Hpos acc; cbn [fold_left].
  - apply Rle_refl.
  - assert (Hx : (0 < x)%R) by (apply Hpos; left; reflexivity).
    assert (Hl : forall y, In y l -> (0 < y)%R) by (intros y Hy; apply Hpos; right; exact Hy).
    pose proof (IH Hl (add numR acc x)) as H. cbn [add numR] in *. lra.
Qed.

Lemma collect_n_nonzero (st : list (nat * Q * Q)) :
  st <> [] -> (forall s, In s st -> 0 < fst (fst s)) ->
  ~ (div numQ (sumK numQ (map (fun s => ofN numQ (fst (fst s))) st)) (ofN numQ (length st)) == 0)%Q.
Proof.
  intros Hne Hpos Hz.
  assert (HmQ : ~ (ofN numQ (length st) == 0)%Q).
  { apply ofN_nonzero. destruct st; [congruence|cbn [length]; lia]. }
  apply Qeq_eqR in Hz. rewrite (q2r_div _ _ HmQ) in Hz. rewrite RMicromega.Q2R_0 in Hz.
  rewrite q2r_sumK, map_map, q2r_ofN in Hz.
  assert (Hm : (0 < ofN numR (length st))%R).
  { unfold ofN. cbn [ofZ numR]. apply IZR_lt. destruct st; [congruence|cbn [length]; lia]. }
  assert (Hs : (0 < sumK numR (map (fun s : nat * Q * Q => Q2R (ofN numQ (fst (fst s)))) st))%R).
  { unfold sumK. destruct st as [|s st]; [congruence|]. cbn [map fold_left].
    assert (Hs0 : (0 < Q2R (ofN numQ (fst (fst s))))%R).
    { rewrite q2r_ofN. unfold ofN. cbn [ofZ numR]. apply IZR_lt.
      pose proof (Hpos s (or_introl eq_refl)). lia. }
    eapply Rlt_le_trans; [|apply fold_add_ge].
    - cbn [add zero numR]. lra.
    - intros x Hx. apply in_map_iff in Hx. destruct Hx as [s' [Hs' Hin]]. subst x.
      rewrite q2r_ofN. unfold ofN. cbn [ofZ numR]. apply IZR_lt.
      pose proof (Hpos s' (or_intror Hin)). lia. }
  cbn [div numR] in Hz. unfold Rdiv in Hz.
  apply Rmult_integral in Hz. destruct Hz as [Hz|Hz].
  - normT. lra.
  - pose proof (Rinv_0_lt_compat _ Hm). lra.
Qed.

(* MultiChainTracker::rhat *)
Definition trmap (t : trk numQ) : trk numR :=
  Build_trk numR (t_n numQ t) (Q2R (t_mean numQ t)) (Q2R (t_msq numQ t)).

Lemma trel_trmap (t : trk numQ) : trel t (trmap t).
Proof. unfold trel, trmap. cbn [t_n t_mean t_msq]. auto. Qed.

Lemma q2r_multi_rhat2 (ts : list (trk numQ)) :
  2 <= length ts ->
  (forall t, In t ts -> 2 <= t_n numQ t) ->
  ~ (meanK numQ (map (trk_sm2 numQ) ts) == 0)%Q ->
  Q2R (multi_rhat2 numQ ts) = multi_rhat2 numR (map trmap ts).
Proof.
  intros Hm Hn HW.
  set (n := match ts with t :: _ => t_n numQ t | [] => 0 end).
  assert (En : match map trmap ts with t :: _ => t_n numR t | [] => 0 end = n).
  { subst n. destruct ts as [|t ts]; reflexivity. }
  assert (Hn2 : 2 <= n).
  { subst n. destruct ts as [|t ts]; [cbn [length] in Hm; lia|]. apply Hn. left. reflexivity. }
  assert (Hmeans : map (t_mean numQ) ts <> []) by (apply map_nonnil; lia).
  assert (Hsm2 : map (trk_sm2 numQ) ts <> []) by (apply map_nonnil; lia).
  assert (HnQ : ~ (ofN numQ n == 0)%Q) by (apply ofN_nonzero; lia).
  assert (Hm1Q : ~ (ofN numQ (length ts - 1) == 0)%Q) by (apply ofN_nonzero; lia).
  assert (E1 : map (t_mean numR) (map trmap ts) = map Q2R (map (t_mean numQ) ts)).
  { rewrite !map_map. apply map_ext. intros t. reflexivity. }
  assert (E2 : map (trk_sm2 numR) (map trmap ts) = map Q2R (map (trk_sm2 numQ) ts)).
  { rewrite !map_map. apply map_ext_in. intros t Ht. symmetry.
    apply q2r_trk_sm2_rel; [apply trel_trmap|apply Hn; exact Ht]. }
  assert (EW : Q2R (meanK numQ (map (trk_sm2 numQ) ts)) =
               meanK numR (map (trk_sm2 numR) (map trmap ts))).
  { rewrite (q2r_meanK _ Hsm2). rewrite E2. reflexivity. }
  pose proof (q2r_between _ Hmeans) as EB.
  unfold multi_rhat2. fold n. rewrite En. normT. rewrite map_length.
  rewrite (q2r_div _ _ HW). rewrite q2r_add, !q2r_mul. rewrite !(q2r_div _ _ HnQ).
  rewrite (q2r_div _ _ Hm1Q). rewrite q2r_one, !q2r_ofN.
  rewrite EW, EB, E1. reflexivity.
Qed.

(* batch (non-split) R-hat *)
Lemma q2r_bmean (xs : list Q) : xs <> [] -> Q2R (bmean numQ xs) = bmean numR (map Q2R xs).
Proof. unfold bmean. apply q2r_meanK. Qed.

Lemma q2r_bvar_unbiased (xs : list Q) : 2 <= length xs ->
  Q2R (bvar_unbiased numQ xs) = bvar_unbiased numR (map Q2R xs).
Proof.
  intros H2. assert (Hx : xs <> []) by (apply len_pos_nonnil; lia).
  unfold bvar_unbiased, bmean.
  rewrite q2r_div by (apply ofN_nonzero; normT; lia).
  rewrite q2r_ofN, map_length. f_equal. apply (q2r_between xs Hx).
Qed.

Lemma q2r_batch_rhat2 (cs : list (list Q)) :
  2 <= length cs ->
  (forall c, In c cs -> 2 <= length c) ->
  ~ (meanK numQ (map (bvar_unbiased numQ) cs) == 0)%Q ->
  Q2R (batch_rhat2 numQ cs) = batch_rhat2 numR (map (map Q2R) cs).
Proof.
  intros Hm Hn HW.
  set (n := match cs with c :: _ => length c | [] => 0 end).
  assert (Hn2 : 2 <= n).
  { subst n. destruct cs as [|c cs]; [cbn [length] in Hm; lia|]. apply Hn. left. reflexivity. }
  assert (Hnn : forall c, In c cs -> c <> []).
  { intros c Hc. apply len_pos_nonnil. pose proof (Hn c Hc). lia. }
  assert (Hmeans : map (bmean numQ) cs <> []) by (apply map_nonnil; normT; lia).
  assert (Hvars : map (bvar_unbiased numQ) cs <> []) by (apply map_nonnil; normT; lia).
  assert (HnQ : ~ (ofN numQ n == 0)%Q) by (apply ofN_nonzero; lia).
  assert (Hm1Q : ~ (ofN numQ (length cs - 1) == 0)%Q) by (apply ofN_nonzero; lia).
  assert (E1 : map (bmean numR) (map (map Q2R) cs) = map Q2R (map (bmean numQ) cs)).
  { rewrite !map_map. apply map_ext_in. intros c Hc. symmetry. apply q2r_bmean. apply Hnn. exact Hc. }
  assert (E2 : map (bvar_unbiased numR) (map (map Q2R) cs) = map Q2R (map (bvar_unbiased numQ) cs)).
  { rewrite !map_map. apply map_ext_in. intros c Hc. symmetry. apply q2r_bvar_unbiased. apply Hn. exact Hc. }
  assert (EW : Q2R (meanK numQ (map (bvar_unbiased numQ) cs)) =
               meanK numR (map (bvar_unbiased numR) (map (map Q2R) cs))).
  { rewrite (q2r_meanK _ Hvars). rewrite E2. reflexivity. }
  pose proof (q2r_between _ Hmeans) as EB.
  unfold batch_rhat2. normT. rewrite hdlen_map. fold n. rewrite map_length.
  rewrite (q2r_div _ _ HW). rewrite q2r_add, q2r_mul. rewrite (q2r_div _ _ HnQ).
  rewrite (q2r_div _ _ Hm1Q). rewrite !q2r_ofN.
  rewrite EW, EB, E1. reflexivity.
Qed.
