(* Probabilistic reading of a Gibbs step on a finite state space (exact, over R).
   A step refreshes the coordinates 0, 1, ..., d-1 in order, each from its exact full
   conditional given the *current* values of all other coordinates (that order/freshness is
   what Properties/C05.v proves about the code's sweep, Model/Gibbs.v).  Here: kernels,
   invariance, composition, the full-conditional kernel of a block function, the sweep as
   the in-order composition of the coordinate kernels, and the product-space instance. *)
From Coq Require Export Reals List.
From MiniMcmc Require Export Base.Util.
(* Model.MH is only Imported (not re-exported): it opens R_scope at top level, which must
   not leak into the property files that import this one.  sumR is MH.sumR:
     sumR f l = fold_right (fun x acc => f x + acc) 0 l. *)
From MiniMcmc Require Import Model.MH.
Local Open Scope R_scope.

Section GibbsDist.
  Context {X B : Type}.
  Variable states : list X.                 (* the finite state space *)
  Variable pi : X -> R.                     (* joint distribution (unnormalised weights >= 0) *)
  Variable eqbB : B -> B -> bool.

  (* K x x' = probability of moving from x to x' *)
  Definition kernel : Type := X -> X -> R.

  Definition invariant (K : kernel) : Prop :=
    forall x', In x' states -> sumR (fun x => pi x * K x x') states = pi x'.

  Definition stochastic (K : kernel) : Prop :=
    forall x, In x states -> sumR (K x) states = 1.

  Definition compose (K1 K2 : kernel) : kernel :=
    fun x z => sumR (fun y => K1 x y * K2 y z) states.

  (* blk x = the part of x that the update keeps (for coordinate i: all coordinates but i).
     The exact full conditional given blk x: pi restricted to the block of x, normalised. *)
  Variable blk : X -> B.

  Definition block_mass (b : B) : R :=
    sumR (fun x => if eqbB (blk x) b then pi x else 0) states.

  Definition cond_kernel : kernel :=
    fun x x' => if eqbB (blk x') (blk x) then pi x' / block_mass (blk x) else 0.
End GibbsDist.

(* identity kernel *)
Definition id_kernel {X} (eqbX : X -> X -> bool) : kernel :=
  fun x y => if eqbX x y then 1 else 0.

(* a sweep is the composition, in order, of the coordinate kernels *)
Fixpoint compose_all {X} (states : list X) (Ks : list (X -> X -> R)) (id : X -> X -> R)
  : X -> X -> R :=
  match Ks with
  | [] => id
  | K :: r => compose states K (compose_all states r id)
  end.

(* ---- product spaces: X = B = list V; the block of coordinate i erases coordinate i ---- *)
Definition blk_coord {V} (dflt : V) (i : nat) (x : list V) : list V := upd i dflt x.

Fixpoint list_eqb {A} (eqbA : A -> A -> bool) (l1 l2 : list A) : bool :=
  match l1, l2 with
  | [], [] => true
  | a :: t1, b :: t2 => eqbA a b && list_eqb eqbA t1 t2
  | _, _ => false
  end.

(* the Gibbs sweep kernel over coordinates 0..d-1 *)
Definition gibbs_kernel {V} (eqbV : V -> V -> bool) (dflt : V) (states : list (list V))
    (pi : list V -> R) (d : nat) : list V -> list V -> R :=
  compose_all states
    (map (fun i => cond_kernel states pi (list_eqb eqbV) (blk_coord dflt i)) (seq 0 d))
    (id_kernel (list_eqb eqbV)).

(* ---- the WRONG variant, two coordinates: both coordinates are refreshed from conditionals
   evaluated at the OLD state x: x'_0 ~ pi(. | x_1) and x'_1 ~ pi(. | x_0) independently ---- *)
Definition stale_kernel {V} (eqbV : V -> V -> bool) (dflt : V) (states : list (list V))
    (pi : list V -> R) : list V -> list V -> R :=
  fun x x' =>
    cond_kernel states pi (list_eqb eqbV) (blk_coord dflt 0) x (upd 0 (nth 0 x' dflt) x)
    * cond_kernel states pi (list_eqb eqbV) (blk_coord dflt 1) x (upd 1 (nth 1 x' dflt) x).

(* the 2 x 2 example space with a correlated joint: weights 4,1,1,4 *)
Definition ex_states : list (list nat) := [[0;0]; [0;1]; [1;0]; [1;1]]%nat.
Definition ex_pi (x : list nat) : R :=
  if Nat.eqb (nth 0 x 0%nat) (nth 1 x 0%nat) then 4 else 1.
