(* Model of metropolis_hastings.rs MHMarkovChain::step (decision layer, IEEE arithmetic):
     let log_accept_ratio = (proposed_lp + log_q_backward) - (current_lp + log_q_forward);
     let u: F = rng.random();  if log_accept_ratio > u.ln() { current = proposed }          *)
From MiniMcmc Require Export Base.Fp.

Section MH.
  Variables prec emax : Z.
  Context (Hprec : FLX.Prec_gt_0 prec) (Hmax : BinarySingleNaN.Prec_lt_emax prec emax).
  Notation fl := (binary_float prec emax).
  Variable nanf : fl -> fl -> { x : fl | Binary.is_nan prec emax x = true }.

  (* lp_x = log p(x), lp_y = log p(y), lq_xy = log q(y|x) (forward), lq_yx = log q(x|y) (backward) *)
  Definition mh_ratio (lp_x lp_y lq_xy lq_yx : fl) : fl :=
    fminus nanf (fplus nanf lp_y lq_yx) (fplus nanf lp_x lq_xy).

  Definition mh_accept (lp_x lp_y lq_xy lq_yx lnu : fl) : bool :=
    fgt (mh_ratio lp_x lp_y lq_xy lq_yx) lnu.

  Definition mh_step {St : Type} (x y : St) (lp_x lp_y lq_xy lq_yx lnu : fl) : St :=
    if mh_accept lp_x lp_y lq_xy lq_yx lnu then y else x.
End MH.

Arguments mh_ratio {prec emax Hprec Hmax}.
Arguments mh_accept {prec emax Hprec Hmax}.
Arguments mh_step {prec emax Hprec Hmax} nanf {St}.

(* instances on bit patterns *)
Definition mh_accept32 (lp_x lp_y lq_xy lq_yx lnu : Z) : list Z :=
  [b2z (mh_accept binop_nan_pl32 (b32_of_bits lp_x) (b32_of_bits lp_y) (b32_of_bits lq_xy)
                  (b32_of_bits lq_yx) (b32_of_bits lnu))].
Definition mh_accept64 (lp_x lp_y lq_xy lq_yx lnu : Z) : list Z :=
  [b2z (mh_accept binop_nan_pl64 (b64_of_bits lp_x) (b64_of_bits lp_y) (b64_of_bits lq_xy)
                  (b64_of_bits lq_yx) (b64_of_bits lnu))].

(* the whole step on states named by integers (the harness's table-target states): next state *)
Definition mh_step32 (x y : Z) (lp_x lp_y lq_xy lq_yx lnu : Z) : list Z :=
  [mh_step binop_nan_pl32 x y (b32_of_bits lp_x) (b32_of_bits lp_y) (b32_of_bits lq_xy)
           (b32_of_bits lq_yx) (b32_of_bits lnu)].
Definition mh_step64 (x y : Z) (lp_x lp_y lq_xy lq_yx lnu : Z) : list Z :=
  [mh_step binop_nan_pl64 x y (b64_of_bits lp_x) (b64_of_bits lp_y) (b64_of_bits lq_xy)
           (b64_of_bits lq_yx) (b64_of_bits lnu)].

(* ---- exact (real-number) kernel on a finite state space ---- *)
From Coq Require Import Reals.
Open Scope R_scope.

Section Kernel.
  Context {St : Type}.
  Variable eqb : St -> St -> bool.
  Variable states : list St.
  Variable pi : St -> R.          (* unnormalised target weights, > 0 *)
  Variable q : St -> St -> R.     (* proposal matrix, q x y = prob. of proposing y from x *)

  Definition sumR (f : St -> R) (l : list St) : R := fold_right (fun x acc => f x + acc) 0 l.

  (* acceptance probability min(1, pi y q y x / (pi x q x y)); irrelevant (0) when q x y = 0 *)
  Definition acc (x y : St) : R := Rmin 1 (pi y * q y x / (pi x * q x y)).

  (* off-diagonal kernel: propose y (prob q x y), accept *)
  Definition Koff (x y : St) : R := if eqb x y then 0 else q x y * acc x y.
  (* full kernel: the rejected mass stays at x *)
  Definition K (x y : St) : R :=
    Koff x y + (if eqb x y then 1 - sumR (Koff x) states else 0).
End Kernel.
