#!/usr/bin/env python3
"""Regenerates the table of DESIGN.md §9 from seeded/*/meta.json (between the table header and the `yes*` legend)."""
import json, os, re
V = os.path.dirname(os.path.dirname(os.path.abspath(__file__)))
rows = []
for d in sorted(os.listdir(os.path.join(V, "seeded")), key=lambda s: (s.split("-")[0], int(s.split("-m")[1]))):
    m = json.load(open(os.path.join(V, "seeded", d, "meta.json")))
    note = m.get("note", "")
    first = "no" if note.upper().find("MISSED") >= 0 else ("yes*" if ("without a concrete" in note or "not seen by" in note) else "yes")
    summ = (m.get("summary") or "").replace("|", "/").replace("\n", " ")
    rows.append("| %s | %s | %s | %s |" % (d, summ[:150] + ("..." if len(summ) > 150 else ""), first, (m.get("caught_by") or "").replace("|", "/")))
p = os.path.join(V, "DESIGN.md")
s = open(p).read()
head = "| id | change (author's summary) | caught at first delivery | caught by (now) |\n|---|---|---|---|\n"
i = s.index(head) + len(head)
j = s.index("\n`yes*` = caught", i)
s = s[:i] + "\n".join(rows) + "\n" + s[j:]
open(p, "w").write(s)
print(len(rows), "rows;", sum(1 for r in rows if "| no |" in r), "missed at first delivery")
