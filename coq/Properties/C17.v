(* C17 — Export: reading the file back yields one row per (chain, observation) cell, labelled with
   the indices the function documents for its axis order, whose dim_j columns hold exactly the
   stored values (Arrow/Parquet: the value widened to f64), with the documented header, also for
   empty arrays.
   Model: Model/Export.v.  A sample array of shape [C, O, D] is a list of C chains, each a list of
   O observations, each a list of D values ("well-shaped": the three length hypotheses below);
   `flatten3 a` is its row-major buffer.  A row is (first label, second label, values).
   `rows_array` models the Array3 entry points (save_csv / save_arrow / save_parquet),
   `rows_tensor C O D flat` models save_csv_tensor (offset c*O*D + o*D into the flat buffer),
   `rows_parquet_tensor O C D flat` models save_parquet_tensor (documented axis order
   [observation, chain, dim], offset o*C*D + c*D), `widen` the f32 -> f64 conversion of the
   Arrow/Parquet writers.  Proofs: Proofs/Export.v. *)
From MiniMcmc Require Import Model.Export.
From MiniMcmc Require Import Base.Fp Base.Util Proofs.Export.
From Coq Require Import Reals.
Close Scope R_scope.

(* ---- (L1) the offset c*O*D + o*D addresses exactly the D values of cell (c, o), in bounds *)
Theorem C17_offsets : forall {A} (C O D : nat) (a : list (list (list A))),
  length a = C -> (forall ch, In ch a -> length ch = O) ->
  (forall ch r, In ch a -> In r ch -> length r = D) ->
  forall c o, c < C -> o < O ->
    slice (c * O * D + o * D) D (flatten3 a) = nth o (nth c a []) [] /\
    c * O * D + o * D + D <= length (flatten3 a) /\
    length (flatten3 a) = C * O * D.
Proof. exact (@flatten3_offsets). Qed.

(* ---- (L2) the flat-buffer writer and the nested-array writers produce the same rows, and these
   are: for c = 0..C-1, for o = 0..O-1: (c, o, a[c][o]) *)
Theorem C17_tensor_is_array : forall {A} (C O D : nat) (a : list (list (list A))),
  length a = C -> (forall ch, In ch a -> length ch = O) ->
  (forall ch r, In ch a -> In r ch -> length r = D) ->
  rows_tensor C O D (flatten3 a) = rows_array a.
Proof. exact (@rows_tensor_flatten3). Qed.

Theorem C17_array_rows : forall {A} (C O : nat) (a : list (list (list A))),
  length a = C -> (forall ch, In ch a -> length ch = O) ->
  rows_array a
  = concat (map (fun c => map (fun o => (c, o, nth o (nth c a []) [])) (seq 0 O)) (seq 0 C)).
Proof. exact (@rows_array_explicit). Qed.

(* ---- (L3) the row set: C*O rows; the label pairs are exactly all (chain, observation) pairs in
   chain-major order, each once; every row carries D values; empty shapes give no rows *)
Theorem C17_row_set : forall {A} (C O D : nat) (flat : list A),
  length (rows_tensor C O D flat) = C * O /\
  map (fun r => (fst (fst r), snd (fst r))) (rows_tensor C O D flat)
    = list_prod (seq 0 C) (seq 0 O) /\
  NoDup (map (fun r => (fst (fst r), snd (fst r))) (rows_tensor C O D flat)) /\
  (C * O * D <= length flat -> forall r, In r (rows_tensor C O D flat) -> length (snd r) = D) /\
  (C = 0 \/ O = 0 -> rows_tensor C O D flat = []).
Proof. exact (@rows_tensor_row_set). Qed.

Theorem C17_row_set_array : forall {A} (C O D : nat) (a : list (list (list A))),
  length a = C -> (forall ch, In ch a -> length ch = O) ->
  (forall ch r, In ch a -> In r ch -> length r = D) ->
  length (rows_array a) = C * O /\
  map (fun r => (fst (fst r), snd (fst r))) (rows_array a) = list_prod (seq 0 C) (seq 0 O) /\
  NoDup (map (fun r => (fst (fst r), snd (fst r))) (rows_array a)) /\
  (forall r, In r (rows_array a) -> length (snd r) = D) /\
  (C = 0 \/ O = 0 -> rows_array a = []).
Proof. exact (@rows_array_row_set). Qed.

(* ---- (L4) save_parquet_tensor on an observation-major array b of shape [O, C, D]
   (b[o][c] = the D values of chain c at observation o): first label = observation index,
   second label = chain index, values = those of that cell *)
Theorem C17_parquet_tensor_order : forall {A} (O C D : nat) (b : list (list (list A))),
  length b = O -> (forall ob, In ob b -> length ob = C) ->
  (forall ob r, In ob b -> In r ob -> length r = D) ->
  rows_parquet_tensor O C D (flatten3 b)
  = concat (map (fun o => map (fun c => (o, c, nth c (nth o b []) [])) (seq 0 C)) (seq 0 O)).
Proof. exact (@rows_parquet_tensor_order). Qed.

(* ---- (L5) header: chain, observation, dim_0 .. dim_{D-1} (codes 0, 1, 2+j), all distinct;
   save_parquet_tensor: observation, chain, dim_0 .. *)
Theorem C17_header : forall D : nat,
  (length (header_codes D) = 2 + D /\ header_codes D = 0 :: 1 :: seq 2 D /\
   NoDup (header_codes D)) /\
  (length (header_codes_parquet_tensor D) = 2 + D /\
   header_codes_parquet_tensor D = 1 :: 0 :: seq 2 D /\
   NoDup (header_codes_parquet_tensor D)).
Proof. intros D. split; [apply header_codes_spec | apply header_codes_parquet_tensor_spec]. Qed.

(* ---- (W1) widening a finite binary32 value is exact: same real value, finite, same sign
   (so -0.0 stays -0.0) *)
Theorem C17_widen_exact : forall x : binary32,
  Binary.is_finite 24 128 x = true ->
  Binary.B2R 53 1024 (widen x) = Binary.B2R 24 128 x /\
  Binary.is_finite 53 1024 (widen x) = true /\
  Binary.Bsign 53 1024 (widen x) = Binary.Bsign 24 128 x.
Proof. exact widen_exact. Qed.

(* ---- (W2) zeros and infinities keep their sign, NaN maps to NaN and nothing else does *)
Theorem C17_widen_special :
  (forall s, widen (Binary.B754_zero 24 128 s) = Binary.B754_zero 53 1024 s) /\
  (forall s, widen (Binary.B754_infinity 24 128 s) = Binary.B754_infinity 53 1024 s) /\
  (forall x, Binary.is_nan 53 1024 (widen x) = Binary.is_nan 24 128 x).
Proof. exact widen_special. Qed.

(* ---- non-vacuity *)
Example C17_example_tensor :
  let C17_sample := [[[1; 2]; [3; 4]; [5; 6]]; [[7; 8]; [9; 10]; [11; 12]]]%Z in
  flatten3 C17_sample = [1; 2; 3; 4; 5; 6; 7; 8; 9; 10; 11; 12]%Z /\
  rows_tensor 2 3 2 (flatten3 C17_sample)
  = [(0, 0, [1; 2]%Z); (0, 1, [3; 4]%Z); (0, 2, [5; 6]%Z);
     (1, 0, [7; 8]%Z); (1, 1, [9; 10]%Z); (1, 2, [11; 12]%Z)] /\
  rows_array C17_sample = rows_tensor 2 3 2 (flatten3 C17_sample) /\
  (* the same buffer read as [observation = 2, chain = 3, dim = 2] *)
  rows_parquet_tensor 2 3 2 (flatten3 C17_sample)
  = [(0, 0, [1; 2]%Z); (0, 1, [3; 4]%Z); (0, 2, [5; 6]%Z);
     (1, 0, [7; 8]%Z); (1, 1, [9; 10]%Z); (1, 2, [11; 12]%Z)] /\
  unflatten3 2 3 2 (flatten3 C17_sample) = C17_sample.
Proof. vm_compute. repeat split. Qed.

(* the hypotheses of the theorems are met by the sample *)
Example C17_example_shape :
  let C17_sample := [[[1; 2]; [3; 4]; [5; 6]]; [[7; 8]; [9; 10]; [11; 12]]]%Z in
  length C17_sample = 2 /\ (forall ch, In ch C17_sample -> length ch = 3) /\
  (forall ch r, In ch C17_sample -> In r ch -> length r = 2).
Proof.
  intros C17_sample. split; [reflexivity|]. split.
  - intros ch [<- | [<- | []]]; reflexivity.
  - intros ch r [<- | [<- | []]] [<- | [<- | [<- | []]]]; reflexivity.
Qed.

Example C17_example_empty :
  rows_tensor 0 3 2 ([] : list Z) = [] /\ rows_tensor 2 0 2 ([] : list Z) = [] /\
  rows_array ([] : list (list (list Z))) = [] /\ rows_array ([[]; []] : list (list (list Z))) = [] /\
  length (rows_tensor 2 3 0 ([] : list Z)) = 6 /\
  header_codes 0 = [0; 1] /\ header_codes 3 = [0; 1; 2; 3; 4] /\
  header_codes_parquet_tensor 3 = [1; 0; 2; 3; 4].
Proof. vm_compute. repeat split. Qed.

(* widening on bit patterns: 1.0f32, smallest subnormal 2^-149, -0.0, +inf, largest finite *)
Example C17_example_widen :
  map widen_bits [1065353216; 1; 2147483648; 2139095040; 2139095039]%Z
  = [4607182418800017408; 3936146074321813504; 9223372036854775808; 9218868437227405312;
     5183643170566569984]%Z.
Proof. vm_compute. reflexivity. Qed.

Example C17_example_widen_finite :
  Binary.is_finite 24 128 (b32_of_bits 1) = true /\
  Binary.is_nan 53 1024 (widen (b32_of_bits 2143289344)) = true.
Proof. vm_compute. split; reflexivity. Qed.

Print Assumptions C17_offsets.
Print Assumptions C17_tensor_is_array.
Print Assumptions C17_array_rows.
Print Assumptions C17_row_set.
Print Assumptions C17_row_set_array.
Print Assumptions C17_parquet_tensor_order.
Print Assumptions C17_header.
Print Assumptions C17_widen_exact.
Print Assumptions C17_widen_special.
