"""C01 — Metropolis-Hastings acceptance rule (decision layer bit-exact in Flocq)."""
import struct
import common as C

ID = "C01"
LEVEL = "proof"
COQ_HEADER = "From MiniMcmc Require Import Base.Fp Model.MH."
RULE = ("table-driven Target/Proposal on state spaces {0..k-1}, k<=8, state types usize/i32/f32/f64, F in {f32,f64}; "
        "log-tables mix ordinary values with -inf,+inf,NaN,+-0,subnormals,huge magnitudes, asymmetric lq; acceptance "
        "variate injected through the public rng field (u = 0, 2^-53/2^-24, 1/2, 1-ulp, random) and exact ties "
        "ratio == ln u built from the implementation's own ln u; decision recomputed in Flocq binary32/64 on the same "
        "bit patterns. Non-trivial: lq[x][y] != lq[y][x] bitwise, or a special value among the four terms, or a tie.")
TRUSTED = ["f32::ln / f64::ln (value supplied by the harness; checked against libm-independent math.log to 2 ulp)",
           "variate injection: SmallRng state [0,1,0,rotr(v,23)] yields next_u64 = v (asserted by comparing u)"]
ASSUMPTIONS = ["u is uniform on the generator's grid in [0,1) (C01_accept_region turns the rule into probability min(1,e^r))"]

F32 = {"zero": 0x00000000, "nzero": 0x80000000, "one": 0x3F800000, "mone": 0xBF800000,
       "inf": 0x7F800000, "ninf": 0xFF800000, "nan": 0x7FC00000, "max": 0x7F7FFFFF, "nmax": 0xFF7FFFFF,
       "sub": 0x00000001, "nsub": 0x80000001}
F64 = {"zero": 0, "nzero": 1 << 63, "one": 0x3FF0000000000000, "mone": 0xBFF0000000000000,
       "inf": 0x7FF0000000000000, "ninf": 0xFFF0000000000000, "nan": 0x7FF8000000000000,
       "max": 0x7FEFFFFFFFFFFFFF, "nmax": 0xFFEFFFFFFFFFFFFF, "sub": 1, "nsub": (1 << 63) | 1}


def fbits(f, x):
    return C.float_to_f32_bits(x) if f == "f32" else C.float_to_f64_bits(x)


def bfloat(f, b):
    return C.f32_bits_to_float(b) if f == "f32" else C.f64_bits_to_float(b)


def rand_val(rng, f):
    r = rng.random()
    sp = F32 if f == "f32" else F64
    if r < 0.25:
        return sp[rng.choice(sorted(sp))]
    if r < 0.6:
        return fbits(f, float(rng.randint(-20, 5)))          # integer-valued: sums exact
    if r < 0.9:
        return fbits(f, rng.uniform(-30, 3))
    return fbits(f, rng.choice([-1, 1]) * 10.0 ** rng.randint(-40, 38))


def variates(rng, f):
    sh = 40 if f == "f32" else 11
    vs = [0, 1 << sh, 1 << 63, (1 << 64) - 1, (1 << 64) - (1 << sh), 3 << 62]
    vs += [rng.getrandbits(64) for _ in range(6)]
    return vs


def nextup(f, b):
    """next representable above a finite/neg value (bit trick)."""
    sign = 31 if f == "f32" else 63
    if b >> sign:            # negative: decrease magnitude
        mag = b & ((1 << sign) - 1)
        if mag == 0:
            return 1
        return (1 << sign) | (mag - 1)
    return b + 1


def generate(rng, tier):
    n_cases = 3000 if tier == "quick" else 40000
    cases = []
    # exhaustive cross product of special values in the four terms x variates (2-state tables)
    for f in ["f32", "f64"]:
        sp = F32 if f == "f32" else F64
        names = ["zero", "nzero", "one", "mone", "inf", "ninf", "nan", "max", "sub"]
        vs = [0, 1 << 63, (1 << 64) - 1]
        pool = names if tier == "thorough" else ["zero", "mone", "inf", "ninf", "nan", "max"]
        for a in pool:
            for b in pool:
                for c in pool:
                    for d in (pool if tier == "thorough" else ["zero", "ninf", "nan", "inf"]):
                        v = vs[(len(cases)) % 3]
                        cases.append({"op": "step", "s": "usize", "f": f, "lp": [sp[a], sp[b]],
                                      "lq": [[sp["zero"], sp[c]], [sp[d], sp["zero"]]], "x": 0, "y": 1,
                                      "v": str(v), "kind": "special"})
    # ties: ratio == ln u exactly, and one ulp above
    for f in ["f32", "f64"]:
        vs = [v for v in variates(rng, f) if v != 0] + [rng.getrandbits(64) for _ in range(30)]
        q = C.run_harness("C01", [{"op": "lnu", "s": "-", "f": f, "v": str(v)} for v in vs])
        z = F32["zero"] if f == "f32" else F64["zero"]
        for v, r in zip(vs, q):
            for lpy, kind in [(r["lnu"], "tie"), (nextup(f, r["lnu"]), "tie+ulp")]:
                s = rng.choice(["usize", "i32", "f32", "f64"])
                cases.append({"op": "step", "s": s, "f": f, "lp": [z, lpy], "lq": [[z, z], [z, z]],
                              "x": 0, "y": 1, "v": str(v), "kind": kind})
    # multi-step sequences on one chain object with the public fields reassigned between steps
    for _ in range(150 if tier == "quick" else 2000):
        f, s = rng.choice([("f32", "usize"), ("f64", "usize"), ("f64", "f64"), ("f32", "i32")])
        k = rng.randint(2, 6)
        lps = [[fbits(f, float(rng.randint(-12, 4))) for _ in range(k)] for _ in range(rng.choice([1, 2, 3]))]
        lq = [[fbits(f, float(rng.randint(-6, 0))) for _ in range(k)] for _ in range(k)]
        steps = []
        for _ in range(rng.randint(2, 8)):
            st = {"y": rng.randrange(k), "v": str(rng.choice(variates(rng, f)))}
            r = rng.random()
            if r < 0.35:
                st["set_x"] = rng.randrange(k)
            elif r < 0.5 and len(lps) > 1:
                st["set_target"] = rng.randrange(len(lps))
            steps.append(st)
        cases.append({"op": "seq", "s": s, "f": f, "lps": lps, "lq": lq, "x": rng.randrange(k), "steps": steps, "kind": "sequence"})
    while len(cases) < n_cases:
        f = rng.choice(["f32", "f64"])
        s = rng.choice(["usize", "i32", "f32", "f64"])
        k = rng.randint(2, 8)
        lp = [rand_val(rng, f) for _ in range(k)]
        lq = [[rand_val(rng, f) for _ in range(k)] for _ in range(k)]
        x = rng.randrange(k)
        y = rng.choice([j for j in range(k) if j != x])
        v = rng.choice(variates(rng, f))
        cases.append({"op": "step", "s": s, "f": f, "lp": lp, "lq": lq, "x": x, "y": y, "v": str(v), "kind": "random"})
    return cases


def terms(case):
    x, y = case["x"], case["y"]
    return case["lp"][x], case["lp"][y], case["lq"][x][y], case["lq"][y][x]


def seq_terms(case, out):
    """per step: (lp_x, lp_y, lq_xy, lq_yx, lnu, x, y) from the state / target the step started from"""
    cur_t = 0
    res = []
    for st, o in zip(case["steps"], out["steps"]):
        if "set_target" in st:
            cur_t = st["set_target"]
        x, y = o["before"], st["y"]
        lp = case["lps"][cur_t]
        res.append((lp[x], lp[y], case["lq"][x][y], case["lq"][y][x], o["lnu"], x, y))
    return res


def coq_term(case, out):
    if "panic" in out:
        return None
    if case["op"] == "seq":
        fn = "mh_step32" if case["f"] == "f32" else "mh_step64"
        return " ++ ".join("(%s %s %s %d %d %d %d %d)" % ((fn, C.z(t[5]), C.z(t[6])) + t[:5]) for t in seq_terms(case, out))
    if case["op"] != "step":
        return None
    a, b, c, d = terms(case)
    fn = "mh_step32" if case["f"] == "f32" else "mh_step64"
    return "%s %s %s %d %d %d %d %d" % (fn, C.z(case["x"]), C.z(case["y"]), a, b, c, d, out["lnu"])


def compare(case, out, model):
    if "panic" in out:
        return "implementation panicked: " + out["panic"]
    if model is None:
        return None
    if case["op"] == "seq":
        prev = case["x"]
        for k, (t, m, st, o) in enumerate(zip(seq_terms(case, out), model, case["steps"], out["steps"])):
            want_before = st.get("set_x", prev)
            if o["before"] != want_before:
                return "step %d starts from state %d, expected %d" % (k, o["before"], want_before)
            exp = m
            if o["new"] != exp:
                return "sequence step %d: state after step is %d, Flocq model of the decision gives %d" % (k, o["new"], exp)
            prev = o["new"]
        return None
    exp = model[0]
    if out["new"] != exp:
        return "state after step is %d, Flocq model of the decision gives %d" % (out["new"], exp)
    if out["len"] != 1:
        return "state length changed"
    return None


def oracle(case, out):
    """Property text, independent of the model: accept iff ln u < (lp y + lq(x|y)) - (lp x + lq(y|x))
    in the code's precision; otherwise bitwise the old state."""
    if "panic" in out:
        return "MH step panicked: " + out["panic"]
    if case["op"] not in ("step", "seq"):
        return None
    try:
        import numpy as np
    except ImportError:
        return None
    f = case["f"]
    ft = np.float32 if f == "f32" else np.float64
    it = np.uint32 if f == "f32" else np.uint64

    def val(b):
        return np.array([b], dtype=it).view(ft)[0]
    if case["op"] == "seq":
        for k, t in enumerate(seq_terms(case, out)):
            a, b, c, d, lnu = [val(v) for v in t[:5]]
            with np.errstate(all="ignore"):
                ratio = (b + d) - (a + c)
                accept = bool(lnu < ratio)
            exp = t[6] if accept else t[5]
            if out["steps"][k]["new"] != exp:
                return ("step %d of a sequence on one chain (public fields reassigned between steps: %s): x=%d y=%d ln u=%r ratio=%r: "
                        "property demands new state %d, implementation returned %d" % (
                            k, {kk: vv for kk, vv in case["steps"][k].items() if kk.startswith("set_")}, t[5], t[6], float(lnu), float(ratio), exp, out["steps"][k]["new"]))
        return None
    a, b, c, d = [val(t) for t in terms(case)]
    lnu = val(out["lnu"])
    u = val(out["u"])
    # the injected variate must be the one the model assumes, and ln must be sane
    v = int(case["v"])
    expu = (v >> 40) * 2.0 ** -24 if f == "f32" else (v >> 11) * 2.0 ** -53
    if float(u) != expu:
        return "variate injection broke: u=%r expected %r" % (float(u), expu)
    import math
    if expu > 0:
        ref = math.log(expu)
        tol = 2 * abs(ref) * (2.0 ** -23 if f == "f32" else 2.0 ** -52) + 1e-300
        if abs(float(lnu) - ref) > tol:
            return "ln u supplied by the implementation (%r) is not ln(%r)" % (float(lnu), expu)
    with np.errstate(all="ignore"):
        ratio = (b + d) - (a + c)
        accept = bool(lnu < ratio)
    exp = case["y"] if accept else case["x"]
    if out["new"] != exp:
        return ("x=%d y=%d: ln u=%r, ratio=%r: property demands new state %d, implementation returned %d"
                % (case["x"], case["y"], float(lnu), float(ratio), exp, out["new"]))
    if not accept and not out["kept_equal"]:
        return "rejected step did not leave the state equal to the old one"
    return None


def nontrivial(case, out):
    if case["op"] == "seq":
        return any(k.startswith("set_") for st in case["steps"] for k in st)
    if case["op"] != "step":
        return False
    a, b, c, d = terms(case)
    sp = set((F32 if case["f"] == "f32" else F64).values()) - {0}
    return c != d or case["kind"].startswith("tie") or any(t in sp for t in (a, b, c, d))


def extra(cases, outs, model):
    kinds = {}
    acc = 0
    for c, o in zip(cases, outs):
        kinds[c.get("kind", "?")] = kinds.get(c.get("kind", "?"), 0) + 1
        if "new" in o and o["new"] == c.get("y"):
            acc += 1
    return {"input_distribution": kinds, "accepted": acc, "rejected": len(cases) - acc}
