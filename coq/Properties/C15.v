From MiniMcmc Require Import Model.Density.
