From MiniMcmc Require Import Model.Seeds.
