(* C08 — Distinct chains use distinct random streams: for every 64-bit user seed the per-chain
   seeds of each sampler are pairwise distinct (also when the addition wraps around), so are the
   generator states the chains start from; within one Metropolis-Hastings sampler no acceptance
   generator is seeded like any proposal generator; and the rows of a batched HMC draw read
   disjoint segments of the one batch stream.
   Models: Model/Seeds.v (mh_seed, gibbs_seed, nuts_seed, mh_prop_seed), Base/Rng.v
   (seed_from_u64 = SplitMix64 seeding of Xoshiro256++).  Proofs: Proofs/Rng.v, Proofs/Sched.v. *)
From MiniMcmc Require Import Model.Seeds Model.Sched.
From MiniMcmc Require Import Proofs.Rng Proofs.Sched.
Open Scope N_scope.

(* (1) chain seeds are pairwise distinct, for every seed and all chain indices below 2^64 *)
Theorem C08_seeds_distinct : forall s i j, s < W64 -> i < W64 -> j < W64 -> i <> j ->
  mh_seed s i <> mh_seed s j /\ gibbs_seed s i <> gibbs_seed s j /\
  nuts_seed s i <> nuts_seed s j /\ mh_prop_seed s i <> mh_prop_seed s j.
Proof.
  intros s i j Hs Hi Hj Hne.
  repeat split; intro E; apply Hne;
    [exact (mh_seed_inj s i j Hs Hi Hj E)|exact (gibbs_seed_inj s i j Hs Hi Hj E)
    |exact (nuts_seed_inj s i j Hs Hi Hj E)|exact (mh_prop_seed_inj s i j Hs Hi Hj E)].
Qed.

(* (2) and the chains do not start from the same generator state (SplitMix64 seeding is
   injective on 64-bit seeds) *)
Theorem C08_states_distinct : forall s i j, s < W64 -> i < W64 -> j < W64 -> i <> j ->
  seed_from_u64 (mh_seed s i) <> seed_from_u64 (mh_seed s j) /\
  seed_from_u64 (gibbs_seed s i) <> seed_from_u64 (gibbs_seed s j) /\
  seed_from_u64 (nuts_seed s i) <> seed_from_u64 (nuts_seed s j) /\
  seed_from_u64 (mh_prop_seed s i) <> seed_from_u64 (mh_prop_seed s j).
Proof.
  intros s i j Hs Hi Hj Hne.
  exact (conj (mh_states_distinct s i j Hs Hi Hj Hne)
        (conj (gibbs_states_distinct s i j Hs Hi Hj Hne)
        (conj (nuts_states_distinct s i j Hs Hi Hj Hne)
              (mh_prop_states_distinct s i j Hs Hi Hj Hne)))).
Qed.

(* (3) within a sampler of fewer than 2^63 chains no acceptance generator is seeded like any
   proposal generator — in particular (i = j) not the one of the same chain *)
Theorem C08_acc_vs_prop : forall s i j, s < W64 -> i < HALF -> j < HALF ->
  mh_seed s i <> mh_prop_seed s j /\
  seed_from_u64 (mh_seed s i) <> seed_from_u64 (mh_prop_seed s j).
Proof.
  intros s i j Hs Hi Hj.
  exact (conj (mh_acc_prop_disjoint s i j Hs Hi Hj) (mh_acc_prop_states_distinct s i j Hs Hi Hj)).
Qed.

Close Scope N_scope.
Open Scope nat_scope.

(* (4) HMC draws the momenta of a batch of n chains x d dimensions as one stream segment of n*d
   values, row (chain) i using positions [i*d, (i+1)*d): different rows read different positions,
   every position read lies inside the segment, ... *)
Theorem C08_hmc_rows_disjoint : forall n d i j a b : nat,
  i <> j -> i < n -> j < n -> a < d -> b < d ->
  i * d + a <> j * d + b /\ i * d + a < n * d.
Proof.
  intros n d i j a b Hij Hi Hj Ha Hb.
  exact (conj (rows_disjoint n d i j a b Hij Hi Hj Ha Hb) (row_index_in_range n d i a Hi Ha)).
Qed.

(* ... and (chain, dimension) <-> position is one-to-one and onto: no value of the segment is
   used twice and none is skipped *)
Theorem C08_hmc_rows_bijective :
  (forall d i j a b : nat, a < d -> b < d -> i * d + a = j * d + b -> i = j /\ a = b) /\
  (forall n d p : nat, p < n * d -> exists i a, i < n /\ a < d /\ p = i * d + a).
Proof. exact (conj row_index_inj row_index_surj). Qed.

(* ---- non-vacuity *)
Open Scope N_scope.

(* seed 2^64 - 2, four chains: the MH seeds wrap around and stay pairwise distinct *)
Example C08_wraparound_concrete :
  map (mh_seed (W64 - 2)) [0; 1; 2; 3] = [W64 - 1; 0; 1; 2] /\
  NoDup (map (mh_seed (W64 - 2)) [0; 1; 2; 3]) /\
  map (mh_prop_seed (W64 - 2)) [0; 1; 2; 3] = [HALF - 1; HALF; HALF + 1; HALF + 2] /\
  W64 - 2 < W64 /\ 3 < HALF.
Proof.
  split; [vm_compute; reflexivity|]. split; [|split; [vm_compute; reflexivity|split; reflexivity]].
  replace (map (mh_seed (W64 - 2)) [0; 1; 2; 3]) with [W64 - 1; 0; 1; 2] by (vm_compute; reflexivity).
  repeat constructor; simpl; intros H; repeat (destruct H as [H|H]; [discriminate H|]); exact H.
Qed.

(* the first generator words of chains 0 and 1 for that seed indeed differ *)
Example C08_states_concrete :
  s0 (seed_from_u64 (mh_seed (W64 - 2) 0)) <> s0 (seed_from_u64 (mh_seed (W64 - 2) 1)) /\
  s0 (seed_from_u64 (mh_seed 42 0)) <> s0 (seed_from_u64 (mh_prop_seed 42 0)).
Proof. split; vm_compute; discriminate. Qed.

Print Assumptions C08_seeds_distinct.
Print Assumptions C08_states_distinct.
Print Assumptions C08_acc_vs_prop.
Print Assumptions C08_hmc_rows_disjoint.
Print Assumptions C08_hmc_rows_bijective.
