(* C18 — initial-position helpers: right shape, seeded ones are pure, prefix property.
   Model: Model/Init.v.  `draws` is the stream of standard-normal variates the (unmodelled)
   ziggurat sampler produces from the seeded generator; `conv` is the f64 -> T conversion. *)
From MiniMcmc Require Import Base.Fp Base.Util Model.Init Proofs.Init Proofs.Conv.
From Coq Require Import Reals.
From Flocq Require Import Core.Raux Core.Generic_fmt Core.FLT Core.Round_NE.
Close Scope R_scope.

Section C18.
  Context {A D : Type}.
  Variable conv : D -> A.
  Variable dflt : D.

  (* exactly n vectors of length d, for every n, d >= 0 *)
  Theorem C18_shape : forall draws n d,
    length (init_model conv dflt draws n d) = n /\
    (forall row, In row (init_model conv dflt draws n d) -> length row = d).
  Proof. intros draws n d. split; [apply init_rows | apply init_cols]. Qed.

  (* entry (r,c) is draw number r*d+c of the single stream, converted: row-major, no per-row
     re-seeding, nothing skipped *)
  Theorem C18_entry : forall draws n d r c da, r < n -> c < d ->
    nth c (nth r (init_model conv dflt draws n d) []) da = conv (nth (r * d + c) draws dflt).
  Proof. exact (init_entry conv dflt). Qed.

  (* the first rows of a larger request equal a smaller request with the same d and seed *)
  Theorem C18_prefix : forall draws n n' d, n <= n' ->
    firstn n (init_model conv dflt draws n' d) = init_model conv dflt draws n d.
  Proof. exact (init_prefix conv dflt). Qed.

  (* purity: the result is a function of (the first n*d draws of the stream, n, d) only *)
  Theorem C18_pure : forall draws draws' n d,
    (forall k, k < n * d -> nth k draws dflt = nth k draws' dflt) ->
    init_model conv dflt draws n d = init_model conv dflt draws' n d.
  Proof. exact (init_uses_prefix conv dflt). Qed.
End C18.

Example C18_example :
  init_model (fun z => z) 0%Z [10; 11; 12; 13; 14; 15; 16]%Z 2 3 = [[10; 11; 12]; [13; 14; 15]]%Z /\
  init_model (fun z => z) 0%Z [10; 11; 12; 13; 14; 15; 16]%Z 0 3 = [] /\
  init_model (fun z => z) 0%Z [10; 11; 12; 13; 14; 15; 16]%Z 2 0 = [[]; []].
Proof. repeat split. Qed.

(* f64 -> f32 conversion on concrete values: 1.0, 1.5, 0.2 (rounds), +inf *)
Example C18_conv_concrete :
  map f64_to_f32_bits [4607182418800017408; 4609434218613702656; 4596373779694328218; 9218868437227405312]%Z
  = [1065353216; 1069547520; 1045220557; 2139095040]%Z.
Proof. vm_compute. reflexivity. Qed.

Print Assumptions C18_shape.
Print Assumptions C18_entry.
Print Assumptions C18_prefix.
Print Assumptions C18_pure.

(* the f64 -> f32 conversion of a finite draw of moderate magnitude (|x| <= 2^100; any normal
   draw is far below) does not overflow and is the correctly rounded (nearest-even) binary32
   value of the draw *)
Theorem C18_conv_finite : forall x : binary64,
  Binary.is_finite 53 1024 x = true ->
  (Rabs (Binary.B2R 53 1024 x) <= bpow radix2 100)%R ->
  Binary.is_finite 24 128 (f64_to_f32 x) = true /\
  Binary.B2R 24 128 (f64_to_f32 x)
  = round radix2 (FLT_exp (3 - 128 - 24) 24) ZnearestE (Binary.B2R 53 1024 x).
Proof. exact f64_to_f32_finite. Qed.

Print Assumptions C18_conv_finite.

(* ================= the ziggurat sampler behind the seeded helpers (Model/Ziggurat.v) ================= *)
From MiniMcmc Require Import Model.Ziggurat Proofs.Ziggurat.
From Coq Require Import QArith Qabs.
Close Scope Q_scope.

(* the four generated tables have 257 entries *)
Theorem C18_zig_tables_length :
  length zig_norm_x = 257%nat /\ length zig_norm_f = 257%nat /\
  length zig_exp_x = 257%nat /\ length zig_exp_f = 257%nat.
Proof. exact zig_tables_length. Qed.
Print Assumptions C18_zig_tables_length.

(* x[0] > x[1] = R > ... > x[256] = +0, every entry finite and nonnegative *)
Theorem C18_zig_norm_x_decreasing :
  (forall i : N, (i < 256)%N -> blt (znth zig_norm_x (i + 1)) (znth zig_norm_x i) = true) /\
  (forall i : N, (i <= 256)%N ->
     Binary.is_finite 53 1024 (znth zig_norm_x i) = true /\ Binary.Bsign 53 1024 (znth zig_norm_x i) = false) /\
  znth zig_norm_x 256 = Binary.B754_zero 53 1024 false /\
  znth zig_norm_x 1 = zb zig_norm_r.
Proof. exact zig_norm_x_decreasing. Qed.
Print Assumptions C18_zig_norm_x_decreasing.

(* f[0] < f[1] < ... < f[256] = 1.0, every entry finite and nonnegative *)
Theorem C18_zig_norm_f_increasing :
  (forall i : N, (i < 256)%N -> blt (znth zig_norm_f i) (znth zig_norm_f (i + 1)) = true) /\
  (forall i : N, (i <= 256)%N ->
     Binary.is_finite 53 1024 (znth zig_norm_f i) = true /\ Binary.Bsign 53 1024 (znth zig_norm_f i) = false) /\
  znth zig_norm_f 256 = f_one.
Proof. exact zig_norm_f_increasing. Qed.
Print Assumptions C18_zig_norm_f_increasing.

(* qof reads a finite binary64 as the rational it denotes *)
Theorem C18_qof_B2R : forall x : binary64,
  Binary.is_finite 53 1024 x = true -> Q2R (qof x) = Binary.B2R 53 1024 x.
Proof. exact qof_B2R. Qed.
Print Assumptions C18_qof_B2R.

(* equal areas, in exact rational arithmetic on the table values, V = x[0] * f[1]:
   layers 1..254 have area V up to 2^-52; the top layer 255 (x[255] * (1 - f[255])) only up to 2^-37, and NOT up
   to 2^-38 *)
Theorem C18_zig_norm_equal_area :
  (forall i : N, (1 <= i <= 254)%N ->
     (Qabs (qof (znth zig_norm_x i) * (qof (znth zig_norm_f (i + 1)) - qof (znth zig_norm_f i))
            - qof (znth zig_norm_x 0) * qof (znth zig_norm_f 1)) <= 1 # 2 ^ 52)%Q) /\
  (forall i : N, (1 <= i <= 255)%N ->
     (Qabs (qof (znth zig_norm_x i) * (qof (znth zig_norm_f (i + 1)) - qof (znth zig_norm_f i))
            - qof (znth zig_norm_x 0) * qof (znth zig_norm_f 1)) <= 1 # 2 ^ 37)%Q) /\
  ~ (Qabs (qof (znth zig_norm_x 255) * (qof (znth zig_norm_f (255 + 1)) - qof (znth zig_norm_f 255))
            - qof (znth zig_norm_x 0) * qof (znth zig_norm_f 1)) <= 1 # 2 ^ 38)%Q.
Proof. exact zig_norm_equal_area. Qed.
Print Assumptions C18_zig_norm_equal_area.

(* f[i] is the unnormalised normal density at x[i] up to 2^-54, for all 257 entries *)
Theorem C18_zig_norm_f_is_pdf : forall i : N, (i <= 256)%N ->
  (Rabs (Binary.B2R 53 1024 (znth zig_norm_f i) - exp (- (Binary.B2R 53 1024 (znth zig_norm_x i)) ^ 2 / 2))
   <= bpow radix2 (-54))%R.
Proof. exact zig_norm_f_is_pdf. Qed.
Print Assumptions C18_zig_norm_f_is_pdf.

(* ---- the integer -> float conversions are exact ---- *)
Theorem C18_float_with_exp_value : forall (frac : N) (e : Z), (frac < 2 ^ 52)%N -> (e = 0 \/ e = 1)%Z ->
  Binary.is_finite 53 1024 (float_with_exp frac e) = true /\
  (Binary.B2R 53 1024 (float_with_exp frac e)
   = bpow radix2 e * (1 + IZR (Z.of_N frac) * bpow radix2 (-52)))%R.
Proof. exact float_with_exp_value. Qed.
Print Assumptions C18_float_with_exp_value.

Theorem C18_zig_u_sym_exact : forall bits : N, (bits < 2 ^ 64)%N ->
  Binary.is_finite 53 1024 (zig_u true bits) = true /\
  (Binary.B2R 53 1024 (zig_u true bits) = IZR (Z.of_N (N.shiftr bits 12)) * bpow radix2 (-51) - 1)%R /\
  (-1 <= Binary.B2R 53 1024 (zig_u true bits) < 1)%R.
Proof. exact zig_u_sym_exact. Qed.
Print Assumptions C18_zig_u_sym_exact.

Theorem C18_zig_u_pos_exact : forall bits : N, (bits < 2 ^ 64)%N ->
  Binary.is_finite 53 1024 (zig_u false bits) = true /\
  (Binary.B2R 53 1024 (zig_u false bits)
   = IZR (Z.of_N (N.shiftr bits 12)) * bpow radix2 (-52) + bpow radix2 (-53))%R /\
  (0 < Binary.B2R 53 1024 (zig_u false bits) < 1)%R.
Proof. exact zig_u_pos_exact. Qed.
Print Assumptions C18_zig_u_pos_exact.

Theorem C18_unif_f64_exact : forall w : N, (w < 2 ^ 64)%N ->
  Binary.is_finite 53 1024 (unif_f64 w) = true /\
  (Binary.B2R 53 1024 (unif_f64 w) = IZR (Z.of_N (N.shiftr w 11)) * bpow radix2 (-53))%R /\
  (0 <= Binary.B2R 53 1024 (unif_f64 w) < 1)%R.
Proof. exact unif_f64_exact. Qed.
Print Assumptions C18_unif_f64_exact.

Theorem C18_open01_exact : forall w : N, (w < 2 ^ 64)%N ->
  Binary.is_finite 53 1024 (open01_f64 w) = true /\
  (Binary.B2R 53 1024 (open01_f64 w)
   = IZR (Z.of_N (N.shiftr w 12)) * bpow radix2 (-52) + bpow radix2 (-53))%R /\
  (0 < Binary.B2R 53 1024 (open01_f64 w) < 1)%R.
Proof. exact open01_exact. Qed.
Print Assumptions C18_open01_exact.

(* ---- structure of a draw ---- *)
(* a value returned by the first test is finite, lies strictly inside the next layer's width and strictly inside
   (-R, R), and is the correctly rounded product u * x[i] (no overflow) *)
Theorem C18_zig_fast_sound : forall (bits : N) (x : binary64),
  zig_fast true zig_norm_x bits = Some x -> (bits < 2 ^ 64)%N ->
  Binary.is_finite 53 1024 x = true /\
  (Rabs (Binary.B2R 53 1024 x) < Binary.B2R 53 1024 (znth zig_norm_x (N.land bits 255 + 1)))%R /\
  (Rabs (Binary.B2R 53 1024 x) < Binary.B2R 53 1024 (zb zig_norm_r))%R /\
  Binary.B2R 53 1024 x
  = round radix2 (FLT_exp (3 - 1024 - 53) 53) ZnearestE
      (Binary.B2R 53 1024 (zig_u true bits) * Binary.B2R 53 1024 (znth zig_norm_x (N.land bits 255)))%R.
Proof. exact zig_fast_sound. Qed.
Print Assumptions C18_zig_fast_sound.

(* fast path: exactly one generator word, no oracle value consumed, nothing logged *)
Theorem C18_std_normal_fast_path : forall (f : nat) (st : zst) (x : binary64),
  zig_fast true zig_norm_x (fst (next_u64 (z_rng st))) = Some x ->
  std_normal (S f) st
  = Some (x, {| z_rng := snd (next_u64 (z_rng st)); z_orc := z_orc st; z_log := z_log st |}).
Proof. exact std_normal_fast_path. Qed.
Print Assumptions C18_std_normal_fast_path.

Theorem C18_normals_length : forall (fuel k : nat) (st st' : zst) (xs : list binary64),
  normals fuel k st = Some (xs, st') -> length xs = k.
Proof. exact normals_length. Qed.
Print Assumptions C18_normals_length.

(* draw streams compose: k1 + k2 draws = k1 draws, then k2 draws from the state reached *)
Theorem C18_normals_prefix : forall (fuel k1 k2 : nat) (st st2 : zst) (xs : list binary64),
  normals fuel (k1 + k2) st = Some (xs, st2) ->
  exists st1, normals fuel k1 st = Some (firstn k1 xs, st1) /\ normals fuel k2 st1 = Some (skipn k1 xs, st2).
Proof. exact normals_prefix. Qed.
Print Assumptions C18_normals_prefix.

(* a successful init_seeded output is the tag, n*d entries, and the count of oracle values left *)
Theorem C18_init_seeded_shape : forall (conv : binary64 -> Z) (seed : N) (n d : nat) (orc body : list Z),
  init_seeded conv seed n d orc = 1%Z :: body -> length body = (n * d + 1)%nat.
Proof. exact init_seeded_shape. Qed.
Print Assumptions C18_init_seeded_shape.

(* ---- non-vacuity ---- *)
(* seed 42: the first word takes the fast path; three draws need no oracle value; a 2 x 2 seeded request;
   seed 44: the first draw leaves the fast path (no oracle value supplied -> [0]) *)
Example C18_zig_example :
  option_map bits_of_b64 (zig_fast true zig_norm_x (fst (next_u64 (seed_from_u64 42)))) = Some 4605690804507365566%Z /\
  normals_eval 42 3 [] = [1; 4605690804507365566; 13826185630102679779; 4609018660546388191; 0]%Z /\
  init_seeded64 42 2 2 []
  = [1; 4605690804507365566; 13826185630102679779; 4609018660546388191; 4602038494877683467; 0]%Z /\
  normals_eval 44 1 [] = [0]%Z.
Proof. vm_compute. repeat split. Qed.

(* bits 0 give u = -1.0 exactly *)
Example C18_zig_u_zero :
  bits_of_b64 (zig_u true 0) = 13830554455654793216%Z /\ Binary.B2R 53 1024 (zig_u true 0) = (-1)%R.
Proof.
  split; [vm_compute; reflexivity|].
  destruct (zig_u_sym_exact 0 eq_refl) as [_ [H _]]. rewrite H. cbn [N.shiftr Z.of_N]. rewrite Rmult_0_l. apply Rminus_0_l.
Qed.

(* ================= seeded initial positions: prefix property from the seed alone (Proofs/ZigInit.v) ================= *)
From MiniMcmc Require Import Proofs.ZigInit.

(* the n1*d draws of the smaller request are the first n1*d draws of the larger request (same seed, same oracle list) *)
Theorem C18_init_seeded_prefix_draws : forall (seed : N) (orc : list Z) (n1 n2 d : nat) (xs : list binary64) (st : zst),
  normals 64 (n2 * d)%nat (zinit seed orc) = Some (xs, st) -> (n1 <= n2)%nat ->
  exists st1 : zst, normals 64 (n1 * d)%nat (zinit seed orc) = Some (firstn (n1 * d)%nat xs, st1).
Proof. exact init_seeded_prefix_draws. Qed.
Print Assumptions C18_init_seeded_prefix_draws.

(* the rows built from those first n1*d draws are the first n1 rows of the larger request, for every conversion *)
Theorem C18_init_seeded_prefix_rows : forall (conv : binary64 -> Z) (seed : N) (orc : list Z) (n1 n2 d : nat)
    (xs : list binary64) (st : zst),
  normals 64 (n2 * d)%nat (zinit seed orc) = Some (xs, st) -> (n1 <= n2)%nat ->
  init_model conv f_zero (firstn (n1 * d)%nat xs) n1 d = firstn n1 (init_model conv f_zero xs n2 d).
Proof. exact init_seeded_prefix_rows. Qed.
Print Assumptions C18_init_seeded_prefix_rows.

(* init_with_seed(n1, d, seed) is the first n1 rows of init_with_seed(n2, d, seed), n1 <= n2, computed from the seed
   alone: whenever the n2-row request succeeds, the n1-row request with the same seed and oracle list succeeds and its
   rows are exactly the first n1 rows of the larger result *)
Theorem C18_init_seeded_prefix : forall (conv : binary64 -> Z) (seed : N) (orc : list Z) (n1 n2 d : nat)
    (xs : list binary64) (st : zst),
  normals 64 (n2 * d)%nat (zinit seed orc) = Some (xs, st) -> (n1 <= n2)%nat ->
  exists (xs1 : list binary64) (st1 : zst),
    normals 64 (n1 * d)%nat (zinit seed orc) = Some (xs1, st1) /\
    init_model conv f_zero xs1 n1 d = firstn n1 (init_model conv f_zero xs n2 d).
Proof. exact init_seeded_prefix. Qed.
Print Assumptions C18_init_seeded_prefix.
