(* Model of nuts.rs: build_tree (Hoffman & Gelman, Algorithm 6) and the doubling loop of
   NUTSChain::step, abstract in the phase-space type P and its oracles; plus the table-driven
   instance used by the trace-refinement check. *)
From MiniMcmc Require Export Base.Util.

Section NUTS.
  Context {P F A U : Type}.
  Variable leap : bool -> P -> P.            (* one leapfrog of size +eps (true) or -eps (false) *)
  Variable joint : P -> F.                   (* log p(x) - |r|^2/2 *)
  Variable noturn : P -> P -> bool.          (* stop_criterion zminus zplus: true = no U-turn *)
  Variable flt : F -> F -> bool.             (* IEEE `<` *)
  Variable sub1000 : F -> F.                 (* logu - 1000 *)
  Variable alpha1 : P -> A.                  (* min(1, exp(joint z - joint0)) *)
  Variable aadd : A -> A -> A.
  Variable take2 : U -> nat -> nat -> bool.  (* u < n2 / max(n1 + n2, 1) *)
  Variable logu : F.

  Record tree := { zm : P; zp : P; cand : P; tn : nat; ts : bool; talpha : A; tnalpha : nat }.

  Definition leaf (v : bool) (z : P) : tree :=
    let z' := leap v z in
    {| zm := z'; zp := z'; cand := z';
       tn := if flt logu (joint z') then 1 else 0;
       ts := flt (sub1000 logu) (joint z');
       talpha := alpha1 z'; tnalpha := 1 |}.

  Definition merge (v : bool) (u : U) (t1 t2 : tree) : tree :=
    let zm' := if v then zm t1 else zm t2 in
    let zp' := if v then zp t2 else zp t1 in
    {| zm := zm'; zp := zp';
       cand := if take2 u (tn t1) (tn t2) then cand t2 else cand t1;
       tn := tn t1 + tn t2;
       ts := ts t1 && ts t2 && noturn zm' zp';
       talpha := aadd (talpha t1) (talpha t2); tnalpha := tnalpha t1 + tnalpha t2 |}.

  (* us: the f64 uniforms consumed by the merges, in order; None = ran out of supplied variates *)
  Fixpoint build_tree (j : nat) (z : P) (v : bool) (us : list U) : option (tree * list U) :=
    match j with
    | O => Some (leaf v z, us)
    | S k =>
        match build_tree k z v us with
        | None => None
        | Some (t1, us1) =>
            if ts t1 then
              match build_tree k (if v then zp t1 else zm t1) v us1 with
              | None => None
              | Some (t2, us2) =>
                  match us2 with
                  | u :: us3 => Some (merge v u t1 t2, us3)
                  | [] => None
                  end
              end
            else Some (t1, us1)
        end
    end.

  (* the leaves a call visits, in order (specification side) *)
  Fixpoint visited (j : nat) (z : P) (v : bool) (us : list U) : list P :=
    match j with
    | O => [leap v z]
    | S k =>
        match build_tree k z v us with
        | None => []
        | Some (t1, us1) =>
            visited k z v us ++ (if ts t1 then visited k (if v then zp t1 else zm t1) v us1 else [])
        end
    end.

  (* ---- the doubling loop of step() ---- *)
  Variable accept_top : U -> nat -> nat -> bool.     (* u_run_2 < min(1, n'/n) *)

  Record nst := { cur : P; lo : P; hi : P; ntot : nat; depth : nat }.
  Record dbl := { d_dir : bool; d_tree : tree; d_accepted : bool }.   (* per-doubling record *)

  Fixpoint doublings (fuel : nat) (st : nst) (dirs : list bool) (tus : list U) (accs : list U)
    : option (nst * list dbl * list bool * list U * list U) :=
    match fuel with
    | O => None
    | S f =>
        match dirs, accs with
        | v :: dirs', a :: accs' =>
            match build_tree (depth st) (if v then hi st else lo st) v tus with
            | None => None
            | Some (t, tus') =>
                let lo' := if v then lo st else zm t in
                let hi' := if v then zp t else hi st in
                let acc := ts t && accept_top a (tn t) (ntot st) in
                let st' := {| cur := if acc then cand t else cur st; lo := lo'; hi := hi';
                              ntot := ntot st + tn t; depth := S (depth st) |} in
                let rec := {| d_dir := v; d_tree := t; d_accepted := acc |} in
                if ts t && noturn lo' hi' then
                  match doublings f st' dirs' tus' accs' with
                  | None => None
                  | Some (stf, recs, dr, tr, ar) => Some (stf, rec :: recs, dr, tr, ar)
                  end
                else Some (st', [rec], dirs', tus', accs')
            end
        | _, _ => None
        end
    end.

  Definition transition (fuel : nat) (z0 : P) (dirs : list bool) (tus accs : list U) :=
    doublings fuel {| cur := z0; lo := z0; hi := z0; ntot := 1; depth := 0 |} dirs tus accs.
End NUTS.
