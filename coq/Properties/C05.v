(* C05 — Gibbs step refreshes every coordinate once, conditioning on the freshest state.
   Model: Model/Gibbs.v (cond is any, possibly stateful, user conditional). *)
From MiniMcmc Require Import Base.Util Model.Gibbs Proofs.Gibbs.
(* probabilistic consequence (finite state space, exact over R): Model/GibbsDist.v.  Neither
   file opens R_scope globally, so the statements below the first section are unaffected. *)
From MiniMcmc Require Import Model.GibbsDist Proofs.GibbsDist.

Section C05.
  Context {V C : Type}.
  Variable cond : C -> nat -> list V -> V * C.

  (* every coordinate is asked for exactly once, in index order *)
  Theorem C05_calls : forall c st,
    map fst (sweep_log cond c st) = seq 0 (length st).
  Proof. exact (sweep_calls cond). Qed.

  (* call k sees the new values of all coordinates refreshed earlier in the same step and
     the old values of all others *)
  Theorem C05_freshest : forall c st k j d, k < length st ->
    nth j (snd (nth k (sweep_log cond c st) (0, []))) d
    = if j <? k then nth j (sweep_state cond c st) d else nth j st d.
  Proof. exact (sweep_freshest cond). Qed.

  (* the answer to call k is written to coordinate k; nothing else changes: the length is
     preserved and the final state consists exactly of the answers *)
  Theorem C05_frame_length : forall c st, length (sweep_state cond c st) = length st.
  Proof. exact (sweep_length cond). Qed.

  Theorem C05_frame_written : forall c st k d, k < length st ->
    nth k (sweep_state cond c st) d
    = fst (cond (fst (fst (prefix cond k c st))) k (snd (nth k (sweep_log cond c st) (0, [])))).
  Proof. exact (sweep_written cond). Qed.
End C05.

(* Non-vacuity: a conditional returning 10*index + sum of given, on [1;2;3]. *)
Example C05_example :
  let cond := fun (c : unit) (i : nat) (g : list nat) => (10 * i + fold_right plus 0 g, c) in
  sweep_state cond tt [1; 2; 3] = [6; 21; 50] /\
  sweep_log cond tt [1; 2; 3] = [(0, [1; 2; 3]); (1, [6; 2; 3]); (2, [6; 21; 3])].
Proof. split; reflexivity. Qed.

Print Assumptions C05_calls.
Print Assumptions C05_freshest.
Print Assumptions C05_frame_length.
Print Assumptions C05_frame_written.

(* ======================================================================================
   "Hence for the full conditionals of any joint distribution the step leaves that joint
   distribution invariant."  Finite state space [states], joint weights pi >= 0 (not
   necessarily normalised).  A kernel K x x' is the probability of moving from x to x';
   [invariant states pi K] is  forall x' in states, Sum_x pi x * K x x' = pi x'.
   [blk x] is the part of x an update keeps (coordinate i: every coordinate but i);
   [cond_kernel .. blk] is the exact full conditional: pi restricted to the block of the
   *current* state, normalised.  The step is the in-order composition (compose_all) of the
   coordinate kernels - the order and freshness established by C05_calls / C05_freshest. *)
Section C05_dist.
  Local Open Scope R_scope.
  Context {X B : Type}.
  Variable states : list X.
  Variable pi : X -> R.
  Variable eqbB : B -> B -> bool.
  Hypothesis eqbB_spec : forall a b, eqbB a b = true <-> a = b.
  Hypothesis pi_nonneg : forall x, 0 <= pi x.
  Variable eqbX : X -> X -> bool.
  Hypothesis eqbX_spec : forall a b, eqbX a b = true <-> a = b.
  Hypothesis states_nodup : NoDup states.

  (* one exact full conditional leaves the joint invariant (any block function) *)
  Theorem C05_cond_invariant : forall blk : X -> B,
    invariant states pi (cond_kernel states pi eqbB blk).
  Proof. exact (cond_kernel_invariant states pi eqbB eqbB_spec pi_nonneg). Qed.

  (* it is a probability distribution whenever the current block carries mass *)
  Theorem C05_cond_stochastic : forall (blk : X -> B) x,
    block_mass states pi eqbB blk (blk x) <> 0 ->
    Model.MH.sumR (cond_kernel states pi eqbB blk x) states = 1.
  Proof. exact (cond_kernel_stochastic states pi eqbB). Qed.

  (* it only moves inside the block of the current state *)
  Theorem C05_cond_support : forall (blk : X -> B) x x',
    cond_kernel states pi eqbB blk x x' <> 0 -> blk x' = blk x.
  Proof. exact (cond_kernel_support states pi eqbB eqbB_spec). Qed.

  (* invariance is closed under composition *)
  Theorem C05_compose_invariant : forall K1 K2 : kernel,
    invariant states pi K1 -> invariant states pi K2 ->
    invariant states pi (compose states K1 K2).
  Proof. exact (compose_invariant states pi). Qed.

  (* hence under any in-order composition of invariant kernels *)
  Theorem C05_sweep_invariant : forall Ks : list kernel,
    Forall (invariant states pi) Ks ->
    invariant states pi (compose_all states Ks (id_kernel eqbX)).
  Proof. exact (sweep_invariant states pi eqbX eqbX_spec states_nodup). Qed.

  (* the step: one exact full conditional per block function, in order *)
  Theorem C05_invariant : forall blks : list (X -> B),
    invariant states pi
      (compose_all states (map (fun blk => cond_kernel states pi eqbB blk) blks)
                   (id_kernel eqbX)).
  Proof.
    exact (gibbs_sweep_invariant states pi eqbB eqbB_spec pi_nonneg eqbX eqbX_spec states_nodup).
  Qed.

  (* and the step is a Markov kernel when every state carries mass *)
  Theorem C05_stochastic : forall blks : list (X -> B),
    (forall x, In x states -> 0 < pi x) ->
    stochastic states
      (compose_all states (map (fun blk => cond_kernel states pi eqbB blk) blks)
                   (id_kernel eqbX)).
  Proof.
    exact (gibbs_sweep_stochastic states pi eqbB eqbB_spec pi_nonneg eqbX eqbX_spec states_nodup).
  Qed.
End C05_dist.

(* Product spaces: states are lists of V, the block of coordinate i erases coordinate i
   ([blk_coord dflt i x = upd i dflt x]); [gibbs_kernel .. d] composes the coordinate kernels
   of 0, 1, ..., d-1 in that order. *)
Section C05_product.
  Local Open Scope R_scope.
  Context {V : Type}.
  Variable dflt : V.
  Variable eqbV : V -> V -> bool.
  Hypothesis eqbV_spec : forall a b, eqbV a b = true <-> a = b.
  Variable states : list (list V).
  Variable pi : list V -> R.
  Hypothesis pi_nonneg : forall x, 0 <= pi x.
  Hypothesis states_nodup : NoDup states.

  (* writing coordinate i (what the code's step does with the answer) stays in block i *)
  Theorem C05_blk_upd : forall i (v : V) x, upd i dflt (upd i v x) = upd i dflt x.
  Proof. exact (blk_upd dflt). Qed.

  (* same block iff equal off coordinate i *)
  Theorem C05_blk_same_iff : forall i (x y : list V), length x = length y ->
    (upd i dflt x = upd i dflt y <-> forall j, j <> i -> nth j x dflt = nth j y dflt).
  Proof. exact (blk_same_iff dflt). Qed.

  (* the coordinate-i full conditional only ever writes coordinate i *)
  Theorem C05_cond_writes_coord : forall i (x x' : list V), length x' = length x ->
    cond_kernel states pi (list_eqb eqbV) (blk_coord dflt i) x x' <> 0 ->
    x' = upd i (nth i x' dflt) x.
  Proof. exact (coord_kernel_writes_coord dflt eqbV eqbV_spec states pi). Qed.

  Theorem C05_gibbs_invariant : forall d,
    invariant states pi (gibbs_kernel eqbV dflt states pi d).
  Proof. exact (gibbs_kernel_invariant dflt eqbV eqbV_spec states pi pi_nonneg states_nodup). Qed.

  Theorem C05_gibbs_stochastic : forall d, (forall x, In x states -> 0 < pi x) ->
    stochastic states (gibbs_kernel eqbV dflt states pi d).
  Proof. exact (gibbs_kernel_stochastic dflt eqbV eqbV_spec states pi pi_nonneg states_nodup). Qed.
End C05_product.

(* Non-vacuity: {0,1}^2 with the correlated joint pi(00)=pi(11)=4, pi(01)=pi(10)=1: the
   hypotheses hold, the 2-coordinate Gibbs kernel is invariant and stochastic, and the
   conditional is not trivial (from (0,0), coordinate 0 moves to 1 with probability 1/5). *)
Example C05_dist_example :
  ex_states = [[0; 0]; [0; 1]; [1; 0]; [1; 1]] /\
  NoDup ex_states /\
  (forall a b : nat, Nat.eqb a b = true <-> a = b) /\
  (forall x, (0 < ex_pi x)%R) /\
  invariant ex_states ex_pi (gibbs_kernel Nat.eqb 0 ex_states ex_pi 2) /\
  stochastic ex_states (gibbs_kernel Nat.eqb 0 ex_states ex_pi 2) /\
  cond_kernel ex_states ex_pi (list_eqb Nat.eqb) (blk_coord 0 0) [0; 0] [1; 0] = (1 / 5)%R.
Proof.
  split; [reflexivity|]. split; [exact ex_states_nodup|]. split; [exact nat_eqb_spec|].
  split; [exact ex_pi_pos|].
  split; [exact (gibbs_kernel_invariant 0 Nat.eqb nat_eqb_spec ex_states ex_pi
                   ex_pi_nonneg ex_states_nodup 2)|].
  split; [exact (gibbs_kernel_stochastic 0 Nat.eqb nat_eqb_spec ex_states ex_pi
                   ex_pi_nonneg ex_states_nodup 2 (fun x _ => ex_pi_pos x))|].
  exact ex_cond_value.
Qed.

(* The order/freshness proved by C05_freshest matters: the "stale snapshot" variant, which
   refreshes both coordinates from conditionals evaluated at the OLD state (x'_0 ~ pi(.|x_1),
   x'_1 ~ pi(.|x_0), independently), is still a Markov kernel but does NOT leave the joint
   invariant: Sum_x pi x * K x (0,0) = 76/25, whereas pi (0,0) = 4. *)
Example C05_stale_snapshot_refuted :
  (forall x, In x ex_states ->
     Model.MH.sumR (stale_kernel Nat.eqb 0 ex_states ex_pi x) ex_states = 1%R) /\
  Model.MH.sumR (fun x => (ex_pi x * stale_kernel Nat.eqb 0%nat ex_states ex_pi x [0; 0]%nat)%R) ex_states
    = (76 / 25)%R /\
  ex_pi [0; 0] = 4%R /\
  ~ invariant ex_states ex_pi (stale_kernel Nat.eqb 0 ex_states ex_pi).
Proof.
  split; [exact ex_stale_row|]. split; [exact ex_stale_value|].
  split; [reflexivity|]. exact stale_not_invariant.
Qed.

Print Assumptions C05_cond_invariant.
Print Assumptions C05_cond_stochastic.
Print Assumptions C05_cond_support.
Print Assumptions C05_compose_invariant.
Print Assumptions C05_sweep_invariant.
Print Assumptions C05_invariant.
Print Assumptions C05_stochastic.
Print Assumptions C05_blk_upd.
Print Assumptions C05_blk_same_iff.
Print Assumptions C05_cond_writes_coord.
Print Assumptions C05_gibbs_invariant.
Print Assumptions C05_gibbs_stochastic.
Print Assumptions C05_dist_example.
Print Assumptions C05_stale_snapshot_refuted.
