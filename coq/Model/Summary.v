(* Model of stats.rs basic_stats (selection part): sort descending with a total order,
   min = last, median = element len/2, max = first.  f32 values enter through a monotone
   integer key (total_cmp order: the sign-magnitude bit pattern mapped to a signed integer),
   so the model sorts integers. *)
From Coq Require Export ZArith List Sorting.Mergesort Orders Lia.
Export ListNotations.

(* key of an f32 bit pattern under f32::total_cmp: positive patterns keep their value,
   negative ones (sign bit set) map to -(magnitude)-1; so -NaN < -inf < ... < -0 < +0 < ... < +inf < +NaN *)
Definition total_key32 (bits : Z) : Z :=
  if (bits <? 2147483648)%Z then bits else (2147483648 - bits - 1)%Z.
Definition key_to_bits32 (k : Z) : Z :=
  if (0 <=? k)%Z then k else (2147483648 - k - 1)%Z.

Module ZDescOrder <: TotalLeBool.
  Definition t := Z.
  Definition leb (x y : Z) := (y <=? x)%Z.      (* descending *)
  Theorem leb_total : forall a1 a2, leb a1 a2 = true \/ leb a2 a1 = true.
  Proof. intros a1 a2. unfold leb. destruct (Z.leb_spec a2 a1); [left; reflexivity|right]. apply Z.leb_le. lia. Qed.
End ZDescOrder.
Module ZDescSort := Sort ZDescOrder.

Definition sort_desc (l : list Z) : list Z := ZDescSort.sort l.

(* (min, median, max) as basic_stats selects them *)
Definition basic_sel (l : list Z) : Z * Z * Z :=
  let s := sort_desc l in
  (last s 0%Z, nth (Nat.div (length s) 2) s 0%Z, hd 0%Z s).

Definition basic_sel32 (bits : list Z) : list Z :=
  let '(mn, md, mx) := basic_sel (map total_key32 bits) in
  [key_to_bits32 mn; key_to_bits32 md; key_to_bits32 mx].
