(* placeholder until the C16 theorems are stated; see Model/Categorical.v *)
From MiniMcmc Require Import Model.Categorical.
