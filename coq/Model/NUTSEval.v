(* Table-driven instance of Model/NUTS.v for the trace-refinement check: phase-space points are
   indices along the trajectory (start = 0, `leap true` = +1, `leap false` = -1); joint values and
   per-leaf alphas are the floats the implementation computed (bit patterns), the U-turn test is
   decided exactly in Q on the emitted coordinates, the slice/divergence tests, the candidate
   choice and the acceptance test in Flocq. *)
From MiniMcmc Require Export Base.Fp Base.Num Model.NUTS.
From MiniMcmc Require Import Model.NUTSSym.
Close Scope Q_scope.
Close Scope R_scope.
Open Scope Z_scope.

Record entry := { e_joint : Z; e_alpha : Z; e_pos : list Q; e_mom : list Q }.
Definition table := list (Z * entry).
Fixpoint lookup (t : table) (i : Z) : option entry :=
  match t with
  | [] => None
  | (k, e) :: r => if Z.eqb k i then Some e else lookup r i
  end.

Definition qdot (a b : list Q) : Q := fold_right (fun ab acc => Qred (fst ab * snd ab + acc)%Q) 0%Q (combine a b).
Definition qsubv (a b : list Q) : list Q := map (fun ab => Qred (fst ab - snd ab)%Q) (combine a b).
(* stop_criterion(position_minus, position_plus, mom_minus, mom_plus): both dot products >= 0 *)
Definition noturn_tbl (t : table) (i j : Z) : bool :=
  match lookup t i, lookup t j with
  | Some a, Some b =>
      let diff := qsubv (e_pos b) (e_pos a) in
      Qle_bool 0 (qdot diff (e_mom a)) && Qle_bool 0 (qdot diff (e_mom b))
  | _, _ => false
  end.

Definition nat_b64 (n : nat) : binary64 :=
  Binary.binary_normalize 53 1024 prec64 emax64 mode_NE (Z.of_nat n) 0 false.
Definition nat_b32 (n : nat) : binary32 :=
  Binary.binary_normalize 24 128 prec32 emax32 mode_NE (Z.of_nat n) 0 false.
(* u_build_tree < n2 as f64 / max(n1 + n2, 1) as f64 *)
Definition take2_64 (u : Z) (n1 n2 : nat) : bool :=
  flt (b64_of_bits u) (b64_div mode_NE (nat_b64 n2) (nat_b64 (Nat.max (n1 + n2) 1))).

Section Prec32.
  Variable t : table.
  Variable logu : Z.
  Definition joint32 (i : Z) : binary32 :=
    match lookup t i with Some e => b32_of_bits (e_joint e) | None => b32_of_bits 2143289344 end.
  Definition alpha32 (i : Z) : binary32 :=
    match lookup t i with Some e => b32_of_bits (e_alpha e) | None => b32_of_bits 2143289344 end.
  Definition sub1000_32 (x : binary32) : binary32 := b32_minus mode_NE x (b32_of_bits 1148846080).  (* 1000.0f32 *)
  (* u_run_2 < min(1, n'/n) in T arithmetic *)
  Definition accept32 (u : Z) (n' n : nat) : bool :=
    let q := b32_div mode_NE (nat_b32 n') (nat_b32 n) in
    let one := b32_of_bits 1065353216 in
    let m := if flt q one then q else one in           (* T::one().min(q): q if q < 1 else 1 *)
    flt (b32_of_bits u) m.
  Definition trans32 (fuel : nat) (dirs : list bool) (tus accs : list Z) :=
    transition ileap joint32 (noturn_tbl t) flt sub1000_32 alpha32
               (b32_plus mode_NE) take2_64 (b32_of_bits logu) accept32 fuel 0 dirs tus accs.
End Prec32.

Section Prec64.
  Variable t : table.
  Variable logu : Z.
  Definition joint64 (i : Z) : binary64 :=
    match lookup t i with Some e => b64_of_bits (e_joint e) | None => b64_of_bits 9221120237041090560 end.
  Definition alpha64 (i : Z) : binary64 :=
    match lookup t i with Some e => b64_of_bits (e_alpha e) | None => b64_of_bits 9221120237041090560 end.
  Definition sub1000_64 (x : binary64) : binary64 := b64_minus mode_NE x (b64_of_bits 4652007308841189376).  (* 1000.0 *)
  Definition accept64 (u : Z) (n' n : nat) : bool :=
    let q := b64_div mode_NE (nat_b64 n') (nat_b64 n) in
    let one := b64_of_bits 4607182418800017408 in
    let m := if flt q one then q else one in
    flt (b64_of_bits u) m.
  Definition trans64 (fuel : nat) (dirs : list bool) (tus accs : list Z) :=
    transition ileap joint64 (noturn_tbl t) flt sub1000_64 alpha64
               (b64_plus mode_NE) take2_64 (b64_of_bits logu) accept64 fuel 0 dirs tus accs.
End Prec64.

(* rendering: per doubling [dir; n'; s'; nalpha'; alpha' bits; candidate index; accepted];
   then [-1; final index; leftover dirs; leftover tree uniforms; leftover acceptance uniforms];
   [-2] when the model ran out of variates / fuel *)
Definition render {Fl} (bits : Fl -> Z)
  (r : option (@nst Z * list (@dbl Z Fl) * list bool * list Z * list Z)) : list Z :=
  match r with
  | None => [-2]
  | Some (st, recs, dr, tr, ar) =>
      concat (map (fun d => [b2z (d_dir d); Z.of_nat (tn (d_tree d)); b2z (ts (d_tree d));
                             Z.of_nat (tnalpha (d_tree d)); bits (talpha (d_tree d)); cand (d_tree d);
                             b2z (d_accepted d)]) recs)
      ++ [-1; cur st; Z.of_nat (length dr); Z.of_nat (length tr); Z.of_nat (length ar)]
  end.

Definition mk_entry (j a : Z) (pos mom : list Q) : entry := {| e_joint := j; e_alpha := a; e_pos := pos; e_mom := mom |}.
Definition zb' (z : Z) : bool := negb (Z.eqb z 0).
Definition nuts_eval32 (t : table) (logu : Z) (dirs : list Z) (tus accs : list Z) : list Z :=
  render bits_of_b32 (trans32 t logu 64 (map zb' dirs) tus accs).
Definition nuts_eval64 (t : table) (logu : Z) (dirs : list Z) (tus accs : list Z) : list Z :=
  render bits_of_b64 (trans64 t logu 64 (map zb' dirs) tus accs).

(* the trajectory's extent after the transition: [lo; hi] of the model's final state, then span_from 0 (directions)
   (Model/NUTSSym.v: what the doublings cover when no subtree stops early) and whether every recorded subtree was complete;
   the driver compares lo/hi with the extreme trajectory indices the implementation visited, and with the span when complete
   (C03_transition_span) *)
Definition span_out {Fl} (r : option (@nst Z * list (@dbl Z Fl) * list bool * list Z * list Z)) : list Z :=
  match r with
  | None => [-2]
  | Some (st, recs, _, _, _) =>
      let B := span_from 0 (map d_dir recs) in
      let complete := forallb (fun d => ts (d_tree d)) recs in
      (* among all 2^j direction sequences, how many rebuild the same trajectory from the point the chain moved to
         (C03_transition_symmetry: exactly one) — enumerated for short complete transitions only, -1 otherwise *)
      let cnt := if complete && Nat.leb (length recs) 8
                 then Z.of_nat (length (filter (builds (cur st) (lo st, hi st)) (all_dirs (length recs)))) else (-1)%Z in
      [lo st; hi st; fst B; snd B; b2z complete; cnt]
  end.
Definition nuts_span32 (t : table) (logu : Z) (dirs : list Z) (tus accs : list Z) : list Z :=
  span_out (trans32 t logu 64 (map zb' dirs) tus accs).
Definition nuts_span64 (t : table) (logu : Z) (dirs : list Z) (tus accs : list Z) : list Z :=
  span_out (trans64 t logu 64 (map zb' dirs) tus accs).

(* the leaves each build_tree call of the transition visits (Model.NUTS.visited, the specification-side
   enumeration): per doubling, given as (depth, edge index, direction, that doubling's tree uniforms),
   the marker -1000000009 followed by the visited trajectory indices in order *)
Definition visited32 (t : table) (logu : Z) (c : nat * Z * Z * list Z) : list Z :=
  let '(j, z, v, us) := c in
  visited (fun v i => if v then i + 1 else i - 1) (joint32 t) (noturn_tbl t) flt sub1000_32 (alpha32 t)
          (b32_plus mode_NE) take2_64 (b32_of_bits logu) j z (zb' v) us.
Definition visited64 (t : table) (logu : Z) (c : nat * Z * Z * list Z) : list Z :=
  let '(j, z, v, us) := c in
  visited (fun v i => if v then i + 1 else i - 1) (joint64 t) (noturn_tbl t) flt sub1000_64 (alpha64 t)
          (b64_plus mode_NE) take2_64 (b64_of_bits logu) j z (zb' v) us.
Definition nuts_visited32 (t : table) (logu : Z) (calls : list (nat * Z * Z * list Z)) : list Z :=
  concat (map (fun c => (-1000000009) :: visited32 t logu c) calls).
Definition nuts_visited64 (t : table) (logu : Z) (calls : list (nat * Z * Z * list Z)) : list Z :=
  concat (map (fun c => (-1000000009) :: visited64 t logu c) calls).

(* ---- draw grammar of a NUTS chain: the kinds of variates it takes from its own generator, in order
   (0 = standard normal in T, 1 = Exp(1) in T, 2 = uniform in T, 3 = uniform f64).
   run(): init_chain draws d normals (momentum for the step-size heuristic, drawn on every call); every
   transition draws d normals (momentum), one Exp(1) (slice variable), and per doubling a direction uniform,
   one f64 uniform per merge of build_tree, and the acceptance uniform ---- *)
Definition nuts_transition_kinds (d : nat) (merges : list nat) : list Z :=
  repeat 0 d ++ [1] ++ concat (map (fun m => [2] ++ repeat 3 m ++ [2]) merges).
Definition nuts_run_kinds (d : nat) (transitions : list (list nat)) : list Z :=
  repeat 0 d ++ concat (map (nuts_transition_kinds d) transitions).

(* ---- acceptance term of a leaf (build_tree, j = 0), after repair D10:
     let r = exp(joint - joint_0);  alpha = if r.is_nan() { 0 } else { T::min(1, r) }
   (T::min(1, r) for a non-NaN r: r if r < 1, else 1).  The ratio r is taken as computed (exp is the
   platform's); generic in the format ---- *)
Section LeafAlpha.
  Variables prec emax : Z.
  Context (Hprec : FLX.Prec_gt_0 prec) (Hmax : BinarySingleNaN.Prec_lt_emax prec emax).
  Notation fl := (binary_float prec emax).
  Variable one : fl.
  Definition leaf_alpha (r : fl) : fl :=
    if fnan r then Binary.B754_zero prec emax false else if flt r one then r else one.
  (* the pre-repair rule: T::min(1, r) alone, which returns 1 for a NaN r *)
  Definition leaf_alpha_old (r : fl) : fl := if flt r one then r else one.
End LeafAlpha.
Arguments leaf_alpha {prec emax}.
Arguments leaf_alpha_old {prec emax}.
Definition leaf_alphas32 (rs : list Z) : list Z :=
  map (fun r => bits_of_b32 (leaf_alpha (b32_of_bits 1065353216) (b32_of_bits r))) rs.
Definition leaf_alphas64 (rs : list Z) : list Z :=
  map (fun r => bits_of_b64 (leaf_alpha (b64_of_bits 4607182418800017408) (b64_of_bits r))) rs.

(* ---- the H_bar update of NUTSChain::step, bit-exact (only IEEE basic operations are involved):
     eta   = 1 / ((m + t0) as T)                       (m already incremented, t0 = 10)
     h_bar = (1 - eta) * h_bar + eta * (delta - alpha / (n_alpha as T))
   generic in the format; `one` is 1.0 ---- *)
Section HbarStep.
  Variables prec emax : Z.
  Context (Hprec : FLX.Prec_gt_0 prec) (Hmax : BinarySingleNaN.Prec_lt_emax prec emax).
  Notation fl := (binary_float prec emax).
  Variable nanf : fl -> fl -> { x : fl | Binary.is_nan prec emax x = true }.
  Definition count_fl (n : nat) : fl :=
    Binary.binary_normalize prec emax Hprec Hmax mode_NE (Z.of_nat n) 0 false.
  Definition hbar_step (one delta h alpha : fl) (m n_alpha : nat) : fl :=
    let eta := fdiv nanf one (count_fl (m + 10)) in
    fplus nanf (fmult nanf (fminus nanf one eta) h)
               (fmult nanf eta (fminus nanf delta (fdiv nanf alpha (count_fl n_alpha)))).
End HbarStep.
Arguments hbar_step {prec emax Hprec Hmax}.
(* inputs: delta, previous h_bar, alpha (bit patterns), the new counter m, n_alpha *)
Definition hbar_step32 (delta h alpha : Z) (m n_alpha : nat) : list Z :=
  [bits_of_b32 (hbar_step binop_nan_pl32 (b32_of_bits 1065353216) (b32_of_bits delta) (b32_of_bits h) (b32_of_bits alpha) m n_alpha)].
Definition hbar_step64 (delta h alpha : Z) (m n_alpha : nat) : list Z :=
  [bits_of_b64 (hbar_step binop_nan_pl64 (b64_of_bits 4607182418800017408) (b64_of_bits delta) (b64_of_bits h) (b64_of_bits alpha) m n_alpha)].
