(* Proofs for C17: row layout of the export functions (Model/Export.v) and exactness of the
   f32 -> f64 widening. *)
From Coq Require Import Reals.
From Flocq Require Import Core.Raux Core.Defs Core.Digits Core.Float_prop Core.Generic_fmt
  Core.FLT Core.Round_NE.
From MiniMcmc Require Import Model.Export.
Close Scope R_scope.

(* ------------------------------------------------------------------------------------------ *)
(* Lists of equally long blocks                                                                 *)
(* ------------------------------------------------------------------------------------------ *)
Section Blocks.
  Context {A : Type}.

  Lemma skipn_add (x y : nat) (l : list A) : skipn (x + y) l = skipn y (skipn x l).
  Proof.
    revert l; induction x as [|x IH]; intros l; simpl; [reflexivity|].
    destruct l as [|h t]; [rewrite skipn_nil; reflexivity | apply IH].
  Qed.

  Lemma concat_blocks_length (l : list (list A)) n :
    (forall b, In b l -> length b = n) -> length (concat l) = length l * n.
  Proof.
    induction l as [|b l IH]; intros Hb; simpl; [reflexivity|].
    rewrite app_length, IH by (intros; apply Hb; right; assumption).
    rewrite (Hb b) by (left; reflexivity). reflexivity.
  Qed.

  Lemma skipn_concat_blocks (l : list (list A)) n i :
    (forall b, In b l -> length b = n) -> skipn (i * n) (concat l) = concat (skipn i l).
  Proof.
    revert i; induction l as [|b l IH]; intros i Hb.
    - simpl. rewrite !skipn_nil. reflexivity.
    - destruct i as [|i]; [reflexivity|].
      assert (Hlb : length b = n) by (apply Hb; left; reflexivity).
      simpl. rewrite skipn_app, Hlb.
      rewrite skipn_all2 by lia.
      replace (n + i * n - n) with (i * n) by lia.
      simpl. apply IH. intros; apply Hb; right; assumption.
  Qed.

  Lemma skipn_nth_cons (l : list (list A)) i :
    i < length l -> skipn i l = nth i l [] :: skipn (S i) l.
  Proof.
    revert i; induction l as [|b l IH]; intros [|i] Hi; simpl in *; try lia; try reflexivity.
    apply IH; lia.
  Qed.

  Lemma slice_app_l (k n : nat) (X Y : list A) :
    k + n <= length X -> firstn n (skipn k (X ++ Y)) = firstn n (skipn k X).
  Proof.
    intros H. rewrite skipn_app, firstn_app, skipn_length.
    replace (k - length X) with 0 by lia.
    replace (n - (length X - k)) with 0 by lia.
    simpl. apply app_nil_r.
  Qed.

  (* the i-th block of a concatenation of blocks of length n *)
  Lemma block_nth (l : list (list A)) n i :
    (forall b, In b l -> length b = n) -> i < length l ->
    firstn n (skipn (i * n) (concat l)) = nth i l [].
  Proof.
    intros Hb Hi. rewrite skipn_concat_blocks by assumption.
    rewrite skipn_nth_cons by assumption. simpl.
    assert (Hl : length (nth i l []) = n) by (apply Hb, nth_In; assumption).
    rewrite firstn_app, Hl, Nat.sub_diag. simpl.
    rewrite app_nil_r, <- Hl. apply firstn_all.
  Qed.

  (* a sub-slice lying inside the i-th block *)
  Lemma block_slice (l : list (list A)) n i k m :
    (forall b, In b l -> length b = n) -> i < length l -> k + m <= n ->
    firstn m (skipn (i * n + k) (concat l)) = firstn m (skipn k (nth i l [])).
  Proof.
    intros Hb Hi Hk.
    rewrite skipn_add.
    rewrite skipn_concat_blocks by assumption.
    rewrite skipn_nth_cons by assumption. simpl.
    apply slice_app_l.
    rewrite (Hb (nth i l [])) by (apply nth_In; assumption). assumption.
  Qed.

  Lemma combine_seq_nth (l : list A) (d : A) s :
    combine (seq s (length l)) l = map (fun i => (s + i, nth i l d)) (seq 0 (length l)).
  Proof.
    revert s; induction l as [|h t IH]; intros s; simpl; [reflexivity|].
    f_equal; [f_equal; lia|].
    rewrite IH, <- (seq_shift (length t) 0), map_map.
    apply map_ext. intros i. f_equal. lia.
  Qed.

  Lemma slice_length (off len : nat) (l : list A) :
    off + len <= length l -> length (slice off len l) = len.
  Proof. intros H. unfold slice. rewrite firstn_length, skipn_length. lia. Qed.
End Blocks.

(* ------------------------------------------------------------------------------------------ *)
(* Arithmetic of offsets                                                                        *)
(* ------------------------------------------------------------------------------------------ *)
Lemma offset_bound c o C O D : c < C -> o < O -> c * O * D + o * D + D <= C * O * D.
Proof.
  intros Hc Ho.
  replace (c * O * D + o * D + D) with ((c * O + o + 1) * D) by lia.
  apply Nat.mul_le_mono_r.
  apply Nat.le_trans with (S c * O); [simpl; lia|].
  apply Nat.mul_le_mono_r. lia.
Qed.

Lemma row_bound o O D : o < O -> o * D + D <= O * D.
Proof.
  intros Ho. replace (o * D + D) with (S o * D) by (simpl; lia).
  apply Nat.mul_le_mono_r. lia.
Qed.

(* ------------------------------------------------------------------------------------------ *)
(* Well-shaped arrays                                                                           *)
(* ------------------------------------------------------------------------------------------ *)
Section Shape.
  Context {A : Type}.
  Variables C O D : nat.
  Variable a : list (list (list A)).
  Hypothesis Hchains : length a = C.
  Hypothesis Hobs : forall ch, In ch a -> length ch = O.
  Hypothesis Hdims : forall ch r, In ch a -> In r ch -> length r = D.

  Lemma chain_length : forall blk, In blk (map (@concat A) a) -> length blk = O * D.
  Proof.
    intros blk Hin. apply in_map_iff in Hin. destruct Hin as [ch [<- Hch]].
    rewrite (concat_blocks_length ch D) by (intros r Hr; apply (Hdims ch r Hch Hr)).
    rewrite (Hobs ch Hch). reflexivity.
  Qed.

  Lemma flatten3_length : length (flatten3 a) = C * O * D.
  Proof.
    unfold flatten3. rewrite (concat_blocks_length _ (O * D) chain_length).
    rewrite map_length, Hchains. lia.
  Qed.

  Lemma flatten3_slice c o : c < C -> o < O ->
    slice (c * O * D + o * D) D (flatten3 a) = nth o (nth c a []) [].
  Proof.
    intros Hc Ho. unfold slice, flatten3.
    replace (c * O * D + o * D) with (c * (O * D) + o * D) by lia.
    rewrite (block_slice _ (O * D) c (o * D) D chain_length)
      by (rewrite ?map_length, ?Hchains; auto using row_bound).
    change (@nil A) with (concat (@nil (list A))) at 1.
    rewrite map_nth.
    assert (Hin : In (nth c a []) a) by (apply nth_In; lia).
    apply block_nth.
    - intros r Hr. apply (Hdims _ r Hin Hr).
    - rewrite (Hobs _ Hin). assumption.
  Qed.

  Lemma flatten3_offsets c o : c < C -> o < O ->
    slice (c * O * D + o * D) D (flatten3 a) = nth o (nth c a []) [] /\
    c * O * D + o * D + D <= length (flatten3 a) /\
    length (flatten3 a) = C * O * D.
  Proof.
    intros Hc Ho. split; [apply flatten3_slice; assumption|].
    rewrite flatten3_length. split; [apply offset_bound; assumption | reflexivity].
  Qed.

  Lemma rows_array_explicit :
    rows_array a
    = concat (map (fun c => map (fun o => (c, o, nth o (nth c a []) [])) (seq 0 O)) (seq 0 C)).
  Proof.
    unfold rows_array.
    rewrite (combine_seq_nth a [] 0), Hchains, map_map. f_equal.
    apply map_ext_in. intros c Hc. apply in_seq in Hc. simpl.
    assert (Hin : In (nth c a []) a) by (apply nth_In; lia).
    rewrite (combine_seq_nth (nth c a []) [] 0), (Hobs _ Hin), map_map.
    apply map_ext. intros o. reflexivity.
  Qed.

  Lemma rows_tensor_flatten3 : rows_tensor C O D (flatten3 a) = rows_array a.
  Proof.
    rewrite rows_array_explicit. unfold rows_tensor. f_equal.
    apply map_ext_in. intros c Hc. apply in_seq in Hc.
    apply map_ext_in. intros o Ho. apply in_seq in Ho.
    rewrite flatten3_slice by lia. reflexivity.
  Qed.
End Shape.

(* ------------------------------------------------------------------------------------------ *)
(* The row set                                                                                  *)
(* ------------------------------------------------------------------------------------------ *)
Definition labels {A} (rs : list (nat * nat * list A)) : list (nat * nat) :=
  map (fun r => (fst (fst r), snd (fst r))) rs.

Section Rows.
  Context {A : Type}.

  Lemma grid_length (v : nat -> nat -> list A) (l l' : list nat) :
    length (concat (map (fun c => map (fun o => (c, o, v c o)) l') l)) = length l * length l'.
  Proof.
    induction l as [|c l IH]; simpl; [reflexivity|].
    rewrite app_length, map_length, IH. reflexivity.
  Qed.

  Lemma grid_labels (v : nat -> nat -> list A) (l l' : list nat) :
    labels (concat (map (fun c => map (fun o => (c, o, v c o)) l') l)) = list_prod l l'.
  Proof.
    unfold labels. induction l as [|c l IH]; simpl; [reflexivity|].
    rewrite map_app, IH, map_map. reflexivity.
  Qed.

  Lemma grid_in (v : nat -> nat -> list A) (l l' : list nat) r :
    In r (concat (map (fun c => map (fun o => (c, o, v c o)) l') l)) ->
    exists c o, In c l /\ In o l' /\ r = (c, o, v c o).
  Proof.
    intros H. apply in_concat in H. destruct H as [blk [Hblk Hr]].
    apply in_map_iff in Hblk. destruct Hblk as [c [<- Hc]].
    apply in_map_iff in Hr. destruct Hr as [o [<- Ho]].
    exists c, o. auto.
  Qed.

  Lemma grid_empty_r (v : nat -> nat -> list A) (l : list nat) :
    concat (map (fun c => map (fun o => (c, o, v c o)) []) l) = [].
  Proof. induction l as [|c l IH]; simpl; auto. Qed.
End Rows.

Lemma NoDup_app_intro {B} (l1 l2 : list B) :
  NoDup l1 -> NoDup l2 -> (forall x, In x l1 -> ~ In x l2) -> NoDup (l1 ++ l2).
Proof.
  induction l1 as [|x l1 IH]; intros H1 H2 Hd; simpl; [assumption|].
  inversion H1 as [|? ? Hx H1']; subst. constructor.
  - rewrite in_app_iff. intros [Hin | Hin]; [contradiction|].
    apply (Hd x); [left; reflexivity | assumption].
  - apply IH; auto. intros y Hy. apply Hd. right; assumption.
Qed.

Lemma NoDup_map_pair {B B'} (x : B) (l' : list B') :
  NoDup l' -> NoDup (map (fun y => (x, y)) l').
Proof.
  induction l' as [|y l' IH]; intros H; simpl; [constructor|].
  inversion H as [|? ? Hy H']; subst. constructor; [|apply IH; assumption].
  intros Hin. apply in_map_iff in Hin. destruct Hin as [y' [Heq Hin]].
  inversion Heq; subst. contradiction.
Qed.

Lemma NoDup_list_prod_intro {B B'} (l : list B) (l' : list B') :
  NoDup l -> NoDup l' -> NoDup (list_prod l l').
Proof.
  induction l as [|x l IH]; intros H1 H2; simpl; [constructor|].
  inversion H1 as [|? ? Hx H1']; subst.
  apply NoDup_app_intro.
  - apply NoDup_map_pair; assumption.
  - apply IH; assumption.
  - intros [u w] Hin Hin'. apply in_map_iff in Hin. destruct Hin as [y [Hy _]].
    apply in_prod_iff in Hin'. inversion Hy; subst. tauto.
Qed.

Section RowSet.
  Context {A : Type}.
  Variables C O D : nat.

  Lemma rows_tensor_length (flat : list A) : length (rows_tensor C O D flat) = C * O.
  Proof.
    unfold rows_tensor.
    rewrite (grid_length (fun c o => slice (c * O * D + o * D) D flat)), !seq_length. reflexivity.
  Qed.

  Lemma rows_tensor_labels (flat : list A) :
    labels (rows_tensor C O D flat) = list_prod (seq 0 C) (seq 0 O).
  Proof.
    unfold rows_tensor. apply (grid_labels (fun c o => slice (c * O * D + o * D) D flat)).
  Qed.

  Lemma cells_NoDup : NoDup (list_prod (seq 0 C) (seq 0 O)).
  Proof. apply NoDup_list_prod_intro; apply seq_NoDup. Qed.

  Lemma rows_tensor_width (flat : list A) : C * O * D <= length flat ->
    forall r, In r (rows_tensor C O D flat) -> length (snd r) = D.
  Proof.
    intros Hlen r Hr. unfold rows_tensor in Hr.
    apply (grid_in (fun c o => slice (c * O * D + o * D) D flat)) in Hr.
    destruct Hr as [c [o [Hc [Ho ->]]]]. apply in_seq in Hc. apply in_seq in Ho. simpl.
    apply slice_length.
    apply Nat.le_trans with (C * O * D); [apply offset_bound; lia | assumption].
  Qed.

  Lemma rows_tensor_empty (flat : list A) : C = 0 \/ O = 0 -> rows_tensor C O D flat = [].
  Proof.
    unfold rows_tensor. intros [-> | ->]; [reflexivity|]. simpl.
    apply (grid_empty_r (fun c o => slice (c * 0 * D + o * D) D flat)).
  Qed.

  Lemma rows_tensor_row_set (flat : list A) :
    length (rows_tensor C O D flat) = C * O /\
    labels (rows_tensor C O D flat) = list_prod (seq 0 C) (seq 0 O) /\
    NoDup (labels (rows_tensor C O D flat)) /\
    (C * O * D <= length flat -> forall r, In r (rows_tensor C O D flat) -> length (snd r) = D) /\
    (C = 0 \/ O = 0 -> rows_tensor C O D flat = []).
  Proof.
    split; [apply rows_tensor_length|]. split; [apply rows_tensor_labels|].
    split; [rewrite rows_tensor_labels; apply cells_NoDup|].
    split; [apply rows_tensor_width | apply rows_tensor_empty].
  Qed.

  Lemma rows_array_row_set (a : list (list (list A))) :
    length a = C -> (forall ch, In ch a -> length ch = O) ->
    (forall ch r, In ch a -> In r ch -> length r = D) ->
    length (rows_array a) = C * O /\
    labels (rows_array a) = list_prod (seq 0 C) (seq 0 O) /\
    NoDup (labels (rows_array a)) /\
    (forall r, In r (rows_array a) -> length (snd r) = D) /\
    (C = 0 \/ O = 0 -> rows_array a = []).
  Proof.
    intros H1 H2 H3. rewrite <- (rows_tensor_flatten3 C O D a H1 H2 H3).
    destruct (rows_tensor_row_set (flatten3 a)) as [R1 [R2 [R3 [R4 R5]]]].
    repeat split; auto. apply R4. rewrite (flatten3_length C O D a H1 H2 H3). lia.
  Qed.
End RowSet.

(* save_parquet_tensor: the same reader with the roles of the two leading axes swapped *)
Lemma rows_parquet_tensor_is_rows_tensor {A} (O C D : nat) (flat : list A) :
  rows_parquet_tensor O C D flat = rows_tensor O C D flat.
Proof. reflexivity. Qed.

Lemma rows_parquet_tensor_order {A} (O C D : nat) (b : list (list (list A))) :
  length b = O -> (forall ob, In ob b -> length ob = C) ->
  (forall ob r, In ob b -> In r ob -> length r = D) ->
  rows_parquet_tensor O C D (flatten3 b)
  = concat (map (fun o => map (fun c => (o, c, nth c (nth o b []) [])) (seq 0 C)) (seq 0 O)).
Proof.
  intros H1 H2 H3. rewrite rows_parquet_tensor_is_rows_tensor.
  rewrite (rows_tensor_flatten3 O C D b H1 H2 H3).
  apply (rows_array_explicit O C b H1 H2).
Qed.

(* ------------------------------------------------------------------------------------------ *)
(* Header                                                                                       *)
(* ------------------------------------------------------------------------------------------ *)
Lemma map_add_seq s n : map (fun j => s + j) (seq 0 n) = seq s n.
Proof.
  induction s as [|s IH]; simpl.
  - apply map_id.
  - rewrite <- seq_shift, <- IH, map_map. reflexivity.
Qed.

Lemma header_codes_spec D :
  length (header_codes D) = 2 + D /\ header_codes D = 0 :: 1 :: seq 2 D /\ NoDup (header_codes D).
Proof.
  assert (H : header_codes D = seq 0 (2 + D)).
  { unfold header_codes. rewrite (map_add_seq 2 D). reflexivity. }
  split; [rewrite H; apply seq_length|].
  split; [rewrite H; reflexivity | rewrite H; apply seq_NoDup].
Qed.

Lemma header_codes_parquet_tensor_spec D :
  length (header_codes_parquet_tensor D) = 2 + D /\
  header_codes_parquet_tensor D = 1 :: 0 :: seq 2 D /\
  NoDup (header_codes_parquet_tensor D).
Proof.
  assert (H : header_codes_parquet_tensor D = 1 :: 0 :: seq 2 D).
  { unfold header_codes_parquet_tensor. rewrite (map_add_seq 2 D). reflexivity. }
  split; [rewrite H; simpl; rewrite seq_length; reflexivity|].
  split; [assumption|]. rewrite H.
  constructor.
  - simpl. intros [Hc | Hc]; [discriminate|]. apply in_seq in Hc. lia.
  - constructor; [|apply seq_NoDup]. intros Hc. apply in_seq in Hc. lia.
Qed.

(* ------------------------------------------------------------------------------------------ *)
(* Widening binary32 -> binary64 is exact                                                       *)
(* ------------------------------------------------------------------------------------------ *)
Open Scope R_scope.

(* every binary32 value is representable in binary64 *)
Lemma b32_in_b64_format (x : binary32) :
  generic_format radix2 (FLT_exp (3 - 1024 - 53) 53) (Binary.B2R 24 128 x).
Proof.
  apply generic_format_FLT.
  destruct (FLT_format_generic radix2 (3 - 128 - 24) 24 _ (Binary.generic_format_B2R 24 128 x))
    as [f H1 H2 H3].
  exists f; [exact H1 | | lia].
  apply Z.lt_trans with (1 := H2). reflexivity.
Qed.

Lemma Rcompare_F2R_cond_Zopp (s : bool) (m : positive) (e : Z) :
  Rcompare (F2R (Float radix2 (cond_Zopp s (Zpos m)) e)) 0 = if s then Lt else Gt.
Proof.
  destruct s; simpl.
  - apply Rcompare_Lt. apply F2R_lt_0. reflexivity.
  - apply Rcompare_Gt. apply F2R_gt_0. reflexivity.
Qed.

Lemma widen_exact (x : binary32) : Binary.is_finite 24 128 x = true ->
  Binary.B2R 53 1024 (widen x) = Binary.B2R 24 128 x /\
  Binary.is_finite 53 1024 (widen x) = true /\
  Binary.Bsign 53 1024 (widen x) = Binary.Bsign 24 128 x.
Proof.
  intros Hfin.
  destruct x as [s | s | s pl Hpl | s m e Hb]; try discriminate Hfin.
  - simpl. auto.
  - pose proof (b32_in_b64_format (Binary.B754_finite 24 128 s m e Hb)) as Hfmt.
    pose proof (Binary.abs_B2R_lt_emax 24 128 (Binary.B754_finite 24 128 s m e Hb)) as Habs.
    pose proof (Binary.binary_normalize_correct 53 1024 prec64 emax64 mode_NE
                  (cond_Zopp s (Zpos m)) e s) as Hn.
    change (widen (Binary.B754_finite 24 128 s m e Hb))
      with (Binary.binary_normalize 53 1024 prec64 emax64 mode_NE (cond_Zopp s (Zpos m)) e s).
    change (Binary.B2R 24 128 (Binary.B754_finite 24 128 s m e Hb))
      with (F2R (Float radix2 (cond_Zopp s (Zpos m)) e)) in *.
    change (Binary.Bsign 24 128 (Binary.B754_finite 24 128 s m e Hb)) with s.
    rewrite Rcompare_F2R_cond_Zopp in Hn.
    change (BinarySingleNaN.round_mode mode_NE) with ZnearestE in Hn.
    change (SpecFloat.fexp 53 1024) with (FLT_exp (3 - 1024 - 53) 53) in Hn.
    rewrite (round_generic radix2 (FLT_exp (3 - 1024 - 53) 53) ZnearestE _ Hfmt) in Hn.
    rewrite Rlt_bool_true in Hn.
    + destruct Hn as [Hn1 [Hn2 Hn3]]. split; [exact Hn1|]. split; [exact Hn2|].
      rewrite Hn3. destruct s; reflexivity.
    + apply Rlt_trans with (1 := Habs). apply bpow_lt. reflexivity.
Qed.

Lemma widen_special :
  (forall s, widen (Binary.B754_zero 24 128 s) = Binary.B754_zero 53 1024 s) /\
  (forall s, widen (Binary.B754_infinity 24 128 s) = Binary.B754_infinity 53 1024 s) /\
  (forall x, Binary.is_nan 53 1024 (widen x) = Binary.is_nan 24 128 x).
Proof.
  split; [reflexivity|]. split; [reflexivity|].
  intros x. destruct x as [s | s | s pl Hpl | s m e Hb]; try reflexivity.
  destruct (widen_exact (Binary.B754_finite 24 128 s m e Hb) eq_refl) as [_ [Hf _]].
  destruct (widen (Binary.B754_finite 24 128 s m e Hb)); try discriminate Hf; reflexivity.
Qed.
