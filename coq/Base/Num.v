(* A small record of field operations.  Every numeric model is written once over it and
   instantiated at R (theorems) and at Q with normalisation (evaluation inside Coq). *)
From Coq Require Export ZArith QArith Qreduction Reals List Bool.
Export ListNotations.

Record Num := {
  T :> Type;
  zero : T; one : T;
  add : T -> T -> T; sub : T -> T -> T; mul : T -> T -> T; div : T -> T -> T;
  ofZ : Z -> T;
  nleb : T -> T -> bool; nltb : T -> T -> bool
}.

Definition numQ : Num := {|
  T := Q; zero := 0%Q; one := 1%Q;
  add := fun a b => Qred (a + b); sub := fun a b => Qred (a - b);
  mul := fun a b => Qred (a * b); div := fun a b => Qred (a / b);
  ofZ := fun z => inject_Z z;
  nleb := Qle_bool; nltb := fun a b => negb (Qle_bool b a) |}.

Definition numR : Num := {|
  T := R; zero := 0%R; one := 1%R;
  add := Rplus; sub := Rminus; mul := Rmult; div := Rdiv;
  ofZ := IZR;
  nleb := fun a b => if Rle_dec a b then true else false;
  nltb := fun a b => if Rlt_dec a b then true else false |}.

Close Scope Q_scope.
Close Scope R_scope.

Section Generic.
  Variable K : Num.
  Notation "a + b" := (add K a b).
  Notation "a - b" := (sub K a b).
  Notation "a * b" := (mul K a b).
  Notation "a / b" := (div K a b).

  Definition ofN (n : nat) : K := ofZ K (Z.of_nat n).
  Definition sumK (l : list K) : K := fold_left (add K) l (zero K).
  Definition meanK (l : list K) : K := sumK l / ofN (length l).
  Definition sqK (x : K) : K := x * x.
End Generic.

(* rendering of a rational for the driver: numerator, denominator *)
Definition qout (q : Q) : list Z := let r := Qred q in [Qnum r; Zpos (Qden r)].
Definition qouts (l : list Q) : list Z := concat (map qout l).
(* dyadic input: m * 2^e  (e may be negative) *)
Definition dy (m e : Z) : Q :=
  if (0 <=? e)%Z then inject_Z (m * 2 ^ e)%Z else Qred (Qmake m (Z.to_pos (2 ^ (- e))%Z)).
